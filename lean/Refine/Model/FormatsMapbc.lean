import Refine.Model.Formats

/-!
  L7 Codec, part 6: the FUN3D boundary-condition map (`.mapbc`) readers of src/ref_phys.c.

    ref_phys_read_mapbc        first line: the number of entries `n` (`fgets` + `sscanf("%d")`); then `n` times
                               `fscanf("%d", &id)`, `fscanf("%d", &type)`, rest of the line dropped (`fgets`),
                               `ref_dict_store(id, type)` (sorted by id, a repeated id overwrites)
    ref_phys_read_mapbc_token  `fscanf("%d", &n)`; per entry id, type, exactly one blank (`REIS(32, fgetc)`), the family
                               name (`fgets`); stored only if the name starts with the token
    ref_phys_wall_distance_bc  the viscous codes that select the walls for `ref distance` (C12)

  Every buffer is filled by `fgets(.., sizeof(buffer), ..)`: a long name cannot overrun it.  A count larger than the
  file ends in REF_FAILURE at the first missing number.
-/
namespace Refine.Model.FormatsMapbc
open Refine.Model.Meshb (Status)
open Refine.Model.Formats

/-- `ref_dict_store`: keys ascending, the value of an existing key replaced -/
def dictStore (d : List (Int × Int)) (k v : Int) : List (Int × Int) :=
  match d with
  | [] => [(k, v)]
  | (k', v') :: r =>
    if k' = k then (k, v) :: r
    else if k < k' then (k, v) :: (k', v') :: r
    else (k', v') :: dictStore r k v

/-- the bc codes of `ref_phys_wall_distance_bc` -/
def wallCodes : List Int := [4000, -4000, 4075, 4100, 4110, -4110, -4100, 6200, 6210]

def isWall (bc : Int) : Bool := wallCodes.contains bc

/-- the boundary ids `ref_phys_wall_distance` measures from: the keys whose value is a viscous code -/
def walls (d : List (Int × Int)) : List Int := (d.filter fun e => isWall e.2).map (·.1)

/-- the first line of the file (without its end) and what follows it; `none`: no line at all -/
def firstLine : List Tok → List Tok → Option (List Tok × List Tok)
  | [], cur => if cur.isEmpty then none else some (cur.reverse, [])
  | .nl :: r, cur => some (cur.reverse, r)
  | .crlf :: r, cur => some (cur.reverse, r)
  | t :: r, cur => firstLine r (t :: cur)

/-- the `n` entries of ref_phys_read_mapbc; the pairs in file order -/
def mapbcEntries : Nat → List Tok → R (List (Int × Int))
  | 0, _ => .ok []
  | n + 1, ts =>
    match rdD ts with
    | .error e => .error e
    | .ok (id, ts) =>
    match rdD ts with
    | .error e => .error e
    | .ok (ty, ts) =>
    match skipLine 0 ts with
    | none => .error .unmodelled
    | some ts =>
    match mapbcEntries n ts with
    | .error e => .error e
    | .ok es => .ok ((id, ty) :: es)

/-- the entries of the file in file order, as ref_phys_read_mapbc reads them -/
def mapbcPairs (ts : List Tok) : R (List (Int × Int)) :=
  match firstLine ts [] with
  | none => fail
  | some (l, rest) =>
    if !lineFits l then .error .unmodelled else
    match lineD l with
    | .error e => .error e
    | .ok n => mapbcEntries (cnt n) rest

/-- ref_phys_read_mapbc into an empty dictionary -/
def readMapbc (ts : List Tok) : R (List (Int × Int)) :=
  match mapbcPairs ts with
  | .error e => .error e
  | .ok es => .ok (es.foldl (fun d e => dictStore d e.1 e.2) [])

/-- `fscanf("%d")` that must consume its whole piece (what follows is looked at character by character) -/
def rdDWhole (ts : List Tok) : R (Int × List Tok) :=
  match dropWs ts with
  | .int n :: r => .ok (Refine.Model.Meshb.wrap32 n, r)
  | [] => fail
  | _ => .error .unmodelled

def isPrefixStr (p s : String) : Bool := p.toList.isPrefixOf s.toList

/-- the entries of ref_phys_read_mapbc_token that are stored, in file order -/
def tokenEntries (token : String) : Nat → List Tok → R (List (Int × Int))
  | 0, _ => .ok []
  | n + 1, ts =>
    match rdD ts with
    | .error e => .error e
    | .ok (id, ts) =>
    match rdDWhole ts with
    | .error e => .error e
    | .ok (ty, ts) =>
    -- `REIS(32, fgetc(file))`: the next character must be a blank — another piece on the same line
    match ts with
    | [] => fail
    | .nl :: _ => fail
    | .crlf :: _ => fail
    | t :: _ =>
      let name : Option String := match t with
        | .word s => some s | .lit s _ => some s | .int k => some (toString k) | _ => none
      match name, skipLine 0 ts with
      | some nm, some rest =>
        match tokenEntries token n rest with
        | .error e => .error e
        | .ok es => .ok (if isPrefixStr token nm then (id, ty) :: es else es)
      | _, _ => .error .unmodelled

/-- ref_phys_read_mapbc_token into an empty dictionary -/
def readMapbcToken (token : String) (ts : List Tok) : R (List (Int × Int)) :=
  match rdD ts with
  | .error e => .error e
  | .ok (n, ts) =>
    match tokenEntries token (cnt n) ts with
    | .error e => .error e
    | .ok es => .ok (es.foldl (fun d e => dictStore d e.1 e.2) [])

end Refine.Model.FormatsMapbc
