import Refine.Scalar
import Refine.Model.Geom

/-!
  SmoothInterp: the donor-location / metric bookkeeping of the vertex smoothers (properties C05 and C13).

  What is modelled is the *state machine* that connects the already-modelled kernels (`Model/Metric.lean`:
  the log-Euclidean combination once the donor is known; `Model/Guards.lean`, `Model/Unit.lean`,
  `Model/Quality.lean`: the acceptance tests) in

  * `ref_interp_locate_node`, `ref_interp_locate_between` (`betweenWalk`, `betweenWalks`, `betweenFinish`)  (ref_interp.c)
  * `ref_metric_interpolate_node`, `ref_metric_interpolate_between`                    (ref_metric.c)
  * the back-off loops of `ref_smooth_no_geom_edge_improve`, `ref_smooth_no_geom_tri_improve`,
    `ref_smooth_tet_improve` (and, with identical bookkeeping, their meshlink / geometry siblings)  (ref_smooth.c)

  at the level of one vertex' state `(xyz, cell[node], part[node], bary[node], stored metric)`.

  Two things are *parameters*, not modelled here:
  (a) the background search itself — the walk from a seed cell (`ref_interp_walk_agent`) and the sequential
      sphere-tree fall-back (`ref_search_touching` + `ref_interp_enclosing_*_in_list`) enter only through their
      OUTCOME: `Bg.walk`, `Bg.seq` (the walk/tree themselves are `Model/Interp.lean`, `Model/Search.lean`, C11);
      `Bg.interp cell bary` is the interpolation kernel of `Model/Metric.lean` applied to the donor `cell`;
  (b) the acceptance tests of a try: `Guards.allowed` / `Guards.accept`.

  The control flow is copied statement by statement: order of save / restore of the donor guess, which status
  codes continue (`RXS(.., REF_NOT_FOUND, ..)`) and which abort (`RSS`, `RAISE`), and what happens when the
  interpolation returns without touching the metric.  Core-only imports (compiled into `refdrv smoothinterp`).
-/
namespace Refine.Model.SmoothInterp
open Refine Refine.Scalar
open Refine.Model.Geom (V3)

/-- `REF_EMPTY` -/
def EMPTY : Int := -1

/-- the three classes of `REF_STATUS` the callers distinguish: `REF_SUCCESS`, `REF_NOT_FOUND` (tolerated by the
    smoothers' `RXS`), anything else (propagated to the top: the run aborts) -/
inductive Status where
  | ok | notFound | failure
  deriving DecidableEq, Repr, Inhabited

def Status.name : Status → String
  | .ok => "ok" | .notFound => "not_found" | .failure => "failure"

/-- one vertex of the grid being adapted, as far as the background bookkeeping is concerned:
    `ref_node_xyz(node)`, `ref_interp->cell[node]`, `->part[node]`, `->bary[4*node..]`, and the stored metric
    (`ref_node` keeps the pair `(m, log m)`; the type `M` is whatever `Bg.interp` produces) -/
structure NodeSt (P B M : Type) where
  xyz : P
  cell : Int
  part : Int
  bary : B
  met : M

/-- outcome of `ref_interp_walk_agent` for an agent pushed at `(part, seed)` toward `xyz` -/
inductive WalkOut (B : Type) where
  /-- `REF_AGENT_ENCLOSING`: `ref_agent_seed`, `ref_agent_part`, `ref_agent_bary` -/
  | enclosing (cell part : Int) (bary : B)
  /-- `REF_AGENT_AT_BOUNDARY`, `REF_AGENT_HOP_PART`, `REF_AGENT_TERMINATED` (215 steps): no donor -/
  | lost
  /-- a `THROW` / `RSS` inside the walk -/
  | abort

/-- outcome of the sequential fall-back `ref_search_touching` + `ref_interp_enclosing_tri/tet_in_list` -/
inductive SeqOut (B : Type) where
  /-- the list of touching spheres is empty: nothing is written -/
  | none
  /-- the best candidate (largest minimal barycentric weight; it need not enclose the point) -/
  | found (cell : Int) (bary : B)
  /-- every candidate was degenerate (`RUS(REF_EMPTY, best_candidate, ..)`) or another `RSS` fired -/
  | abort

/-- the background as the bookkeeping sees it -/
structure Bg (P B M : Type) where
  /-- `ref_mpi_rank(ref_mpi)` -/
  rank : Int
  /-- `ref_mpi_para(ref_mpi)` -/
  para : Bool
  /-- `ref_cell_valid(from_tri|from_tet, cell)` -/
  valid : Int → Bool
  /-- `ref_agents_push(.., part, seed, xyz, ..)` + `ref_interp_walk_agent` -/
  walk : Int → Int → P → WalkOut B
  seq : P → SeqOut B
  /-- `ref_cell_nodes` + `ref_node_clip_bary4` + the `log_m += bary * log_parent_m` loop + `ref_node_metric_set_log`;
      `none` when one of their `RSS` fires -/
  interp : Int → B → Option M

/-- `NULL != ref_grid_interp(ref_grid)` and `ref_interp_continuously(ref_interp)` -/
structure Cfg where
  hasInterp : Bool
  continuously : Bool

variable {P B M : Type}

/-- `if (REF_EMPTY == ref_interp->cell[node]) return REF_NOT_FOUND; return REF_SUCCESS;` -/
def foundStatus (s : NodeSt P B M) : Status := if s.cell = EMPTY then .notFound else .ok

/-- `ref_interp_locate_node(ref_interp, node)` (as repaired in /repo 2d4e510) -/
def locateNode (bg : Bg P B M) (s : NodeSt P B M) : Status × NodeSt P B M :=
  -- no starting guess, skip
  if s.cell = EMPTY then (.ok, s)
  -- donor cell lives on another part: forget it (mark moved)
  else if bg.rank ≠ s.part then (.ok, { s with cell := EMPTY })
  else
    match bg.walk s.part s.cell s.xyz with
    | .abort => (.failure, s)
    | .enclosing c p b =>
      let s1 := { s with cell := c, part := p, bary := b }
      -- REIS(ref_mpi_rank(ref_mpi), ref_interp->part[node], "expected local")
      if bg.rank ≠ p then (.failure, s1)
      -- RAS(ref_cell_valid(..), "expected a valid tri|tet")
      else if !bg.valid c then (.failure, s1)
      else (foundStatus s1, s1)
    | .lost =>
      -- new seed or go exhaustive
      let s1 := { s with cell := EMPTY }
      if !bg.para then
        match bg.seq s.xyz with
        | .abort => (.failure, s1)
        | .none => (foundStatus s1, s1)
        | .found c b =>
          let s2 := { s1 with cell := c, bary := b }
          (foundStatus s2, s2)
      else (foundStatus s1, s1)

/-- `ref_metric_interpolate_node(ref_grid, node)` -/
def metricInterpolateNode (cfg : Cfg) (bg : Bg P B M) (s : NodeSt P B M) : Status × NodeSt P B M :=
  if !cfg.hasInterp then (.ok, s)
  else if !cfg.continuously then (.ok, { s with cell := EMPTY }) -- mark moved
  else
    match locateNode bg s with
    | (.ok, s1) =>
      -- location unsuccessful
      if s1.cell = EMPTY ∨ bg.rank ≠ s1.part then (.ok, s1)
      else
        match bg.interp s1.cell s1.bary with
        | none => (.failure, s1)
        | some m => (.ok, { s1 with met := m })
    | r => r -- RAISE

/-- one of the two walks of `ref_interp_locate_between`: attempted from the donor of `node0` / `node1` when that
    node exists, is located and its donor is local; `some (cell, part, bary)` when the agent ended enclosing -/
def betweenWalk (bg : Bg P B M) (from? : Option (Int × Int)) (xyz : P) : Except Unit (Option (Int × Int × B)) :=
  match from? with
  | none => .ok none
  | some (cell, part) =>
    if cell ≠ EMPTY ∧ bg.rank = part then
      match bg.walk part cell xyz with
      | .abort => .error ()
      | .lost => .ok none
      | .enclosing c p b => .ok (some (c, p, b))
    else .ok none

/-- the two walks in order: the second is only tried when the first did not end enclosing -/
def betweenWalks (bg : Bg P B M) (n0 n1 : Option (Int × Int)) (xyz : P) : Except Unit (Option (Int × Int × B)) :=
  match betweenWalk bg n0 xyz with
  | .error e => .error e
  | .ok (some r) => .ok (some r)
  | .ok none => betweenWalk bg n1 xyz

/-- the part of `ref_interp_locate_between` after the walks: store the enclosing agent's result, else (serial)
    the sequential search, which records the local rank as the donor's part (/repo 7d5a551) -/
def betweenFinish (bg : Bg P B M) (s : NodeSt P B M) (w : Option (Int × Int × B)) : Status × NodeSt P B M :=
  let s1 := match w with
    | some (c, p, b) => { s with cell := c, part := p, bary := b }
    | none => s
  if !bg.para ∧ s1.cell = EMPTY then
    match bg.seq s1.xyz with
    | .abort => (.failure, s1)
    | .none => (.ok, s1)
    | .found c b =>
      let s2 := { s1 with cell := c, bary := b }
      -- the donor found by the sequential search is local
      let s3 := if s2.cell ≠ EMPTY then { s2 with part := bg.rank } else s2
      (.ok, s3)
  else (.ok, s1)

/-- `ref_interp_locate_between(ref_interp, node0, node1, new_node)` (as repaired in /repo 7d5a551).
    `n0`, `n1`: `(cell, part)` of the end nodes, `none` for `REF_EMPTY == node`.  Always `REF_SUCCESS` unless an
    inner `RSS` fires. -/
def locateBetween (bg : Bg P B M) (n0 n1 : Option (Int × Int)) (s : NodeSt P B M) : Status × NodeSt P B M :=
  let s := { s with cell := EMPTY } -- initialize new_node locate
  match betweenWalks bg n0 n1 s.xyz with
  | .error _ => (.failure, s)
  | .ok w => betweenFinish bg s w

/-- `ref_metric_interpolate_between(ref_grid, node0, node1, new_node)`; the stored metric of `new_node` on entry is
    the edge interpolation `ref_node_interpolate_edge` has just written -/
def metricInterpolateBetween (cfg : Cfg) (bg : Bg P B M) (n0 n1 : Option (Int × Int)) (s : NodeSt P B M) :
    Status × NodeSt P B M :=
  if !cfg.hasInterp then (.ok, s)
  else if !cfg.continuously then (.ok, { s with cell := EMPTY })
  else
    match locateBetween bg n0 n1 s with
    | (.ok, s1) =>
      -- location unsuccessful or off-part don't interpolate
      if s1.cell = EMPTY ∨ bg.rank ≠ s1.part then (.ok, s1)
      else
        match bg.interp s1.cell s1.bary with
        | none => (.failure, s1)
        | some m => (.ok, { s1 with met := m })
    | r => r

/-! ### the back-off loop of the improvers -/

/-- which improver: the no-geometry edge smoother interpolates a second time (`RSS`) between its validity test
    and its quality test; the triangle and tet smoothers interpolate once per try -/
inductive Kind where
  | edge | tri | tet
  deriving DecidableEq, Repr

def Kind.reinterp : Kind → Bool
  | .edge => true
  | _ => false

/-- the acceptance tests of try `k`, evaluated on the vertex state after the interpolation of that try
    (the neighbours do not change during one improver call, so the vertex state is the only variable) -/
structure Guards (P B M : Type) where
  /-- edge smoother only: `ref_smooth_valid_no_geom_tri` after the first interpolation -/
  allowed : Nat → NodeSt P B M → Bool
  /-- the quality / ratio (/ tet) acceptance -/
  accept : Nat → NodeSt P B M → Bool

inductive Outcome where
  /-- `return REF_SUCCESS` inside try `k` (0-based) -/
  | accepted (k : Nat)
  /-- all tries used: original coordinates restored, metric re-interpolated there -/
  | rolledBack
  /-- an `RSS` / `RXS` fired: the status reaches `ref_adapt_pass` and the run stops -/
  | aborted
  deriving DecidableEq, Repr

structure Result (P B M : Type) where
  outcome : Outcome
  st : NodeSt P B M
  /-- status and vertex state after every `ref_metric_interpolate_node` call, in call order (trace for the tie) -/
  calls : List (Status × NodeSt P B M)

/-- `interp_guess = REF_EMPTY; if (NULL != ref_interp) if (ref_interp_continuously(ref_interp)) interp_guess = cell[node];` -/
def interpGuess (cfg : Cfg) (s : NodeSt P B M) : Int :=
  if cfg.hasInterp && cfg.continuously then s.cell else EMPTY

/-- `if (REF_EMPTY != interp_guess && REF_SUCCESS != interp_status) ref_interp_cell(ref_interp, node) = interp_guess;` -/
def restoreGuess (guess : Int) (st : Status) (s : NodeSt P B M) : NodeSt P B M :=
  if guess ≠ EMPTY ∧ st ≠ .ok then { s with cell := guess } else s

/-- after the loop: `xyz = original; RXS(ref_metric_interpolate_node(ref_grid, node), REF_NOT_FOUND, "interp");` -/
def rollback (cfg : Cfg) (bg : Bg P B M) (orig : P) (s : NodeSt P B M) (cs : List (Status × NodeSt P B M)) :
    Result P B M :=
  match metricInterpolateNode cfg bg { s with xyz := orig } with
  | (.failure, s2) => ⟨.aborted, s2, cs ++ [(.failure, s2)]⟩
  | (st, s2) => ⟨.rolledBack, s2, cs ++ [(st, s2)]⟩

/-- `for (tries = 0; tries < n; tries++) { .. }` followed by the roll-back; `k` is the 0-based index of the try
    about to be made, `n` the number of tries left, `trial k` the position `backoff_k * ideal + (1 - backoff_k) * original` -/
def loop (reinterp : Bool) (cfg : Cfg) (bg : Bg P B M) (g : Guards P B M) (trial : Nat → P) (orig : P) (guess : Int) :
    Nat → Nat → NodeSt P B M → List (Status × NodeSt P B M) → Result P B M
  | 0, _, s, cs => rollback cfg bg orig s cs
  | n + 1, k, s, cs =>
    match metricInterpolateNode cfg bg { s with xyz := trial k } with
    | (.failure, s2) => ⟨.aborted, s2, cs ++ [(.failure, s2)]⟩ -- RXS(interp_status, REF_NOT_FOUND, ..)
    | (st, s2) =>
      let cs := cs ++ [(st, s2)]
      if st = .ok then
        if reinterp then
          if g.allowed k s2 then
            match metricInterpolateNode cfg bg s2 with -- RSS(ref_metric_interpolate_node(..), "interp node")
            | (.ok, s3) =>
              let cs := cs ++ [(.ok, s3)]
              if g.accept k s3 then ⟨.accepted k, s3, cs⟩
              else loop reinterp cfg bg g trial orig guess n (k + 1) (restoreGuess guess st s3) cs
            | (st', s3) => ⟨.aborted, s3, cs ++ [(st', s3)]⟩
          else loop reinterp cfg bg g trial orig guess n (k + 1) (restoreGuess guess st s2) cs
        else if g.accept k s2 then ⟨.accepted k, s2, cs⟩
        else loop reinterp cfg bg g trial orig guess n (k + 1) (restoreGuess guess st s2) cs
      else loop reinterp cfg bg g trial orig guess n (k + 1) (restoreGuess guess st s2) cs

/-- the improver after its early exits (`Model/Guards.lean`: `smoothTriFrozen`, `smoothEdgeFrozen`): save the
    original position and the donor guess, `tries` back-off tries (8 in the C), roll-back -/
def improve (kind : Kind) (cfg : Cfg) (bg : Bg P B M) (g : Guards P B M) (tries : Nat) (trial : Nat → P)
    (s0 : NodeSt P B M) : Result P B M :=
  loop kind.reinterp cfg bg g trial s0.xyz (interpGuess cfg s0) tries 0 s0 []

/-- the C's number of tries -/
def cTries : Nat := 8

/-! ### trial positions -/

variable {α : Type} [Scalar α]

/-- `backoff = 1.0;` then `backoff *= 0.5;` at the end of each try -/
def backoffAt : Nat → α
  | 0 => Scalar.ofInt 1
  | k + 1 => backoffAt k *. Scalar.ofDec 5 (-1)

/-- `ref_node_xyz(ref_node, ixyz, node) = backoff * ideal[ixyz] + (1.0 - backoff) * original[ixyz];` -/
def trialPos (ideal original : V3 α) (k : Nat) : V3 α :=
  let b : α := backoffAt k
  let f (i o : α) : α := b *. i +. (Scalar.ofInt 1 -. b) *. o
  ⟨f ideal.x original.x, f ideal.y original.y, f ideal.z original.z⟩

/-! ### histories: a grid is a map from node index to vertex state -/

/-- the per-vertex states of a grid (only the vertices the bookkeeping arrays cover) -/
abbrev GridSt (P B M : Type) := Nat → NodeSt P B M

def GridSt.set (G : GridSt P B M) (n : Nat) (s : NodeSt P B M) : GridSt P B M :=
  fun i => if i = n then s else G i

/-- one step of a history -/
inductive Op (P B M : Type) where
  /-- an improver call on vertex `node`; the acceptance tests may depend on the whole grid state -/
  | improve (kind : Kind) (node : Nat) (g : GridSt P B M → Guards P B M) (tries : Nat) (trial : GridSt P B M → Nat → P)
  /-- split insertion: vertex slot `new` receives position `xyz` and the edge-interpolated metric `met`, then
      `ref_metric_interpolate_between(node0, node1, new)` -/
  | between (node0 node1 : Option Nat) (new : Nat) (xyz : P) (met : M)

/-- `(cell, part)` of an end node of the split edge -/
def endOf (G : GridSt P B M) : Option Nat → Option (Int × Int)
  | none => none
  | some n => some ((G n).cell, (G n).part)

/-- a step either succeeds and updates one vertex, or aborts the run (`none`) -/
def stepOp (cfg : Cfg) (bg : Bg P B M) (G : GridSt P B M) : Op P B M → Option (GridSt P B M)
  | .improve kind node g tries trial =>
    let r := improve kind cfg bg (g G) tries (trial G) (G node)
    match r.outcome with
    | .aborted => none
    | _ => some (G.set node r.st)
  | .between n0 n1 new xyz met =>
    match metricInterpolateBetween cfg bg (endOf G n0) (endOf G n1) { (G new) with xyz := xyz, met := met } with
    | (.ok, s) => some (G.set new s)
    | _ => none

def runOps (cfg : Cfg) (bg : Bg P B M) : GridSt P B M → List (Op P B M) → Option (GridSt P B M)
  | G, [] => some G
  | G, op :: rest =>
    match stepOp cfg bg G op with
    | none => none
    | some G' => runOps cfg bg G' rest

end Refine.Model.SmoothInterp
