import Refine.Model.Comm

/-!
  L3 "Par": the two mechanisms that make parallel adaptation as safe as serial (C04) and the gathered
  output independent of the rank count (C07).

  * ownership guards (executable, control flow copied incl. early exits):
      `cellLocalGem`            ref_cell_local_gem            src/ref_cell.c
      `collapseEdgeLocalCell`   ref_collapse_edge_local_cell  src/ref_collapse.c
      `smoothLocalCellAbout`    ref_smooth_local_cell_about   src/ref_smooth.c
      `swapLocalCell`           ref_swap_local_cell           src/ref_swap.c
    over a rank-local view: cells are node tuples, `part : node → rank`, `me` = ref_mpi_rank.
  * `gatherNode`: the chunked loop of ref_gather_node (src/ref_gather.c) over `World (RankView α)`;
    the per-chunk reduction to rank 0 is `Refine.Model.Comm.sum` (ref_mpi_sum).
  * `gatherCell`: the owner filter of ref_gather_cell / ref_cell_part (a cell is emitted by the rank that owns
    the cell node with the smallest global id), rank 0 first, then the workers in rank order.
-/
namespace Refine.Model.Par
open Refine.Model.Comm

/-! ## ownership guards -/

/-- a cell of one group: its node tuple (local node indices) -/
abbrev Cell := List Nat

/-- `ref_node_owned(ref_node, node)`: `ref_mpi_rank == ref_node_part(node)` -/
def owned (part : Nat → Nat) (me n : Nat) : Bool := part n == me

/-- the inner `for (node = 0; node < node_per; node++) if (!ref_node_owned(..)) return` loop: `all`
    stops at the first node that is not owned, as the C does -/
def allOwned (part : Nat → Nat) (me : Nat) (c : Cell) : Bool := c.all (owned part me)

/-- `each_ref_cell_having_node(ref_cell, node, item, cell)`: the cells that contain `node` -/
def having (cells : List Cell) (n : Nat) : List Cell := cells.filter fun c => c.contains n

/-- body of ref_cell_local_gem / ref_swap_local_cell over the cells around `node0`:
    a cell that also contains `node1` and has a node that is not owned ends the search with `false`
    (the early `return REF_SUCCESS` with `*local = REF_FALSE`) -/
def gemLoop (part : Nat → Nat) (me n1 : Nat) : List Cell → Bool
  | [] => true
  | c :: cs => if c.contains n1 && !(allOwned part me c) then false else gemLoop part me n1 cs

/-- ref_cell_local_gem(ref_cell, ref_node, node0, node1, &local) -/
def cellLocalGem (cells : List Cell) (part : Nat → Nat) (me n0 n1 : Nat) : Bool :=
  gemLoop part me n1 (having cells n0)

/-- the loop "every cell around a node is fully owned" (smooth, collapse) -/
def aboutLoop (part : Nat → Nat) (me : Nat) : List Cell → Bool
  | [] => true
  | c :: cs => if !(allOwned part me c) then false else aboutLoop part me cs

/-- ref_smooth_local_cell_about(ref_cell, ref_node, about_node, &allowed) -/
def smoothLocalCellAbout (cells : List Cell) (part : Nat → Nat) (me n : Nat) : Bool :=
  aboutLoop part me (having cells n)

/-- ref_collapse_edge_local_cell(ref_grid, node0, node1, &allowed): tets around node1, tets around node0,
    tris around node1, tris around node0 — in this order; the `edg` group is NOT tested by the C -/
def collapseEdgeLocalCell (tets tris : List Cell) (part : Nat → Nat) (me n0 n1 : Nat) : Bool :=
  if !(aboutLoop part me (having tets n1)) then false
  else if !(aboutLoop part me (having tets n0)) then false
  else if !(aboutLoop part me (having tris n1)) then false
  else if !(aboutLoop part me (having tris n0)) then false
  else true

/-- ref_swap_local_cell(ref_grid, node0, node1, &allowed): the triangle group only -/
def swapLocalCell (tris : List Cell) (part : Nat → Nat) (me n0 n1 : Nat) : Bool :=
  gemLoop part me n1 (having tris n0)

/-! ## distributed view -/

/-- a node stored on a rank: global id, `ref_node_part`, payload (xyz / metric / scalar row) -/
structure Node (α : Type) where
  global : Nat
  part : Nat
  payload : α

/-- a cell stored on a rank: global ids of its nodes, and the id (tag) column -/
structure GCell where
  nodes : List Nat
  id : Int
  deriving DecidableEq, Repr

/-- what one rank stores -/
structure RankView (α : Type) where
  nodes : List (Node α)
  cells : List GCell

/-- `ref_node_local(ref_node, global, &local)`: the stored node with this global (REF_NOT_FOUND = none) -/
def localOf {α : Type} (v : RankView α) (g : Nat) : Option (Node α) :=
  v.nodes.find? fun nd => nd.global == g

/-- does rank `r` own global `g`: stored there with `part == rank` -/
def ownerPayload {α : Type} (r : Nat) (v : RankView α) (g : Nat) : Option α :=
  match localOf v g with
  | some nd => if nd.part == r then some nd.payload else none
  | none => none

/-- one record of `local_xyzm`: the payload and the hit marker `1.0`, or zeros -/
def slotOf {α : Type} (zero : α) : Option α → α × Nat
  | some p => (p, 1)
  | none => (zero, 0)

/-- the records the ranks `r, r+1, …` put in the slot of global `g` -/
def contribsFrom {α : Type} (zero : α) (g : Nat) : Nat → World (RankView α) → List (α × Nat)
  | _, [] => []
  | r, v :: vs => slotOf zero (ownerPayload r v g) :: contribsFrom zero g (r + 1) vs

/-- `MPI_SUM` on one record -/
def slotAdd {α : Type} (add : α → α → α) (a b : α × Nat) : α × Nat := (add a.1 b.1, a.2 + b.2)

/-- rank `r`'s `local_xyzm` for the chunk `[first, first+n)` -/
def localBuf {α : Type} (zero : α) (first n r : Nat) (v : RankView α) : List (α × Nat) :=
  (List.range n).map fun i => slotOf zero (ownerPayload r v (first + i))

def localBufsFrom {α : Type} (zero : α) (first n : Nat) : Nat → World (RankView α) → World (List (α × Nat))
  | _, [] => []
  | r, v :: vs => localBuf zero first n r v :: localBufsFrom zero first n (r + 1) vs

/-- one pass of the `while` body up to the reduction: every rank fills `local_xyzm`, `ref_mpi_sum` (type
    REF_DBL) reduces to rank 0; the result is rank 0's `xyzm[0..n)` -/
def chunkBlock {α : Type} (add : α → α → α) (zero : α) (w : World (RankView α)) (first n : Nat) :
    List (α × Nat) :=
  let bufs := localBufsFrom zero first n 0 w
  match (sum (slotAdd add) RefType.dbl n (bufs.map fun b => (b, List.replicate n (zero, 0)))).head? with
  | some (_, out) => out
  | none => []

/-- the `while (nnode_written < n_global)` loop.  `fuel` bounds the number of passes: running out of fuel is the
    C's infinite loop when `chunk = 0` (`n = 0`, `nnode_written` never advances).
    Result: what rank 0 wrote, and `node_not_used_once`. -/
def gatherLoop {α : Type} (add : α → α → α) (zero : α) (w : World (RankView α)) (N chunk : Nat) :
    Nat → Nat → List α → Bool → Option (List α × Bool)
  | 0, _, _, _ => none
  | fuel + 1, written, acc, bad =>
    if written < N then
      let n := min chunk (N - written)
      let blk := chunkBlock add zero w written n
      gatherLoop add zero w N chunk fuel (written + n) (acc ++ blk.map (·.1))
        (bad || blk.any fun s => s.2 != 1)
    else some (acc, bad)

/-- ref_gather_node with the chunk size given -/
def gatherNodeChunked {α : Type} (add : α → α → α) (zero : α) (chunk N : Nat) (w : World (RankView α)) :
    Option (List α × Bool) :=
  gatherLoop add zero w N chunk (N + 1) 0 [] false

/-- `ref_mpi_reduce_chunk_limit(ref_mpi, bytes)` -/
def reduceChunkLimit (reduceByteLimit bytes : Int) : Int :=
  if reduceByteLimit > 0 then Int.tdiv reduceByteLimit bytes else INT_MAX

/-- `chunk = n_global / np + 1; chunk = MIN(chunk, ref_mpi_reduce_chunk_limit(ref_mpi, 4*sizeof(REF_DBL)))` -/
def chunkOf (N np : Nat) (reduceByteLimit : Int) : Nat :=
  (min ((N / np + 1 : Nat) : Int) (reduceChunkLimit reduceByteLimit 32)).toNat

/-- outcome of ref_gather_node -/
inductive GatherResult (α : Type)
  | hang                        -- chunk = 0 and n_global > 0: the C never leaves the loop
  | done (st : Status) (written : List α)

/-- ref_gather_node: everything is written first; the status is `failure` ("node used more or less than once")
    when some slot had a hit count ≠ 1 -/
def gatherNode {α : Type} (add : α → α → α) (zero : α) (reduceByteLimit : Int) (N : Nat)
    (w : World (RankView α)) : GatherResult α :=
  match gatherNodeChunked add zero (chunkOf N w.length reduceByteLimit) N w with
  | none => .hang
  | some (written, bad) => .done (if bad then Status.failure else Status.ok) written

/-! ## cell gather -/

/-- position-independent form of ref_cell_part_cell_node: the smallest global of the cell -/
def minGlobal : List Nat → Option Nat
  | [] => none
  | g :: gs => some (gs.foldl (fun m x => if x < m then x else m) g)

/-- ref_cell_part: `ref_node_part` of the cell node with the smallest global (none = REF_EMPTY cell) -/
def cellPart {α : Type} (v : RankView α) (c : GCell) : Option Nat :=
  match minGlobal c.nodes with
  | some m => (localOf v m).map (·.part)
  | none => none

/-- the record written for a cell: globals + 1, then the id -/
def emit (c : GCell) : List Int := c.nodes.map (fun (g : Nat) => (g : Int) + 1) ++ [c.id]

/-- the cells rank `r` emits: `ref_mpi_rank == part` -/
def emitted {α : Type} (r : Nat) (v : RankView α) : List GCell :=
  v.cells.filter fun c => cellPart v c == some r

def emittedFrom {α : Type} : Nat → World (RankView α) → List (List GCell)
  | _, [] => []
  | r, v :: vs => emitted r v :: emittedFrom (r + 1) vs

/-- ref_gather_cell: rank 0 writes its own cells, then receives and writes each worker's, in rank order -/
def gatherCell {α : Type} (w : World (RankView α)) : List GCell := (emittedFrom 0 w).flatten

/-- ref_cell_ncell: local count of owned cells, `ref_mpi_allsum` -/
def ncell {α : Type} (w : World (RankView α)) : Nat := ((emittedFrom 0 w).map List.length).sum

end Refine.Model.Par
