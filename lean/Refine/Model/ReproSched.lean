import Refine.Model.Comm
import Refine.Model.ContainersSort

/-!
  C18 mechanism (b): message passing is a function of the data, not of the delivery order.

  `Refine.Model.Comm.p2pExchange` (the tagged point-to-point matcher behind `ref_mpi_alltoallv_native` and the
  rank-0 scatter / gather loops) is order-free BY CONSTRUCTION: it looks a message up by (source, dest, tag).
  Here the same exchange is given an OPERATIONAL semantics with two explicit schedules:

  * `arrival`    — the order in which the posted messages reach the receivers' mailboxes (any interleaving the
                   network produces).  MPI matching: the receives of a rank are matched in the order they were
                   posted; a receive names its source and its tag (no wildcard: `Refine.Gen.SideConds`) and takes
                   the EARLIEST-ARRIVED unmatched message with that (source, tag) (`takeFirst`, `matchRecvs`).
  * `completion` — the order in which the matched receives of a rank deposit their data into its receive buffer
                   (`MPI_Irecv` + `MPI_Waitall`: any order; blocking `MPI_Recv` loops: posted order).

  `p2pSched arrival completion w` is `p2pExchange w` with `recvPosted` replaced by that operational receive.
  The theorems (`Props/C18Mech.lean`) say the result does not depend on the two schedules; the driver `repro`
  runs `p2pSched` under pseudo-random schedules against the real `ref_mpi.c` under random delays.

  Core-only (linked into `refdrv`).
-/
namespace Refine.Model.ReproSched
open Refine.Model.Comm

/-- a message in flight -/
structure Env (α : Type) where
  src : Int
  dest : Int
  tag : Int
  data : List α

/-- the messages rank `r` posted, in program order -/
def msgsOf {α : Type} (r : Nat) (p : Posted α) : List (Env α) :=
  p.msgs.map fun m => ⟨(r : Int), m.dest, m.tag, m.data⟩

/-- every message of the exchange: rank by rank, program order inside a rank -/
def allMsgsFrom {α : Type} : Nat → World (Posted α) → List (Env α)
  | _, [] => []
  | r, p :: ps => msgsOf r p ++ allMsgsFrom (r + 1) ps

def allMsgs {α : Type} (w : World (Posted α)) : List (Env α) := allMsgsFrom 0 w

/-- what arrived at rank `me`, in arrival order -/
def mailbox {α : Type} (arrival : List (Env α)) (me : Int) : List (Env α) :=
  arrival.filter fun m => m.dest == me

/-- the earliest-arrived message from `src` with `tag`, and the mailbox without it -/
def takeFirst {α : Type} (src tag : Int) : List (Env α) → Option (Env α × List (Env α))
  | [] => none
  | m :: ms =>
    if m.src == src && m.tag == tag then some (m, ms)
    else (takeFirst src tag ms).map fun x => (x.1, m :: x.2)

/-- MPI matching on one rank: receives in posted order, each takes the earliest unmatched message of its
    (source, tag); `none` = a receive never completes, or a message longer than the posted count (truncation) -/
def matchRecvs {α : Type} : List (Env α) → List Rcv → Option (List (Rcv × Env α))
  | _, [] => some []
  | mb, rq :: rqs =>
    match takeFirst rq.source rq.tag mb with
    | none => none
    | some (m, mb') =>
      if (m.data.length : Int) ≤ rq.cnt then (matchRecvs mb' rqs).map fun l => (rq, m) :: l else none

/-- deposit the matched messages into the receive buffer in the order `order` (indices into `pairs`) -/
def complete {α : Type} (pairs : List (Rcv × Env α)) (order : List Nat) (buf : List α) : List α :=
  order.foldl (fun b i =>
    match pairs[i]? with
    | some pr => writeAt b pr.1.off.toNat pr.2.data
    | none => b) buf

/-- the operational receive of rank `me` -/
def recvSched {α : Type} (arrival : List (Env α)) (order : List Nat) (me : Int) (rcvs : List Rcv) (buf : List α) :
    Option (List α) :=
  (matchRecvs (mailbox arrival me) rcvs).map fun pairs => complete pairs order buf

/-- `p2pExchange` with the operational receive: `completion r` is the completion order on rank `r` -/
def p2pSched {α : Type} (arrival : List (Env α)) (completion : Nat → List Nat) (w : World (Posted α)) :
    Option (World (Comm.Status × List α)) :=
  allSome (w.mapIdx fun r p =>
    if p.status ≠ Comm.Status.ok then
      (if p.rcvs.isEmpty && p.msgs.isEmpty then some (p.status, p.buf) else none)
    else if p.msgs.all (sendMatched w (r : Int)) then
      (recvSched arrival (completion r) (r : Int) p.rcvs p.buf).map fun b => (Comm.Status.ok, b)
    else none)

/-! ### pseudo-random schedules for the driver (any choice is covered by the theorems) -/

/-- a `rand()`-like stream (the glibc TYPE_0 LCG, irrelevant which): `k` values from `seed` -/
def lcg : Nat → Nat → List Nat
  | 0, _ => []
  | k + 1, s =>
    let s' := (s * 1103515245 + 12345) % 2147483648
    s' :: lcg k s'

/-- `ref_sort_shuffle`'s permutation of `0..n-1` under that stream -/
def permOf (seed n : Nat) : List Nat := Refine.Model.Sort.shuffle n (lcg n seed)

/-- the list reordered by `permOf` -/
def shuffled {β : Type} (seed : Nat) (l : List β) : List β :=
  (permOf seed l.length).filterMap fun i => l[i]?

/-- native all-to-all (`MPI_Irecv` / `MPI_Isend` / `MPI_Waitall`): pseudo-random arrival order, pseudo-random
    completion order on every rank -/
def alltoallvNativeSched {α : Type} (seed : Nat) (ty : RefType) (maxTag : Int) (n : Int) (w : World (A2A α)) :
    Option (World (Comm.Status × List α)) :=
  let posted := w.mapIdx fun r a => nativePost ty (w.length : Int) maxTag (r : Int) n a
  p2pSched (shuffled seed (allMsgs posted))
    (fun r => permOf (seed + 7919 * (r + 1)) ((posted.getD r ⟨Comm.Status.ok, [], [], []⟩).rcvs.length)) posted

/-- the posted world of `Refine.Model.Comm.scatter` -/
def scatterPosted {α : Type} [Inhabited α] (ty : RefType) (maxTag : Int) (chunks : List (List α)) : World (Posted α) :=
  chunks.mapIdx fun r c =>
    if r = 0 then
      let ms : List (Msg α) := ((chunks.zipIdx).drop 1).map fun (cp : List α × Nat) => ⟨(cp.2 : Int), (cp.2 : Int), cp.1⟩
      let sent := postAll ty maxTag (fun m => m.tag) ms
      ⟨sent.1, [], sent.2, c⟩
    else
      let rq := postAll ty maxTag (fun (q : Rcv) => q.tag) [⟨0, (r : Int), 0, (c.length : Int)⟩]
      ⟨rq.1, rq.2, [], List.replicate c.length default⟩

/-- the posted world of `Refine.Model.Comm.gather` -/
def gatherPosted {α : Type} [Inhabited α] (ty : RefType) (maxTag : Int) (w : World (List α)) : World (Posted α) :=
  let sizes : List Int := w.map fun c => (c.length : Int)
  let offs := displs sizes
  w.mapIdx fun r c =>
    if r = 0 then
      let rq : List Rcv := (((sizes.zip offs).zipIdx).drop 1).map fun (x : (Int × Int) × Nat) =>
        ⟨(x.2 : Int), (x.2 : Int), x.1.2, x.1.1⟩
      let buf := writeAt (List.replicate (isum sizes).toNat default) 0 c
      let got := postAll ty maxTag (fun (q : Rcv) => q.tag) rq
      ⟨got.1, got.2, [], buf⟩
    else
      let sent := postAll ty maxTag (fun (m : Msg α) => m.tag) [⟨0, (r : Int), c⟩]
      ⟨sent.1, [], sent.2, []⟩

/-- blocking loops: the receives complete in posted order; only the arrival order is free -/
def scatterSched {α : Type} [Inhabited α] (seed : Nat) (ty : RefType) (maxTag : Int) (chunks : List (List α)) :
    Option (World (Comm.Status × List α)) :=
  let posted := scatterPosted ty maxTag chunks
  p2pSched (shuffled seed (allMsgs posted))
    (fun r => List.range ((posted.getD r ⟨Comm.Status.ok, [], [], []⟩).rcvs.length)) posted

def gatherSched {α : Type} [Inhabited α] (seed : Nat) (ty : RefType) (maxTag : Int) (w : World (List α)) :
    Option (World (Comm.Status × List α)) :=
  let posted := gatherPosted ty maxTag w
  p2pSched (shuffled seed (allMsgs posted))
    (fun r => List.range ((posted.getD r ⟨Comm.Status.ok, [], [], []⟩).rcvs.length)) posted

end Refine.Model.ReproSched
