import Refine.Model.Search

/-!
  Donor-cell search of `ref_interp.c` (serial paths), generic over `Scalar`.

  * `createSearch`      = `ref_interp_create_search`: per valid donor cell `ref_node_bounding_sphere(nodes, node_per)`
                          (`node_per` = 3 for a 2-D donor, 4 for tets) then `ref_search_insert(cell, center,
                          donor_scale*radius)`.
  * `enclosingInList`   = `ref_interp_enclosing_tet_in_list` / `_tri_in_list`: max over the candidates of the min
                          barycentric weight, first candidate wins ties, `REF_DIV_ZERO` candidates skipped.
  * `treeOne`           = one target node of `ref_interp_tree`: `ref_search_touching(xyz, search_fuzz)` then
                          `enclosing_*_in_list` (no acceptance tolerance: the best candidate is stored whatever its
                          min weight; an empty candidate list asks for a larger fuzz).
  * `locateTree`        = `ref_interp_locate` for a receptor without geometry nodes (no walk seeds: every node goes
                          through the tree), including the `fuzz *= 10` retry loop (12 tries).
  * `walkAgent`         = `ref_interp_walk_agent`: step across the face opposite the smallest weight until every
                          weight is `>= inside` (-1e-12), the boundary is met, or 215 steps were taken.
  * `locateNode`        = `ref_interp_locate_node` (serial): walk from the stored guess, else the tree candidates.

  The donor grid is a node coordinate list plus the valid cells `(cell id, node ids)` in increasing id order (the order
  of `each_ref_cell_valid_cell_with_nodes`).  Operation order of every `REF_DBL` expression is copied from the C.
  Tie: `Drivers/Interp.lean` vs `harness/h_interp.c`.
-/
namespace Refine.Model.Interp
open Refine Refine.Model.Geom Refine.Model.Search

variable {α : Type} [Scalar α]

/-- the `REF_STATUS` values these paths can return -/
inductive ISt where
  | ok | failure | invalid | divZero | notFound | increaseLimit | implement
  deriving DecidableEq, Repr

def ISt.name : ISt → String
  | .ok => "ok" | .failure => "failure" | .invalid => "invalid" | .divZero => "div_zero"
  | .notFound => "not_found" | .increaseLimit => "increase_limit" | .implement => "implement"

def ISt.ofGeom : Geom.St → ISt
  | .ok => .ok | .failure => .failure | .invalid => .invalid | .divZero => .divZero | .implement => .implement

def ISt.ofSearch : Search.Status → ISt
  | .ok => .ok | .failure => .failure | .invalid => .invalid | .increaseLimit => .increaseLimit

/-- node ids of a donor cell in the C order; `n3` is unused for a triangle -/
structure CellN where
  n0 : Nat
  n1 : Nat
  n2 : Nat
  n3 : Nat
  deriving DecidableEq, Repr

/-- donor grid: `ref_grid_twod`, node coordinates, valid cells (tri if `twod` else tet) by increasing id, and (3-D) the
    boundary triangles the walk verifies against when it meets the boundary -/
structure Donor (α : Type) where
  twod : Bool
  xyz : List (V3 α)
  cells : List (Int × CellN)
  btris : List (Nat × Nat × Nat)

namespace Donor

def pt (d : Donor α) (i : Nat) : V3 α := d.xyz.getD i ⟨Scalar.zero, Scalar.zero, Scalar.zero⟩

/-- `ref_cell_nodes`: `none` is `REF_INVALID` -/
def cellAt (d : Donor α) (c : Int) : Option CellN := (d.cells.find? (fun p => p.1 == c)).map (·.2)

/-- the `node_per` vertices handed to `ref_node_bounding_sphere`: 3 for a 2-D donor, 4 for a tet -/
def cellPts (d : Donor α) (n : CellN) : List (V3 α) :=
  if d.twod then [d.pt n.n0, d.pt n.n1, d.pt n.n2] else [d.pt n.n0, d.pt n.n1, d.pt n.n2, d.pt n.n3]

end Donor

/-- `REF_EMPTY` -/
def refEmpty : Int := -1

def zeroB4 : B4 α := ⟨lit0, lit0, lit0, lit0⟩

/-! ## the search tree of the donor cells -/

/-- the loop body of `ref_interp_create_search`: sphere of all `node_per` vertices, radius scaled by `donor_scale` -/
def cellSphere (d : Donor α) (scale : α) (n : CellN) : V3 α × α :=
  let (c, r) := boundingSphere (d.cellPts n)
  (c, scale *. r)

def createSearchGo (d : Donor α) (scale : α) (s : Search α) : List (Int × CellN) → Search.Status × Search α
  | [] => (.ok, s)
  | (cell, n) :: rest =>
    let (c, r) := cellSphere d scale n
    match s.insert cell c r with
    | (.ok, s') => createSearchGo d scale s' rest
    | (st, s') => (st, s')

/-- `ref_interp_create_search`: `ref_search_create(ref_cell_n)`, then one insert per valid cell in id order -/
def createSearch (d : Donor α) (scale : α) : Search.Status × Option (Search α) :=
  match (Search.create (Int.ofNat d.cells.length) : Except Search.Status (Search α)) with
  | .error st => (st, none)
  | .ok s0 =>
    let (st, s) := createSearchGo d scale s0 d.cells
    (st, some s)

/-! ## barycentric weights of a donor cell -/

/-- `ref_node_bary4` on the cell's nodes, or (2-D) `bary[3] = 0.0; ref_node_bary3` -/
def baryOf (d : Donor α) (n : CellN) (x : V3 α) : Geom.St × B4 α :=
  if d.twod then
    let (st, b) := bary3 (d.pt n.n0) (d.pt n.n1) (d.pt n.n2) x
    (st, ⟨b.b0, b.b1, b.b2, lit0⟩)
  else bary4 (d.pt n.n0) (d.pt n.n1) (d.pt n.n2) (d.pt n.n3) x

/-- `MIN(MIN(b0,b1),MIN(b2,b3))`, or (2-D) `MIN(MIN(b0,b1),b2)` -/
def minBary (twod : Bool) (b : B4 α) : α :=
  if twod then Scalar.cmin (Scalar.cmin b.b0 b.b1) b.b2
  else Scalar.cmin (Scalar.cmin b.b0 b.b1) (Scalar.cmin b.b2 b.b3)

/-- `MIN(MIN(bary[0],bary[1]),MIN(bary[2],bary[3]))` as `ref_interp_tree` forms it from the stored four weights -/
def minBary4 (b : B4 α) : α := Scalar.cmin (Scalar.cmin b.b0 b.b1) (Scalar.cmin b.b2 b.b3)

/-! ## best candidate of a list -/

/-- the loop of `ref_interp_enclosing_*_in_list`; state `(best_candidate, best_bary)`.
    `if (REF_EMPTY == best_candidate || min_bary > best_bary)`: the first candidate wins ties -/
def inListFold (d : Donor α) (x : V3 α) : List Int → Int × α → Except ISt (Int × α)
  | [], best => .ok best
  | c :: rest, best =>
    match d.cellAt c with
    | none => .error .invalid
    | some n =>
      match baryOf d n x with
      | (.ok, b) =>
        let m := minBary d.twod b
        inListFold d x rest (if best.1 == refEmpty || best.2 <. m then (c, m) else best)
      | (.divZero, _) => inListFold d x rest best
      | (st, _) => .error (ISt.ofGeom st)

/-- `best_bary = -999.0` -/
def bestInit : Int × α := (refEmpty, Scalar.ofInt (-999))

/-- `ref_interp_enclosing_tet_in_list` / `ref_interp_enclosing_tri_in_list`: status, `*cell`, `bary[0..3]` -/
def enclosingInList (d : Donor α) (l : List Int) (x : V3 α) : ISt × Int × B4 α :=
  match inListFold d x l bestInit with
  | .error st => (st, refEmpty, zeroB4)
  | .ok best =>
    if best.1 == refEmpty then (.failure, refEmpty, zeroB4)
    else match d.cellAt best.1 with
      | none => (.invalid, best.1, zeroB4)
      | some n =>
        match baryOf d n x with
        | (.ok, b) => (.ok, best.1, b)
        | (st, b) => (ISt.ofGeom st, best.1, b)

/-! ## the tree path -/

/-- one target node of `ref_interp_tree` (serial): candidates by `ref_search_touching(xyz, fuzz)`; an empty list leaves
    the node unlocated (`REF_EMPTY`, asks for more fuzz), otherwise the best candidate is stored -/
def treeOne (d : Donor α) (s : Search α) (fuzz : α) (x : V3 α) : ISt × Int × B4 α :=
  let l := s.touching x fuzz
  if l.isEmpty then (.ok, refEmpty, zeroB4) else enclosingInList d l x

/-- one call of `ref_interp_tree` over the still unlocated targets, in node order; stops at the first error -/
def treePass (d : Donor α) (s : Search α) (fuzz : α) :
    List (V3 α × Int × B4 α) → Except ISt (List (V3 α × Int × B4 α))
  | [] => .ok []
  | (x, c, b) :: rest =>
    if c != refEmpty then (treePass d s fuzz rest).map ((x, c, b) :: ·)
    else match treeOne d s fuzz x with
      | (.ok, c', b') => (treePass d s fuzz rest).map ((x, c', b') :: ·)
      | (st, _, _) => .error st

/-- the retry loop of `ref_interp_locate`: `for tries < 12: if increase_fuzz: fuzz *= 10; tree; if !increase break` -/
def locateLoop (d : Donor α) (s : Search α) :
    Nat → Bool → α → List (V3 α × Int × B4 α) → ISt × α × List (V3 α × Int × B4 α)
  | 0, inc, fuzz, ts => (if inc then .failure else .ok, fuzz, ts)
  | k + 1, inc, fuzz, ts =>
    let fuzz' := if inc then fuzz *. Scalar.ofInt 10 else fuzz
    match treePass d s fuzz' ts with
    | .error st => (st, fuzz', ts)
    | .ok ts' =>
      if ts'.any (fun t => t.2.1 == refEmpty) then locateLoop d s k true fuzz' ts'
      else (.ok, fuzz', ts')

/-- `ref_interp_locate` for receptor nodes without walk seeds (no geometry nodes): everything goes through the tree -/
def locateTree (d : Donor α) (s : Search α) (fuzz : α) (xs : List (V3 α)) : ISt × α × List (V3 α × Int × B4 α) :=
  locateLoop d s 12 false fuzz (xs.map fun x => (x, refEmpty, zeroB4))

/-! ## the neighbour walk -/

inductive Mode where
  | walking | enclosing | atBoundary | terminated
  deriving DecidableEq, Repr

def Mode.name : Mode → String
  | .walking => "walking" | .enclosing => "enclosing" | .atBoundary => "at_boundary" | .terminated => "terminated"

structure Agent (α : Type) where
  mode : Mode
  seed : Int
  step : Nat
  bary : B4 α

def CellN.has (twod : Bool) (n : CellN) (i : Nat) : Bool :=
  n.n0 == i || n.n1 == i || n.n2 == i || (!twod && n.n3 == i)

/-- `ref_interp_bary_inside`: all four stored weights `>= inside` -/
def baryInside (inside : α) (b : B4 α) : Bool :=
  Scalar.bge b.b0 inside && Scalar.bge b.b1 inside && Scalar.bge b.b2 inside && Scalar.bge b.b3 inside

/-- `ref_update_agent_tri_seed(node0,node1)` / `ref_update_agent_tet_seed(node0,node1,node2)` in serial (every node
    owned): the cells sharing the face; none → `THROW`; one → boundary (3-D: the boundary triangle must exist, else
    `REF_NOT_FOUND`); two → hop to the other one; more → `REF_INCREASE_LIMIT` (2-D) / `REF_INVALID` (3-D) -/
def updateSeed (d : Donor α) (a : Agent α) (face : List Nat) : ISt × Agent α :=
  let sharing := (d.cells.filter fun p => face.all fun i => p.2.has d.twod i).map (·.1)
  match sharing with
  | [] => (.failure, a)
  | [_] =>
    if d.twod then (.ok, { a with mode := .atBoundary })
    else
      let same (t : Nat × Nat × Nat) : Bool :=
        face.all (fun i => t.1 == i || t.2.1 == i || t.2.2 == i) &&
        [t.1, t.2.1, t.2.2].all (fun i => face.contains i)
      if d.btris.any same then (.ok, { a with mode := .atBoundary }) else (.notFound, a)
  | [c0, c1] =>
    if a.seed == c0 then (.ok, { a with seed := c1 })
    else if a.seed == c1 then (.ok, { a with seed := c0 })
    else (.notFound, a)
  | _ => (if d.twod then .increaseLimit else .invalid, a)

/-- which face the walk crosses: the `<` cascade then the `<=` cascade of `ref_interp_walk_agent`, copied with the
    repeated `bary[2] < bary[0] && bary[2] < bary[0]` of the 2-D branch; `none` is the final `THROW` (NaN weights) -/
def walkFace (twod : Bool) (n : CellN) (b : B4 α) : Option (List Nat) :=
  let lt (x y : α) : Bool := x <. y
  let le (x y : α) : Bool := x <=. y
  if twod then
    if lt b.b0 b.b1 && lt b.b0 b.b2 then some [n.n1, n.n2]
    else if lt b.b1 b.b0 && lt b.b1 b.b2 then some [n.n2, n.n0]
    else if lt b.b2 b.b0 && lt b.b2 b.b0 then some [n.n0, n.n1]
    else if le b.b0 b.b1 && le b.b0 b.b2 then some [n.n1, n.n2]
    else if le b.b1 b.b0 && le b.b1 b.b2 then some [n.n2, n.n0]
    else if le b.b2 b.b0 && le b.b2 b.b0 then some [n.n0, n.n1]
    else none
  else
    if lt b.b0 b.b1 && lt b.b0 b.b2 && lt b.b0 b.b3 then some [n.n1, n.n2, n.n3]
    else if lt b.b1 b.b0 && lt b.b1 b.b3 && lt b.b1 b.b2 then some [n.n0, n.n3, n.n2]
    else if lt b.b2 b.b0 && lt b.b2 b.b1 && lt b.b2 b.b3 then some [n.n0, n.n1, n.n3]
    else if lt b.b3 b.b0 && lt b.b3 b.b2 && lt b.b3 b.b1 then some [n.n0, n.n2, n.n1]
    else if le b.b0 b.b1 && le b.b0 b.b2 && le b.b0 b.b3 then some [n.n1, n.n2, n.n3]
    else if le b.b1 b.b0 && le b.b1 b.b3 && le b.b1 b.b2 then some [n.n0, n.n3, n.n2]
    else if le b.b2 b.b0 && le b.b2 b.b1 && le b.b2 b.b3 then some [n.n0, n.n1, n.n3]
    else if le b.b3 b.b0 && le b.b3 b.b2 && le b.b3 b.b1 then some [n.n0, n.n2, n.n1]
    else none

/-- result of one pass through the loop body -/
inductive Iter (α : Type) where
  | error (st : ISt)
  | done (a : Agent α)   -- `return REF_SUCCESS` inside the loop
  | next (a : Agent α)   -- `continue`

/-- loop body of `ref_interp_walk_agent` for a walking agent -/
def walkIter (d : Donor α) (inside : α) (x : V3 α) (a : Agent α) : Iter α :=
  match d.cellAt a.seed with
  | none => .error .invalid
  | some n =>
    match baryOf d n x with
    | (.ok, b) | (.divZero, b) =>
      if baryInside inside b then .done { a with mode := .enclosing, bary := b }
      else match walkFace d.twod n b with
        | none => .error .failure
        | some face =>
          match updateSeed d a face with
          | (.ok, a') => .next a'
          | (st, _) => .error st
    | (st, _) => .error (ISt.ofGeom st)

/-- `each_ref_agent_step(ref_agents, id, limit)`; `fuel` is `limit - step`.  Leaving the loop by the bound sets
    `REF_AGENT_TERMINATED` (also when the boundary was met on the very last step). -/
def walkLoop (d : Donor α) (inside : α) (x : V3 α) : Nat → Agent α → ISt × Agent α
  | 0, a => (.ok, { a with mode := .terminated })
  | fuel + 1, a =>
    if a.mode != .walking then (.ok, a)
    else match walkIter d inside x a with
      | .error st => (st, a)
      | .done a' => (.ok, a')
      | .next a' => walkLoop d inside x fuel { a' with step := a'.step + 1 }

/-- `limit = 215` -/
def walkLimit : Nat := 215

/-- `ref_interp_walk_agent` -/
def walkAgent (d : Donor α) (inside : α) (x : V3 α) (a : Agent α) : ISt × Agent α :=
  walkLoop d inside x (walkLimit - a.step) a

/-- `ref_interp_locate_node` in serial for a node with a stored guess `seed` (≠ `REF_EMPTY`): walk; if the walk did
    not end `ENCLOSING`, take the best tree candidate; `REF_NOT_FOUND` if there is none -/
def locateNode (d : Donor α) (s : Search α) (inside fuzz : α) (seed : Int) (x : V3 α) : ISt × Int × B4 α :=
  match walkAgent d inside x ⟨.walking, seed, 0, zeroB4⟩ with
  | (.ok, a) =>
    if a.mode == .enclosing then (.ok, a.seed, a.bary)
    else
      let l := s.touching x fuzz
      if l.isEmpty then (.notFound, refEmpty, zeroB4)
      else match enclosingInList d l x with
        | (.ok, c, b) => (.ok, c, b)
        | (st, c, b) => (st, c, b)
  | (st, a) => (st, a.seed, zeroB4)

/-- `ref_interp->inside = -1.0e-12` -/
@[inline] def insideDefault : α := Scalar.ofDec (-1) (-12)
/-- `ref_interp_search_fuzz = 1.0e-12` -/
@[inline] def fuzzDefault : α := Scalar.ofDec 1 (-12)
/-- `ref_interp_search_donor_scale = 2.0` -/
@[inline] def scaleDefault : α := Scalar.ofInt 2

end Refine.Model.Interp
