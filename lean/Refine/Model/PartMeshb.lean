import Refine.Model.Meshb
import Refine.Model.Comm
import Refine.Model.Dist
import Refine.Gen.PartMacros

/-!
  The PARALLEL libMeshb reader: `ref_part_by_extension` → `ref_part_meshb` (src/ref_part.c) with
  `ref_part_node`, `ref_part_meshb_cell`, `ref_part_meshb_geom_bcast`, the CAD blob, then
  `ref_cell_add_many_global` (src/ref_cell.c), `ref_migrate_shufflin_cell` (src/ref_migrate.c),
  `ref_geom_ghost`, `ref_node_ghost_real` — the state of every rank just BEFORE
  `ref_grid_inward_boundary_orientation` (the last call of `ref_part_meshb`; it only reverses boundary cells).

  `partRead np chunkMin bytes = parse np chunkMin bytes >>= distribute np`:

  * `parse` is what rank 0 does with the file (all file access and all validation is on rank 0): the header
    scan and keyword jumps are the SAME C functions as the serial reader (`Meshb.header`, `Meshb.jump`), the
    vertex section is read block by block (`ref_part_first` of the generated partition macros), every cell
    section in chunks of `chunk = (REF_INT)MAX(1000000, ncell / np)` records with ONE checked `fread` per chunk,
    then the range check `c2n < 1 || nnode < c2n → REF_INVALID` on the 1-based values of the chunk, then the
    decrement and the pyramid shuffle.  `(REF_INT)` casts are modelled (`wrap32`); the places where the C has
    undefined behaviour or does not return are explicit results: `Status.undefined` (`size_per * chunk`
    overflows `int`), `Status.diverge` (`section_size = 0`: the `while (ncell_read < ncell)` loop makes no progress);
    since /repo 4474557 every declared cell / geometry count passes `ref_part_meshb_count_fits` first, and
    `Props/C20PartMeshb.lean` proves both outcomes unreachable behind it (`partCell_loop_progress`, `partCell_no_int_overflow`).
  * `distribute` is the SPMD part on `World PRank` (one entry per rank): vertex block `p` goes to rank `p`; per
    chunk the routing `dest = ref_part_implicit(nnode, np, c2n[size_per*cell])` (FIRST vertex after the pyramid
    shuffle), the counting sort `elements_to_send` / `start_to_send` / `new_location` (`Comm.countDest`,
    `Comm.displs`, `Comm.pack` with one cell per slot), `ref_cell_add_many_global` on the receiving rank
    (ghost vertices added, `part` set, a cell whose vertex SET is already stored is dropped: `ref_cell_with`),
    after the last chunk `ref_migrate_shufflin_cell` (every cell is sent to every other part that owns one of its
    vertices; the exchange is `ref_mpi_alltoallv`, modelled by its C17 post-condition: a rank receives the blocks
    addressed to it in source-rank order), the geometry records (broadcast, kept where the vertex is local),
    the CAD bytes (broadcast), `ref_geom_ghost`, `ref_node_ghost_real`.
    `Status.undefined` in `routeChunk` stands for an index outside `elements_to_send[0..np)`;
    `Props/C20PartMeshb.lean` proves it unreachable.

  Not modelled: the `pad` branch of `ref_part_meshb_cell` (`pad` is the constant `REF_FALSE`), the local index
  order of ghost vertices (`ref_node_add_many` de-duplicates with an unstable heap sort; the tie prints vertices
  sorted by global id), integer width beyond the casts named above.

  Core-only imports: this file is linked into `refdrv`.
-/
namespace Refine.Model.PartMeshb
open Refine.Gen
open Refine.Gen.PartMacros
open Refine.Model.Meshb
open Refine.Model.Comm (World countDest displs pack slice)

/-! ## rank 0: reading -/

/-- `ref_part_meshb_long`: `int` (versions < 4) or `long`, NOT truncated (the serial reader truncates) -/
def rdLong (v : Nat) : P Int := fun s =>
  if v < 4 then rdI32 s else
  match rdU 8 s with
  | .ok (n, r) => .ok (toSigned 64 n, r)
  | .error e => .error e

/-- one vertex record as `ref_part_node` reads it: `dim` doubles (whatever the version) and the reference -/
def rdVertD (v : Nat) (twod : Bool) : P Vertex := fun s =>
  match rdF64 s with
  | .error e => .error e
  | .ok (x, s) =>
  match rdF64 s with
  | .error e => .error e
  | .ok (y, s) =>
  match (if twod then (.ok (0, s) : Except Status (UInt64 × Bytes)) else rdF64 s) with
  | .error e => .error e
  | .ok (z, s) =>
  match (if 0 < v then rdLong v s else .ok (0, s)) with
  | .error e => .error e
  | .ok (_, s) => .ok (⟨x, y, z⟩, s)

def rdVertsD (v : Nat) (twod : Bool) : Nat → P (List Vertex)
  | 0, s => .ok ([], s)
  | n + 1, s =>
    match rdVertD v twod s with
    | .error e => .error e
    | .ok (p, s) =>
    match rdVertsD v twod n s with
    | .error e => .error e
    | .ok (ps, s) => .ok (p :: ps, s)

/-- how many vertex records rank 0 reads for part `p`: its own `for (node < ref_part_first(nnode, n, 1))`, and
    `n = (REF_INT)(first(part+1) - first(part))`, read `if (n > 0)`, for a worker -/
def blockCount (N : Int) (np : Nat) (p : Nat) : Int :=
  if p = 0 then ref_part_first N (np : Int) 1
  else wrap32 (ref_part_first N (np : Int) ((p : Int) + 1) - ref_part_first N (np : Int) (p : Int))

def blockCounts (N : Int) (np : Nat) : List Int := (List.range np).map (blockCount N np)

def rdBlocks (v : Nat) (twod : Bool) : List Int → P (List (List Vertex))
  | [], s => .ok ([], s)
  | c :: cs, s =>
    match rdVertsD v twod c.toNat s with
    | .error e => .error e
    | .ok (b, s) =>
    match rdBlocks v twod cs s with
    | .error e => .error e
    | .ok (bs, s) => .ok (b :: bs, s)

def rdLongs (v : Nat) : Nat → P (List Int)
  | 0, s => .ok ([], s)
  | n + 1, s =>
    match rdLong v s with
    | .error e => .error e
    | .ok (x, s) =>
    match rdLongs v n s with
    | .error e => .error e
    | .ok (xs, s) => .ok (x :: xs, s)

/-- `n` records of `k` integers (loop with an accumulator: a chunk has up to a million records) -/
def rdRecsAcc (v k : Nat) : Nat → Bytes → List (List Int) → Except Status (List (List Int) × Bytes)
  | 0, s, acc => .ok (acc.reverse, s)
  | n + 1, s, acc =>
    match rdLongs v k s with
    | .error e => .error e
    | .ok (r, s) => rdRecsAcc v k n s (r :: acc)

def rdRecs (v k n : Nat) : P (List (List Int)) := fun s => rdRecsAcc v k n s []

/-- a cell as the model carries it: `size_per` integers, `node_per` GLOBAL 0-based vertex ids then the id for the
    groups with `last_node_is_an_id` -/
abbrev Cell := List Int

/-- the range check of `ref_part_meshb_cell`, on the 1-based value, both bounds as coded -/
def badIndex (N : Int) (x : Int) : Bool := decide (x < 1 ∨ N < x)

def rawBad (ci : CellInfo) (N : Int) (raw : List Int) : Bool := (raw.take ci.nodePer).any (badIndex N)

/-- copy of the first `size_per` integers, `c2n--` on the vertices, pyramid shuffle of `ref_part.c` -/
def cellOfRaw (ci : CellInfo) (raw : List Int) : Cell :=
  let nodes := (raw.take ci.nodePer).map fun x => x - 1
  let nodes := if ci.isPyr then permute PyrPerm.partMeshb nodes else nodes
  nodes ++ (if ci.lastId then (raw.drop ci.nodePer).take 1 else [])

/-- one trip of the `while (ncell_read < ncell)` loop on rank 0 up to the routing: ONE `fread` of
    `section_size * (1 + node_per)` integers (`REIS` → `REF_FAILURE` when short), then the range check of every
    vertex of the chunk (`REF_INVALID`) -/
def readChunk (v : Nat) (ci : CellInfo) (N : Int) (sec : Nat) : P (List Cell) := fun s =>
  if s.length < sec * (ci.nodePer + 1) * intSize v then .error .failure else
  match rdRecs v (ci.nodePer + 1) sec s with
  | .error e => .error e
  | .ok (raws, s) =>
    if raws.any (rawBad ci N) then .error .invalid
    else .ok (raws.map (cellOfRaw ci), s)

def INT_MAX : Int := 2147483647

/-- `ref_malloc(ptr, a * b, type)` with `a * b` computed in `int`: overflow is undefined behaviour, a negative
    count is `REF_FAILURE`, more than the allocator gives is `REF_NULL` -/
def mallocInts (cap : Nat) (bytesPer : Nat) (count : Int) : Except Status Unit :=
  if count > INT_MAX ∨ count < -INT_MAX - 1 then .error .undefined
  else if count < 0 then .error .failure
  else if cap < bytesPer * count.toNat then .error .null
  else .ok ()

/-- `chunk = (REF_INT)MAX(1000000, ncell / (REF_LONG)ref_mpi_n(ref_mpi))` (`chunkMin` = the constant) -/
def chunkOf (chunkMin : Nat) (ncell : Int) (np : Nat) : Int :=
  wrap32 (max (chunkMin : Int) (Int.tdiv ncell (np : Int)))

/-- `section_size = MIN(chunk, (REF_INT)(ncell - ncell_read))` -/
def sectionSize (chunk ncell nread : Int) : Int := min chunk (wrap32 (ncell - nread))

/-- the `while (ncell_read < ncell)` loop of rank 0: the chunks, in order.  `sec = 0` is the C's infinite loop
    (nothing is read, `ncell_read` stays); a negative `sec` makes `nread = (size_t)(…)` enormous and the `fread`
    short.  With these two cases out every trip advances by ≥ 1, so `fuel = ncell + 1` is never exhausted. -/
def rdCellChunks (v : Nat) (ci : CellInfo) (N chunk ncell : Int) :
    Nat → Int → Bytes → List (List Cell) → Except Status (List (List Cell) × Bytes)
  | 0, nread, s, acc => if nread < ncell then .error .diverge else .ok (acc.reverse, s)
  | fuel + 1, nread, s, acc =>
    if nread < ncell then
      let sec := sectionSize chunk ncell nread
      if sec = 0 then .error .diverge
      else if sec < 0 then .error .failure
      else
        match readChunk v ci N sec.toNat s with
        | .error e => .error e
        | .ok (cells, s) => rdCellChunks v ci N chunk ncell fuel (nread + sec) s (cells :: acc)
    else .ok (acc.reverse, s)

/-- `ref_part_meshb_cell` as far as rank 0's file access goes: the buffers sized by `chunk`, then the loop -/
def rdCellSection (cfg : Cfg) (chunkMin : Nat) (v : Nat) (np : Nat) (ci : CellInfo) (N ncell : Int) :
    P (List (List Cell)) := fun s =>
  let chunk := chunkOf chunkMin ncell np
  match mallocInts cfg.allocCap 8 ((ci.sizePer : Int) * chunk) with        -- sent_c2n (every rank), c2n
  | .error e => .error e
  | .ok _ =>
  match mallocInts cfg.allocCap 8 (((ci.nodePer : Int) + 1) * chunk) with  -- c2n_int, c2n_long
  | .error e => .error e
  | .ok _ => rdCellChunks v ci N chunk ncell (ncell.toNat + 1) 0 s []

/-- a geometry record as broadcast: 0-based vertex (`read_node--`), id, gref, two parameters -/
structure RawGeom where
  node : Int
  id : Int
  gref : Int
  p0 : UInt64
  p1 : UInt64
  deriving DecidableEq, Repr, Inhabited

/-- C `(REF_LONG)d` on x86-64 (`cvttsd2si` 64-bit): truncation toward zero, `LONG_MIN` when out of range / NaN -/
def d2l (b : UInt64) : Int :=
  let n := b.toNat
  let s := n / 2 ^ 63
  let e := (n / 2 ^ 52) % 2048
  let mant := n % 2 ^ 52
  if e < 1023 then 0
  else if 1023 + 63 ≤ e then -(2 ^ 63 : Int)
  else
    let m := 2 ^ 52 + mant
    let sh := e - 1023
    let mag : Nat := if sh ≤ 52 then m / 2 ^ (52 - sh) else m * 2 ^ (sh - 52)
    if s = 1 then -(mag : Int) else (mag : Int)

/-- one record of `ref_part_meshb_geom_bcast` on rank 0 -/
def rdGeomRec (v t : Nat) : P RawGeom := fun s =>
  match rdLong v s with
  | .error e => .error e
  | .ok (node, s) =>
  match rdLong v s with
  | .error e => .error e
  | .ok (id, s) =>
  match (if 0 < t then rdF64 s else .ok (0, s)) with
  | .error e => .error e
  | .ok (p0, s) =>
  match (if 1 < t then rdF64 s else .ok (0, s)) with
  | .error e => .error e
  | .ok (p1, s) =>
  match (if 0 < t then rdF64 s else .ok (0, s)) with
  | .error e => .error e
  | .ok (g, s) =>
    .ok ({ node := node - 1, id := id, gref := if 0 < t then d2l g else id, p0 := p0, p1 := p1 }, s)

def rdGeomRecs (v t : Nat) : Nat → P (List RawGeom)
  | 0, s => .ok ([], s)
  | n + 1, s =>
    match rdGeomRec v t s with
    | .error e => .error e
    | .ok (g, s) =>
    match rdGeomRecs v t n s with
    | .error e => .error e
    | .ok (gs, s) => .ok (g :: gs, s)

/-- the `while (ngeom_read < ngeom)` loop (the records are broadcast chunk by chunk; only their order matters) -/
def rdGeomChunks (v t : Nat) (chunk ngeom : Int) :
    Nat → Int → Bytes → List RawGeom → Except Status (List RawGeom × Bytes)
  | 0, nread, s, acc => if nread < ngeom then .error .diverge else .ok (acc, s)
  | fuel + 1, nread, s, acc =>
    if nread < ngeom then
      let sec := sectionSize chunk ngeom nread
      if sec = 0 then .error .diverge
      else if sec < 0 then .error .undefined   -- `ref_mpi_bcast` with a negative count
      else
        match rdGeomRecs v t sec.toNat s with
        | .error e => .error e
        | .ok (gs, s) => rdGeomChunks v t chunk ngeom fuel (nread + sec) s (acc ++ gs)
    else .ok (acc, s)

/-- `ref_part_meshb_geom_bcast`: `chunk = MAX(1000000, ngeom/np)`, `chunk = MIN(chunk, ngeom)`, four buffers -/
def rdGeomSection (cfg : Cfg) (chunkMin : Nat) (v np t : Nat) (ngeom : Int) : P (List RawGeom) := fun s =>
  let chunk := wrap32 (min (chunkOf chunkMin ngeom np) ngeom)
  match mallocInts cfg.allocCap 8 chunk with
  | .error e => .error e
  | .ok _ =>
  match mallocInts cfg.allocCap 8 (2 * chunk) with
  | .error e => .error e
  | .ok _ => rdGeomChunks v t chunk ngeom (ngeom.toNat + 1) 0 s []

/-- `ref_part_meshb_count_fits(file, count)` (rank 0, /repo 4474557), `rest` = the bytes after the count field:
    `0 <= count && count <= REF_INT_MAX && count <= (end - here) / 4` — C integer division of the remaining bytes -/
def countFits (count : Int) (rest : Bytes) : Bool :=
  decide (0 ≤ count) && decide (count ≤ INT_MAX) && decide (count ≤ ((rest.length / 4 : Nat) : Int))

/-- a keyword section of `ref_part_meshb`: jump, `ref_part_meshb_long` count, `ref_part_meshb_count_fits` right after
    it (`RAS` → `REF_FAILURE`, on rank 0 before anything is broadcast), body, `REIS(next_position, ftello)` -/
def kwSectionL {α : Type} (v : Nat) (bs : Bytes) (kp : KeyPos) (kw : Nat) (dflt : α)
    (body : Int → P α) : Except Status α :=
  match jump v bs kp kw with
  | .error e => .error e
  | .ok none => .ok dflt
  | .ok (some (next, s)) =>
    match rdLong v s with
    | .error e => .error e
    | .ok (n, s) =>
    if !countFits n s then .error .failure else
    match body n s with
    | .error e => .error e
    | .ok (a, s) => if next = tell bs s then .ok a else .error .failure

def rdCellGroupsP (cfg : Cfg) (chunkMin v np : Nat) (bs : Bytes) (kp : KeyPos) (N : Int) :
    List CellInfo → Except Status (List (List (List Cell)))
  | [] => .ok []
  | ci :: cis =>
    match kwSectionL v bs kp ci.kw [] (fun n => rdCellSection cfg chunkMin v np ci N n) with
    | .error e => .error e
    | .ok g =>
    match rdCellGroupsP cfg chunkMin v np bs kp N cis with
    | .error e => .error e
    | .ok gs => .ok (g :: gs)

def rdGeomTypesP (cfg : Cfg) (chunkMin v np : Nat) (bs : Bytes) (kp : KeyPos) :
    List Nat → Except Status (List (List RawGeom))
  | [] => .ok []
  | t :: ts =>
    match kwSectionL v bs kp (40 + t) [] (fun n => rdGeomSection cfg chunkMin v np t n) with
    | .error e => .error e
    | .ok g =>
    match rdGeomTypesP cfg chunkMin v np bs kp ts with
    | .error e => .error e
    | .ok gs => .ok (g :: gs)

/-- everything rank 0 takes from the file -/
structure Parsed where
  twod : Bool
  nnode : Int
  /-- vertex records per part -/
  blocks : List (List Vertex)
  /-- per cell group (16), the chunks in reading order, cells 0-based and shuffled -/
  groups : List (List (List Cell))
  /-- per geometry type 0,1,2 the records in file order -/
  geoms : List (List RawGeom)
  cad : Bytes
  deriving DecidableEq, Repr

/-- `ref_part_meshb` as far as rank 0's file access and validation go -/
def parseWith (cfg : Cfg) (np chunkMin : Nat) (bs : Bytes) : Except Status Parsed :=
  match header cfg bs with
  | .error e => .error e
  | .ok (v, kp) =>
  match jump v bs kp 3 with
  | .error e => .error e
  | .ok none => .error .failure            -- "meshb missing dimension"
  | .ok (some (_, s)) =>
  match rdI32 s with
  | .error e => .error e
  | .ok (dim, _) =>
  let twod := decide (dim = 2)              -- no other check of `dim`
  match jump v bs kp 4 with
  | .error e => .error e
  | .ok none => .error .failure            -- "meshb missing vertex"
  | .ok (some (next, s)) =>
  match rdLong v s with
  | .error e => .error e
  | .ok (nnode, s) =>
  match rdBlocks v twod (blockCounts nnode np) s with
  | .error e => .error e
  | .ok (blocks, s) =>
  if next ≠ tell bs s then .error .failure else
  match rdCellGroupsP cfg chunkMin v np bs kp nnode cellInfos with
  | .error e => .error e
  | .ok groups =>
  match rdGeomTypesP cfg chunkMin v np bs kp [0, 1, 2] with
  | .error e => .error e
  | .ok geoms =>
  match rdCad cfg v bs kp with
  | .error e => .error e
  | .ok cad => .ok { twod := twod, nnode := nnode, blocks := blocks, groups := groups, geoms := geoms, cad := cad }

/-! ## all ranks: placement -/

/-- a vertex held by a rank; `xyz = none`: the slot was never written (a ghost before `ref_node_ghost_real`) -/
structure PNode where
  glob : Int
  part : Int
  xyz : Option Vertex
  deriving DecidableEq, Repr, Inhabited

/-- a geometry association held by a rank (vertex as global id) -/
structure PGeom where
  type : Nat
  id : Int
  gref : Int
  node : Int
  p0 : UInt64
  p1 : UInt64
  deriving DecidableEq, Repr, Inhabited

structure PRank where
  /-- `old_n_global = new_n_global` after `ref_node_initialize_n_global` -/
  nGlobal : Int
  nodes : List PNode
  /-- per cell group, local cell order -/
  cells : List (List Cell)
  geoms : List PGeom
  cad : Bytes
  deriving DecidableEq, Repr, Inhabited

def PRank.has (s : PRank) (g : Int) : Bool := s.nodes.any fun n => n.glob == g

/-- `ref_node_part` of the local vertex with global `g` (`-1`: not local) -/
def PRank.partOf (s : PRank) (g : Int) : Int :=
  match s.nodes.find? fun n => n.glob == g with
  | some n => n.part
  | none => -1

def PRank.group (s : PRank) (k : Nat) : List Cell := s.cells.getD k []

def PRank.setGroup (s : PRank) (k : Nat) (cs : List Cell) : PRank := { s with cells := s.cells.set k cs }

/-- `ref_part_node`: part `p` owns the globals `first p + i`; rank 0 numbers its own block from 0 -/
def ownedNodes (N : Int) (np : Nat) (p : Nat) (block : List Vertex) : List PNode :=
  let base : Int := if p = 0 then 0 else ref_part_first N (np : Int) (p : Int)
  block.zipIdx.map fun vi => { glob := base + (vi.2 : Int), part := (p : Int), xyz := some vi.1 }

def initWorld (N : Int) (np : Nat) (blocks : List (List Vertex)) : World PRank :=
  (List.range np).map fun p =>
    { nGlobal := N, nodes := ownedNodes N np p (blocks.getD p []), cells := List.replicate 16 [], geoms := [],
      cad := [] }

/-- is `x` among the first `n` entries of `l` -/
def memFirst : Nat → List Int → Int → Bool
  | 0, _, _ => false
  | _, [], _ => false
  | n + 1, y :: ys, x => x == y || memFirst n ys x

/-- are the first `n` entries of `a` all among the first `m` entries of `b` -/
def subFirst (m : Nat) (b : List Int) : Nat → List Int → Bool
  | 0, _ => true
  | _, [] => true
  | n + 1, x :: xs => memFirst m b x && subFirst m b n xs

/-- `ref_cell_with`: a stored cell with the same SET of vertices (order and id do not matter) -/
def sameSet (nodePer : Nat) (a b : Cell) : Bool :=
  subFirst nodePer b nodePer a && subFirst nodePer a nodePer b

/-- the cell loop of `ref_cell_add_many_global`: `ref_cell_with`, then `ref_cell_add` when not found
    (`(REF_INT)` of the id column) -/
def addCells (ci : CellInfo) (stored : List Cell) : List Cell → List Cell
  | [] => stored
  | c :: cs =>
    let c' := c.take ci.nodePer ++ (c.drop ci.nodePer).map wrap32
    addCells ci (if stored.any (sameSet ci.nodePer c') then stored else stored ++ [c']) cs

/-- `ref_node_add_many`: the globals that are not local yet, once each, appended with the default `part = rank` -/
def addNodes (me : Nat) (nodes : List PNode) : List Int → List PNode
  | [] => nodes
  | g :: gs =>
    addNodes me (if nodes.any (fun n => n.glob == g) then nodes
                 else nodes ++ [{ glob := g, part := (me : Int), xyz := none }]) gs

/-- `ref_node_part(ref_node, local) = part` -/
def setPart (nodes : List PNode) (g p : Int) : List PNode :=
  nodes.map fun n => if n.glob == g then { n with part := p } else n

/-- a cell with the `part` of each of its vertices (`sent_part` / `b_parts`) -/
abbrev CellP := Cell × List Int

/-- `ref_cell_add_many_global(ref_cell, ref_node, n, c2n, part, exclude_part_id = rank)`:
    vertices whose `part` is not this rank are added; every vertex must then be local
    (`RSB(ref_node_local …)` → `REF_NOT_FOUND`) and gets its `part`; cells are added unless already stored. -/
def addManyGlobal (me : Nat) (ci : CellInfo) (k : Nat) (cells : List CellP) (st : PRank) : Except Status PRank :=
  let newGlobals := cells.flatMap fun cp =>
    ((cp.1.take ci.nodePer).zip cp.2).filterMap fun gp => if gp.2 != (me : Int) then some gp.1 else none
  let nodes1 := addNodes me st.nodes newGlobals
  let verts := cells.flatMap fun cp => (cp.1.take ci.nodePer).zip cp.2
  if verts.any (fun gp => !(nodes1.any fun n => n.glob == gp.1)) then .error .not_found else
  let nodes2 := verts.foldl (fun ns gp => setPart ns gp.1 gp.2) nodes1
  .ok { st with nodes := nodes2, cells := st.cells.set k (addCells ci (st.group k) (cells.map (·.1))) }

/-- the `part` of the vertices of a cell by the implicit block partition: `sent_part` -/
def implicitParts (N : Int) (np : Nat) (ci : CellInfo) (c : Cell) : List Int :=
  (c.take ci.nodePer).map fun g => ref_part_implicit N (np : Int) g

/-- `dest[cell] = ref_part_implicit(nnode, np, c2n[size_per * cell])` -/
def destOf (N : Int) (np : Nat) (c : Cell) : Int := ref_part_implicit N (np : Int) (c.getD 0 0)

/-- the routing of one chunk on rank 0, AS CODED: `elements_to_send` by counting, `start_to_send` by prefix sums,
    `new_location = start_to_send[dest] + elements_to_send[dest]++` (one cell per slot), then the slice
    `[start_to_send[part], +elements_to_send[part])` for every part.  `undefined`: a `dest` outside `0..np-1`
    indexes `elements_to_send[]` out of bounds.  (Quadratic as a list program; the driver runs `routeChunk`,
    `Props/C20PartMeshb.routeChunk_eq_coded` proves the two equal on every input.) -/
def routeChunkCoded (N : Int) (np : Nat) (cells : List Cell) : Except Status (List (List Cell)) :=
  let dest := cells.map (destOf N np)
  if dest.any (fun d => decide (d < 0 ∨ (np : Int) ≤ d)) then .error .undefined else
  let counts := countDest np dest
  let starts := displs counts
  let sent := pack 1 dest cells (List.replicate cells.length []) starts
  .ok ((List.range np).map fun p => slice sent (starts.getD p 0).toNat (counts.getD p 0).toNat)

/-- the same routing as the driver executes it: bucket `p` = the cells of the chunk with `dest = p`, in chunk order -/
def routeChunk (N : Int) (np : Nat) (cells : List Cell) : Except Status (List (List Cell)) :=
  if (cells.map (destOf N np)).any (fun d => decide (d < 0 ∨ (np : Int) ≤ d)) then .error .undefined else
  .ok ((List.range np).map fun (p : Nat) => cells.filter fun c => destOf N np c == (p : Int))

/-- per rank: apply `f rank state`, first error wins (the C: that rank returns the status) -/
def mapRanksFrom (f : Nat → PRank → Except Status PRank) : Nat → List PRank → Except Status (List PRank)
  | _, [] => .ok []
  | r, st :: rest =>
    match f r st with
    | .error e => .error e
    | .ok st' =>
    match mapRanksFrom f (r + 1) rest with
    | .error e => .error e
    | .ok rest' => .ok (st' :: rest')

def mapRanks (f : Nat → PRank → Except Status PRank) (w : World PRank) : Except Status (World PRank) :=
  mapRanksFrom f 0 w

/-- one chunk: rank 0 keeps bucket 0, sends bucket `p` to worker `p` (`if (0 < elements_to_send[part])`);
    the receiver computes `sent_part` and calls `ref_cell_add_many_global` -/
def placeChunk (N : Int) (np : Nat) (ci : CellInfo) (k : Nat) (w : World PRank) (cells : List Cell) :
    Except Status (World PRank) :=
  match routeChunk N np cells with
  | .error e => .error e
  | .ok buckets =>
    mapRanks (fun r st =>
      let b := buckets.getD r []
      if b.isEmpty then .ok st
      else addManyGlobal r ci k (b.map fun c => (c, implicitParts N np ci c)) st) w

/-- `ref_sort_unique_int` of the parts of a cell's vertices, as a set: does it contain `p` -/
def cellSendsTo (st : PRank) (ci : CellInfo) (me p : Nat) (c : Cell) : Bool :=
  decide (p ≠ me) && (c.take ci.nodePer).any fun g => st.partOf g == (p : Int)

/-- what rank `s` puts into the bucket of part `r` in `ref_migrate_shufflin_cell`: its cells having a vertex of
    part `r`, in local order, with the parts of all vertices -/
def shufflinSend (ci : CellInfo) (k : Nat) (s : Nat) (st : PRank) (r : Nat) : List CellP :=
  ((st.group k).filter (cellSendsTo st ci s r)).map fun c => (c, (c.take ci.nodePer).map st.partOf)

/-- `ref_migrate_shufflin_cell`.  `undefined`: a stored `part` outside `0..np-1` indexes `a_size[]` out of bounds. -/
def shufflinCell (np : Nat) (ci : CellInfo) (k : Nat) (w : World PRank) : Except Status (World PRank) :=
  if np ≤ 1 then .ok w else           -- `if (!ref_mpi_para(ref_mpi)) return REF_SUCCESS`
  if w.any (fun st => (st.group k).any fun c => (c.take ci.nodePer).any fun g =>
      decide (st.partOf g < 0 ∨ (np : Int) ≤ st.partOf g)) then .error .undefined else
  -- `ref_mpi_alltoallv`: rank r receives the blocks addressed to it, in source-rank order
  let recv : Nat → List CellP := fun r => w.zipIdx.flatMap fun ss => shufflinSend ci k ss.2 ss.1 r
  match mapRanks (fun r st => addManyGlobal r ci k (recv r) st) w with
  | .error e => .error e
  | .ok w1 =>
    -- `if (!need_to_keep) ref_cell_remove`
    .ok (w1.zipIdx.map fun sr =>
      sr.1.setGroup k ((sr.1.group k).filter fun c => (c.take ci.nodePer).any fun g => sr.1.partOf g == (sr.2 : Int)))

/-- `ref_part_meshb_cell` after the reading: every chunk placed, then the completion step -/
def placeChunks (N : Int) (np : Nat) (ci : CellInfo) (k : Nat) : List (List Cell) → World PRank →
    Except Status (World PRank)
  | [], w => .ok w
  | cells :: rest, w =>
    match placeChunk N np ci k w cells with
    | .error e => .error e
    | .ok w => placeChunks N np ci k rest w

def placeGroup (N : Int) (np : Nat) (ci : CellInfo) (k : Nat) (chunks : List (List Cell)) (w : World PRank) :
    Except Status (World PRank) :=
  match placeChunks N np ci k chunks w with
  | .error e => .error e
  | .ok w => shufflinCell np ci k w

def placeGroups (N : Int) (np : Nat) : List (CellInfo × Nat × List (List Cell)) → World PRank →
    Except Status (World PRank)
  | [], w => .ok w
  | (ci, k, chunks) :: rest, w =>
    match placeGroup N np ci k chunks w with
    | .error e => .error e
    | .ok w => placeGroups N np rest w

/-- `ref_geom_add` + `ref_geom_find` + `ref_geom_gref(…) = gref`: an existing (vertex, type, id) record gets its
    parameters updated, else a record is appended; then the gref is set -/
def geomUpsert (gs : List PGeom) (node : Int) (t : Nat) (id gref : Int) (p0 p1 : UInt64) : List PGeom :=
  if gs.any (fun g => g.node == node && g.type == t && g.id == id) then
    gs.map fun g => if g.node == node && g.type == t && g.id == id then
      { g with p0 := if 0 < t then p0 else g.p0, p1 := if 1 < t then p1 else g.p1, gref := gref } else g
  else
    gs ++ [{ type := t, id := id, gref := gref, node := node,
             p0 := (if 0 < t then p0 else 0), p1 := (if 1 < t then p1 else 0) }]

/-- the record loop of `ref_part_meshb_geom_bcast` on one rank: `if (REF_EMPTY != local)` add
    (`(REF_INT)` of id and gref) -/
def addGeoms (t : Nat) (st : PRank) (recs : List RawGeom) : PRank :=
  { st with geoms := recs.foldl (fun gs r =>
      if st.has r.node then geomUpsert gs r.node t (wrap32 r.id) (wrap32 r.gref) r.p0 r.p1 else gs) st.geoms }

/-- `ref_geom_ghost`: for every ghost vertex the owner's records are added with `ref_geom_add_with_descr`
    (the exchange is three `ref_mpi_alltoallv`; a ghost's owner must know the vertex: `REF_NOT_FOUND`) -/
def geomGhost (np : Nat) (w : World PRank) : Except Status (World PRank) :=
  if np ≤ 1 then .ok w else
  mapRanks (fun r st =>
    let ghosts := st.nodes.filter fun n => n.part != (r : Int)
    if ghosts.any (fun n => !((w.getD n.part.toNat default).has n.glob)) then .error .not_found else
    .ok { st with geoms := ghosts.foldl (fun gs n =>
      ((w.getD n.part.toNat default).geoms.filter fun g => g.node == n.glob).foldl
        (fun gs g => geomUpsert gs g.node g.type g.id g.gref g.p0 g.p1) gs) st.geoms }) w

/-- `ref_node_ghost_real`: every ghost takes the owner's reals -/
def ghostReal (np : Nat) (w : World PRank) : Except Status (World PRank) :=
  if np ≤ 1 then .ok w else
  mapRanks (fun r st =>
    if st.nodes.any (fun n => n.part != (r : Int) && !((w.getD n.part.toNat default).has n.glob)) then
      .error .not_found
    else .ok { st with nodes := st.nodes.map fun n =>
      if n.part != (r : Int) then
        match (w.getD n.part.toNat default).nodes.find? fun o => o.glob == n.glob with
        | some o => { n with xyz := o.xyz }
        | none => n
      else n }) w

def groupsOf (p : Parsed) : List (CellInfo × Nat × List (List Cell)) :=
  (cellInfos.zipIdx.zip p.groups).map fun x => (x.1.1, x.1.2, x.2)

/-- the SPMD part of `ref_part_meshb` on the data rank 0 read -/
def distribute (np : Nat) (p : Parsed) : Except Status (World PRank) :=
  let w0 := initWorld p.nnode np p.blocks
  match placeGroups p.nnode np (groupsOf p) w0 with
  | .error e => .error e
  | .ok w1 =>
  let w2 := w1.map fun st => ((p.geoms.zipIdx.foldl (fun st gt => addGeoms gt.2 st gt.1) st))
  let w3 := w2.map fun st => { st with cad := p.cad }
  match geomGhost np w3 with
  | .error e => .error e
  | .ok w4 => ghostReal np w4

/-- the constant of `ref_part_meshb_cell` / `ref_part_meshb_geom_bcast` -/
def chunkConst : Nat := 1000000

/-- `ref_part_by_extension(&ref_grid, ref_mpi, "*.meshb")` on `np` ranks, up to the orientation pass -/
def partReadWith (cfg : Cfg) (np chunkMin : Nat) (bs : Bytes) : Except Status (World PRank) :=
  match parseWith cfg np chunkMin bs with
  | .error e => .error e
  | .ok p => distribute np p

def partRead (np : Nat) (bs : Bytes) : Except Status (World PRank) := partReadWith Cfg.current np chunkConst bs

/-! ## history: the reader before /repo 4474557 (no `ref_part_meshb_count_fits`) -/

def kwSectionLLegacy {α : Type} (v : Nat) (bs : Bytes) (kp : KeyPos) (kw : Nat) (dflt : α)
    (body : Int → P α) : Except Status α :=
  match jump v bs kp kw with
  | .error e => .error e
  | .ok none => .ok dflt
  | .ok (some (next, s)) =>
    match rdLong v s with
    | .error e => .error e
    | .ok (n, s) =>
    match body n s with
    | .error e => .error e
    | .ok (a, s) => if next = tell bs s then .ok a else .error .failure

/-- the cell sections of the legacy reader, as far as the first error or the end of the groups (enough for the
    two recorded counterexamples, whose first cell section already does not return) -/
def rdCellGroupsLegacy (cfg : Cfg) (chunkMin v np : Nat) (bs : Bytes) (kp : KeyPos) (N : Int) :
    List CellInfo → Except Status (List (List (List Cell)))
  | [] => .ok []
  | ci :: cis =>
    match kwSectionLLegacy v bs kp ci.kw [] (fun n => rdCellSection cfg chunkMin v np ci N n) with
    | .error e => .error e
    | .ok g =>
    match rdCellGroupsLegacy cfg chunkMin v np bs kp N cis with
    | .error e => .error e
    | .ok gs => .ok (g :: gs)

/-- vertex count and cell sections of the legacy reader on `np` ranks -/
def parseCellsLegacy (cfg : Cfg) (np chunkMin : Nat) (bs : Bytes) : Except Status (List (List (List Cell))) :=
  match header cfg bs with
  | .error e => .error e
  | .ok (v, kp) =>
  match jump v bs kp 4 with
  | .error e => .error e
  | .ok none => .error .failure
  | .ok (some (_, s)) =>
  match rdLong v s with
  | .error e => .error e
  | .ok (nnode, _) => rdCellGroupsLegacy cfg chunkMin v np bs kp nnode cellInfos

/-! ## views used by the properties -/

/-- the 64-bit patterns of a vertex (payload of the C06 invariant) -/
def payloadOf (n : PNode) : List Nat :=
  match n.xyz with
  | some v => [v.x.toNat, v.y.toNat, v.z.toNat]
  | none => []

/-- a rank as the C06 invariant sees it -/
def toRankState (st : PRank) : Refine.Model.Dist.RankState :=
  { nodes := st.nodes.map fun n => { glob := n.glob, part := n.part, payload := payloadOf n },
    cells := (cellInfos.zipIdx.zip st.cells).flatMap fun x =>
      x.2.map fun c => { group := x.1.2, nodes := c.take x.1.1.nodePer, id := (c.drop x.1.1.nodePer).headD 0 },
    oldN := st.nGlobal, newN := st.nGlobal, nUnused := 0 }

def toDist (w : World PRank) : World Refine.Model.Dist.RankState := w.map toRankState

/-- the vertices a gather assembles (`ref_gather_node`): every rank contributes the vertices it owns; the blocks are
    contiguous, so rank order is global order -/
def gatherNodes (w : World PRank) : List Vertex :=
  w.zipIdx.flatMap fun sr => (sr.1.nodes.filter fun n => n.part == (sr.2 : Int)).map fun n => n.xyz.getD default

/-- `ref_cell_part` on a rank: the part of the cell's vertex with the smallest global id, from the rank's own table -/
def cellOwnerOf (st : PRank) (nodePer : Nat) (c : Cell) : Int :=
  Refine.Model.Dist.cellOwner ((c.take nodePer).map fun g => (g, st.partOf g))

/-- the cells of group `k` a gather assembles (`ref_gather_cell`): every rank contributes the cells it owns, rank 0
    first, in local order -/
def gatherGroup (w : World PRank) (k nodePer : Nat) : List Cell :=
  w.zipIdx.flatMap fun sr => (sr.1.group k).filter fun c => cellOwnerOf sr.1 nodePer c == (sr.2 : Int)

end Refine.Model.PartMeshb
