import Refine.Scalar
import Refine.Model.Geom

/-!
  Unit (property C03): the *band logic* of refine's metric adaptation, generic over `Scalar`.

  * `ref_adapt_create` defaults and the derivation of `post_min_ratio`, `post_max_ratio`, `split_ratio`,
    `collapse_quality_absolute`, `smooth_min_quality`, `post_min_normdev` and the termination flag in
    `ref_adapt_parameter` (ref_adapt.c:300-354) from the measured `min_ratio`, `max_ratio`, `min_quality`,
    `min_normdev`, `nnode/complexity`, `mixed`, `max_age` — statement by statement, so the `Float`
    instance is bit-identical (tie: `Drivers/Unit.lean` vs `harness/h_unit.c`, white-box `ref_adapt.c`);
    the two temporary overrides of `post_max_ratio` in `ref_adapt_pass` (`= sqrt(2.0)` around two of the
    collapse passes, `= last_max_ratio` afterwards).
  * the ratio guards: `ref_split_edge_ratio` (ref_split.c:665), `ref_collapse_edge_ratio`
    (ref_collapse.c:885, with its "not worse than before" fall-back), `ref_smooth_tri/tet_ratio_around`
    (ref_smooth.c:127,1283) + the acceptance tests of the three smoothers (ref_smooth.c:824,1097,1494),
    `ref_swap_ratio` (ref_swap.c:624, strict), `ref_cavity_ratio` (ref_cavity.c:2325);
    which edges each of them measures is part of the model (`splitTested`, `collapseOld/New`, `aroundEdges`).
  * the decision logic of the quality guards on given quality values (`ref_split_edge_tet/tri_quality`,
    `ref_collapse_edge_tet/tri_quality`, smoother acceptance); the quality *kernels* belong to C15.
  * selection: `ratio > split_ratio` (ref_split.c:127), per-vertex `min incident ratio < collapse_ratio`
    (ref_collapse.c:109-130).
  * an abstract mesh (`Mesh`: per-vertex coordinates+metric, list of simplices) with the three operations in
    their specification form (C13 proves the list models of `ref_split_edge` / `ref_collapse_edge` equal to
    these up to permutation), used for the history theorems of `Props/C03.lean`.
  Core-only imports.
-/
namespace Refine.Model.Unit
open Refine Refine.Model.Geom

variable {α : Type} [Scalar α]

/-! ## parameters -/

/-- the fields of `REF_ADAPT_STRUCT` that steer the bands -/
structure Adapt (α : Type) where
  splitRatio : α
  splitQualityAbs : α
  splitQualityRel : α
  collapseRatio : α
  collapseQualityAbs : α
  smoothMinQuality : α
  postMinNormdev : α
  postMin : α
  postMax : α
  lastMin : α
  lastMax : α

/-- `sqrt(2.0)` -/
@[inline] def sqrt2 : α := Scalar.sqrt (Scalar.ofInt 2)

/-- `ref_adapt_create` -/
def adaptCreate : Adapt α :=
  { splitRatio := sqrt2
    splitQualityAbs := Scalar.ofDec 1 (-3)
    splitQualityRel := Scalar.ofDec 1 (-1)
    collapseRatio := lit1 /. sqrt2
    collapseQualityAbs := Scalar.ofDec 1 (-3)
    smoothMinQuality := Scalar.ofDec 1 (-3)
    postMinNormdev := lit0
    postMin := Scalar.ofDec 1 (-3)
    postMax := Scalar.ofInt 3
    lastMin := Scalar.ofDec 5 (-4)
    lastMax := Scalar.ofInt 6 }

/-- what `ref_adapt_parameter` measures on the grid before it derives the parameters -/
structure Measured (α : Type) where
  minRatio : α
  maxRatio : α
  minQuality : α
  minNormdev : α
  /-- `(REF_DBL)nnode / complexity` -/
  nodesPerComplexity : α
  mixed : Bool
  maxAge : Int

/-- `target = MAX(MIN(0.1, x), 1.0e-3)` -/
def clampTarget (x : α) : α := Scalar.cmax (Scalar.cmin (Scalar.ofDec 1 (-1)) x) (Scalar.ofDec 1 (-3))

/-- `post_min_ratio` after the two rescaling branches (ref_adapt.c:317-330) -/
def derivePostMin (collapseRatio pmax minRatio : α) : α :=
  let p0 := Scalar.cmin minRatio collapseRatio
  let p1 := if (Scalar.ofInt 4 <. pmax) && (Scalar.ofDec 4 (-1) <. p0)
            then (Scalar.ofInt 4 /. pmax) *. p0 else p0
  if (pmax <. Scalar.ofDec 35 (-1)) && (Scalar.ofDec 16 (-1) <. pmax) && (Scalar.ofDec 4 (-1) <. p1)
  then (Scalar.ofDec 14 (-1) /. pmax) *. p1 else p1

/-- `split_ratio` (ref_adapt.c:332-335) -/
def deriveSplit (m : Measured α) : α :=
  if !m.mixed && (Scalar.ofInt 3 <. m.nodesPerComplexity)
  then half *. (sqrt2 +. m.maxRatio) else sqrt2

/-- the derivation part of `ref_adapt_parameter`: new parameters and `*all_done` -/
def adaptParameter (a : Adapt α) (m : Measured α) : Adapt α × Bool :=
  let tq := clampTarget m.minQuality
  let pmax := Scalar.cmax m.maxRatio a.splitRatio
  let pmin := derivePostMin a.collapseRatio pmax m.minRatio
  let split := deriveSplit m
  let done :=
    (Scalar.cabs (a.lastMin -. pmin) <. Scalar.ofDec 1 (-2) *. pmin) &&
    (Scalar.cabs (a.lastMax -. pmax) <. Scalar.ofDec 1 (-2) *. pmax) &&
    (decide (m.maxAge < 50) || ((Scalar.ofDec 1 (-1) <. pmin) && (pmax <. Scalar.ofInt 3))) &&
    (split <. Scalar.ofDec 15 (-1))
  ({ a with
      postMinNormdev := clampTarget m.minNormdev
      collapseQualityAbs := tq
      smoothMinQuality := tq
      postMin := pmin
      postMax := pmax
      splitRatio := split
      lastMin := pmin
      lastMax := pmax }, done)

/-- `ref_grid_adapt(ref_grid, post_max_ratio) = sqrt(2.0)` before the 2nd and 3rd collapse pass of `ref_adapt_pass` -/
def narrowPostMax (a : Adapt α) : Adapt α := { a with postMax := sqrt2 }
/-- `ref_grid_adapt(ref_grid, post_max_ratio) = ref_grid_adapt(ref_grid, last_max_ratio)` afterwards -/
def restorePostMax (a : Adapt α) : Adapt α := { a with postMax := a.lastMax }

/-! ## ratio band -/

/-- negation of `ratio < post_min_ratio || ratio > post_max_ratio` -/
def inBand (a : Adapt α) (r : α) : Bool := !((r <. a.postMin) || (a.postMax <. r))

/-- coordinates and metric (`ref_node_metric_get`) of a vertex -/
abbrev Vert (α : Type) := V3 α × M6 α

/-- `ref_node_ratio(ref_node, a, b, &ratio)` (geometric method): a function of the two end points only -/
def nodeRatio (vs : Nat → Vert α) (a b : Nat) : α :=
  ratioGeometric (vs a).1 (vs b).1 (vs a).2 (vs b).2

abbrev Cell := List Nat

/-- `nodes[k] = new` for every `k` with `nodes[k] == old` -/
def subst (old new : Nat) (c : Cell) : Cell := c.map fun x => if x = old then new else x

/-- the cell contains both end points (`each_ref_cell_having_node2`) -/
def onEdge (n0 n1 : Nat) (c : Cell) : Bool := c.contains n0 && c.contains n1

/-- pairs `(v, x)` for the other vertices `x` of a cell: the cell edges with `e0 == v || e1 == v`
    (every pair of vertices of a tri/tet is a cell edge) -/
def edgesAt (v : Nat) (c : Cell) : List (Nat × Nat) := (c.filter (· ≠ v)).map fun x => (v, x)

/-- the edges measured by `ref_split_edge_ratio`: for every cell on the edge, the edges at `new_node` of the
    cell with `node0 ↦ new_node`, then of the cell with `node1 ↦ new_node` -/
def splitTested (cells : List Cell) (n0 n1 nw : Nat) : List (Nat × Nat) :=
  (cells.filter (onEdge n0 n1)).flatMap fun c => edgesAt nw (subst n0 nw c) ++ edgesAt nw (subst n1 nw c)

/-- `ref_split_edge_ratio` -/
def splitEdgeRatio (a : Adapt α) (rat : Nat → Nat → α) (cells : List Cell) (n0 n1 nw : Nat) : Bool :=
  (splitTested cells n0 n1 nw).all fun e => inBand a (rat e.1 e.2)

/-- `REF_DBL_MAX` -/
@[inline] def dblMax : α := Scalar.ofDec 17976931348623157 292

/-- `x = MIN(x, r)` over a list -/
def foldMin (init : α) (rs : List α) : α := rs.foldl (fun acc r => Scalar.cmin acc r) init
/-- `x = MAX(x, r)` over a list -/
def foldMax (init : α) (rs : List α) : α := rs.foldl (fun acc r => Scalar.cmax acc r) init

/-- edges `node1–x` measured for `old_min/old_max` -/
def collapseOld (cells : List Cell) (n1 : Nat) : List (Nat × Nat) :=
  (cells.filter (·.contains n1)).flatMap fun c => edgesAt n1 c

/-- edges `node0–x` measured for `new_min/new_max`: cells at `node1` that do not contain `node0`, `x ≠ node1` -/
def collapseNew (cells : List Cell) (n0 n1 : Nat) : List (Nat × Nat) :=
  (cells.filter fun c => c.contains n1 && !c.contains n0).flatMap fun c =>
    (c.filter (· ≠ n1)).map fun x => (n0, x)

/-- `ref_collapse_edge_ratio`: inside the band, or not worse than the edges at `node1` were -/
def collapseEdgeRatio (a : Adapt α) (rat : Nat → Nat → α) (cells : List Cell) (n0 n1 : Nat) : Bool :=
  let olds := (collapseOld cells n1).map fun e => rat e.1 e.2
  let news := (collapseNew cells n0 n1).map fun e => rat e.1 e.2
  let oldMax := foldMax (-. lit1) olds
  let oldMin := foldMin dblMax olds
  let newMax := foldMax (-. lit1) news
  let newMin := foldMin dblMax news
  ((a.postMin <=. newMin) && (newMax <=. a.postMax)) || ((oldMin <=. newMin) && (newMax <=. oldMax))

/-- edges measured by `ref_smooth_tri_ratio_around` / `ref_smooth_tet_ratio_around` -/
def aroundEdges (cells : List Cell) (node : Nat) : List (Nat × Nat) :=
  (cells.filter (·.contains node)).flatMap fun c => edgesAt node c

/-- first value initialises, then `MIN`/`MAX`; `none` = `none_found` (the C throws) -/
def minMax : List α → Option (α × α)
  | [] => none
  | r :: rest => some (foldMin r rest, foldMax r rest)

/-- `ref_smooth_*_ratio_around` -/
def ratioAround (rat : Nat → Nat → α) (cells : List Cell) (node : Nat) : Option (α × α) :=
  minMax ((aroundEdges cells node).map fun e => rat e.1 e.2)

/-- `(min_ratio >= post_min_ratio) && (max_ratio <= post_max_ratio)` -/
def bandOk (a : Adapt α) (mn mx : α) : Bool := (a.postMin <=. mn) && (mx <=. a.postMax)

/-- ratio part of the smoothers' acceptance -/
def smoothRatioOk (a : Adapt α) (rat : Nat → Nat → α) (cells : List Cell) (node : Nat) : Bool :=
  match ratioAround rat cells node with
  | none => false
  | some (mn, mx) => bandOk a mn mx

/-- `ref_swap_ratio`: strict on both sides -/
def swapRatio (a : Adapt α) (r : α) : Bool := (a.postMin <. r) && (r <. a.postMax)

/-- `ref_cavity_ratio` on the ratios `node–face node` of the faces that do not contain the cavity node -/
def cavityRatio (a : Adapt α) (rs : List α) : Bool := rs.all (inBand a)

/-! ## quality decisions (values are inputs) -/

/-- one cell of `ref_split_edge_tet_quality` / `_tri_quality`: `true` = this cell does not veto -/
def splitQualityOk (a : Adapt α) (minExisting q0 q1 v0 v1 minVol : α) : Bool :=
  !((q0 <. a.splitQualityAbs) || (q1 <. a.splitQualityAbs) ||
    (q0 <. a.splitQualityRel *. minExisting) || (q1 <. a.splitQualityRel *. minExisting) ||
    (v0 <. minVol) || (v1 <. minVol))

/-- `quality < collapse_quality_absolute` vetoes -/
def collapseQualityOk (a : Adapt α) (q : α) : Bool := !(q <. a.collapseQualityAbs)

/-- which acceptance rule a smoother applies to the quality around the moved vertex -/
inductive SmoothMode where
  /-- `ref_smooth_no_geom_edge_improve`, and the tet part of the boundary smoothers: `q > smooth_min_quality` -/
  | floor
  /-- `ref_smooth_no_geom_tri_improve` / `ref_smooth_tet_improve` -/
  | improve (pliant : Bool)
  deriving DecidableEq, Repr

/-- `pliant_smoothing = (quality0 > 0.5 && min_ratio > 0.5 && max_ratio < 2.0)` -/
def pliant (q0 mn mx : α) : Bool := (half <. q0) && (half <. mn) && (mx <. lit2)

def smoothQualityOk (a : Adapt α) (mode : SmoothMode) (q0 q : α) : Bool :=
  match mode with
  | .floor => a.smoothMinQuality <. q
  | .improve true => (Scalar.ofDec 9 (-1) *. q0 <. q) && (Scalar.ofDec 4 (-1) <. q)
  | .improve false => q0 <. q

/-! ## selection -/

/-- `ratio[n] > split_ratio` -/
def splitSelected (a : Adapt α) (r : α) : Bool := a.splitRatio <. r

/-- the edges `ref_split_pass` puts on its work list -/
def splitCandidates (a : Adapt α) (rat : Nat → Nat → α) (edges : List (Nat × Nat)) : List (Nat × Nat) :=
  edges.filter fun e => splitSelected a (rat e.1 e.2)

/-- `ratio[node]` of `ref_collapse_pass`: `2*collapse_ratio`, lowered by every incident edge -/
def nodeMinRatio (a : Adapt α) (rat : Nat → Nat → α) (edges : List (Nat × Nat)) (node : Nat) : α :=
  foldMin (lit2 *. a.collapseRatio) ((edges.filter fun e => e.1 = node || e.2 = node).map fun e => rat e.1 e.2)

/-- `ratio[node] < collapse_ratio` (ref_collapse.c:125; the loop re-tests `ratio[order[i]] > collapse_ratio → continue`
    at line 137, which also skips the entries reset to `2*collapse_ratio` after a collapse next to them) -/
def collapseSelected (a : Adapt α) (m : α) : Bool := m <. a.collapseRatio

def collapseCandidates (a : Adapt α) (rat : Nat → Nat → α) (edges : List (Nat × Nat)) (nodes : List Nat) :
    List Nat :=
  nodes.filter fun n => collapseSelected a (nodeMinRatio a rat edges n)

/-! ## abstract mesh and operation histories -/

structure Mesh (α : Type) where
  verts : Nat → Vert α
  cells : List Cell

def setVert (vs : Nat → Vert α) (n : Nat) (v : Vert α) : Nat → Vert α := fun i => if i = n then v else vs i

/-- `ref_split_edge`: two halves for every cell on the edge -/
def splitCells (cells : List Cell) (n0 n1 nw : Nat) : List Cell :=
  cells.flatMap fun c => if onEdge n0 n1 c then [subst n0 nw c, subst n1 nw c] else [c]

/-- `ref_collapse_edge`: cells on the edge removed, `node1 ↦ node0` elsewhere -/
def collapseCells (cells : List Cell) (n0 n1 : Nat) : List Cell :=
  (cells.filter fun c => !onEdge n0 n1 c).map (subst n1 n0)

inductive Op (α : Type) where
  /-- new vertex `nw` with coordinates/metric `v` on the edge `n0–n1` -/
  | split (n0 n1 nw : Nat) (v : Vert α)
  /-- `n1` removed into `n0` -/
  | collapse (n0 n1 : Nat)
  /-- vertex `n` moved (its metric is re-interpolated): new coordinates+metric `v`; `mode`, `q0` as used by the
      smoother for the quality test -/
  | smooth (n : Nat) (v : Vert α) (mode : SmoothMode) (q0 : α)

def step (M : Mesh α) : Op α → Mesh α
  | .split n0 n1 nw v => { verts := setVert M.verts nw v, cells := splitCells M.cells n0 n1 nw }
  | .collapse n0 n1 => { verts := M.verts, cells := collapseCells M.cells n0 n1 }
  | .smooth n v _ _ => { verts := setVert M.verts n v, cells := M.cells }

end Refine.Model.Unit
