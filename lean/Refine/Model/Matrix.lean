import Refine.Scalar

/-!
  L6 Matrix: the symmetric-matrix kernel of `ref_matrix.c`, generic over `Scalar`.

  Operation order is copied from the C (as compiled by `gcc -O1 -ffp-contract=off`), so the `Float`
  instance reproduces the implementation bit for bit (driver `matrix`, harness `h_matrix.c`); the
  `ℝ` instance is what `Refine/Props/C16.lean` proves theorems about.  Core-only imports.

  ## API (for the metric packages C10 / C05)

  Shapes (fixed-size structures, C index order in brackets):
  * `M6 α`    symmetric 3x3, upper triangle  `m11[0] m12[1] m13[2] m22[3] m23[4] m33[5]`
  * `M3 α`    symmetric 2x2                  `m11[0] m12[1] m22[2]`
  * `Eig12 α` eigen system `l0 l1 l2 [0..2]`, vector k = `(xk yk zk)` = `d[3+3k .. 5+3k]`
              (`ref_matrix_eig(d,k)`, `ref_matrix_vec(d,xyz,k)`)
  * `Eig6 α`  2x2 eigen system `l0 l1 [0,1]`, vector k = `(xk yk)` = `d[2+2k], d[3+2k]`
  * `Vec3 α`, `M33 α` (rows `r0 r1 r2`; C flat index of row i, column k is `i + 3*k`)
  * `Err` = the non-success `REF_STATUS` values these routines can return, plus `ub` (see `diagM`);
    every routine that can fail returns `Except Err _`.

  Functions (`C name` → model):
  * `ref_matrix_diag_m`  → `diagM : M6 α → Except Err (Eig12 α)`   (`invalid` on non-finite input,
        `failure` when a row needs more than 30 QL sweeps)
  * `ref_matrix_diag_m2` → `diagM2 : M3 α → Except Err (Eig6 α)`
  * `ref_matrix_descending_eig(_twod)` → `descendingEig`, `descendingEigTwod`
  * `ref_matrix_form_m(2)` → `formM : Eig12 α → M6 α`, `formM2 : Eig6 α → M3 α`
  * `ref_matrix_log_m / exp_m` → `logM`, `expM : M6 α → Except Err (M6 α)`
  * `ref_matrix_sqrt_m` → `sqrtM : M6 α → Except Err (M6 α × M6 α)`  (square root, inverse square root);
        `sqrtAbsM` is the static `ref_matrix_sqrt_abs_m`
  * `ref_matrix_inv_m` (via `ref_matrix_inv_gen`, n = 3) → `invM`, `invGen3`
  * `ref_matrix_det_m` (via `ref_matrix_det_gen`, n = 3) → `detM : M6 α → α`, `detGen3`; `detM2`
  * `ref_matrix_mult_m0m1m0` → `multM0M1M0 a b` (= a·b·a), `ref_matrix_mult_m` → `multM`,
    `ref_matrix_weight_m` → `weightM`, `ref_matrix_twod_m` → `twodM`
  * `ref_matrix_intersect / bound` → `intersect`, `bound : M6 α → M6 α → Except Err (M6 α)`
  * `ref_matrix_jacob_m` → `jacobM`, `ref_matrix_healthy_m` → `healthyM`
  * macros `ref_matrix_vt_m_v`, `ref_matrix_sqrt_vt_m_v` → `vtMv`, `sqrtVtMv`; `…_deriv` → `vtMvDeriv`, `sqrtVtMvDeriv`
  * `mapEig f d` replaces the three eigenvalues by `f` of them (the `d[k] = log(d[k])` lines).

  Internals of `diagM` (exposed because the theorems are stated about them): `rot0` (first rotation, returns the
  QL state `QL α` = d[0..11], e[0..2], f, tst1), `rowStep l` (body of the row loop), `QL.findSmall`, `QL.isSmall`
  (the convergence test), `qlLoop` (≤ 30 sweeps as fuel), `sweep l mm` = `shift l` + `innerLoop` of `innerStep`s
  (each a plane rotation `rotVec i c s`).  Internals of `invGen3`: `invStep j` = `swapStep` (pivot search
  `pivotRow`) + `scaleRow` + `elimOthers` (`elimRow`).

  SWITCH: `relativeConvergence : Bool := false` selects the convergence test of /repo (absolute 1.0e-14);
  set it to `true` when the fix `ABS(tst2 - tst1) <= 1.0e-14 * tst1` lands in /repo — nothing else changes,
  and every theorem of `Props/C16.lean` is proved for both values.
-/
namespace Refine.Model.Matrix
open Refine Refine.Scalar

/-- non-success `REF_STATUS` values returned by the kernel.  `ub`: the C would index `e[3]`
    (possible only when an intermediate overflowed to ±inf/NaN; see `rowStep`). -/
inductive Err where
  | failure | invalid | div_zero | ub
  deriving DecidableEq, Repr, Inhabited

def Err.name : Err → String
  | .failure => "failure"
  | .invalid => "invalid"
  | .div_zero => "div_zero"
  | .ub => "ub"

structure Vec3 (α : Type) where
  x : α
  y : α
  z : α

/-- symmetric 3x3, upper triangle in C order m[0..5] -/
structure M6 (α : Type) where
  m11 : α
  m12 : α
  m13 : α
  m22 : α
  m23 : α
  m33 : α

/-- symmetric 2x2, C order m[0..2] -/
structure M3 (α : Type) where
  m11 : α
  m12 : α
  m22 : α

/-- 12-vector eigen system: `d[0..2]` eigenvalues, `d[3+3k+i]` component i of vector k -/
structure Eig12 (α : Type) where
  l0 : α
  l1 : α
  l2 : α
  x0 : α
  y0 : α
  z0 : α
  x1 : α
  y1 : α
  z1 : α
  x2 : α
  y2 : α
  z2 : α

/-- 6-vector 2x2 eigen system: `d[0..1]` eigenvalues, `d[2+2k+i]` component i of vector k -/
structure Eig6 (α : Type) where
  l0 : α
  l1 : α
  x0 : α
  y0 : α
  x1 : α
  y1 : α

/-- full 3x3 by rows; C flat index of (row i, column k) is `i + 3*k` -/
structure M33 (α : Type) where
  r0 : Vec3 α
  r1 : Vec3 α
  r2 : Vec3 α

variable {α : Type} [Scalar α]

/-- flat C order a[0..8] (`a[i+3k]` = row i column k) -/
def M33.toFlat (a : M33 α) : List α :=
  [a.r0.x, a.r1.x, a.r2.x, a.r0.y, a.r1.y, a.r2.y, a.r0.z, a.r1.z, a.r2.z]

def M6.toList (m : M6 α) : List α := [m.m11, m.m12, m.m13, m.m22, m.m23, m.m33]
def M3.toList (m : M3 α) : List α := [m.m11, m.m12, m.m22]
def Eig12.toList (d : Eig12 α) : List α :=
  [d.l0, d.l1, d.l2, d.x0, d.y0, d.z0, d.x1, d.y1, d.z1, d.x2, d.y2, d.z2]
def Eig6.toList (d : Eig6 α) : List α := [d.l0, d.l1, d.x0, d.y0, d.x1, d.y1]

/-- the `d[k] = f(d[k])` lines of log_m / exp_m / sqrt_m -/
@[inline] def mapEig (f : α → α) (d : Eig12 α) : Eig12 α :=
  { d with l0 := f d.l0, l1 := f d.l1, l2 := f d.l2 }

def M6.allFinite (m : M6 α) : Bool :=
  Scalar.isFinite m.m11 && Scalar.isFinite m.m12 && Scalar.isFinite m.m13 &&
  Scalar.isFinite m.m22 && Scalar.isFinite m.m23 && Scalar.isFinite m.m33

/-! ### quadratic forms (macros of ref_matrix.h) and their derivatives -/

/-- `ref_matrix_vt_m_v(m,v)` -/
def vtMv (m : M6 α) (v : Vec3 α) : α :=
  v.x *. (m.m11 *. v.x +. m.m12 *. v.y +. m.m13 *. v.z) +.
  v.y *. (m.m12 *. v.x +. m.m22 *. v.y +. m.m23 *. v.z) +.
  v.z *. (m.m13 *. v.x +. m.m23 *. v.y +. m.m33 *. v.z)

/-- `ref_matrix_sqrt_vt_m_v(m,v)` -/
def sqrtVtMv (m : M6 α) (v : Vec3 α) : α := Scalar.sqrt (vtMv m v)

/-- `ref_matrix_vt_m_v_deriv` : (f, df/dv) -/
def vtMvDeriv (m : M6 α) (v : Vec3 α) : α × Vec3 α :=
  let f := vtMv m v
  let d0 := (m.m11 *. v.x +. m.m12 *. v.y +. m.m13 *. v.z) +. v.x *. m.m11 +. v.y *. m.m12 +. v.z *. m.m13
  let d1 := (m.m12 *. v.x +. m.m22 *. v.y +. m.m23 *. v.z) +. v.x *. m.m12 +. v.y *. m.m22 +. v.z *. m.m23
  let d2 := (m.m13 *. v.x +. m.m23 *. v.y +. m.m33 *. v.z) +. v.x *. m.m13 +. v.y *. m.m23 +. v.z *. m.m33
  (f, ⟨d0, d1, d2⟩)

/-- `ref_matrix_sqrt_vt_m_v_deriv` : (f, df/dv) (no guard on f = 0 in the C) -/
def sqrtVtMvDeriv (m : M6 α) (v : Vec3 α) : α × Vec3 α :=
  let f := Scalar.sqrt (vtMv m v)
  let half : α := Scalar.ofDec 5 (-1)
  let d0 := half /. f *.
    (v.x *. m.m11 +. (m.m11 *. v.x +. m.m12 *. v.y +. m.m13 *. v.z) +. v.y *. m.m12 +. v.z *. m.m13)
  let d1 := half /. f *.
    (v.x *. m.m12 +. v.y *. m.m22 +. (m.m12 *. v.x +. m.m22 *. v.y +. m.m23 *. v.z) +. v.z *. m.m23)
  let d2 := half /. f *.
    (v.x *. m.m13 +. v.y *. m.m23 +. v.z *. m.m33 +. (m.m13 *. v.x +. m.m23 *. v.y +. m.m33 *. v.z))
  (f, ⟨d0, d1, d2⟩)

/-! ### form_m, form_m2 -/

/-- `ref_matrix_form_m`: m = V diag(l) Vᵀ -/
def formM (d : Eig12 α) : M6 α :=
  { m11 := d.x0 *. d.l0 *. d.x0 +. d.x1 *. d.l1 *. d.x1 +. d.x2 *. d.l2 *. d.x2
    m12 := d.x0 *. d.l0 *. d.y0 +. d.x1 *. d.l1 *. d.y1 +. d.x2 *. d.l2 *. d.y2
    m13 := d.x0 *. d.l0 *. d.z0 +. d.x1 *. d.l1 *. d.z1 +. d.x2 *. d.l2 *. d.z2
    m22 := d.y0 *. d.l0 *. d.y0 +. d.y1 *. d.l1 *. d.y1 +. d.y2 *. d.l2 *. d.y2
    m23 := d.y0 *. d.l0 *. d.z0 +. d.y1 *. d.l1 *. d.z1 +. d.y2 *. d.l2 *. d.z2
    m33 := d.z0 *. d.l0 *. d.z0 +. d.z1 *. d.l1 *. d.z1 +. d.z2 *. d.l2 *. d.z2 }

/-- `ref_matrix_form_m2` -/
def formM2 (d : Eig6 α) : M3 α :=
  { m11 := d.x0 *. d.l0 *. d.x0 +. d.x1 *. d.l1 *. d.x1
    m12 := d.x0 *. d.l0 *. d.y0 +. d.x1 *. d.l1 *. d.y1
    m22 := d.y0 *. d.l0 *. d.y0 +. d.y1 *. d.l1 *. d.y1 }

/-- `ref_matrix_det_m2` -/
def detM2 (m : M3 α) : α := m.m11 *. m.m22 -. m.m12 *. m.m12

/-- `ref_matrix_twod_m` -/
def twodM (m : M6 α) : M6 α := { m with m13 := Scalar.ofInt 0, m23 := Scalar.ofInt 0, m33 := Scalar.ofInt 1 }

/-- `ref_matrix_weight_m` -/
def weightM (m0 m1 : M6 α) (w : α) : M6 α :=
  let f (a b : α) : α := (one -. w) *. a +. w *. b
  ⟨f m0.m11 m1.m11, f m0.m12 m1.m12, f m0.m13 m1.m13, f m0.m22 m1.m22, f m0.m23 m1.m23, f m0.m33 m1.m33⟩

/-! ### diag_m2 : closed form 2x2 -/

/-- tail of `ref_matrix_diag_m2`: from the unit vector (c2, s2) = (cos 2t, sin 2t), c2 <= 0, to the system -/
def diagM2Fin (m : M3 α) (c2 s2 : α) : Eig6 α :=
  let half : α := Scalar.ofDec 5 (-1)
  let s := Scalar.sqrt (half *. (one -. c2))
  let c := half *. s2 /. s
  let cc := c *. c
  let ss := s *. s
  let mid := s2 *. m.m12
  { l0 := cc *. m.m22 -. mid +. ss *. m.m11
    l1 := cc *. m.m11 +. mid +. ss *. m.m22
    x0 := s, y0 := -. c, x1 := c, y1 := s }

/-- `ref_matrix_diag_m2` -/
def diagM2 (m : M3 α) : Except Err (Eig6 α) :=
  if !(Scalar.isFinite m.m11 && Scalar.isFinite m.m12 && Scalar.isFinite m.m22) then .error .invalid else
  let half : α := Scalar.ofDec 5 (-1)
  let c2 := half *. (m.m11 -. m.m22)
  let s2 := m.m12
  let norm := cmax (cabs c2) (cabs s2)
  if divisible c2 norm && divisible s2 norm then
    let c2 := c2 /. norm
    let s2 := s2 /. norm
    let l := Scalar.sqrt (c2 *. c2 +. s2 *. s2)
    if !(divisible c2 l) then .error .failure else
    if !(divisible s2 l) then .error .failure else
    let c2 := c2 /. l
    let s2 := s2 /. l
    if bgt c2 zero then .ok (diagM2Fin m (-. c2) (-. s2)) else .ok (diagM2Fin m c2 s2)
  else
    .ok (diagM2Fin m (Scalar.ofInt (-1)) zero)

/-! ### diag_m : one rotation to tridiagonal form + implicit QL -/

/-- locals of the QL part of `ref_matrix_diag_m`: `d[0..11]`, `e[0..2]`, `f`, `tst1` -/
structure QL (α : Type) where
  d : Eig12 α
  e0 : α
  e1 : α
  e2 : α
  f : α
  tst1 : α

/-- `d[i]`, i ∈ {0,1,2} -/
@[inline] def QL.getD (st : QL α) : Nat → α
  | 0 => st.d.l0
  | 1 => st.d.l1
  | _ => st.d.l2

@[inline] def QL.setD (st : QL α) (i : Nat) (v : α) : QL α :=
  match i with
  | 0 => { st with d := { st.d with l0 := v } }
  | 1 => { st with d := { st.d with l1 := v } }
  | _ => { st with d := { st.d with l2 := v } }

/-- `e[i]`, i ∈ {0,1,2} -/
@[inline] def QL.getE (st : QL α) : Nat → α
  | 0 => st.e0
  | 1 => st.e1
  | _ => st.e2

@[inline] def QL.setE (st : QL α) (i : Nat) (v : α) : QL α :=
  match i with
  | 0 => { st with e0 := v }
  | 1 => { st with e1 := v }
  | _ => { st with e2 := v }

/-- the `form vector` loop: plane rotation of vectors i and i+1 (i ∈ {0,1}), all three components:
    `h = vec(k,i+1); vec(k,i+1) = s*vec(k,i) + c*h; vec(k,i) = c*vec(k,i) - s*h` -/
def rotVec (i : Nat) (c s : α) (d : Eig12 α) : Eig12 α :=
  match i with
  | 0 => { d with
      x1 := s *. d.x0 +. c *. d.x1, x0 := c *. d.x0 -. s *. d.x1
      y1 := s *. d.y0 +. c *. d.y1, y0 := c *. d.y0 -. s *. d.y1
      z1 := s *. d.z0 +. c *. d.z1, z0 := c *. d.z0 -. s *. d.z1 }
  | _ => { d with
      x2 := s *. d.x1 +. c *. d.x2, x1 := c *. d.x1 -. s *. d.x2
      y2 := s *. d.y1 +. c *. d.y2, y1 := c *. d.y1 -. s *. d.y2
      z2 := s *. d.z1 +. c *. d.z2, z1 := c *. d.z1 -. s *. d.z2 }

/-- the first rotation (zero out m[2]); returns the QL state with `f = tst1 = 0`, `e[2] = 0` -/
def rot0 (m : M6 α) : QL α :=
  let L := Scalar.sqrt (m.m12 *. m.m12 +. m.m13 *. m.m13)
  if divisible m.m12 L && divisible m.m13 L then
    let u := m.m12 /. L
    let v := m.m13 /. L
    let s := two *. u *. m.m23 +. v *. (m.m33 -. m.m22)
    { d := { l0 := m.m11, l1 := m.m22 +. v *. s, l2 := m.m33 -. v *. s
             x0 := one, y0 := zero, z0 := zero
             x1 := zero, y1 := u, z1 := v
             x2 := zero, y2 := v, z2 := -. u }
      e0 := L, e1 := m.m23 -. u *. s, e2 := zero, f := zero, tst1 := zero }
  else
    { d := { l0 := m.m11, l1 := m.m22, l2 := m.m33
             x0 := one, y0 := zero, z0 := zero
             x1 := zero, y1 := one, z1 := zero
             x2 := zero, y2 := zero, z2 := one }
      e0 := m.m12, e1 := m.m23, e2 := zero, f := zero, tst1 := zero }

/-- `gridSign(a,b) (b >= 0 ? ABS(a) : -ABS(a))` -/
@[inline] def gridSign (a b : α) : α := if Scalar.le zero b then cabs a else -. (cabs a)

/-- SWITCH for the two convergence tests of `ref_matrix_diag_m` (the only place it is used is `QL.isSmall`).
    `false`: the tests as they are in /repo, `ABS(tst2 - tst1) < 1.0e-14` (absolute threshold);
    `true` : the proposed fix `ABS(tst2 - tst1) <= 1.0e-14 * tst1` (relative threshold).
    The theorems of `Props/C16.lean` are proved for both settings. -/
def relativeConvergence : Bool := true

/-- `tst2 = tst1 + ABS(e[mm]); ABS(tst2 - tst1) < 1.0e-14` -/
def QL.isSmall (st : QL α) (mm : Nat) : Bool :=
  let tst2 := st.tst1 +. cabs (st.getE mm)
  if relativeConvergence then Scalar.le (cabs (tst2 -. st.tst1)) (Scalar.ofDec 1 (-14) *. st.tst1)
  else Scalar.lt (cabs (tst2 -. st.tst1)) (Scalar.ofDec 1 (-14))

/-- `for (mm = l; mm < 3; mm++) if small break;`  (`n` = 3 - mm); returns 3 when the loop falls through -/
def QL.findSmall (st : QL α) : Nat → Nat → Nat
  | mm, 0 => mm
  | mm, n + 1 => if st.isSmall mm then mm else st.findSmall (mm + 1) n

/-- locals of the `ql transformation` loop -/
structure Sweep (α : Type) where
  st : QL α
  p : α
  c : α
  c2 : α
  c3 : α
  s : α
  s2 : α

/-- body of `for (ii = 0; ii < mml; ii++)` at index `i = mm - ii - 1` -/
def innerStep (i : Nat) (w : Sweep α) : Sweep α :=
  let c3 := w.c2
  let c2 := w.c
  let s2 := w.s
  let ei := w.st.getE i
  let di := w.st.getD i
  let g := w.c *. ei
  let h := w.c *. w.p
  let r := Scalar.sqrt (w.p *. w.p +. ei *. ei)
  let st := w.st.setE (i + 1) (w.s *. r)
  let s := ei /. r
  let c := w.p /. r
  let p := c *. di -. s *. g
  let st := st.setD (i + 1) (h +. s *. (c *. g +. s *. di))
  let st := { st with d := rotVec i c s st.d }
  { st := st, p := p, c := c, c2 := c2, c3 := c3, s := s, s2 := s2 }

/-- `for (ii = 0; ii < mml; ii++)`: `n` = remaining trips, `i + 1` = index of the previous trip -/
def innerLoop : Nat → Nat → Sweep α → Sweep α
  | 0, _, w => w
  | n + 1, top, w => innerLoop n (top - 1) (innerStep (top - 1) w)

/-- the `form shift` part of the loop body: new `d[l]`, `d[l+1]`, `d[i] -= h` for i ≥ l+2, `f += h` -/
def shift (l : Nat) (st : QL α) : QL α :=
  let l1 := l + 1
  let g := st.getD l
  let el := st.getE l
  let p := (st.getD l1 -. g) /. (two *. el)
  let r := Scalar.sqrt (p *. p +. one)
  let st := st.setD l (el /. (p +. gridSign r p))
  let st := st.setD l1 (el *. (p +. gridSign r p))
  let h := g -. st.getD l
  let st := if l1 + 1 ≤ 2 then st.setD 2 (st.getD 2 -. h) else st
  { st with f := st.f +. h }

/-- one pass through the body of the `do { } while (REF_TRUE)` loop (shift + QL sweep), l < mm ≤ 2 -/
def sweep (l mm : Nat) (st : QL α) : QL α :=
  let st1 := shift l st
  let dl1 := st1.getD (l + 1)
  let el1 := st.getE (l + 1)
  let w := innerLoop (mm - l) mm
    { st := st1, p := st1.getD mm, c := one, c2 := one, c3 := zero, s := zero, s2 := zero }
  let p := (-. w.s) *. w.s2 *. w.c3 *. el1 *. w.st.getE l /. dl1
  let st := w.st.setE l (w.s *. p)
  st.setD l (w.c *. p)

/-- the `do { j = j + 1; if (j > 30) failure; …; if small break; } while (REF_TRUE)` loop;
    `fuel` = 30 - j -/
def qlLoop : Nat → Nat → Nat → QL α → Except Err (QL α)
  | 0, _, _, _ => .error .failure
  | fuel + 1, l, mm, st =>
    let st := sweep l mm st
    if st.isSmall l then .ok st else qlLoop fuel l mm st

/-- body of `for (l = 0; l < 3; l++)`.  When the small-subdiagonal search falls through (`mm = 3`,
    which needs `tst1` or `e[2]` to be ±inf/NaN, e.g. after an overflow on finite entries of size 1e308) the C returns
    `REF_FAILURE` (`RAS(mm < 3, …)`, the repair `fix: ref_matrix_diag_m stops when an intermediate overflows`; before it the
    code went on to write `e[3]`, an out-of-bounds store that this model carried as the outcome `ub`). -/
def rowStep (l : Nat) (st : QL α) : Except Err (QL α) :=
  let h := cabs (st.getD l) +. cabs (st.getE l)
  let st := if Scalar.lt st.tst1 h then { st with tst1 := h } else st
  let mm := st.findSmall l (3 - l)
  if mm == 3 then .error .failure
  else if mm != l then
    match qlLoop 30 l mm st with
    | .ok st => .ok (st.setD l (st.getD l +. st.f))
    | .error e => .error e
  else .ok (st.setD l (st.getD l +. st.f))

/-- `ref_matrix_diag_m` -/
def diagM (m : M6 α) : Except Err (Eig12 α) :=
  if !m.allFinite then .error .invalid else
  match rowStep 0 (rot0 m) with
  | .error e => .error e
  | .ok st =>
    match rowStep 1 st with
    | .error e => .error e
    | .ok st =>
      match rowStep 2 st with
      | .error e => .error e
      | .ok st => .ok st.d

/-! ### ordering of eigen systems -/

def swap01 (d : Eig12 α) : Eig12 α :=
  { d with l0 := d.l1, l1 := d.l0, x0 := d.x1, x1 := d.x0, y0 := d.y1, y1 := d.y0, z0 := d.z1, z1 := d.z0 }
def swap02 (d : Eig12 α) : Eig12 α :=
  { d with l0 := d.l2, l2 := d.l0, x0 := d.x2, x2 := d.x0, y0 := d.y2, y2 := d.y0, z0 := d.z2, z2 := d.z0 }
def swap12 (d : Eig12 α) : Eig12 α :=
  { d with l1 := d.l2, l2 := d.l1, x1 := d.x2, x2 := d.x1, y1 := d.y2, y2 := d.y1, z1 := d.z2, z2 := d.z1 }

/-- `ref_matrix_descending_eig` -/
def descendingEig (d : Eig12 α) : Eig12 α :=
  let d := if bgt d.l1 d.l0 then swap01 d else d
  let d := if bgt d.l2 d.l0 then swap02 d else d
  if bgt d.l2 d.l1 then swap12 d else d

/-- `ref_matrix_descending_eig_twod`: the vector closest to z goes last, the other two descending -/
def descendingEigTwod (d : Eig12 α) : Except Err (Eig12 α) :=
  let dot (x y z : α) : α := cabs (zero *. x +. zero *. y +. one *. z)
  let best : α := Scalar.ofInt (-2)
  let zdir : Option Nat := none
  let d0 := dot d.x0 d.y0 d.z0
  let (best, zdir) := if bgt d0 best then (d0, some 0) else (best, zdir)
  let d1 := dot d.x1 d.y1 d.z1
  let (best, zdir) := if bgt d1 best then (d1, some 1) else (best, zdir)
  let d2 := dot d.x2 d.y2 d.z2
  let (_, zdir) := if bgt d2 best then (d2, some 2) else (best, zdir)
  match zdir with
  | none => .error .failure
  | some z =>
    let d := match z with
      | 0 => swap02 d
      | 1 => swap12 d
      | _ => d
    .ok (if bgt d.l1 d.l0 then swap01 d else d)

/-! ### matrix functions through the eigen system -/

/-- `ref_matrix_log_m` -/
def logM (m : M6 α) : Except Err (M6 α) :=
  match diagM m with
  | .error e => .error e
  | .ok d => .ok (formM (mapEig Scalar.log d))

/-- `ref_matrix_exp_m` -/
def expM (m : M6 α) : Except Err (M6 α) :=
  match diagM m with
  | .error e => .error e
  | .ok d => .ok (formM (mapEig Scalar.exp d))

/-- shared tail of sqrt_m / sqrt_abs_m after the eigenvalues were made non-negative:
    `d[k] = sqrt(d[k])`, form, guarded reciprocals, form -/
def sqrtTail (d : Eig12 α) : Except Err (M6 α × M6 α) :=
  let d := mapEig Scalar.sqrt d
  let sq := formM d
  if !(divisible one d.l0) then .error .div_zero else
  let d := { d with l0 := one /. d.l0 }
  if !(divisible one d.l1) then .error .div_zero else
  let d := { d with l1 := one /. d.l1 }
  if !(divisible one d.l2) then .error .div_zero else
  let d := { d with l2 := one /. d.l2 }
  .ok (sq, formM d)

/-- `ref_matrix_sqrt_m`: (m^{1/2}, m^{-1/2}); `failure` on a negative eigenvalue -/
def sqrtM (m : M6 α) : Except Err (M6 α × M6 α) :=
  match diagM m with
  | .error e => .error e
  | .ok d =>
    if Scalar.lt d.l0 zero || Scalar.lt d.l1 zero || Scalar.lt d.l2 zero then .error .failure
    else sqrtTail d

/-- static `ref_matrix_sqrt_abs_m`: as sqrt_m with `ABS` of the eigenvalues -/
def sqrtAbsM (m : M6 α) : Except Err (M6 α × M6 α) :=
  match diagM m with
  | .error e => .error e
  | .ok d => sqrtTail (mapEig cabs d)

/-- `ref_matrix_jacob_m`: `j[i+3k] = sqrt(l_k) * vec(i,k)` -/
def jacobM (m : M6 α) : Except Err (M33 α) :=
  match diagM m with
  | .error e => .error e
  | .ok d =>
    let d := mapEig Scalar.sqrt d
    .ok { r0 := ⟨d.l0 *. d.x0, d.l1 *. d.x1, d.l2 *. d.x2⟩
          r1 := ⟨d.l0 *. d.y0, d.l1 *. d.y1, d.l2 *. d.y2⟩
          r2 := ⟨d.l0 *. d.z0, d.l1 *. d.z1, d.l2 *. d.z2⟩ }

/-- `ref_matrix_healthy_m`: `failure` when an eigenvalue is below -1.0e-15 -/
def healthyM (m : M6 α) : Except Err Unit :=
  match diagM m with
  | .error e => .error e
  | .ok d =>
    let floor : α := Scalar.ofDec (-1) (-15)
    if Scalar.lt d.l0 floor || Scalar.lt d.l1 floor || Scalar.lt d.l2 floor then .error .failure
    else .ok ()

/-! ### products -/

/-- `ref_matrix_m_full` -/
def mFull (m : M6 α) : M33 α :=
  { r0 := ⟨m.m11, m.m12, m.m13⟩, r1 := ⟨m.m12, m.m22, m.m23⟩, r2 := ⟨m.m13, m.m23, m.m33⟩ }

/-- `ref_matrix_full_m`: upper triangle -/
def fullM (a : M33 α) : M6 α := ⟨a.r0.x, a.r0.y, a.r0.z, a.r1.y, a.r1.z, a.r2.z⟩

/-- `ref_matrix_mult_m`: full product of two symmetric matrices (`product[i+3k]`) -/
def multM (m1 m2 : M6 α) : M33 α :=
  { r0 := ⟨m1.m11 *. m2.m11 +. m1.m12 *. m2.m12 +. m1.m13 *. m2.m13,
           m1.m11 *. m2.m12 +. m1.m12 *. m2.m22 +. m1.m13 *. m2.m23,
           m1.m11 *. m2.m13 +. m1.m12 *. m2.m23 +. m1.m13 *. m2.m33⟩
    r1 := ⟨m1.m12 *. m2.m11 +. m1.m22 *. m2.m12 +. m1.m23 *. m2.m13,
           m1.m12 *. m2.m12 +. m1.m22 *. m2.m22 +. m1.m23 *. m2.m23,
           m1.m12 *. m2.m13 +. m1.m22 *. m2.m23 +. m1.m23 *. m2.m33⟩
    r2 := ⟨m1.m13 *. m2.m11 +. m1.m23 *. m2.m12 +. m1.m33 *. m2.m13,
           m1.m13 *. m2.m12 +. m1.m23 *. m2.m22 +. m1.m33 *. m2.m23,
           m1.m13 *. m2.m13 +. m1.m23 *. m2.m23 +. m1.m33 *. m2.m33⟩ }

/-- `ref_matrix_mult_m0m1m0(m1, m2, m)`: upper triangle of m1·m2·m1 -/
def multM0M1M0 (m1 m2 : M6 α) : M6 α :=
  let p := multM m1 m2
  { m11 := p.r0.x *. m1.m11 +. p.r0.y *. m1.m12 +. p.r0.z *. m1.m13
    m12 := p.r0.x *. m1.m12 +. p.r0.y *. m1.m22 +. p.r0.z *. m1.m23
    m13 := p.r0.x *. m1.m13 +. p.r0.y *. m1.m23 +. p.r0.z *. m1.m33
    m22 := p.r1.x *. m1.m12 +. p.r1.y *. m1.m22 +. p.r1.z *. m1.m23
    m23 := p.r1.x *. m1.m13 +. p.r1.y *. m1.m23 +. p.r1.z *. m1.m33
    m33 := p.r2.x *. m1.m13 +. p.r2.y *. m1.m23 +. p.r2.z *. m1.m33 }

/-! ### metric intersection and its dual -/

/-- shared tail of intersect / bound: `clamp` is `MAX(1.0, ·)` resp. `MIN(1.0, ·)` -/
def combine (clamp : α → α) (m1half m1neghalf m2 : M6 α) : Except Err (M6 α) :=
  let m2bar := multM0M1M0 m1neghalf m2
  match diagM m2bar with
  | .error e => .error e
  | .ok sys =>
    let m12bar := formM (mapEig clamp sys)
    .ok (multM0M1M0 m1half m12bar)

/-- `ref_matrix_intersect`; `div_zero` from the square root of m1 returns m2 -/
def intersect (m1 m2 : M6 α) : Except Err (M6 α) :=
  match sqrtM m1 with
  | .error .div_zero => .ok m2
  | .error e => .error e
  | .ok (m1half, m1neghalf) => combine (fun x => cmax one x) m1half m1neghalf m2

/-- `ref_matrix_bound`; `div_zero` from the square root of |m1| returns m2 -/
def bound (m1 m2 : M6 α) : Except Err (M6 α) :=
  match sqrtAbsM m1 with
  | .error .div_zero => .ok m2
  | .error e => .error e
  | .ok (m1half, m1neghalf) => combine (fun x => cmin one x) m1half m1neghalf m2

/-! ### general 3x3 inverse and determinant (`ref_matrix_inv_gen`, `ref_matrix_det_gen` with n = 3) -/

@[inline] def Vec3.get (r : Vec3 α) : Nat → α
  | 0 => r.x
  | 1 => r.y
  | _ => r.z

@[inline] def M33.row (a : M33 α) : Nat → Vec3 α
  | 0 => a.r0
  | 1 => a.r1
  | _ => a.r2

@[inline] def M33.setRow (a : M33 α) (i : Nat) (r : Vec3 α) : M33 α :=
  match i with
  | 0 => { a with r0 := r }
  | 1 => { a with r1 := r }
  | _ => { a with r2 := r }

@[inline] def M33.swapRows (a : M33 α) (i j : Nat) : M33 α :=
  (a.setRow i (a.row j)).setRow j (a.row i)

/-- `row /= pivot` (each entry) -/
@[inline] def Vec3.divBy (r : Vec3 α) (p : α) : Vec3 α := ⟨r.x /. p, r.y /. p, r.z /. p⟩
/-- `ri[k] -= scale * rj[k]` -/
@[inline] def Vec3.axmy (ri : Vec3 α) (scale : α) (rj : Vec3 α) : Vec3 α :=
  ⟨ri.x -. scale *. rj.x, ri.y -. scale *. rj.y, ri.z -. scale *. rj.z⟩
@[inline] def Vec3.allDivisible (r : Vec3 α) (p : α) : Bool :=
  divisible r.x p && divisible r.y p && divisible r.z p

def M33.identity : M33 α := ⟨⟨one, zero, zero⟩, ⟨zero, one, zero⟩, ⟨zero, zero, one⟩⟩

/-- eliminate column j from row i of (a | inv): guarded `scale = a[i][j]/a[j][j]`, both rows updated -/
def elimRow (j i : Nat) (p : M33 α × M33 α) : Except Err (M33 α × M33 α) :=
  let (a, inv) := p
  let aij := (a.row i).get j
  let ajj := (a.row j).get j
  if !(divisible aij ajj) then .error .div_zero else
  let scale := aij /. ajj
  .ok (a.setRow i ((a.row i).axmy scale (a.row j)), inv.setRow i ((inv.row i).axmy scale (inv.row j)))

/-- `best = j; for (k = j+1; k < n; k++) if (ABS(a[k][j]) > ABS(a[best][j])) best = k;` -/
def pivotRow (j : Nat) (a : M33 α) : Nat :=
  let best := j
  let best := if j + 1 ≤ 2 ∧ bgt (cabs ((a.row (j + 1)).get j)) (cabs ((a.row best).get j)) then j + 1 else best
  if j + 2 ≤ 2 ∧ bgt (cabs ((a.row (j + 2)).get j)) (cabs ((a.row best).get j)) then j + 2 else best

/-- `if (best != j)` swap rows j and best of both matrices -/
def swapStep (j : Nat) (p : M33 α × M33 α) : M33 α × M33 α :=
  let best := pivotRow j p.1
  if best != j then (p.1.swapRows j best, p.2.swapRows j best) else p

/-- scale row j of both matrices so that `a[j][j]` is 1.0; every entry is guarded by `ref_math_divisible` -/
def scaleRow (j : Nat) (p : M33 α × M33 α) : Except Err (M33 α × M33 α) :=
  let pivot := (p.1.row j).get j
  if !((p.1.row j).allDivisible pivot && (p.2.row j).allDivisible pivot) then .error .div_zero else
  .ok (p.1.setRow j ((p.1.row j).divBy pivot), p.2.setRow j ((p.2.row j).divBy pivot))

/-- eliminate column j: lower triangle first (`i = j+1 … 2`), then upper triangle (`i = 0 … j-1`) -/
def elimOthers (j : Nat) (p : M33 α × M33 α) : Except Err (M33 α × M33 α) :=
  match j with
  | 0 => match elimRow 0 1 p with
      | .error e => .error e
      | .ok q => elimRow 0 2 q
  | 1 => match elimRow 1 2 p with
      | .error e => .error e
      | .ok q => elimRow 1 0 q
  | _ => match elimRow 2 0 p with
      | .error e => .error e
      | .ok q => elimRow 2 1 q

/-- one trip of the `for (j = 0; j < n; j++)` loop of `ref_matrix_inv_gen` (n = 3):
    partial pivoting, scaling of row j, elimination of column j below then above -/
def invStep (j : Nat) (p : M33 α × M33 α) : Except Err (M33 α × M33 α) :=
  match scaleRow j (swapStep j p) with
  | .error e => .error e
  | .ok q => elimOthers j q

/-- `ref_matrix_inv_gen(3, orig, inv)` -/
def invGen3 (orig : M33 α) : Except Err (M33 α) :=
  match invStep 0 (orig, M33.identity) with
  | .error e => .error e
  | .ok p =>
    match invStep 1 p with
    | .error e => .error e
    | .ok p =>
      match invStep 2 p with
      | .error e => .error e
      | .ok p => .ok p.2

/-- `ref_matrix_inv_m` -/
def invM (m : M6 α) : Except Err (M6 α) :=
  match invGen3 (mFull m) with
  | .error e => .error e
  | .ok inv => .ok (fullM inv)

/-- `ref_matrix_det_gen(3, orig, det)`: Gaussian elimination without pivoting; a pivot that is not
    `ref_math_divisible` makes the routine return det = 0 (with REF_SUCCESS) -/
def detGen3 (a : M33 α) : α :=
  let det := one *. a.r0.x
  if !(divisible a.r1.x a.r0.x) then zero else
  let r1 := a.r1.axmy (a.r1.x /. a.r0.x) a.r0
  if !(divisible a.r2.x a.r0.x) then zero else
  let r2 := a.r2.axmy (a.r2.x /. a.r0.x) a.r0
  let det := det *. r1.y
  if !(divisible r2.y r1.y) then zero else
  let r2 := r2.axmy (r2.y /. r1.y) r1
  det *. r2.z

/-- `ref_matrix_det_m` -/
def detM (m : M6 α) : α := detGen3 (mFull m)

end Refine.Model.Matrix
