import Refine.Model.Geom

/-!
  L8 Search: `ref_search.c` (sphere tree), `ref_node_bounding_sphere_xyz` (ref_node.c) and the
  tree construction loop of `ref_phys_wall_distance` (ref_phys.c), generic over `Scalar`.

  The C stores the tree in arrays indexed by insertion slot (`item[] pos[] radius[] left[] right[]
  children_ball[]`); slot 0 is the root and a slot's `item/pos/radius` never change after the insert.
  The model keeps the same information as an inductive `STree` whose nodes remember their slot
  (`Entry.loc`); `STree.rows` lists the array rows, so a dump of the C arrays can be compared
  after every insert (driver `search`, op `dump`).  Operation order of every `REF_DBL` expression is
  copied from the C so that the `Float` instance is bit-identical.
-/
namespace Refine.Model.Search
open Refine Refine.Model.Geom

variable {α : Type} [Scalar α]

/-! ## small vector helpers (`ref_math.h` macros) -/

-- `ref_math_dot` and `ref_math_cross_product` are `Refine.Model.Geom.dot` / `cross` (same operation order)

/-- componentwise `a[i] - b[i]` -/
@[inline] def vsub (a b : V3 α) : V3 α := ⟨a.x -. b.x, a.y -. b.y, a.z -. b.z⟩


/-- the loop `d = 0.0; for i: d += pow(b[i] - a[i], 2); d = sqrt(d)` used by `ref_search_distance`
    (`a` = first slot, `b` = second slot) and, with `a` = node centre and `b` = query position, by
    `ref_search_gather*` / `ref_search_trim`.  gcc folds `pow(x,2)` to `x*x`. -/
def dist0 (a b : V3 α) : α :=
  let dx := b.x -. a.x
  let dy := b.y -. a.y
  let dz := b.z -. a.z
  Scalar.sqrt (((Scalar.zero +. dx *. dx) +. dy *. dy) +. dz *. dz)

/-! ## distance kernels -/

/-- `ref_search_distance2`: point–segment distance -/
def dist2seg (p0 p1 x : V3 α) : α :=
  let dl := vsub p1 p0
  let dx := vsub x p0
  let len2 := dot dl dl
  let proj2 := dot dx dl
  if Scalar.divisible proj2 len2 then
    let t := proj2 /. len2
    let t := Scalar.cmax t Scalar.zero
    let t := Scalar.cmin t Scalar.one
    let d : V3 α := ⟨x.x -. (p0.x +. t *. dl.x), x.y -. (p0.y +. t *. dl.y), x.z -. (p0.z +. t *. dl.z)⟩
    Scalar.sqrt (dot d d)
  else
    Scalar.sqrt (dot dx dx)

/-- `ref_search_xyz_normal` : `(xyz1-xyz0) × (xyz2-xyz0)` -/
@[inline] def xyzNormal (p0 p1 p2 : V3 α) : V3 α := cross (vsub p1 p0) (vsub p2 p0)

/-- the in-plane foot `xyzp` of `ref_search_distance3` (projection along the *un-normalised* normal:
    `xyzp = x - N (N·(x-p0))`, which is the orthogonal projection only when `|N| = 1`) -/
def tri3Foot (p0 p1 p2 x : V3 α) : V3 α :=
  let n := xyzNormal p0 p1 p2
  let q := vsub x p0
  let total := dot q n
  let q : V3 α := ⟨q.x -. n.x *. total, q.y -. n.y *. total, q.z -. n.z *. total⟩
  ⟨q.x +. p0.x, q.y +. p0.y, q.z +. p0.z⟩

/-- candidate repair (NOT what /repo does today): after `total = dot(xyzp, N)` insert
    `if (ref_math_divisible(total, dot(N,N))) total /= dot(N,N);` so that `xyzp` is the orthogonal projection -/
def tri3FootFixed (p0 p1 p2 x : V3 α) : V3 α :=
  let n := xyzNormal p0 p1 p2
  let q := vsub x p0
  let total := dot q n
  let total := if Scalar.divisible total (dot n n) then total /. dot n n else total
  let q : V3 α := ⟨q.x -. n.x *. total, q.y -. n.y *. total, q.z -. n.z *. total⟩
  ⟨q.x +. p0.x, q.y +. p0.y, q.z +. p0.z⟩

/-- the three un-normalised barycentric numerators of `ref_search_distance3`, for a given in-plane foot `xp` -/
def tri3BaryAt (p0 p1 p2 xp : V3 α) : V3 α :=
  let n := xyzNormal p0 p1 p2
  ⟨dot (xyzNormal xp p1 p2) n, dot (xyzNormal p0 xp p2) n, dot (xyzNormal p0 p1 xp) n⟩

/-- the edge fall-back of `ref_search_distance3` -/
def tri3Edges (p0 p1 p2 x : V3 α) : α :=
  let d := dist2seg p0 p1 x
  let d := Scalar.cmin d (dist2seg p1 p2 x)
  Scalar.cmin d (dist2seg p2 p0 x)

/-- `ref_search_distance3` with the foot computation as a parameter -/
def dist2triWith (foot : V3 α → V3 α → V3 α → V3 α → V3 α) (p0 p1 p2 x : V3 α) : α :=
  let b := tri3BaryAt p0 p1 p2 (foot p0 p1 p2 x)
  let total := b.x +. b.y +. b.z
  if Scalar.divisible b.x total && Scalar.divisible b.y total && Scalar.divisible b.z total then
    let b0 := b.x /. total
    let b1 := b.y /. total
    let b2 := b.z /. total
    if Scalar.bge b0 Scalar.zero && Scalar.bge b1 Scalar.zero && Scalar.bge b2 Scalar.zero then
      let d : V3 α := ⟨b0 *. p0.x +. b1 *. p1.x +. b2 *. p2.x -. x.x,
                       b0 *. p0.y +. b1 *. p1.y +. b2 *. p2.y -. x.y,
                       b0 *. p0.z +. b1 *. p1.z +. b2 *. p2.z -. x.z⟩
      Scalar.sqrt (dot d d)
    else tri3Edges p0 p1 p2 x
  else tri3Edges p0 p1 p2 x

/-- the foot computation `ref_search_distance3` uses in /repo today.  THE ONE LINE TO FLIP when the repair
    lands: replace `tri3Foot` by `tri3FootFixed` here (theorems and driver follow; `tri3FootRepo_along` in
    `Lemmas/SearchTri.lean` accepts either). -/
@[inline] def tri3FootRepo (p0 p1 p2 x : V3 α) : V3 α := tri3FootFixed p0 p1 p2 x

/-- `ref_search_distance3`: point–triangle distance, as in /repo today -/
def dist2tri (p0 p1 p2 x : V3 α) : α := dist2triWith tri3FootRepo p0 p1 p2 x

/-- `ref_search_distance3` with the candidate repair -/
def dist2triFixed (p0 p1 p2 x : V3 α) : α := dist2triWith tri3FootFixed p0 p1 p2 x

/-! ## bounding sphere (`ref_node_bounding_sphere_xyz`) -/

/-- centre: per component `c = 0; for j: c += xyz[i+3j]; c /= (REF_DBL)n` -/
def sphereCenter (pts : List (V3 α)) : V3 α :=
  let n : α := Scalar.ofInt (Int.ofNat pts.length)
  let s : V3 α := pts.foldl (fun c p => ⟨c.x +. p.x, c.y +. p.y, c.z +. p.z⟩) ⟨Scalar.zero, Scalar.zero, Scalar.zero⟩
  ⟨s.x /. n, s.y /. n, s.z /. n⟩

/-- one term of the radius loop: `sqrt(pow(x-c0,2)+pow(y-c1,2)+pow(z-c2,2))` -/
def sphereTerm (c p : V3 α) : α :=
  let dx := p.x -. c.x
  let dy := p.y -. c.y
  let dz := p.z -. c.z
  Scalar.sqrt (dx *. dx +. dy *. dy +. dz *. dz)

/-- radius about an arbitrary centre: `r = 0; for i: r = MAX(r, term_i)` -/
def sphereRadius (c : V3 α) (pts : List (V3 α)) : α :=
  pts.foldl (fun r p => Scalar.cmax r (sphereTerm c p)) Scalar.zero

/-- `ref_node_bounding_sphere_xyz(xyz, n, center, &radius)` -/
def boundingSphere (pts : List (V3 α)) : V3 α × α :=
  let c := sphereCenter pts
  (c, sphereRadius c pts)

/-! ## the tree -/

/-- what `ref_search_insert` writes into slot `loc` -/
structure Entry (α : Type) where
  loc : Nat
  item : Int
  pos : V3 α
  rad : α

inductive STree (α : Type) where
  | nil : STree α
  | node (e : Entry α) (ball : α) (l r : STree α) : STree α

namespace STree

@[inline] def leaf (c : Entry α) : STree α := .node c Scalar.zero .nil .nil

/-- `children_ball[parent] = MAX(children_ball[parent], child_distance + radius[child])` -/
@[inline] def ballUp (c e : Entry α) (ball : α) : α :=
  Scalar.cmax ball (dist0 c.pos e.pos +. c.rad)

/-- `ref_search_home(child, parent)`: update the parent's ball, take the first free child slot
    (left first), else descend to the nearer child (`<`: ties and NaN go right).
    `nil` is the empty tree: the first insert lands in slot 0 and `home(0,0)` returns at once. -/
def home (c : Entry α) : STree α → STree α
  | .nil => leaf c
  | .node e ball .nil r => .node e (ballUp c e ball) (leaf c) r
  | .node e ball (.node le lb ll lr) .nil => .node e (ballUp c e ball) (.node le lb ll lr) (leaf c)
  | .node e ball (.node le lb ll lr) (.node re rb rl rr) =>
    if dist0 c.pos le.pos <. dist0 c.pos re.pos then
      .node e (ballUp c e ball) (home c (.node le lb ll lr)) (.node re rb rl rr)
    else
      .node e (ballUp c e ball) (.node le lb ll lr) (home c (.node re rb rl rr))

/-- pre-order list of the entries (the order `ref_search_gather` visits an unpruned tree) -/
def pre : STree α → List (Entry α)
  | .nil => []
  | .node e _ l r => e :: (pre l ++ pre r)

def rootLoc : STree α → Int
  | .nil => -1
  | .node e _ _ _ => Int.ofNat e.loc

/-- the C array rows `(slot, item, left, right, children_ball, pos, radius)`, pre-order -/
def rows : STree α → List (Nat × Int × Int × Int × α × V3 α × α)
  | .nil => []
  | .node e ball l r => (e.loc, e.item, rootLoc l, rootLoc r, ball, e.pos, e.rad) :: (rows l ++ rows r)

/-- `ref_search_gather`: items whose sphere touches the query sphere, appended to `acc` in C push order -/
def touching (x : V3 α) (rho : α) : STree α → List Int → List Int
  | .nil, acc => acc
  | .node e ball l r, acc =>
    let d := dist0 e.pos x
    let acc1 := if d <=. e.rad +. rho then acc ++ [e.item] else acc
    if d -. rho <=. ball then touching x rho r (touching x rho l acc1) else acc1

/-- `ref_search_gather_seg/_tri` with the element distance abstracted to `ed item`
    (`ed i = dist2seg …` resp. `dist2tri …` of element `i` to the query point `x`) -/
def nearestWith (ed : Int → α) (x : V3 α) : STree α → α → α
  | .nil, d => d
  | .node e ball l r, d =>
    let dist := dist0 e.pos x
    let d1 := if dist -. e.rad <=. d then Scalar.cmin d (ed e.item) else d
    if Scalar.bge d1 (dist -. ball) then nearestWith ed x r (nearestWith ed x l d1) else d1

/-- `ref_search_trim` -/
def trim (x : V3 α) : STree α → α → α
  | .nil, t => t
  | .node e ball l r, t =>
    let d := dist0 e.pos x
    let t1 := if d +. e.rad <. t then d +. e.rad else t
    if Scalar.bgt t1 (d -. ball) then trim x r (trim x l t1) else t1

end STree

/-- `REF_DBL_MAX` (ref_defs.h) -/
@[inline] def dblMax : α := Scalar.ofDec 1 200

/-- `REF_SEARCH_STRUCT`: capacity `n`, next free slot `empty`, and the tree of the filled slots -/
structure Search (α : Type) where
  n : Nat
  empty : Nat
  root : STree α

inductive Status where
  | ok | failure | invalid | increaseLimit
  deriving DecidableEq, Repr

namespace Search

/-- `ref_search_create(&s, n)`; a negative `n` fails in `ref_malloc` (`REF_FAILURE`) -/
def create (n : Int) : Except Status (Search α) :=
  if n < 0 then .error .failure else .ok ⟨n.toNat, 0, .nil⟩

/-- `ref_search_insert`: limit check first, then the negative-item check, then slot `empty` is filled -/
def insert (s : Search α) (item : Int) (pos : V3 α) (rad : α) : Status × Search α :=
  if s.empty ≥ s.n then (.increaseLimit, s)
  else if item < 0 then (.invalid, s)
  else (.ok, { s with empty := s.empty + 1, root := s.root.home ⟨s.empty, item, pos, rad⟩ })

/-- `ref_search_touching` into an empty list -/
def touching (s : Search α) (x : V3 α) (rho : α) : List Int := s.root.touching x rho []

/-- `ref_search_trim_radius` -/
def trimRadius (s : Search α) (x : V3 α) : α := s.root.trim x dblMax

/-- `ref_search_nearest_candidates` -/
def nearestCandidates (s : Search α) (x : V3 α) : List Int := s.touching x (s.trimRadius x)

/-- `ref_search_nearest_candidates_closer_than` -/
def nearestCandidatesCloserThan (s : Search α) (x : V3 α) (d : α) : List Int :=
  s.touching x (s.root.trim x d)

/-- `ref_search_nearest_element` with `node_per == 2`; `segs i` are the end points of element `i` -/
def nearestSeg (s : Search α) (segs : Int → V3 α × V3 α) (x : V3 α) (d0 : α) : α :=
  s.root.nearestWith (fun i => dist2seg (segs i).1 (segs i).2 x) x d0

/-- `ref_search_nearest_element` with `node_per != 2` -/
def nearestTri (s : Search α) (tris : Int → V3 α × V3 α × V3 α) (x : V3 α) (d0 : α) : α :=
  s.root.nearestWith (fun i => dist2tri (tris i).1 (tris i).2.1 (tris i).2.2 x) x d0

end Search

/-! ## the construction loop of `ref_phys_wall_distance` -/

/-- `scale = 1.0 + 1.0e-8` -/
@[inline] def inflate : α := Scalar.one +. Scalar.ofDec 1 (-8)

/-- `for i: cell = permutation[i]; bounding_sphere_xyz; ref_search_insert(s, cell, center, scale*radius)`.
    `verts cell` are the `node_per` vertices of element `cell`; stops at the first non-ok status like `RSS`. -/
def wallBuild (ncell : Int) (verts : Int → List (V3 α)) (perm : List Int) : Status × Option (Search α) :=
  match (Search.create ncell : Except Status (Search α)) with
  | .error st => (st, none)
  | .ok s0 =>
    let rec go (s : Search α) : List Int → Status × Search α
      | [] => (.ok, s)
      | cell :: rest =>
        let (c, r) := boundingSphere (verts cell)
        match s.insert cell c (inflate *. r) with
        | (.ok, s') => go s' rest
        | (st, s') => (st, s')
    let (st, s) := go s0 perm
    (st, some s)

/-- `ref_phys_local_wall` (3-D): the wall triangles first, then every wall quad as the two triangles
    `(0,1,2)` and `(0,2,3)`, in cell order -/
def localWall3 (tris : List (V3 α × V3 α × V3 α)) (quads : List (V3 α × V3 α × V3 α × V3 α)) :
    List (V3 α × V3 α × V3 α) :=
  tris ++ quads.flatMap (fun q => [(q.1, q.2.1, q.2.2.1), (q.1, q.2.2.1, q.2.2.2)])

end Refine.Model.Search
