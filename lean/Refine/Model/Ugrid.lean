import Refine.Model.Endian
import Refine.Model.Meshb
import Refine.Gen.CellTables
import Refine.Gen.PartMacros
import Refine.Gen.UgridOffsets
import Refine.Gen.UgridFlavours

/-!
  L7 Codec, part 3: the binary AFLR3 UGRID stream files (`.lb8.ugrid`, `.b8.ugrid`, `.lb8l.ugrid`, `.b8l.ugrid`,
  `.lb8.ugrid64`, `.b8.ugrid64`) as handled by

    ref_export_bin_ugrid (+ _int)                               src/ref_export.c   serial writer   `encodeUgrid`
    ref_import_bin_ugrid (+ _chunk, _c2n, _bound_tag)           src/ref_import.c   serial reader   `decodeUgridWith`
    ref_part_bin_ugrid (+ _cell, _pack_cell), ref_part_node     src/ref_part.c     parallel reader `partRead`
    ref_gather_bin_ugrid (ref_gather_node, ref_gather_cell)     src/ref_gather.c   parallel writer `gatherUgrid`

  Layout the C implements (all four agree): 7 counts `nnode ntri nqua ntet npyr npri nhex`; `nnode × (x y z)` as
  binary64; triangle connectivity (3 ints each), quad connectivity (4); triangle tags, quad tags (1 int each); then
  tet (4), pyramid (5), prism (6), hex (8) connectivity.  Node indices are 1-based in the file.  Integers are 4 bytes
  (`fat = false`) or 8 bytes (`fat = true`, the `l` / `64` names); `swap = true` is the big-endian family: the C runs on
  a little-endian machine and applies `SWAP_INT/LONG/DBL` (regenerated in `Refine.Gen.Endian`).  UGRID keeps refine's
  node order for every cell kind: there is no pyramid or prism shuffle in any of the four functions
  (`Refine.Gen.UgridFlavours.*Shuffles = 0`, regenerated; the meshb pyramid shuffle of ref_gather_cell is guarded by
  `always_id`, which ref_gather_bin_ugrid passes as 0).

  * the serial WRITER sweeps `faceid = min..max` and emits the boundary faces of that id: a stable sort by tag;
    the parallel writer emits in owner order (rank 0 first), unsorted;
  * the serial READER checks every `fread` (short read → `REF_FAILURE`), skips a section whose count is ≤ 0, refuses a
    negative `nnode` (`ref_malloc` of a negative size), and since /repo commit 6682479 refuses a node index outside
    `1..nnode` (`REF_INVALID`; `Cfg.checkIndex`, `ugridCfg`); before that commit (`ugridCfgLegacy`) only `ref_adj_add`
    looked at the indices: index ≤ 0 `REF_INVALID`, an index above `nnode` accepted;
  * the PARALLEL reader seeks to the offsets generated into `Refine.Gen.UgridOffsets`, reads `chunk` cells at a time,
    sends every cell to `ref_part_implicit` of its first node and then to every part that owns one of its nodes
    (`ref_migrate_shufflin_cell`); `ref_cell_add_many_global` drops a cell whose node set is already stored.
    Since 6682479 every node entry of a chunk is tested against `[0, nnode)` (`REF_INVALID`) before it is routed;
    before (`ugridCfgLegacy`) nothing compared an index with `nnode`: outside `1..nnode` the C indexed
    `elements_to_send[]` out of bounds (or divided by zero when `nnode = 0`) — `Status.undefined` in the legacy model.

  Core-only imports: linked into `refdrv`.
-/
namespace Refine.Model.Ugrid
open Refine.Gen Refine.Model.Meshb Refine.Model.Endian

/-! ## flavours -/

structure Flavor where
  /-- big-endian file: the C applies the `SWAP_*` macros -/
  swap : Bool
  /-- 64-bit integers (`.lb8l/.b8l.ugrid`, `.ugrid64`) -/
  fat : Bool
  deriving DecidableEq, Repr, Inhabited

def Flavor.ibytes (fl : Flavor) : Nat := if fl.fat then 8 else 4

/-- the four (swap, fat) combinations behind the six file names -/
def allFlavors : List Flavor := [⟨false, false⟩, ⟨true, false⟩, ⟨false, true⟩, ⟨true, true⟩]

/-- look a file-name suffix up in one of the generated dispatcher tables -/
def flavorIn (table : List (String × Bool × Bool)) (suffix : String) : Option Flavor :=
  match table.find? (fun e => e.1 == suffix) with
  | some (_, s, f) => some ⟨s, f⟩
  | none => none

/-! ## cell kinds -/

inductive Kind
  | tri | qua | tet | pyr | pri | hex
  deriving DecidableEq, Repr, Inhabited

def Kind.all : List Kind := [.tri, .qua, .tet, .pyr, .pri, .hex]

/-- `ref_cell_node_per`, from the generated `ref_cell_initialize` tables -/
def Kind.nodePer : Kind → Nat
  | .tri => CellTables.tri.nodePer | .qua => CellTables.qua.nodePer | .tet => CellTables.tet.nodePer
  | .pyr => CellTables.pyr.nodePer | .pri => CellTables.pri.nodePer | .hex => CellTables.hex.nodePer

/-- `ref_cell_last_node_is_an_id` (`size_per = node_per + 1`) -/
def Kind.hasTag : Kind → Bool
  | .tri => CellTables.tri.lastNodeIsId | .qua => CellTables.qua.lastNodeIsId | .tet => CellTables.tet.lastNodeIsId
  | .pyr => CellTables.pyr.lastNodeIsId | .pri => CellTables.pri.lastNodeIsId | .hex => CellTables.hex.lastNodeIsId

def Kind.sizePer (k : Kind) : Nat := k.nodePer + (if k.hasTag then 1 else 0)

def Kind.name : Kind → String
  | .tri => "tri" | .qua => "qua" | .tet => "tet" | .pyr => "pyr" | .pri => "pri" | .hex => "hex"

/-- The content of a REF_GRID that a UGRID file stores.  A cell is its `size_per` integers: `node_per` 0-based node
    indices, followed by the tag for triangles and quads. -/
structure UMesh where
  nodes : List Vertex
  tri : List (List Int)
  qua : List (List Int)
  tet : List (List Int)
  pyr : List (List Int)
  pri : List (List Int)
  hex : List (List Int)
  deriving DecidableEq, Repr, Inhabited

def UMesh.get (m : UMesh) : Kind → List (List Int)
  | .tri => m.tri | .qua => m.qua | .tet => m.tet | .pyr => m.pyr | .pri => m.pri | .hex => m.hex

/-! ## words -/

/-- an unsigned `w`-byte word as the C leaves it in the file: the in-memory little-endian bytes, passed through the
    `SWAP_INT` / `SWAP_LONG` macro for the big-endian flavours -/
def encWord (fl : Flavor) (w : Nat) (n : Nat) : Bytes :=
  let le := encLE w n
  if fl.swap then applyPerm (if w = 8 then Endian.swap_long else Endian.swap_int) le else le

/-- `ref_export_bin_ugrid_int`: a `REF_INT`, sign-extended to `REF_LONG` for the fat flavours -/
def encInt (fl : Flavor) (x : Int) : Bytes :=
  if fl.fat then encWord fl 8 (ofSigned 64 x) else encWord fl 4 (ofSigned 32 x)

/-- a `REF_DBL` (bit pattern), `SWAP_DBL` for the big-endian flavours -/
def encDbl (fl : Flavor) (u : UInt64) : Bytes :=
  let le := encLE 8 u.toNat
  if fl.swap then applyPerm Endian.swap_dbl le else le

def encVertex (fl : Flavor) (p : Vertex) : Bytes := encDbl fl p.x ++ encDbl fl p.y ++ encDbl fl p.z

/-! ## serial writer: `ref_export_bin_ugrid` -/

/-- the tag column of a boundary face -/
def tagOf (k : Kind) (c : List Int) : Int := c.getD k.nodePer 0

/-- the 1-based node indices written for a cell -/
def connOf (k : Kind) (c : List Int) : List Int := (c.take k.nodePer).map (· + 1)

/-- `for (faceid = min_faceid; faceid <= max_faceid; faceid++) each cell: if (nodes[node_per] == faceid) …`:
    the cells in increasing tag order, file order kept inside one tag — a stable sort by tag -/
def sortFaces (k : Kind) (cs : List (List Int)) : List (List Int) :=
  cs.mergeSort (fun a b => decide (tagOf k a ≤ tagOf k b))

/-- the mesh with its boundary faces in the order the serial writer emits them -/
def normalize (m : UMesh) : UMesh := { m with tri := sortFaces .tri m.tri, qua := sortFaces .qua m.qua }

def secHeader (fl : Flavor) (m : UMesh) : Bytes :=
  ([m.nodes.length, m.tri.length, m.qua.length, m.tet.length, m.pyr.length, m.pri.length, m.hex.length].map
    fun (n : Nat) => (n : Int)).flatMap (encInt fl)

def secNodes (fl : Flavor) (m : UMesh) : Bytes := m.nodes.flatMap (encVertex fl)

def secConn (fl : Flavor) (k : Kind) (cs : List (List Int)) : Bytes :=
  cs.flatMap fun c => (connOf k c).flatMap (encInt fl)

def secTags (fl : Flavor) (k : Kind) (cs : List (List Int)) : Bytes :=
  cs.flatMap fun c => encInt fl (tagOf k c)

/-- the ten sections of a file, in file order, WITHOUT reordering the boundary faces (what both writers do after they
    have fixed the cell order) -/
def sectionsRaw (fl : Flavor) (m : UMesh) : List Bytes :=
  [secHeader fl m, secNodes fl m, secConn fl .tri m.tri, secConn fl .qua m.qua, secTags fl .tri m.tri,
   secTags fl .qua m.qua, secConn fl .tet m.tet, secConn fl .pyr m.pyr, secConn fl .pri m.pri, secConn fl .hex m.hex]

def encodeRaw (fl : Flavor) (m : UMesh) : Bytes := (sectionsRaw fl m).flatten

/-- the sections of `ref_export_bin_ugrid`'s output -/
def sections (fl : Flavor) (m : UMesh) : List Bytes := sectionsRaw fl (normalize m)

/-- `ref_export_bin_ugrid(ref_grid, filename, swap, fat)` -/
def encodeUgrid (fl : Flavor) (m : UMesh) : Bytes := encodeRaw fl (normalize m)

/-- byte position of section `i` (0 header, 1 nodes, 2 tri conn, 3 qua conn, 4 tri tags, 5 qua tags, 6 tet, 7 pyr,
    8 pri, 9 hex) in the writer's output: the sizes of the sections before it -/
def sectionStart (fl : Flavor) (m : UMesh) (i : Nat) : Nat := ((sections fl m).take i).flatten.length

/-! ## serial reader: `ref_import_bin_ugrid` -/

/-- the value of the `w` bytes of one word as read from the file: the swap macro for the big-endian flavours, then the
    machine's (little-endian) interpretation -/
def decWord (fl : Flavor) (w : Nat) (b : Bytes) : Nat :=
  decLE (if fl.swap then applyPerm (if w = 8 then Endian.swap_long else Endian.swap_int) b else b)

/-- `fread` of one `w`-byte word + the swap macro -/
def rdWord (fl : Flavor) (w : Nat) : P Nat := fun s =>
  match takeN w s with
  | .error e => .error e
  | .ok (a, r) => .ok (decWord fl w a, r)

/-- `ref_import_bin_ugrid_chunk` for one item: `int`, or `long` truncated by `(REF_INT)actual[i]` -/
def rdInt (fl : Flavor) : P Int := fun s =>
  if fl.fat then
    match rdWord fl 8 s with
    | .error e => .error e
    | .ok (n, r) => .ok (toSigned 32 (n % 2 ^ 32), r)
  else
    match rdWord fl 4 s with
    | .error e => .error e
    | .ok (n, r) => .ok (toSigned 32 n, r)

def rdDbl (fl : Flavor) : P UInt64 := fun s =>
  match takeN 8 s with
  | .error e => .error e
  | .ok (a, r) => .ok (UInt64.ofNat (decLE (if fl.swap then applyPerm Endian.swap_dbl a else a)), r)

def rdInts (fl : Flavor) : Nat → P (List Int)
  | 0, s => .ok ([], s)
  | n + 1, s =>
    match rdInt fl s with
    | .error e => .error e
    | .ok (x, s) =>
    match rdInts fl n s with
    | .error e => .error e
    | .ok (xs, s) => .ok (x :: xs, s)

def rdVerts (fl : Flavor) : Nat → P (List Vertex)
  | 0, s => .ok ([], s)
  | n + 1, s =>
    match rdDbl fl s with
    | .error e => .error e
    | .ok (x, s) =>
    match rdDbl fl s with
    | .error e => .error e
    | .ok (y, s) =>
    match rdDbl fl s with
    | .error e => .error e
    | .ok (z, s) =>
    match rdVerts fl n s with
    | .error e => .error e
    | .ok (vs, s) => .ok (⟨x, y, z⟩ :: vs, s)

/-- `xs` cut into rows of `per` -/
def rows (per : Nat) : Nat → List Int → List (List Int)
  | 0, _ => []
  | n + 1, xs => xs.take per :: rows per n (xs.drop per)

/-- one connectivity row → the `size_per` integers `ref_cell_add` stores, or its error.
    Since 6682479 (`cfg.checkIndex`): `c2n[..] < 1 || nnode < c2n[..]` on the 1-based value → `REF_INVALID`, before the
    decrement.  Before it (`ugridCfgLegacy`): `nodes[node] = c2n[..] - 1` overflowed for `INT_MIN` and only `ref_adj_add`
    looked at the nodes.  Then `ref_adj_add` of the nodes in order; the tag slot holds `REF_EMPTY` until the tag block
    is read. -/
def cellOfRow (cfg : Cfg) (k : Kind) (nnode : Int) (raw : List Int) : Except Status (List Int) :=
  if ¬ cfg.checkIndex ∧ raw.any (fun x => decide (x = -(2 ^ 31 : Int))) then .error .undefined else
  if cfg.checkIndex ∧ raw.any (fun x => decide (x < 1 ∨ nnode < x)) then .error .invalid else
  match adjAddAll cfg (raw.map (· - 1)) with
  | .error e => .error e
  | .ok _ => .ok (raw.map (· - 1) ++ (if k.hasTag then [-1] else []))

def cellsOfRows (cfg : Cfg) (k : Kind) (nnode : Int) : List (List Int) → Except Status (List (List Int))
  | [] => .ok []
  | r :: rs =>
    match cellOfRow cfg k nnode r with
    | .error e => .error e
    | .ok c =>
    match cellsOfRows cfg k nnode rs with
    | .error e => .error e
    | .ok cs => .ok (c :: cs)

/-- `ref_import_bin_ugrid_c2n`: `while (nread < ncell)` — read `chunk = MIN(max_chunk, ncell - nread)` rows, add them.
    `fuel` bounds the passes (`ncell` suffices when `maxChunk ≥ 1`). -/
def rdConn (cfg : Cfg) (fl : Flavor) (k : Kind) (nnode : Int) (maxChunk : Nat) : Nat → Nat → P (List (List Int))
  | 0, _, s => .ok ([], s)
  | fuel + 1, rem, s =>
    if rem = 0 then .ok ([], s) else
    let chunk := min maxChunk rem
    match rdInts fl (k.nodePer * chunk) s with
    | .error e => .error e
    | .ok (raw, s) =>
    match cellsOfRows cfg k nnode (rows k.nodePer chunk raw) with
    | .error e => .error e
    | .ok cs =>
    match rdConn cfg fl k nnode maxChunk fuel (rem - chunk) s with
    | .error e => .error e
    | .ok (cs', s) => .ok (cs ++ cs', s)

/-- a count as the section loops see it: `if (0 < ncell)` -/
def cnt (n : Int) : Nat := n.toNat

/-- `ref_cell_c2n(ref_cell, node_per, cell) = tag[cell]` -/
def setTags (k : Kind) : List (List Int) → List Int → List (List Int)
  | c :: cs, t :: ts => (c.take k.nodePer ++ [t]) :: setTags k cs ts
  | cs, _ => cs

/-- `ref_import_bin_ugrid` with the reader variant `cfg` and the chunk sizes given -/
def decodeUgridChunked (cfg : Cfg) (maxChunk : Nat) (fl : Flavor) (bs : Bytes) : Except Status UMesh :=
  match rdInts fl 7 bs with
  | .error e => .error e
  | .ok (hdr, s) =>
  let nnode := hdr.getD 0 0
  -- `ref_malloc(xyz, 3 * max_chunk, REF_DBL)` with `max_chunk = MIN(1000000, nnode)`: `3 * nnode` overflows below
  -- INT_MIN / 3; a negative size is `REF_FAILURE`
  if 3 * nnode < -(2 ^ 31 : Int) then .error .undefined else
  if nnode < 0 then .error .failure else
  match rdVerts fl nnode.toNat s with
  | .error e => .error e
  | .ok (nodes, s) =>
  let ntri := cnt (hdr.getD 1 0)
  let nqua := cnt (hdr.getD 2 0)
  match rdConn cfg fl .tri nnode maxChunk ntri ntri s with
  | .error e => .error e
  | .ok (tri, s) =>
  match rdConn cfg fl .qua nnode maxChunk nqua nqua s with
  | .error e => .error e
  | .ok (qua, s) =>
  match rdInts fl ntri s with
  | .error e => .error e
  | .ok (ttag, s) =>
  match rdInts fl nqua s with
  | .error e => .error e
  | .ok (qtag, s) =>
  match rdConn cfg fl .tet nnode maxChunk (cnt (hdr.getD 3 0)) (cnt (hdr.getD 3 0)) s with
  | .error e => .error e
  | .ok (tet, s) =>
  match rdConn cfg fl .pyr nnode maxChunk (cnt (hdr.getD 4 0)) (cnt (hdr.getD 4 0)) s with
  | .error e => .error e
  | .ok (pyr, s) =>
  match rdConn cfg fl .pri nnode maxChunk (cnt (hdr.getD 5 0)) (cnt (hdr.getD 5 0)) s with
  | .error e => .error e
  | .ok (pri, s) =>
  match rdConn cfg fl .hex nnode maxChunk (cnt (hdr.getD 6 0)) (cnt (hdr.getD 6 0)) s with
  | .error e => .error e
  | .ok (hex, _) =>
    .ok { nodes := nodes, tri := setTags .tri tri ttag, qua := setTags .qua qua qtag,
          tet := tet, pyr := pyr, pri := pri, hex := hex }

/-- the reader with the C's chunk size (`MIN(1000000, ncell)`, regenerated) -/
def decodeUgridWith (cfg : Cfg) (fl : Flavor) (bs : Bytes) : Except Status UMesh :=
  decodeUgridChunked cfg UgridOffsets.import_chunk_c2n fl bs

/-- the readers as they were before /repo commit 6682479: no comparison of a node index with `nnode` -/
def ugridCfgLegacy : Cfg := Cfg.faithful

/-- **model selection**: the readers as they are in /repo today (since 6682479): `1 ≤ index ≤ nnode` required per
    connectivity entry, serial and parallel -/
def ugridCfg : Cfg := { Cfg.faithful with checkIndex := true }

def decodeUgrid (fl : Flavor) (bs : Bytes) : Except Status UMesh := decodeUgridWith ugridCfg fl bs

/-! ## predicates used by C08 / C20 -/

def cellOk (k : Kind) (nnode : Nat) (c : List Int) : Bool :=
  c.length == k.nodePer + (if k.hasTag then 1 else 0) &&
  (c.take k.nodePer).all (fun x => decide (0 ≤ x ∧ x < (nnode : Int))) &&
  (c.drop k.nodePer).all (fun t => decide (int32 t))

/-- what the round trip needs of a mesh: every cell has its `size_per` entries, node indices in `[0, nnode)`, tags and
    counts within `REF_INT`, and the adjacency growth of the reader stays under the allocator cap (`nnode < 2^27`) -/
def WellFormed (m : UMesh) : Bool :=
  decide (m.nodes.length < 2 ^ 27) &&
  Kind.all.all (fun k => decide ((m.get k).length < 2 ^ 31) && (m.get k).all (cellOk k m.nodes.length))

/-- boundary faces already in the writer's order -/
def FacesSorted (m : UMesh) : Prop :=
  m.tri.Pairwise (fun a b => tagOf .tri a ≤ tagOf .tri b) ∧ m.qua.Pairwise (fun a b => tagOf .qua a ≤ tagOf .qua b)

/-- all node indices of all cells are in `[0, nnode)` -/
def indicesInRange (m : UMesh) : Bool :=
  Kind.all.all fun k => (m.get k).all fun c => (c.take k.nodePer).all fun x => decide (0 ≤ x ∧ x < (m.nodes.length : Int))

/-! ## parallel reader: `ref_part_bin_ugrid` -/

/-- `fseeko(file, pos, SEEK_SET)` + `fread` of `n` bytes: a negative position fails the seek, a position past the end
    is fine for the seek and gives a short read -/
def pread (bs : Bytes) (pos : Int) (n : Nat) : Except Status Bytes :=
  if pos < 0 then .error .failure else
  match takeN n (bs.drop pos.toNat) with
  | .error e => .error e
  | .ok (a, _) => .ok a

/-- `w`-byte words of `a` after the swap macro, as signed values -/
def wordsOf (fl : Flavor) (w : Nat) : Nat → Bytes → List Int
  | 0, _ => []
  | n + 1, a => toSigned (8 * w) (decWord fl w (a.take w)) :: wordsOf fl w n (a.drop w)

/-- the (conn, faceid) offsets ref_part_bin_ugrid hands to ref_part_bin_ugrid_cell for kind `k` (generated) -/
def offsetsOf (k : Kind) (ib : Int) (h : List Int) : Int × Int :=
  let a := fun i => h.getD i 0
  match k with
  | .tri => (UgridOffsets.tri_conn ib (a 0) (a 1) (a 2) (a 3) (a 4) (a 5) (a 6),
             UgridOffsets.tri_faceid ib (a 0) (a 1) (a 2) (a 3) (a 4) (a 5) (a 6))
  | .qua => (UgridOffsets.qua_conn ib (a 0) (a 1) (a 2) (a 3) (a 4) (a 5) (a 6),
             UgridOffsets.qua_faceid ib (a 0) (a 1) (a 2) (a 3) (a 4) (a 5) (a 6))
  | .tet => (UgridOffsets.tet_conn ib (a 0) (a 1) (a 2) (a 3) (a 4) (a 5) (a 6),
             UgridOffsets.tet_faceid ib (a 0) (a 1) (a 2) (a 3) (a 4) (a 5) (a 6))
  | .pyr => (UgridOffsets.pyr_conn ib (a 0) (a 1) (a 2) (a 3) (a 4) (a 5) (a 6),
             UgridOffsets.pyr_faceid ib (a 0) (a 1) (a 2) (a 3) (a 4) (a 5) (a 6))
  | .pri => (UgridOffsets.pri_conn ib (a 0) (a 1) (a 2) (a 3) (a 4) (a 5) (a 6),
             UgridOffsets.pri_faceid ib (a 0) (a 1) (a 2) (a 3) (a 4) (a 5) (a 6))
  | .hex => (UgridOffsets.hex_conn ib (a 0) (a 1) (a 2) (a 3) (a 4) (a 5) (a 6),
             UgridOffsets.hex_faceid ib (a 0) (a 1) (a 2) (a 3) (a 4) (a 5) (a 6))

/-- position of kind `k` in the header -/
def Kind.hdrIndex : Kind → Nat
  | .tri => 1 | .qua => 2 | .tet => 3 | .pyr => 4 | .pri => 5 | .hex => 6

/-- `ref_part_bin_ugrid_pack_cell`: `sectionSize` cells starting at cell `ncellRead` of the section: seek, read, swap,
    `- 1`; then the tags for boundary faces.  Result rows: 0-based globals (as `REF_GLOB`), then the tag. -/
def packCell (fl : Flavor) (bs : Bytes) (k : Kind) (connOff faceOff : Int) (sectionSize ncellRead : Nat) :
    Except Status (List (List Int)) :=
  let ib := UgridOffsets.pack_ibyte fl.fat
  let w := fl.ibytes
  let np : Int := k.nodePer
  let seekC := if fl.fat then UgridOffsets.seek_conn_fat connOff faceOff ib np ncellRead
               else UgridOffsets.seek_conn_thin connOff faceOff ib np ncellRead
  let itemsC := (if fl.fat then UgridOffsets.items_conn_fat sectionSize np
                 else UgridOffsets.items_conn_thin sectionSize np).toNat
  match pread bs seekC (w * itemsC) with
  | .error e => .error e
  | .ok a =>
  let raw := wordsOf fl w itemsC a
  -- `c2t[..] - 1` overflows for the most negative value of the word type
  if raw.any (fun x => decide (x = -(2 ^ (8 * w - 1) : Int))) then .error .undefined else
  let conn := rows k.nodePer sectionSize (raw.map (· - 1))
  if k.hasTag then
    let seekT := if fl.fat then UgridOffsets.seek_tag_fat connOff faceOff ib np ncellRead
                 else UgridOffsets.seek_tag_thin connOff faceOff ib np ncellRead
    let itemsT := (if fl.fat then UgridOffsets.items_tag_fat sectionSize np
                   else UgridOffsets.items_tag_thin sectionSize np).toNat
    match pread bs seekT (w * itemsT) with
    | .error e => .error e
    | .ok t =>
      -- the tag travels as REF_GLOB and is narrowed by `(REF_INT)c2n[..]` in ref_cell_add_many_global
      .ok ((conn.zip (wordsOf fl w itemsT t)).map fun p => p.1 ++ [wrap32 p.2])
  else .ok conn

/-- `ref_part_implicit(nnode, np, global)`; `none` when the macro divides by zero or the result is not a rank
    (the C then indexes `elements_to_send[]` with it) -/
def implicitPart (nnode : Int) (np : Nat) (g : Int) : Option Nat :=
  if nnode < 1 ∨ np < 1 then none
  else if g < 0 ∨ nnode ≤ g then none
  else
    let p := PartMacros.ref_part_implicit nnode np g
    if 0 ≤ p ∧ p < (np : Int) then some p.toNat else none

/-- every node entry of a row is a node: `0 ≤ value < nnode` (0-based) -/
def partIndexOk (k : Kind) (nnode : Int) (c : List Int) : Bool :=
  (c.take k.nodePer).all fun g => decide (0 ≤ g ∧ g < nnode)

/-- the `while (ncell_read < ncell)` loop of ref_part_bin_ugrid_cell on rank 0: the cells in file order.
    Since 6682479 (`cfg.checkIndex`) every node entry of every row of the chunk just read is tested
    `< 0 || nnode <= value` → `REF_INVALID`, before `ref_part_implicit` is evaluated.  `fuel` bounds the passes. -/
def partCellLoop (cfg : Cfg) (fl : Flavor) (bs : Bytes) (k : Kind) (nnode : Int) (connOff faceOff : Int) (chunk : Nat) :
    Nat → Nat → Nat → Except Status (List (List Int))
  | 0, _, _ => .ok []
  | fuel + 1, ncell, ncellRead =>
    if ncell ≤ ncellRead then .ok [] else
    let sectionSize := min chunk (ncell - ncellRead)
    match packCell fl bs k connOff faceOff sectionSize ncellRead with
    | .error e => .error e
    | .ok cs =>
    if cfg.checkIndex ∧ cs.all (partIndexOk k nnode) = false then .error .invalid else
    match partCellLoop cfg fl bs k nnode connOff faceOff chunk fuel ncell (ncellRead + sectionSize) with
    | .error e => .error e
    | .ok cs' => .ok (cs ++ cs')

def insertInt (x : Int) : List Int → List Int
  | [] => [x]
  | y :: ys => if x ≤ y then x :: y :: ys else y :: insertInt x ys

/-- node set of a cell, as `ref_cell_with` compares it (`ref_sort_unique_int`: sorted, duplicates removed) -/
def nodeSet (k : Kind) (c : List Int) : List Int :=
  ((c.take k.nodePer).foldr insertInt []).eraseDups

/-- `ref_cell_add_many_global` keeps the first cell of each node set -/
def dedupCells (k : Kind) : List (List Int) → List (List Int) → List (List Int)
  | [], acc => acc.reverse
  | c :: cs, acc => if acc.any (fun d => nodeSet k d == nodeSet k c) then dedupCells k cs acc
                    else dedupCells k cs (c :: acc)

/-- what the parallel reader leaves in the distributed grid, rank-independent part -/
structure PartMesh where
  nnode : Int
  np : Nat
  nodes : List Vertex
  /-- per kind (in `Kind.all` order): the stored cells in file order — globals, then the tag -/
  cells : List (List (List Int))
  deriving DecidableEq, Repr

/-- one cell section of ref_part_bin_ugrid: skipped unless `0 < ncell`; `chunk` as the C computes it unless given -/
def partSection (cfg : Cfg) (fl : Flavor) (bs : Bytes) (np : Nat) (chunkOverride : Option Nat) (hdr : List Int)
    (k : Kind) : Except Status (List (List Int)) :=
  let ncell := hdr.getD k.hdrIndex 0
  let nnode := hdr.getD 0 0
  if ncell ≤ 0 then .ok [] else
  let (co, fo) := offsetsOf k (UgridOffsets.ibyte fl.fat) hdr
  let chunk : Nat := match chunkOverride with
    | some c => c
    | none => (UgridOffsets.part_chunk wrap32 ncell np).toNat
  -- `ref_malloc(sent_c2n, size_per * chunk, REF_GLOB)`: the product is formed in `int`; above the allocator cap the
  -- `malloc` returns NULL (`REF_NULL`) before anything is read
  if (k.sizePer : Int) * chunk ≥ 2 ^ 31 then .error .undefined else
  if cfg.allocCap < 8 * k.sizePer * chunk then .error .null else
  match partCellLoop cfg fl bs k nnode co fo chunk ncell.toNat ncell.toNat 0 with
  | .error e => .error e
  | .ok cs =>
    -- without the index check (legacy) an entry outside `[0, nnode)` makes `dest[]` / `sent_part[]` garbage (or the
    -- macro divide by zero): no status.  With the check this guard only refuses `np = 0`.
    if cs.all (partIndexOk k nnode) ∧ (implicitPart nnode np 0).isSome then .ok (dedupCells k cs [])
    else .error .undefined

def partSections (cfg : Cfg) (fl : Flavor) (bs : Bytes) (np : Nat) (chunkOverride : Option Nat) (hdr : List Int) :
    List Kind → Except Status (List (List (List Int)))
  | [] => .ok []
  | k :: ks =>
    match partSection cfg fl bs np chunkOverride hdr k with
    | .error e => .error e
    | .ok cs =>
    match partSections cfg fl bs np chunkOverride hdr ks with
    | .error e => .error e
    | .ok css => .ok (cs :: css)

/-- the header of the parallel reader: 7 × (`long` | `int`), no narrowing -/
def rdHeaderPart (fl : Flavor) : P (List Int) := fun s =>
  match takeN (7 * fl.ibytes) s with
  | .error e => .error e
  | .ok (a, r) => .ok (wordsOf fl fl.ibytes 7 a, r)

/-- `long` arithmetic on the declared counts that (may) overflow before anything is checked against the file:
    `ref_part_first(nnode, nproc, 1)` forms `nnode + nproc` and `nnode - 1` (ref_part_node); the section offsets are sums
    of `count * node_per * ibyte` — all below 2^63 when every count is below 2^55 in magnitude (conservative bound) -/
def partHeaderHazard (np : Nat) (hdr : List Int) : Bool :=
  let nnode := hdr.getD 0 0
  decide (nnode + (np : Int) ≥ 2 ^ 63 ∨ nnode ≤ -(2 ^ 63 : Int)) ||
  hdr.any fun c => decide (c ≥ 2 ^ 55 ∨ c ≤ -(2 ^ 55 : Int))

/-- … or in `int`: ref_part_bin_ugrid_cell forms `size_per * chunk` for `ref_malloc(sent_c2n, …)` -/
def partCountHazard (np : Nat) (hdr : List Int) : Bool :=
  partHeaderHazard np hdr ||
  Kind.all.any fun k =>
    let ncell := hdr.getD k.hdrIndex 0
    decide (0 < ncell ∧ (k.sizePer : Int) * (UgridOffsets.part_chunk wrap32 ncell np) ≥ 2 ^ 31)

/-- `ref_part_bin_ugrid` on `np` ranks, reader variant `cfg` -/
def partReadWith (cfg : Cfg) (fl : Flavor) (np : Nat) (chunkOverride : Option Nat) (bs : Bytes) :
    Except Status PartMesh :=
  match rdHeaderPart fl bs with
  | .error e => .error e
  | .ok (hdr, s) =>
  let nnode := hdr.getD 0 0
  if partHeaderHazard np hdr then .error .undefined else
  -- ref_part_node: `ref_part_first(nnode, np, part)` nodes per rank, every `fread` checked; a count ≤ 0 reads nothing
  match rdVerts fl nnode.toNat s with
  | .error e => .error e
  | .ok (nodes, _) =>
  match partSections cfg fl bs np chunkOverride hdr Kind.all with
  | .error e => .error e
  | .ok cells => .ok { nnode := nnode, np := np, nodes := nodes, cells := cells }

/-- the parallel reader as it is in /repo today -/
def partRead (fl : Flavor) (np : Nat) (chunkOverride : Option Nat) (bs : Bytes) : Except Status PartMesh :=
  partReadWith ugridCfg fl np chunkOverride bs

/-- `ref_node_part` after the read: the implicit partition -/
def PartMesh.partOf (pm : PartMesh) (g : Int) : Nat := (implicitPart pm.nnode pm.np g).getD 0

/-- the part that receives the cell first: implicit part of node `dest_node` (= 0) -/
def PartMesh.firstDest (pm : PartMesh) (c : List Int) : Nat := pm.partOf (c.getD UgridOffsets.dest_node 0)

/-- does rank `r` store the cell after `ref_migrate_shufflin_cell`: it owns one of its nodes -/
def PartMesh.storedOn (pm : PartMesh) (k : Kind) (r : Nat) (c : List Int) : Bool :=
  (c.take k.nodePer).any fun g => pm.partOf g == r

/-- `ref_cell_part`: part of the node with the smallest global -/
def PartMesh.ownerOf (pm : PartMesh) (k : Kind) (c : List Int) : Nat :=
  match c.take k.nodePer with
  | [] => 0
  | g :: gs => pm.partOf (gs.foldl (fun m x => if x < m then x else m) g)

/-- the cells of kind `k` that rank `r` owns -/
def PartMesh.ownedBy (pm : PartMesh) (k : Kind) (cs : List (List Int)) (r : Nat) : List (List Int) :=
  cs.filter fun c => pm.ownerOf k c == r

/-- the mesh the parallel reader holds, as a `UMesh` (global = file index) -/
def PartMesh.toMesh (pm : PartMesh) : UMesh :=
  { nodes := pm.nodes, tri := pm.cells.getD 0 [], qua := pm.cells.getD 1 [], tet := pm.cells.getD 2 [],
    pyr := pm.cells.getD 3 [], pri := pm.cells.getD 4 [], hex := pm.cells.getD 5 [] }

/-! ## parallel writer: `ref_gather_bin_ugrid` -/

/-- `ref_gather_bin_ugrid`, given what `ref_gather_node` collected (vertices in global order) and what `ref_gather_cell`
    collected per kind (rank 0's cells, then each worker's): header from `ref_node_n_global` and `ref_cell_ncell`, the
    cells as they come — no face-id sweep (`gatherSelectsFaceid = false`), no pyramid shuffle and no id column
    (`gatherAlwaysId = false`). -/
def gatherUgrid (fl : Flavor) (m : UMesh) : Bytes :=
  let m := if UgridFlavours.gatherSelectsFaceid then normalize m else m
  let m := if UgridFlavours.gatherAlwaysId then { m with pyr := m.pyr.map (permute PyrPerm.gatherCell0) } else m
  encodeRaw fl m

/-- bytes of a lower-case hex string -/
def ofHex (s : String) : Bytes := Meshb.ofHex s

end Refine.Model.Ugrid
