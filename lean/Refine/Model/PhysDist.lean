import Refine.Model.Search
import Refine.Model.Comm
import Refine.Model.Dist
import Refine.Model.Containers
import Refine.Gen.PartMacros
import Refine.Gen.PhysBc

/-!
  `ref_phys.c`, wall distance — what `Refine.Model.Search` does not cover:

  * `isWallId`, `localWall`     : the selection of wall elements, `ref_phys_local_wall` (edg in 2-D; tri and qua in
                                  3-D, a quad as the two triangles `(0,1,2)` and `(0,2,3)`), through the bc dict and
                                  the GENERATED `ref_phys_wall_distance_bc` (`Refine.Gen.PhysBc`).  Every STORED cell
                                  of a rank is listed (ghost cells included: there is no ownership test in the C).
  * `wallDistParWith` / `wallDistPar` : the SPMD model of `ref_phys_wall_distance` over `World`:
      1. every rank spreads ITS OWNED vertices over all ranks: `nbalance = MIN(nowned, REF_INT_MAX / n)`, the k-th
         owned vertex goes to `ref_part_implicit(nbalance, n, k)` (generated macro); vertices whose destination is the
         rank itself stay (`stationary`), the others are counted in `a_size`, `ref_mpi_alltoall` gives `b_size`,
         the coordinates are packed with the `a_next` prefix sums (the loop is `Comm.pack`, the buffers are those of
         `Comm.blindArgs`) and exchanged by `ref_mpi_alltoallv(…, 3, REF_DBL_TYPE)`;
      2. `ref_mpi_allgather` of the local wall counts; `ref_phys_bcast_parts` groups consecutive parts into chunks of
         at most `max_ncell` (GENERATED: 1 000 000) elements (the first part of a chunk always enters) and
         broadcasts them: EVERY rank sees EVERY wall element; per chunk a tree is built in the order of
         `ref_sort_shuffle` (an input of the model: `perms rank chunk`) and queried for the received vertices
         (`b_dist`, start value `REF_DBL_MAX`) and for the stationary ones;
      3. `ref_mpi_alltoallv(b_dist, b_size, a_dist, a_size, 1, REF_DBL_TYPE)` returns the answers; they are read back
         with a SECOND `a_next` prefix sum over `a_size` (`collect`; the seeded slip `C07_wall_distance_a_next_from_b_size`
         sits here);
      4. `ref_node_ghost_dbl(distance, 1)` (`Refine.Model.Dist.ghost`).
    The tree search is a parameter (`wallDistParWith search big`), so that the exchange can be reasoned about for any
    answer function; `wallDistPar` instantiates it with the sphere tree of `Refine.Model.Search`.
  * `wallDistStaticWith` / `wallDistStatic` : `ref_phys_wall_distance_static` (`ref distance --static`).
  * `scanInt`, `fgets`, `readMapbc`, `readMapbcToken`, `parseTags` : `ref_phys_read_mapbc`,
    `ref_phys_read_mapbc_token`, `ref_phys_parse_tags` at character level (`fscanf("%d")`, `fgets`, `strtok`, `atoi`).

  `MPI_Bcast` inside `ref_phys_bcast_parts` is trusted semantics (every rank ends up with the root's buffer), like the
  MPI calls of `Refine.Model.Comm`.  Core-only (linked into `refdrv`).
-/
namespace Refine.Model.PhysDist
open Refine Refine.Model Refine.Model.Geom Refine.Model.Search
open Refine.Model.Comm (World Blind A2A RefType countDest displs incrAt mpiAlltoall alltoallv isum allSome blindArgs)
open Refine.Model.Dist (GNode ghost)

/-! ## the distributed grid as `ref_phys_wall_distance` sees it -/

/-- one stored vertex (valid-node order = local index order): `global`, `part`, `xyz` -/
structure PNode (α : Type) where
  glob : Int
  part : Int
  xyz : V3 α

/-- one stored boundary cell: local vertex indices and the id column (`nodes[ref_cell_id_index]`) -/
structure PCell where
  nodes : List Nat
  id : Int
  deriving Repr, DecidableEq

/-- what one rank holds: vertices (owned and ghost) and the three boundary cell groups in valid-cell order -/
structure PRank (α : Type) where
  nodes : List (PNode α)
  tri : List PCell
  qua : List PCell
  edg : List PCell

/-- a wall element: its `node_per` vertices (2 in 2-D, 3 in 3-D) -/
abbrev Elem (α : Type) := List (V3 α)

/-! ## selection: `ref_phys_wall_distance_bc` through the dict -/

/-- `bc = REF_EMPTY; RXS(ref_dict_value(ref_dict, id, &bc), REF_NOT_FOUND, "bc"); ref_phys_wall_distance_bc(bc)` -/
def isWallId (dict : RDict) (id : Int) : Bool :=
  match dict.valueOf id with
  | (_, some bc) => Refine.Gen.PhysBc.wallDistanceBc bc
  | (_, none) => Refine.Gen.PhysBc.wallDistanceBc EMPTY

section Grid
variable {α : Type} [Inhabited α]

/-- `ref_node_xyz(ref_node, ·, node)` of a local index -/
def nodeXyz (nodes : List (PNode α)) (i : Nat) : V3 α :=
  match nodes[i]? with
  | some nd => nd.xyz
  | none => ⟨default, default, default⟩

/-- vertex `k` of a cell -/
def cellXyz (nodes : List (PNode α)) (c : PCell) (k : Nat) : V3 α := nodeXyz nodes (c.nodes.getD k 0)

/-- the two triangles a wall quad contributes: `(0,1,2)` then `(0,2,3)` -/
def quadTris (nodes : List (PNode α)) (c : PCell) : List (Elem α) :=
  [[cellXyz nodes c 0, cellXyz nodes c 1, cellXyz nodes c 2],
   [cellXyz nodes c 0, cellXyz nodes c 2, cellXyz nodes c 3]]

/-- `ref_phys_local_wall`: 2-D: the wall edg cells; 3-D: the wall tri cells, then every wall qua cell as two
    triangles; valid-cell order; every stored cell counts (no ownership test) -/
def localWall (twod : Bool) (dict : RDict) (r : PRank α) : List (Elem α) :=
  if twod then
    (r.edg.filter fun c => isWallId dict c.id).map fun c => [cellXyz r.nodes c 0, cellXyz r.nodes c 1]
  else
    ((r.tri.filter fun c => isWallId dict c.id).map fun c =>
        [cellXyz r.nodes c 0, cellXyz r.nodes c 1, cellXyz r.nodes c 2]) ++
    ((r.qua.filter fun c => isWallId dict c.id).flatMap fun c => quadTris r.nodes c)

/-! ## which vertex is asked where -/

/-- `nbalance = MIN(nowned, REF_INT_MAX / ref_mpi_n(ref_mpi))` -/
def nbalance (np nowned : Nat) : Nat :=
  (min (nowned : Int) (Int.tdiv Comm.INT_MAX (np : Int))).toNat

/-- the balanced owned vertices of rank `me`, in valid-node order, each with its destination
    `ref_part_implicit(nbalance, n, nnode)` (owned vertices beyond `nbalance` are not asked anywhere and keep
    `REF_DBL_MAX`; that needs more than `REF_INT_MAX / n` owned vertices on one rank) -/
def plan (np me : Nat) (r : PRank α) : List (Int × V3 α) :=
  let owned := r.nodes.filter fun nd => nd.part == (me : Int)
  let nb := nbalance np owned.length
  (owned.take nb).mapIdx fun k nd =>
    (Refine.Gen.PartMacros.ref_part_implicit (nb : Int) (np : Int) (k : Int), nd.xyz)

/-- the entries that leave the rank (`ref_mpi_rank(ref_mpi) != part`), in order -/
def sentOf (me : Nat) (pl : List (Int × V3 α)) : List (Int × V3 α) := pl.filter fun p => p.1 != (me : Int)

/-- the entries that stay (`stationary[]`) -/
def stationaryOf (me : Nat) (pl : List (Int × V3 α)) : List (V3 α) :=
  (pl.filter fun p => p.1 == (me : Int)).map (·.2)

/-- destinations and the flat coordinate items handed to the `a_next` pack loop -/
def blindOfPlan (me : Nat) (pl : List (Int × V3 α)) : Blind α :=
  ⟨(sentOf me pl).map (·.1), (sentOf me pl).flatMap fun p => [p.2.x, p.2.y, p.2.z]⟩

/-- `b_xyz` as points: `&(b_xyz[3 * i])` -/
def pts : List α → List (V3 α)
  | a :: b :: c :: rest => ⟨a, b, c⟩ :: pts rest
  | _ => []

/-! ## `ref_phys_bcast_parts`: chunks of parts -/

/-- `for (part = first_part + 1; part < n; part++) { if (ncell + part_ncell[part] > max_ncell) break; … }`:
    how many further parts join a chunk that already holds `acc` elements -/
def moreParts (maxN : Int) : Int → List Int → Nat
  | _, [] => 0
  | acc, c :: cs => if acc + c > maxN then 0 else moreParts maxN (acc + c) cs + 1

/-- the `while (part_complete < n)` loop: the concatenated wall elements of every chunk, in order
    (`fuel` = number of parts; every trip takes at least one part) -/
def chunksGo {β : Type} (maxN : Int) : Nat → List (List β) → List (List β)
  | 0, _ => []
  | _ + 1, [] => []
  | fuel + 1, p :: ps =>
    let k := moreParts maxN (p.length : Int) (ps.map fun q => (q.length : Int))
    (p ++ (ps.take k).flatten) :: chunksGo maxN fuel (ps.drop k)

/-- what every rank builds its trees from: `locals[r]` is `local_xyz` of rank `r` -/
def wallChunks {β : Type} (maxN : Int) (locals : World (List β)) : List (List β) :=
  chunksGo maxN locals.length locals

/-! ## reading the answers back -/

/-- the third node loop of `ref_phys_wall_distance`, restricted to the balanced owned vertices:
    a stationary vertex already holds its own rank's answer, the others read `a_dist[a_next[part]]` and advance
    `a_next[part]` -/
def collect (me : Nat) (aDist : List α) (own : V3 α → α) : List (Int × V3 α) → List Int → List α
  | [], _ => []
  | (p, x) :: rest, aNext =>
    if p == (me : Int) then own x :: collect me aDist own rest aNext
    else aDist.getD (aNext.getD p.toNat 0).toNat default :: collect me aDist own rest (incrAt aNext p.toNat)

/-- `distance[node]` for every valid node before the ghost update: the balanced owned vertices take the collected
    values in order, everything else (ghosts, owned vertices beyond `nbalance`) is `REF_DBL_MAX` -/
def scatter (me : Nat) (big : α) : List (PNode α) → List α → List α
  | [], _ => []
  | nd :: rest, vals =>
    if nd.part == (me : Int) then
      match vals with
      | v :: vs => v :: scatter me big rest vs
      | [] => big :: scatter me big rest []
    else big :: scatter me big rest vals

/-- the running value of one query through the trees of all chunks, from `REF_DBL_MAX` -/
def answerOf (trees : List (V3 α → α → α)) (big : α) (x : V3 α) : α :=
  trees.foldl (fun d t => t x d) big

/-- the trees of every rank: `search rank chunk elements`; `none` when a build fails on some rank -/
def buildTrees (search : Nat → Nat → List (Elem α) → Option (V3 α → α → α)) (np : Nat)
    (chunks : List (List (Elem α))) : Option (World (List (V3 α → α → α))) :=
  allSome ((List.range np).map fun me => allSome (chunks.mapIdx fun c el => search me c el))

/-! ## `ref_phys_wall_distance` on every rank -/

/-- per rank the `distance` array in valid-node order.  `none`: some rank does not complete (a tree build fails, an
    `ref_mpi_alltoallv` guard trips, the owner of a ghost does not store it). -/
def wallDistParWith (search : Nat → Nat → List (Elem α) → Option (V3 α → α → α)) (big : α) (maxN : Int)
    (twod : Bool) (dict : RDict) (w : World (PRank α)) : Option (World (List α)) :=
  let np := w.length
  let plans : World (List (Int × V3 α)) := w.mapIdx fun me r => plan np me r
  let blinds : World (Blind α) := plans.mapIdx fun me pl => blindOfPlan me pl
  let aSizes : World (List Int) := blinds.map fun b => countDest np b.proc
  let bSizes := mpiAlltoall aSizes
  let args1 : World (A2A α) := (blinds.zip bSizes).map fun x => blindArgs 3 np x.1 x.2
  match alltoallv false RefType.dbl 0 3 args1 with
  | none => none
  | some r1 =>
    if r1.any (fun x => x.1 != Comm.Status.ok) then none else
    let bXyz : World (List (V3 α)) := r1.map fun x => pts x.2
    let locals : World (List (Elem α)) := w.map (localWall twod dict)
    match buildTrees search np (wallChunks maxN locals) with
    | none => none
    | some trees =>
      let answer (me : Nat) (x : V3 α) : α := answerOf (trees.getD me []) big x
      let bDist : World (List α) := bXyz.mapIdx fun me qs => qs.map (answer me)
      let args2 : World (A2A α) := (bDist.zip (aSizes.zip bSizes)).map fun x =>
        ⟨x.1, x.2.2, List.replicate (isum x.2.1).toNat default, x.2.1⟩
      match alltoallv false RefType.dbl 0 1 args2 with
      | none => none
      | some r2 =>
        if r2.any (fun x => x.1 != Comm.Status.ok) then none else
        let dist0 : World (List α) := (w.zip (plans.zip (aSizes.zip r2))).mapIdx fun me x =>
          scatter me big x.1.nodes (collect me x.2.2.2.2 (answer me) x.2.1 (displs x.2.2.1))
        let gw : World (List (GNode α)) := (w.zip dist0).map fun x =>
          (x.1.nodes.zip x.2).map fun nd => ⟨nd.1.glob, nd.1.part, [nd.2]⟩
        (ghost RefType.dbl 1 gw).map fun g => g.map fun nodes => nodes.map fun nd => nd.vals.getD 0 default

/-- `ref_phys_wall_distance_static`: every rank queries all its valid nodes (ghosts too) against every chunk;
    no exchange of queries, no ghost update -/
def wallDistStaticWith (search : Nat → Nat → List (Elem α) → Option (V3 α → α → α)) (big : α) (maxN : Int)
    (twod : Bool) (dict : RDict) (w : World (PRank α)) : Option (World (List α)) :=
  let locals : World (List (Elem α)) := w.map (localWall twod dict)
  (buildTrees search w.length (wallChunks maxN locals)).map fun trees =>
    w.mapIdx fun me r => r.nodes.map fun nd => answerOf (trees.getD me []) big nd.xyz

end Grid

/-! ## the sphere tree as the search -/

section Tree
variable {α : Type} [Scalar α]

/-- the two end points of element `c` (`&xyz[0 + 6*c]`, `&xyz[3 + 6*c]`) -/
def segAt (elems : Array (Elem α)) (c : Int) : V3 α × V3 α :=
  let e := elems.getD c.toNat []
  (e.getD 0 ⟨Scalar.zero, Scalar.zero, Scalar.zero⟩, e.getD 1 ⟨Scalar.zero, Scalar.zero, Scalar.zero⟩)

/-- the three vertices of element `c` (`&xyz[0 + 9*c]`, `&xyz[3 + 9*c]`, `&xyz[6 + 9*c]`) -/
def triAt (elems : Array (Elem α)) (c : Int) : V3 α × V3 α × V3 α :=
  let e := elems.getD c.toNat []
  (e.getD 0 ⟨Scalar.zero, Scalar.zero, Scalar.zero⟩, e.getD 1 ⟨Scalar.zero, Scalar.zero, Scalar.zero⟩,
   e.getD 2 ⟨Scalar.zero, Scalar.zero, Scalar.zero⟩)

/-- the kernel value of a (query point, wall element) pair: `ref_search_distance2` / `ref_search_distance3` -/
def elemDist (twod : Bool) (x : V3 α) (e : Elem α) : α :=
  let z : V3 α := ⟨Scalar.zero, Scalar.zero, Scalar.zero⟩
  if twod then dist2seg (e.getD 0 z) (e.getD 1 z) x else dist2tri (e.getD 0 z) (e.getD 1 z) (e.getD 2 z) x

/-- one trip of the chunk loop: `ref_search_create(ncell)`, the insertion loop in the order `perm`
    (`Search.wallBuild`), and the query function `ref_search_nearest_element(search, node_per, xyz, position, &d)` -/
def treeSearch (twod : Bool) (perm : List Int) (elems : List (Elem α)) : Option (V3 α → α → α) :=
  let arr := elems.toArray
  match wallBuild (elems.length : Int) (fun c => arr.getD c.toNat []) perm with
  | (Search.Status.ok, some s) =>
    some (if twod then fun x d => s.nearestSeg (segAt arr) x d else fun x d => s.nearestTri (triAt arr) x d)
  | _ => none

/-- all wall elements of the world: the concatenation of every rank's `ref_phys_local_wall` list -/
def worldWalls (twod : Bool) (dict : RDict) (w : World (PRank α)) : List (Elem α) :=
  (w.map (localWall twod dict)).flatten

/-- the brute-force wall distance of a point: `MIN` over all wall elements of the kernel value, from `REF_DBL_MAX` -/
def wallMin (twod : Bool) (dict : RDict) (w : World (PRank α)) (x : V3 α) : α :=
  ((worldWalls twod dict w).map (elemDist twod x)).foldl Scalar.cmin dblMax

/-- `ref_phys_wall_distance`; `perms rank chunk` is the insertion order `ref_sort_shuffle` produced there -/
def wallDistPar (perms : Nat → Nat → List Int) (twod : Bool) (dict : RDict) (w : World (PRank α)) :
    Option (World (List α)) :=
  wallDistParWith (fun me c el => treeSearch twod (perms me c) el) dblMax Refine.Gen.PhysBc.maxNcell twod dict w

/-- `ref_phys_wall_distance_static` -/
def wallDistStatic (perms : Nat → Nat → List Int) (twod : Bool) (dict : RDict) (w : World (PRank α)) :
    Option (World (List α)) :=
  wallDistStaticWith (fun me c el => treeSearch twod (perms me c) el) dblMax Refine.Gen.PhysBc.maxNcellStatic
    twod dict w

end Tree

/-! ## what the harness has to refuse (undefined behaviour or a hang in the C) -/

/-- every cell names stored vertices, parts are ranks, globals are distinct per rank, and the owner of every ghost
    stores it (otherwise `ref_node_ghost_dbl` fails on the owner and the other ranks block) -/
def wellFormed {α : Type} (w : World (PRank α)) : Bool :=
  w.zipIdx.all fun rr =>
    let r := rr.1
    let cellsOk (per : Nat) (cs : List PCell) : Bool :=
      cs.all fun c => c.nodes.length == per && c.nodes.all fun n => decide (n < r.nodes.length)
    cellsOk 3 r.tri && cellsOk 4 r.qua && cellsOk 2 r.edg &&
    Refine.Model.Dist.nodupB (r.nodes.map (·.glob)) &&
    r.nodes.all fun nd =>
      decide (0 ≤ nd.glob) && decide (0 ≤ nd.part) && decide (nd.part < (w.length : Int)) &&
      (nd.part == (rr.2 : Int) ||
        match w[nd.part.toNat]? with
        | some o => o.nodes.any fun od => od.glob == nd.glob
        | none => false)

/-! ## `--fun3d-mapbc` and `--viscous-tags` at character level -/

/-- C `isspace` in the "C" locale -/
def isSpace (c : Char) : Bool :=
  c == ' ' || c == '\t' || c == '\n' || c == '\x0b' || c == '\x0c' || c == '\r'

def isDigit (c : Char) : Bool := decide ('0' ≤ c) && decide (c ≤ '9')

/-- value of a digit string -/
def digitsVal (ds : List Char) : Nat := ds.foldl (fun a c => a * 10 + (c.toNat - 48)) 0

/-- the optional sign of `%d`: `(negative, rest)` -/
def signSplit (s : List Char) : Bool × List Char :=
  match s with
  | c :: t => if c == '-' then (true, t) else if c == '+' then (false, t) else (false, c :: t)
  | [] => (false, [])

/-- `fscanf(file, "%d", &v)` / `sscanf(buffer, "%d", &v)`: skip white space, optional sign, at least one digit;
    `none` is "did not return 1" (matching failure or end of input).  The value is not reduced to 32 bits: the
    harness refuses inputs with a run of 10 or more digits. -/
def scanInt (s : List Char) : Option (Int × List Char) :=
  let p := signSplit (s.dropWhile isSpace)
  let ds := p.2.takeWhile isDigit
  if ds.isEmpty then none
  else some (if p.1 then -(digitsVal ds : Int) else (digitsVal ds : Int), p.2.dropWhile isDigit)

/-- `fgets(buffer, n + 1, file)`: at most `n` characters, stopping after a newline: `(line, rest)` -/
def fgetsGo : Nat → List Char → List Char × List Char
  | 0, s => ([], s)
  | _ + 1, [] => ([], [])
  | k + 1, c :: t =>
    if c == '\n' then ([c], t)
    else
      let r := fgetsGo k t
      (c :: r.1, r.2)

/-- `NULL` at end of file -/
def fgets (n : Nat) (s : List Char) : Option (List Char × List Char) :=
  if s.isEmpty then none else some (fgetsGo n s)

/-- the `for (i = 0; i < n; i++)` loop of `ref_phys_read_mapbc`: two `fscanf("%d")`, the unchecked `fgets` that eats
    the rest of the line (at most 1023 characters of it), `ref_dict_store(id, type)` -/
def mapbcLoop : Nat → List Char → RDict → RDict × Status
  | 0, _, d => (d, .ok)
  | k + 1, s, d =>
    match scanInt s with
    | none => (d, .failure)
    | some (id, s1) =>
      match scanInt s1 with
      | none => (d, .failure)
      | some (ty, s2) =>
        let s3 := match fgets 1023 s2 with
          | some lr => lr.2
          | none => []
        mapbcLoop k s3 (d.store id ty).1

/-- `ref_phys_read_mapbc(ref_dict, filename)`; `none` = the file cannot be opened (`REF_NULL`).
    The first LINE must start with the count (`fgets` + `sscanf`). -/
def readMapbc (d : RDict) (file : Option (List Char)) : RDict × Status :=
  match file with
  | none => (d, .null)
  | some s =>
    match fgets 1023 s with
    | none => (d, .failure)
    | some (line, rest) =>
      match scanInt line with
      | none => (d, .failure)
      | some (n, _) => mapbcLoop n.toNat rest d

/-- `0 == strncmp(name, token, strlen(token))` on NUL-free strings -/
def startsWith (name token : List Char) : Bool := token.isPrefixOf name

/-- loop of `ref_phys_read_mapbc_token`: after the two numbers exactly one space (`REIS(32, fgetc(file))`), then the
    rest of the line is the name; the pair is stored only when the name starts with `token` -/
def mapbcTokenLoop (token : List Char) : Nat → List Char → RDict → RDict × Status
  | 0, _, d => (d, .ok)
  | k + 1, s, d =>
    match scanInt s with
    | none => (d, .failure)
    | some (id, s1) =>
      match scanInt s1 with
      | none => (d, .failure)
      | some (ty, s2) =>
        match s2 with
        | ' ' :: s3 =>
          let (name, s4) : List Char × List Char := match fgets 1023 s3 with
            | some lr => lr
            | none => ([], [])
          -- at end of file `fgets` leaves the previous contents of `name` in place: not modelled, the harness
          -- only produces files whose records end with a newline
          mapbcTokenLoop token k s4 (if startsWith name token then (d.store id ty).1 else d)
        | _ => (d, .failure)

/-- `ref_phys_read_mapbc_token`: here the count is read with `fscanf` (may be preceded by blank lines) -/
def readMapbcToken (d : RDict) (file : Option (List Char)) (token : List Char) : RDict × Status :=
  match file with
  | none => (d, .null)
  | some s =>
    match scanInt s with
    | none => (d, .failure)
    | some (n, rest) => mapbcTokenLoop token n.toNat rest d

/-- the comma-free pieces between commas (empty ones included) -/
def splitOnComma : List Char → List (List Char)
  | [] => [[]]
  | c :: t =>
    if c == ',' then [] :: splitOnComma t
    else
      match splitOnComma t with
      | h :: r => (c :: h) :: r
      | [] => [[c]]

/-- `strtok(·, ",")`: the maximal comma-free non-empty pieces -/
def splitComma (s : List Char) : List (List Char) :=
  (splitOnComma s).filter fun p => !p.isEmpty

/-- `atoi`: like `%d` but 0 when there is no number -/
def atoi (s : List Char) : Int :=
  match scanInt s with
  | some (v, _) => v
  | none => 0

/-- `ref_phys_parse_tags(ref_dict, tags)`: every piece becomes `id = atoi(piece)` with the GENERATED type 4000 -/
def parseTags (d : RDict) (tags : List Char) : RDict × Status :=
  ((splitComma tags).foldl (fun d p => (d.store (atoi p) Refine.Gen.PhysBc.tagsType).1) d, .ok)

/-- the ids the dict selects as walls among `ids` -/
def selectedIds (dict : RDict) (ids : List Int) : List Int := ids.filter (isWallId dict)

end Refine.Model.PhysDist
