import Refine.Model.Sol
import Refine.Model.Formats

/-!
  L7 Codec, part 5: the remaining BINARY readers.

    ref_import_r8_ugrid   (src/ref_import.c)  `.r8.ugrid`: big-endian FORTRAN-record AFLR3 file
    ref_part_scalar_rst   (src/ref_part.c)    `.rst`:  COFFE restart (writer: `Sol.gatherScalar`, `.rst`)
    ref_part_scalar_snap  (src/ref_part.c)    `.snap`: FUN3D snapshot, versions 2 and 3 (no writer in refine)
    ref_part_scalar_plt   (src/ref_part.c)    `.plt`:  Tecplot binary — header and zone VALIDATION only (the values are
                                              placed by a nearest-vertex search, which is outside this model)

  Same conventions as `Model/Solb.lean`: every `fread` that the C checks is `failure` on a short file; a count that sizes
  an allocation or bounds a loop before anything is checked against the file is followed through its `int` arithmetic:
  `undefined` (signed overflow), `failure` (ref_malloc of a negative size), `null` (above the allocator cap — the harness
  also reports more than 300 MB touched as `bloat`, carried as `null` here), `diverge` (a loop whose length only the
  header decides).  `BFix` selects the variants with the checks of findings/*/proposed.patch; `BFix.none` is /repo.
-/
namespace Refine.Model.FormatsBin
open Refine.Model.Meshb
open Refine.Model.Sol (Row scatterFile rdMany chunkOfR)
open Refine.Model.Formats (TMesh R Err)

structure BFix where
  /-- `.rst`: variables, steps, dof tested against the bytes present; no pass of the loops without variables -/
  rst : Bool := false
  /-- `.snap`: the field count tested against the bytes present; a field length below 2^62 -/
  snap : Bool := false
  /-- `.snap`: the vertex count of a field broadcast as REF_GLOB_TYPE (it is a `REF_GLOB`) -/
  snapBcast : Bool := false
  /-- `.plt`: the zone's point count tested against the bytes present before the block is sized by it -/
  plt : Bool := false
  /-- `.r8.ugrid`: record size formed in `long`; vertex indices tested against the vertex count -/
  r8 : Bool := false
  deriving DecidableEq, Repr, Inhabited

def BFix.none : BFix := {}
def BFix.all : BFix := { rst := true, snap := true, snapBcast := true, plt := true, r8 := true }
/-- **model selection**: the readers as they are in /repo today -/
def BFix.current : BFix := BFix.none

/-- bytes an initialised allocation may touch before the harness calls it `bloat` -/
def touchCap : Int := 300 * 1024 * 1024

/-- outcome of a reader that is not a result: a C status (or one of the model's `undefined` / `diverge`), or `bloat`:
    an allocation sized by a declared count alone was granted AND initialised (more than `touchCap` bytes touched) -/
inductive BErr
  | st (s : Status)
  | bloat
  deriving DecidableEq, Repr, Inhabited

def BErr.name : BErr → String
  | .st s => s.name
  | .bloat => "bloat"

abbrev B (α : Type) := Except BErr α

def liftS {α : Type} : Except Status α → B α
  | .ok a => .ok a
  | .error e => .error (.st e)

/-- `ref_malloc(ptr, n, REF_DBL)` with `n` an `int` expression whose exact value is `n`: overflow, negative, cap;
    `touched`: `ref_malloc_init` -/
def mallocDbl (n : Int) (touched : Bool) : B Unit :=
  if ¬ int32 n then .error (.st .undefined)
  else if n < 0 then .error (.st .failure)
  else if (2 ^ 30 : Int) < 8 * n then .error (.st .null)
  else if touched ∧ touchCap < 8 * n then .error .bloat
  else .ok ()

/-- the vertex-array capacity after `n` calls of ref_node_add: 20, then `+ MAX(5000, 1.5 * max)` -/
def nodeMaxOf (n : Nat) : Nat :=
  let rec go : Nat → Nat → Nat
    | 0, m => m
    | fuel + 1, m => if n ≤ m then m else go fuel (m + max 5000 (m * 3 / 2))
  go 64 20

def rdU64 : P Nat := rdU 8

def skipBytes (n : Nat) : P Unit := fun s =>
  match takeN n s with
  | .error e => .error e
  | .ok (_, r) => .ok ((), r)

/-! ## `.rst` -/

structure RstHeader where
  dim : Int
  variables : Int
  steps : Int
  dof : Int
  deriving DecidableEq, Repr

/-- the header of ref_part_scalar_rst: length 8, eight characters, version 2, dim 2..3, variables, steps, dof, 0 doubles -/
def rstHeader : P RstHeader := fun s =>
  match rdI32 s with
  | .error e => .error e
  | .ok (len, s) =>
  if len ≠ 8 then .error .failure else
  match skipBytes 8 s with
  | .error e => .error e
  | .ok (_, s) =>
  match rdI32 s with
  | .error e => .error e
  | .ok (ver, s) =>
  if ver ≠ 2 then .error .failure else
  match rdI32 s with
  | .error e => .error e
  | .ok (dim, s) =>
  if dim < 2 ∨ 3 < dim then .error .failure else
  match rdI32 s with
  | .error e => .error e
  | .ok (variables, s) =>
  match rdI32 s with
  | .error e => .error e
  | .ok (steps, s) =>
  match rdI32 s with
  | .error e => .error e
  | .ok (dof, s) =>
  match rdI32 s with
  | .error e => .error e
  | .ok (doubles, s) =>
  if doubles ≠ 0 then .error .failure else .ok (⟨dim, variables, steps, dof⟩, s)

/-- the test of the proposed repair, on rank 0 right after the header: no negative count, at least one step, and — when
    there are variables — `variables × steps × dof` doubles present (`avail` bytes are left) -/
def rstCountsFit (h : RstHeader) (avail : Int) : Bool :=
  let a := avail / 8
  decide (0 ≤ h.variables ∧ 1 ≤ h.steps ∧ 0 ≤ h.dof) &&
  (h.variables == 0 ||
    (decide (h.variables ≤ a) && decide (h.steps ≤ a / h.variables) && decide (h.dof ≤ a / h.variables / h.steps)))

/-- iterations of the per-vertex loop that read nothing (`variables = 0`): only the header decides them -/
def rstIdle (h : RstHeader) : Int := if h.variables = 0 ∧ 0 < h.steps ∧ 0 < h.dof then h.steps * h.dof else 0

def idleCap : Int := 10 ^ 7

/-- what ref_part_scalar_rst does between the header and the first `fread` of data, on `np` ranks whose largest vertex
    array holds `nodeMax` slots: `ldim` or the status / hazard -/
def rstPlan (fx : BFix) (nGlobal : Nat) (nodeMax : Nat) (np : Nat) (floor : Int) (bs : Bytes) :
    B (RstHeader × Int × Int × Bytes) :=
  match rstHeader bs with
  | .error e => .error (.st e)
  | .ok (h, s) =>
  if fx.rst ∧ !rstCountsFit h s.length then .error (.st .failure) else
  if (nGlobal : Int) > h.dof then .error (.st .failure) else
  let ldim := h.variables * h.steps
  if ¬ int32 ldim then .error (.st .undefined) else
  match mallocDbl (ldim * nodeMax) false with
  | .error e => .error e
  | .ok _ =>
  let chunk := chunkOfR floor h.dof np
  match mallocDbl (h.variables * chunk) true with
  | .error e => .error e
  | .ok _ =>
  if ¬ fx.rst ∧ idleCap < rstIdle h then .error (.st .diverge) else
  .ok (h, ldim, chunk, s)

def appendRows (a b : List Row) : List Row := List.zipWith (· ++ ·) a b

/-- the `for (step …)` loop: every step is one chunked pass over `dof` rows of `variables` doubles, stored in columns
    `step * variables …` of the vertex's row -/
def rstSteps (dof floor : Int) (variables : Nat) (ranks : List (List Nat)) :
    Nat → List (List Row) → Bytes → Except Status (List (List Row) × Bytes)
  | 0, acc, s => .ok (acc, s)
  | k + 1, acc, s =>
    -- first `fread` of a pass on a file that is too short: REIS fails before anything is stored
    if variables ≠ 0 ∧ 0 < dof ∧ s.length < 8 * variables * (min (chunkOfR floor dof ranks.length) dof).toNat then .error .failure else
    -- without variables a pass reads and stores nothing, however many there are
    if variables = 0 then .ok (acc, s) else
    match scatterFile false dof dof floor variables (rdMany (Solb.rdF64s variables)) ranks
            (ranks.map fun gl => List.replicate gl.length []) s with
    | .error e => .error e
    | .ok (arrs, s) => rstSteps dof floor variables ranks k (List.zipWith appendRows acc arrs) s

/-- ref_part_scalar_rst on `ranks` (`ranks[r]` = the global ids of rank `r`'s vertices in local order) -/
def partScalarRst (fx : BFix) (floor : Int) (nGlobal : Nat) (nodeMax : Nat) (ranks : List (List Nat)) (bs : Bytes) :
    B (Int × List (List Row)) :=
  match rstPlan fx nGlobal nodeMax ranks.length floor bs with
  | .error e => .error e
  | .ok (h, ldim, _, s) =>
    match rstSteps h.dof floor h.variables.toNat ranks h.steps.toNat (ranks.map fun gl => List.replicate gl.length []) s with
    | .error e => .error (.st e)
    | .ok (arrs, _) => .ok (ldim, arrs)

/-! ## `.snap` -/

/-- `number_of_chars` (or a key / value length): `(REF_INT)` of the 64-bit value bounds a loop of one-byte reads -/
def skipChars : P Unit := fun s =>
  match rdU64 s with
  | .error e => .error e
  | .ok (n, s) => skipBytes (wrap32 n).toNat s

def skipPairs : Nat → P Unit
  | 0, s => .ok ((), s)
  | k + 1, s =>
    match skipChars s with
    | .error e => .error e
    | .ok (_, s) =>
    match skipChars s with
    | .error e => .error e
    | .ok (_, s) => skipPairs k s

/-- the header of one field: `(next_position, nnode)`; `pos` = ftello before the field -/
def snapFieldHeader (fx : BFix) (version : Nat) (bs : Bytes) : P (Int × Int) := fun s =>
  if version = 2 then
    match skipChars s with
    | .error e => .error e
    | .ok (_, s) =>
    match rdU64 s with
    | .error e => .error e
    | .ok (flen, s) =>
    if fx.snap ∧ ¬ (flen < 2 ^ 62) then .error .failure else
    let next := toSigned 64 flen + tell bs s
    if ¬ (-(2 ^ 63 : Int) ≤ next ∧ next < 2 ^ 63) then .error .undefined else
    match rdU64 s with
    | .error e => .error e
    | .ok (nn, s) =>
    match rdI32 s with
    | .error e => .error e
    | .ok (assoc, s) => if assoc ≠ -1 then .error .failure else .ok ((next, toSigned 64 nn), s)
  else
    match rdU64 s with
    | .error e => .error e
    | .ok (rem, s) =>
    if fx.snap ∧ ¬ (rem < 2 ^ 62) then .error .failure else
    let next := toSigned 64 rem + tell bs s
    if ¬ (-(2 ^ 63 : Int) ≤ next ∧ next < 2 ^ 63) then .error .undefined else
    match rdU64 s with
    | .error e => .error e
    | .ok (nn, s) =>
    match rdU64 s with
    | .error e => .error e
    | .ok (elen, s) =>
    if elen ≠ 1 then .error .failure else
    match rdU64 s with
    | .error e => .error e
    | .ok (count, s) =>
    -- every pair needs 16 bytes: more pairs than bytes fail on the way
    match skipPairs (min count (s.length + 1)) s with
    | .error e => .error e
    | .ok (_, s) => .ok ((next, toSigned 64 nn), s)

/-- the fields one after the other; column `field` of every vertex row -/
def snapFields (fx : BFix) (version : Nat) (nGlobal : Nat) (floor : Int) (ranks : List (List Nat)) (bs : Bytes) :
    Nat → List (List Row) → Bytes → B (List (List Row))
  | 0, acc, _ => .ok acc
  | k + 1, acc, s =>
    match snapFieldHeader fx version bs s with
    | .error e => .error (.st e)
    | .ok ((next, nnode), s) =>
    if nnode ≠ nGlobal ∧ Int.tdiv nnode 2 ≠ nGlobal then .error (.st .failure) else
    -- `ref_mpi_bcast(.., &nnode, 1, REF_INT_TYPE)` of a REF_GLOB: on two or more ranks the others keep the upper half
    -- of their `-1`, skip the read loop and meet rank 0 in a different collective (MPI_ERR_TRUNCATE)
    if ¬ fx.snapBcast ∧ 1 < ranks.length then .error (.st .undefined) else
    match mallocDbl (chunkOfR floor nnode ranks.length) true with
    | .error e => .error e
    | .ok _ =>
    if s.length < 8 * (min (chunkOfR floor nnode ranks.length) nnode).toNat then .error (.st .failure) else
    match scatterFile false nnode nnode floor 1 (rdMany (Solb.rdF64s 1)) ranks
            (ranks.map fun gl => List.replicate gl.length []) s with
    | .error e => .error (.st e)
    | .ok (arrs, s) =>
      if nnode = nGlobal ∧ next ≠ tell bs s then .error (.st .failure) else
      snapFields fx version nGlobal floor ranks bs k (List.zipWith appendRows acc arrs) s

/-- what ref_part_scalar_snap does before the first field: version 2..3, `ldim = (REF_INT)number_of_fields`, the
    `ldim * ref_node_max` allocation -/
def snapPlan (fx : BFix) (nodeMax : Nat) (bs : Bytes) : B (Nat × Int × Bytes) :=
  match rdU64 bs with
  | .error e => .error (.st e)
  | .ok (ver, s) =>
  if ver < 2 ∨ 3 < ver then .error (.st .failure) else
  match rdU64 s with
  | .error e => .error (.st e)
  | .ok (nf, s) =>
  if fx.snap ∧ ¬ (nf ≤ s.length / 8) then .error (.st .failure) else
  let ldim := wrap32 nf
  match mallocDbl (ldim * nodeMax) false with
  | .error e => .error e
  | .ok _ => .ok (ver, ldim, s)

/-- ref_part_scalar_snap -/
def partScalarSnap (fx : BFix) (floor : Int) (nGlobal : Nat) (nodeMax : Nat) (ranks : List (List Nat)) (bs : Bytes) :
    B (Int × List (List Row)) :=
  match snapPlan fx nodeMax bs with
  | .error e => .error e
  | .ok (ver, ldim, s) =>
    -- a field needs at least 28 bytes of header: more fields than bytes fail on the way
    match snapFields fx ver nGlobal floor ranks bs (min ldim.toNat (s.length + 1))
            (ranks.map fun gl => List.replicate gl.length []) s with
    | .error e => .error e
    | .ok arrs => if ldim.toNat ≤ s.length + 1 then .ok (ldim, arrs) else .error (.st .failure)

/-! ## `.plt` (header and zone validation) -/

def f32_799 : Nat := 0x4447C000
def f32_299 : Nat := 0x43958000
def f32_357 : Nat := 0x43B28000
def isNaN32 (n : Nat) : Bool := (n / 2 ^ 23) % 256 == 255 && n % 2 ^ 23 != 0

/-- ref_part_plt_string: 4-byte characters up to a 0, at most `maxlen` of them -/
def pltString : Nat → P Unit
  | 0, _ => .error .failure
  | k + 1, s =>
    match rdI32 s with
    | .error e => .error e
    | .ok (c, s) => if c = 0 then .ok ((), s) else pltString k s

def pltStrings : Nat → P Unit
  | 0, s => .ok ((), s)
  | k + 1, s =>
    match pltString 1024 s with
    | .error e => .error e
    | .ok (_, s) => pltStrings k s

/-- the "mystery" loop: up to `numvar + 1` integers until one is non-zero: `numpts` -/
def pltMisc : Nat → Int → P Int
  | 0, m, s => .ok (m, s)
  | k + 1, m, s =>
    if m ≠ 0 then .ok (m, s) else
    match rdI32 s with
    | .error e => .error e
    | .ok (x, s) => pltMisc k x s

structure PltZone where
  zonetype : Int
  nnode : Int
  nelem : Int
  deriving DecidableEq, Repr

/-- the zone records of the header; `fuel` bounds the number of zones (each needs bytes) -/
def pltZones (numvar : Int) : Nat → Nat → List PltZone → P (List PltZone × Nat)
  | 0, zm, zs, s => .ok ((zs, zm), s)
  | fuel + 1, zm, zs, s =>
    if zm ≠ f32_299 then .ok ((zs, zm), s) else
    match pltString 1024 s with
    | .error e => .error e
    | .ok (_, s) =>
    match skipBytes 16 s with          -- parent, strand, solution time
    | .error e => .error e
    | .ok (_, s) =>
    match rdI32 s with
    | .error e => .error e
    | .ok (notused, s) =>
    if notused ≠ -1 then .error .failure else
    match rdI32 s with
    | .error e => .error e
    | .ok (zonetype, s) =>
    match rdI32 s with                 -- packing (forced to block afterwards)
    | .error e => .error e
    | .ok (_, s) =>
    match rdI32 s with
    | .error e => .error e
    | .ok (location, s) =>
    if location ≠ 0 then .error .failure else
    match rdI32 s with
    | .error e => .error e
    | .ok (neighbor, s) =>
    if neighbor ≠ 0 then .error .failure else
    match pltMisc (numvar + 1).toNat 0 s with
    | .error e => .error e
    | .ok (numpts, s) =>
    match rdI32 s with
    | .error e => .error e
    | .ok (numelem, s) =>
    match rdInts 2 4 s with             -- three `dim` and `aux`, all required 0
    | .error e => .error e
    | .ok (z, s) =>
    if z.any (· ≠ 0) then .error .failure else
    match rdU 4 s with
    | .error e => .error e
    | .ok (zm, s) => pltZones numvar fuel zm (zs ++ [⟨zonetype, numpts, numelem⟩]) s

def pltAux : Nat → Nat → P Nat
  | 0, zm, s => .ok (zm, s)
  | fuel + 1, zm, s =>
    if zm ≠ f32_799 then .ok (zm, s) else
    match pltString 1024 s with
    | .error e => .error e
    | .ok (_, s) =>
    match rdI32 s with
    | .error e => .error e
    | .ok (_, s) =>
    match pltString 1024 s with
    | .error e => .error e
    | .ok (_, s) =>
    match rdU 4 s with
    | .error e => .error e
    | .ok (zm, s) => pltAux fuel zm s

/-- ref_part_plt_header: `(nvar, zones)` -/
def pltHeader : P (Int × List PltZone) := fun s =>
  match takeN 8 s with
  | .error e => .error e
  | .ok (magic, s) =>
  if magic ≠ [35, 33, 84, 68, 86, 49, 49, 50] then .error .failure else   -- "#!TDV112"
  match rdI32 s with
  | .error e => .error e
  | .ok (endian, s) =>
  if endian ≠ 1 then .error .failure else
  match rdI32 s with
  | .error e => .error e
  | .ok (filetype, s) =>
  if filetype ≠ 0 then .error .failure else
  match pltString 1024 s with
  | .error e => .error e
  | .ok (_, s) =>
  match rdI32 s with
  | .error e => .error e
  | .ok (numvar, s) =>
  match pltStrings numvar.toNat s with
  | .error e => .error e
  | .ok (_, s) =>
  match rdU 4 s with
  | .error e => .error e
  | .ok (zm, s) =>
  match pltAux (s.length + 1) zm s with
  | .error e => .error e
  | .ok (zm, s) =>
  match pltZones numvar (s.length + 1) zm [] s with
  | .error e => .error e
  | .ok ((zs, zm), s) =>
    -- RWDS(357.0, zonemarker, -1.0): a NaN passes the `>` test
    if zm = f32_357 ∨ isNaN32 zm then .ok ((numvar, zs), s) else .error .failure

def pltNodePer (zonetype : Int) : Option Nat :=
  if zonetype = 1 then some 2 else if zonetype = 2 then some 3 else if zonetype = 3 then some 4
  else if zonetype = 4 then some 4 else if zonetype = 5 then some 8 else none

/-- the values of one variable, block packing: `nnode` reads of 4 or 8 bytes -/
def pltVar (fmt : Int) : Nat → P Unit
  | 0, s => .ok ((), s)
  | k + 1, s =>
    if fmt = 1 then
      match skipBytes 4 s with
      | .error e => .error e
      | .ok (_, s) => pltVar fmt k s
    else if fmt = 2 then
      match skipBytes 8 s with
      | .error e => .error e
      | .ok (_, s) => pltVar fmt k s
    else .error .implement

def pltVars : List Int → Nat → P Unit
  | [], _, s => .ok ((), s)
  | f :: fs, n, s =>
    match pltVar f n s with
    | .error e => .error e
    | .ok (_, s) => pltVars fs n s

def pltFlags (nvar : Nat) (want : Int) : P Unit := fun s =>
  match rdI32 s with
  | .error e => .error e
  | .ok (flag, s) =>
    if flag ≠ 1 then .ok ((), s) else
    match rdInts 2 nvar s with
    | .error e => .error e
    | .ok (xs, s) => if xs.any (· ≠ want) then .error .failure else .ok ((), s)

/-- the part of ref_part_plt_data before the block of values is sized: the formats of the variables -/
def pltDataHead (nvar : Int) (z : PltZone) : P (Nat × List Int) := fun s =>
  match pltNodePer z.zonetype with
  | none => .error .failure
  | some nodePer =>
  match rdU 4 s with
  | .error e => .error e
  | .ok (zm, s) =>
  if ¬ (zm = f32_299 ∨ isNaN32 zm) then .error .failure else
  match rdInts 2 nvar.toNat s with
  | .error e => .error e
  | .ok (fmts, s) =>
  match pltFlags nvar.toNat 0 s with
  | .error e => .error e
  | .ok (_, s) =>
  match pltFlags nvar.toNat (-1) s with
  | .error e => .error e
  | .ok (_, s) =>
  match rdI32 s with
  | .error e => .error e
  | .ok (conn, s) =>
  if conn ≠ -1 then .error .failure else
  match skipBytes (16 * nvar.toNat) s with
  | .error e => .error e
  | .ok (_, s) => .ok ((nodePer, fmts), s)

/-- ref_part_plt_data for one zone -/
def pltData (fx : BFix) (nvar : Int) (z : PltZone) (s : Bytes) : B (Unit × Bytes) :=
  match pltDataHead nvar z s with
  | .error e => .error (.st e)
  | .ok ((nodePer, fmts), s) =>
  if fx.plt ∧ ¬ (0 ≤ z.nnode ∧ (nvar ≤ 0 ∨ z.nnode ≤ (s.length / 4 : Nat) / nvar)) then .error (.st .failure) else
  match mallocDbl (nvar * z.nnode) false with
  | .error e => .error e
  | .ok _ =>
  match pltVars fmts z.nnode.toNat s with
  | .error e => .error (.st e)
  | .ok (_, s) => liftS (skipBytes (4 * nodePer * (min z.nelem.toNat (s.length + 1))) s)

def pltZonesData (fx : BFix) (nvar : Int) : List PltZone → Bytes → B (Unit × Bytes)
  | [], s => .ok ((), s)
  | z :: zs, s =>
    match pltData fx nvar z s with
    | .error e => .error e
    | .ok (_, s) => pltZonesData fx nvar zs s

/-- ref_part_scalar_plt as far as the file decides it: `ldim = nvar - 3`, or the status / hazard -/
def partScalarPlt (fx : BFix) (nodeMax : Nat) (bs : Bytes) : B Int :=
  match pltHeader bs with
  | .error e => .error (.st e)
  | .ok ((nvar, zs), s) =>
  let ldim := nvar - 3
  match mallocDbl (ldim * nodeMax) true with
  | .error e => .error e
  | .ok _ =>
  match pltZonesData fx nvar zs s with
  | .error e => .error e
  | .ok _ => .ok ldim

/-! ## `.r8.ugrid` -/

open Refine.Model.Ugrid (Flavor rdInt rdInts rdVerts rows) in
/-- the record length ref_import_r8_ugrid expects for the data block, as the C forms it in `int`, left to right;
    `none`: an intermediate result leaves `int` -/
def r8RecordSize (h : List Int) : Option Int :=
  let terms : List (Int × Int × Int) :=
    [(h.getD 0 0, 3, 8), (h.getD 1 0, 4, 4), (h.getD 2 0, 5, 4), (h.getD 3 0, 4, 4), (h.getD 4 0, 5, 4),
     (h.getD 5 0, 6, 4), (h.getD 6 0, 8, 4)]
  let prods := terms.map fun (c, a, b) => if int32 (c * a) ∧ int32 (c * a * b) then some (c * a * b) else none
  prods.foldl (fun acc p => match acc, p with
    | some a, some b => if int32 (a + b) then some (a + b) else none
    | _, _ => none) (some 0)

def r8Fl : Refine.Model.Ugrid.Flavor := ⟨true, false⟩

/-- `n` cells of `per` big-endian 1-based nodes -/
def r8Cells (fx : BFix) (nnode : Int) (per : Nat) (emptyId : Bool) : Nat → P (List (List Int))
  | 0, s => .ok ([], s)
  | n + 1, s =>
    match Refine.Model.Ugrid.rdInts r8Fl per s with
    | .error e => .error e
    | .ok (raw, s) =>
    if fx.r8 ∧ raw.any (fun x => decide (x < 1 ∨ nnode < x)) then .error .failure else
    if raw.any (fun x => decide (x = -(2 ^ 31 : Int))) then .error .undefined else
    match adjAddAll Cfg.faithful (raw.map (· - 1)) with
    | .error e => .error e
    | .ok _ =>
    match r8Cells fx nnode per emptyId n s with
    | .error e => .error e
    | .ok (cs, s) => .ok ((raw.map (· - 1) ++ (if emptyId then [-1] else [])) :: cs, s)

/-- ref_import_r8_ugrid -/
def decodeR8 (fx : BFix) (bs : Bytes) : Except Status TMesh :=
  match Refine.Model.Ugrid.rdInt r8Fl bs with
  | .error e => .error e
  | .ok (rec0, s) =>
  if rec0 ≠ 28 then .error .failure else
  match Refine.Model.Ugrid.rdInts r8Fl 7 s with
  | .error e => .error e
  | .ok (h, s) =>
  match Refine.Model.Ugrid.rdInt r8Fl s with
  | .error e => .error e
  | .ok (rec1, s) =>
  if rec1 ≠ 28 then .error .failure else
  match Refine.Model.Ugrid.rdInt r8Fl s with
  | .error e => .error e
  | .ok (rec2, s) =>
  let exact : Int := h.getD 0 0 * 24 + h.getD 1 0 * 16 + h.getD 2 0 * 20 + h.getD 3 0 * 16 + h.getD 4 0 * 20 +
    h.getD 5 0 * 24 + h.getD 6 0 * 32
  if ¬ fx.r8 ∧ (r8RecordSize h).isNone then .error .undefined else
  if exact ≠ rec2 then .error .failure else
  let nnode := h.getD 0 0
  let c (i : Nat) : Nat := (h.getD i 0).toNat
  match Refine.Model.Ugrid.rdVerts r8Fl nnode.toNat s with
  | .error e => .error e
  | .ok (nodes, s) =>
  match r8Cells fx nnode 3 true (c 1) s with
  | .error e => .error e
  | .ok (tri, s) =>
  match r8Cells fx nnode 4 true (c 2) s with
  | .error e => .error e
  | .ok (qua, s) =>
  match Refine.Model.Ugrid.rdInts r8Fl (c 1) s with
  | .error e => .error e
  | .ok (tid, s) =>
  match Refine.Model.Ugrid.rdInts r8Fl (c 2) s with
  | .error e => .error e
  | .ok (qid, s) =>
  match r8Cells fx nnode 4 false (c 3) s with
  | .error e => .error e
  | .ok (tet, s) =>
  match r8Cells fx nnode 5 false (c 4) s with
  | .error e => .error e
  | .ok (pyr, s) =>
  match r8Cells fx nnode 6 false (c 5) s with
  | .error e => .error e
  | .ok (pri, s) =>
  match r8Cells fx nnode 8 false (c 6) s with
  | .error e => .error e
  | .ok (hex, s) =>
  match Refine.Model.Ugrid.rdInt r8Fl s with
  | .error e => .error e
  | .ok (rec3, _) =>
  if exact ≠ rec3 then .error .failure else
    .ok { twod := false, nodes := nodes, edg := [], tri := Formats.setIds 3 tri tid, qua := Formats.setIds 4 qua qid,
          tet := tet, pyr := pyr, pri := pri, hex := hex }

end Refine.Model.FormatsBin
