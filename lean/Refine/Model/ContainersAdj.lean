import Refine.Model.Status

/-!
  Executable model of `ref_adj.c` (core-only).

  Concrete layer = the C arrays: `first[0..nnode)`, `item[0..nitem).next`, `item[0..nitem).ref`
  and `blank` (head of the free list), with `REF_EMPTY = -1` as the end-of-chain marker.
  Chain walks take `fuel = nitem`; `Props/C14.lean` proves the fuel is never exhausted under the
  invariant (acyclicity), so the walks are the C loops.
-/
namespace Refine.Model

structure RAdj where
  first : List Int
  next : List Int
  ref : List Int
  blank : Int
  deriving Repr, DecidableEq

namespace RAdj

/-- `ref_adj_nnode` -/
def nnode (s : RAdj) : Nat := s.first.length
/-- `ref_adj_nitem` -/
def nitem (s : RAdj) : Nat := s.next.length

/-- `item[i].next = i+1` for a fresh run `[orig, orig+chunk)`, the last one `REF_EMPTY` -/
def freshNext (orig chunk : Nat) : List Int :=
  (List.range chunk).map fun k => if k + 1 = chunk then EMPTY else ((orig + k + 1 : Nat) : Int)

/-- `ref_adj_create`: 10 nodes, 20 items, all blank -/
def create : RAdj :=
  { first := List.replicate 10 EMPTY, next := freshNext 0 20, ref := List.replicate 20 EMPTY, blank := 0 }

/-- `ref_adj_deep_copy` -/
def deepCopy (s : RAdj) : RAdj := { first := s.first, next := s.next, ref := s.ref, blank := s.blank }

/-- macro `ref_adj_first(ref_adj, node)` (range-checked) -/
def firstOf (s : RAdj) (node : Int) : Int :=
  if 0 ≤ node ∧ node < s.nnode then s.first.getD node.toNat EMPTY else EMPTY

def nextOf (s : RAdj) (item : Int) : Int := s.next.getD item.toNat EMPTY
def refOf (s : RAdj) (item : Int) : Int := s.ref.getD item.toNat EMPTY

/-- the items visited by `each_ref_adj_node_item` starting at `item` -/
def walk (next : List Int) : (fuel : Nat) → (item : Int) → List Int
  | 0, _ => []
  | f + 1, item => if item = EMPTY then [] else item :: walk next f (next.getD item.toNat EMPTY)

/-- items of a node in iteration order -/
def itemsOf (s : RAdj) (node : Int) : List Int := walk s.next s.nitem (s.firstOf node)

/-- references of a node in iteration order (`each_ref_adj_node_item_with_ref`) -/
def refsOf (s : RAdj) (node : Int) : List Int := (s.itemsOf node).map s.refOf

/-- the free list in chain order -/
def blankItems (s : RAdj) : List Int := walk s.next s.nitem s.blank

/-- growth of `first[]` in `ref_adj_add` (`node >= nnode`) -/
def growNodes (s : RAdj) (node : Int) : RAdj :=
  if node ≥ s.nnode then
    let orig := s.nnode
    let chunk := 100 + (node.toNat - orig)          -- `100 + MAX(0, node - orig)`
    let chunk := max chunk (orig / 2)               -- `MAX(chunk, (REF_INT)(0.5*(REF_DBL)orig))`
    let chunk := min chunk (INT_MAX - orig)         -- `MIN(chunk, max_limit - orig)`
    { s with first := s.first ++ List.replicate chunk EMPTY }
  else s

/-- growth of `item[]` in `ref_adj_add` (`blank == REF_EMPTY`, `nitem != max_limit`) -/
def growItems (s : RAdj) : RAdj :=
  let orig := s.nitem
  let chunk := max 100 (orig / 2)
  let chunk := min chunk (INT_MAX - orig)
  { s with next := s.next ++ freshNext orig chunk, ref := s.ref ++ List.replicate chunk EMPTY,
           blank := (orig : Int) }

/-- pop the head of the free list and push it in front of `node`'s chain -/
def link (s : RAdj) (node reference : Int) : RAdj :=
  let item := s.blank
  { first := s.first.set node.toNat item,
    next := s.next.set item.toNat (s.firstOf node),
    ref := s.ref.set item.toNat reference,
    blank := s.nextOf item }

/-- `ref_adj_add` -/
def add (s : RAdj) (node reference : Int) : RAdj × Status :=
  if node < 0 then (s, .invalid)
  else
    let s1 := s.growNodes node
    if s1.blank = EMPTY then
      if s1.nitem = INT_MAX then (s1, .failure)
      else ((s1.growItems).link node reference, .ok)
    else (s1.link node reference, .ok)

/-- the search loop of `ref_adj_remove` → `(target, parent)` -/
def findLoop (next ref : List Int) (reference : Int) : (fuel : Nat) → (item parent : Int) → Int × Int
  | 0, _, parent => (EMPTY, parent)
  | f + 1, item, parent =>
    if item = EMPTY then (EMPTY, parent)
    else if ref.getD item.toNat EMPTY = reference then (item, parent)
    else findLoop next ref reference f (next.getD item.toNat EMPTY) item

/-- return `item` to the free list -/
def release (s : RAdj) (item : Int) (first' next' : List Int) : RAdj :=
  { first := first', next := next'.set item.toNat s.blank, ref := s.ref.set item.toNat EMPTY, blank := item }

/-- `ref_adj_remove` -/
def remove (s : RAdj) (node reference : Int) : RAdj × Status :=
  let item := s.firstOf node
  if item = EMPTY then (s, .invalid)
  else if reference = s.refOf item then
    (s.release item (s.first.set node.toNat (s.nextOf item)) s.next, .ok)
  else
    let (target, parent) := findLoop s.next s.ref reference s.nitem item EMPTY
    if target = EMPTY then (s, .invalid)
    else if parent = EMPTY then (s, .failure)
    else (s.release target s.first (s.next.set parent.toNat (s.nextOf target)), .ok)

/-- `ref_adj_add_uniquely` -/
def addUniquely (s : RAdj) (node reference : Int) : RAdj × Status :=
  if (s.refsOf node).contains reference then (s, .ok) else s.add node reference

/-- `ref_adj_degree` → `(status, *degree)` -/
def degree (s : RAdj) (node : Int) : Status × Nat := (.ok, (s.itemsOf node).length)

/-- macro `ref_adj_empty` -/
def isEmpty (s : RAdj) (node : Int) : Bool := s.firstOf node == EMPTY

/-- `ref_adj_min_degree_node` → `(status, *min_degree, *min_degree_node)` -/
def minDegreeNode (s : RAdj) : Status × Int × Int :=
  let r := (List.range s.nnode).foldl (fun (acc : Int × Int) (node : Nat) =>
    let deg : Int := ((s.degree (node : Int)).2 : Int)
    if deg > 0 then
      if acc.2 = EMPTY ∨ deg < acc.1 then (deg, (node : Int)) else acc
    else acc) (EMPTY, EMPTY)
  (.ok, r.1, r.2)

end RAdj
end Refine.Model
