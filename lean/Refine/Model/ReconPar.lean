import Refine.Model.Recon
import Refine.Model.Kexact
import Refine.Model.Gradation
import Refine.Model.Dist

/-!
  ReconPar: the PARALLEL mechanism of `ref_recon.c` as an SPMD model (`World Rank` = one entry per MPI rank).

  A rank (`Rank`) stores vertices (owned and ghost) keyed by global id (`l2g : local → global`, `part` = owner of each
  local vertex), its cells in LOCAL indices (3-D: tet/pyr/pri/hex plus the boundary tri/qua; 2-D: tri/qua) and,
  in 2-D, the boundary segments `edgs`.  Coordinates are a function of the global id (`gxyz`), per-vertex arrays are
  per-rank lists indexed by local vertex.

  The per-rank kernels are the SERIAL models applied to the rank's local mesh — `Recon.l2grad`,
  `Kexact.oneLayer / grow / kexactNode`, `Metric.roundoffLimit`, `Gradation.edgeList` — nothing is re-typed; the
  exchange is `Refine.Model.Dist.ghost` (`ref_node_ghost_int / _dbl`) and, for the k-exact clouds, the literal
  `alltoall` / `alltoallv` sequence of `ref_recon_ghost_cloud` over `Refine.Model.Comm`.

  `C name` → model:
  * `ref_recon_l2_projection_grad` → `l2gradPar`: local accumulation over the STORED cells into owned and ghost
    vertices, division by the local dual volume, `ref_mpi_all_or` of the div-zero flag, `ref_node_ghost_dbl(grad,3)`
  * `ref_recon_l2_projection_hessian` → `l2hessianPar`: four `l2gradPar` calls (refresh after EACH projection),
    `assemble` = the off-diagonal averaging (`Recon.hessianOf` is `assemble` of its three projections:
    `hessianOf_assemble`); `l2hessianSingleExchange` is the seeded slip (local projections, one refresh at the end)
  * `ref_recon_mask_tri / _edg` → `maskRank`; `ref_recon_skip_orphan_replace` → `skipOrphan`;
    `ref_recon_extrapolate_zeroth` → `extrapolateZeroth` (in-place sweeps over the owned vertices in local order,
    neighbours in `each_edge_having_node` order, refresh of `replace` and `recon` after every pass, at most 10 passes,
    stop when the global count of vertices still to replace is 0)
  * `ref_recon_signed_hessian` (L2 branch) → `signedHessianL2Par`; (k-exact branch) → `kexactHessPar`
  * `ref_recon_local_immediate_cloud` → `localClouds`; `ref_recon_ghost_cloud` → `ghostCloud`;
    `ref_recon_kexact_gradient_hessian` → `kexactPar` (`ref_node_local` failing inside
    `ref_recon_grow_cloud_one_layer` = the `continue`: that pivot adds nothing)
  * `ref_recon_roundoff_limit` → `roundoffLimitPar` (every stored vertex, radius from the LOCAL edges, then
    `ref_node_ghost_dbl(recon,6)`)

  Core-only (linked into `refdrv`).  Theorems: `Refine/Lemmas/ReconPar*.lean`, `Refine/Props/C19Par.lean`.
-/
namespace Refine.Model.ReconPar
open Refine Refine.Model.Geom Refine.Model.Recon
open Refine.Model.Comm (World RefType A2A isum)
open Refine.Model.Dist (GNode ghost)
open Refine.Model.Kexact (Item)

variable {α : Type} [Scalar α]

/-- what one rank stores of the mesh -/
structure Rank where
  /-- `ref_node_global(node)` for `node = 0 .. n-1` -/
  l2g : List Nat
  /-- `ref_node_part(node)` -/
  part : List Nat
  /-- stored cells, local vertex indices -/
  cells : List Cell
  /-- 2-D boundary segments (`ref_grid_edg`), local vertex indices -/
  edgs : List (Nat × Nat)

def Rank.n (r : Rank) : Nat := r.l2g.length

/-- `ref_node_owned(node)` on rank `me` -/
def Rank.owned (r : Rank) (me i : Nat) : Bool := r.part[i]? == some me

/-- the rank's coordinate array -/
def Rank.xyz (r : Rank) (gxyz : List (V3 α)) : List (V3 α) := r.l2g.map (xyzAt gxyz)

/-- a per-global-vertex field restricted to the rank's stored vertices -/
def Rank.restrict {β : Type} (r : Rank) (d : β) (gf : List β) : List β := r.l2g.map (fun g => gf.getD g d)

/-- `ref_node_local(global)` -/
def Rank.localOf (r : Rank) (g : Int) : Option Nat :=
  let i := r.l2g.findIdx (fun (x : Nat) => Int.ofNat x == g)
  if i < r.l2g.length then some i else none

/-! ### ghost refresh of per-vertex rows -/

/-- the rank's table for `ref_node_ghost_*`: global, part and the `ldim` values of every stored vertex -/
def toGNodes {β : Type} (r : Rank) (rows : List (List β)) : List (GNode β) :=
  (List.range r.n).map fun i =>
    (⟨((r.l2g.getD i 0 : Nat) : Int), ((r.part.getD i 0 : Nat) : Int), rows.getD i []⟩ : GNode β)

/-- `ref_node_ghost_int / _dbl (vector, ldim)` on every rank -/
def ghostRows {β : Type} [Inhabited β] (ty : RefType) (ldim : Nat) (w : World Rank)
    (f : World (List (List β))) : Option (World (List (List β))) :=
  (ghost ty ldim (List.zipWith toGNodes w f)).map fun w' => w'.map fun nodes => nodes.map (·.vals)

def v3row (v : V3 α) : List α := [v.x, v.y, v.z]
def rowV3 (l : List α) : V3 α := ⟨l.getD 0 lit0, l.getD 1 lit0, l.getD 2 lit0⟩
def m6row (m : M6 α) : List α := [m.m0, m.m1, m.m2, m.m3, m.m4, m.m5]
def rowM6 (l : List α) : M6 α :=
  ⟨l.getD 0 lit0, l.getD 1 lit0, l.getD 2 lit0, l.getD 3 lit0, l.getD 4 lit0, l.getD 5 lit0⟩

/-- `ref_node_ghost_dbl(ref_node, grad, 3)` -/
def ghostV3 (w : World Rank) (f : World (List (V3 α))) : Option (World (List (V3 α))) :=
  (ghostRows RefType.dbl 3 w (f.map (·.map v3row))).map (·.map (·.map rowV3))

/-- `ref_node_ghost_dbl(ref_node, hessian, 6)` -/
def ghostM6 (w : World Rank) (f : World (List (M6 α))) : Option (World (List (M6 α))) :=
  (ghostRows RefType.dbl 6 w (f.map (·.map m6row))).map (·.map (·.map rowM6))

/-! ### L2 projection -/

/-- the part of `ref_recon_l2_projection_grad` before the exchange, on one rank: the serial kernel on the
    rank's stored cells (owned AND ghost vertices receive what the stored cells contribute) -/
def l2gradLocal (twod : Bool) (gxyz : List (V3 α)) (r : Rank) (s : List α) : St × List (V3 α) :=
  l2grad twod (r.xyz gxyz) s r.cells

/-- `ref_recon_l2_projection_grad`: `none` = the exchange does not complete.  The status is the `all_or` of the
    per-rank div-zero flags -/
def l2gradPar (twod : Bool) (gxyz : List (V3 α)) (w : World Rank) (s : World (List α)) :
    Option (St × World (List (V3 α))) :=
  let loc := List.zipWith (l2gradLocal twod gxyz) w s
  let st := if loc.any (fun x => x.1 = St.divZero) then St.divZero else St.ok
  (ghostV3 w (loc.map (·.2))).map fun g => (st, g)

/-- the off-diagonal averaging at the end of `ref_recon_l2_projection_hessian` for `n` vertices -/
def assemble (n : Nat) (gradx grady gradz : List (V3 α)) : List (M6 α) :=
  (List.range n).map fun i =>
    let gx := gradx.getD i V3.zero
    let gy := grady.getD i V3.zero
    let gz := gradz.getD i V3.zero
    (⟨gx.x, half *. (gx.y +. gy.x), half *. (gx.z +. gz.x), gy.y, half *. (gy.z +. gz.y), gz.z⟩ : M6 α)

/-- the serial `hessianOf` is `assemble` of its three second projections -/
theorem hessianOf_assemble (G : List α → St × List (V3 α)) (s : List α) :
    hessianOf G s = assemble (G s).2.length (G ((G s).2.map (·.x))).2 (G ((G s).2.map (·.y))).2
      (G ((G s).2.map (·.z))).2 := rfl

def assembleW (grad gx gy gz : World (List (V3 α))) : World (List (M6 α)) :=
  List.zipWith (fun (g : List (V3 α)) (abc : List (V3 α) × List (V3 α) × List (V3 α)) =>
    assemble g.length abc.1 abc.2.1 abc.2.2) grad (gx.zip (gy.zip gz))

/-- `ref_recon_l2_projection_hessian` (`RXS(.., REF_DIV_ZERO, ..)` lets div-zero through): the projected gradient
    is REFRESHED before each of its components is projected again -/
def l2hessianPar (twod : Bool) (gxyz : List (V3 α)) (w : World Rank) (s : World (List α)) :
    Option (World (List (M6 α))) :=
  match l2gradPar twod gxyz w s with
  | none => none
  | some (_, grad) =>
    match l2gradPar twod gxyz w (grad.map (·.map (·.x))), l2gradPar twod gxyz w (grad.map (·.map (·.y))),
          l2gradPar twod gxyz w (grad.map (·.map (·.z))) with
    | some (_, gx), some (_, gy), some (_, gz) => some (assembleW grad gx gy gz)
    | _, _, _ => none

/-- the seeded slip `C19_l2_hessian_single_ghost_exchange`: the four projections are local, only the assembled
    Hessian is refreshed -/
def l2hessianSingleExchange (twod : Bool) (gxyz : List (V3 α)) (w : World Rank) (s : World (List α)) :
    Option (World (List (M6 α))) :=
  let G (f : World (List α)) : World (List (V3 α)) := (List.zipWith (l2gradLocal twod gxyz) w f).map (·.2)
  let grad := G s
  ghostM6 w (assembleW grad (G (grad.map (·.map (·.x)))) (G (grad.map (·.map (·.y)))) (G (grad.map (·.map (·.z)))))

/-! ### boundary replacement (`ref_recon_signed_hessian`, L2 branch) -/

/-- `ref_edge_create` on the rank's stored cells -/
def Rank.edges (r : Rank) : List (Nat × Nat) := Refine.Model.Gradation.edgeList r.cells

/-- the other ends of the edges at `node` in the order of `each_edge_having_node` (`ref_adj_add` prepends: the
    edge created last comes first) -/
def nbrs (edges : List (Nat × Nat)) (node : Nat) : List Nat :=
  ((edges.filter fun e => e.1 == node || e.2 == node).reverse).map fun e => e.1 + e.2 - node

/-- `ref_recon_mask_tri` (3-D: the vertex is in a stored boundary TRIANGLE) / `ref_recon_mask_edg` (2-D: in a
    stored boundary segment); the same flag for every component -/
def maskRank (twod : Bool) (ldim : Nat) (r : Rank) : List (List Bool) :=
  (List.range r.n).map fun node =>
    let b := if twod then r.edgs.any (fun e => e.1 == node || e.2 == node)
             else r.cells.any (fun c => c.kind = CellKind.tri && c.nodes.contains node)
    List.replicate ldim b

@[inline] def bAt (replace : List (List Bool)) (node i : Nat) : Bool := (replace.getD node []).getD i false
@[inline] def vAt (recon : List (List α)) (node i : Nat) : α := (recon.getD node []).getD i lit0

/-- `ref_recon_skip_orphan_replace`: `contributions[i+ldim*node]` counts the edges from a to-be-replaced `node` to
    an end that is not to be replaced; a vertex with none is taken off the list -/
def skipOrphan (edges : List (Nat × Nat)) (replace : List (List Bool)) : List (List Bool) :=
  replace.mapIdx fun node row => row.mapIdx fun i b =>
    b && (edges.any fun e =>
      (e.1 == node && !bAt replace e.2 i) || (e.2 == node && !bAt replace e.1 i))

/-- body of the `i` loop for one owned vertex: average of the neighbours that are not to be replaced -/
def extrapNode (edges : List (Nat × Nat)) (ldim node : Nat) (st : List (List α) × List (List Bool)) :
    List (List α) × List (List Bool) :=
  (List.range ldim).foldl (fun st i =>
    if bAt st.2 node i then
      let nb := (nbrs edges node).filter fun k => !bAt st.2 k i
      if 0 < nb.length then
        let sum := nb.foldl (fun a k => a +. vAt st.1 k i) lit0
        (st.1.modify node (fun row => row.set i (sum /. Scalar.ofInt (nb.length : Int))),
         st.2.modify node (fun row => row.set i false))
      else st
    else st) st

/-- one pass on one rank: owned vertices in local order, in place -/
def extrapPass (me : Nat) (r : Rank) (ldim : Nat) (st : List (List α) × List (List Bool)) :
    List (List α) × List (List Bool) :=
  (List.range r.n).foldl (fun st node => if r.owned me node then extrapNode r.edges ldim node st else st) st

/-- owned entries still to replace on one rank -/
def remainRank (me : Nat) (r : Rank) (replace : List (List Bool)) : Nat :=
  ((List.range r.n).map fun node =>
    if r.owned me node then ((replace.getD node []).filter id).length else 0).sum

/-- the `pass` loop of `ref_recon_extrapolate_zeroth` -/
def extrapLoop (w : World Rank) (ldim : Nat) :
    Nat → World (List (List α)) → World (List (List Bool)) → Option (World (List (List α)) × World (List (List Bool)))
  | 0, recon, replace => some (recon, replace)
  | fuel + 1, recon, replace =>
    let st := (w.zip (recon.zip replace)).mapIdx fun me x => extrapPass me x.1 ldim x.2
    match ghostRows RefType.int ldim w (st.map (·.2)), ghostRows RefType.dbl ldim w (st.map (·.1)) with
    | some replace', some recon' =>
      let remain := ((w.zip replace').mapIdx fun me x => remainRank me x.1 x.2).sum
      if remain == 0 then some (recon', replace') else extrapLoop w ldim fuel recon' replace'
    | _, _ => none

/-- `ref_recon_extrapolate_zeroth(ref_grid, recon, replace, ldim)` -/
def extrapolateZeroth (w : World Rank) (ldim : Nat) (recon : World (List (List α)))
    (replace : World (List (List Bool))) : Option (World (List (List α)) × World (List (List Bool))) :=
  match ghostRows RefType.int ldim w replace, ghostRows RefType.dbl ldim w recon with
  | some replace0, some recon0 => extrapLoop w ldim 10 recon0 replace0
  | _, _ => none

/-- the replacement mask handed to the extrapolation: mask, then the orphan filter, both on the rank's own cells -/
def replaceMask (twod : Bool) (ldim : Nat) (r : Rank) : List (List Bool) :=
  skipOrphan r.edges (maskRank twod ldim r)

/-- `ref_recon_signed_hessian(.., REF_RECON_L2PROJECTION)` -/
def signedHessianL2Par (twod : Bool) (gxyz : List (V3 α)) (w : World Rank) (s : World (List α)) :
    Option (World (List (M6 α))) :=
  match l2hessianPar twod gxyz w s with
  | none => none
  | some h =>
    (extrapolateZeroth w 6 (h.map (·.map m6row)) (w.map (replaceMask twod 6))).map fun x =>
      x.1.map (·.map rowM6)

/-! ### k-exact clouds across the partition boundary -/

/-- the cells `ref_recon_kexact_gradient_hessian` looks at: tets, or triangles when `twod` -/
def kxCells (twod : Bool) (cells : List Cell) : List (List Nat) :=
  (cells.filter (fun c => if twod then c.kind = CellKind.tri else c.kind = CellKind.tet)).map (·.nodes)

/-- a cloud built with local ids, re-keyed by global id (`ref_cloud_store` keeps it sorted by global) -/
def relabel (l2g : List Nat) (c : List (Item α)) : List (Item α) :=
  Kexact.storeAll [] (c.map fun it => { it with g := ((l2g.getD it.g.toNat 0 : Nat) : Int) })

/-- `ref_recon_local_immediate_cloud`: the one-layer cloud of every OWNED vertex (ghost vertices stay empty) -/
def localClouds (twod : Bool) (gxyz : List (V3 α)) (me : Nat) (r : Rank) (s : List α) : List (List (Item α)) :=
  (Kexact.oneLayer (r.xyz gxyz) s (kxCells twod r.cells)).mapIdx fun i c =>
    if r.owned me i then relabel r.l2g c else []

/-- split a flat buffer into `n` records of `k` scalars -/
def records {β : Type} (k : Nat) : Nat → List β → List (List β)
  | 0, _ => []
  | n + 1, xs => xs.take k :: records k n (xs.drop k)

/-- ghost globals of rank `me` bucketed by owner, slot order (`a_global` after the `a_next` fill) -/
def ghostBuckets (np me : Nat) (r : Rank) : List (List Int) :=
  (List.range np).map fun p =>
    ((r.l2g.zip r.part).filter fun gp => gp.2 != me && gp.2 == p).map fun gp => (gp.1 : Int)

/-- `ref_recon_ghost_cloud`: every rank asks the owner of each of its ghost vertices for that vertex's cloud
    (`alltoall` of the request counts, `alltoallv` of the requested globals and of the requesting rank, `alltoall`
    of the reply sizes, `alltoallv` of `(vertex, cloud global)` pairs and of the four `aux` values) and stores the
    received entries in the ghost vertex's cloud.  `none`: a requested global is not stored by the owner
    (`ref_node_local` fails there, the others block) or an exchange does not complete. -/
def ghostCloud (w : World Rank) (cl : World (List (List (Item α)))) : Option (World (List (List (Item α)))) :=
  let np := w.length
  if np ≤ 1 then some cl else
  let buckets : World (List (List Int)) := w.mapIdx fun me r => ghostBuckets np me r
  let aN : World (List Int) := buckets.map fun b => b.map fun l => (l.length : Int)
  let bN := Refine.Model.Comm.mpiAlltoall aN
  let argsG : World (A2A Int) := (buckets.zip (aN.zip bN)).map fun x =>
    ⟨x.1.flatten, x.2.1, List.replicate (isum x.2.2).toNat 0, x.2.2⟩
  let argsP : World (A2A Int) := (aN.zip bN).mapIdx fun me x =>
    ⟨List.replicate (isum x.1).toNat (me : Int), x.1, List.replicate (isum x.2).toNat 0, x.2⟩
  match Refine.Model.Comm.alltoallv false RefType.long 0 1 argsG,
        Refine.Model.Comm.alltoallv false RefType.int 0 1 argsP with
  | some rg, some rp =>
    -- owner side: the clouds of the requested vertices, grouped by requesting rank
    let reply : World (Option (List (List (Int × Item α)))) := (w.zip (cl.zip (rg.zip rp))).map fun x =>
      let r := x.1
      let clouds := x.2.1
      let req := x.2.2.1.2.zip x.2.2.2.2
      (List.range np).mapM fun p =>
        ((req.filter fun gp => gp.2 == (p : Int)).mapM fun gp =>
          (r.localOf gp.1).map fun loc => (clouds.getD loc []).map fun it => (gp.1, it)).map List.flatten
    if reply.any Option.isNone then none else
    let rep : World (List (List (Int × Item α))) := reply.map fun o => o.getD []
    let bC : World (List Int) := rep.map fun b => b.map fun l => (l.length : Int)
    let aC := Refine.Model.Comm.mpiAlltoall bC
    let argsK : World (A2A Int) := (rep.zip (bC.zip aC)).map fun x =>
      ⟨x.1.flatten.flatMap (fun e => [e.1, e.2.g]), x.2.1, List.replicate (2 * (isum x.2.2).toNat) 0, x.2.2⟩
    let argsA : World (A2A α) := (rep.zip (bC.zip aC)).map fun x =>
      ⟨x.1.flatten.flatMap (fun e => [e.2.x, e.2.y, e.2.z, e.2.s]), x.2.1,
       List.replicate (4 * (isum x.2.2).toNat) lit0, x.2.2⟩
    match Refine.Model.Comm.alltoallv false RefType.long 0 2 argsK,
          Refine.Model.Comm.alltoallv false RefType.dbl 0 4 argsA with
    | some rk, some ra =>
      let out : World (Option (List (List (Item α)))) := (w.zip (cl.zip (rk.zip ra))).map fun x =>
        let r := x.1
        let n := x.2.2.1.2.length / 2
        let recs := (records 2 n x.2.2.1.2).zip (records 4 n x.2.2.2.2)
        recs.foldl (fun (acc : Option (List (List (Item α)))) (ka : List Int × List α) =>
          match acc with
          | none => none
          | some clouds =>
            match r.localOf (ka.1.getD 0 0) with
            | none => none
            | some loc =>
              some (clouds.modify loc fun c => Kexact.store c
                ⟨ka.1.getD 1 0, ka.2.getD 0 lit0, ka.2.getD 1 lit0, ka.2.getD 2 lit0, ka.2.getD 3 lit0⟩))
          (some x.2.1)
      if out.any Option.isNone then none else some (out.map fun o => o.getD [])
    | _, _ => none
  | _, _ => none

/-- `one_layer[local(global)]`, empty when the global is not stored here (`REF_NOT_FOUND` → `continue`) -/
def layerOfRank (r : Rank) (clouds : List (List (Item α))) (g : Int) : List (Item α) :=
  match r.localOf g with
  | some i => clouds.getD i []
  | none => []

/-- the vertex loop of `ref_recon_kexact_gradient_hessian` on one rank (ghost entries stay as the caller
    initialised them: zero) -/
def kexactRank (twod : Bool) (me : Nat) (r : Rank) (clouds : List (List (Item α))) : List (V3 α × M6 α) :=
  (r.l2g.zip (List.range r.n)).map fun gi =>
    if r.owned me gi.2 then Kexact.kexactNode (layerOfRank r clouds) (gi.1 : Int) twod
    else (V3.zero, Kexact.zero6)

/-- `ref_recon_kexact_gradient_hessian` up to the final refresh -/
def kexactPar (twod : Bool) (gxyz : List (V3 α)) (w : World Rank) (s : World (List α)) :
    Option (World (List (V3 α × M6 α))) :=
  let cl0 : World (List (List (Item α))) := (w.zip s).mapIdx fun me x => localClouds twod gxyz me x.1 x.2
  (ghostCloud w cl0).map fun cl => (w.zip cl).mapIdx fun me x => kexactRank twod me x.1 x.2

/-- `ref_recon_gradient(.., REF_RECON_KEXACT)` -/
def kexactGradPar (twod : Bool) (gxyz : List (V3 α)) (w : World Rank) (s : World (List α)) :
    Option (World (List (V3 α))) :=
  match kexactPar twod gxyz w s with
  | none => none
  | some gh => ghostV3 w (gh.map (·.map (·.1)))

/-- `ref_recon_signed_hessian(.., REF_RECON_KEXACT)` -/
def kexactHessPar (twod : Bool) (gxyz : List (V3 α)) (w : World Rank) (s : World (List α)) :
    Option (World (List (M6 α))) :=
  match kexactPar twod gxyz w s with
  | none => none
  | some gh => ghostM6 w (gh.map (·.map (·.2)))

/-! ### `ref_recon_roundoff_limit` -/

def toMat (m : M6 α) : Matrix.M6 α := ⟨m.m0, m.m1, m.m2, m.m3, m.m4, m.m5⟩
def ofMat (m : Matrix.M6 α) : M6 α := ⟨m.m11, m.m12, m.m13, m.m22, m.m23, m.m33⟩

/-- the first error of the ranks, else every rank's result -/
def sequenceE {ε β : Type} : List (Except ε β) → Except ε (List β)
  | [] => .ok []
  | .error e :: _ => .error e
  | .ok x :: rest =>
    match sequenceE rest with
    | .error e => .error e
    | .ok xs => .ok (x :: xs)

/-- `ref_recon_roundoff_limit`: the serial kernel on every rank's stored mesh (radius = shortest LOCAL edge at the
    vertex, every stored vertex processed), then the refresh.  `error`: some rank fails the `RAS` / `diag_m` -/
def roundoffLimitPar (gxyz : List (V3 α)) (w : World Rank) (recon : World (List (M6 α))) :
    Except Matrix.Err (Option (World (List (M6 α)))) :=
  let loc := List.zipWith (fun (r : Rank) (m : List (M6 α)) =>
    Metric.roundoffLimit (r.xyz gxyz) r.cells (m.map toMat)) w recon
  match sequenceE loc with
  | .error e => .error e
  | .ok ms => .ok (ghostM6 w (ms.map (·.map ofMat)))

/-! ### gathered results -/

/-- the owner's value of every global vertex `0 .. n-1` (`none` where no rank owns it) -/
def gather {β : Type} (n : Nat) (w : World Rank) (f : World (List β)) : List (Option β) :=
  (List.range n).map fun g =>
    ((w.zip f).zipIdx.findSome? fun x =>
      let r := x.1.1
      ((r.l2g.zip (r.part.zip x.1.2)).find? fun e => e.1 == g && e.2.1 == x.2).map fun e => e.2.2)

end Refine.Model.ReconPar
