import Refine.Model.Status
import Refine.Model.ContainersSort

/-!
  Executable models of `ref_list.c` and `ref_dict.c` (core-only).

  Concrete layer: the live prefix `[0,n)` of each C array is a `List Int` (so `n` is the list
  length), `max` is the allocated size.  Cells at and beyond `n` are never read by the public
  functions and are not modelled.  `malloc`/`realloc` failure is not modelled.
-/
namespace Refine.Model

/-! ## `REF_LIST` -/

structure RList where
  max : Nat
  value : List Int
  deriving Repr, DecidableEq

namespace RList

/-- `ref_list_n` -/
def n (l : RList) : Nat := l.value.length

/-- `ref_list_create` -/
def create : RList := { max := 10, value := [] }

/-- `ref_list_deep_copy` -/
def deepCopy (l : RList) : RList := { max := l.max, value := l.value }

/-- `ref_list_push`: grows by 1000 when full -/
def push (l : RList) (last : Int) : RList × Status :=
  let max' := if l.max = l.n then l.max + 1000 else l.max
  ({ max := max', value := l.value ++ [last] }, .ok)

/-- `ref_list_pop` → `(list, status, *last)` -/
def pop (l : RList) : RList × Status × Int :=
  if l.n = 0 then (l, .failure, EMPTY)
  else ({ l with value := l.value.take (l.n - 1) }, .ok, l.value.getD (l.n - 1) 0)

/-- the copy loop of `ref_list_shift`: `for (i = 0; i < n; i++) value[i] = value[i+1]` (`n` already
    decremented); `cnt` iterations left -/
def shiftLoop : (cnt i : Nat) → List Int → List Int
  | 0, _, v => v
  | c + 1, i, v => shiftLoop c (i + 1) (v.set i (v.getD (i + 1) 0))

/-- `ref_list_shift` → `(list, status, *first)` -/
def shift (l : RList) : RList × Status × Int :=
  if l.n = 0 then (l, .failure, EMPTY)
  else ({ l with value := (shiftLoop (l.n - 1) 0 l.value).take (l.n - 1) }, .ok, l.value.getD 0 0)

/-- the compaction loop of `ref_list_delete`:
    `for (from = 0; from < n; from++) if (item != value[from]) { value[to] = value[from]; to++; }` -/
def deleteLoop (item : Int) : (cnt from_ to : Nat) → List Int → Nat × List Int
  | 0, _, to, v => (to, v)
  | c + 1, fr, to, v =>
    if item ≠ v.getD fr 0 then deleteLoop item c (fr + 1) (to + 1) (v.set to (v.getD fr 0))
    else deleteLoop item c (fr + 1) to v

/-- `ref_list_delete`: removes every occurrence; `not_found` (and `n` unchanged) if there is none -/
def delete (l : RList) (item : Int) : RList × Status :=
  let (to, v) := deleteLoop item l.n 0 0 l.value
  if to = l.n then ({ l with value := v }, .not_found)
  else ({ l with value := v.take to }, .ok)

/-- `ref_list_erase` -/
def erase (l : RList) : RList × Status := ({ l with value := [] }, .ok)

/-- the search loop of `ref_list_contains` -/
def containsLoop (item : Int) : (cnt i : Nat) → List Int → Bool
  | 0, _, _ => false
  | c + 1, i, v => if v.getD i 0 = item then true else containsLoop item c (i + 1) v

/-- `ref_list_contains` → `(status, *contains)` -/
def contains (l : RList) (item : Int) : Status × Bool := (.ok, containsLoop item l.n 0 l.value)

end RList

/-! ## `REF_DICT` -/

structure RDict where
  max : Nat
  key : List Int
  value : List Int
  deriving Repr, DecidableEq

namespace RDict

/-- `ref_dict_n` (the model keeps `key.length = value.length`) -/
def n (d : RDict) : Nat := d.key.length

/-- `ref_dict_create` -/
def create : RDict := { max := 10, key := [], value := [] }

/-- `ref_dict_deep_copy` -/
def deepCopy (d : RDict) : RDict := { max := d.max, key := d.key, value := d.value }

/-- result of the downward scan of `ref_dict_store` -/
inductive Scan where
  | found (i : Nat)        -- `key[i] == key`: overwrite the value
  | insertAt (p : Nat)     -- `insert_point`
  deriving Repr, DecidableEq

/-- `for (i = n-1; i >= 0; i--) { if (key[i]==key) …return; if (key[i] < key) { insert_point = i+1; break; } }`
    the argument is `i+1` -/
def storeScan (keys : List Int) (key : Int) : Nat → Scan
  | 0 => .insertAt 0
  | i + 1 =>
    if keys.getD i 0 = key then .found i
    else if keys.getD i 0 < key then .insertAt (i + 1)
    else storeScan keys key i

/-- the two shift loops + fill of `ref_dict_store` -/
def insertAt (xs : List Int) (p : Nat) (x : Int) : List Int := xs.take p ++ x :: xs.drop p

/-- `ref_dict_store` -/
def store (d : RDict) (key value : Int) : RDict × Status :=
  let max' := if d.max = d.n then d.max + 1000 else d.max
  match storeScan d.key key d.n with
  | .found i => ({ max := max', key := d.key, value := d.value.set i value }, .ok)
  | .insertAt p => ({ max := max', key := insertAt d.key p key, value := insertAt d.value p value }, .ok)

/-- the linear branch of `ref_dict_location` (`n <= 10`) -/
def linLoc (key : Int) : (cnt i : Nat) → List Int → Status × Int
  | 0, _, _ => (.not_found, EMPTY)
  | c + 1, i, ks => if key = ks.getD i 0 then (.ok, (i : Int)) else linLoc key c (i + 1) ks

/-- `ref_dict_location` → `(status, *location)`: binary search above 10 entries -/
def location (d : RDict) (key : Int) : Status × Int :=
  if 10 < d.n then Sort.searchInt d.key key else linLoc key d.n 0 d.key

/-- `ref_dict_remove` -/
def remove (d : RDict) (key : Int) : RDict × Status :=
  match location d key with
  | (.ok, loc) => ({ d with key := d.key.eraseIdx loc.toNat, value := d.value.eraseIdx loc.toNat }, .ok)
  | (st, _) => (d, st)

/-- `ref_dict_value` → `(status, *value)` (`*value` is left untouched on failure: `none`) -/
def valueOf (d : RDict) (key : Int) : Status × Option Int :=
  match location d key with
  | (.ok, loc) => (.ok, some (d.value.getD loc.toNat 0))
  | (st, _) => (st, none)

/-- `ref_dict_has_key` -/
def hasKey (d : RDict) (key : Int) : Bool := d.key.any (key == ·)

/-- `ref_dict_has_value` -/
def hasValue (d : RDict) (value : Int) : Bool := d.value.any (value == ·)

/-- `ref_dict_safe_key` -/
def safeKey (d : RDict) (i : Int) : Int :=
  if 0 ≤ i ∧ i < d.n then d.key.getD i.toNat 0 else EMPTY

/-- `ref_dict_safe_keyvalue` -/
def safeKeyValue (d : RDict) (i : Int) : Int :=
  if 0 ≤ i ∧ i < d.n then d.value.getD i.toNat 0 else EMPTY

end RDict

end Refine.Model
