import Refine.Model.Matrix
import Refine.Model.Geom
import Refine.Model.Recon
import Refine.Gen.CellTables

/-!
  Metric: the per-vertex metric-field kernels of `ref_metric.c`, `ref_recon.c` and `ref_node.c`
  behind properties C10 (multiscale metric: SPD, 2-D embedding, complexity met) and C05
  (log-Euclidean interpolation of the background metric), generic over `Scalar`.

  Operation order is copied statement by statement from the C (as compiled by
  `gcc -O1 -ffp-contract=off`), so the `Float` instance reproduces the implementation bit for bit
  (driver `metric`, harness `h_metric.c`); the `ℝ` instance is what `Props/C10.lean` and
  `Props/C05.lean` prove theorems about.  Core-only imports.

  A mesh is `(xyz : List (V3 α), cells : List Cell)`, a metric field is `List (M6 α)` indexed by
  local node (the C's `metric[6*node+i]`), `owned : Nat → Bool` is `ref_node_owned`.

  `C name` → model:
  * `ref_metric_sub_tet_complexity` / `_sub_tri_complexity` → `subTetComplexity`, `subTriComplexity`
  * `ref_metric_complexity` → `complexity` (one rank's sum; `ref_mpi_allsum` is the identity at np = 1,
     the sum over ranks is `Props/C10.complexity_rank_sum`)
  * `ref_metric_set_complexity` and the identical rescale blocks of
     `ref_metric_gradation_at_complexity` → `setComplexity`
  * `ref_metric_local_scale` → `localScale`;  `ref_metric_limit_aspect_ratio` → `limitAspectRatio`
  * `ref_recon_abs_value_hessian` → `absHessian`;  `ref_recon_roundoff_limit` → `roundoffLimit`
  * the `metric[2]=0; metric[4]=0; metric[5]=1` blocks → `Matrix.twodM` (`embed2d`)
  * `ref_node_metric_set`, `ref_node_metric_set_log` → `nodeMetricSet`, `nodeMetricSetLog` (the stored pair `(m, log m)`)
  * the combination loop of `ref_metric_interpolate_node` / `_between` / `ref_metric_interpolate` →
    `logCombine`, `interpolateNode`, `interpolateDonor`;  the metric half of `ref_node_interpolate_edge` → `interpolateEdgeMetric`
-/
namespace Refine.Model.Metric
open Refine Refine.Scalar Refine.Model.Matrix
open Refine.Model.Recon (Cell CellKind Tet Tri xyzAt)
open Refine.Model.Geom (V3 B4)

variable {α : Type} [Scalar α]

/-- `metric[6*node .. 6*node+5]` -/
@[inline] def mAt (metric : List (M6 α)) (i : Nat) : M6 α := metric.getD i ⟨zero, zero, zero, zero, zero, zero⟩

/-- `for (i = 0; i < 6; i++) metric[i + 6 * node] *= s` -/
def scaleM (m : M6 α) (s : α) : M6 α :=
  ⟨m.m11 *. s, m.m12 *. s, m.m13 *. s, m.m22 *. s, m.m23 *. s, m.m33 *. s⟩

/-- `metric[2] = 0.0; metric[4] = 0.0; metric[5] = 1.0` (the planar embedding re-imposed after every stage) -/
@[inline] def embed2d (m : M6 α) : M6 α := twodM m

/-! ### continuous complexity (`ref_metric_complexity`) -/

/-- body of the `cell_node` loop: `if owned { det_m; if (det > 0.0) complexity += sqrt(det) * volume / per; }` -/
def nodeTerm (owned : Nat → Bool) (metric : List (M6 α)) (volume per : α) (acc : α) (node : Nat) : α :=
  if owned node then
    let det := detM (mAt metric node)
    if Scalar.lt zero det then acc +. Scalar.sqrt det *. volume /. per else acc
  else acc

/-- `ref_metric_sub_tet_complexity`: tet volume, then the four vertices in order; share `volume / 4.0` -/
def subTetComplexity (owned : Nat → Bool) (xyz : List (V3 α)) (metric : List (M6 α)) (acc : α) (t : Tet) : α :=
  let volume := Geom.tetVol (xyzAt xyz t.n0) (xyzAt xyz t.n1) (xyzAt xyz t.n2) (xyzAt xyz t.n3)
  [t.n0, t.n1, t.n2, t.n3].foldl (nodeTerm owned metric volume (Scalar.ofInt 4)) acc

/-- `ref_metric_sub_tri_complexity`: triangle area, three vertices; share `area / 3.0`; the determinant is
    still the 3x3 `ref_matrix_det_m` (= the 2x2 determinant for an embedded metric) -/
def subTriComplexity (owned : Nat → Bool) (xyz : List (V3 α)) (metric : List (M6 α)) (acc : α) (t : Tri) : α :=
  let volume := Geom.triArea (xyzAt xyz t.n0) (xyzAt xyz t.n1) (xyzAt xyz t.n2)
  [t.n0, t.n1, t.n2].foldl (nodeTerm owned metric volume (Scalar.ofInt 3)) acc

/-- sub-tets of one volume cell in the order `ref_metric_complexity` visits them (its own hex split) -/
def cplxTets (c : Cell) : List Tet :=
  let n (k : Nat) : Nat := c.nodes.getD k 0
  match c.kind with
  | .tet => [⟨n 0, n 1, n 2, n 3⟩]
  | .pyr => [⟨n 0, n 4, n 1, n 2⟩, ⟨n 0, n 3, n 4, n 2⟩]
  | .pri => [⟨n 0, n 4, n 5, n 3⟩, ⟨n 0, n 1, n 5, n 4⟩, ⟨n 0, n 1, n 2, n 5⟩]
  | .hex => [⟨n 0, n 5, n 7, n 4⟩, ⟨n 0, n 1, n 7, n 5⟩, ⟨n 1, n 6, n 7, n 5⟩,
             ⟨n 0, n 7, n 2, n 3⟩, ⟨n 0, n 7, n 1, n 2⟩, ⟨n 1, n 7, n 6, n 2⟩]
  | _ => []

def isVol : CellKind → Bool
  | .tet => true | .pyr => true | .pri => true | .hex => true | _ => false

def ofKind (k : CellKind) (cells : List Cell) : List Cell := cells.filter (fun c => c.kind = k)

/-- all sub-tets in visiting order: cell groups tet, pyr, pri, hex; cells of a group in index order -/
def allTets (cells : List Cell) : List Tet :=
  (ofKind .tet cells ++ ofKind .pyr cells ++ ofKind .pri cells ++ ofKind .hex cells).flatMap cplxTets

/-- all triangles in visiting order: tri; then the (0,1,2) half of every quad; then the (0,2,3) half of every quad -/
def allTris (cells : List Cell) : List Tri :=
  let n (c : Cell) (k : Nat) : Nat := c.nodes.getD k 0
  (ofKind .tri cells).map (fun c => ⟨n c 0, n c 1, n c 2⟩) ++
  (ofKind .qua cells).map (fun c => ⟨n c 0, n c 1, n c 2⟩) ++
  (ofKind .qua cells).map (fun c => ⟨n c 0, n c 2, n c 3⟩)

/-- `ref_cell_part`: a cell belongs to the part of its vertex with the smallest global id
    (the harness uses global = local index) -/
def cellPartNode (c : Cell) : Nat := c.nodes.foldl Nat.min (c.nodes.getD 0 0)

/-- `have_vol_cells = (0 < ntet + npyr + npri + nhex)` with `ref_cell_ncell` counting the cells of this part -/
def haveVolCells (owned : Nat → Bool) (cells : List Cell) : Bool :=
  cells.any (fun c => isVol c.kind && owned (cellPartNode c))

/-- one rank's part of `ref_metric_complexity`, `have_vol_cells` given (it is a global quantity) -/
def complexityLocal (haveVol : Bool) (owned : Nat → Bool) (xyz : List (V3 α)) (metric : List (M6 α))
    (cells : List Cell) : α :=
  if haveVol then (allTets cells).foldl (subTetComplexity owned xyz metric) zero
  else (allTris cells).foldl (subTriComplexity owned xyz metric) zero

/-- `ref_metric_complexity` on one rank (`ref_mpi_allsum` = identity) -/
def complexity (owned : Nat → Bool) (xyz : List (V3 α)) (metric : List (M6 α)) (cells : List Cell) : α :=
  complexityLocal (haveVolCells owned cells) owned xyz metric cells

/-! ### rescaling to a target complexity (`ref_metric_set_complexity`, and the same block in
    `ref_metric_gradation_at_complexity`) -/

/-- `complexity_scale = 2.0 / 3.0; if (twod) complexity_scale = 1.0;` -/
def complexityScale (twod : Bool) : α := if twod then Scalar.ofInt 1 else Scalar.ofInt 2 /. Scalar.ofInt 3

/-- per-node body of the rescale loop: six multiplications, then the 2-D embedding -/
def rescaleNode (twod : Bool) (s : α) (m : M6 α) : M6 α :=
  let m := scaleM m s
  if twod then embed2d m else m

/-- `ref_metric_set_complexity`: `div_zero` when `target / current` is not `ref_math_divisible` -/
def setComplexity (twod : Bool) (owned : Nat → Bool) (xyz : List (V3 α)) (metric : List (M6 α))
    (cells : List Cell) (target : α) : Except Err (List (M6 α)) :=
  let current := complexity owned xyz metric cells
  if !(divisible target current) then .error .div_zero else
  .ok (metric.map (rescaleNode twod (Scalar.pow (target /. current) (complexityScale twod))))

/-! ### Lp normalisation (`ref_metric_local_scale`) -/

/-- per-node body: `det_m; if (det > 0.0) metric *= pow(det, exponent)` -/
def localScaleNode (exponent : α) (m : M6 α) : M6 α :=
  let det := detM m
  if Scalar.lt zero det then scaleM m (Scalar.pow det exponent) else m

/-- `exponent = -1.0 / ((REF_DBL)(2 * p_norm + dimension))` -/
def localScaleExponent (twod : Bool) (p : Int) : α :=
  Scalar.ofInt (-1) /. Scalar.ofInt (2 * p + (if twod then 2 else 3))

/-- `ref_metric_local_scale` -/
def localScale (twod : Bool) (p : Int) (metric : List (M6 α)) : List (M6 α) :=
  let metric := if twod then metric.map embed2d else metric
  let metric := metric.map (localScaleNode (localScaleExponent twod p))
  if twod then metric.map embed2d else metric

/-! ### eigenvalue repair of the reconstructed Hessian (`ref_recon.c`) -/

/-- first `Except` error of a list of per-node results (the C returns at the first failing node) -/
def mapM6 (f : M6 α → Except Err (M6 α)) : List (M6 α) → Except Err (List (M6 α))
  | [] => .ok []
  | m :: rest =>
    match f m with
    | .error e => .error e
    | .ok r =>
      match mapM6 f rest with
      | .error e => .error e
      | .ok rs => .ok (r :: rs)

/-- node body of `ref_recon_abs_value_hessian`: `diag_m; eig = ABS(eig); form_m` -/
def absHessianNode (m : M6 α) : Except Err (M6 α) :=
  match diagM m with
  | .error e => .error e
  | .ok d => .ok (formM (mapEig cabs d))

/-- `ref_recon_abs_value_hessian` (owned nodes only; ghosts are filled by the exchange) -/
def absHessian (owned : Nat → Bool) (metric : List (M6 α)) : Except Err (List (M6 α)) :=
  let rec go : Nat → List (M6 α) → Except Err (List (M6 α))
    | _, [] => .ok []
    | i, m :: rest =>
      match (if owned i then absHessianNode m else .ok m) with
      | .error e => .error e
      | .ok r =>
        match go (i + 1) rest with
        | .error e => .error e
        | .ok rs => .ok (r :: rs)
  go 0 metric

/-- `diag_m; eig = MAX(eig, floor); form_m` -/
def floorEigNode (floor : α) (m : M6 α) : Except Err (M6 α) :=
  match diagM m with
  | .error e => .error e
  | .ok d => .ok (formM (mapEig (fun l => cmax l floor) d))

/-- the local edge table of a cell kind (generated from `ref_cell_initialize`) -/
def kindE2n : CellKind → List (List Nat)
  | .tri => Gen.CellTables.tri.e2n
  | .qua => Gen.CellTables.qua.e2n
  | .tet => Gen.CellTables.tet.e2n
  | .pyr => Gen.CellTables.pyr.e2n
  | .pri => Gen.CellTables.pri.e2n
  | .hex => Gen.CellTables.hex.e2n

/-- all (node0, node1) cell edges: 3-D groups first, then 2-D groups, as `ref_edge_builder_uniq` walks them
    (duplicates are harmless: only the minimum length per node is used) -/
def cellEdges (cells : List Cell) : List (Nat × Nat) :=
  let one (c : Cell) : List (Nat × Nat) :=
    (kindE2n c.kind).map (fun e => (c.nodes.getD (e.getD 0 0) 0, c.nodes.getD (e.getD 1 0) 0))
  (cells.filter (fun c => isVol c.kind)).flatMap one ++ (cells.filter (fun c => !isVol c.kind)).flatMap one

/-- `dist = sqrt(pow(dx,2) + pow(dy,2) + pow(dz,2))` -/
def edgeLength (xyz : List (V3 α)) (n0 n1 : Nat) : α :=
  let a := xyzAt xyz n0
  let b := xyzAt xyz n1
  let dx := b.x -. a.x
  let dy := b.y -. a.y
  let dz := b.z -. a.z
  Scalar.sqrt (dx *. dx +. dy *. dy +. dz *. dz)

/-- `if (radius[n] < 0.0) radius[n] = dist; radius[n] = MIN(radius[n], dist);` -/
def updRadius (dist : α) (r : α) : α :=
  let r := if Scalar.lt r zero then dist else r
  cmin r dist

/-- shortest incident edge per node, `-1.0` where there is none -/
def radii (xyz : List (V3 α)) (cells : List Cell) : List α :=
  (cellEdges cells).foldl
    (fun rad e =>
      let dist := edgeLength xyz e.1 e.2
      (rad.modify e.1 (updRadius dist)).modify e.2 (updRadius dist))
    (List.replicate xyz.length (Scalar.ofInt (-1)))

/-- node body of `ref_recon_roundoff_limit`: `failure` (the `RAS`) when `4e-12 / radius²` is not divisible -/
def roundoffNode (radius : α) (m : M6 α) : Except Err (M6 α) :=
  let jitter4 : α := Scalar.ofInt 4 *. Scalar.ofDec 1 (-12)
  let r2 := radius *. radius
  if !(divisible jitter4 r2) then .error .failure else
  floorEigNode (jitter4 /. r2) m

/-- `ref_recon_roundoff_limit` -/
def roundoffLimit (xyz : List (V3 α)) (cells : List Cell) (metric : List (M6 α)) : Except Err (List (M6 α)) :=
  let rec go : List α → List (M6 α) → Except Err (List (M6 α))
    | r :: rs, m :: ms =>
      match roundoffNode r m with
      | .error e => .error e
      | .ok x =>
        match go rs ms with
        | .error e => .error e
        | .ok xs => .ok (x :: xs)
    | _, _ => .ok []
  go (radii xyz cells) metric

/-! ### aspect-ratio limit (`ref_metric_limit_aspect_ratio`) -/

/-- `aspect_ratio2`: `ar*ar` when `ar > 0.9999`, else `1.0e6 * 1.0e6` -/
def aspectRatio2 (ar : α) : α :=
  if Scalar.lt (Scalar.ofDec 9999 (-4)) ar then ar *. ar else Scalar.ofDec 1 6 *. Scalar.ofDec 1 6

/-- 3-D node body -/
def limitArNode3 (ar2 : α) (m : M6 α) : Except Err (M6 α) :=
  match diagM m with
  | .error e => .error e
  | .ok d =>
    let maxEig := d.l0
    let maxEig := cmax d.l1 maxEig
    let maxEig := cmax d.l2 maxEig
    if !(divisible maxEig ar2) then .error .failure else
    let limit := maxEig /. ar2
    .ok (formM (mapEig (fun l => cmax l limit) d))

/-- 2-D node body: the eigenvector closest to z is put last and left alone; then the embedding -/
def limitArNode2 (ar2 : α) (m : M6 α) : Except Err (M6 α) :=
  match diagM m with
  | .error e => .error e
  | .ok d =>
    match descendingEigTwod d with
    | .error e => .error e
    | .ok d =>
      let maxEig := d.l0
      let maxEig := cmax d.l1 maxEig
      if !(divisible maxEig ar2) then .error .failure else
      let limit := maxEig /. ar2
      .ok (twodM (formM { d with l0 := cmax d.l0 limit, l1 := cmax d.l1 limit }))

/-- `ref_metric_limit_aspect_ratio` -/
def limitAspectRatio (twod : Bool) (ar : α) (metric : List (M6 α)) : Except Err (List (M6 α)) :=
  let ar2 := aspectRatio2 ar
  mapM6 (if twod then limitArNode2 ar2 else limitArNode3 ar2) metric

/-! ### C05: the stored pair and the log-Euclidean combination -/

/-- `ref_node_metric_set`: stores `m` in `real[3..8]` and `log_m(m)` in `real[9..14]`; returns `(m, log m)` -/
def nodeMetricSet (m : M6 α) : Except Err (M6 α × M6 α) :=
  match logM m with
  | .error e => .error e
  | .ok lg => .ok (m, lg)

/-- `ref_node_metric_set_log`: stores `log_m` and `exp_m(log_m)`; returns `(m, log m)` -/
def nodeMetricSetLog (lg : M6 α) : Except Err (M6 α × M6 α) :=
  match expM lg with
  | .error e => .error e
  | .ok m => .ok (m, lg)

/-- `log_m[im] = 0.0; for (ibary < node_per) log_m[im] += bary[ibary] * log_parent_m[ibary][im];` -/
def logCombine (nodePer : Nat) (w : B4 α) (l0 l1 l2 l3 : M6 α) : M6 α :=
  let f (a0 a1 a2 a3 : α) : α :=
    let s3 := zero +. w.b0 *. a0 +. w.b1 *. a1 +. w.b2 *. a2
    if nodePer == 3 then s3 else s3 +. w.b3 *. a3
  ⟨f l0.m11 l1.m11 l2.m11 l3.m11, f l0.m12 l1.m12 l2.m12 l3.m12, f l0.m13 l1.m13 l2.m13 l3.m13,
   f l0.m22 l1.m22 l2.m22 l3.m22, f l0.m23 l1.m23 l2.m23 l3.m23, f l0.m33 l1.m33 l2.m33 l3.m33⟩

def errOfSt : Geom.St → Err
  | .divZero => .div_zero
  | .invalid => .invalid
  | _ => .failure

/-- the interpolation step of `ref_metric_interpolate_node` / `_between` once the donor cell is known:
    clip the stored barycentric weights (`RSS` on the status), combine the donors' stored logs,
    `ref_node_metric_set_log`.  Returns the stored pair `(m, log m)` of the receptor. -/
def interpolateNode (nodePer : Nat) (bary : B4 α) (l0 l1 l2 l3 : M6 α) : Except Err (M6 α × M6 α) :=
  match Geom.clipBary4 bary with
  | (Geom.St.ok, w) => nodeMetricSetLog (logCombine nodePer w l0 l1 l2 l3)
  | (st, _) => .error (errOfSt st)

/-- the donor side of `ref_metric_interpolate` (the parallel field transfer, as repaired in /repo e210980): the four
    rows are zeroed, the first `node_per` rows are filled with the donors' stored logs, and the loop always runs
    over four weights: `donor_log_m[im] = 0.0; for (ibary < 4) donor_log_m[im] += bary[ibary] * log_parent_m[ibary][im]`.
    The receptor clipped its weights (`ref_node_clip_bary4`) before sending them and applies `ref_node_metric_set_log`
    to what comes back. -/
def interpolateDonor (nodePer : Nat) (bary : B4 α) (l0 l1 l2 l3 : M6 α) : Except Err (M6 α × M6 α) :=
  match Geom.clipBary4 bary with
  | (Geom.St.ok, w) =>
    let z : M6 α := ⟨zero, zero, zero, zero, zero, zero⟩
    nodeMetricSetLog (logCombine 4 w l0 l1 l2 (if nodePer == 3 then z else l3))
  | (st, _) => .error (errOfSt st)

/-- the log-Euclidean interpolant itself, `exp_m (Σ w_i · log_i)` -/
def logEuclidInterp (nodePer : Nat) (w : B4 α) (l0 l1 l2 l3 : M6 α) : Except Err (M6 α) :=
  expM (logCombine nodePer w l0 l1 l2 l3)

/-- metric half of `ref_node_interpolate_edge` (edge split): `weight_m` of the two stored logs, `set_log` -/
def interpolateEdgeMetric (l0 l1 : M6 α) (w1 : α) : Except Err (M6 α × M6 α) :=
  nodeMetricSetLog (weightM l0 l1 w1)

end Refine.Model.Metric
