import Refine.Model.Cavity
import Refine.Model.Collapse

/-!
  L5 Mesh / `Cavity2`: the parts of `src/ref_cavity.c` that sit around the insert / verify / replace core of
  `Model/Cavity.lean`, statement by statement:

  * `swapNode23`, `formEdgeSwap`, `formBall`, `formInsert`, `formInsertTet`
      (`ref_swap_node23`, `ref_cavity_form_edge_swap`, `_form_ball`, `_form_insert`, `_form_insert_tet`);
      `formEdgeSplit` / `formEdgeCollapse` are in `Model/Cavity.lean`.
  * `withFace` (`ref_cell_with_face` on tets), `faceVisible` (`ref_cavity_visible`), `enlargeFace`, `enlargeSeg`,
    `cavManifold` (`ref_cavity_manifold`), `enlargeVisible`, `enlargeConforming`, `enlargeCombined`.
  * `addTetWithoutFaceid` (`ref_cavity_add_tet_without_faceid`, static).
  * acceptance tests `cavRatio`, `cavChange`, `cavNormdevNoGeom` (`ref_cavity_ratio`, `_change`, `_normdev`).
  * callers: `swapTetCell` (loop body of `ref_cavity_swap_tet_pass`), `collapseCavityPath`
    (`ref_collapse_to_remove_node1`, the `!allowed` branch), `splitCavityPath` (`ref_split_pass`, the `try_cavity`
    branch): the part between `ref_cavity_create` and `ref_cavity_free`.

  The `while (keep_growing)` loops of the C have NO iteration cap.  They are modelled with two explicit budgets
  (`sweeps`, `adds`), both derived from the size of the grid, and the theorems of `Props/C01Cavity2.lean` show that the
  budgets are never exhausted on a cavity whose `tet_list` / `tri_list` is duplicate free and lists live cells
  (`Res.fuel` is unreachable), and that the only way not to terminate is a sweep that asks for growth and changes
  nothing (`Res.hang`: the C spins forever on such a state).

  `ref_cavity_conforming` needs CAD (`ref_geom_tri_norm_deviation`): it is a parameter `conf` of the model
  (the drivers use `fun _ _ => false`: without a CAD model the C answers "not conforming" for every seg).
  Core-only.
-/
namespace Refine.Model.Cavity2
open Refine Refine.Model.Geom Refine.Model.Cavity

/-- `REF_STATUS` as used by the cavity model -/
abbrev St := Refine.Model.Cavity.St

variable {α : Type}

/-! ### small queries on the cell stores -/

/-- same node set (what `ref_sort_unique_int` + elementwise comparison decides in `ref_cell_with(_face)`) -/
def sameSet (a b : List Int) : Bool := a.all (fun v => b.contains v) && b.all (fun v => a.contains v)

def Face.nodes (f : Face) : List Int := [f.n0, f.n1, f.n2]

/-- `ref_cell_with(tri, nodes)`: first tri around `nodes[0]` with the node set of `nodes` -/
def triWith (g : Grid α) (ns : List Int) : Option (Nat × Tri) :=
  (g.tris.having Tri.nodes (ns.getD 0 (-1))).find? fun p => sameSet p.2.nodes ns

/-- `ref_cell_with(tet, nodes)` -/
def tetWith (g : Grid α) (ns : List Int) : Option (Nat × Tet) :=
  (g.tets.having Tet.nodes (ns.getD 0 (-1))).find? fun p => sameSet p.2.nodes ns

/-- `ref_cell_with_face(tet, face_nodes, &cell0, &cell1)`; `-1` = `REF_EMPTY`; `REF_INVALID` at the third hit -/
def withFace (g : Grid α) (f : Face) : St × Int × Int :=
  let hits : List Int := (g.tets.having Tet.nodes f.n0).flatMap fun p =>
    ((tetFaces p.2).filter fun h => sameSet (Face.nodes h) (Face.nodes f)).map fun _ => (p.1 : Int)
  match hits with
  | [] => (.ok, -1, -1)
  | [a] => (.ok, a, -1)
  | [a, b] => (.ok, a, b)
  | a :: b :: _ :: _ => (.invalid, a, b)

/-- `ref_cell_has_side(tri, n0, n1)` (every node pair of a tri is a side) -/
def triHasSide (g : Grid α) (n0 n1 : Int) : Bool := !(g.tris.having2 Tri.nodes n0 n1).isEmpty

/-- `ref_cell_has_side(edg, n0, n1)` -/
def edgHasSide (g : Grid α) (n0 n1 : Int) : Bool := !(g.edgs.having2 Edg.nodes n0 n1).isEmpty

/-! ### ref_swap_node23 -/

/-- the six `if`s of `ref_swap_node23` for one triangle -/
def node23Step (n0 n1 : Int) (acc : Int × Int) (t : Tri) : Int × Int :=
  let n2 := acc.1
  let n3 := acc.2
  let n2 := if n0 == t.n0 && n1 == t.n1 then t.n2 else n2
  let n2 := if n0 == t.n1 && n1 == t.n2 then t.n0 else n2
  let n2 := if n0 == t.n2 && n1 == t.n0 then t.n1 else n2
  let n3 := if n1 == t.n0 && n0 == t.n1 then t.n2 else n3
  let n3 := if n1 == t.n1 && n0 == t.n2 then t.n0 else n3
  let n3 := if n1 == t.n2 && n0 == t.n0 then t.n1 else n3
  (n2, n3)

/-- `ref_swap_node23(ref_grid, node0, node1, &node2, &node3)` -/
def swapNode23 (g : Grid α) (n0 n1 : Int) : St × Int × Int :=
  let tl := g.tris.having2 Tri.nodes n0 n1
  if tl.length > 2 then (.increase_limit, -1, -1) else
  if tl.length ≠ 2 then (.failure, -1, -1) else
  let r := tl.foldl (fun acc p => node23Step n0 n1 acc p.2) ((-1 : Int), (-1 : Int))
  if r.1 = -1 then (.failure, r.1, r.2) else
  if r.2 = -1 then (.failure, r.1, r.2) else (.ok, r.1, r.2)

/-! ### form functions -/

/-- the tri loop of `ref_cavity_form_edge_swap`: push, locality test, remember the face id of the last tri -/
def formSwapTris (g : Grid α) : Cav → Int → List (Nat × Tri) → Cav × Int × Bool
  | c, id, [] => (c, id, false)
  | c, id, (cell, tri) :: rest =>
    let c := { c with triList := c.triList ++ [(cell : Int)] }
    if !(tri.nodes.all g.nodeOwned) then ({ c with state := .partition_constrained }, id, true) else
    formSwapTris g c tri.id rest

/-- `ref_cavity_form_edge_swap` on a freshly created cavity (tet/tri grids: the pyramid/prism gate is in
    `Model/Mixed.lean`) -/
def formEdgeSwap (g : Grid α) (c : Cav) (n0 n1 node : Int) : St × Cav :=
  let c := { c with node := node }
  if !(g.nodeOwned n0) || !(g.nodeOwned n1) || !(g.nodeOwned node) then
    (.ok, { c with state := .partition_constrained }) else
  match formSplitTets g n0 n1 c (g.tets.having2 Tet.nodes n0 n1) with
  | (s, c, true) => (s, c)
  | (_, c, false) =>
    if !(triHasSide g n0 n1) then verifyBoth c else
    match swapNode23 g n0 n1 with
    | (.ok, n2, n3) =>
      let c := { c with surfNode := n2 }
      match formSwapTris g c (-1) (g.tris.having2 Tri.nodes n0 n1) with
      | (c, _, true) => (.ok, c)
      | (c, id, false) =>
        if c.triList.length ≠ 2 then (.failure, c) else
        if id = -1 then (.failure, c) else
        match insertSegs g c [⟨n0, n3, id⟩, ⟨n3, n1, id⟩, ⟨n1, n2, id⟩, ⟨n2, n0, id⟩] with
        | (.ok, c) => verifyBoth c
        | r => r
    | (s, _, _) => (s, c)

/-- `protected_cell` of `ref_cavity_form_insert*` -/
def protectedCell (protect : Int) (nodes : List Int) : Bool := nodes.contains protect

/-- the tet loop of `form_ball` / `form_insert` / `form_insert_tet`: cells around `site` without `protect`, faces
    without `node` are inserted -/
def formBallTets (g : Grid α) (node protect : Int) : Cav → List (Nat × Tet) → St × Cav × Bool
  | c, [] => (.ok, c, false)
  | c, (cell, tet) :: rest =>
    if protectedCell protect tet.nodes then formBallTets g node protect c rest else
    if c.tetList.contains (cell : Int) then (.failure, c, true) else
    let c := { c with tetList := c.tetList ++ [(cell : Int)] }
    if !(tet.nodes.all g.nodeOwned) then (.ok, { c with state := .partition_constrained }, true) else
    match insertFaces c ((tetFaces tet).filter fun f => !(f.has node)) with
    | (.ok, c) => formBallTets g node protect c rest
    | (s, c) => (s, c, true)

/-- the tri loop: sides 12, 20, 01 without `node`; `faceid = -1` (`REF_EMPTY`) accepts every tri -/
def formBallTris (g : Grid α) (node protect faceid : Int) : Cav → List (Nat × Tri) → St × Cav × Bool
  | c, [] => (.ok, c, false)
  | c, (cell, tri) :: rest =>
    if protectedCell protect tri.nodes then formBallTris g node protect faceid c rest else
    if faceid ≠ -1 ∧ faceid ≠ tri.id then formBallTris g node protect faceid c rest else
    if c.triList.contains (cell : Int) then (.failure, c, true) else
    let c := { c with triList := c.triList ++ [(cell : Int)] }
    if !(tri.nodes.all g.nodeOwned) then (.ok, { c with state := .partition_constrained }, true) else
    let segs := ([(tri.n1, tri.n2), (tri.n2, tri.n0), (tri.n0, tri.n1)].filter
      fun p => !(node == p.1 || node == p.2)).map fun p => (⟨p.1, p.2, tri.id⟩ : Seg)
    match insertSegs g c segs with
    | (.ok, c) => formBallTris g node protect faceid c rest
    | (s, c) => (s, c, true)

/-- `ref_cavity_form_ball` -/
def formBall (g : Grid α) (c : Cav) (node : Int) : St × Cav :=
  let c := { c with node := node }
  if !(g.nodeOwned node) then (.ok, { c with state := .partition_constrained }) else
  match formBallTets g node (-1) c (g.tets.having Tet.nodes node) with
  | (s, c, true) => (s, c)
  | (_, c, false) =>
    match formBallTris g node (-1) (-1) c (g.tris.having Tri.nodes node) with
    | (s, c, true) => (s, c)
    | (_, c, false) => verifyBoth c

/-- `ref_cavity_form_insert` (tris first, then tets) -/
def formInsert (g : Grid α) (c : Cav) (node site protect faceid : Int) : St × Cav :=
  let c := { c with node := node }
  if !(g.nodeOwned node) || !(g.nodeOwned site) then (.ok, { c with state := .partition_constrained }) else
  match formBallTris g node protect faceid c (g.tris.having Tri.nodes site) with
  | (s, c, true) => (s, c)
  | (_, c, false) =>
    match formBallTets g node protect c (g.tets.having Tet.nodes site) with
    | (s, c, true) => (s, c)
    | (_, c, false) => verifyBoth c

/-- `ref_cavity_form_insert_tet` -/
def formInsertTet (g : Grid α) (c : Cav) (node site protect : Int) : St × Cav :=
  let c := { c with node := node }
  if !(g.nodeOwned node) || !(g.nodeOwned site) then (.ok, { c with state := .partition_constrained }) else
  match formBallTets g node protect c (g.tets.having Tet.nodes site) with
  | (s, c, true) => (s, c)
  | (_, c, false) => verifyBoth c

/-! ### add_tet_without_faceid -/

/-- face loop of `ref_cavity_add_tet_without_faceid` -/
def addTetWoFaces (g : Grid α) (faceid : Int) : Cav → List Face → St × Cav
  | c, [] => (.ok, c)
  | c, f :: t =>
    if !((Face.nodes f).all g.nodeOwned) then (.ok, { c with state := .partition_constrained }) else
    match triWith g (Face.nodes f) with
    | some p =>
      if p.2.id = faceid then addTetWoFaces g faceid c t else
      match insertFace c f with
      | (.ok, c) => if c.state ≠ .unknown then (.ok, c) else addTetWoFaces g faceid c t
      | r => r
    | none =>
      match insertFace c f with
      | (.ok, c) => if c.state ≠ .unknown then (.ok, c) else addTetWoFaces g faceid c t
      | r => r

/-- `ref_cavity_add_tet_without_faceid` (static) -/
def addTetWithoutFaceid (g : Grid α) (c : Cav) (cell faceid : Int) : St × Cav :=
  match g.tets.get? cell with
  | none => (.failure, c)
  | some tet =>
    if c.tetList.contains cell then (.ok, c) else
    addTetWoFaces g faceid { c with tetList := c.tetList ++ [cell] } (tetFaces tet)

/-! ### visibility of one face, enlarge_face, enlarge_seg -/

section vis
variable [Scalar α]

/-- `ref_cavity_visible(ref_cavity, face, &visible)`: `none` = the status of `ref_node_tet_vol` (`REF_INVALID`) -/
def faceVisible (g : Grid α) (c : Cav) (f : Face) : Option Bool :=
  match tetVolAt g f.n0 f.n1 f.n2 c.node with
  | none => none
  | some v => some (!(v <=. minVolume))

end vis

/-- `ref_cavity_enlarge_face(ref_cavity, face)` (the qua/pyr/pri/hex gate is `Mixed.cavityFaceGate`) -/
def enlargeFace (g : Grid α) (c : Cav) (face : Nat) : St × Cav :=
  match c.faces.rows.getD face none with
  | none => (.failure, c)
  | some f =>
    if !((Face.nodes f).all g.nodeOwned) then (.ok, { c with state := .partition_constrained }) else
    match withFace g f with
    | (.ok, t0, t1) =>
      if t0 = -1 then (.ok, { c with state := .boundary_constrained }) else
      if t1 = -1 then (.ok, { c with state := .boundary_constrained }) else
      let have0 := c.tetList.contains t0
      let have1 := c.tetList.contains t1
      match (if have0 then addTet g c t1 else (.ok, c)) with
      | (.ok, c1) => if have1 then addTet g c1 t0 else (.ok, c1)
      | r => r
    | (s, _, _) => (s, c)

/-- `ref_cavity_enlarge_seg(ref_cavity, seg)` -/
def enlargeSeg (g : Grid α) (c : Cav) (seg : Nat) : St × Cav :=
  match c.segs.rows.getD seg none with
  | none => (.failure, c)
  | some s =>
    match g.tris.having2 Tri.nodes s.n0 s.n1 with
    | [p0, p1] =>
      let have0 := c.triList.contains (p0.1 : Int)
      let have1 := c.triList.contains (p1.1 : Int)
      if have0 == have1 then (.failure, c) else
      match (if have0 then addTri g c (p1.1 : Int) else (.ok, c)) with
      | (.ok, c1) => if have1 then addTri g c1 (p0.1 : Int) else (.ok, c1)
      | r => r
    | _ :: _ :: _ :: _ => (.increase_limit, c)
    | _ => (.ok, { c with state := .boundary_constrained })

/-- `ref_cavity_manifold(ref_cavity, &manifold)`: no new tri / tet repeats a cell that stays -/
def cavManifold (g : Grid α) (c : Cav) : Bool :=
  let sn := c.segNode
  let segOk := c.validSegs.all fun s =>
    (sn == s.n0 || sn == s.n1) ||
    (match triWith g [s.n0, s.n1, sn] with
     | some p => c.triList.contains (p.1 : Int)
     | none => true)
  let faceOk := c.validFaces.all fun f =>
    f.has c.node ||
    (match tetWith g [f.n0, f.n1, f.n2, c.node] with
     | some p => c.tetList.contains (p.1 : Int)
     | none => true)
  segOk && faceOk

/-! ### the conformity ledger of a tet + tri cavity (executable, evaluated by the run-level driver on every
       `cavity_replace begin` record) -/

/-- the cone faces `(s0, s1, seg_node)` of the live segs that are not attached to the seg node: the faces of the
    boundary tris `ref_cavity_replace` creates -/
def segCone (c : Cav) : List Face :=
  c.validSegs.filterMap fun s =>
    if c.segNode == s.n0 || c.segNode == s.n1 then none else some ⟨s.n0, s.n1, c.segNode⟩

/-- `live faces + removed tris` against `cone of the live segs + faces of the removed tets`: every unordered face has
    signed multiplicity zero.  This is the chain identity `F − cone(∂S) = ∂T − S` under which the replacement keeps
    the signed boundary of the mesh INCLUDING its boundary tris (`replace_conforming_boundary`). -/
def ledgerOk (c : Cav) (ts : List Tet) (ss : List Tri) : Bool :=
  let pos := c.validFaces ++ ss.map fun t => (⟨t.n0, t.n1, t.n2⟩ : Face)
  let neg := segCone c ++ ts.flatMap tetFaces
  (pos ++ neg).all fun f => signedCount pos neg (sort3s f.n0 f.n1 f.n2).1 == 0

/-- the listed cells, looked up in the grid (dead cells are dropped: `ref_cavity_replace` fails on them) -/
def listedTets (g : Grid α) (c : Cav) : List Tet := c.tetList.filterMap fun cell => g.tets.get? cell
def listedTris (g : Grid α) (c : Cav) : List Tri := c.triList.filterMap fun cell => g.tris.get? cell

/-- `ledgerOk` on the cells the cavity lists -/
def ledgerOkAt (g : Grid α) (c : Cav) : Bool := ledgerOk c (listedTets g c) (listedTris g c)

/-- three distinct nodes -/
def Face.nondeg (f : Face) : Bool := f.n0 != f.n1 && f.n1 != f.n2 && f.n2 != f.n0

/-- the certificate the run-level driver evaluates on every `cavity_replace begin` record (and the function-level
    driver on request): listed cells live, live faces non-degenerate, ledger equation.  With it an accepted
    `ref_cavity_replace` is a conforming step (`certified_step`). -/
def certOk (g : Grid α) (c : Cav) : Bool :=
  c.tetList.all (fun cell => (g.tets.get? cell).isSome) && c.triList.all (fun cell => (g.tris.get? cell).isSome) &&
  c.validFaces.all Face.nondeg && ledgerOkAt g c

/-- every live seg carries the face id of a listed (to be removed) boundary tri that has the seg's two nodes: the
    face ids the new boundary tris inherit are ids of tris that go away (evaluated by the run-level driver) -/
def segIdsOk (g : Grid α) (c : Cav) : Bool :=
  c.validSegs.all fun s => (listedTris g c).any fun t => t.id == s.id

/-! ### the enlarge loops -/

/-- result of a modelled C function that contains a `while (keep_growing)` loop -/
inductive Res where
  /-- the C function returned `s` with the cavity `c` -/
  | ret (s : St) (c : Cav)
  /-- a sweep set `keep_growing` and left the cavity exactly as it was: the C loops forever -/
  | hang (c : Cav)
  /-- a model budget ran out (never happens under `ListsOK`, theorem `enlargeVisible_no_fuel` / `enlargeConforming_no_fuel`) -/
  | fuel (c : Cav)
  deriving Repr, DecidableEq

inductive Scan where
  /-- the `each_ref_cavity_valid_*` loop reached the end; `stall` = some enlarge call changed nothing -/
  | none (stall : Bool)
  /-- the function returns from inside the loop with this status and cavity -/
  | exit (s : St) (c : Cav)
  /-- the enlarge call at slot `j` changed the cavity to `c'` (status ok, state still unknown) -/
  | hit (j : Nat) (c' : Cav) (stall : Bool)

inductive SweepRes where
  | done (c : Cav) (grew : Bool)
  | exit (s : St) (c : Cav)
  | fuel (c : Cav)

section loops
variable [Scalar α]

/-- the part of one `each_ref_cavity_valid_face` sweep of `ref_cavity_enlarge_visible` during which the cavity does
    not change: slots from `i` on (rows `rows = c.faces.rows.drop i`), up to and including the first enlarge call that
    changes something or returns -/
def scanVis (g : Grid α) (c : Cav) : List (Option Face) → Nat → Bool → Scan
  | [], _, st => .none st
  | none :: t, i, st => scanVis g c t (i + 1) st
  | some f :: t, i, st =>
    if f.has c.node then scanVis g c t (i + 1) st else
    match faceVisible g c f with
    | none => .exit .invalid c
    | some true => scanVis g c t (i + 1) st
    | some false =>
      match enlargeFace g c i with
      | (.ok, c') =>
        if c'.state ≠ .unknown then .exit .ok c' else
        if c' = c then scanVis g c t (i + 1) true else .hit i c' st
      | (s, c') => .exit s c'

/-- one sweep; `adds` bounds the number of enlarge calls that change the cavity -/
def visSweep (g : Grid α) : Nat → Cav → Nat → Bool → SweepRes
  | 0, c, _, _ => .fuel c
  | k + 1, c, i, grew =>
    match scanVis g c (c.faces.rows.drop i) i false with
    | .none st => .done c (grew || st)
    | .exit s c' => .exit s c'
    | .hit j c' _ => visSweep g k c' (j + 1) true

/-- the `while (keep_growing)` loop: `some c` = loop left normally, go on with the manifold test -/
def visLoop (g : Grid α) (adds : Nat) : Nat → Cav → Res ⊕ Cav
  | 0, c => .inl (.fuel c)
  | n + 1, c =>
    match visSweep g adds c 0 false with
    | .done c' grew =>
      if !grew then .inr c' else
      if c' = c then .inl (.hang c) else visLoop g adds n c'
    | .exit s c' => .inl (.ret s c')
    | .fuel c' => .inl (.fuel c')

/-- the budgets: every sweep but the last adds a tet, and there are only so many -/
def visBudget (g : Grid α) : Nat := g.tets.slots.rows.length + 1

/-- `ref_cavity_enlarge_visible` -/
def enlargeVisible (g : Grid α) (c : Cav) : Res :=
  if !(g.nodeOwned c.node) then .ret .failure c else
  if c.state ≠ .unknown then .ret .ok c else
  match verifyFaceManifold c with
  | (.ok, c) =>
    match visLoop g (visBudget g) (visBudget g) c with
    | .inl r => r
    | .inr c =>
      if !(cavManifold g c) then .ret .ok { c with state := .manifold_constrained } else
      let r := verifyFaceManifold { c with state := .visible }
      .ret r.1 r.2
  | (s, c) => .ret s c

/-- same for `ref_cavity_enlarge_conforming`; `conf c s` = `ref_cavity_conforming(ref_cavity, seg, &conforming)` -/
def scanConf (g : Grid α) (conf : Cav → Seg → Bool) (c : Cav) : List (Option Seg) → Nat → Bool → Scan
  | [], _, st => .none st
  | none :: t, i, st => scanConf g conf c t (i + 1) st
  | some s :: t, i, st =>
    if c.segNode == s.n0 || c.segNode == s.n1 then scanConf g conf c t (i + 1) st else
    if conf c s then scanConf g conf c t (i + 1) st else
    match enlargeSeg g c i with
    | (.ok, c') =>
      if c'.state ≠ .unknown then .exit .ok c' else
      if c' = c then scanConf g conf c t (i + 1) true else .hit i c' st
    | (s, c') => .exit s c'

def confSweep (g : Grid α) (conf : Cav → Seg → Bool) : Nat → Cav → Nat → Bool → SweepRes
  | 0, c, _, _ => .fuel c
  | k + 1, c, i, grew =>
    match scanConf g conf c (c.segs.rows.drop i) i false with
    | .none st => .done c (grew || st)
    | .exit s c' => .exit s c'
    | .hit j c' _ => confSweep g conf k c' (j + 1) true

def confLoop (g : Grid α) (conf : Cav → Seg → Bool) (adds : Nat) : Nat → Cav → Res ⊕ Cav
  | 0, c => .inl (.fuel c)
  | n + 1, c =>
    match confSweep g conf adds c 0 false with
    | .done c' grew =>
      if !grew then .inr c' else
      if c' = c then .inl (.hang c) else confLoop g conf adds n c'
    | .exit s c' => .inl (.ret s c')
    | .fuel c' => .inl (.fuel c')

def confBudget (g : Grid α) : Nat := g.tris.slots.rows.length + 1

/-- `ref_cavity_enlarge_conforming` -/
def enlargeConforming (g : Grid α) (conf : Cav → Seg → Bool) (c : Cav) : Res :=
  if !(g.nodeOwned c.segNode) then .ret .failure c else
  if c.state ≠ .unknown then .ret .ok c else
  if c.segs.n = 0 ∧ c.faces.n = 0 ∧ c.triList.isEmpty ∧ c.tetList.isEmpty then .ret .ok { c with state := .noop } else
  match verifySegManifold c with
  | (.ok, c) =>
    match confLoop g conf (confBudget g) (confBudget g) c with
    | .inl r => r
    | .inr c =>
      if !(cavManifold g c) then .ret .ok { c with state := .manifold_constrained } else
      let r := verifySegManifold { c with state := .visible }
      .ret r.1 r.2
  | (s, c) => .ret s c

/-- `ref_cavity_enlarge_combined` -/
def enlargeCombined (g : Grid α) (conf : Cav → Seg → Bool) (c : Cav) : Res :=
  match enlargeConforming g conf c with
  | .ret .ok c => if c.state ≠ .visible then .ret .ok c else enlargeVisible g { c with state := .unknown }
  | r => r

end loops

/-! ### acceptance tests -/

section accept
variable [Scalar α]

/-- metric side of `REF_NODE` (the grid carries the coordinates) -/
structure Met (α : Type) where
  met : List (M6 α)
  logm : List (M6 α)

/-- the view of the nodes `ref_node_ratio` / `ref_node_tet_quality` read -/
def nodesOf (g : Grid α) (m : Met α) : Collapse.Nodes α :=
  { xyz := g.nodes.rows.map fun r => match r with | some n => n.xyz | none => V3.zero
    met := m.met, logm := m.logm
    owned := g.nodes.rows.map fun r => match r with | some n => n.owned | none => true }

/-- `ref_cavity_ratio(ref_cavity, &allowed)`: every edge from the cavity node to a live, unattached face stays inside
    `[post_min_ratio, post_max_ratio]` -/
def cavRatio (nd : Collapse.Nodes α) (postMin postMax : α) (c : Cav) : Bool :=
  c.validFaces.all fun f =>
    f.has c.node ||
    (Face.nodes f).all fun v =>
      let r := Collapse.nodeRatio nd c.node.toNat v.toNat
      !(r <. postMin || postMax <. r)

def stOf : Refine.Model.Status → St
  | .ok => .ok | .failure => .failure | .null => .null | .invalid => .invalid | .div_zero => .div_zero
  | .not_found => .not_found | .implement => .implement | .increase_limit => .increase_limit
  | .ill_conditioned => .ill_conditioned

/-- `n++; min_quality = MIN(min_quality, quality)` over a list of node quadruples, stopping at the first error -/
def minQuality (nd : Collapse.Nodes α) (minVol : α) : α → List (List Nat) → St × α
  | q, [] => (.ok, q)
  | q, ns :: rest =>
    match Collapse.tetJacQuality nd minVol ns with
    | (.ok, x) => minQuality nd minVol (Scalar.cmin q x) rest
    | (s, _) => (stOf s, q)

/-- first loop of `ref_cavity_change`: the listed tets (`ref_cell_nodes` gives `REF_INVALID` on a dead cell) -/
def delQuality (g : Grid α) (nd : Collapse.Nodes α) (minVol : α) : α → List Int → St × α
  | q, [] => (.ok, q)
  | q, cell :: rest =>
    match g.tets.get? cell with
    | none => (.invalid, q)
    | some t =>
      match Collapse.tetJacQuality nd minVol (t.nodes.map Int.toNat) with
      | (.ok, x) => delQuality g nd minVol (Scalar.cmin q x) rest
      | (s, _) => (stOf s, q)

/-- the node quadruples of the tets `ref_cavity_replace` would create -/
def addQuads (c : Cav) : List (List Nat) :=
  (c.validFaces.filter fun f => !(f.has c.node)).map fun f => [f.n0.toNat, f.n1.toNat, f.n2.toNat, c.node.toNat]

/-- `ref_cavity_change(ref_cavity, &min_del, &min_add)`; on an error return the outputs hold what the C had stored
    (`-2.0` for a slot not yet written) -/
def cavChange (g : Grid α) (nd : Collapse.Nodes α) (minVol : α) (c : Cav) : St × α × α :=
  let m2 : α := Scalar.ofInt (-2)
  let one : α := Scalar.ofInt 1
  match delQuality g nd minVol one c.tetList with
  | (.ok, minDel) =>
    match minQuality nd minVol one (addQuads c) with
    | (.ok, minAdd) => (.ok, minDel, minAdd)
    | (s, _) => (s, minDel, m2)
  | (s, _) => (s, m2, m2)

/-- `ref_cavity_normdev` without a CAD model: `ref_geom_tri_norm_deviation` fails on the first listed tri
    (`REF_NOT_FOUND` from `ref_geom_cell_tuv`, or succeeds with `-2.0` on a zero-area tri — not modelled: the
    status is a parameter); with an empty `tri_list` the seg loop answers "not improved" at the first unattached
    seg, and `2.0 > 2.0` is false otherwise -/
def cavNormdevNoGeom (triStatus : St) (c : Cav) : St × Bool :=
  if !c.triList.isEmpty then (triStatus, true) else (.ok, false)

end accept

/-! ### callers: from `ref_cavity_create` to `ref_cavity_free` -/

section callers
variable [Scalar α]

/-- thresholds of `ref_grid_adapt` read by the cavity callers -/
structure Adapt (α : Type) where
  postMin : α
  postMax : α
  swapMinQuality : α
  swapMaxDegree : Nat
  collapseQualityAbsolute : α
  splitQualityAbsolute : α

/-- one candidate of `ref_cavity_swap_tet_pass` after the gates: `some min_add` = candidate accepted for the
    `best` competition (`min_add - min_del > 0.0001`); a status other than ok is an `RSS` failure that ends the pass -/
def swapTetTrial (g : Grid α) (nd : Collapse.Nodes α) (a : Adapt α) (n0 n1 n2 : Int) : St × Option α :=
  match formEdgeSwap g Cav.create n0 n1 n2 with
  | (.ok, c) =>
    if c.state = .inconsistent then (.ok, none) else
    match checkVisible g c with
    | (.ok, c) =>
      if c.state ≠ .visible then (.ok, none) else
      if !(cavRatio nd a.postMin a.postMax c) then (.ok, none) else
      match cavChange g nd minVolume c with
      | (.ok, minDel, minAdd) =>
        if Scalar.ofDec 1 (-4) <. (minAdd -. minDel) then (.ok, some minAdd) else (.ok, none)
      | (s, _, _) => (s, none)
    | _ => (.ok, none)
  | _ => (.ok, none)

/-- the twelve (edge, node) choices of a tet, `others[12][3]` -/
def others12 : List (Nat × Nat × Nat) :=
  [(0, 1, 2), (0, 1, 3), (0, 2, 1), (0, 2, 3), (0, 3, 1), (0, 3, 2),
   (1, 2, 0), (1, 2, 3), (1, 3, 0), (1, 3, 2), (2, 3, 0), (2, 3, 1)]

/-- `ref_cell_local_gem(tet, node0, node1)` -/
def localGem (g : Grid α) (n0 n1 : Int) : Bool :=
  (g.tets.having2 Tet.nodes n0 n1).all fun p => p.2.nodes.all g.nodeOwned

/-- the `best` selection: first strictly larger `min_add` wins; `(status, best, best_other)` -/
def swapTetBest (g : Grid α) (nd : Collapse.Nodes α) (a : Adapt α) (gate : Int → Int → Bool) (t : Tet) :
    St × Option (Int × Int × Int) :=
  let pick := others12.foldl (fun (acc : St × Option (Int × Int × Int) × α) o =>
    if acc.1 ≠ .ok then acc else
    let e0 := t.nodes.getD o.1 (-1); let e1 := t.nodes.getD o.2.1 (-1); let e2 := t.nodes.getD o.2.2 (-1)
    if !(gate e0 e1) then acc else
    if !(localGem g e0 e1) then acc else
    if (g.tets.having2 Tet.nodes e0 e1).length > a.swapMaxDegree then acc else
    match swapTetTrial g nd a e0 e1 e2 with
    | (.ok, some q) => if acc.2.2 <. q then (.ok, some (e0, e1, e2), q) else acc
    | (.ok, none) => acc
    | (s, _) => (s, acc.2))
    ((.ok : St), (none : Option (Int × Int × Int)), (Scalar.ofInt (-2) : α))
  (pick.1, pick.2.1)

/-- loop body of `ref_cavity_swap_tet_pass` for one tet whose quality is below `swap_min_quality`
    (`gate n0 n1` = `ref_cavity_mixed && ref_cavity_edge_swap_boundary`): the grid after the body.
    The status is that of the `RSS`-guarded calls. -/
def swapTetCell (g : Grid α) (nd : Collapse.Nodes α) (a : Adapt α) (gate : Int → Int → Bool) (t : Tet) :
    St × Grid α :=
  match swapTetBest g nd a gate t with
  | (.ok, none) => (.ok, g)
  | (.ok, some (e0, e1, e2)) =>
    match formEdgeSwap g Cav.create e0 e1 e2 with
    | (.ok, c) =>
      match checkVisible g c with
      | (.ok, c) => let r := replace g c; (r.1, r.2.2)
      | (s, _) => (s, g)
    | (s, _) => (s, g)
  | (s, _) => (s, g)

/-- the `!allowed` branch of `ref_collapse_to_remove_node1` for one candidate `node0`: `(status, replaced, grid)` -/
def collapseCavityPath (g : Grid α) (nd : Collapse.Nodes α) (a : Adapt α) (n0 n1 : Int) : St × Bool × Grid α :=
  match formEdgeCollapse g Cav.create n0 n1 with
  | (.ok, c) =>
    if c.state = .inconsistent then (.ok, false, g) else
    match enlargeVisible g c with
    | .ret .ok c =>
      if c.state ≠ .visible then (.ok, false, g) else
      match cavChange g nd minVolume c with
      | (.ok, _, minAdd) =>
        if cavRatio nd a.postMin a.postMax c && (a.collapseQualityAbsolute <. minAdd) then
          let r := replace g c
          (r.1, r.1 == .ok, r.2.2)
        else (.ok, false, g)
      | (s, _, _) => (s, false, g)
    | .ret s _ => (s, false, g)
    | _ => (.failure, false, g)
  | _ => (.ok, false, g)

/-- the `try_cavity` branch of `ref_split_pass` between `ref_cavity_create` and `ref_cavity_free` (the trial vertex
    `newNode` is removed by the caller when `replaced = false`) -/
def splitCavityPath (g : Grid α) (nd : Collapse.Nodes α) (a : Adapt α) (conf : Cav → Seg → Bool) (hasEdge : Bool)
    (n0 n1 newNode : Int) : St × Bool × Grid α :=
  match formEdgeSplit g Cav.create n0 n1 newNode with
  | (.ok, c) =>
    -- a failing `enlarge_combined` is noted and skipped (`REF_WHERE`), the state decides
    let c' := match enlargeCombined g conf c with
      | .ret _ c' => some c'
      | _ => none
    match c' with
    | none => (.failure, false, g)
    | some c =>
      if c.state ≠ .visible then (.ok, false, g) else
      match cavChange g nd minVolume c with
      | (.ok, _, minAdd) =>
        if (cavRatio nd a.postMin a.postMax c || hasEdge) && (a.splitQualityAbsolute <. minAdd) then
          let r := replace g c
          (r.1, r.1 == .ok, r.2.2)
        else (.ok, false, g)
      | (s, _, _) => (s, false, g)
  | (s, _) => (s, false, g)

end callers

end Refine.Model.Cavity2
