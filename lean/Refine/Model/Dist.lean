import Refine.Model.NodeIds
import Refine.Model.Comm

/-!
  L3 Dist (DESIGN.md section 5): the distributed mesh as a `World` of per-rank states.

  * `syncGlobals = eliminateUnused ∘ shiftNew` : `ref_node_synchronize_globals`
    (`ref_node_shift_new_globals`, `ref_node_eliminate_unused_globals` with the active-part slices of
    `ref_node_eliminate_active_parts` and the two-pointer walk of `ref_node_eliminate_unused_offset`),
    acting on the per-rank id bookkeeping `NodeIds` of `Refine.Model.NodeIds` (same struct fields as the C).
    The collectives are the ones of `Refine.Model.Comm` (`allgather`, `allgatherv`).
  * `cellPartNode` / `cellOwner` : `ref_cell_part_cell_node` / `ref_cell_part`.
  * `ghost` : `ref_node_ghost_int / _glob / _dbl` (request by `alltoall` + `alltoallv` of the ghost globals
    bucketed by owner, reply by a second `alltoallv`).
  * `distInv` : the executable C06 invariant on a dumped world; `shufflinSpec` the post-condition of
    `ref_migrate_shufflin` as a definition.

  Core-only (linked into `refdrv`).  Theorems: `Refine/Lemmas/Dist*.lean`, `Refine/Props/C06.lean`.
-/
namespace Refine.Model.Dist
open Refine.Model.NodeIds
open Refine.Model.Comm (World isum RefType GatherV A2A)

/-! ## `ref_node_shift_new_globals` -/

/-- `new_nodes = (REF_INT)(new_n_global - old_n_global)` -/
def newNodes (s : NodeIds) : Int := s.newN - s.oldN

/-- `for (node = n-1; node >= 0 && sorted_global[node] >= old_n_global; node--) sorted_global[node] += offset` -/
def shiftTail (old off : Int) (sorted : List (Int × Nat)) : List (Int × Nat) :=
  let r := sorted.reverse
  let k := (r.takeWhile fun e => decide (e.1 ≥ old)).length
  ((r.take k).map (fun e => (e.1 + off, e.2)) ++ r.drop k).reverse

/-- one rank of `ref_node_shift_new_globals`, given the gathered `everyones_new_nodes` -/
def shiftRank (everyones : List Int) (rank : Nat) (s : NodeIds) : NodeIds :=
  let offset := isum (everyones.take rank)
  let total := isum everyones
  let s1 : NodeIds :=
    if offset ≠ 0 then
      { s with global := s.global.map fun g => if g ≥ 0 ∧ g ≥ s.oldN then g + offset else g,
               sorted := shiftTail s.oldN offset s.sorted,
               unusedStk := s.unusedStk.map fun u => if u ≥ s.oldN then u + offset else u }
    else s
  s1.initNGlobal (total + s.oldN)

/-- `ref_node_shift_new_globals` on every rank (`ref_mpi_allgather` of the per-rank fresh-id counts) -/
def shiftNew (w : World NodeIds) : World NodeIds :=
  let ag := Refine.Model.Comm.allgather RefType.int (w.map newNodes)
  (w.zip ag).mapIdx fun r sa => shiftRank sa.2.2 r sa.1

/-! ## `ref_node_eliminate_unused_globals` -/

/-- `ref_sort_in_place_glob`: the sorted value list (the permutation used does not matter for values) -/
def sortGlob (xs : List Int) : List Int :=
  if NodeIds.isNondecr xs then xs else xs.mergeSort fun a b => decide (a ≤ b)

/-- `ref_node_eliminate_unused_offset`: `offset` only grows; `rest` is `sorted_unused[offset..)`:
    `while (offset < nunused && sorted_unused[offset] < sorted_globals[i]) offset++; sorted_globals[i] -= offset` -/
def elimOffsetGo : List Int → Int → List Int → List Int
  | _, _, [] => []
  | rest, off, g :: gs =>
    let k := (rest.takeWhile fun u => decide (u < g)).length
    (g - (off + (k : Int))) :: elimOffsetGo (rest.drop k) (off + (k : Int)) gs

def elimOffset (globals unused : List Int) : List Int := elimOffsetGo unused 0 globals

/-- the `while` of `ref_node_eliminate_active_parts` -/
def activeGo (counts : List Int) (chunk : Int) : Nat → Nat → Int → Nat × Int
  | 0, a1, na => (a1, na)
  | fuel + 1, a1, na =>
    if a1 < counts.length ∧ na + counts.getD a1 0 ≤ chunk then
      activeGo counts chunk fuel (a1 + 1) (na + counts.getD a1 0)
    else (a1, na)

/-- `ref_node_eliminate_active_parts(n, counts, chunk, active0, &active1, &nactive)` with `n = |counts|` -/
def activeParts (counts : List Int) (chunk : Int) (a0 : Nat) : Nat × Int :=
  activeGo counts chunk counts.length (a0 + 1) (counts.getD a0 0)

/-- what one rank carries through the slice loop: `sorted_global[0..n)` and `unused_global[0..n_unused)` -/
structure ElimSt where
  keys : List Int
  unused : List Int
  deriving Repr, DecidableEq

/-- `active_counts[part] = counts[part]` inside `[active0, active1)`, else 0 -/
def activeCounts (counts : List Int) (a0 a1 : Nat) : List Int :=
  counts.mapIdx fun p c => if a0 ≤ p ∧ p < a1 then c else 0

/-- `ref_mpi_allgatherv(unused_global, active_counts, unused)`: what every rank receives
    (MPI sends the first `active_counts[rank]` elements of the rank's array) -/
def gatherActive (counts : List Int) (a0 a1 : Nat) (w : World ElimSt) : World (List Int) :=
  let ac := activeCounts counts a0 a1
  let total := isum ((ac.drop a0).take (a1 - a0))
  let args : World (GatherV Int) := w.mapIdx fun r s =>
    ⟨s.unused.take (ac.getD r 0).toNat, ac, List.replicate total.toNat 0⟩
  match Refine.Model.Comm.allgatherv RefType.long args with
  | some res => res.map (·.2)
  | none => w.map fun _ => []

/-- one trip of the `while (active0 < n)` loop for the slice `[active0, active1)` -/
def sliceStep (counts : List Int) (a0 a1 : Nat) (w : World ElimSt) : World ElimSt :=
  let bufs := gatherActive counts a0 a1 w
  (w.zip bufs).mapIdx fun r sb =>
    let u := sortGlob sb.2
    let mine : List Int := if a0 ≤ r ∧ r < a1 then [] else sb.1.unused
    { keys := elimOffset sb.1.keys u, unused := elimOffset mine u }

/-- the slice loop; `fuel` bounds the number of slices (each has at least one rank) -/
def elimLoop (counts : List Int) (chunk : Int) : Nat → Nat → World ElimSt → World ElimSt
  | 0, _, w => w
  | fuel + 1, a0, w =>
    if a0 < counts.length then
      let a1 := (activeParts counts chunk a0).1
      elimLoop counts chunk fuel a1 (sliceStep counts a0 a1 w)
    else w

/-- `chunk = MAX((REF_INT)(total_unused / n + 1), 100000)` -/
def chunkOf (totalUnused : Int) (np : Nat) : Int :=
  max (Int.tdiv totalUnused (np : Int) + 1) 100000

/-- `global[sorted_local[i]] = sorted_global[i]` for `i < n` -/
def writeBack (global : List Int) (sorted : List (Int × Nat)) : List Int :=
  sorted.foldl (fun g e => g.set e.2 e.1) global

/-- `unused_global[0..n_unused)` in array order (the `NodeIds` model keeps it as a stack) -/
def unusedArr (s : NodeIds) : List Int := s.unusedStk.reverse

/-- every rank computes the same `counts`; rank 0's copy drives the (identical) loop -/
def headCounts (ag : List (Refine.Model.Comm.Status × List Int)) : List Int :=
  match ag with
  | [] => []
  | a :: _ => a.2

/-- `ref_node_eliminate_unused_globals` on every rank -/
def eliminateUnused (w : World NodeIds) : World NodeIds :=
  let st0 : World ElimSt := w.map fun s => ⟨s.keys, sortGlob (unusedArr s)⟩
  let ag := Refine.Model.Comm.allgather RefType.int (w.map fun s => (s.nUnused : Int))
  let counts : List Int := headCounts ag
  let totalUnused := isum counts
  let chunk := chunkOf totalUnused w.length
  let st := elimLoop counts chunk w.length 0 st0
  (w.zip st).map fun se =>
    let s := se.1
    let sorted' := (se.2.keys.zip s.sorted).map fun ke => (ke.1, ke.2.2)
    ({ s with sorted := sorted', global := writeBack s.global sorted',
              unusedStk := se.2.unused.reverse }).initNGlobal (s.oldN - totalUnused)

/-- `ref_node_synchronize_globals` -/
def syncGlobals (w : World NodeIds) : World NodeIds := eliminateUnused (shiftNew w)

/-- `(local slot, global id)` of the live slots, slot order -/
def liveTable (s : NodeIds) : List (Nat × Int) :=
  (s.global.zipIdx.filter fun gv => decide (gv.1 ≥ 0)).map fun gv => (gv.2, gv.1)

/-! ## `ref_cell_part` -/

/-- `ref_cell_part_cell_node`: index of the first smallest global among the cell's `node_per` vertices
    (`if (global < smallest_global)`, strict: the first of equal ones wins) -/
def cellPartNodeGo : List Int → Nat → Int → Nat → Nat
  | [], _, _, best => best
  | g :: gs, i, small, best => if g < small then cellPartNodeGo gs (i + 1) g i else cellPartNodeGo gs (i + 1) small best

def cellPartNode (globals : List Int) : Nat :=
  match globals with
  | [] => 0
  | g :: gs => cellPartNodeGo gs 1 g 0

/-- `ref_cell_part`: part of the vertex with the smallest global; the argument lists the cell's vertices as
    `(global, part)` -/
def cellOwner (verts : List (Int × Int)) : Int :=
  (verts.getD (cellPartNode (verts.map (·.1))) (0, -1)).2

/-! ## `ref_node_ghost_int / _glob / _dbl` -/

/-- one vertex held by a rank: global id, `part`, and the `ldim` entries of the vector being refreshed -/
structure GNode (β : Type) where
  glob : Int
  part : Int
  vals : List β
  deriving Repr, DecidableEq

/-- the ghost globals of rank `me` bucketed by owner, in slot order inside a bucket (`a_global` after the
    `a_next` fill) -/
def ghostBuckets {β : Type} (np : Nat) (me : Nat) (nodes : List (GNode β)) : List (List Int) :=
  (List.range np).map fun (p : Nat) =>
    (nodes.filter fun nd => nd.part != (me : Int) && nd.part == (p : Int)).map (·.glob)

/-- `ref_node_local` on the rank's table: the first entry with that global -/
def lookupVals {β : Type} (nodes : List (GNode β)) (g : Int) : Option (List β) :=
  (nodes.find? fun nd => nd.glob == g).map (·.vals)

/-- store `vals` on the entry with global `g` -/
def storeVals {β : Type} (nodes : List (GNode β)) (g : Int) (vals : List β) : List (GNode β) :=
  match nodes.findIdx? fun nd => nd.glob == g with
  | some i => nodes.modify i fun nd => { nd with vals := vals }
  | none => nodes

/-- split a flat buffer into items of `ldim` scalars -/
def chunks {β : Type} (ldim : Nat) : Nat → List β → List (List β)
  | 0, _ => []
  | n + 1, xs => xs.take ldim :: chunks ldim n (xs.drop ldim)

/-- `ref_node_ghost_*` on every rank (parallel path, `a_total`, `b_total` below `REF_INT_MAX/ldim`).
    `none`: some rank fails `ref_node_local` on a requested global (returns early, the others block),
    or the exchange itself does not complete. -/
def ghost {β : Type} [Inhabited β] (ty : RefType) (ldim : Nat) (w : World (List (GNode β))) :
    Option (World (List (GNode β))) :=
  let np := w.length
  if np ≤ 1 then some w else
  let buckets : World (List (List Int)) := w.mapIdx fun r nodes => ghostBuckets np r nodes
  let aSize : World (List Int) := buckets.map fun b => b.map fun l => (l.length : Int)
  let bSize := Refine.Model.Comm.mpiAlltoall aSize
  let args1 : World (A2A Int) := (buckets.zip (aSize.zip bSize)).map fun x =>
    ⟨x.1.flatten, x.2.1, List.replicate (isum x.2.2).toNat 0, x.2.2⟩
  match Refine.Model.Comm.alltoallv false RefType.long 0 1 args1 with
  | none => none
  | some r1 =>
    let bGlobal : World (List Int) := r1.map (·.2)
    -- owner side: `b_vector[i + ldim*node] = vector[i + ldim*local]`
    let bVec : World (Option (List β)) := (w.zip bGlobal).map fun x =>
      (x.2.mapM fun g => lookupVals x.1 g).map List.flatten
    if bVec.any Option.isNone then none else
    let args2 : World (A2A β) := (bVec.zip (aSize.zip bSize)).map fun x =>
      ⟨x.1.getD [], x.2.2, List.replicate (ldim * (isum x.2.1).toNat) default, x.2.1⟩
    match Refine.Model.Comm.alltoallv false ty 0 (ldim : Int) args2 with
    | none => none
    | some r2 =>
      some ((w.zip (buckets.zip r2)).map fun x =>
        let aGlobal := x.2.1.flatten
        let items := chunks ldim aGlobal.length x.2.2.2
        (aGlobal.zip items).foldl (fun nodes gi => storeVals nodes gi.1 gi.2) x.1)

/-! ## the distributed-mesh invariant (evaluated on dumps of the implementation's state) -/

/-- a vertex as dumped: global, part, payload (xyz, metric, aux as 64-bit patterns) -/
structure DNode where
  glob : Int
  part : Int
  payload : List Nat
  deriving Repr, DecidableEq

/-- a cell as dumped: cell group, vertex globals in cell order, id (0 when the group has none) -/
structure DCell where
  group : Nat
  nodes : List Int
  id : Int
  deriving Repr, DecidableEq

structure RankState where
  nodes : List DNode
  cells : List DCell
  /-- `old_n_global`, `new_n_global`, `n_unused` -/
  oldN : Int
  newN : Int
  nUnused : Nat
  deriving Repr, DecidableEq

def RankState.partOf (s : RankState) (g : Int) : Option Int :=
  (s.nodes.find? fun nd => nd.glob == g).map (·.part)

def RankState.has (s : RankState) (g : Int) : Bool := s.nodes.any fun nd => nd.glob == g

def RankState.ownedNodes (s : RankState) (r : Nat) : List DNode := s.nodes.filter fun nd => nd.part == (r : Int)

/-- the cell's vertices as `(global, part)` read from the rank's own table (`-1` part when missing) -/
def RankState.cellVerts (s : RankState) (c : DCell) : List (Int × Int) :=
  c.nodes.map fun g => (g, (s.partOf g).getD (-1))

def RankState.ownerOf (s : RankState) (c : DCell) : Int := cellOwner (s.cellVerts c)

def RankState.ownedCells (s : RankState) (r : Nat) : List DCell :=
  s.cells.filter fun c => s.ownerOf c == (r : Int)

def nodupB {α : Type} [BEq α] : List α → Bool
  | [] => true
  | x :: xs => !xs.contains x && nodupB xs

/-- ids are synchronised: no rank holds unused or fresh ids -/
def synced (w : World RankState) : Bool :=
  w.all fun s => s.nUnused == 0 && s.oldN == s.newN

/-- clause (o): per-rank well-formedness: globals distinct and non-negative, parts in range, stored cells distinct -/
def clauseLocal (w : World RankState) : Bool :=
  w.all fun s =>
    nodupB (s.nodes.map (·.glob)) && nodupB s.cells &&
    s.nodes.all fun nd => decide (0 ≤ nd.glob) && decide (0 ≤ nd.part) && decide (nd.part < (w.length : Int))

/-- clause (i): every stored vertex has exactly one owner: the rank named by `part` stores it with the same
    `part` (so all copies agree and the owner's copy is owned) -/
def clauseOwner (w : World RankState) : Bool :=
  w.all fun s => s.nodes.all fun nd =>
    match w[nd.part.toNat]? with
    | some o => o.partOf nd.glob == some nd.part
    | none => false

/-- clause (ii): rank r stores cell c iff some vertex of c has `part = r` -/
def clauseCells (w : World RankState) : Bool :=
  (w.zipIdx.all fun sr =>
    sr.1.cells.all fun c =>
      -- stored => touches an owned vertex; every vertex is stored
      (c.nodes.all fun g => sr.1.has g) &&
      (sr.1.cellVerts c).any (fun gp => gp.2 == (sr.2 : Int)) &&
      -- every rank owning one of its vertices stores it too
      (sr.1.cellVerts c).all fun gp =>
        match w[gp.2.toNat]? with
        | some o => o.cells.contains c
        | none => false)

/-- clause (iii): rank r stores vertex v iff v is owned by r or is a vertex of a stored cell
    (the `if` direction for cell vertices is in `clauseCells`, for owned vertices in `clauseOwner`) -/
def clauseVerts (w : World RankState) : Bool :=
  w.zipIdx.all fun sr =>
    sr.1.nodes.all fun nd =>
      nd.part == (sr.2 : Int) || sr.1.cells.any fun c => c.nodes.contains nd.glob

/-- clause (iv): a ghost copy carries the owner's payload -/
def clauseGhost (w : World RankState) : Bool :=
  w.zipIdx.all fun sr =>
    sr.1.nodes.all fun nd =>
      nd.part == (sr.2 : Int) ||
      match w[nd.part.toNat]? with
      | some o => (o.nodes.find? fun od => od.glob == nd.glob).map (·.payload) == some nd.payload
      | none => false

/-- clause (v): the owner computed for a stored cell is a rank that stores it and computes the same owner -/
def clauseCellOwner (w : World RankState) : Bool :=
  w.all fun s => s.cells.all fun c =>
    let o := s.ownerOf c
    match w[o.toNat]? with
    | some os => decide (0 ≤ o) && os.cells.contains c && os.ownerOf c == o
    | none => false

def ownedGlobals (w : World RankState) : List Int :=
  (w.zipIdx.map fun sr => (sr.1.ownedNodes sr.2).map (·.glob)).flatten

def ownedCellsAll (w : World RankState) : List DCell :=
  (w.zipIdx.map fun sr => sr.1.ownedCells sr.2).flatten

def allCells (w : World RankState) : List DCell := (w.map (·.cells)).flatten.eraseDups

/-- counts and ids: owned globals are pairwise distinct; when synchronised every rank has the same `n_global`,
    equal to the number of owned vertices, and the owned globals are exactly `0 .. n_global-1`;
    the owned cells are pairwise distinct and as many as there are distinct cells -/
def clauseCounts (w : World RankState) : Bool :=
  let og := ownedGlobals w
  nodupB og &&
  nodupB (ownedCellsAll w) && (ownedCellsAll w).length == (allCells w).length &&
  (!synced w ||
    (w.all fun s => s.newN == (og.length : Int)) &&
    (sortGlob og == (List.range og.length).map fun (i : Nat) => (i : Int)))

/-- name of the first failing clause, or `none` -/
def distCheck (w : World RankState) : Option String :=
  if !clauseLocal w then some "local"
  else if !clauseOwner w then some "owner"
  else if !clauseCells w then some "cells"
  else if !clauseVerts w then some "verts"
  else if !clauseGhost w then some "ghost"
  else if !clauseCellOwner w then some "cellowner"
  else if !clauseCounts w then some "counts"
  else none

def distInv (w : World RankState) : Bool :=
  clauseLocal w && clauseOwner w && clauseCells w && clauseVerts w && clauseGhost w && clauseCellOwner w &&
  clauseCounts w

end Refine.Model.Dist
