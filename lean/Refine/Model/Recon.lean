import Refine.Model.Geom

/-!
  L2-projection gradient / Hessian reconstruction core of `ref_recon.c`
  (`ref_recon_l2_projection_grad`, `ref_recon_l2_projection_hessian`), serial part:
  per-simplex gradient (`tetGradNodes` / `triGradNodes`), signed volume/area-weighted accumulation to
  the simplex's vertices, division by the accumulated weight under the `ref_math_divisible` guard,
  and the fixed tet decompositions of pyramids, prisms and hexes (triangle split of quads in 2-D).
  Generic over `Scalar`; accumulation order = the C's (cell groups tet,pyr,pri,hex; cells in index
  order; sub-tets in source order), so the `Float` instance is bit-identical.
  Not modelled: the ghost exchange (`ref_node_ghost_dbl`) and `ref_mpi_all_or` (serial: identity).
-/
namespace Refine.Model.Recon
open Refine Refine.Model.Geom

variable {α : Type} [Scalar α]

/-- per-node accumulators: `grad[0..2 + 3*node]` and `vol[node]` -/
structure NodeAcc (α : Type) where
  gx : α
  gy : α
  gz : α
  w : α

def NodeAcc.zero : NodeAcc α := ⟨lit0, lit0, lit0, lit0⟩

/-- `grad[i+3*node] += cell_vol*cell_grad[i]; vol[node] += cell_vol` -/
def NodeAcc.add (x : NodeAcc α) (vol : α) (g : V3 α) : NodeAcc α :=
  ⟨x.gx +. vol *. g.x, x.gy +. vol *. g.y, x.gz +. vol *. g.z, x.w +. vol⟩

/-- what one simplex contributes: its vertices, the two statuses folded into one, weight, gradient -/
structure Contrib (α : Type) where
  nodes : List Nat
  st : St
  w : α
  g : V3 α

def scatter (acc : List (NodeAcc α)) (nodes : List Nat) (w : α) (g : V3 α) : List (NodeAcc α) :=
  nodes.foldl (fun a i => a.modify i (fun x => x.add w g)) acc

/-- a simplex is skipped (with a printf in the C) unless both statuses are `REF_SUCCESS` -/
def accumulate (acc : List (NodeAcc α)) (cs : List (Contrib α)) : List (NodeAcc α) :=
  cs.foldl (fun a c => if c.st = St.ok then scatter a c.nodes c.w c.g else a) acc

/-- the final loop over nodes: divide by the total weight if divisible, else zero + flag -/
def finishNode (x : NodeAcc α) : Bool × V3 α :=
  if Scalar.divisible x.gx x.w && Scalar.divisible x.gy x.w && Scalar.divisible x.gz x.w then
    (false, ⟨x.gx /. x.w, x.gy /. x.w, x.gz /. x.w⟩)
  else (true, V3.zero)

/-- L2 projection from an explicit list of simplex contributions over `n` nodes:
    status (`div_zero` if some node's total weight is not divisible) and the nodal gradients -/
def project (n : Nat) (cs : List (Contrib α)) : St × List (V3 α) :=
  let fin := (accumulate (List.replicate n NodeAcc.zero) cs).map finishNode
  (if fin.any (·.1) then St.divZero else St.ok, fin.map (·.2))

structure Tet where
  n0 : Nat
  n1 : Nat
  n2 : Nat
  n3 : Nat
  deriving Repr, DecidableEq

structure Tri where
  n0 : Nat
  n1 : Nat
  n2 : Nat
  deriving Repr, DecidableEq

inductive CellKind where
  | tri | qua | tet | pyr | pri | hex
  deriving DecidableEq, Repr

structure Cell where
  kind : CellKind
  nodes : List Nat

@[inline] def xyzAt (xyz : List (V3 α)) (i : Nat) : V3 α := xyz.getD i V3.zero
@[inline] def sAt (s : List α) (i : Nat) : α := s.getD i lit0

def tetContrib (xyz : List (V3 α)) (s : List α) (t : Tet) : Contrib α :=
  let x0 := xyzAt xyz t.n0
  let x1 := xyzAt xyz t.n1
  let x2 := xyzAt xyz t.n2
  let x3 := xyzAt xyz t.n3
  let r := tetGradNodes x0 x1 x2 x3 (sAt s t.n0) (sAt s t.n1) (sAt s t.n2) (sAt s t.n3)
  ⟨[t.n0, t.n1, t.n2, t.n3], r.1, tetVol x0 x1 x2 x3, r.2⟩

def triContrib (xyz : List (V3 α)) (s : List α) (t : Tri) : Contrib α :=
  let x0 := xyzAt xyz t.n0
  let x1 := xyzAt xyz t.n1
  let x2 := xyzAt xyz t.n2
  let r := triGradNodes x0 x1 x2 (sAt s t.n0) (sAt s t.n1) (sAt s t.n2)
  ⟨[t.n0, t.n1, t.n2], r.1, triArea x0 x1 x2, r.2⟩

/-- the tet decomposition of `ref_recon_l2_projection_grad` for a prism given by its 6 nodes -/
def priTets (p : Nat → Nat) : List Tet :=
  [⟨p 0, p 4, p 5, p 3⟩, ⟨p 0, p 1, p 5, p 4⟩, ⟨p 0, p 1, p 2, p 5⟩]

/-- sub-tets of one 3-D cell, in the order the C visits them -/
def subTets (c : Cell) : List Tet :=
  let n (k : Nat) : Nat := c.nodes.getD k 0
  match c.kind with
  | .tet => [⟨n 0, n 1, n 2, n 3⟩]
  | .pri => priTets n
  | .pyr => [⟨n 0, n 4, n 1, n 2⟩, ⟨n 0, n 3, n 4, n 2⟩]
  | .hex =>
    -- two prisms: (1,0,4,2,3,7) and (1,4,5,2,7,6)
    let p1 : Nat → Nat := fun k => [n 1, n 0, n 4, n 2, n 3, n 7].getD k 0
    let p2 : Nat → Nat := fun k => [n 1, n 4, n 5, n 2, n 7, n 6].getD k 0
    priTets p1 ++ priTets p2
  | _ => []

/-- triangles of one 2-D cell (quads split along the 0-2 diagonal) -/
def subTris (c : Cell) : List Tri :=
  let n (k : Nat) : Nat := c.nodes.getD k 0
  match c.kind with
  | .tri => [⟨n 0, n 1, n 2⟩]
  | .qua => [⟨n 0, n 1, n 2⟩, ⟨n 0, n 2, n 3⟩]
  | _ => []

def ofKind (k : CellKind) (cells : List Cell) : List Cell := cells.filter (fun c => c.kind = k)

/-- all sub-tets in the C's visiting order: groups tet, pyr, pri, hex -/
def allTets (cells : List Cell) : List Tet :=
  (ofKind .tet cells ++ ofKind .pyr cells ++ ofKind .pri cells ++ ofKind .hex cells).flatMap subTets

/-- all triangles in the C's visiting order (2-D): tri then qua -/
def allTris (cells : List Cell) : List Tri :=
  (ofKind .tri cells ++ ofKind .qua cells).flatMap subTris

/-- `ref_recon_l2_projection_grad` on an explicit list of tets (any decomposition) -/
def l2gradTets (xyz : List (V3 α)) (s : List α) (ts : List Tet) : St × List (V3 α) :=
  project xyz.length (ts.map (tetContrib xyz s))

def l2gradTris (xyz : List (V3 α)) (s : List α) (ts : List Tri) : St × List (V3 α) :=
  project xyz.length (ts.map (triContrib xyz s))

/-- `ref_recon_l2_projection_grad` (serial) -/
def l2grad (twod : Bool) (xyz : List (V3 α)) (s : List α) (cells : List Cell) : St × List (V3 α) :=
  if twod then l2gradTris xyz s (allTris cells) else l2gradTets xyz s (allTets cells)

/-- `ref_recon_l2_projection_hessian` from any gradient operator `G` (`RXS` lets `div_zero` through):
    project the projected gradient, average the off-diagonals -/
def hessianOf (G : List α → St × List (V3 α)) (s : List α) : List (M6 α) :=
  let grad := (G s).2
  let gradx := (G (grad.map (·.x))).2
  let grady := (G (grad.map (·.y))).2
  let gradz := (G (grad.map (·.z))).2
  (List.range grad.length).map fun i =>
    let gx := gradx.getD i V3.zero
    let gy := grady.getD i V3.zero
    let gz := gradz.getD i V3.zero
    (⟨gx.x, half *. (gx.y +. gy.x), half *. (gx.z +. gz.x), gy.y, half *. (gy.z +. gz.y), gz.z⟩ : M6 α)

def l2hessian (twod : Bool) (xyz : List (V3 α)) (s : List α) (cells : List Cell) : List (M6 α) :=
  hessianOf (fun f => l2grad twod xyz f cells) s

end Refine.Model.Recon
