import Refine.Model.Geom
import Refine.Model.Matrix

/-!
  k-exact (least-squares quadratic) reconstruction of `ref_recon.c`, serial part, generic over `Scalar`:

  * `store` / `grow` — `ref_cloud_store` (sorted by global id, equal id replaces the payload) and
    `ref_recon_grow_cloud_one_layer`; `oneLayer` — `ref_recon_local_immediate_cloud`;
  * `geomRow`, `twodRows`, `rowsOf` — the rows of the least-squares system built in
    `ref_recon_kexact_with_aux`: 9 columns `½dx², dx·dy, dx·dz, ½dy², dy·dz, ½dz², dx, dy, dz`, right-hand side
    `f(nb) − f(centre)`, four fixed phantom rows first when `twod`;
  * `qr` — `ref_matrix_qr` exactly as coded (column k normalised by `sqrt(Σ q²)` under the per-element
    `ref_math_divisible` guard; `r[k,j] = Σ a[i,j]·q[i,k]` with the ORIGINAL column `a_j`, then
    `q_j -= r[k,j]·q_k`), all sums accumulated from `0.0` in row order;
  * `solveAb` — `ref_matrix_solve_ab` with `cols = rows+1`: partial pivoting (first strict maximum), row
    exchange, pivot-row normalisation under the divisible guard and the `1.0e-13` ill-conditioning flag,
    elimination, back substitution;
  * `lsq` — the chain `A → (Q,R)`, `c = Qᵀb`, `solveAb [R|c]` shared by `kexact_with_aux` and `kexact_center`;
  * `kexactWithAux`, `kexactNode` (layers 2..8 of cloud growth; first `ok` wins; `not_found` = isolated vertex;
    anything else after layer 8 leaves zeros), `kexactGradHess`, `signedHessian`, `absHessian`/`hessian`
    (`ref_recon_abs_value_hessian` through `Matrix.diagM`/`formM`), `kexactCenter`.

  Not modelled: `ref_recon_ghost_cloud` / `ref_node_ghost_dbl` (serial: identity), `ref_recon_extrapolate_kexact`.
-/
namespace Refine.Model.Kexact
open Refine Refine.Model.Geom

variable {α : Type} [Scalar α]

/-- the `REF_STATUS` values on this path -/
inductive KSt where
  | ok | divZero | notFound | illConditioned | failure | invalid
  deriving DecidableEq, Repr

def KSt.name : KSt → String
  | .ok => "ok" | .divZero => "div_zero" | .notFound => "not_found"
  | .illConditioned => "ill_conditioned" | .failure => "failure" | .invalid => "invalid"

/-! ### ref_cloud -/

/-- one cloud entry: global id and `aux[0..3]` = x, y, z, value -/
structure Item (α : Type) where
  g : Int
  x : α
  y : α
  z : α
  s : α

/-- `ref_cloud_store` on a cloud kept sorted by global id: an equal id has its payload replaced -/
def store : List (Item α) → Item α → List (Item α)
  | [], it => [it]
  | h :: t, it =>
    if h.g == it.g then it :: t
    else if it.g < h.g then it :: h :: t
    else h :: store t it

def storeAll (c : List (Item α)) (its : List (Item α)) : List (Item α) := its.foldl store c

/-- `ref_recon_grow_cloud_one_layer`: every entry of the (copied) cloud contributes its one-layer cloud;
    `layerOf g` is `one_layer[local(g)]` -/
def grow (layerOf : Int → List (Item α)) (c : List (Item α)) : List (Item α) :=
  c.foldl (fun acc p => storeAll acc (layerOf p.g)) c

/-! ### the least-squares rows -/

/-- `geom[0..8]` for one offset -/
def geomRow (dx dy dz : α) : List α :=
  [half *. dx *. dx, dx *. dy, dx *. dz, half *. dy *. dy, dy *. dz, half *. dz *. dz, dx, dy, dz]

/-- the four rows prepended when `twod` (offsets (0,0,1), (0,0,2), (1,0,1), (0,1,1), right-hand side 0) -/
def twodRows : List (List α × α) :=
  [(geomRow lit0 lit0 lit1, lit0), (geomRow lit0 lit0 lit2, lit0),
   (geomRow lit1 lit0 lit1, lit0), (geomRow lit0 lit1 lit1, lit0)]

/-- one neighbour row: geometry and `dq = f(nb) − f(centre)` -/
def itemRow (c it : Item α) : List α × α :=
  (geomRow (it.x -. c.x) (it.y -. c.y) (it.z -. c.z), it.s -. c.s)

/-- rows of `ref_recon_kexact_with_aux`: cloud order, the centre skipped -/
def rowsOf (c : Item α) (cloud : List (Item α)) (twod : Bool) : List (List α × α) :=
  (if twod then twodRows else []) ++ (cloud.filter (fun it => it.g != c.g)).map (itemRow c)

/-- column `j` of a list of rows -/
def column (rows : List (List α)) (j : Nat) : List α := rows.map (fun r => r.getD j lit0)

def columns (n : Nat) (rows : List (List α)) : List (List α) := (List.range n).map (column rows)

/-! ### ref_matrix_qr -/

/-- `s = 0.0; for i: s += a[i]*b[i]` -/
def dotl (a b : List α) : α := (List.zipWith (fun x y => x *. y) a b).foldl (fun s t => s +. t) lit0

/-- `q_j[i] -= r * q_k[i]` -/
def axmy (r : α) (qj qk : List α) : List α := List.zipWith (fun x y => x -. r *. y) qj qk

/-- the `k` loop of `ref_matrix_qr` on the remaining original columns `as` and the remaining working
    columns `qs` (same length): returns the finished `Q` columns and the rows of `R` from the diagonal on -/
def qrLoop : List (List α) → List (List α) → Option (List (List α) × List (List α))
  | [], _ => some ([], [])
  | _ :: _, [] => some ([], [])
  | _ :: as, qt :: qs =>
    let rkk := Scalar.sqrt (dotl qt qt)
    if qt.all (fun x => Scalar.divisible x rkk) then
      let qk := qt.map (fun x => x /. rkk)
      let rrow := as.map (fun aj => dotl aj qk)
      let qs' := List.zipWith (fun aj qj => axmy (dotl aj qk) qj qk) as qs
      match qrLoop as qs' with
      | none => none
      | some (Q, R) => some (qk :: Q, (rkk :: rrow) :: R)
    else none

/-- `ref_matrix_qr` on the list of columns of `a`; `none` = `REF_DIV_ZERO` -/
def qr (a : List (List α)) : Option (List (List α) × List (List α)) := qrLoop a a

/-! ### ref_matrix_solve_ab (cols = rows + 1) -/

/-- pivot search: index (in the remaining rows) of the first strictly largest `ABS(head)` -/
def pivotScan : List (List α) → Nat → Nat → α → Nat
  | [], _, best, _ => best
  | r :: rs, i, best, largest =>
    let p := Scalar.cabs (r.headD lit0)
    if largest <. p then pivotScan rs (i + 1) i p else pivotScan rs (i + 1) best largest

def pivotRow : List (List α) → Nat
  | [] => 0
  | r :: rs => pivotScan rs 1 0 (Scalar.cabs (r.headD lit0))

/-- exchange rows `0` and `p` -/
def swap0 (rows : List (List α)) (p : Nat) : List (List α) :=
  match rows with
  | [] => []
  | r0 :: rest =>
    if p == 0 then rows else
    match rest[p - 1]? with
    | none => rows
    | some rp => rp :: rest.set (p - 1) r0

/-- forward phase on the remaining rows (each row holds the entries from the current column on):
    returns the ill-conditioning flag and the normalised pivot rows -/
def elim : Nat → List (List α) → Option (Bool × List (List α))
  | 0, _ => some (false, [])
  | fuel + 1, rows =>
    match swap0 rows (pivotRow rows) with
    | [] => some (false, [])
    | prow :: others =>
      let pivot := prow.headD lit0
      if prow.all (fun x => Scalar.divisible x pivot) then
        let ill := (Scalar.cabs pivot <. eps13) && !prow.isEmpty
        let nrow := prow.map (fun x => x /. pivot)
        let others' := others.map (fun r =>
          let factor := r.headD lit0
          (List.zipWith (fun x y => x -. y *. factor) r nrow).tail)
        match elim fuel others' with
        | none => none
        | some (ill', ps) => some (ill || ill', nrow :: ps)
      else none

/-- back substitution over the normalised pivot rows `d :: u ++ [c]`, bottom row first -/
def backSub : List (List α) → Option (List α)
  | [] => some []
  | p :: ps =>
    match backSub ps with
    | none => none
    | some xs =>
      let d := p.headD lit0
      let rest := p.tail
      let rhs := (List.zip rest xs).foldl (fun acc ux => acc -. ux.1 *. ux.2) (rest.getD xs.length lit0)
      if Scalar.divisible rhs d then some ((rhs /. d) :: xs) else none

/-- `ref_matrix_solve_ab(rows, rows+1, ab)` on the list of rows: `none` = `REF_DIV_ZERO` (the only error it
    returns), else the ill-conditioning flag and the solution column -/
def solveAb (ab : List (List α)) : Option (Bool × List α) :=
  match elim ab.length ab with
  | none => none
  | some (ill, ps) =>
    match backSub ps with
    | none => none
    | some x => some (ill, x)

/-! ### the least-squares chain -/

/-- rows of `[R | c]`: row `k` = `k` zeros, the `R` row from the diagonal on, then `c_k` -/
def augment : Nat → List (List α) → List α → List (List α)
  | _, [], _ => []
  | _, _ :: _, [] => []
  | k, r :: rs, c :: cs => (List.replicate k lit0 ++ r ++ [c]) :: augment (k + 1) rs cs

/-- QR of the `n` columns of `rows`, `c = Qᵀ b`, solve `R x = c` -/
def lsq (n : Nat) (rows : List (List α)) (b : List α) : KSt × List α :=
  match qr (columns n rows) with
  | none => (.divZero, [])
  | some (Q, R) =>
    let c := Q.map (fun qj => dotl qj b)
    match solveAb (augment 0 R c) with
    | none => (.divZero, [])
    | some (ill, x) => if ill then (.illConditioned, []) else (.ok, x)

def zero6 : M6 α := ⟨lit0, lit0, lit0, lit0, lit0, lit0⟩

/-- `ref_recon_kexact_with_aux`: status, gradient, Hessian (zeros unless `ok`) -/
def kexactWithAux (center : Int) (cloud : List (Item α)) (twod : Bool) : KSt × V3 α × M6 α :=
  match cloud.find? (fun it => it.g == center) with
  | none => (.notFound, V3.zero, zero6)
  | some c =>
    let rws := rowsOf c cloud twod
    if rws.length < 9 then (.divZero, V3.zero, zero6) else
    match lsq 9 (rws.map (·.1)) (rws.map (·.2)) with
    | (.ok, x) =>
      let e (i : Nat) : α := x.getD i lit0
      (.ok, ⟨e 6, e 7, e 8⟩, ⟨e 0, e 1, e 2, e 3, e 4, e 5⟩)
    | (st, _) => (st, V3.zero, zero6)

/-- rows of `ref_recon_kexact_center`: every cloud entry, 10 columns (constant last), rhs = the value -/
def centerRows (x y z : α) (cloud : List (Item α)) : List (List α × α) :=
  cloud.map (fun it => (geomRow (it.x -. x) (it.y -. y) (it.z -. z) ++ [lit1], it.s))

/-- `ref_recon_kexact_center`: the constant coefficient of the fit -/
def kexactCenter (x y z : α) (cloud : List (Item α)) : KSt × α :=
  let rws := centerRows x y z cloud
  if rws.length < 10 then (.divZero, lit0) else
  match lsq 10 (rws.map (·.1)) (rws.map (·.2)) with
  | (.ok, sol) => (.ok, sol.getD 9 lit0)
  | (st, _) => (st, lit0)

/-! ### the per-vertex driver -/

/-- layers `layer..8` of `ref_recon_kexact_gradient_hessian`'s loop for one vertex -/
def layerLoop (layerOf : Int → List (Item α)) (center : Int) (twod : Bool) :
    Nat → List (Item α) → V3 α × M6 α
  | 0, _ => (V3.zero, zero6)
  | fuel + 1, cloud =>
    let cloud' := grow layerOf cloud
    match kexactWithAux center cloud' twod with
    | (.ok, g, h) => (g, h)
    | (.notFound, g, h) => (g, h)
    | _ => layerLoop layerOf center twod fuel cloud'

/-- one vertex: copy of its one-layer cloud, then layers 2..8; the 2-D zeroing of the z entries -/
def kexactNode (layerOf : Int → List (Item α)) (center : Int) (twod : Bool) : V3 α × M6 α :=
  let (g, h) := layerLoop layerOf center twod 7 (layerOf center)
  if twod then (⟨g.x, g.y, lit0⟩, ⟨h.m0, h.m1, lit0, h.m3, lit0, lit0⟩) else (g, h)

/-- `ref_recon_local_immediate_cloud`: for every vertex the vertices of its cells (tets, or triangles in 2-D) -/
def oneLayer (xyz : List (V3 α)) (s : List α) (cells : List (List Nat)) : List (List (Item α)) :=
  let item (i : Nat) : Item α :=
    let p := xyz.getD i V3.zero
    ⟨(i : Int), p.x, p.y, p.z, s.getD i lit0⟩
  cells.foldl (fun acc cell =>
      cell.foldl (fun a v => a.modify v (fun c => storeAll c (cell.map item))) acc)
    (List.replicate xyz.length [])

/-- `ref_recon_kexact_gradient_hessian` (serial; global id = local index) -/
def kexactGradHess (twod : Bool) (xyz : List (V3 α)) (s : List α) (cells : List (List Nat)) :
    List (V3 α × M6 α) :=
  let layers := oneLayer xyz s cells
  let layerOf (g : Int) : List (Item α) := if g < 0 then [] else layers.getD g.toNat []
  (List.range xyz.length).map (fun (i : Nat) => kexactNode layerOf (Int.ofNat i) twod)

/-- `ref_recon_abs_value_hessian` at one vertex -/
def absHessian (h : M6 α) : Except Matrix.Err (M6 α) :=
  match Matrix.diagM (⟨h.m0, h.m1, h.m2, h.m3, h.m4, h.m5⟩ : Matrix.M6 α) with
  | .error e => .error e
  | .ok d =>
    let m := Matrix.formM (Matrix.mapEig Scalar.cabs d)
    .ok ⟨m.m11, m.m12, m.m13, m.m22, m.m23, m.m33⟩

end Refine.Model.Kexact
