import Refine.Model.Guards
import Refine.Model.Matrix
import Refine.Model.ContainersSort

/-!
  Collapse (properties C01 / C13): the topological and volume guards that make an edge collapse safe, the order
  in which `ref_collapse_to_remove_node1` consults them, and the kernel `ref_collapse_edge` it then applies
  (`src/ref_collapse.c:165-377, 461-600, 722-941, 1067-1104`; `ref_node_tet_quality` / `ref_node_tri_quality`
  JAC branch and `ref_node_ratio` geometric branch of `src/ref_node.c`).

  Vocabulary: the `Grid` / `Cell` / `having` list model of `Model/Guards.lean` (not the row lists of
  `Model/MeshOps.lean`), because
  * the guards are loops over `each_ref_cell_having_node` with early returns and `ref_cell_with` /
    `ref_cell_node_list_around` queries: `Guards.having`, `cellWith`, `listWith2` already reproduce the visiting
    order of these loops for a grid built by successive `ref_cell_add`, so the candidate order of
    `ref_collapse_to_remove_node1` (adjacency order, then `ref_sort_heap_dbl` by metric length, ties by the heap's
    own order) is the C's;
  * the geometry / mixed / same-normal / same-tangent / chord-height guards the driver interleaves with the new
    ones are already modelled there (C02) and are reused, not copied;
  * `Guards.collapseGroup` ("cells with both ends removed, node1 ↦ node0 elsewhere") is the list-level effect of
    `ref_collapse_edge`; `Model/MeshOps.collapseGroup` is the same function on rows (`Props/C13.collapseGroup_spec`).

  Numeric guards are generic over `Scalar`, operation order copied from the C (`Float` instance bit-identical; tie:
  `Drivers/Collapse.lean` vs `harness/h_collapse.c`).  Core-only imports.
-/
namespace Refine.Model.Collapse
open Refine Refine.Model Refine.Model.Geom Refine.Model.Guards

/-- `MAX_NODE_LIST` (ref_collapse.c:42) -/
def MAX_NODE_LIST : Nat := 1000

/-! ## topological guards -/

/-- `will_be_collapsed`: `node0 == nodes[node]` for some `node < node_per` -/
def willCollapse (n0 : Nat) (c : Cell) : Bool := c.nodes.contains n0

/-- one cell-group loop of `ref_collapse_edge_manifold`: `true` when the loop runs to its end, `false` when some
    cell of node1's star that survives, with node1 replaced by node0, is already present (`ref_cell_with`) -/
def manifoldGroup (cells : List Cell) (n0 n1 : Nat) : Bool :=
  (having cells n1).all fun c => willCollapse n0 c || !cellWith cells (subst n1 n0 c.nodes)

/-- the `safe_list` loop: nodes of the triangles that contain both ends, first occurrence order; `none` is the
    `RAS(nsafe < 4, ...)` failure -/
def safeGo : List Nat → List Nat → Option (List Nat)
  | [], acc => some acc
  | v :: rest, acc =>
    if acc.contains v then safeGo rest acc
    else if acc.length < 4 then safeGo rest (acc ++ [v]) else none

def safeList (tris : List Cell) (n0 n1 : Nat) : Option (List Nat) :=
  safeGo (((having tris n1).filter (willCollapse n0)).flatMap (·.nodes)) []

/-- `ref_cell_node_list_around(ref_cell, node, max_node, &nnode, node_list)`: `none` is `REF_INCREASE_LIMIT` -/
def nodeListGo (node maxNode : Nat) : List Nat → List Nat → Option (List Nat)
  | [], acc => some acc
  | v :: rest, acc =>
    if v == node then nodeListGo node maxNode rest acc
    else if acc.contains v then nodeListGo node maxNode rest acc
    else if acc.length ≥ maxNode then none else nodeListGo node maxNode rest (acc ++ [v])

def nodeListAround (cells : List Cell) (node maxNode : Nat) : Option (List Nat) :=
  nodeListGo node maxNode ((having cells node).flatMap (·.nodes)) []

/-- `ref_collapse_edge_manifold(ref_grid, node0, node1, &allowed)`: tets, tris, the shared-neighbour test on the
    triangles, edgs — in this order, first refusal returns -/
def collapseEdgeManifold (g : Grid) (n0 n1 : Nat) : Status × Bool :=
  if !manifoldGroup g.tet n0 n1 then (.ok, false) else
  if !manifoldGroup g.tri n0 n1 then (.ok, false) else
  match safeList g.tri n0 n1 with
  | none => (.failure, false)
  | some safe =>
    let nsafe := safe.length
    if !(nsafe == 0 || nsafe == 3 || nsafe == 4) then (.failure, false) else
    let sharedRes : Status × Bool :=
      if nsafe == 3 || nsafe == 4 then
        match nodeListAround g.tri n0 MAX_NODE_LIST, nodeListAround g.tri n1 MAX_NODE_LIST with
        | some l0, some l1 => (.ok, l0.any fun a => l1.contains a && !safe.contains a)
        | _, _ => (.increase_limit, false)
      else (.ok, false)
    if sharedRes.1 != .ok then (sharedRes.1, false) else
    if sharedRes.2 then (.ok, false) else
    if !manifoldGroup g.edg n0 n1 then (.ok, false) else (.ok, true)

/-- `ref_node_owned(ref_node, node)` -/
def ownedAt (owned : List Bool) (n : Nat) : Bool := owned.getD n true

/-- every node of every cell around `n` is owned -/
def allOwned (owned : List Bool) (cells : List Cell) (n : Nat) : Bool :=
  (having cells n).all fun c => c.nodes.all (ownedAt owned)

/-- `ref_collapse_edge_local_cell`: tets around node1, around node0, tris around node1, around node0 -/
def collapseEdgeLocalCell (g : Grid) (owned : List Bool) (n0 n1 : Nat) : Bool :=
  allOwned owned g.tet n1 && allOwned owned g.tet n0 && allOwned owned g.tri n1 && allOwned owned g.tri n0

/-- `ref_collapse_edge_cad_constrained`; `isEdge n` is `ref_geom_is_a(ref_geom, n, REF_GEOM_EDGE)`
    (constantly `false` without CAD association: the guard then always allows) -/
def collapseEdgeCadConstrained (g : Grid) (isEdge : Nat → Bool) (n0 n1 : Nat) : Bool :=
  (having g.tri n1).all fun c =>
    willCollapse n0 c ||
    let ns := subst n1 n0 c.nodes
    !(isEdge (ns.getD 0 0) && isEdge (ns.getD 1 0) && isEdge (ns.getD 2 0))

/-! ## numeric guards -/
section Numeric
variable {α : Type} [Scalar α]

/-- what the guards read from `REF_NODE`: coordinates, metric (`ref_node_metric_get`), stored log-metric
    (`ref_node_metric_get_log`), ownership -/
structure Nodes (α : Type) where
  xyz : List (V3 α)
  met : List (Geom.M6 α)
  logm : List (Geom.M6 α)
  owned : List Bool

/-- thresholds: `ref_grid_twod`, `ref_grid_adapt(collapse_quality_absolute / post_min_ratio / post_max_ratio)`,
    `ref_node_min_volume` -/
structure Params (α : Type) where
  twod : Bool
  cqa : α
  postMin : α
  postMax : α
  minVol : α

def m6zero : Geom.M6 α := ⟨lit0, lit0, lit0, lit0, lit0, lit0⟩
def metAt (nd : Nodes α) (n : Nat) : Geom.M6 α := nd.met.getD n m6zero
def logAt (nd : Nodes α) (n : Nat) : Geom.M6 α := nd.logm.getD n m6zero

def toMat (m : Geom.M6 α) : Matrix.M6 α := ⟨m.m0, m.m1, m.m2, m.m3, m.m4, m.m5⟩
def ofMat (m : Matrix.M6 α) : Geom.M6 α := ⟨m.m11, m.m12, m.m13, m.m22, m.m23, m.m33⟩

def errSt : Matrix.Err → Status
  | .failure => .failure | .invalid => .invalid | .div_zero => .div_zero | .ub => .failure

/-- `ref_node_tet_vol(ref_node, nodes, &volume)` -/
def tetVolOf (nd : Nodes α) (ns : List Nat) : α :=
  tetVol (pt nd.xyz (ns.getD 0 0)) (pt nd.xyz (ns.getD 1 0)) (pt nd.xyz (ns.getD 2 0)) (pt nd.xyz (ns.getD 3 0))

/-- `mlog[i] = (mlog0[i] + mlog1[i] + mlog2[i] + mlog3[i]) / 4.0` -/
def avg4 (a b c d : Geom.M6 α) : Geom.M6 α :=
  let f (x y z w : α) : α := (x +. y +. z +. w) /. Scalar.ofInt 4
  ⟨f a.m0 b.m0 c.m0 d.m0, f a.m1 b.m1 c.m1 d.m1, f a.m2 b.m2 c.m2 d.m2,
   f a.m3 b.m3 c.m3 d.m3, f a.m4 b.m4 c.m4 d.m4, f a.m5 b.m5 c.m5 d.m5⟩

/-- `mlog[i] = (mlog0[i] + mlog1[i] + mlog2[i]) / 3.0` -/
def avg3 (a b c : Geom.M6 α) : Geom.M6 α :=
  let f (x y z : α) : α := (x +. y +. z) /. Scalar.ofInt 3
  ⟨f a.m0 b.m0 c.m0, f a.m1 b.m1 c.m1, f a.m2 b.m2 c.m2, f a.m3 b.m3 c.m3, f a.m4 b.m4 c.m4, f a.m5 b.m5 c.m5⟩

/-- the part of `ref_node_tet_jac_quality` after the volume test -/
def tetJacTail (nd : Nodes α) (ns : List Nat) (volume : α) : Status × α :=
  let n0 := ns.getD 0 0; let n1 := ns.getD 1 0; let n2 := ns.getD 2 0; let n3 := ns.getD 3 0
  match Matrix.expM (toMat (avg4 (logAt nd n0) (logAt nd n1) (logAt nd n2) (logAt nd n3))) with
  | .error e => (errSt e, lit0)
  | .ok mm =>
    match Matrix.jacobM mm with
    | .error e => (errSt e, lit0)
    | .ok _ =>
      let m := ofMat mm
      let x0 := pt nd.xyz n0; let x1 := pt nd.xyz n1; let x2 := pt nd.xyz n2; let x3 := pt nd.xyz n3
      let e0 := V3.sub x1 x0; let e1 := V3.sub x2 x0; let e2 := V3.sub x3 x0
      let e3 := V3.sub x2 x1; let e4 := V3.sub x3 x1; let e5 := V3.sub x3 x2
      let l2 := vtMv m e0 +. vtMv m e1 +. vtMv m e2 +. vtMv m e3 +. vtMv m e4 +. vtMv m e5
      let det := Matrix.detM mm
      let volumeInMetric := Scalar.sqrt det *. volume
      let num := Scalar.pow volumeInMetric (Scalar.ofInt 2 /. Scalar.ofInt 3)
      if Scalar.divisible num l2 then (.ok, Scalar.ofDec 249610058766228 (-13) *. num /. l2)
      else (.ok, -. (lit1 : α))

/-- `ref_node_tet_quality`, `REF_NODE_JAC_QUALITY` (the default of `ref_node_create`):
    `volume <= min_volume` gives `volume - min_volume` (not positive) without looking at the metric -/
def tetJacQuality (nd : Nodes α) (minVol : α) (ns : List Nat) : Status × α :=
  let volume := tetVolOf nd ns
  if volume <=. minVol then (.ok, volume -. minVol) else tetJacTail nd ns volume

/-- `ref_cell_ntri_with_tet_nodes(ref_grid_tri, nodes, &ntri)`: how many of the four faces are boundary triangles -/
def ntriWithTetNodes (tris : List Cell) (ns : List Nat) : Nat :=
  let a := ns.getD 0 0; let b := ns.getD 1 0; let c := ns.getD 2 0; let d := ns.getD 3 0
  (if cellWith tris [b, c, d] then 1 else 0) + (if cellWith tris [a, c, d] then 1 else 0) +
  (if cellWith tris [a, d, b] then 1 else 0) + (if cellWith tris [a, b, c] then 1 else 0)

/-- loop body of `ref_collapse_edge_tet_quality`; `none` = next cell -/
def tetQualityStep (g : Grid) (nd : Nodes α) (p : Params α) (n0 n1 : Nat) (c : Cell) : Option (Status × Bool) :=
  if willCollapse n0 c then none else
  let ns := subst n1 n0 c.nodes
  match tetJacQuality nd p.minVol ns with
  | (.ok, q) =>
    if q <. p.cqa then some (.ok, false)
    else if ntriWithTetNodes g.tri ns > 1 then some (.ok, false) else none
  | (st, _) => some (st, false)

/-- `ref_collapse_edge_tet_quality(ref_grid, node0, node1, &allowed)` -/
def collapseEdgeTetQuality (g : Grid) (nd : Nodes α) (p : Params α) (n0 n1 : Nat) : Status × Bool :=
  firstSome (tetQualityStep g nd p n0 n1) (.ok, true) (having g.tet n1)

/-- `ref_matrix_vect_mult(jac, xyz, b)` with `jac[i+3k]` = row i, column k of `M33` -/
def jacMult (j : Matrix.M33 α) (x : V3 α) : V3 α :=
  ⟨j.r0.x *. x.x +. j.r1.x *. x.y +. j.r2.x *. x.z,
   j.r0.y *. x.x +. j.r1.y *. x.y +. j.r2.y *. x.z,
   j.r0.z *. x.x +. j.r1.z *. x.y +. j.r2.z *. x.z⟩

/-- `ref_node_tri_quality`, `REF_NODE_JAC_QUALITY` -/
def triJacQuality (nd : Nodes α) (ns : List Nat) : Status × α :=
  let n0 := ns.getD 0 0; let n1 := ns.getD 1 0; let n2 := ns.getD 2 0
  match Matrix.expM (toMat (avg3 (logAt nd n0) (logAt nd n1) (logAt nd n2))) with
  | .error e => (errSt e, lit0)
  | .ok mm =>
    match Matrix.jacobM mm with
    | .error e => (errSt e, lit0)
    | .ok jac =>
      let xyz0 := jacMult jac (pt nd.xyz n0)
      let xyz1 := jacMult jac (pt nd.xyz n1)
      let xyz2 := jacMult jac (pt nd.xyz n2)
      let e0 := V3.sub xyz2 xyz1; let e1 := V3.sub xyz0 xyz2; let e2 := V3.sub xyz1 xyz0
      let n := cross e2 e0
      let l2 := dot e0 e0 +. dot e1 e1 +. dot e2 e2
      let a := half *. Scalar.sqrt (dot n n)
      if Scalar.divisible a l2 then (.ok, (Scalar.ofInt 4 *. Scalar.sqrt (Scalar.ofInt 3)) *. (a /. l2))
      else (.ok, -. (lit1 : α))

/-- `ref_node_tri_area(ref_node, nodes, &area)` -/
def triAreaOf (nd : Nodes α) (ns : List Nat) : α :=
  triArea (pt nd.xyz (ns.getD 0 0)) (pt nd.xyz (ns.getD 1 0)) (pt nd.xyz (ns.getD 2 0))

/-- loop body of `ref_collapse_edge_tri_quality` -/
def triQualityStep (nd : Nodes α) (p : Params α) (n0 n1 : Nat) (c : Cell) : Option (Status × Bool) :=
  if willCollapse n0 c then none else
  let ns := subst n1 n0 c.nodes
  match triJacQuality nd ns with
  | (.ok, q) =>
    if q <. p.cqa then some (.ok, false)
    else if triAreaOf nd ns <=. p.minVol then some (.ok, false) else none
  | (st, _) => some (st, false)

/-- `ref_collapse_edge_tri_quality(ref_grid, node0, node1, &allowed)` -/
def collapseEdgeTriQuality (g : Grid) (nd : Nodes α) (p : Params α) (n0 n1 : Nat) : Status × Bool :=
  firstSome (triQualityStep nd p n0 n1) (.ok, true) (having g.tri n1)

/-- loop body of `ref_collapse_edge_twod_orientation(ref_grid, keep, remove, &allowed)` -/
def twodOrientationStep (nd : Nodes α) (keep remove : Nat) (c : Cell) : Option (Status × Bool) :=
  if willCollapse keep c then none else
  let ns := subst remove keep c.nodes
  if triTwodOrientation (pt nd.xyz (ns.getD 0 0)) (pt nd.xyz (ns.getD 1 0)) (pt nd.xyz (ns.getD 2 0)) then none
  else some (.ok, false)

def collapseEdgeTwodOrientation (g : Grid) (nd : Nodes α) (keep remove : Nat) : Status × Bool :=
  firstSome (twodOrientationStep nd keep remove) (.ok, true) (having g.tri remove)

/-- `ref_node_ratio(ref_node, node0, node1, &ratio)`, `REF_NODE_RATIO_GEOMETRIC` (the default) -/
def nodeRatio (nd : Nodes α) (a b : Nat) : α :=
  ratioGeometric (pt nd.xyz a) (pt nd.xyz b) (metAt nd a) (metAt nd b)

/-- `(old_max, old_min, new_max, new_min)` -/
structure Ext (α : Type) where
  oldMax : α
  oldMin : α
  newMax : α
  newMin : α

/-- `REF_DBL_MAX` (ref_defs.h: 1.0e200) -/
def dblMax : α := Scalar.ofDec 1 200

/-- one cell of the loop of `ref_collapse_edge_ratio` -/
def ratioStep (nd : Nodes α) (n0 n1 : Nat) (e : Ext α) (c : Cell) : Ext α :=
  let others := c.nodes.filter (· != n1)
  let e := others.foldl (fun (e : Ext α) v =>
    let r := nodeRatio nd n1 v
    { e with oldMax := Scalar.cmax e.oldMax r, oldMin := Scalar.cmin e.oldMin r }) e
  if willCollapse n0 c then e else
  others.foldl (fun (e : Ext α) v =>
    let r := nodeRatio nd n0 v
    { e with newMax := Scalar.cmax e.newMax r, newMin := Scalar.cmin e.newMin r }) e

/-- `a >= b` of C doubles (false on NaN) -/
def ge (a b : α) : Bool := b <=. a

/-- `ref_collapse_edge_ratio(ref_grid, node0, node1, &allowed)`: the new edges stay inside
    `[post_min_ratio, post_max_ratio]`, or they are no worse than the old ones -/
def collapseEdgeRatio (g : Grid) (nd : Nodes α) (p : Params α) (n0 n1 : Nat) : Bool :=
  let cells := if p.twod then g.tri else g.tet
  let e0 : Ext α := ⟨-. (lit1 : α), dblMax, -. (lit1 : α), dblMax⟩
  let e := (having cells n1).foldl (ratioStep nd n0 n1) e0
  (ge e.newMin p.postMin && e.newMax <=. p.postMax) || (ge e.newMin e.oldMin && e.newMax <=. e.oldMax)

/-- `ref_collapse_edge_normdev` without a loaded CAD model / meshlink: always allowed -/
def collapseEdgeNormdev (_g : Grid) (_n0 _n1 : Nat) : Bool := true

end Numeric

/-! ## the kernel and the driver -/

/-- `ref_collapse_edge(ref_grid, node0, node1)` on the three simplex groups; `REF_INCREASE_LIMIT` when more than
    `MAX_CELL_COLLAPSE` cells of a group contain both ends (groups before it are already collapsed) -/
def collapseEdge (g : Grid) (n0 n1 : Nat) : Status × Grid :=
  if (having2 g.tet n0 n1).length > MAX_CELL_COLLAPSE then (.increase_limit, g) else
  let g := { g with tet := collapseGroup g.tet n0 n1 }
  if (having2 g.tri n0 n1).length > MAX_CELL_COLLAPSE then (.increase_limit, g) else
  let g := { g with tri := collapseGroup g.tri n0 n1 }
  if (having2 g.edg n0 n1).length > MAX_CELL_COLLAPSE then (.increase_limit, g) else
  (.ok, { g with edg := collapseGroup g.edg n0 n1 })

section Driver
variable {α : Type} [Scalar α] [Inhabited α]

/-- what one candidate `node0` of `ref_collapse_to_remove_node1` ends in -/
inductive Verdict
  | refused (guard : String)     -- `continue` after this guard said no
  | notLocal (aged : Bool)       -- `ref_collapse_edge_local_cell` said no (ages bumped when quality allowed)
  | cavity                       -- quality refused, cell local: the cavity attempt is made
  | collapse                     -- every guard passed: `ref_collapse_edge`
  | error (st : Status)          -- an `RSS` returned
  deriving Repr, DecidableEq

/-- the guard chain for one candidate, in the order of ref_collapse.c:214-312 -/
def judge (g : Grid) (nd : Nodes α) (p : Params α) (n0 n1 : Nat) : Verdict :=
  if !collapseEdgeMixed g n0 n1 then .refused "mixed" else
  match collapseEdgeGeometry g false false n0 n1 with
  | (.ok, false) => .refused "geometry"
  | (.ok, true) =>
    match collapseEdgeManifold g n0 n1 with
    | (.ok, false) => .refused "manifold"
    | (.ok, true) =>
      match collapseEdgeChordHeight g nd.xyz n0 n1 with
      | (.ok, false) => .refused "chord"
      | (.ok, true) =>
        if !collapseEdgeRatio g nd p n0 n1 then .refused "ratio" else
        if !collapseEdgeNormdev g n0 n1 then .refused "normdev" else
        match collapseEdgeSameNormal g nd.xyz n0 n1 with
        | (.ok, false) => .refused "same_normal"
        | (.ok, true) =>
          match collapseEdgeSameTangent g nd.xyz n0 n1 with
          | (.ok, false) => .refused "same_tangent"
          | (.ok, true) =>
            match (if p.twod then collapseEdgeTwodOrientation g nd n0 n1 else (.ok, true)) with
            | (.ok, false) => .refused "twod_orientation"
            | (.ok, true) =>
              match collapseEdgeTriQuality g nd p n0 n1 with
              | (.ok, false) => .refused "tri_quality"
              | (.ok, true) =>
                match collapseEdgeTetQuality g nd p n0 n1 with
                | (.ok, allowed) =>
                  if !collapseEdgeLocalCell g nd.owned n0 n1 then .notLocal allowed
                  else if !allowed then .cavity else .collapse
                | (st, _) => .error st
              | (st, _) => .error st
            | (st, _) => .error st
          | (st, _) => .error st
        | (st, _) => .error st
      | (st, _) => .error st
    | (st, _) => .error st
  | (st, _) => .error st

/-- result of `ref_collapse_to_remove_node1`: status, `*actual_node0` (`none` = `REF_EMPTY`), the per-candidate
    verdicts in visiting order, the grid.  The cavity attempt is an event: its own outcome is not modelled here
    (`Model/Cavity.lean`); in the function-level tie it is stubbed to "unsuccessful" on both sides, so the loop
    goes on with the next candidate. -/
structure Removal where
  status : Status
  actual : Option Nat
  trace : List (Nat × Verdict)
  grid : Grid

def removeGo (g : Grid) (nd : Nodes α) (p : Params α) (n1 : Nat) :
    List Nat → List (Nat × Verdict) → Removal
  | [], tr => ⟨.ok, none, tr, g⟩
  | n0 :: rest, tr =>
    match judge g nd p n0 n1 with
    | .collapse =>
      let r := collapseEdge g n0 n1
      ⟨r.1, some n0, tr ++ [(n0, .collapse)], r.2⟩
    | .error st => ⟨st, none, tr ++ [(n0, .error st)], g⟩
    | v => removeGo g nd p n1 rest (tr ++ [(n0, v)])

/-- `ref_collapse_to_remove_node1(ref_grid, &actual_node0, node1)`: candidates are the neighbours of node1
    (`ref_cell_node_list_around` of the tris in 2-D, of the tets in 3-D), shortest metric length first
    (`ref_sort_heap_dbl`); the first candidate that passes every guard wins.  `lt` is the `<` of the sort. -/
def toRemoveNode1 (lt : α → α → Bool) (g : Grid) (nd : Nodes α) (p : Params α) (n1 : Nat) : Removal :=
  let cells := if p.twod then g.tri else g.tet
  match nodeListAround cells n1 MAX_NODE_LIST with
  | none => ⟨.increase_limit, none, [], g⟩
  | some cand =>
    let ratios := cand.map fun c => nodeRatio nd c n1
    let order := Sort.sortHeapLoop lt ratios
    removeGo g nd p n1 (order.map fun k => cand.getD k 0) []

end Driver

end Refine.Model.Collapse
