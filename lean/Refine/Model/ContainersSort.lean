import Refine.Model.Status

/-!
  Executable model of `ref_sort.c` (core-only).

  `REF_INT` and `REF_GLOB` are modelled as unbounded `Int` (DESIGN.md section 4: integer width is
  modelled, not verified); `REF_DBL` kernels are generic over the element type and two Boolean
  comparisons, so the same definition runs on `Float` in the driver and is proved over a linear order.

  Every C loop is a structurally recursive function over an iteration counter or an explicit
  `fuel`; the theorems in `Props/C14.lean` show the fuel is never exhausted.
-/
namespace Refine.Model.Sort

/-! ### `ref_sort_insertion_int` (a selection sort, despite its name) -/

/-- inner loop `for (j = i+1; j < n; j++) if (sorted[j] < sorted[smallest]) smallest = j;`
    `cnt` is the number of remaining iterations -/
def minLoop (s : List Int) : (cnt j smallest : Nat) → Nat
  | 0, _, sm => sm
  | c + 1, j, sm => minLoop s c (j + 1) (if s.getD j 0 < s.getD sm 0 then j else sm)

/-- `temp = s[i]; s[i] = s[j]; s[j] = temp;` -/
def swapAt {α : Type} (d : α) (s : List α) (i j : Nat) : List α :=
  (s.set i (s.getD j d)).set j (s.getD i d)

/-- outer loop `for (i = 0; i < n; i++)`; `cnt = n - i` -/
def selLoop : (cnt i : Nat) → List Int → List Int
  | 0, _, s => s
  | c + 1, i, s => selLoop c (i + 1) (swapAt 0 s i (minLoop s c (i + 1) i))

/-- `ref_sort_insertion_int(n, original, sorted)` with `n = original.length` -/
def sortInsertion (original : List Int) : List Int :=
  selLoop original.length 0 original

/-! ### `ref_sort_heap_int / _glob / _dbl` — one generic definition, three instances -/

section heap
variable {α : Type} [Inhabited α] (lt : α → α → Bool) (a : List α)

/-- `original[sorted_index[k]]` -/
def keyAt (idx : List Nat) (k : Nat) : α := a.getD (idx.getD k 0) default

/-- the `while (j <= ir)` sift-down loop followed by `sorted_index[i] = indxt`.
    `j = 2*i+1` on entry; after a move `j++; j <<= 1; j--` i.e. `j := 2*j+1`. -/
def siftDown (indxt : Nat) (q : α) (ir : Nat) : (fuel i j : Nat) → List Nat → List Nat
  | 0, i, _, idx => idx.set i indxt
  | f + 1, i, j, idx =>
    if j ≤ ir then
      let j' := if j < ir && lt (keyAt a idx j) (keyAt a idx (j + 1)) then j + 1 else j
      if lt q (keyAt a idx j') then
        siftDown indxt q ir f j' (2 * j' + 1) (idx.set i (idx.getD j' 0))
      else idx.set i indxt
    else idx.set i indxt

/-! The single `for (;;)` is `heapLoop` below; the theorems are proved about its two phases `heapify`
    (the iterations with `l > 1`) and `extract` (the iterations with `l == 1`), and
    `Lemmas/ContainersHeap.lean` proves `sortHeapLoop = sortHeap`. -/

/-- the iterations of `for (;;)` that take the `if (l > 1)` branch: `l` runs from `(n>>1)+1` down
    to 2; the argument is `l-1` before the decrement, i.e. the number of iterations left; `ir = n-1` -/
def heapify (n : Nat) : (l : Nat) → List Nat → List Nat
  | 0, idx => idx
  | i + 1, idx =>
    let indxt := idx.getD i 0
    heapify n i (siftDown lt a indxt (a.getD indxt default) (n - 1) n i (2 * i + 1) idx)

/-- the iterations that take the `else` branch (`l == 1` from then on): the argument is `ir` -/
def extract (n : Nat) : (ir : Nat) → List Nat → List Nat
  | 0, idx => idx
  | ir + 1, idx =>
    let indxt := idx.getD (ir + 1) 0
    let idx1 := idx.set (ir + 1) (idx.getD 0 0)
    if ir = 0 then idx1.set 0 indxt            -- `if (--ir == 0) { sorted_index[0] = indxt; break; }`
    else extract n ir (siftDown lt a indxt (a.getD indxt default) ir n 0 1 idx1)

/-- the two phases composed: what the `for (;;)` computes (`sortHeapLoop_eq`) -/
def sortHeap : List Nat :=
  let n := a.length
  let idx0 := List.range n
  if n < 2 then idx0 else extract lt a n (n - 1) (heapify lt a n (n >>> 1) idx0)

/-- the single `for (;;)` of `ref_sort_heap_*`, literally: state `(l, ir, sorted_index)`; `i = l-1`,
    `j = l+i`.  `fuel` bounds the number of iterations (`(n>>1) + n` suffice). -/
def heapLoop (n : Nat) : (fuel l ir : Nat) → List Nat → List Nat
  | 0, _, _, idx => idx
  | f + 1, l, ir, idx =>
    if l > 1 then
      let l' := l - 1
      let indxt := idx.getD (l' - 1) 0
      heapLoop n f l' ir (siftDown lt a indxt (a.getD indxt default) ir n (l' - 1) (l' + (l' - 1)) idx)
    else
      let indxt := idx.getD ir 0
      let idx1 := idx.set ir (idx.getD 0 0)
      let ir' := ir - 1
      if ir' = 0 then idx1.set 0 indxt
      else heapLoop n f l ir' (siftDown lt a indxt (a.getD indxt default) ir' n (l - 1) (l + (l - 1)) idx1)

/-- `ref_sort_heap_*(n, original, sorted_index)` with `n = original.length`: what the driver executes -/
def sortHeapLoop : List Nat :=
  let n := a.length
  let idx0 := List.range n
  if n < 2 then idx0 else heapLoop lt a n ((n >>> 1) + n) ((n >>> 1) + 1) (n - 1) idx0

/-- `original[sorted_index[i]]` for all `i` -/
def applyIdx (idx : List Nat) : List α := idx.map fun k => a.getD k default

end heap

def ltInt (x y : Int) : Bool := decide (x < y)
def ltFloat (x y : Float) : Bool := decide (x < y)
def leFloat (x y : Float) : Bool := decide (x ≤ y)

def sortHeapInt (a : List Int) : List Nat := sortHeapLoop ltInt a
def sortHeapGlob (a : List Int) : List Nat := sortHeapLoop ltInt a
def sortHeapDbl (a : List Float) : List Nat := sortHeapLoop ltFloat a

/-- `ref_sort_in_place_glob` -/
def sortInPlaceGlob (a : List Int) : List Int :=
  if 2 > a.length then a else applyIdx a (sortHeapGlob a)

/-! ### `ref_sort_unique_int`, `ref_sort_same` -/

/-- `for (i = 1; i < n; i++) { if (u[j] != u[i]) j++; if (j != i) u[j] = u[i]; }` -/
def uniqueLoop : (cnt i j : Nat) → List Int → Nat × List Int
  | 0, _, j, u => (j, u)
  | c + 1, i, j, u =>
    let j' := if u.getD j 0 ≠ u.getD i 0 then j + 1 else j
    uniqueLoop c (i + 1) j' (if j' ≠ i then u.set j' (u.getD i 0) else u)

/-- `(nunique, unique[0..n))`.  For `n = 0` the C returns `nunique = 0` at once (the early return added by the
    repair `fix: ref_sort_unique_int reports no unique entry for an empty list`; before it the count was 1 and
    `ref_sort_same(0, ..)` read `unique[0]` of a zero-length allocation). -/
def uniqueInt (original : List Int) : Nat × List Int :=
  match original with
  | [] => (0, [])
  | _ :: _ =>
    let n := original.length
    let (j, u) := uniqueLoop (n - 1) 1 0 (sortInsertion original)
    (j + 1, u)

/-- the meaningful prefix of the `unique` array -/
def uniqueList (original : List Int) : List Int :=
  (uniqueInt original).2.take (uniqueInt original).1

/-- `ref_sort_same(n, list0, list1, &same)`; both lists have length `n` -/
def sortSame (l0 l1 : List Int) : Bool :=
  let (n0, u0) := uniqueInt l0
  let (n1, u1) := uniqueInt l1
  if n0 = n1 then (List.range n0).all fun i => u0.getD i 0 == u1.getD i 0 else false

/-! ### `ref_sort_search_int / _glob` -/

/-- `while ((lower < mid) && (mid < upper))` -/
def searchLoop (a : List Int) (t : Int) : (fuel lower upper mid : Nat) → Status × Int
  | 0, _, _, _ => (.not_found, EMPTY)
  | f + 1, lo, up, mid =>
    if lo < mid && mid < up then
      if t ≥ a.getD mid 0 then
        if t = a.getD mid 0 then (.ok, (mid : Int))
        else searchLoop a t f mid up ((mid + up) >>> 1)
      else searchLoop a t f lo mid ((lo + mid) >>> 1)
    else (.not_found, EMPTY)

/-- `ref_sort_search_int(n, ascending_list, target, &position)` → `(status, position)` -/
def searchInt (a : List Int) (t : Int) : Status × Int :=
  let n := a.length
  if n < 1 then (.not_found, EMPTY)
  else if t < a.getD 0 0 || t > a.getD (n - 1) 0 then (.not_found, EMPTY)
  else if t = a.getD 0 0 then (.ok, 0)
  else if t = a.getD (n - 1) 0 then (.ok, ((n - 1 : Nat) : Int))
  else searchLoop a t n 0 (n - 1) (n >>> 1)

/-- `ref_sort_search_glob` is the same text with `REF_GLOB` elements -/
def searchGlob (a : List Int) (t : Int) : Status × Int := searchInt a t

/-! ### `ref_sort_search_dbl` -/

section dbl
variable {α : Type} [Inhabited α] (le lt : α → α → Bool) (a : List α) (t : α)

/-- `a[k] <= target && target < a[k+1]` -/
def brackets (k : Nat) : Bool := le (a.getD k default) t && lt t (a.getD (k + 1) default)

/-- `while (lower < upper)`; fuel exhaustion (`none`) means the C does not terminate -/
def searchDblLoop : (fuel lower upper mid : Nat) → Option (Status × Int)
  | 0, _, _, _ => none
  | f + 1, lo, up, mid =>
    if lo < up then
      if brackets le lt a t lo then some (.ok, (lo : Int))
      else if brackets le lt a t up then some (.ok, (up : Int))
      else if brackets le lt a t mid then some (.ok, (mid : Int))
      else if le (a.getD mid default) t then searchDblLoop f mid up ((mid + up) >>> 1)
      else searchDblLoop f lo mid ((lo + mid) >>> 1)
    else some (.failure, EMPTY)

/-- `ref_sort_search_dbl`; `none` = the loop does not terminate (possible only when a comparison is not
    total, i.e. a NaN in the list: `Lemmas/ContainersSortDbl.lean` proves termination over any linear order) -/
def searchDbl : Option (Status × Int) :=
  let n := a.length
  if n < 1 then some (.not_found, EMPTY)
  else if n = 1 then some (.ok, 0)
  else if le t (a.getD 0 default) then some (.ok, 0)
  else if le (a.getD (n - 1) default) t then some (.ok, ((n - 2 : Nat) : Int))
  else
    let mid := (0 + (n - 2)) >>> 1
    if brackets le lt a t mid then some (.ok, (mid : Int))
    else searchDblLoop le lt a t (2 * n) 0 (n - 2) mid

end dbl

/-! ### `ref_sort_rand_in_range`, `ref_sort_shuffle` (the `rand()` stream is an input) -/

/-- `rand() % (max - min + 1) + min` with C's truncating `%` (the caller guarantees a non-zero divisor) -/
def randInRange (min max : Int) (r : Nat) : Int := Int.tmod r (max - min + 1) + min

/-- `for (i = 0; i < n-1; i++)`; `cnt = n-1-i`; an exhausted `rand` stream yields 0 -/
def shuffleLoop (n : Nat) : (cnt i : Nat) → List Nat → List Nat → List Nat
  | 0, _, _, p => p
  | c + 1, i, rs, p =>
    let j0 := rs.headD 0 % (n - 1 - i + 1) + i
    let j := max i (min j0 (n - 1))
    shuffleLoop n c (i + 1) rs.tail (swapAt 0 p j i)

/-- `ref_sort_shuffle(n, permutation)` -/
def shuffle (n : Nat) (rands : List Nat) : List Nat :=
  shuffleLoop n (n - 1) 0 rands (List.range n)

end Refine.Model.Sort
