import Refine.Scalar
import Refine.Model.Status
import Refine.Model.Geom
import Refine.Model.CellTopo

/-!
  Guards (property C02): the *decision functions* that stand between the metric and the
  computational domain when refine adapts without a CAD model, copied statement by statement.

  * `ref_collapse_edge_geometry`, `_mixed`, `_same_normal`, `_same_tangent`, `_chord_height`  (ref_collapse.c)
  * `ref_split_edge_mixed` (ref_split.c), `ref_cavity_mixed` (ref_cavity.c)
  * `ref_swap_edge_mixed`, `ref_swap_same_faceid`, `ref_swap_node23`, `ref_swap_manifold`,
    the no-geometry branch of `ref_swap_conforming`  (ref_swap.c)
  * `ref_smooth_node_same_normal`, `ref_smooth_node_same_tangent`, `ref_smooth_edge_neighbors` and the
    early-exit guard chains of `ref_smooth_no_geom_tri_improve` / `_edge_improve`  (ref_smooth.c)
  * the weight clamp of `ref_split_pass` and the xyz part of `ref_node_interpolate_edge`

  The mesh is the list model the guards read through `ref_cell_id_list_around`, `ref_cell_list_with2`,
  `ref_cell_has_side`, `ref_cell_with`, `ref_adj_empty`: every cell group is the list of its cells in
  insertion order; `having` reproduces the visiting order of `each_ref_cell_having_node` for a group built
  by successive `ref_cell_add` (ref_adj_add pushes at the head of the per-node list, once per occurrence of
  the node in the cell).  Numeric guards are generic over `Scalar`; the operation order is the C's so the
  `Float` instance is bit-identical (tie: `Drivers/Guards.lean` vs `harness/h_guards.c`).
  Core-only imports.
-/
namespace Refine.Model.Guards
open Refine Refine.Model Refine.Model.Geom

/-- one cell: its nodes and (tri/edg/qua: `nodes[node_per]`) its face id; volume cells carry id 0 -/
structure Cell where
  nodes : List Nat
  id : Int
  deriving DecidableEq, Repr, Inhabited

/-- `ref_cell_c2n(ref_cell,k,cell)` -/
def Cell.nd (c : Cell) (k : Nat) : Nat := c.nodes.getD k 0

/-- the cell groups of a `REF_GRID` the guards look at, each in insertion order -/
structure Grid where
  edg : List Cell := []
  tri : List Cell := []
  qua : List Cell := []
  tet : List Cell := []
  pyr : List Cell := []
  pri : List Cell := []
  hex : List Cell := []
  deriving Repr, Inhabited

/-- the generated `e2n` tables (`ref_cell_initialize`) as node-index pairs -/
def e2nEdg : List (Nat × Nat) := Refine.Model.CellTopo.edgePairs Refine.Gen.CellTables.edg
def e2nTri : List (Nat × Nat) := Refine.Model.CellTopo.edgePairs Refine.Gen.CellTables.tri
def e2nQua : List (Nat × Nat) := Refine.Model.CellTopo.edgePairs Refine.Gen.CellTables.qua
def e2nPyr : List (Nat × Nat) := Refine.Model.CellTopo.edgePairs Refine.Gen.CellTables.pyr
def e2nPri : List (Nat × Nat) := Refine.Model.CellTopo.edgePairs Refine.Gen.CellTables.pri
def e2nHex : List (Nat × Nat) := Refine.Model.CellTopo.edgePairs Refine.Gen.CellTables.hex

/-! ## list view of the `ref_cell` queries -/

/-- cells visited by `each_ref_cell_having_node(ref_cell, node, item, cell)`, in visiting order -/
def having (cells : List Cell) (node : Nat) : List Cell :=
  cells.reverse.flatMap fun c => List.replicate (c.nodes.count node) c

/-- cells visited by `each_ref_cell_having_node2(ref_cell, node0, node1, item, cell_node, cell)` -/
def having2 (cells : List Cell) (n0 n1 : Nat) : List Cell :=
  (having cells n0).flatMap fun c => List.replicate (c.nodes.count n1) c

/-- `ref_adj_empty(ref_cell_adj(ref_cell), node)` / `ref_cell_node_empty` -/
def nodeEmpty (cells : List Cell) (node : Nat) : Bool := (having cells node).isEmpty

/-- `ref_cell_list_with2(ref_cell, node0, node1, max_cell, &ncell, cell_list)`:
    `REF_INCREASE_LIMIT` as soon as one more cell than `max_cell` is met -/
def listWith2 (cells : List Cell) (n0 n1 : Nat) (maxCell : Nat) : Status × List Cell :=
  let l := having2 cells n0 n1
  if l.length > maxCell then (.increase_limit, l.take maxCell) else (.ok, l)

/-- loop of `ref_cell_id_list_around`; on `REF_INCREASE_LIMIT` the ids found so far (`max_ids` of them) stay
    in `ids` and `*n_ids == max_ids` -/
def idListGo (maxIds : Nat) : List Cell → List Int → Status × List Int
  | [], acc => (.ok, acc)
  | c :: rest, acc =>
    if acc.contains c.id then idListGo maxIds rest acc
    else if acc.length ≥ maxIds then (.increase_limit, acc)
    else idListGo maxIds rest (acc ++ [c.id])

/-- `ref_cell_id_list_around(ref_cell, node, max_ids, &n_ids, ids)` -/
def idListAround (cells : List Cell) (node : Nat) (maxIds : Nat) : Status × List Int :=
  idListGo maxIds (having cells node) []

/-- `ref_cell_has_side(ref_cell, node0, node1, &has_side)` with the group's `e2n` table -/
def hasSide (e2n : List (Nat × Nat)) (cells : List Cell) (n0 n1 : Nat) : Bool :=
  (having cells n0).any fun c =>
    e2n.any fun (a, b) =>
      (n0 == c.nd a && n1 == c.nd b) || (n0 == c.nd b && n1 == c.nd a)

/-- insert into a strictly increasing list -/
def insertU (x : Nat) : List Nat → List Nat
  | [] => [x]
  | y :: ys => if x < y then x :: y :: ys else if x = y then y :: ys else y :: insertU x ys

/-- `ref_sort_unique_int`: sorted list of the distinct values -/
def uniq (l : List Nat) : List Nat := l.foldr insertU []

/-- `ref_cell_with(ref_cell, nodes, &cell)`: `true` when a cell with the same node *set* is found among the
    cells having `nodes[0]` (`REF_SUCCESS`), `false` for `REF_NOT_FOUND` -/
def cellWith (cells : List Cell) (nodes : List Nat) : Bool :=
  (having cells (nodes.getD 0 0)).any fun c => uniq c.nodes == uniq nodes

/-! ## mixed-element guards -/

/-- `ref_collapse_edge_mixed`: no qua/pyr/pri/hex touches the node that is removed -/
def collapseEdgeMixed (g : Grid) (_n0 n1 : Nat) : Bool :=
  nodeEmpty g.pyr n1 && nodeEmpty g.pri n1 && nodeEmpty g.hex n1 && nodeEmpty g.qua n1

/-- `ref_split_edge_mixed`: the edge is not a side (`e2n`) of a pyr/pri/hex/qua -/
def splitEdgeMixed (g : Grid) (n0 n1 : Nat) : Bool :=
  let pyrSide := hasSide e2nPyr g.pyr n0 n1
  let priSide := hasSide e2nPri g.pri n0 n1
  let hexSide := hasSide e2nHex g.hex n0 n1
  let quaSide := hasSide e2nQua g.qua n0 n1
  !pyrSide && !priSide && !hexSide && !quaSide

/-- `ref_swap_edge_mixed` (static, ref_swap.c) -/
def swapEdgeMixed (g : Grid) (n0 n1 : Nat) : Bool :=
  let quaSide := hasSide e2nQua g.qua n0 n1
  let priSide := hasSide e2nPri g.pri n0 n1
  let pyrSide := hasSide e2nPyr g.pyr n0 n1
  let hexSide := hasSide e2nHex g.hex n0 n1
  !quaSide && !priSide && !pyrSide && !hexSide

/-- `ref_cavity_mixed` (static, ref_cavity.c): neither end of the edge touches a qua/pyr/pri/hex -/
def cavityMixed (g : Grid) (n0 n1 : Nat) : Bool :=
  nodeEmpty g.pyr n0 && nodeEmpty g.pri n0 && nodeEmpty g.hex n0 && nodeEmpty g.qua n0 &&
  nodeEmpty g.pyr n1 && nodeEmpty g.pri n1 && nodeEmpty g.hex n1 && nodeEmpty g.qua n1

/-! ## face-id rules -/

/-- `MAX_CELL_COLLAPSE` (ref_collapse.c) -/
def MAX_CELL_COLLAPSE : Nat := 100

/-- `ref_collapse_edge_geometry(ref_grid, node0, node1, &allowed)`.
    `geomNode1`/`geomEdge1`: `ref_geom_is_a(ref_geom, node1, REF_GEOM_NODE / REF_GEOM_EDGE)` (both `false`
    without a CAD model).  The `switch (degree1)` has no default: `*allowed` keeps its initial `REF_FALSE`. -/
def collapseEdgeGeometry (g : Grid) (geomNode1 geomEdge1 : Bool) (n0 n1 : Nat) : Status × Bool :=
  if geomNode1 then (.ok, false) else
  if geomEdge1 then (.ok, hasSide e2nEdg g.edg n0 n1) else
  -- RXS(ref_cell_id_list_around(ref_edg, node1, 2, &degree1, ids1), REF_INCREASE_LIMIT, ...); if (degree1 > 1)
  -- (fix 285dd96: a node where two or more edg ids meet separates boundary patches and is never removed)
  if (idListAround g.edg n1 2).2.length > 1 then (.ok, false) else
  -- RXS(ref_cell_id_list_around(ref_tri, node1, 3, &degree1, ids1), REF_INCREASE_LIMIT, ...)
  let ids1 := (idListAround g.tri n1 3).2
  match ids1 with
  | [_, _, _] => (.ok, false)            -- case 3: geometry node never allowed to move
  | [i0, i1] =>                          -- case 2: geometry edge allowed if collapse is on edge
    match listWith2 g.tri n0 n1 MAX_CELL_COLLAPSE with
    | (.ok, [c0, c1]) =>
      let id0 := c0.id
      let id1 := c1.id
      (.ok, (id0 == i0 && id1 == i1) || (id1 == i0 && id0 == i1))
    | (.ok, _) => (.ok, false)           -- 2 != ncell
    | (st, _) => (st, false)             -- RSS
  | [_] => (.ok, hasSide e2nTri g.tri n0 n1)   -- case 1: geometry face allowed if on that face
  | [] => (.ok, true)                    -- case 0: volume node always allowed
  | _ => (.ok, false)                    -- not reached: at most 3 ids are collected

/-- `ref_swap_same_faceid` -/
def swapSameFaceid (g : Grid) (n0 n1 : Nat) : Status × Bool :=
  let hasEdg := hasSide e2nEdg g.edg n0 n1
  let hasTri := hasSide e2nTri g.tri n0 n1
  let hasQua := hasSide e2nQua g.qua n0 n1
  if hasEdg || (hasTri && hasQua) then (.ok, false) else
  match listWith2 g.tri n0 n1 2 with
  | (.ok, []) => (.ok, true)             -- away from boundary
  | (.ok, [c0, c1]) => (.ok, c0.id == c1.id)
  | (.ok, _) => (.failure, false)        -- REIB(2, ncell, ...)
  | (st, _) => (st, false)               -- RSB

/-- the six `if`s of `ref_swap_node23` for one triangle -/
def node23Step (n0 n1 : Nat) (c : Cell) (acc : Option Nat × Option Nat) : Option Nat × Option Nat :=
  let a := c.nd 0
  let b := c.nd 1
  let d := c.nd 2
  let n2 := acc.1
  let n3 := acc.2
  let n2 := if n0 == a && n1 == b then some d else n2
  let n2 := if n0 == b && n1 == d then some a else n2
  let n2 := if n0 == d && n1 == a then some b else n2
  let n3 := if n1 == a && n0 == b then some d else n3
  let n3 := if n1 == b && n0 == d then some a else n3
  let n3 := if n1 == d && n0 == a then some b else n3
  (n2, n3)

/-- `ref_swap_node23(ref_grid, node0, node1, &node2, &node3)` -/
def swapNode23 (g : Grid) (n0 n1 : Nat) : Status × Nat × Nat :=
  match listWith2 g.tri n0 n1 2 with
  | (.ok, [c0, c1]) =>
    match node23Step n0 n1 c1 (node23Step n0 n1 c0 (none, none)) with
    | (some n2, some n3) => (.ok, n2, n3)
    | _ => (.failure, 0, 0)              -- RUB(REF_EMPTY, *node2 / *node3, ...)
  | (.ok, _) => (.failure, 0, 0)         -- REIS(2, ncell, ...)
  | (st, _) => (st, 0, 0)

/-- `ref_swap_manifold` -/
def swapManifold (g : Grid) (n0 n1 : Nat) : Status × Bool :=
  match swapNode23 g n0 n1 with
  | (.ok, n2, n3) =>
    -- list_with2 / REIS(2, ncell) cannot fail after node23 succeeded on the same grid
    if cellWith g.tri [n0, n3, n2] then (.ok, false)
    else if cellWith g.tri [n1, n2, n3] then (.ok, false)
    else if hasSide e2nTri g.tri n2 n3 then (.ok, false)
    else (.ok, true)
  | (st, _, _) => (st, false)

/-! ## numeric guards (generic over `Scalar`) -/
section Numeric
variable {α : Type} [Scalar α]

/-- `REF_STATUS` of the Geom kernels as a `Status` -/
def ofSt : St → Status
  | .ok => .ok | .failure => .failure | .invalid => .invalid | .divZero => .div_zero | .implement => .implement

/-- `ref_node_xyz(ref_node, *, node)` -/
def pt (xyz : List (V3 α)) (n : Nat) : V3 α := xyz.getD n V3.zero

/-- `ref_node->same_normal_tol = 1.0 - 1.0e-8` (ref_node_create) -/
def sameNormalTol : α := lit1 -. Scalar.ofDec 1 (-8)

/-- `nodes[node] = node0` for every `node1 == nodes[node]` -/
def subst (n1 n0 : Nat) (nodes : List Nat) : List Nat := nodes.map fun n => if n == n1 then n0 else n

/-- `ref_node_tri_normal(ref_node, nodes, normal)` -/
def cellNormal (xyz : List (V3 α)) (nodes : List Nat) : V3 α :=
  triNormal (pt xyz (nodes.getD 0 0)) (pt xyz (nodes.getD 1 0)) (pt xyz (nodes.getD 2 0))

/-- loop body of `ref_collapse_edge_same_normal`; `none` = continue with the next triangle -/
def sameNormalStep (xyz : List (V3 α)) (n0 n1 : Nat) (c : Cell) : Option (Status × Bool) :=
  if n0 == c.nd 0 || n0 == c.nd 1 || n0 == c.nd 2 then none else
  -- ref_geom_tri_supported: no CAD, never supported
  match normalize (cellNormal xyz c.nodes) with
  | (St.ok, nrm0) =>
    match normalize (cellNormal xyz (subst n1 n0 c.nodes)) with
    | (St.divZero, _) => some (.ok, false)
    | (St.ok, nrm1) =>
      if dot nrm0 nrm1 <. (sameNormalTol : α) then some (.ok, false) else none
    | (st, _) => some (ofSt st, true)
  | (st, _) => some (ofSt st, true)

/-- first `some` of a loop body over a list, else the value after the loop -/
def firstSome {β γ : Type} (f : β → Option γ) (dflt : γ) : List β → γ
  | [] => dflt
  | x :: xs => match f x with
    | some r => r
    | none => firstSome f dflt xs

/-- `ref_collapse_edge_same_normal(ref_grid, node0, node1, &allowed)` (no geometry support) -/
def collapseEdgeSameNormal (g : Grid) (xyz : List (V3 α)) (n0 n1 : Nat) : Status × Bool :=
  firstSome (sameNormalStep xyz n0 n1) (.ok, true) (having g.tri n1)

/-- loop body of `ref_collapse_edge_same_tangent(ref_grid, keep, remove, &allowed)` -/
def sameTangentStep (xyz : List (V3 α)) (keep remove : Nat) (c : Cell) : Option (Status × Bool) :=
  if keep == c.nd 0 || keep == c.nd 1 then none else
  -- other = last node of the edg that is not `remove`
  let other : Option Nat :=
    if c.nd 1 != remove then some (c.nd 1) else if c.nd 0 != remove then some (c.nd 0) else none
  match other with
  | none => some (.failure, true)        -- RAS(REF_EMPTY != other, ...)
  | some o =>
    let t0 := V3.sub (pt xyz remove) (pt xyz o)
    let t1 := V3.sub (pt xyz keep) (pt xyz o)
    match normalize t0 with
    | (St.ok, t0n) =>
      match normalize t1 with
      | (St.divZero, _) => some (.ok, false)
      | (_, t1n) =>                       -- a REF_FAILURE of the second normalize is not looked at
        if dot t0n t1n <. (sameNormalTol : α) then some (.ok, false) else none
    | (st, _) => some (ofSt st, true)

/-- `ref_collapse_edge_same_tangent` -/
def collapseEdgeSameTangent (g : Grid) (xyz : List (V3 α)) (keep remove : Nat) : Status × Bool :=
  firstSome (sameTangentStep xyz keep remove) (.ok, true) (having g.edg remove)

/-- the body executed for one `node1 == nodes[node]` of `ref_collapse_edge_chord_height`:
    `true` = the function returns with `*allowed == REF_FALSE` -/
def chordReject (xyz : List (V3 α)) (n0 n1 third : Nat) : Bool :=
  let a := V3.sub (pt xyz n1) (pt xyz n0)
  let b := V3.sub (pt xyz third) (pt xyz n0)
  let newLength := Scalar.sqrt (dot b b)
  let cp := cross a b
  let crossLength := Scalar.sqrt (dot cp cp)
  if Scalar.divisible crossLength newLength then
    let chord := crossLength /. newLength
    if Scalar.divisible chord newLength then
      let chordRatio := chord /. newLength
      (Scalar.ofDec 1 (-1) : α) <. chordRatio
    else true
  else true

/-- loop body of `ref_collapse_edge_chord_height` for one edg -/
def chordStep (xyz : List (V3 α)) (n0 n1 : Nat) (c : Cell) : Option (Status × Bool) :=
  if n0 == c.nd 0 || n0 == c.nd 1 then none else
  if n1 == c.nd 0 && chordReject xyz n0 n1 (c.nd 1) then some (.ok, false) else
  if n1 == c.nd 1 && chordReject xyz n0 n1 (c.nd 0) then some (.ok, false) else none

/-- `ref_collapse_edge_chord_height(ref_grid, node0, node1, &allowed)` -/
def collapseEdgeChordHeight (g : Grid) (xyz : List (V3 α)) (n0 n1 : Nat) : Status × Bool :=
  firstSome (chordStep xyz n0 n1) (.ok, true) (having g.edg n1)

/-- loop of `ref_smooth_node_same_normal`, carrying `first_normal` once it is set -/
def smoothSameNormalGo (xyz : List (V3 α)) : List Cell → Option (V3 α) → Status × Bool
  | [], _ => (.ok, true)
  | c :: rest, first =>
    let normal := cellNormal xyz c.nodes
    let firstR : Status × V3 α :=
      match first with
      | some f => (.ok, f)
      | none => let r := normalize normal; (ofSt r.1, r.2)
    if firstR.1 != .ok then (firstR.1, true) else
    match normalize normal with
    | (St.divZero, _) => (.ok, false)
    | (St.ok, nrm) =>
      if dot firstR.2 nrm <. (sameNormalTol : α) then (.ok, false)
      else smoothSameNormalGo xyz rest (some firstR.2)
    | (st, _) => (ofSt st, true)

/-- `ref_smooth_node_same_normal(ref_grid, node, &allowed)` (static, ref_smooth.c) -/
def smoothNodeSameNormal (g : Grid) (xyz : List (V3 α)) (node : Nat) : Status × Bool :=
  smoothSameNormalGo xyz (having g.tri node) none

/-- `ref_smooth_node_same_tangent(ref_grid, node, node0, node1, &allowed)` (static) -/
def smoothNodeSameTangent (xyz : List (V3 α)) (node node0 node1 : Nat) : Status × Bool :=
  let tan0 := V3.sub (pt xyz node) (pt xyz node0)
  let tan1 := V3.sub (pt xyz node1) (pt xyz node)
  match normalize tan0 with
  | (St.ok, t0) =>
    match normalize tan1 with
    | (St.ok, t1) => if dot t0 t1 <. (sameNormalTol : α) then (.ok, false) else (.ok, true)
    | (st, _) => (ofSt st, true)
  | (st, _) => (ofSt st, true)

/-- `ref_swap_conforming`, branch taken when a triangle has no geometry support (always, without CAD) -/
def swapConforming (g : Grid) (xyz : List (V3 α)) (n0 n1 : Nat) : Status × Bool :=
  match swapNode23 g n0 n1 with
  | (.ok, n2, n3) =>
    match listWith2 g.tri n0 n1 2 with
    | (.ok, [c0, c1]) =>
      match normalize (cellNormal xyz c0.nodes) with
      | (St.ok, nrm0) =>
        match normalize (cellNormal xyz c1.nodes) with
        | (St.ok, nrm1) =>
          if dot nrm0 nrm1 <. (sameNormalTol : α) then (.ok, false) else
          let normal2 := cellNormal xyz [n0, n3, n2]
          let normal3 := cellNormal xyz [n1, n2, n3]
          let d := Scalar.cmin (dot normal2 normal2) (dot normal3 normal3)
          if !(Scalar.divisible (lit1 : α) d) then (.ok, false) else
          match normalize normal2 with
          | (St.ok, nrm2) =>
            match normalize normal3 with
            | (St.ok, nrm3) =>
              if dot nrm2 nrm3 <. (sameNormalTol : α) then (.ok, false) else (.ok, true)
            | (st, _) => (ofSt st, false)
          | (st, _) => (ofSt st, false)
        | (st, _) => (ofSt st, false)
      | (st, _) => (ofSt st, false)
    | (.ok, _) => (.failure, false)
    | (st, _) => (st, false)
  | (st, _, _) => (st, false)

/-- `weight_node1 = MIN(0.95, MAX(0.05, weight_node1))` (ref_split_pass) -/
def clampWeight (w : α) : α :=
  Scalar.cmin (Scalar.ofDec 95 (-2)) (Scalar.cmax (Scalar.ofDec 5 (-2)) w)

/-- xyz part of `ref_node_interpolate_edge(ref_node, node0, node1, node1_weight, new_node)`
    (the same statements as `Geom.interpolateEdgeXyz`, tied a second time here through the grid) -/
def interpolateEdge (xyz : List (V3 α)) (n0 n1 : Nat) (w1 : α) : V3 α :=
  interpolateEdgeXyz (pt xyz n0) (pt xyz n1) w1

/-- what `ref_split_pass` does to place the trial vertex: clamp, then interpolate on the chord -/
def splitPoint (xyz : List (V3 α)) (n0 n1 : Nat) (w : α) : V3 α :=
  interpolateEdge xyz n0 n1 (clampWeight w)

/-! ### boundary smoothing: which neighbourhoods are never moved -/

/-- `ref_smooth_edge_neighbors(ref_grid, node, &node0, &node1)`: `(status, node0, node1)` with `none` for
    `REF_EMPTY`; a third boundary edge is `THROW` (`REF_FAILURE`) -/
def edgeNeighborsGo (node : Nat) : List Cell → Option Nat → Option Nat → Status × Option Nat × Option Nat
  | [], a, b => (.ok, a, b)
  | c :: rest, a, b =>
    -- each_ref_cell_cell_edge: an edg has the single edge (0,1)
    if node == c.nd 0 || node == c.nd 1 then
      let other := if node == c.nd 0 then c.nd 1 else c.nd 0
      match a, b with
      | none, _ => edgeNeighborsGo node rest (some other) b
      | some _, none => edgeNeighborsGo node rest a (some other)
      | some _, some _ => (.failure, a, b)
    else edgeNeighborsGo node rest a b

def smoothEdgeNeighbors (g : Grid) (node : Nat) : Status × Option Nat × Option Nat :=
  edgeNeighborsGo node (having g.edg node) none none

/-- early exits of `ref_smooth_no_geom_tri_improve(ref_grid, node)`: `(status, frozen)`; `frozen = true`
    means the function returns before it touches `ref_node_xyz(node)`.
    `geomFace` is `ref_geom_is_a(.., node, REF_GEOM_FACE, ..)` (false without CAD). -/
def smoothTriFrozen (g : Grid) (geomFace : Bool) (xyz : List (V3 α)) (node : Nat) : Status × Bool :=
  if !nodeEmpty g.qua node then (.ok, true) else
  if !nodeEmpty g.pyr node || !nodeEmpty g.pri node || !nodeEmpty g.hex node then (.ok, true) else
  if !nodeEmpty g.edg node then (.ok, true) else
  -- RXS(ref_cell_id_list_around(tri, node, 2, &n_ids, ids), REF_INCREASE_LIMIT, ..); if (n_ids > 1) return
  if (idListAround g.tri node 2).2.length > 1 then (.ok, true) else
  if geomFace then (.ok, true) else
  match smoothNodeSameNormal g xyz node with
  | (.ok, allowed) => (.ok, !allowed)
  | (st, _) => (st, true)

/-- early exits of `ref_smooth_no_geom_edge_improve(ref_grid, node)` -/
def smoothEdgeFrozen (g : Grid) (geomEdge : Bool) (xyz : List (V3 α)) (node : Nat) : Status × Bool :=
  if nodeEmpty g.edg node then (.ok, true) else
  if !nodeEmpty g.qua node then (.ok, true) else
  if !nodeEmpty g.pyr node || !nodeEmpty g.pri node || !nodeEmpty g.hex node then (.ok, true) else
  if geomEdge then (.ok, true) else
  -- RXS(ref_cell_id_list_around(edg, node, 2, &n_ids, ids), REF_INCREASE_LIMIT, ..); if (n_ids > 1) return
  -- (fix 36d5222: a node that separates two edg ids is not moved)
  if (idListAround g.edg node 2).2.length > 1 then (.ok, true) else
  match smoothEdgeNeighbors g node with
  | (.ok, some a, some b) =>
    match smoothNodeSameTangent xyz node a b with
    | (.ok, allowed) => (.ok, !allowed)
    | (st, _) => (st, true)
  | (.ok, _, _) => (.ok, true)           -- REF_EMPTY == node1
  | (st, _, _) => (st, true)

end Numeric

/-! ## the kernels' effect on the cell lists (what the frame lemmas are about) -/

/-- node substitution `n1 ↦ n0` in one cell (`ref_cell_replace_node`) -/
def Cell.subst (n1 n0 : Nat) (c : Cell) : Cell := { c with nodes := c.nodes.map fun n => if n == n1 then n0 else n }

/-- effect of `ref_collapse_edge` on one group: cells containing both nodes are removed, `n1 ↦ n0` elsewhere -/
def collapseGroup (cells : List Cell) (n0 n1 : Nat) : List Cell :=
  (cells.filter fun c => !(c.nodes.contains n0 && c.nodes.contains n1)).map (Cell.subst n1 n0)

/-- effect of `ref_split_edge` on one group: each cell containing both nodes is replaced by its two copies
    (`n0 ↦ new`, `n1 ↦ new`), with the id it had -/
def splitGroup (cells : List Cell) (n0 n1 new : Nat) : List Cell :=
  cells.flatMap fun c =>
    if c.nodes.contains n0 && c.nodes.contains n1 then [Cell.subst n0 new c, Cell.subst n1 new c] else [c]

/-- set of face ids present on a group -/
def idsOf (cells : List Cell) : List Int := cells.map (·.id)

end Refine.Model.Guards
