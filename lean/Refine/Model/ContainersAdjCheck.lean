import Refine.Model.ContainersAdj

/-!
  Executable checker of the structural invariant of `REF_ADJ` (core-only).

  `invCheck s` follows the free list and every node list of a state dump, requires every walk to
  reach `REF_EMPTY` within `nitem` steps over in-range items, and requires the visited items
  (free list first, then node 0, 1, ...) to be duplicate free and exactly `nitem` many; blank
  items must carry `ref = REF_EMPTY`.  `Lemmas/ContainersAdjCheck.lean` proves
  `invCheck s = true ↔ Inv s`.

  Cost: `O(nitem + nnode)` array operations (the `next`/`ref` lists are converted to arrays once,
  duplicates are detected with a mark array).
-/
namespace Refine.Model
namespace RAdj

/-- follow `next` from `item`: `some l` when `REF_EMPTY` is reached within `fuel` steps and all
    visited items `l` are in `[0, size)`; `none` otherwise -/
def chainOf (nx : Array Int) : (fuel : Nat) → (item : Int) → Option (List Nat)
  | 0, item => if item = EMPTY then some [] else none
  | f + 1, item =>
    if item = EMPTY then some []
    else if 0 ≤ item ∧ item.toNat < nx.size then
      match chainOf nx f (nx.getD item.toNat EMPTY) with
      | some l => some (item.toNat :: l)
      | none => none
    else none

/-- mark the entries of `l` in `m`; `false` on an out-of-range or already marked entry -/
def markAll : List Nat → Array Bool → Bool
  | [], _ => true
  | k :: l, m =>
    match m[k]? with
    | some false => markAll l (m.setIfInBounds k true)
    | _ => false

/-- `l` is duplicate free with all entries below `n` -/
def nodupBelow (n : Nat) (l : List Nat) : Bool := markAll l (Array.replicate n false)

/-- the free list as item numbers (`none`: the walk does not end / leaves the range) -/
def blankChain (s : RAdj) : Option (List Nat) := chainOf s.next.toArray s.nitem s.blank

/-- the item numbers of every node list, node 0 first -/
def nodeChains (s : RAdj) : List (Option (List Nat)) := s.first.map (chainOf s.next.toArray s.nitem)

/-- free list followed by all node lists -/
def allItems (s : RAdj) : List Nat :=
  (s.blankChain).getD [] ++ ((s.nodeChains).map (fun o => o.getD [])).flatten

/-- executable version of `Inv` -/
def invCheck (s : RAdj) : Bool :=
  s.ref.length == s.next.length && decide (s.next.length ≤ INT_MAX) &&
  (s.blankChain).isSome && (s.nodeChains).all Option.isSome &&
  (let rf := s.ref.toArray
   ((s.blankChain).getD []).all (fun k => rf.getD k EMPTY == EMPTY)) &&
  (s.allItems).length == s.nitem && nodupBelow s.nitem s.allItems

end RAdj
end Refine.Model
