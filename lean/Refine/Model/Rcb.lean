import Refine.Scalar
import Refine.Model.Geom
import Refine.Model.Comm
import Refine.Model.Dist

/-!
  The native load balancer of `ref_migrate.c` (this build has neither Zoltan nor ParMETIS):

    ref_migrate_to_balance → ref_migrate_new_part → ref_migrate_native_rcb_part
      → ref_migrate_native_rcb_direction (recursive) with ref_migrate_split_dir, ref_migrate_split_ratio,
        ref_search_selection, ref_mpi_balance, ref_mpi_front_comm and, at the leaves, ref_mpi_blindsend on
        the global communicator;
    then ref_node_ghost_int on the part array.

  SPMD convention of `Refine.Model.Comm`: a `World` lists the per-rank data of one communicator in rank
  order.  `ref_mpi_front_comm(ref_mpi, &split, npart0)` (colour 0 for `rank < npart0`, key = rank) is
  `w.take npart0` / `w.drop npart0`.  Collectives that `Model/Comm.lean` already models are *called*
  (`selection`, `worldMin/worldMax` = `ref_mpi_min/max + bcast`, `balance`, `blindsend`, `Dist.ghost`);
  the three parallel arrays `xyz / owners / locals` that the C balances with three `ref_mpi_balance` calls
  of identical counts travel as one record (`Rec`), and the two leaf `ref_mpi_blindsend` calls
  (`my_id`, `locals`; identical destinations) as one pair: the destinations depend on the counts only.

  `Option.none` = "not every rank returns REF_SUCCESS" (see `Model/Comm.lean`).  The C reaches that only
  outside the precondition `npart ≤ ref_mpi_n` which `ref_migrate_to_balance` establishes
  (`npart = MIN(ref_mpi_n, heuristic)`): `ref_mpi_balance` onto an empty rank range trips its
  `share mismatch` check.

  Doubles are generic over `Scalar` (+ `RcbScalar` for `sin/cos/acos` and the `(REF_LONG)` cast); the
  `Float` instances reproduce the C bit for bit (tie: `Drivers/Rcb.lean` vs `harness/h_rcb.c`).
  The libc `rand()` stream is the explicit parameter `rands : List Nat` (never seeded by refine).

  Core-only imports.
-/
namespace Refine.Model.Rcb
open Refine Refine.Model.Comm Refine.Model.Geom

/-- what `Scalar` lacks for this file: libm `sin`, `cos`, `acos` and the C cast `(REF_LONG)x` -/
class RcbScalar (α : Type) where
  sin : α → α
  cos : α → α
  acos : α → α
  /-- `(REF_LONG)x`: truncation toward zero -/
  truncInt : α → Int

instance : RcbScalar Float where
  sin := Float.sin
  cos := Float.cos
  acos := Float.acos
  truncInt := fun x => x.toInt64.toInt

/-- `REF_DBL transform[9]`, `transform[row + 3*col]` -/
structure M9 (α : Type) where
  t0 : α
  t1 : α
  t2 : α
  t3 : α
  t4 : α
  t5 : α
  t6 : α
  t7 : α
  t8 : α

/-- a point on its way through the recursion: coordinates, owner rank (`owners[]`), slot on the owner
    (`locals[]`) -/
structure Rec (α : Type) where
  p : V3 α
  owner : Nat
  loc : Nat

section Kernel
variable {α : Type} [Scalar α]

instance : Inhabited (Rec α) := ⟨⟨⟨Scalar.ofInt 0, Scalar.ofInt 0, Scalar.ofInt 0⟩, 0, 0⟩⟩

/-- `ref_matrix_ax(3, a, x, ax)`: `ax[row] = 0.0; ax[row] += a[row + 3*col] * x[col]` for col = 0, 1, 2 -/
def ax (t : M9 α) (v : V3 α) : V3 α :=
  ⟨((Scalar.ofInt 0 +. t.t0 *. v.x) +. t.t3 *. v.y) +. t.t6 *. v.z,
   ((Scalar.ofInt 0 +. t.t1 *. v.x) +. t.t4 *. v.y) +. t.t7 *. v.z,
   ((Scalar.ofInt 0 +. t.t2 *. v.x) +. t.t5 *. v.y) +. t.t8 *. v.z⟩

/-- `transformed[dir]` -/
def coordOf (dir : Nat) (v : V3 α) : α :=
  match dir with
  | 0 => v.x
  | 1 => v.y
  | _ => v.z

/-- `ref_migrate_split_ratio`: `half = n / 2` (C division); `REF_DIV_ZERO` with ratio 0 when
    `!ref_math_divisible(half, n)` -/
def splitRatio (n : Int) : Status × α :=
  let half : Int := Int.tdiv n 2
  if Scalar.divisible (Scalar.ofInt half : α) (Scalar.ofInt n) then
    (Status.ok, (Scalar.ofInt half : α) /. Scalar.ofInt n)
  else (Status.div_zero, Scalar.ofInt 0)

/-- `ref_migrate_split_dir` on the already transformed points of every rank of the communicator:
    local `MIN/MAX` loops from `REF_DBL_MAX / REF_DBL_MIN`, `ref_mpi_min/max + ref_mpi_bcast` per component
    (= `worldMin/worldMax`), then the two `>=` tests (the later one wins) -/
def splitDirT (w : World (List (V3 α))) : Nat :=
  let ext (j : Nat) : α :=
    worldMax (w.map fun l => l.map (coordOf j)) -. worldMin (w.map fun l => l.map (coordOf j))
  let e0 := ext 0
  let e1 := ext 1
  let e2 := ext 2
  let d : Nat := 0
  let d := if Scalar.le e0 e1 && Scalar.le e2 e1 then 1 else d
  let d := if Scalar.le e0 e2 && Scalar.le e1 e2 then 2 else d
  d

/-- `ref_migrate_split_dir(ref_mpi, n, xyz, transform, &dir)` -/
def splitDir (t : M9 α) (w : World (List (V3 α))) : Nat :=
  splitDirT (w.map fun l => l.map (ax t))

end Kernel

section Direction
variable {α : Type} [Scalar α] [RcbScalar α]

/-- `seed_base = 3`; `ratio_shift = (REF_DBL)(seed % seed_base) / (REF_DBL)seed_base` (C remainder) -/
def ratioShift (seed : Int) : α := (Scalar.ofInt (Int.tmod seed 3) : α) /. Scalar.ofInt 3

/-- the two cut values of one level: `dir`, `value0`, `value1`.
    `ratio0 = ratio * ratio_shift; ratio1 = 1.0 - (ratio - ratio0);`
    `position = (REF_LONG)((REF_DBL)total * ratio0)` → `value0`, likewise `ratio1` → `value1`. -/
structure Cut (α : Type) where
  status : Status
  dir : Nat
  v0 : α
  v1 : α

/-- the two positions handed to `ref_search_selection`:
    `(REF_LONG)((REF_DBL)total * ratio0)` and `(REF_LONG)((REF_DBL)total * ratio1)` -/
def cutPos (seed : Int) (npart : Nat) (total : Int) : Int × Int :=
  let ratio : α := (splitRatio (α := α) (npart : Int)).2
  let ratio0 := ratio *. ratioShift seed
  let ratio1 := (Scalar.ofInt 1 : α) -. (ratio -. ratio0)
  (RcbScalar.truncInt ((Scalar.ofInt total : α) *. ratio0), RcbScalar.truncInt ((Scalar.ofInt total : α) *. ratio1))

/-- `x[i] = transformed[dir]` of every record of every rank -/
def cutCoords (t : M9 α) (d : Nat) (w : World (List (Rec α))) : World (List α) :=
  w.map fun l => l.map fun r => coordOf d (ax t r.p)

/-- the direction used at this level: `ref_migrate_split_dir` when `dir` is not 0, 1 or 2 -/
def cutDir (t : M9 α) (dir : Int) (w : World (List (Rec α))) : Nat :=
  if dir < 0 || 2 < dir then splitDirT (w.map fun l => l.map fun r => ax t r.p) else dir.toNat

def cutOf (t : M9 α) (seed : Int) (npart : Nat) (dir : Int) (w : World (List (Rec α))) : Cut α :=
  let d : Nat := cutDir t dir w
  let xs : World (List α) := cutCoords t d w
  let total : Int := isum (w.map fun l => (l.length : Int))
  let pos := cutPos (α := α) seed npart total
  ⟨(splitRatio (α := α) (npart : Int)).1, d, selection xs pos.1, selection xs pos.2⟩

/-- the test of the copy loop: `x[i] < value0 || value1 < x[i]` → half 0 -/
def inOuter (t : M9 α) (c : Cut α) (r : Rec α) : Bool :=
  let x := coordOf c.dir (ax t r.p)
  Scalar.lt x c.v0 || Scalar.lt c.v1 x

/-- the copy loop on one rank: `(xyz0/owners0/locals0, xyz1/owners1/locals1)`, order kept -/
def splitLocal (t : M9 α) (c : Cut α) (l : List (Rec α)) : List (Rec α) × List (Rec α) :=
  (l.filter (inOuter t c), l.filter fun r => !inOuter t c r)

/-- the `ref_mpi_balance` calls of one half (xyz, owners, locals: same counts, same destinations) -/
def balanceRecs (first last : Int) (w : World (List (Rec α))) : Option (World (List (Rec α))) :=
  match balance false RefType.dbl 0 1 first last (w.map fun l => (l.length, l)) with
  | none => none
  | some res => if res.all (fun x => x.1 == Status.ok) then some (res.map fun x => x.2.2) else none

/-- `cycle_dir = REF_FALSE` in the C: the direction is recomputed at every level -/
def cycleDir : Bool := false

/-- `dir` handed to the recursive calls -/
def nextDir (dir : Nat) (twod : Bool) : Int :=
  if cycleDir then
    let d : Int := (dir : Int) + 1
    let d := if d > 2 then d - 3 else d
    if twod && d > 1 then d - 2 else d
  else -1

/-- `ref_migrate_native_rcb_direction` without the leaf `blindsend`s: per rank of the communicator, in rank
    order, the part id (`offset` of the leaf the rank ends in) and the records it holds there.
    Recursion on `npart` (well-founded: `npart/2 < npart` and `npart - npart/2 < npart` for `npart ≥ 2`). -/
def rcbDirection (t : M9 α) (seed : Int) (twod : Bool) (npart : Nat) (offset : Int) (dir : Int)
    (w : World (List (Rec α))) : Option (World (Int × List (Rec α))) :=
  if _h0 : npart = 0 then some (w.map fun _ => (offset, []))
  else if _h1 : npart = 1 then some (w.map fun l => (offset, l))
  else if w.length < npart then none
  else
    let c := cutOf t seed npart dir w
    if c.status != Status.ok then none else
    let halves := w.map (splitLocal t c)
    let npart0 := npart / 2
    match balanceRecs 0 ((npart0 : Int) - 1) (halves.map (·.1)),
          balanceRecs (npart0 : Int) ((w.length : Int) - 1) (halves.map (·.2)) with
    | some b0, some b1 =>
      match rcbDirection t seed twod npart0 offset (nextDir c.dir twod) (b0.take npart0),
            rcbDirection t seed twod (npart - npart0) (offset + (npart0 : Int)) (nextDir c.dir twod)
              (b1.drop npart0) with
      | some r0, some r1 => some (r0 ++ r1)
      | _, _ => none
    | _, _ => none
termination_by npart
decreasing_by
  all_goals omega

/-- the leaf exchange on the global communicator: `ref_mpi_blindsend(global_mpi, owners, my_id, …)` and
    `ref_mpi_blindsend(global_mpi, owners, locals, …)`; per rank the received `(part, local)` pairs -/
def leafSend (leaves : World (Int × List (Rec α))) : Option (World (List (Int × Int))) :=
  let args : World (Blind (Int × Int)) := leaves.map fun l =>
    ⟨l.2.map fun r => (r.owner : Int), l.2.map fun r => (l.1, (r.loc : Int))⟩
  match blindsend false RefType.int 0 1 args with
  | none => none
  | some res => if res.all (fun x => x.1 == Status.ok) then some (res.map fun x => x.2.2) else none

/-- `for (i = 0; i < nrecv; i++) part[recv_locals[i]] = recv_part[i];` -/
def storeParts (part : List Int) (recv : List (Int × Int)) : List Int :=
  recv.foldl (fun a pl => a.set pl.2.toNat pl.1) part

end Direction

/-- one vertex stored by a rank (slot order): global id, `ref_node_part`, coordinates -/
structure PNode (α : Type) where
  glob : Int
  part : Int
  p : V3 α

section Part
variable {α : Type} [Scalar α] [RcbScalar α]

/-- `2.0 * ref_math_pi * (REF_DBL)(rand()) / (REF_DBL)RAND_MAX` with `ref_math_pi = 3.14159265358979` -/
def angleOf (r : Nat) : α :=
  (((Scalar.ofInt 2 : α) *. Scalar.ofDec 314159265358979 (-14)) *. Scalar.ofInt (r : Int)) /. Scalar.ofInt 2147483647

/-- `ref_matrix_euler_rotation(phi, theta, psi, rotation)` -/
def eulerRotation (phi theta psi : α) : M9 α :=
  let sphi : α := RcbScalar.sin phi
  let cphi : α := RcbScalar.cos phi
  let sth : α := RcbScalar.sin theta
  let cth : α := RcbScalar.cos theta
  let spsi : α := RcbScalar.sin psi
  let cpsi : α := RcbScalar.cos psi
  { t0 := cpsi *. cphi -. cth *. sphi *. spsi
    t3 := cpsi *. sphi +. cth *. cphi *. spsi
    t6 := spsi *. sth
    t1 := (-. spsi) *. cphi -. cth *. sphi *. cpsi
    t4 := (-. spsi) *. sphi +. cth *. cphi *. cpsi
    t7 := cpsi *. sth
    t2 := sth *. sphi
    t5 := (-. sth) *. cphi
    t8 := cth }

/-- the `ref_mpi_once` block of `ref_migrate_native_rcb_part`: one `rand()` in 2-D (rotation about z),
    three in 3-D; a missing stream entry reads as 0 -/
def transformOf (twod : Bool) (rands : List Nat) : M9 α :=
  if twod then
    eulerRotation (angleOf (rands.getD 0 0)) (Scalar.ofInt 0) (Scalar.ofInt 0)
  else
    let phi : α := angleOf (rands.getD 0 0)
    let z : α := ((Scalar.ofInt 2 : α) *. Scalar.ofInt ((rands.getD 1 0 : Nat) : Int)) /. Scalar.ofInt 2147483647
                  -. Scalar.ofInt 1
    let z := Scalar.cmax (Scalar.cmin z (Scalar.ofInt 1)) (-. (Scalar.ofInt 1 : α))
    let theta : α := RcbScalar.acos z
    let psi : α := angleOf (rands.getD 2 0)
    eulerRotation phi theta psi

/-- number of `rand()` calls made (by rank 0) -/
def randsUsed (twod : Bool) : Nat := if twod then 1 else 3

/-- the owned vertices of rank `me` in slot order: `xyz`, `owners[n] = ref_node_part`, `locals[n] = node` -/
def ownedRecs (me : Nat) (nodes : List (PNode α)) : List (Rec α) :=
  (nodes.zipIdx.filter fun x => x.1.part == (me : Int)).map fun x => ⟨x.1.p, me, x.2⟩

/-- `ref_grid_partitioner_seed(ref_grid)++; if (… < 0) … = 0;` -/
def nextSeed (seed : Int) : Int := if seed + 1 < 0 then 0 else seed + 1

/-- `ref_migrate_native_rcb_part`: `node_part` of every rank (`REF_EMPTY` where nothing was stored) -/
def rcbPart (npart : Nat) (seed : Int) (twod : Bool) (rands : List Nat) (w : World (List (PNode α))) :
    Option (World (List Int)) :=
  let t : M9 α := transformOf twod rands
  let recs : World (List (Rec α)) := w.mapIdx fun r nodes => ownedRecs r nodes
  match rcbDirection t seed twod npart 0 (-1) recs with
  | none => none
  | some leaves =>
    match leafSend leaves with
    | none => none
    | some recv =>
      some ((w.zip recv).map fun x => storeParts (List.replicate x.1.length (-1)) x.2)

/-- `ref_migrate_single_part` -/
def singlePart (w : World (List (PNode α))) : World (List Int) := w.map fun nodes => nodes.map fun _ => 0

/-- the range check of `ref_migrate_report_load_balance` (`RAB(0 <= node_part[node] && node_part[node] <
    ref_mpi_n, "part out of range")` on owned vertices) -/
def reportOk (w : World (List (PNode α))) (parts : World (List Int)) : Bool :=
  ((w.zip parts).zipIdx).all fun x =>
    (x.1.1.zip x.1.2).all fun np =>
      np.1.part != (x.2 : Int) || (decide (0 ≤ np.2) && decide (np.2 < (w.length : Int)))

/-- `ref_migrate_new_part` in this build (no Zoltan, no ParMETIS: the `switch` falls through to the native RCB
    for every method but `REF_MIGRATE_SINGLE` = 1; `REF_MIGRATE_LAST` = 6 and above: `REF_IMPLEMENT`). -/
def newPart (method : Nat) (npart : Int) (seed : Int) (twod : Bool) (rands : List Nat)
    (w : World (List (PNode α))) : Option (Status × World (List Int)) :=
  if w.length ≤ 1 || decide (npart < 2) then some (Status.ok, singlePart w)
  else if method == 1 then some (Status.ok, singlePart w)
  else if method ≥ 6 then some (Status.implement, w.map fun nodes => nodes.map fun _ => -1)
  else
    match rcbPart (α := α) npart.toNat seed twod rands w with
    | none => none
    | some parts => if reportOk w parts then some (Status.ok, parts) else none

/-- the `npart` of `ref_migrate_to_balance`: all ranks with `REF_VERIF_PARTITIONER_FULL`, else
    `node_per_core = MAX(1000, 10*max_age); heuristic = MAX(1, n_global / node_per_core);
     npart = MIN(ref_mpi_n, heuristic)` -/
def balanceNpart (full : Bool) (np : Nat) (nGlobal : Int) (maxAge : Int) : Int :=
  if full then (np : Int) else
  let nodePerCore : Int := if 1000 > 10 * maxAge then 1000 else 10 * maxAge
  let q : Int := Int.tdiv nGlobal nodePerCore
  let heuristic : Int := if 1 > q then 1 else q
  if (np : Int) < heuristic then (np : Int) else heuristic

/-- `ref_node_ghost_int(ref_node, node_part, 1)` -/
def ghostParts (w : World (List (PNode α))) (parts : World (List Int)) : Option (World (List Int)) :=
  let g : World (List (Refine.Model.Dist.GNode Int)) := (w.zip parts).map fun x =>
    (x.1.zip x.2).map fun np => ⟨np.1.glob, np.1.part, [np.2]⟩
  (Refine.Model.Dist.ghost RefType.int 1 g).map fun res => res.map fun nodes => nodes.map fun nd => nd.vals.getD 0 0

/-- `ref_migrate_new_part` followed by `ref_node_ghost_int` on the part array, as `ref_migrate_to_balance`
    does before it overwrites `ref_node_part` and calls `ref_migrate_shufflin` -/
def newPartGhost (method : Nat) (npart : Int) (seed : Int) (twod : Bool) (rands : List Nat)
    (w : World (List (PNode α))) : Option (Status × World (List Int)) :=
  match newPart method npart seed twod rands w with
  | none => none
  | some (st, parts) =>
    if st != Status.ok then some (st, parts) else
    (ghostParts w parts).map fun p => (Status.ok, p)

end Part

end Refine.Model.Rcb
