import Refine.Model.Meshb
import Refine.Gen.MetricOrder

/-!
  L7 Codec, part 2: libMeshb solution files (`.solb`, keyword 62 `SolAtVertices`).

  writers  `ref_gather_node_scalar_solb`, `ref_gather_node_metric_solb`   (ref_gather.c)
  readers  `ref_part_scalar_solb`, `ref_part_metric_solb`                 (ref_part.c)

  Serial paths (one rank: `chunk` covers the whole file unless an integer cast wraps).
  The node numbering of the grid is the identity in the reader model (`global i = local i`,
  `n` nodes); the driver applies the global ↔ local permutation for the writer ops.
  `ref_node_metric_set` (which also stores `log m`) is taken to succeed — its status on
  non-SPD input belongs to the matrix kernel (C16), not to the codec.
-/
namespace Refine.Model.Solb
open Refine.Gen Refine.Model.Meshb

/-- a vertex field as the file stores it: `ldim` doubles per vertex, rows in global vertex order -/
structure SolFile where
  twod : Bool
  ldim : Nat
  rows : List (List UInt64)
  deriving DecidableEq, Repr, Inhabited

/-- `ref_gather_meshb_glob`: the vertex count as `int` (v<4) or `long` -/
def encGlob (v : Nat) (n : Nat) : Bytes :=
  if v < 4 then encLE 4 (ofSigned 32 n) else encLE 8 (ofSigned 64 n)

def secDimOf (v : Nat) (twod : Bool) : Sec :=
  { kw := 3, declLen := 4 + fpSize v + 4, body := le32 (if twod then 2 else 3) }

/-- keyword 62 as written by `ref_gather_node_scalar_solb`: count, `ldim` solutions all of type 1 -/
def secSol (v : Nat) (s : SolFile) : Sec :=
  { kw := 62,
    declLen := headerSize v + (4 + s.ldim * 4) + s.rows.length * (s.ldim * 8),
    body := encGlob v s.rows.length ++ le32 s.ldim ++ (List.replicate s.ldim (le32 1)).flatten ++
            s.rows.flatMap (fun r => r.flatMap encF64) }

/-- `ref_gather_node_scalar_solb` (+ `ref_gather_node_scalar_bin`) on one rank -/
def encodeSolb (v : Nat) (s : SolFile) : Bytes :=
  le32 1 ++ le32 v ++ layout v 8 [secDimOf v s.twod, secSol v s]

/-- a metric in memory order (m11,m12,m13,m22,m23,m33) → the values in file order -/
def metricToFile (twod : Bool) (m : List UInt64) : List UInt64 :=
  (if twod then MetricOrder.write2 else MetricOrder.write3).map fun k => m.getD k 0

/-- keyword 62 as written by `ref_gather_node_metric_solb`: one solution of type 3 -/
def secMetric (v : Nat) (twod : Bool) (ms : List (List UInt64)) : Sec :=
  { kw := 62,
    declLen := headerSize v + (4 + 4) + ms.length * ((if twod then 3 else 6) * 8),
    body := encGlob v ms.length ++ le32 1 ++ le32 3 ++
            ms.flatMap (fun m => (metricToFile twod m).flatMap encF64) }

def encodeMetricSolb (v : Nat) (twod : Bool) (ms : List (List UInt64)) : Bytes :=
  le32 1 ++ le32 v ++ layout v 8 [secDimOf v twod, secMetric v twod ms]

/-! ## readers -/

/-- `ref_part_meshb_long` -/
def rdLong (v : Nat) : P Int := fun s =>
  if v < 4 then rdI32 s else
  match rdU 8 s with
  | .ok (n, r) => .ok (toSigned 64 n, r)
  | .error e => .error e

def rdF64s : Nat → P (List UInt64)
  | 0, s => .ok ([], s)
  | n + 1, s =>
    match rdF64 s with
    | .error e => .error e
    | .ok (x, s) =>
    match rdF64s n s with
    | .error e => .error e
    | .ok (xs, s) => .ok (x :: xs, s)

/-- `m` rows, each read by `rdRow` -/
def rdRowsWith (rdRow : P (List UInt64)) : Nat → P (List (List UInt64))
  | 0, s => .ok ([], s)
  | m + 1, s =>
    match rdRow s with
    | .error e => .error e
    | .ok (r, s) =>
    match rdRowsWith rdRow m s with
    | .error e => .error e
    | .ok (rs, s) => .ok (r :: rs, s)

/-- the solution type list: `ntype` types, each a checked 4-byte read; `width t` = components or
    `none` when the type is rejected -/
def rdTypes (width : Int → Option Nat) : Nat → Nat → P Nat
  | 0, ldim, s => .ok (ldim, s)
  | n + 1, ldim, s =>
    match rdI32 s with
    | .error e => .error e
    | .ok (t, s) =>
    match width t with
    | none => .error .failure
    | some w => rdTypes width n (ldim + w) s

/-- common prefix of both readers: header, version 2..4, dimension, jump to 62, count, `ntype` -/
def solPrefix (cfg : Cfg) (bs : Bytes) : Except Status (Nat × Nat × Int × Int × Int × Bytes) :=
  match header cfg bs with
  | .error e => .error e
  | .ok (v, kp) =>
  if v < 2 ∨ 4 < v then .error .failure else
  match jump v bs kp 3 with
  | .error e => .error e
  | .ok none => .error .failure
  | .ok (some (_, s)) =>
  match rdI32 s with
  | .error e => .error e
  | .ok (dim, _) =>
  if dim < 2 ∨ 3 < dim then .error .failure else
  match jump v bs kp 62 with
  | .error e => .error e
  | .ok none => .error .failure
  | .ok (some (next, s)) =>
  match rdLong v s with
  | .error e => .error e
  | .ok (nnode, s) =>
  match rdI32 s with
  | .error e => .error e
  | .ok (ntype, s) => .ok (v, dim.toNat, next, nnode, ntype, s)

/-- `chunk = (REF_INT)MAX(100000, nnode / 1); chunk = (REF_INT)MIN((REF_LONG)chunk, nnode)` -/
def chunkOf (nnode : Int) : Int := wrap32 (min (wrap32 (max 100000 nnode)) nnode)

/-- rows of the file placed into the local array: file row `k` goes to node `first + k`, and in a
    2-D file also to node `nnode + first + k` (legacy extruded grids) -/
def place (n : Nat) (twod : Bool) (nnode first : Int) (rows : List (List UInt64))
    (arr : List (List UInt64)) : List (List UInt64) :=
  (List.range n).zip arr |>.map fun (j, old) =>
    let k1 : Int := (j : Int) - first
    let k2 : Int := (j : Int) - nnode - first
    -- both assignments for one target cannot occur in one block (`k1 = k2 + nnode ≥ rows.length`);
    -- in loop order the first kind would come later, so it wins
    let a := if twod ∧ 0 ≤ k2 ∧ k2 < rows.length then rows.getD k2.toNat old else old
    if 0 ≤ k1 ∧ k1 < rows.length then rows.getD k1.toNat a else a

/-- the `while (nnode_read < nnode)` loop; `perRow` reads one file row into memory layout -/
def readLoop (n : Nat) (twod : Bool) (nnode chunk : Int) (width : Nat)
    (rdRow : P (List UInt64)) (checkedBlock : Bool) :
    Nat → Int → List (List UInt64) → P (List (List UInt64))
  | 0, read, arr, s => if read < nnode then .error .diverge else .ok (arr, s)
  | fuel + 1, read, arr, s =>
    if read < nnode then
      let sect := min chunk (wrap32 (nnode - read))
      -- scalar reader: one fread of ldim*section doubles, REIS on the count
      -- `(*ldim) * section_size` is an `int` product
      if checkedBlock ∧ ¬ int32 ((width : Int) * sect) then .error .undefined else
      if checkedBlock ∧ (width : Int) * sect < 0 then .error .failure else
      -- rows of width 0 carry nothing and read nothing: only the counter advances
      if width = 0 then readLoop n twod nnode chunk width rdRow checkedBlock fuel (read + sect) arr s else
      match rdRowsWith rdRow sect.toNat s with
      | .error e => .error e
      | .ok (rs, s) => readLoop n twod nnode chunk width rdRow checkedBlock fuel (read + sect) (place n twod nnode read rs arr) s
    else .ok (arr, s)

/-- allocation request (bytes) the scalar reader makes *before* any data is read:
    `ref_malloc_init(data, ldim * chunk, REF_DBL, -1.0)` — sized by the declared count alone -/
def scalarAllocRequest (ldim : Nat) (nnode : Int) : Int := 8 * ((ldim : Int) * chunkOf nnode)

/-- `ref_part_scalar_solb` up to the point where the data block is allocated:
    dimension, `next_position`, declared vertex count, `ldim`, rest of the stream -/
def scalarPlan (cfg : Cfg) (n : Nat) (bs : Bytes) : Except Status (Nat × Int × Int × Nat × Bytes) :=
  match solPrefix cfg bs with
  | .error e => .error e
  | .ok (_, dim, next, nnode, ntype, s) =>
  match rdTypes (fun t => if t = 1 then some 1 else if t = 2 then some dim else none) ntype.toNat 0 s with
  | .error e => .error e
  | .ok (ldim, s) =>
  -- too few vertices in the file is an error, too many only a warning
  if nnode ≠ n ∧ Int.tdiv nnode 2 ≠ n ∧ ¬ (nnode > n) then .error .failure else
  if cfg.checkCount ∧ ¬ (0 ≤ nnode ∧ nnode < 2 ^ 31 ∧ nnode * ldim * 8 ≤ s.length) then .error .failure else
  .ok (dim, next, nnode, ldim, s)

/-- `ref_part_scalar_solb` on a grid with `n` nodes (`global i = local i`) -/
def decodeSolbWith (cfg : Cfg) (n : Nat) (bs : Bytes) : Except Status (Nat × List (List UInt64)) :=
  match scalarPlan cfg n bs with
  | .error e => .error e
  | .ok (dim, next, nnode, ldim, s) =>
  let chunk := chunkOf nnode
  let req := (ldim : Int) * chunk
  if ¬ int32 req then .error .undefined      -- `(*ldim) * chunk` overflows `int`
  else if req < 0 then .error .failure       -- ref_malloc: RAS(n >= 0)
  else if (cfg.allocCap : Int) < 8 * req then .error .null
  else
  match readLoop n (dim == 2) nnode chunk ldim (rdF64s ldim) true (bs.length + 2) 0
          (List.replicate n (List.replicate ldim 0)) s with
  | .error e => .error e
  | .ok (arr, s) => if next = tell bs s then .ok (ldim, arr) else .error .failure

/-- number of vertex-loop iterations the scalar reader performs without reading any data
    (`ldim = 0`): the declared count alone drives the loop -/
def scalarIdleIterations (cfg : Cfg) (n : Nat) (bs : Bytes) : Int :=
  match scalarPlan cfg n bs with
  | .error _ => 0
  | .ok (_, _, nnode, ldim, _) =>
    -- 54a1e7c (`checkFields`): `if (0 == *ldim) nnode_read = nnode;` — the loop is skipped.  (In the model the
    -- zero-width loop only advances its counter, so the decoded result is the same with and without the fix.)
    if ldim = 0 ∧ ¬ cfg.checkFields then nnode else 0

/-- bytes requested (and initialised) for the data block before a single value is read; 0 if the
    reader stops earlier -/
def scalarAlloc (cfg : Cfg) (n : Nat) (bs : Bytes) : Int :=
  match scalarPlan cfg n bs with
  | .error _ => 0
  | .ok (_, _, nnode, ldim, _) =>
    let r := scalarAllocRequest ldim nnode
    if r < 0 ∨ (cfg.allocCap : Int) < r ∨ ¬ int32 ((ldim : Int) * chunkOf nnode) then 0 else r

def decodeSolb (n : Nat) (bs : Bytes) := decodeSolbWith Cfg.faithful n bs
def decodeSolbFixed (n : Nat) (bs : Bytes) := decodeSolbWith Cfg.fixed n bs

def identityMetric : List UInt64 :=
  [0x3ff0000000000000, 0, 0, 0x3ff0000000000000, 0, 0x3ff0000000000000]

/-- values in file order → memory order (m11,m12,m13,m22,m23,m33); 2-D fills m13=m23=0, m33=1 -/
def metricFromFile (twod : Bool) (f : List UInt64) : List UInt64 :=
  let order := if twod then MetricOrder.read2 else MetricOrder.read3
  (List.range 6).map fun slot =>
    match order.idxOf? slot with
    | some k => f.getD k 0
    | none =>
      match MetricOrder.fill2.find? (fun p => p.1 == slot) with
      | some (_, true) => 0x3ff0000000000000
      | _ => 0

/-- one metric of the file (3 or 6 doubles) in memory order -/
def rdMetricRow (ldim : Nat) : P (List UInt64) := fun s =>
  match rdF64s ldim s with
  | .error e => .error e
  | .ok (f, s) => .ok (metricFromFile (ldim == 3) f, s)

/-- `ref_part_metric_solb` up to the allocation of the metric block -/
def metricPlan (cfg : Cfg) (n : Nat) (bs : Bytes) : Except Status (Nat × Int × Int × Nat × Bytes) :=
  match solPrefix cfg bs with
  | .error e => .error e
  | .ok (_, dim, next, nnode, ntype, s) =>
  match rdTypes (fun t => if t = 1 then some 1 else if t = 2 then some 0 else if t = 3 then
                   some (if dim = 2 then 3 else 6) else none) ntype.toNat 0 s with
  | .error e => .error e
  | .ok (ldim, s) =>
  if (dim = 2 ∧ ldim ≠ 3) ∨ (dim ≠ 2 ∧ ldim ≠ 6) then .error .failure else
  if nnode ≠ n ∧ Int.tdiv nnode 2 ≠ n then .error .failure else
  .ok (dim, next, nnode, ldim, s)

/-- `ref_part_metric_solb` on a grid with `n` nodes -/
def decodeMetricSolbWith (cfg : Cfg) (n : Nat) (bs : Bytes) : Except Status (List (List UInt64)) :=
  match metricPlan cfg n bs with
  | .error e => .error e
  | .ok (dim, next, nnode, ldim, s) =>
  let chunk := chunkOf nnode
  if ¬ int32 (6 * chunk) then .error .undefined
  else if 6 * chunk < 0 then .error .failure
  else if (cfg.allocCap : Int) < 48 * chunk then .error .null
  else
  match readLoop n (dim == 2) nnode chunk ldim (rdMetricRow ldim) false (bs.length + 2) 0
          (List.replicate n identityMetric) s with
  | .error e => .error e
  | .ok (arr, s) => if next = tell bs s then .ok arr else .error .failure

def decodeMetricSolb (n : Nat) (bs : Bytes) := decodeMetricSolbWith Cfg.faithful n bs
def decodeMetricSolbFixed (n : Nat) (bs : Bytes) := decodeMetricSolbWith Cfg.fixed n bs

end Refine.Model.Solb
