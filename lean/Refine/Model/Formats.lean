import Refine.Model.Ugrid

/-!
  L7 Codec, part 4: the TEXT mesh formats, at token level.

    readers (src/ref_import.c)  ref_import_ugrid (`.ugrid`), ref_import_tri (`.tri`), ref_import_surf (`.surf`),
                                ref_import_fgrid (`.fgrid`), ref_import_su2 (`.su2`), ref_import_msh (`.msh`),
                                ref_import_i_like_cfd_grid (`.grid`)
    writers (src/ref_export.c)  ref_export_ugrid, ref_export_tri, ref_export_fgrid, ref_export_su2, ref_export_msh

  A text file is a list of `Tok`: what one `fscanf("%d" | "%lf" | "%s")` or one `fgets` + `sscanf` consumes.  The harness
  (harness/h_formats.c) writes the tokens of an op line into a file (`%.17g` for a `num`, so `strtod` returns exactly its
  bits) and prints the tokens of a file refine wrote (`strtol`/`strtod` applied to each blank-separated piece): no
  decimal conversion enters the model.  What the model is about: WHICH token lands WHERE, which reads are checked, which
  counts and indices are trusted — the validation logic of the readers, with the hazard outcomes of
  `Refine.Model.Meshb.Status`: `undefined` (the C has undefined behaviour here: `line[1024]` overflow of `fscanf("%s")`,
  signed overflow), `null` (an allocation above the cap), `diverge`.

  `Err.unmodelled`: the input leaves the token abstraction (`%d` applied to a `%.17g` text, a number-like word under
  `%lf`, an `fgets` line that may exceed its 1024-byte buffer); the tie does not compare such inputs, the robustness
  streams still run them.

  `Fix` selects reader variants with the maintainer-style checks of findings/*/proposed.patch added; `Fix.none` is the
  code in /repo.  Core-only imports: linked into `refdrv`.
-/
namespace Refine.Model.Formats
open Refine.Model.Meshb (Status Vertex Cfg wrap32 adjAdd adjAddAll int32)
open Refine.Model.Ugrid (Kind UMesh sortFaces tagOf)

/-- one blank-separated piece of a text file, or a line end -/
inductive Tok
  /-- any printable text (op tokens `w:` and `x:`) -/
  | word (s : String)
  /-- a decimal integer (`i:`) -/
  | int (n : Int)
  /-- a double written with `%.17g` (`f:`): `strtod` gives back these bits -/
  | num (b : UInt64)
  /-- raw text that `strtod` consumes entirely, with its value (`g:`; checked by the harness) -/
  | lit (s : String) (b : UInt64)
  | nl
  | crlf
  deriving DecidableEq, Repr, Inhabited

inductive Err
  | st (s : Status)
  /-- an allocation sized by a declared count alone was granted and initialised (more than 300 MB touched) -/
  | bloat
  | unmodelled
  deriving DecidableEq, Repr, Inhabited

abbrev R (α : Type) := Except Err α

def fail {α : Type} : R α := .error (.st .failure)
def ub {α : Type} : R α := .error (.st .undefined)

def Err.name : Err → String
  | .st s => s.name
  | .bloat => "bloat"
  | .unmodelled => "unmodelled"

def Tok.isWs : Tok → Bool
  | .nl => true | .crlf => true | _ => false

/-- which repairs are switched on (findings/*/proposed.patch); all `false` = /repo as it is -/
structure Fix where
  /-- every reader tests a vertex index against the vertex count before it is used -/
  index : Bool := false
  /-- `.msh`: `fscanf("%1023s")` -/
  token : Bool := false
  /-- `.tri` / `.fgrid`: a vertex is added when its coordinates have been read -/
  prealloc : Bool := false
  /-- `.msh` reader: triangles and quads are turned back (the writer turns them outward) -/
  faces : Bool := false
  /-- `.su2` reader: a MARKER_TAG that is an integer is the id of the marker's elements -/
  su2Tag : Bool := false
  /-- `.su2` writer: `NMARK= 0` for a mesh without marker elements -/
  su2NoMarker : Bool := false
  /-- `.msh` writer: the cell nodes are renumbered like the vertices (driver: the mesh is handed over compacted) -/
  mshRenumber : Bool := false
  deriving DecidableEq, Repr, Inhabited

def Fix.none : Fix := {}
def Fix.all : Fix :=
  { index := true, token := true, prealloc := true, faces := true, su2Tag := true, su2NoMarker := true,
    mshRenumber := true }

/-- **model selection**: the readers as they are in /repo today -/
def Fix.current : Fix := Fix.none

/-! ## the conversions of `fscanf` -/

def isDigit (c : Char) : Bool := '0' ≤ c && c ≤ '9'

def digitsVal (cs : List Char) : Nat := cs.foldl (fun a c => 10 * a + (c.toNat - '0'.toNat)) 0

/-- `[+-]?[0-9]+` prefix of a text: value and the rest; `none`: no digit at the start.  `some none`: a lone sign (scanf
    has consumed it and cannot give it back) or more digits than a `long` holds — outside the token abstraction -/
def intPrefix (s : String) : Option (Option (Int × List Char)) :=
  let cs := s.toList
  let (neg, signed, body) := match cs with
    | '-' :: r => (true, true, r)
    | '+' :: r => (false, true, r)
    | _ => (false, false, cs)
  let ds := body.takeWhile isDigit
  if ds.isEmpty then (if signed then some none else none)
  else if ds.length > 18 then some none
  else
    let v : Int := digitsVal ds
    some (some ((if neg then -v else v), body.drop ds.length))

/-- can `strtod` make something of the start of this text? (`nan`, `inf` included) -/
def looksNumeric (s : String) : Bool :=
  match s.toList with
  | [] => false
  | c :: _ =>
    isDigit c || c == '+' || c == '-' || c == '.' ||
    (let l := (s.toList.take 3).map Char.toLower
     l == ['n', 'a', 'n'] || l == ['i', 'n', 'f'])

/-- exact `(double)n` for `|n| < 2^53` -/
def intBits (n : Int) : UInt64 :=
  if n = 0 then 0 else
    let s : Nat := if n < 0 then 1 else 0
    let m := n.natAbs
    let e := m.log2
    UInt64.ofNat (s * 2 ^ 63 + (e + 1023) * 2 ^ 52 + (m * 2 ^ (52 - e) - 2 ^ 52))

def dropWs : List Tok → List Tok
  | .nl :: r => dropWs r
  | .crlf :: r => dropWs r
  | ts => ts

/-- one conversion `%d`: `none` = no conversion (end of file, or a piece that does not start a number): the callers'
    `RES(1, fscanf(..))` turns that into REF_FAILURE.  The value is what glibc stores: the `long` truncated to `int`.
    Text left over after the digits stays in the stream. -/
def scanD (ts : List Tok) : R (Option (Int × List Tok)) :=
  match dropWs ts with
  | [] => .ok none
  | .int n :: r => .ok (some (wrap32 n, r))
  | .num _ :: _ => .error .unmodelled
  | .word s :: r | .lit s _ :: r =>
    match intPrefix s with
    | none => .ok none
    | some none => .error .unmodelled
    | some (some (v, rest)) =>
      .ok (some (wrap32 v, if rest.isEmpty then r else .word (String.ofList rest) :: r))
  | .nl :: _ | .crlf :: _ => .ok none   -- unreachable after `dropWs`

/-- one conversion `%lf` -/
def scanLf (ts : List Tok) : R (Option (UInt64 × List Tok)) :=
  match dropWs ts with
  | [] => .ok none
  | .int n :: r => if n.natAbs < 2 ^ 53 then .ok (some (intBits n, r)) else .error .unmodelled
  | .num b :: r => .ok (some (b, r))
  | .lit _ b :: r => .ok (some (b, r))
  | .word s :: _ => if looksNumeric s then .error .unmodelled else .ok none
  | .nl :: _ | .crlf :: _ => .ok none

/-- `RES(1, fscanf(file, "%d", &x))` -/
def rdD (ts : List Tok) : R (Int × List Tok) :=
  match scanD ts with
  | .error e => .error e
  | .ok none => fail
  | .ok (some p) => .ok p

def rdLf (ts : List Tok) : R (UInt64 × List Tok) :=
  match scanLf ts with
  | .error e => .error e
  | .ok none => fail
  | .ok (some p) => .ok p

def rdDs : Nat → List Tok → R (List Int × List Tok)
  | 0, ts => .ok ([], ts)
  | k + 1, ts =>
    match rdD ts with
    | .error e => .error e
    | .ok (x, ts) =>
      match rdDs k ts with
      | .error e => .error e
      | .ok (xs, ts) => .ok (x :: xs, ts)

def rdLfs : Nat → List Tok → R (List UInt64 × List Tok)
  | 0, ts => .ok ([], ts)
  | k + 1, ts =>
    match rdLf ts with
    | .error e => .error e
    | .ok (x, ts) =>
      match rdLfs k ts with
      | .error e => .error e
      | .ok (xs, ts) => .ok (x :: xs, ts)

/-- the printed length of a piece, as far as the model knows it (a `%.17g` text has at most 24 characters) -/
def Tok.len : Tok → Nat
  | .word s => s.length
  | .int n => (toString n).length
  | .num _ => 24
  | .lit s _ => s.length
  | .nl => 1
  | .crlf => 2

/-! ## the mesh a text format stores -/

structure TMesh where
  twod : Bool
  nodes : List Vertex
  edg : List (List Int)
  tri : List (List Int)
  qua : List (List Int)
  tet : List (List Int)
  pyr : List (List Int)
  pri : List (List Int)
  hex : List (List Int)
  deriving DecidableEq, Repr, Inhabited

def TMesh.empty : TMesh := ⟨false, [], [], [], [], [], [], [], []⟩

def TMesh.get (m : TMesh) : Kind → List (List Int)
  | .tri => m.tri | .qua => m.qua | .tet => m.tet | .pyr => m.pyr | .pri => m.pri | .hex => m.hex

/-- every node entry of every cell is in `[0, nnode)` -/
def cellsInRange (n : Int) (per : Nat) (cs : List (List Int)) : Bool :=
  cs.all fun c => (c.take per).all fun x => decide (0 ≤ x ∧ x < n)

def indicesInRange (m : TMesh) : Bool :=
  let n : Int := m.nodes.length
  cellsInRange n 2 m.edg && Kind.all.all fun k => cellsInRange n k.nodePer (m.get k)

/-! ## `ref_cell_add` -/

/-- `nodes[i]--` (1-based file value → 0-based) then `ref_cell_add`: `ref_adj_add` of the nodes in order — a negative
    node is REF_INVALID, a large one grows the adjacency by the index (`Refine.Model.Meshb.adjAdd`); nothing compares a
    node with the number of vertices.  `tail`: the id slot. -/
def addCell1 (raw : List Int) (tail : List Int) : R (List Int) :=
  if raw.any (fun x => decide (x = -(2 ^ 31 : Int))) then ub else
  match adjAddAll Cfg.faithful (raw.map (· - 1)) with
  | .error e => .error (.st e)
  | .ok _ => .ok (raw.map (· - 1) ++ tail)

/-- 0-based file values (SU2) -/
def addCell0 (nodes : List Int) (tail : List Int) : R (List Int) :=
  match adjAddAll Cfg.faithful nodes with
  | .error e => .error (.st e)
  | .ok _ => .ok (nodes ++ tail)

/-- `per` conversions `%d`, each followed (when `chk`) by `RAS(1 <= x && x <= nnode, ..)` -/
def rdIdx (chk : Bool) (nnode : Int) : Nat → List Tok → R (List Int × List Tok)
  | 0, ts => .ok ([], ts)
  | k + 1, ts =>
    match rdD ts with
    | .error e => .error e
    | .ok (x, ts) =>
      if chk ∧ ¬ (1 ≤ x ∧ x ≤ nnode) then fail else
      match rdIdx chk nnode k ts with
      | .error e => .error e
      | .ok (xs, ts) => .ok (x :: xs, ts)

/-- `n` cells of `per` 1-based nodes each; `extra` more integers per cell are read after the nodes: the first
    `keep` of them are stored behind the nodes, the rest dropped (`.surf`); with `keep = 0` the id slot holds REF_EMPTY
    until the id block is read (`emptyId`) -/
def rdCells1 (chk : Bool) (nnode : Int) (per extra keep : Nat) (emptyId : Bool) :
    Nat → List Tok → R (List (List Int) × List Tok)
  | 0, ts => .ok ([], ts)
  | n + 1, ts =>
    match rdIdx chk nnode per ts with
    | .error e => .error e
    | .ok (raw, ts) =>
    match rdDs extra ts with
    | .error e => .error e
    | .ok (ex, ts) =>
    match addCell1 raw (if emptyId then [-1] else ex.take keep) with
    | .error e => .error e
    | .ok c =>
    match rdCells1 chk nnode per extra keep emptyId n ts with
    | .error e => .error e
    | .ok (cs, ts) => .ok (c :: cs, ts)

/-- `ref_cell_c2n(ref_cell, node_per, cell) = face_id` for the cells in order -/
def setIds (per : Nat) : List (List Int) → List Int → List (List Int)
  | c :: cs, t :: ts => (c.take per ++ [t]) :: setIds per cs ts
  | cs, _ => cs

def rdVerts3 : Nat → List Tok → R (List Vertex × List Tok)
  | 0, ts => .ok ([], ts)
  | n + 1, ts =>
    match rdLfs 3 ts with
    | .error e => .error e
    | .ok (f, ts) =>
    match rdVerts3 n ts with
    | .error e => .error e
    | .ok (vs, ts) => .ok (⟨f.getD 0 0, f.getD 1 0, f.getD 2 0⟩ :: vs, ts)

/-- a count as a `for (i = 0; i < n; i++)` loop sees it -/
def cnt (n : Int) : Nat := n.toNat

/-- `ref_node_add` of `nnode` vertices before anything is read (`.tri`, `.fgrid`): the vertex arrays grow to the declared
    count, whatever the file holds — about 150 bytes per vertex (15 reals, global, sorted pair, part, age) and geometric
    growth: from about a million declared vertices on more than 300 MB are touched (`bloat`). -/
def preallocLimit : Nat := 1000000

def prealloc (fx : Fix) (nnode : Int) : R Unit :=
  if ¬ fx.prealloc ∧ (preallocLimit : Int) < nnode then .error .bloat else .ok ()

/-! ## `.ugrid` (ASCII AFLR3), `.tri`, `.fgrid`, `.surf` -/

/-- ref_import_ugrid: the index test has been in /repo since 6682479 -/
def decodeUgridTxt (ts : List Tok) : R TMesh :=
  match rdDs 7 ts with
  | .error e => .error e
  | .ok (h, ts) =>
  let nnode := h.getD 0 0
  let ntri := cnt (h.getD 1 0)
  let nqua := cnt (h.getD 2 0)
  match rdVerts3 (cnt nnode) ts with
  | .error e => .error e
  | .ok (nodes, ts) =>
  match rdCells1 true nnode 3 0 0 true ntri ts with
  | .error e => .error e
  | .ok (tri, ts) =>
  match rdCells1 true nnode 4 0 0 true nqua ts with
  | .error e => .error e
  | .ok (qua, ts) =>
  match rdDs ntri ts with
  | .error e => .error e
  | .ok (tid, ts) =>
  match rdDs nqua ts with
  | .error e => .error e
  | .ok (qid, ts) =>
  match rdCells1 true nnode 4 0 0 false (cnt (h.getD 3 0)) ts with
  | .error e => .error e
  | .ok (tet, ts) =>
  match rdCells1 true nnode 5 0 0 false (cnt (h.getD 4 0)) ts with
  | .error e => .error e
  | .ok (pyr, ts) =>
  match rdCells1 true nnode 6 0 0 false (cnt (h.getD 5 0)) ts with
  | .error e => .error e
  | .ok (pri, ts) =>
  match rdCells1 true nnode 8 0 0 false (cnt (h.getD 6 0)) ts with
  | .error e => .error e
  | .ok (hex, _) =>
    .ok { twod := false, nodes := nodes, edg := [], tri := setIds 3 tri tid, qua := setIds 4 qua qid, tet := tet,
          pyr := pyr, pri := pri, hex := hex }

/-- ref_import_tri -/
def decodeTri (fx : Fix) (ts : List Tok) : R TMesh :=
  match rdDs 2 ts with
  | .error e => .error e
  | .ok (h, ts) =>
  let nnode := h.getD 0 0
  let ntri := cnt (h.getD 1 0)
  match prealloc fx nnode with
  | .error e => .error e
  | .ok _ =>
  match rdVerts3 (cnt nnode) ts with
  | .error e => .error e
  | .ok (nodes, ts) =>
  match rdCells1 fx.index nnode 3 0 0 true ntri ts with
  | .error e => .error e
  | .ok (tri, ts) =>
  match rdDs ntri ts with
  | .error e => .error e
  | .ok (tid, _) => .ok { TMesh.empty with nodes := nodes, tri := setIds 3 tri tid }

/-- the coordinates of `.fgrid`: all x, then all y, then all z -/
def vertsOfColumns (n : Nat) (f : List UInt64) : List Vertex :=
  (List.range n).map fun i => ⟨f.getD i 0, f.getD (n + i) 0, f.getD (2 * n + i) 0⟩

/-- ref_import_fgrid -/
def decodeFgrid (fx : Fix) (ts : List Tok) : R TMesh :=
  match rdDs 3 ts with
  | .error e => .error e
  | .ok (h, ts) =>
  let nnode := h.getD 0 0
  let ntri := cnt (h.getD 1 0)
  match prealloc fx nnode with
  | .error e => .error e
  | .ok _ =>
  match rdLfs (3 * cnt nnode) ts with
  | .error e => .error e
  | .ok (f, ts) =>
  match rdCells1 fx.index nnode 3 0 0 true ntri ts with
  | .error e => .error e
  | .ok (tri, ts) =>
  match rdDs ntri ts with
  | .error e => .error e
  | .ok (tid, ts) =>
  match rdCells1 fx.index nnode 4 0 0 false (cnt (h.getD 2 0)) ts with
  | .error e => .error e
  | .ok (tet, _) =>
    .ok { TMesh.empty with nodes := vertsOfColumns (cnt nnode) f, tri := setIds 3 tri tid, tet := tet }

/-- `fgets(buffer, 1024, file)` after a `fscanf`: the rest of the current line, its end included; `none`: the rest of the
    line may not fit the buffer -/
def skipLine : Nat → List Tok → Option (List Tok)
  | _, [] => some []
  | _, .nl :: r => some r
  | _, .crlf :: r => some r
  | used, t :: r => if used + t.len + 1 ≥ 1000 then none else skipLine (used + t.len + 1) r

/-- the vertices of `.surf`: three coordinates, then the rest of the line is dropped -/
def rdVertsSurf : Nat → List Tok → R (List Vertex × List Tok)
  | 0, ts => .ok ([], ts)
  | n + 1, ts =>
    match rdLfs 3 ts with
    | .error e => .error e
    | .ok (f, ts) =>
    match skipLine 0 ts with
    | none => .error .unmodelled
    | some ts =>
    match rdVertsSurf n ts with
    | .error e => .error e
    | .ok (vs, ts) => .ok (⟨f.getD 0 0, f.getD 1 0, f.getD 2 0⟩ :: vs, ts)

/-- ref_import_surf: `ntri nqua nnode`; a triangle is `a b c id x x`, a quad `a b c d id x x` -/
def decodeSurf (fx : Fix) (ts : List Tok) : R TMesh :=
  match rdDs 3 ts with
  | .error e => .error e
  | .ok (h, ts) =>
  let nnode := h.getD 2 0
  match rdVertsSurf (cnt nnode) ts with
  | .error e => .error e
  | .ok (nodes, ts) =>
  match rdCells1 fx.index nnode 3 3 1 false (cnt (h.getD 0 0)) ts with
  | .error e => .error e
  | .ok (tri, ts) =>
  match rdCells1 fx.index nnode 4 3 1 false (cnt (h.getD 1 0)) ts with
  | .error e => .error e
  | .ok (qua, _) => .ok { TMesh.empty with nodes := nodes, tri := tri, qua := qua }

/-! ## writers: `.ugrid`, `.tri`, `.fgrid` -/

def ints (xs : List Int) : List Tok := xs.map Tok.int

def vertToks (p : Vertex) : List Tok := [.num p.x, .num p.y, .num p.z]

/-- one line per cell: the 1-based nodes -/
def connLines (per : Nat) (cs : List (List Int)) : List Tok :=
  cs.flatMap fun c => ints ((c.take per).map (· + 1)) ++ [.nl]

def idLines (per : Nat) (cs : List (List Int)) : List Tok :=
  cs.flatMap fun c => [.int (c.getD per 0), .nl]

/-- the mesh with its boundary faces in the order ref_export_ugrid emits them (the `faceid = min..max` sweep: a stable
    sort by id) -/
def normalizeUgrid (m : TMesh) : TMesh :=
  { m with twod := false, edg := [], tri := sortFaces .tri m.tri, qua := sortFaces .qua m.qua }

/-- ref_export_ugrid -/
def encodeUgridTxt (m : TMesh) : List Tok :=
  let tri := sortFaces .tri m.tri
  let qua := sortFaces .qua m.qua
  ints [m.nodes.length, m.tri.length, m.qua.length, m.tet.length, m.pyr.length, m.pri.length, m.hex.length] ++ [.nl] ++
  m.nodes.flatMap (fun p => vertToks p ++ [.nl]) ++
  connLines 3 tri ++ connLines 4 qua ++ idLines 3 tri ++ idLines 4 qua ++
  connLines 4 m.tet ++ connLines 5 m.pyr ++ connLines 6 m.pri ++ connLines 8 m.hex

/-- ref_export_tri writes the vertices that some triangle uses; for a mesh whose vertices are all used (what the tie
    generates) that is every vertex, in order -/
def encodeTri (m : TMesh) : List Tok :=
  ints [m.nodes.length, m.tri.length] ++ [.nl] ++ m.nodes.flatMap (fun p => vertToks p ++ [.nl]) ++
  connLines 3 m.tri ++ idLines 3 m.tri

def normalizeTri (m : TMesh) : TMesh := { TMesh.empty with nodes := m.nodes, tri := m.tri }

/-- ref_export_fgrid -/
def encodeFgrid (m : TMesh) : List Tok :=
  ints [m.nodes.length, m.tri.length, m.tet.length] ++ [.nl] ++
  (m.nodes.flatMap fun p => [.num p.x, .nl]) ++ (m.nodes.flatMap fun p => [.num p.y, .nl]) ++
  (m.nodes.flatMap fun p => [.num p.z, .nl]) ++
  connLines 3 m.tri ++ idLines 3 m.tri ++ connLines 4 m.tet

def normalizeFgrid (m : TMesh) : TMesh := { TMesh.empty with nodes := m.nodes, tri := m.tri, tet := m.tet }

/-! ## lines (the `fgets` readers) -/

/-- the text file cut at its line ends; the last line may lack one -/
def splitLines : List Tok → List Tok → List (List Tok)
  | [], cur => if cur.isEmpty then [] else [cur.reverse]
  | .nl :: r, cur => cur.reverse :: splitLines r []
  | .crlf :: r, cur => cur.reverse :: splitLines r []
  | t :: r, cur => splitLines r (t :: cur)

def lineLen (l : List Tok) : Nat := l.foldl (fun a t => a + t.len + 1) 0

/-- `fgets(line, 1024, file)` returns the whole line only if it fits -/
def lineFits (l : List Tok) : Bool := lineLen l < 1000

def Tok.text? : Tok → Option String
  | .word s => some s
  | .lit s _ => some s
  | _ => none

def isInfix (pat : List Char) : List Char → Bool
  | [] => pat.isEmpty
  | c :: cs => (pat.isPrefixOf (c :: cs)) || isInfix pat cs

/-- `NULL != strstr(line, key)` -/
def lineHas (key : String) (l : List Tok) : Bool :=
  l.any fun t => match t.text? with
    | some s => isInfix key.toList s.toList
    | none => false

/-- `atoi` of a text: 0 without digits -/
def atoiText (s : String) : R Int :=
  match intPrefix s with
  | none => .ok 0
  | some none => if (s.toList.filter isDigit).length > 18 then .error .unmodelled else .ok 0
  | some (some (v, _)) => .ok (wrap32 v)

/-- `location = strchr(line, '='); atoi(location + 1)`: `none` when the line has no `=` -/
def atoiAfterEq : List Tok → Option (R Int)
  | [] => none
  | t :: r =>
    match t.text? with
    | some s =>
      if s.toList.contains '=' then
        let rest := (s.toList.dropWhile (· != '=')).drop 1
        if !rest.isEmpty then some (atoiText (String.ofList rest))
        else match r with
          | [] => some (.ok 0)
          | .int n :: _ => some (.ok (wrap32 n))
          | .num _ :: _ => some (.error .unmodelled)
          | .word s :: _ | .lit s _ :: _ => some (atoiText s)
          | .nl :: _ | .crlf :: _ => some (.ok 0)
      else atoiAfterEq r
    | none => atoiAfterEq r

/-- `sscanf(line, "%d %d …")` with `k` conversions: `none` = fewer than `k` converted (REIS fails) -/
def lineDs : Nat → List Tok → R (Option (List Int))
  | 0, _ => .ok (some [])
  | k + 1, l =>
    match scanD l with
    | .error e => .error e
    | .ok none => .ok none
    | .ok (some (x, l)) =>
      match lineDs k l with
      | .error e => .error e
      | .ok none => .ok none
      | .ok (some xs) => .ok (some (x :: xs))

def lineLfs : Nat → List Tok → R (Option (List UInt64))
  | 0, _ => .ok (some [])
  | k + 1, l =>
    match scanLf l with
    | .error e => .error e
    | .ok none => .ok none
    | .ok (some (x, l)) =>
      match lineLfs k l with
      | .error e => .error e
      | .ok none => .ok none
      | .ok (some xs) => .ok (some (x :: xs))

/-! ## `.su2` -/

/-- VTK_PYRAMID_TO_UGRID / VTK_WEDGE_TO_UGRID of ref_import.c; VTK_PYRAMID_ORDER / VTK_WEDGE_ORDER of ref_export.c:
    `out[i] = in[p[i]]` -/
def su2PyrIn : List Nat := [1, 0, 4, 2, 3]
def su2PriIn : List Nat := [1, 0, 2, 4, 3, 5]
def su2PyrOut : List Nat := [1, 0, 3, 4, 2]
def su2PriOut : List Nat := [1, 0, 2, 4, 3, 5]

def permute (p : List Nat) (xs : List Int) : List Int := p.map fun i => xs.getD i 0

structure Su2State where
  m : TMesh
  ndime : Int
  npoin : Int
  seenPoin : Bool
  deriving Repr

/-- the index test of the proposed repair: `0 <= node && node < npoin` -/
def su2IdxOk (fx : Fix) (npoin : Int) (xs : List Int) : Bool :=
  !fx.index || xs.all fun x => decide (0 ≤ x ∧ x < npoin)

/-- one element line of a `NELEM` block: VTK type, nodes (0-based), id 0 for the 2-D elements -/
def su2Elem (fx : Fix) (st : Su2State) (l : List Tok) : R Su2State :=
  match lineDs 1 l with
  | .error e => .error e
  | .ok none => fail
  | .ok (some ty) =>
  let per : Option Nat := match ty.headD 0 with
    | 10 => some 4 | 14 => some 5 | 13 => some 6 | 12 => some 8 | 5 => some 3 | 9 => some 4 | _ => none
  match per with
  | none => fail
  | some per =>
  match lineDs (per + 1) l with
  | .error e => .error e
  | .ok none => fail
  | .ok (some xs) =>
  let nodes := xs.drop 1
  if !su2IdxOk fx st.npoin nodes then fail else
  let t := ty.headD 0
  let nodes := if t = 14 then permute su2PyrIn nodes else if t = 13 then permute su2PriIn nodes else nodes
  match addCell0 nodes (if t = 5 ∨ t = 9 then [0] else []) with
  | .error e => .error e
  | .ok c =>
    let m := st.m
    .ok { st with m :=
      if t = 10 then { m with tet := m.tet ++ [c] } else if t = 14 then { m with pyr := m.pyr ++ [c] }
      else if t = 13 then { m with pri := m.pri ++ [c] } else if t = 12 then { m with hex := m.hex ++ [c] }
      else if t = 5 then { m with tri := m.tri ++ [c] } else { m with qua := m.qua ++ [c] } }

/-- one element line of a marker: triangle, quad or line with the marker's number as id -/
def su2MarkElem (fx : Fix) (faceid : Int) (st : Su2State) (l : List Tok) : R Su2State :=
  match lineDs 1 l with
  | .error e => .error e
  | .ok none => fail
  | .ok (some ty) =>
  let per : Option Nat := match ty.headD 0 with
    | 5 => some 3 | 9 => some 4 | 3 => some 2 | _ => none
  match per with
  | none => fail
  | some per =>
  match lineDs (per + 1) l with
  | .error e => .error e
  | .ok none => fail
  | .ok (some xs) =>
  if !su2IdxOk fx st.npoin (xs.drop 1) then fail else
  match addCell0 (xs.drop 1) [faceid] with
  | .error e => .error e
  | .ok c =>
    let m := st.m
    let t := ty.headD 0
    .ok { st with m := if t = 5 then { m with tri := m.tri ++ [c] } else if t = 9 then { m with qua := m.qua ++ [c] }
                        else { m with edg := m.edg ++ [c] } }

/-- `n` lines, each through `f`; a missing line is the `RAS(line == fgets(..))` failure -/
def su2Lines (f : Su2State → List Tok → R Su2State) : Nat → Su2State → List (List Tok) → R (Su2State × List (List Tok))
  | 0, st, ls => .ok (st, ls)
  | _ + 1, _, [] => fail
  | n + 1, st, l :: ls =>
    if !lineFits l then .error .unmodelled else
    match f st l with
    | .error e => .error e
    | .ok st => su2Lines f n st ls

def su2Point (st : Su2State) (l : List Tok) : R Su2State :=
  match lineLfs (if st.ndime = 2 then 2 else 3) l with
  | .error e => .error e
  | .ok none => fail
  | .ok (some f) =>
    .ok { st with m := { st.m with nodes := st.m.nodes ++ [⟨f.getD 0 0, f.getD 1 0, if st.ndime = 2 then 0 else f.getD 2 0⟩] } }

/-- the integer a `MARKER_TAG= <tag>` line names, when the tag is one integer piece and nothing follows it (proposed
    repair: `strtol` must consume the rest of the line) -/
def su2TagInt : List Tok → Option Int
  | [] => none
  | t :: r =>
    match t.text? with
    | some s =>
      if s.toList.contains '=' then
        let rest := (s.toList.dropWhile (· != '=')).drop 1
        if !rest.isEmpty then none   -- `MARKER_TAG=7` in one piece: not what the tie generates; position is used
        else match r with
          | [.int n] => if int32 n then some n else none
          | _ => none
      else su2TagInt r
    | none => su2TagInt r

/-- the markers `faceid = 1..nmark`: tag line, element-count line, elements -/
def su2Marks (fx : Fix) : Nat → Int → Su2State → List (List Tok) → R (Su2State × List (List Tok))
  | 0, _, st, ls => .ok (st, ls)
  | _ + 1, _, _, [] => fail
  | n + 1, faceid, st, tagLine :: ls =>
    if !lineFits tagLine then .error .unmodelled else
    if !lineHas "MARKER_TAG" tagLine then fail else
    -- `MARKER_TAG=7` in one piece would be read as 7 by the repaired reader; the model follows `MARKER_TAG= 7`
    if fx.su2Tag ∧ tagLine.any (fun t => match t.text? with
        | some s => s.toList.contains '=' && !((s.toList.dropWhile (· != '=')).drop 1).isEmpty | none => false)
      then .error .unmodelled else
    let marker : Int := if fx.su2Tag then (su2TagInt tagLine).getD faceid else faceid
    match ls with
    | [] => fail
    | elemsLine :: ls =>
      if !lineFits elemsLine then .error .unmodelled else
      if !lineHas "MARKER_ELEMS" elemsLine then fail else
      match atoiAfterEq elemsLine with
      | none => .error (.st .null)
      | some (.error e) => .error e
      | some (.ok ncell) =>
        match su2Lines (su2MarkElem fx marker) (cnt ncell) st ls with
        | .error e => .error e
        | .ok (st, ls) => su2Marks fx n (faceid + 1) st ls

def su2Keys : List String := ["NDIME", "NPOIN", "NELEM", "NMARK"]

/-- the `while (!feof(file))` loop of ref_import_su2 over the lines; `fuel` = number of lines -/
def su2Loop (fx : Fix) : Nat → Su2State → List (List Tok) → R TMesh
  | 0, st, _ => .ok st.m
  | _ + 1, st, [] => .ok st.m
  | fuel + 1, st, l :: ls =>
    if !lineFits l then .error .unmodelled else
    match atoiAfterEq l with
    | none => su2Loop fx fuel st ls
    | some (.error e) => .error e
    | some (.ok v) =>
      -- the four `if (NULL != strstr(line, ..))` blocks run one after the other on whatever `line` holds by then; the
      -- model follows a line that names exactly one keyword
      if (su2Keys.filter fun k => lineHas k l).length > 1 then .error .unmodelled else
      if lineHas "NDIME" l then
        su2Loop fx fuel { st with ndime := v, m := { st.m with twod := st.m.twod || v == 2 } } ls
      else if lineHas "NPOIN" l then
        if st.seenPoin then .error .unmodelled else
        match su2Lines su2Point (cnt v) { st with npoin := v, seenPoin := true } ls with
        | .error e => .error e
        | .ok (st, ls') =>
          -- `line` now holds the last point line: the following `strstr` tests look at it
          if 0 < v ∧ (ls.take (cnt v)).getLast?.any (fun last => su2Keys.any fun k => lineHas k last) then .error .unmodelled
          else su2Loop fx fuel st ls'
      else if lineHas "NELEM" l then
        match su2Lines (su2Elem fx) (cnt v) st ls with
        | .error e => .error e
        | .ok (st, ls') =>
          if 0 < v ∧ (ls.take (cnt v)).getLast?.any (fun last => su2Keys.any fun k => lineHas k last) then .error .unmodelled
          else su2Loop fx fuel st ls'
      else if lineHas "NMARK" l then
        match su2Marks fx (cnt v) 1 st ls with
        | .error e => .error e
        | .ok (st, ls') => su2Loop fx fuel st ls'
      else su2Loop fx fuel st ls

/-- ref_import_su2 -/
def decodeSu2 (fx : Fix) (ts : List Tok) : R TMesh :=
  let ls := splitLines ts []
  su2Loop fx (ls.length + 1) { m := TMesh.empty, ndime := -1, npoin := 0, seenPoin := false } ls

/-- the cells of `cs` whose id is `id`, in order -/
def withId (per : Nat) (id : Int) (cs : List (List Int)) : List (List Int) := cs.filter fun c => c.getD per 0 == id

def su2Line (ty : Int) (nodes : List Int) : List Tok := .int ty :: ints nodes ++ [.nl]

def idsOf (per : Nat) (cs : List (List Int)) : List Int := cs.map fun c => c.getD per 0

def minId (ids : List Int) : Int := ids.foldl min (2 ^ 31 - 1)
def maxId (ids : List Int) : Int := ids.foldl max (-(2 ^ 31 : Int))

/-- the marker blocks `faceid = lo, lo+1, …` (`n` of them) -/
def su2MarkBlocks (m : TMesh) : Nat → Int → List Tok
  | 0, _ => []
  | n + 1, id =>
    let body : List Tok :=
      if m.twod then (withId 2 id m.edg).flatMap fun c => su2Line 3 (c.take 2)
      else ((withId 3 id m.tri).flatMap fun c => su2Line 5 (c.take 3)) ++
           ((withId 4 id m.qua).flatMap fun c => su2Line 9 (c.take 4))
    let k : Nat := if m.twod then (withId 2 id m.edg).length else (withId 3 id m.tri).length + (withId 4 id m.qua).length
    [.word "MARKER_TAG=", .int id, .nl, .word "MARKER_ELEMS=", .int k, .nl] ++ body ++ su2MarkBlocks m n (id + 1)

/-- the ids the marker sweep runs over -/
def su2Ids (m : TMesh) : List Int := if m.twod then idsOf 2 m.edg else idsOf 3 m.tri ++ idsOf 4 m.qua

/-- ref_export_su2 (for a mesh with at least one marker element: `max_faceid - min_faceid + 1` overflows `int`
    otherwise; the proposed repair writes `NMARK= 0` then: `lo = 1, hi = 0`) -/
def encodeSu2 (m : TMesh) : List Tok :=
  let lo := if (su2Ids m).isEmpty then 1 else minId (su2Ids m)
  let hi := if (su2Ids m).isEmpty then 0 else maxId (su2Ids m)
  [.word "NDIME=", .int (if m.twod then 2 else 3), .nl, .word "NPOIN=", .int m.nodes.length, .nl] ++
  (m.nodes.flatMap fun p => (if m.twod then [Tok.num p.x, .num p.y] else vertToks p) ++ [.nl]) ++
  (if m.twod then
    [.word "NELEM=", .int (m.tri.length + m.qua.length : Nat), .nl] ++
    (m.tri.flatMap fun c => su2Line 5 (c.take 3)) ++ (m.qua.flatMap fun c => su2Line 9 (c.take 4))
  else
    [.word "NELEM=", .int (m.tet.length + m.pyr.length + m.pri.length + m.hex.length : Nat), .nl] ++
    (m.tet.flatMap fun c => su2Line 10 (c.take 4)) ++ (m.pyr.flatMap fun c => su2Line 14 (permute su2PyrOut (c.take 5))) ++
    (m.pri.flatMap fun c => su2Line 13 (permute su2PriOut (c.take 6))) ++ (m.hex.flatMap fun c => su2Line 12 (c.take 8))) ++
  [.word "NMARK=", .int (hi - lo + 1), .nl] ++ su2MarkBlocks m (hi - lo + 1).toNat lo

/-- what ref_import_su2 makes of ref_export_su2's output: the markers are numbered 1, 2, … in file order, whatever
    their MARKER_TAG says (id `i` comes back as `i - min + 1`); 2-D: the triangles and quads come back with id 0 and the
    z coordinate 0; 3-D: boundary faces by marker, triangles before quads inside one marker, edges are not written -/
def normalizeSu2 (m : TMesh) : TMesh :=
  let lo := minId (su2Ids m)
  let hi := maxId (su2Ids m)
  let shift (per : Nat) (c : List Int) : List Int := c.take per ++ [c.getD per 0 - lo + 1]
  let sweep (per : Nat) (cs : List (List Int)) : List (List Int) :=
    (List.range (hi - lo + 1).toNat).flatMap fun (i : Nat) => (withId per (lo + (i : Int)) cs).map (shift per)
  if m.twod then
    { TMesh.empty with twod := true, nodes := m.nodes.map fun p => ⟨p.x, p.y, 0⟩, edg := sweep 2 m.edg,
                        tri := m.tri.map fun c => c.take 3 ++ [0], qua := m.qua.map fun c => c.take 4 ++ [0] }
  else
    { TMesh.empty with nodes := m.nodes, tri := sweep 3 m.tri, qua := sweep 4 m.qua, tet := m.tet, pyr := m.pyr,
                        pri := m.pri, hex := m.hex }

/-! ## `.msh` -/

/-- the Gmsh element types ref_import_msh knows: cell kind and nodes per cell; `none` for the quadratic kinds the
    token-level mesh does not hold; unknown types are the THROW -/
inductive MshKind | edg | tri | qua | tet | pyr | pri | hex | other
  deriving DecidableEq, Repr

def mshKind (ty : Int) : Option (MshKind × Nat) :=
  if ty = 1 then some (.edg, 2) else if ty = 2 then some (.tri, 3) else if ty = 3 then some (.qua, 4)
  else if ty = 4 then some (.tet, 4) else if ty = 5 then some (.hex, 8) else if ty = 6 then some (.pri, 6)
  else if ty = 7 then some (.pyr, 5)
  else if ty = 8 ∨ ty = 9 ∨ ty = 11 ∨ ty = 21 ∨ ty = 26 then some (.other, 0) else none

def mshPyr : List Nat := [0, 3, 4, 1, 2]

structure MshState where
  m : TMesh
  nnode : Int
  seenNodes : Bool
  deriving Repr

def mshPut (m : TMesh) (k : MshKind) (c : List Int) : TMesh :=
  match k with
  | .edg => { m with edg := m.edg ++ [c] } | .tri => { m with tri := m.tri ++ [c] }
  | .qua => { m with qua := m.qua ++ [c] } | .tet => { m with tet := m.tet ++ [c] }
  | .pyr => { m with pyr := m.pyr ++ [c] } | .pri => { m with pri := m.pri ++ [c] }
  | .hex => { m with hex := m.hex ++ [c] } | .other => m

/-- `n` elements of one `$Elements` block: tag, nodes (1-based), id slot := tag -/
def mshElems (fx : Fix) (k : MshKind) (per : Nat) (nnode : Int) : Nat → TMesh → List Tok → R (TMesh × List Tok)
  | 0, m, ts => .ok (m, ts)
  | n + 1, m, ts =>
    match rdD ts with
    | .error e => .error e
    | .ok (tag, ts) =>
    match rdIdx fx.index nnode per ts with
    | .error e => .error e
    | .ok (raw, ts) =>
    let hasId := k == .edg || k == .tri || k == .qua
    let raw := if fx.faces ∧ (k == .tri || k == .qua) then raw.reverse else raw
    match addCell1 (if k == .pyr then permute mshPyr raw else raw) (if hasId then [tag] else []) with
    | .error e => .error e
    | .ok c => mshElems fx k per nnode n (mshPut m k c) ts

def mshElemBlocks (fx : Fix) (nnode : Int) : Nat → TMesh → List Tok → R (TMesh × List Tok)
  | 0, m, ts => .ok (m, ts)
  | b + 1, m, ts =>
    match rdDs 4 ts with
    | .error e => .error e
    | .ok (h, ts) =>
    match mshKind (h.getD 2 0) with
    | none => fail
    | some (.other, _) => .error .unmodelled
    | some (k, per) =>
    match mshElems fx k per nnode (cnt (h.getD 3 0)) m ts with
    | .error e => .error e
    | .ok (m, ts) => mshElemBlocks fx nnode b m ts

/-- the entity blocks of `$Nodes`: `dim tag parametric n`, `n` node tags, `n` coordinate triples -/
def mshNodeBlocks : Nat → List Vertex → List Tok → R (List Vertex × List Tok)
  | 0, vs, ts => .ok (vs, ts)
  | b + 1, vs, ts =>
    match rdDs 4 ts with
    | .error e => .error e
    | .ok (h, ts) =>
    let n := cnt (h.getD 3 0)
    match rdDs n ts with
    | .error e => .error e
    | .ok (_, ts) =>
    match rdVerts3 n ts with
    | .error e => .error e
    | .ok (ws, ts) => mshNodeBlocks b (vs ++ ws) ts

/-- BAMG `Vertices`: `x y ref` -/
def mshBamgVerts : Nat → List Tok → R (List Vertex × List Tok)
  | 0, ts => .ok ([], ts)
  | n + 1, ts =>
    match rdLfs 2 ts with
    | .error e => .error e
    | .ok (f, ts) =>
    match rdD ts with
    | .error e => .error e
    | .ok (_, ts) =>
    match mshBamgVerts n ts with
    | .error e => .error e
    | .ok (vs, ts) => .ok (⟨f.getD 0 0, f.getD 1 0, 0⟩ :: vs, ts)

/-- BAMG `Edges` / `Triangles` / `Quadrilaterals`: `per` nodes and an id per line -/
def mshBamgCells (fx : Fix) (k : MshKind) (per : Nat) (nnode : Int) : Nat → TMesh → List Tok → R (TMesh × List Tok)
  | 0, m, ts => .ok (m, ts)
  | n + 1, m, ts =>
    match rdDs (per + 1) ts with
    | .error e => .error e
    | .ok (xs, ts) =>
    if fx.index ∧ (xs.take per).any (fun x => decide (¬ (1 ≤ x ∧ x ≤ nnode))) then fail else
    match addCell1 (xs.take per) (xs.drop per) with
    | .error e => .error e
    | .ok c => mshBamgCells fx k per nnode n (mshPut m k c) ts

/-- `fscanf(file, "%s", line)` into `char line[1024]`: the text of the next piece; `none` for a `%.17g` text (never a
    keyword).  A piece of 1024 characters or more overruns the buffer; with `fx.token` (`%1023s`) the piece is cut. -/
def scanS (fx : Fix) (ts : List Tok) : R (Option (Option String × List Tok)) :=
  match dropWs ts with
  | [] => .ok none
  | t :: r =>
    if t.len ≥ 1024 then
      if fx.token then
        match t.text? with
        | some s => .ok (some (some (String.ofList (s.toList.take 1023)), .word (String.ofList (s.toList.drop 1023)) :: r))
        | none => .error .unmodelled
      else ub
    else
      .ok (some ((match t with
        | .word s => some s | .lit s _ => some s | .int n => some (toString n) | _ => none), r))

/-- the keyword loop of ref_import_msh.  `trailing`: the file ends with white space.  After a read has hit the end of
    the file `feof` ends the `while` and the function returns REF_IMPLEMENT; a `%s` that finds nothing returns
    REF_SUCCESS. -/
def mshLoop (fx : Fix) (trailing : Bool) : Nat → MshState → List Tok → R TMesh
  | 0, _, _ => .error (.st .diverge)
  | fuel + 1, st, ts =>
    match scanS fx ts with
    | .error e => .error e
    | .ok none => .ok st.m
    | .ok (some (key, ts)) =>
    let next (st : MshState) (ts : List Tok) : R TMesh :=
      if (dropWs ts).isEmpty ∧ ¬ trailing then .error (.st .implement) else mshLoop fx trailing fuel st ts
    if key = some "Dimension" then
      match rdD ts with
      | .error e => .error e
      | .ok (d, ts) => next { st with m := { st.m with twod := st.m.twod || d == 2 } } ts
    else if key = some "Vertices" then
      match rdD ts with
      | .error e => .error e
      | .ok (n, ts) =>
        if st.seenNodes ∧ 0 < n then .error .unmodelled else
        match mshBamgVerts (cnt n) ts with
        | .error e => .error e
        | .ok (vs, ts) => next { st with nnode := n, seenNodes := st.seenNodes || decide (0 < n), m := { st.m with nodes := st.m.nodes ++ vs } } ts
    else if key = some "Edges" ∨ key = some "Triangles" ∨ key = some "Quadrilaterals" then
      match rdD ts with
      | .error e => .error e
      | .ok (n, ts) =>
        let (k, per) : MshKind × Nat :=
          if key = some "Edges" then (.edg, 2) else if key = some "Triangles" then (.tri, 3) else (.qua, 4)
        match mshBamgCells fx k per st.nnode (cnt n) st.m ts with
        | .error e => .error e
        | .ok (m, ts) => next { st with m := m } ts
    else if key = some "$MeshFormat" then
      match rdLf ts with
      | .error e => .error e
      | .ok (_, ts) =>
      match rdDs 2 ts with
      | .error e => .error e
      | .ok (h, ts) => if h.getD 0 0 ≠ 0 ∨ h.getD 1 0 ≠ 8 then fail else next st ts
    else if key = some "$Nodes" then
      match rdDs 4 ts with
      | .error e => .error e
      | .ok (h, ts) =>
        if st.seenNodes then .error .unmodelled else
        match mshNodeBlocks (cnt (h.getD 0 0)) [] ts with
        | .error e => .error e
        | .ok (vs, ts) =>
          if h.getD 1 0 ≠ vs.length then fail else
          next { st with nnode := h.getD 1 0, seenNodes := st.seenNodes || !vs.isEmpty, m := { st.m with nodes := st.m.nodes ++ vs } } ts
    else if key = some "$Elements" then
      match rdDs 4 ts with
      | .error e => .error e
      | .ok (h, ts) =>
        match mshElemBlocks fx st.nnode (cnt (h.getD 0 0)) st.m ts with
        | .error e => .error e
        | .ok (m, ts) => next { st with m := m } ts
    else next st ts

def endsWithWs (ts : List Tok) : Bool :=
  match ts.getLast? with
  | some t => t.isWs
  | none => true

/-- ref_import_msh -/
def decodeMsh (fx : Fix) (ts : List Tok) : R TMesh :=
  mshLoop fx (endsWithWs ts) (ts.length + 2) { m := TMesh.empty, nnode := 0, seenNodes := false } ts

/-- one element block of ref_export_msh: `block 1 type n`, then `tag nodes…` per cell -/
def mshBlock (b : Nat) (ty : Int) (per : Nat) (hasId : Bool) (order : List Int → List Int) (cs : List (List Int)) :
    List Tok :=
  [.int b, .int 1, .int ty, .int cs.length, .nl] ++
  ((List.range cs.length).zip cs).flatMap fun (i, c) =>
    .int (if hasId then c.getD per 0 else (i + 1 : Nat)) :: ints ((order (c.take per)).map (· + 1)) ++ [.nl]

/-- the non-empty cell groups in `each_ref_grid_all_ref_cell` order, numbered from 1 -/
def mshBlocks (m : TMesh) : List Tok :=
  let gs : List (Int × Nat × Bool × (List Int → List Int) × List (List Int)) :=
    [(1, 2, true, id, m.edg), (2, 3, true, List.reverse, m.tri), (3, 4, true, List.reverse, m.qua),
     (4, 4, false, id, m.tet), (7, 5, false, permute mshPyr, m.pyr), (6, 6, false, id, m.pri), (5, 8, false, id, m.hex)]
  let ne := gs.filter fun g => !g.2.2.2.2.isEmpty
  ((List.range ne.length).zip ne).flatMap fun (i, g) => mshBlock (i + 1) g.1 g.2.1 g.2.2.1 g.2.2.2.1 g.2.2.2.2

/-- ref_export_msh.  The vertex block is compacted (`m.nodes` = the valid vertices in order) but the cell nodes are
    written AS STORED (`nodes[cell_node] + 1`, not `o2n[nodes[cell_node]] + 1`): `m`'s cells carry the stored vertex
    numbers — for a grid without removed vertex slots these are the positions in `m.nodes` -/
def encodeMsh (m : TMesh) : List Tok :=
  let n : Nat := m.nodes.length
  let groups := [m.edg, m.tri, m.qua, m.tet, m.pyr, m.pri, m.hex]
  let ne := groups.filter fun g => !g.isEmpty
  [.word "$MeshFormat", .nl, .num 0x4010666666666666, .int 0, .int 8, .nl, .word "$EndMeshFormat", .nl,
   .word "$Nodes", .nl, .int 1, .int n, .int 1, .int n, .nl, .int 3, .int 1, .int 0, .int n, .nl] ++
  ((List.range n).flatMap fun i => [Tok.int (i + 1 : Nat), .nl]) ++
  (m.nodes.flatMap fun p => vertToks p ++ [.nl]) ++ [.word "$EndNodes", .nl, .word "$Elements", .nl,
   .int ne.length, .int (groups.foldl (fun a g => a + g.length) 0 : Nat), .int 1,
   .int (groups.foldl (fun a g => max a g.length) 0 : Nat), .nl] ++
  mshBlocks m ++ [.word "$EndElements", .nl]

/-- what ref_import_msh makes of ref_export_msh's output: triangles and quads come back REVERSED (the writer turns them
    "outward", the reader stores them as they are), `twod` is not stored -/
def normalizeMsh (m : TMesh) : TMesh :=
  { m with twod := false, tri := m.tri.map fun c => (c.take 3).reverse ++ c.drop 3,
           qua := m.qua.map fun c => (c.take 4).reverse ++ c.drop 4 }

/-! ## `.grid` (ref_import_i_like_cfd_grid) -/

/-- the vertices: `x y` per vertex -/
def rdVerts2 : Nat → List Tok → R (List Vertex × List Tok)
  | 0, ts => .ok ([], ts)
  | n + 1, ts =>
    match rdLfs 2 ts with
    | .error e => .error e
    | .ok (f, ts) =>
    match rdVerts2 n ts with
    | .error e => .error e
    | .ok (vs, ts) => .ok (⟨f.getD 0 0, f.getD 1 0, 0⟩ :: vs, ts)

/-- the first integer of a line read by `fgets` + `sscanf("%d")` -/
def lineD (l : List Tok) : R Int :=
  match lineDs 1 l with
  | .error e => .error e
  | .ok none => fail
  | .ok (some xs) => .ok (xs.headD 0)

/-- one boundary of `.grid`: `count` lines of one vertex each, consecutive vertices joined by an edge of id `id` -/
def gridChain (fx : Fix) (nnode id : Int) : Nat → Int → List (List Int) → List (List Tok) → R (List (List Int) × List (List Tok))
  | 0, _, acc, ls => .ok (acc, ls)
  | _ + 1, _, _, [] => .error (.st .null)
  | k + 1, n0, acc, l :: ls =>
    if !lineFits l then .error .unmodelled else
    match lineD l with
    | .error e => .error e
    | .ok n1 =>
      if fx.index ∧ ¬ (1 ≤ n0 ∧ n0 ≤ nnode ∧ 1 ≤ n1 ∧ n1 ≤ nnode) then fail else
      match addCell1 [n0, n1] [id] with
      | .error e => .error e
      | .ok c => gridChain fx nnode id k n1 (acc ++ [c]) ls

def gridChains (fx : Fix) (nnode : Int) : List Int → Int → List (List Int) → List (List Tok) → R (List (List Int))
  | [], _, acc, _ => .ok acc
  | c :: cs, id, acc, ls =>
    match ls with
    | [] => .error (.st .null)
    | l :: ls =>
      if !lineFits l then .error .unmodelled else
      match lineD l with
      | .error e => .error e
      | .ok n0 =>
        match gridChain fx nnode id (cnt (c - 1)) n0 acc ls with
        | .error e => .error e
        | .ok (acc, ls) => gridChains fx nnode cs (id + 1) acc ls

/-- ref_import_i_like_cfd_grid: `nnode ntri nquad`, `x y` per vertex, triangles, quads (id 1), the number of boundary
    groups (sizes an allocation: negative REF_FAILURE, above the cap REF_NULL), their sizes, then one vertex per line -/
def decodeGrid (fx : Fix) (ts : List Tok) : R TMesh :=
  match rdDs 3 ts with
  | .error e => .error e
  | .ok (h, ts) =>
  let nnode := h.getD 0 0
  match rdVerts2 (cnt nnode) ts with
  | .error e => .error e
  | .ok (nodes, ts) =>
  match rdCells1 fx.index nnode 3 0 0 false (cnt (h.getD 1 0)) ts with
  | .error e => .error e
  | .ok (tri, ts) =>
  match rdCells1 fx.index nnode 4 0 0 false (cnt (h.getD 2 0)) ts with
  | .error e => .error e
  | .ok (qua, ts) =>
  match rdD ts with
  | .error e => .error e
  | .ok (nid, ts) =>
  if nid < 0 then fail else
  if (2 ^ 30 : Int) < 4 * nid then .error (.st .null) else
  match rdDs (cnt nid) ts with
  | .error e => .error e
  | .ok (counts, ts) =>
  match gridChains fx nnode counts 1 [] (splitLines (dropWs ts) []) with
  | .error e => .error e
  | .ok edg =>
    .ok { TMesh.empty with twod := true, nodes := nodes, edg := edg, tri := tri.map (· ++ [1]), qua := qua.map (· ++ [1]) }

end Refine.Model.Formats
