import Refine.Model.SmoothInterp
import Refine.Model.NodeIds

/-!
  InterpPack: the maintenance of the per-vertex donor arrays of `REF_INTERP` (`src/ref_interp.c`) when the
  receptor grid's vertex slots are renumbered: `ref_interp_resize`, `ref_interp_reset`, `ref_interp_remove`,
  `ref_interp_pack`; next to it the slot move `ref_node_pack` applies to every per-slot array of `REF_NODE`
  (`packSlots`: `new[node] = copy[n2o[node]]`, `node < n`).

  The arrays are modelled as the C lays them out: `agent_hired[0..max)`, `cell[0..max)`, `part[0..max)` and the FLAT
  `bary[0..4*max)` (record of slot `node` = entries `4*node .. 4*node+3`).

  What `ref_interp_pack(ref_interp, n2o)` relies on, literally:
  * it copies through a scratch copy (`int_copy`, `dbl_copy`), so NO monotonicity of the renumbering is needed;
  * it reads `n = ref_node_n(to_grid)` AFTER `ref_node_pack` (which does not change `n`) and uses only `n2o`
    (`new[node] = copy[n2o[node]]`, `node < n`), slots `n..max)` get `cell = part = REF_EMPTY`, their `bary` is left as is;
  * `if (n > max) ref_interp_resize(ref_interp, max)` resizes to the size the arrays already have (a no-op): with
    `n > max`, or with an `n2o[node] >= max` (a live vertex in a slot the interp arrays never covered), the copy loops
    index out of bounds.  The model returns `.oob` there (the harness refuses to make that call); every caller in
    `ref adapt` runs `ref_migrate_to_balance` -> `ref_interp_from_part` -> `ref_interp_reset` (protective resize to
    `ref_node_max`) immediately before `ref_grid_pack`, so the branch is latent.

  Core-only imports (compiled into `refdrv interppack`).  Theorems: `Refine/Props/C05Pack.lean`.
-/
namespace Refine.Model.InterpPack
open Refine.Model.SmoothInterp (EMPTY)
open Refine.Model.Geom (B4)

/-- the per-slot arrays of `REF_INTERP` -/
structure Interp (α : Type) where
  /-- `ref_interp_max` -/
  max : Nat
  hired : List Bool
  cell : List Int
  part : List Int
  /-- flat, `4 * max` entries -/
  bary : List α

variable {α : Type}

/-- `ref_realloc_init(ptr, old, max, type, init)`: keep `min old max` entries, initialise `old..max)` -/
def reallocInit {X : Type} (xs : List X) (max : Nat) (init : X) : List X :=
  xs.take max ++ List.replicate (max - xs.length) init

/-- `ref_interp_resize(ref_interp, max)`; the new `bary` entries are uninitialised memory (`junk`) -/
def interpResize (junk : α) (it : Interp α) (max : Nat) : Interp α :=
  { max := max,
    hired := reallocInit it.hired max false,
    cell := reallocInit it.cell max EMPTY,
    part := reallocInit it.part max EMPTY,
    bary := reallocInit it.bary (4 * max) junk }

/-- `ref_interp_reset` : `none` = the `RAS(!agent_hired[node])` fired; `nodeMax = ref_node_max(to_grid)` -/
def interpReset (junk : α) (it : Interp α) (nodeMax : Nat) : Option (Interp α) :=
  if (it.hired.take it.max).contains true then none else
  let it := if nodeMax > it.max then interpResize junk it nodeMax else it
  some { it with cell := List.replicate it.max EMPTY, part := List.replicate it.max EMPTY }

/-- `ref_interp_remove(ref_interp, node)` for a continuously maintained interp: `none` when a `REIS`/`RUS` fires -/
def interpRemove (it : Interp α) (node : Nat) : Option (Interp α) :=
  if it.hired.getD node false then none
  else if it.cell.getD node EMPTY = EMPTY then none
  else some { it with cell := it.cell.set node EMPTY }

/-- the record of slot `node`: `cell[node]`, `part[node]`, `bary[4*node .. 4*node+3]` -/
def cellAt (it : Interp α) (node : Nat) : Int := it.cell.getD node EMPTY
def partAt (it : Interp α) (node : Nat) : Int := it.part.getD node EMPTY
def baryAt (junk : α) (it : Interp α) (node : Nat) : B4 α :=
  ⟨it.bary.getD (0 + 4 * node) junk, it.bary.getD (1 + 4 * node) junk, it.bary.getD (2 + 4 * node) junk,
   it.bary.getD (3 + 4 * node) junk⟩

/-- `n2o[node]` as the C reads it (an `int` used as an index) -/
def old (n2o : List Int) (node : Nat) : Nat := (n2o.getD node 0).toNat

/-- the move `ref_node_pack` applies to each per-slot array (`global`, `part`, `age`, `real`, `aux`):
    `new[node] = copy[n2o[node]]` for `node < n`, entries `n..` untouched -/
def packSlots {X : Type} (n : Nat) (n2o : List Int) (xs : List X) (d : X) : List X :=
  ((List.range n).map fun node => xs.getD (old n2o node) d) ++ xs.drop n

inductive PackErr where
  /-- `REIS(0, ref_agents_n(..))` or `REIS(REF_FALSE, agent_hired[node])` -/
  | failure
  /-- the copy loops would index outside the arrays (see the header) -/
  | oob
  deriving DecidableEq, Repr

/-- every index the three copy loops use is inside the arrays -/
def packInBounds (n : Nat) (n2o : List Int) (max : Nat) : Bool :=
  decide (n ≤ max) && (List.range n).all fun node => decide (0 ≤ n2o.getD node 0) && decide (old n2o node < max)

/-- `ref_interp_pack(ref_interp, n2o)` for a non-NULL interp; `n = ref_node_n(to_grid)`, `nAgents = ref_agents_n` -/
def interpPack (junk : α) (n nAgents : Nat) (n2o : List Int) (it0 : Interp α) : Except PackErr (Interp α) :=
  -- if (n > max) RSS(ref_interp_resize(ref_interp, max), "match node max");   (sic: `max`, not `n`)
  let it := if n > it0.max then interpResize junk it0 it0.max else it0
  let max := it0.max
  if nAgents ≠ 0 then .error .failure
  else if (it.hired.take max).contains true then .error .failure
  else if !packInBounds n n2o max then .error .oob
  else
    .ok { it with
      cell := ((List.range n).map fun node => it.cell.getD (old n2o node) EMPTY) ++ List.replicate (max - n) EMPTY,
      part := ((List.range n).map fun node => it.part.getD (old n2o node) EMPTY) ++ List.replicate (max - n) EMPTY,
      bary := ((List.range n).flatMap fun node => (List.range 4).map fun i => it.bary.getD (i + 4 * old n2o node) junk)
                ++ it.bary.drop (4 * n) }

/-! ### the receptor grid as the pair (`REF_NODE` per-slot payload, `REF_INTERP`) -/

/-- what `ref_node` keeps per slot for C05: position and the stored metric pair -/
structure NodeReal (P M : Type) where
  xyz : List P
  met : List M

/-- the `SmoothInterp.GridSt` view of the arrays: slot `i` ↦ `(xyz, cell, part, bary, met)` -/
def gridOf {P M : Type} (dp : P) (dm : M) (junk : α) (nr : NodeReal P M) (it : Interp α) :
    Refine.Model.SmoothInterp.GridSt P (B4 α) M :=
  fun i => { xyz := nr.xyz.getD i dp, cell := cellAt it i, part := partAt it i, bary := baryAt junk it i,
             met := nr.met.getD i dm }

/-- `ref_node_pack` on the C05 payload -/
def packReal {P M : Type} (dp : P) (dm : M) (n : Nat) (n2o : List Int) (nr : NodeReal P M) : NodeReal P M :=
  { xyz := packSlots n n2o nr.xyz dp, met := packSlots n n2o nr.met dm }

end Refine.Model.InterpPack
