import Refine.Scalar

/-!
  L4 Geom: geometric kernels of `ref_node.c`, generic over `Scalar`.
  Operation order is copied from the C so that the `Float` instance is bit-identical.
-/
namespace Refine.Model.Geom
open Refine

structure V3 (α : Type) where
  x : α
  y : α
  z : α

variable {α : Type} [Scalar α]

/-- `ref_node_xyz_vol` (ref_node.c) -/
def tetVol (a b c d : V3 α) : α :=
  let m11 := (a.x -. d.x) *. ((b.y -. d.y) *. (c.z -. d.z) -. (c.y -. d.y) *. (b.z -. d.z))
  let m12 := (a.y -. d.y) *. ((b.x -. d.x) *. (c.z -. d.z) -. (c.x -. d.x) *. (b.z -. d.z))
  let m13 := (a.z -. d.z) *. ((b.x -. d.x) *. (c.y -. d.y) -. (c.x -. d.x) *. (b.y -. d.y))
  let det := m11 -. m12 +. m13
  (-. det) /. (Scalar.ofInt 6)

end Refine.Model.Geom
