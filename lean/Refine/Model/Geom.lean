import Refine.Scalar

/-!
  L4 Geom: geometric kernels of `ref_node.c` (and the `vt_m_v` family of `ref_matrix.c/.h`),
  generic over `Scalar`.  Operation order is copied from the C so that the `Float` instance is
  bit-identical (tie: `Drivers/Geom.lean` vs `harness/h_geom.c`).
  Fixed-shape structures only, so the ℝ-side proofs are `simp only [...]; ring`.
-/
namespace Refine.Model.Geom
open Refine

structure V3 (α : Type) where
  x : α
  y : α
  z : α

/-- barycentric weight tuples -/
structure B2 (α : Type) where
  b0 : α
  b1 : α
structure B3 (α : Type) where
  b0 : α
  b1 : α
  b2 : α
structure B4 (α : Type) where
  b0 : α
  b1 : α
  b2 : α
  b3 : α

/-- symmetric 3x3 in refine's upper-triangle order `m[0..5] = m11 m12 m13 m22 m23 m33` -/
structure M6 (α : Type) where
  m0 : α
  m1 : α
  m2 : α
  m3 : α
  m4 : α
  m5 : α

/-- the `REF_STATUS` values these kernels can return -/
inductive St where
  | ok | failure | invalid | divZero | implement
  deriving DecidableEq, Repr

def St.name : St → String
  | .ok => "ok" | .failure => "failure" | .invalid => "invalid"
  | .divZero => "div_zero" | .implement => "implement"

variable {α : Type} [Scalar α]

@[inline] def lit0 : α := Scalar.ofInt 0
@[inline] def lit1 : α := Scalar.ofInt 1
@[inline] def lit2 : α := Scalar.ofInt 2
@[inline] def lit6 : α := Scalar.ofInt 6
/-- `0.5` -/
@[inline] def half : α := Scalar.ofDec 5 (-1)
/-- `1.0e-12` -/
@[inline] def eps12 : α := Scalar.ofDec 1 (-12)
/-- `1.0e-13` -/
@[inline] def eps13 : α := Scalar.ofDec 1 (-13)

def V3.zero : V3 α := ⟨lit0, lit0, lit0⟩
def V3.sub (a b : V3 α) : V3 α := ⟨a.x -. b.x, a.y -. b.y, a.z -. b.z⟩

/-- `ref_math_dot` macro -/
def dot (a b : V3 α) : α := a.x *. b.x +. a.y *. b.y +. a.z *. b.z

/-- `ref_math_cross_product` macro -/
def cross (v0 v1 : V3 α) : V3 α :=
  ⟨v0.y *. v1.z -. v0.z *. v1.y, v0.z *. v1.x -. v0.x *. v1.z, v0.x *. v1.y -. v0.y *. v1.x⟩

/-- `ref_math_normalize` (ref_math.c): `div_zero` when a component is not divisible by the length,
    `failure` (the `RAS`) when the normalised vector's squared length is not within 1e-13 of 1.
    The vector is returned as the C leaves it in place. -/
def normalize (v : V3 α) : St × V3 α :=
  let length := Scalar.sqrt (dot v v)
  if !(Scalar.divisible v.x length) || !(Scalar.divisible v.y length) || !(Scalar.divisible v.z length) then
    (St.divZero, v)
  else
    let n : V3 α := ⟨v.x /. length, v.y /. length, v.z /. length⟩
    let l2 := dot n n
    if Scalar.cabs (l2 -. lit1) <. eps13 then (St.ok, n) else (St.failure, n)

/-- the 3x3 determinant shared by `ref_node_xyz_vol`, `ref_node_tet_vol`, `ref_node_bary4`:
    `m11 - m12 + m13` -/
def tetDet (a b c d : V3 α) : α :=
  let m11 := (a.x -. d.x) *. ((b.y -. d.y) *. (c.z -. d.z) -. (c.y -. d.y) *. (b.z -. d.z))
  let m12 := (a.y -. d.y) *. ((b.x -. d.x) *. (c.z -. d.z) -. (c.x -. d.x) *. (b.z -. d.z))
  let m13 := (a.z -. d.z) *. ((b.x -. d.x) *. (c.y -. d.y) -. (c.x -. d.x) *. (b.y -. d.y))
  m11 -. m12 +. m13

/-- `ref_node_xyz_vol` / `ref_node_tet_vol` (ref_node.c): `-det / 6.0` -/
def tetVol (a b c d : V3 α) : α :=
  let m11 := (a.x -. d.x) *. ((b.y -. d.y) *. (c.z -. d.z) -. (c.y -. d.y) *. (b.z -. d.z))
  let m12 := (a.y -. d.y) *. ((b.x -. d.x) *. (c.z -. d.z) -. (c.x -. d.x) *. (b.z -. d.z))
  let m13 := (a.z -. d.z) *. ((b.x -. d.x) *. (c.y -. d.y) -. (c.x -. d.x) *. (b.y -. d.y))
  let det := m11 -. m12 +. m13
  (-. det) /. (Scalar.ofInt 6)

/-- `ref_node_tet_dvol_dnode0`: volume and its derivative with respect to node 0 -/
def tetDvolDnode0 (a b c d : V3 α) : α × V3 α :=
  (tetVol a b c d,
   ⟨(-. ((b.y -. d.y) *. (c.z -. d.z) -. (c.y -. d.y) *. (b.z -. d.z))) /. lit6,
    ((b.x -. d.x) *. (c.z -. d.z) -. (c.x -. d.x) *. (b.z -. d.z)) /. lit6,
    (-. ((b.x -. d.x) *. (c.y -. d.y) -. (c.x -. d.x) *. (b.y -. d.y))) /. lit6⟩)

/-- `ref_node_xyz_normal` / `ref_node_tri_normal`: un-normalised `(x1-x0) × (x2-x0)` -/
def triNormal (x0 x1 x2 : V3 α) : V3 α :=
  cross (V3.sub x1 x0) (V3.sub x2 x0)

/-- `ref_node_tri_area`: `0.5 * sqrt(n·n)` -/
def triArea (x0 x1 x2 : V3 α) : α :=
  let n := triNormal x0 x1 x2
  half *. Scalar.sqrt (dot n n)

/-- `ref_node_tri_twod_orientation`: `normal[2] > 0.0` -/
def triTwodOrientation (x0 x1 x2 : V3 α) : Bool :=
  lit0 <. (triNormal x0 x1 x2).z

/-- `ref_node_tri_darea_dnode0` -/
def triDareaDnode0 (x0 x1 x2 : V3 α) : α × V3 α :=
  let v0 := V3.sub x1 x0
  let v1 := V3.sub x2 x0
  let normx := v0.y *. v1.z -. v0.z *. v1.y
  let dnx : V3 α := ⟨lit0, (-. v1.z) +. v0.z, (-. v0.y) +. v1.y⟩
  let normy := v0.z *. v1.x -. v0.x *. v1.z
  let dny : V3 α := ⟨(-. v0.z) +. v1.z, lit0, (-. v1.x) +. v0.x⟩
  let normz := v0.x *. v1.y -. v0.y *. v1.x
  let dnz : V3 α := ⟨(-. v1.y) +. v0.y, (-. v0.x) +. v1.x, lit0⟩
  let s := normx *. normx +. normy *. normy +. normz *. normz
  let area := half *. Scalar.sqrt s
  let c := (half *. half) /. Scalar.sqrt s
  let d (ax ay az : α) : α := c *. (lit2 *. normx *. ax +. lit2 *. normy *. ay +. lit2 *. normz *. az)
  (area, ⟨d dnx.x dny.x dnz.x, d dnx.y dny.y dnz.y, d dnx.z dny.z dnz.z⟩)

/-- `ref_node_bary4`: un-normalised weights are the four sub-determinants, then divided by their
    sum if every quotient passes `ref_math_divisible`; otherwise `-1` at the smallest, `div_zero` -/
def bary4 (a b c d p : V3 α) : St × B4 α :=
  let b0 := tetDet p b c d
  let b1 := tetDet a p c d
  let b2 := tetDet a b p d
  let b3 := tetDet a b c p
  let total := b0 +. b1 +. b2 +. b3
  if Scalar.divisible b0 total && Scalar.divisible b1 total && Scalar.divisible b2 total &&
     Scalar.divisible b3 total then
    (St.ok, ⟨b0 /. total, b1 /. total, b2 /. total, b3 /. total⟩)
  else
    let m1 : α := Scalar.ofInt (-1)
    -- smallest = 0; for i in 1..3: if bary[i] < bary[smallest] then smallest = i
    let s1 : Nat × α := if b1 <. b0 then (1, b1) else (0, b0)
    let s2 : Nat × α := if b2 <. s1.2 then (2, b2) else s1
    let s3 : Nat × α := if b3 <. s2.2 then (3, b3) else s2
    let pick (i : Nat) : α := if s3.1 == i then m1 else lit0
    (St.divZero, ⟨pick 0, pick 1, pick 2, pick 3⟩)

/-- `ref_node_bary3`: z-components of the three sub-triangle normals (2-D) -/
def bary3 (x0 x1 x2 p : V3 α) : St × B3 α :=
  let b0 := (triNormal p x1 x2).z
  let b1 := (triNormal x0 p x2).z
  let b2 := (triNormal x0 x1 p).z
  let total := b0 +. b1 +. b2
  if Scalar.divisible b0 total && Scalar.divisible b1 total && Scalar.divisible b2 total then
    (St.ok, ⟨b0 /. total, b1 /. total, b2 /. total⟩)
  else
    (St.divZero, ⟨lit0, lit0, lit0⟩)

/-- the shifted query point of `ref_node_bary3d`: `xyz - total_normal * ((xyz-xyz0)·total_normal) / (N·N)`: the
    orthogonal projection onto the triangle plane (the division is the repair `fix: project onto the triangle plane
    with the normalized normal in ref_node_bary3d`; without it the offset along the un-normalised normal is amplified by
    |N|^2 and cancels catastrophically for triangles with edges >~ 50: weights wrong by O(1).  In exact arithmetic
    the weights do not depend on the amount of the shift at all: `bary3dRaw_shift` in Props/C15) -/
def bary3dPoint (x0 x1 x2 p : V3 α) : V3 α :=
  let tn := triNormal x0 x1 x2
  let q := V3.sub p x0
  let total := dot q tn
  let total := if Scalar.divisible total (dot tn tn) then total /. dot tn tn else total
  (⟨(q.x -. tn.x *. total) +. x0.x, (q.y -. tn.y *. total) +. x0.y, (q.z -. tn.z *. total) +. x0.z⟩ : V3 α)

/-- un-normalised `ref_node_bary3d` weights for an already shifted point `pp` -/
def bary3dRaw (x0 x1 x2 pp : V3 α) : B3 α :=
  let tn := triNormal x0 x1 x2
  ⟨dot (triNormal pp x1 x2) tn, dot (triNormal x0 pp x2) tn, dot (triNormal x0 x1 pp) tn⟩

/-- `ref_node_bary3d` -/
def bary3d (x0 x1 x2 p : V3 α) : St × B3 α :=
  let r := bary3dRaw x0 x1 x2 (bary3dPoint x0 x1 x2 p)
  let total := r.b0 +. r.b1 +. r.b2
  if Scalar.divisible r.b0 total && Scalar.divisible r.b1 total && Scalar.divisible r.b2 total then
    (St.ok, ⟨r.b0 /. total, r.b1 /. total, r.b2 /. total⟩)
  else
    (St.divZero, ⟨lit0, lit0, lit0⟩)

/-- `ref_node_clip_bary4`: `failure` for a non-finite input (the leading `RAS`), clip at zero,
    renormalise; `div_zero` branch returns the unit vector of the largest clipped weight -/
def clipBary4 (o : B4 α) : St × B4 α :=
  if !(Scalar.isFinite o.b0) || !(Scalar.isFinite o.b1) || !(Scalar.isFinite o.b2) || !(Scalar.isFinite o.b3) then
    (St.failure, o)
  else
    let b0 := Scalar.cmax lit0 o.b0
    let b1 := Scalar.cmax lit0 o.b1
    let b2 := Scalar.cmax lit0 o.b2
    let b3 := Scalar.cmax lit0 o.b3
    let total := b0 +. b1 +. b2 +. b3
    if Scalar.divisible b0 total && Scalar.divisible b1 total && Scalar.divisible b2 total &&
       Scalar.divisible b3 total then
      let r : B4 α := ⟨b0 /. total, b1 /. total, b2 /. total, b3 /. total⟩
      if !(lit0 <=. r.b0) || !(lit0 <=. r.b1) || !(lit0 <=. r.b2) || !(lit0 <=. r.b3) then (St.failure, r)
      else if !(Scalar.isFinite r.b0) || !(Scalar.isFinite r.b1) || !(Scalar.isFinite r.b2) ||
              !(Scalar.isFinite r.b3) then (St.failure, r)
      else (St.ok, r)
    else
      let s1 : Nat × α := if b0 <. b1 then (1, b1) else (0, b0)
      let s2 : Nat × α := if s1.2 <. b2 then (2, b2) else s1
      let s3 : Nat × α := if s2.2 <. b3 then (3, b3) else s2
      let pick (i : Nat) : α := if s3.1 == i then lit1 else lit0
      (St.divZero, ⟨pick 0, pick 1, pick 2, pick 3⟩)

/-- `ref_node_clip_bary3` (no finiteness assertions in the C) -/
def clipBary3 (o : B3 α) : St × B3 α :=
  let b0 := Scalar.cmax lit0 o.b0
  let b1 := Scalar.cmax lit0 o.b1
  let b2 := Scalar.cmax lit0 o.b2
  let total := b0 +. b1 +. b2
  if Scalar.divisible b0 total && Scalar.divisible b1 total && Scalar.divisible b2 total then
    let r : B3 α := ⟨b0 /. total, b1 /. total, b2 /. total⟩
    if !(lit0 <=. r.b0) || !(lit0 <=. r.b1) || !(lit0 <=. r.b2) then (St.failure, r) else (St.ok, r)
  else
    let s1 : Nat × α := if b0 <. b1 then (1, b1) else (0, b0)
    let s2 : Nat × α := if s1.2 <. b2 then (2, b2) else s1
    let pick (i : Nat) : α := if s2.1 == i then lit1 else lit0
    (St.divZero, ⟨pick 0, pick 1, pick 2⟩)

/-- `ref_node_clip_bary2` -/
def clipBary2 (o : B2 α) : St × B2 α :=
  let b0 := Scalar.cmax lit0 o.b0
  let b1 := Scalar.cmax lit0 o.b1
  let total := b0 +. b1
  if Scalar.divisible b0 total && Scalar.divisible b1 total then
    let r : B2 α := ⟨b0 /. total, b1 /. total⟩
    if !(lit0 <=. r.b0) || !(lit0 <=. r.b1) then (St.failure, r) else (St.ok, r)
  else
    let s1 : Nat × α := if b0 <. b1 then (1, b1) else (0, b0)
    let pick (i : Nat) : α := if s1.1 == i then lit1 else lit0
    (St.divZero, ⟨pick 0, pick 1⟩)

/-- `ref_node_xyz_grad` / `ref_node_tet_grad_nodes`: gradient of the linear interpolant of the
    nodal values `s0..s3` on the tet `x0..x3` -/
def tetGradNodes (x0 x1 x2 x3 : V3 α) (s0 s1 s2 s3 : α) : St × V3 α :=
  let vol := tetVol x0 x1 x2 x3 *. (Scalar.ofInt (-6))
  let n1 := triNormal x0 x3 x2
  let n2 := triNormal x0 x1 x3
  let n3 := triNormal x0 x2 x1
  let g0 := (s1 -. s0) *. n1.x +. (s2 -. s0) *. n2.x +. (s3 -. s0) *. n3.x
  let g1 := (s1 -. s0) *. n1.y +. (s2 -. s0) *. n2.y +. (s3 -. s0) *. n3.y
  let g2 := (s1 -. s0) *. n1.z +. (s2 -. s0) *. n2.z +. (s3 -. s0) *. n3.z
  if Scalar.divisible g0 vol && Scalar.divisible g1 vol && Scalar.divisible g2 vol then
    (St.ok, ⟨g0 /. vol, g1 /. vol, g2 /. vol⟩)
  else
    (St.divZero, V3.zero)

/-- `ref_node_tri_grad_nodes`: in-plane gradient of the linear interpolant on a triangle, built
    from sqrt-normalised altitude directions.  Early `RSS` returns leave the zeroed gradient. -/
def triGradNodes (x0 x1 x2 : V3 α) (s0 s1 s2 : α) : St × V3 α :=
  let area2 := triArea x0 x1 x2 *. lit2
  let edge01 := V3.sub x1 x0
  let edge02 := V3.sub x2 x0
  match normalize edge01 with
  | (St.ok, norm01) =>
    match normalize edge02 with
    | (St.ok, norm02) =>
      let dot1 := dot edge01 norm02
      let side1 := Scalar.sqrt (dot edge02 edge02)
      match normalize (⟨edge01.x -. dot1 *. norm02.x, edge01.y -. dot1 *. norm02.y,
                        edge01.z -. dot1 *. norm02.z⟩ : V3 α) with
      | (St.ok, u1) =>
        let grad1 : V3 α := ⟨u1.x *. side1, u1.y *. side1, u1.z *. side1⟩
        let dot2 := dot edge02 norm01
        let side2 := Scalar.sqrt (dot edge01 edge01)
        match normalize (⟨edge02.x -. dot2 *. norm01.x, edge02.y -. dot2 *. norm01.y,
                          edge02.z -. dot2 *. norm01.z⟩ : V3 α) with
        | (St.ok, u2) =>
          let grad2 : V3 α := ⟨u2.x *. side2, u2.y *. side2, u2.z *. side2⟩
          let g0 := (s1 -. s0) *. grad1.x +. (s2 -. s0) *. grad2.x
          let g1 := (s1 -. s0) *. grad1.y +. (s2 -. s0) *. grad2.y
          let g2 := (s1 -. s0) *. grad1.z +. (s2 -. s0) *. grad2.z
          if Scalar.divisible g0 area2 && Scalar.divisible g1 area2 && Scalar.divisible g2 area2 then
            (St.ok, ⟨g0 /. area2, g1 /. area2, g2 /. area2⟩)
          else
            (St.divZero, V3.zero)
        | (st, _) => (st, V3.zero)
      | (st, _) => (st, V3.zero)
    | (st, _) => (st, V3.zero)
  | (st, _) => (st, V3.zero)

/-- `ref_matrix_vt_m_v` macro -/
def vtMv (m : M6 α) (v : V3 α) : α :=
  v.x *. (m.m0 *. v.x +. m.m1 *. v.y +. m.m2 *. v.z) +.
  v.y *. (m.m1 *. v.x +. m.m3 *. v.y +. m.m4 *. v.z) +.
  v.z *. (m.m2 *. v.x +. m.m4 *. v.y +. m.m5 *. v.z)

/-- `ref_matrix_sqrt_vt_m_v` macro -/
def sqrtVtMv (m : M6 α) (v : V3 α) : α := Scalar.sqrt (vtMv m v)

/-- `ref_matrix_vt_m_v_deriv` -/
def vtMvDeriv (m : M6 α) (v : V3 α) : α × V3 α :=
  (vtMv m v,
   ⟨(m.m0 *. v.x +. m.m1 *. v.y +. m.m2 *. v.z) +. v.x *. m.m0 +. v.y *. m.m1 +. v.z *. m.m2,
    (m.m1 *. v.x +. m.m3 *. v.y +. m.m4 *. v.z) +. v.x *. m.m1 +. v.y *. m.m3 +. v.z *. m.m4,
    (m.m2 *. v.x +. m.m4 *. v.y +. m.m5 *. v.z) +. v.x *. m.m2 +. v.y *. m.m4 +. v.z *. m.m5⟩)

/-- `ref_matrix_sqrt_vt_m_v_deriv` -/
def sqrtVtMvDeriv (m : M6 α) (v : V3 α) : α × V3 α :=
  let f := Scalar.sqrt (vtMv m v)
  (f,
   ⟨(half /. f) *. (v.x *. m.m0 +. (m.m0 *. v.x +. m.m1 *. v.y +. m.m2 *. v.z) +. v.y *. m.m1 +. v.z *. m.m2),
    (half /. f) *. (v.x *. m.m1 +. v.y *. m.m3 +. (m.m1 *. v.x +. m.m3 *. v.y +. m.m4 *. v.z) +. v.z *. m.m4),
    (half /. f) *. (v.x *. m.m2 +. v.y *. m.m4 +. v.z *. m.m5 +. (m.m2 *. v.x +. m.m4 *. v.y +. m.m5 *. v.z))⟩)

/-- the degenerate-edge guard shared by `ref_node_ratio*`: some component of the direction is not
    divisible by the Euclidean length -/
def ratioDegenerate (direction : V3 α) : Bool :=
  let length := Scalar.sqrt (dot direction direction)
  !(Scalar.divisible direction.x length) || !(Scalar.divisible direction.y length) ||
  !(Scalar.divisible direction.z length)

/-- `ref_node_ratio`, `REF_NODE_RATIO_GEOMETRIC` branch: edge length in the metric, from the two
    end-point lengths `ratio0`, `ratio1` -/
def ratioGeometric (x0 x1 : V3 α) (m0 m1 : M6 α) : α :=
  let direction := V3.sub x1 x0
  if ratioDegenerate direction then lit0 else
  let ratio0 := sqrtVtMv m0 direction
  let ratio1 := sqrtVtMv m1 direction
  if ratio0 <. eps12 || ratio1 <. eps12 then Scalar.cmin ratio0 ratio1 else
  let rmin := Scalar.cmin ratio0 ratio1
  let rmax := Scalar.cmax ratio0 ratio1
  let r := rmin /. rmax
  if Scalar.cabs (r -. lit1) <. eps12 then half *. (ratio0 +. ratio1)
  else rmin *. (r -. lit1) /. (r *. Scalar.log r)

/-- `ref_node_ratio_node0` -/
def ratioNode0 (x0 x1 : V3 α) (m0 : M6 α) : α :=
  let direction := V3.sub x1 x0
  if ratioDegenerate direction then lit0 else sqrtVtMv m0 direction

/-- `ref_node_ratio_log_quadrature` after the metric at the mid-point has been formed:
    `mmid = exp_m(0.5*log m0 + 0.5*log m1)` is an input here (`ref_matrix_exp_m` belongs to the
    matrix package).  One Gauss point: `*ratio = 0.0; *ratio += 0.5 * 2.0 * sqrt_vt_m_v`. -/
def ratioQuadratureMid (x0 x1 : V3 α) (mmid : M6 α) : α :=
  let direction := V3.sub x1 x0
  if ratioDegenerate direction then lit0 else
  lit0 +. (half *. lit2) *. sqrtVtMv mmid direction

/-- the log-metric mix of the single quadrature point: `w1 = 0.5*0.0+0.5; w0 = 1.0-w1` -/
def quadratureMix (l0 l1 : M6 α) : M6 α :=
  let w1 : α := half *. lit0 +. half
  let w0 : α := lit1 -. w1
  ⟨w0 *. l0.m0 +. w1 *. l1.m0, w0 *. l0.m1 +. w1 *. l1.m1, w0 *. l0.m2 +. w1 *. l1.m2,
   w0 *. l0.m3 +. w1 *. l1.m3, w0 *. l0.m4 +. w1 *. l1.m4, w0 *. l0.m5 +. w1 *. l1.m5⟩

/-- `ref_node_dratio_dnode0_quadrature` after `mmid` has been formed -/
def dratioQuadratureMid (x0 x1 : V3 α) (mmid : M6 α) : α × V3 α :=
  let direction := V3.sub x1 x0
  if ratioDegenerate direction then (lit0, V3.zero) else
  let fd := sqrtVtMvDeriv mmid direction
  let c : α := half *. lit2
  (lit0 +. c *. fd.1, ⟨lit0 -. c *. fd.2.x, lit0 -. c *. fd.2.y, lit0 -. c *. fd.2.z⟩)

/-- `ref_node_dratio_dnode0`, geometric branch -/
def dratioGeometric (x0 x1 : V3 α) (m0 m1 : M6 α) : α × V3 α :=
  let direction := V3.sub x1 x0
  if ratioDegenerate direction then (lit0, V3.zero) else
  let fd0 := sqrtVtMvDeriv m0 direction
  let fd1 := sqrtVtMvDeriv m1 direction
  let ratio0 := fd0.1
  let ratio1 := fd1.1
  let d0 : V3 α := ⟨-. fd0.2.x, -. fd0.2.y, -. fd0.2.z⟩
  let d1 : V3 α := ⟨-. fd1.2.x, -. fd1.2.y, -. fd1.2.z⟩
  if ratio0 <. eps12 || ratio1 <. eps12 then
    (if ratio0 <. ratio1 then (ratio0, d0) else (ratio1, d1))
  else
    let lo : α × V3 α := if ratio0 <. ratio1 then (ratio0, d0) else (ratio1, d1)
    let hi : α × V3 α := if ratio0 <. ratio1 then (ratio1, d1) else (ratio0, d0)
    let rmin := lo.1
    let rmax := hi.1
    let r := rmin /. rmax
    let dr (dmin dmax : α) : α := (dmin *. rmax -. rmin *. dmax) /. rmax /. rmax
    let drx := dr lo.2.x hi.2.x
    let dry := dr lo.2.y hi.2.y
    let drz := dr lo.2.z hi.2.z
    if Scalar.cabs (r -. lit1) <. eps12 then
      (half *. (rmin +. rmax),
       ⟨half *. (lo.2.x +. hi.2.x), half *. (lo.2.y +. hi.2.y), half *. (lo.2.z +. hi.2.z)⟩)
    else
      let rlogr := r *. Scalar.log r
      let dd (dri dmin : α) : α :=
        ((rmin *. dri +. dmin *. (r -. lit1)) *. rlogr -.
          rmin *. (r -. lit1) *. (r *. lit1 /. r *. dri +. dri *. Scalar.log r)) /. rlogr /. rlogr
      (rmin *. (r -. lit1) /. rlogr, ⟨dd drx lo.2.x, dd dry lo.2.y, dd drz lo.2.z⟩)

/-- coordinate part of `ref_node_interpolate_edge`: `(1.0-w1)*x0 + w1*x1` -/
def interpolateEdgeXyz (x0 x1 : V3 α) (w1 : α) : V3 α :=
  let w0 := lit1 -. w1
  ⟨w0 *. x0.x +. w1 *. x1.x, w0 *. x0.y +. w1 *. x1.y, w0 *. x0.z +. w1 *. x1.z⟩

/-- inner loop of `ref_interp_scalar` for one receptor and one field component: clip the stored
    barycentric weights (`RSS` on the clip status), then `donor = 0.0; donor += bary[i]*f[i]` over the
    `nodePer` (3 for a 2-D donor triangle, 4 for a tet) donor nodes, then the `RAS(isfinite)` -/
def interpScalar (nodePer : Nat) (bary : B4 α) (f : B4 α) : St × α :=
  match clipBary4 bary with
  | (St.ok, w) =>
    let s3 := lit0 +. w.b0 *. f.b0 +. w.b1 *. f.b1 +. w.b2 *. f.b2
    let s := if nodePer == 3 then s3 else s3 +. w.b3 *. f.b3
    if Scalar.isFinite s then (St.ok, s) else (St.failure, s)
  | (st, _) => (st, lit0)

end Refine.Model.Geom
