import Refine.Model.Solb
import Refine.Model.Par
import Refine.Gen.SolOrder

/-!
  L7 Codec, part 3: the text field/metric formats and the multi-rank chunk loops.

  readers (src/ref_part.c)    ref_part_metric  (`.sol` ascii 3-D / other dim, plain six columns, dispatch to `.solb`),
                              ref_part_metric_solb, ref_part_scalar (dispatch), ref_part_scalar_sol, ref_part_scalar_solb,
                              ref_part_bamg_metric
  writers (src/ref_gather.c)  ref_gather_metric (plain / `.met` / `.solb`), ref_gather_scalar_by_extension
                              (`.sol`, `.solb`, `.txt`, `.bin`, `.rst`)

  Text files are token lists (`Tok`): what `fscanf("%s" | "%d" | "%lf")` consumes.  A number is carried as the 64-bit
  pattern `strtod` returns for the token (the harness prints `%.17g`, which round-trips), so no decimal conversion
  enters the model; the model is about WHICH token lands in WHICH slot of WHICH vertex.

  The chunk loop is a function on a `World` of ranks: rank 0 reads `section_size` rows into its buffer,
  `ref_mpi_bcast` copies the buffer to every rank (`Refine.Model.Comm.bcast`), every rank stores row `k` of the buffer at
  its local node with global id `nnode_read + k` (and, for 2-D binary/scalar files, `nnode + nnode_read + k`).
  The writers are `Refine.Model.Par.gatherNodeChunked` (the loop of ref_gather_node, same text in every
  ref_gather_node_* function) with a row of doubles as payload.

  Not modelled here: `%d` applied to a token with a fraction, `%s` overflow of `line[1024]`, `.csv`, `.plt`, `.snap`,
  `.restart_sol`; a failing read on rank 0 of a multi-rank run (the other ranks wait in the broadcast: the C deadlocks;
  the model returns the status of rank 0).
-/
namespace Refine.Model.Sol
open Refine.Gen Refine.Model.Meshb
open Refine.Model.Comm (World RefType writeAt bcast)

/-- one whitespace-separated token of a text file -/
inductive Tok
  /-- not a number (purely alphabetic in everything the tie generates) -/
  | word (s : String)
  /-- a decimal integer -/
  | int (n : Int)
  /-- a floating literal, as the bit pattern `strtod` gives -/
  | num (bits : UInt64)
  deriving DecidableEq, Repr, Inhabited

abbrev Row := List UInt64

def one : UInt64 := 0x3ff0000000000000
def minusOne : UInt64 := 0xbff0000000000000

/-- `fscanf("%d")` on one token: a word gives 0 conversions -/
def scanD : Tok → Option Int
  | .int n => some n
  | _ => none

/-- `fscanf("%lf")` on one token -/
def scanLf : Tok → Option UInt64
  | .num b => some b
  | .int n => some (Float.ofInt n).toBits
  | .word _ => none

/-- `k` conversions `%lf`; `none` when fewer than `k` succeed (a word, or end of file) -/
def scanLfs : Nat → List Tok → Option (List UInt64 × List Tok)
  | 0, ts => some ([], ts)
  | _ + 1, [] => none
  | k + 1, t :: ts =>
    match scanLf t with
    | none => none
    | some x =>
      match scanLfs k ts with
      | none => none
      | some (xs, ts) => some (x :: xs, ts)

/-- values in file order stored one after the other into `metric[order[k] + 6*node]` of a block initialised with
    `-1.0`, then the constant fills -/
def storeRow (order : List Nat) (fill : List (Nat × Bool)) (f : List UInt64) : Row :=
  let r := (order.zip f).foldl (fun row p => row.set p.1 p.2) (List.replicate 6 minusOne)
  fill.foldl (fun row p => row.set p.1 (if p.2 then one else 0)) r

/-- a row in memory order written in file order -/
def loadRow (order : List Nat) (m : Row) : List UInt64 := order.map fun k => m.getD k 0

/-- `fscanf(file, "%*[^1234567890-+.]")`: characters up to the first that can start a number are dropped; at token
    level the leading (alphabetic) words -/
def skipWords : List Tok → List Tok
  | .word _ :: ts => skipWords ts
  | ts => ts

/-! ## generic sequential readers -/

/-- `m` rows, each read by `rd1` -/
def rdMany {σ : Type} (rd1 : σ → Except Status (Row × σ)) : Nat → σ → Except Status (List Row × σ)
  | 0, s => .ok ([], s)
  | m + 1, s =>
    match rd1 s with
    | .error e => .error e
    | .ok (r, s) =>
      match rdMany rd1 m s with
      | .error e => .error e
      | .ok (rs, s) => .ok (r :: rs, s)

/-- one text row: `width` conversions `%lf` (REIS on the count), stored by `store` -/
def rdTokRow (width : Nat) (store : List UInt64 → Row) (ts : List Tok) : Except Status (Row × List Tok) :=
  match scanLfs width ts with
  | none => .error .failure
  | some (f, ts) => .ok (store f, ts)

/-! ## the chunk loop of the readers -/

/-- what one rank holds: `globals[i]` is the global id of local node `i`; the bounce buffer; the node-based array -/
structure Rank where
  globals : List Nat
  buf : List Row
  arr : List Row
  deriving Repr

/-- `ref_node_local`: REF_NOT_FOUND = none -/
def refNodeLocal (gl : List Nat) (g : Int) : Option Nat :=
  if g < 0 then none else gl.idxOf? g.toNat

/-- body of the `for (node = 0; node < section_size; node++)` store loop for the row of global `g` -/
def setRow (dup : Bool) (nnode : Int) (gl : List Nat) (g : Int) (row : Row) (arr : List Row) : List Row :=
  let a := match refNodeLocal gl g with
    | some l => arr.set l row
    | none => arr
  if dup then
    match refNodeLocal gl (nnode + g) with
    | some l => a.set l row
    | none => a
  else a

/-- rows `g, g+1, …` stored in order -/
def scatterRows (dup : Bool) (nnode : Int) (gl : List Nat) : Int → List Row → List Row → List Row
  | _, [], arr => arr
  | g, row :: rest, arr => scatterRows dup nnode gl (g + 1) rest (setRow dup nnode gl g row arr)

/-- `chunk = (REF_INT)MAX(floor, nnode / np); chunk = (REF_INT)MIN((REF_LONG)chunk, nnode)`; `floor` is 100000 in the
    C text (`SolOrder.readChunkFloor`) -/
def chunkOfR (floor nnode : Int) (np : Nat) : Int :=
  wrap32 (min (wrap32 (max floor (Int.tdiv nnode np))) nnode)

/-- one pass of the `while` body: rank 0 has read `rows` into its buffer; `ref_mpi_bcast(buf, width*chunk, REF_DBL)`;
    every rank stores the first `rows.length` rows of its buffer -/
def chunkStep (dup : Bool) (nnode read : Int) (chunk : Nat) (rows : List Row) (w : World Rank) :
    Except Status (World Rank) :=
  match w with
  | [] => .ok []
  | st0 :: rest =>
    let bufs := writeAt st0.buf 0 rows :: rest.map (·.buf)
    let b := bcast RefType.dbl chunk bufs
    if b.any (fun x => x.1 != Comm.Status.ok) then .error .implement else
    .ok ((w.zip b).map fun p =>
      { p.1 with buf := p.2.2, arr := scatterRows dup nnode p.1.globals read (p.2.2.take rows.length) p.1.arr })

/-- the `while (nnode_read < nnode)` loop; `section_size = MIN(chunk, limit - nnode_read)`;
    `rd k` reads `k` rows on rank 0 -/
def readLoop {σ : Type} (dup : Bool) (nnode limit chunk : Int) (rd : Nat → σ → Except Status (List Row × σ)) :
    Nat → Int → σ → World Rank → Except Status (World Rank × σ)
  | 0, read, s, w => if read < nnode then .error .diverge else .ok (w, s)
  | fuel + 1, read, s, w =>
    if read < nnode then
      let sect := min chunk (limit - read)
      match rd sect.toNat s with
      | .error e => .error e
      | .ok (rows, s) =>
        match chunkStep dup nnode read chunk.toNat rows w with
        | .error e => .error e
        | .ok w => readLoop dup nnode limit chunk rd fuel (read + sect) s w
    else .ok (w, s)

/-- allocation of the bounce buffer (`ref_malloc_init(.., width*chunk, REF_DBL, -1.0)`) and the loop;
    `init[r]` are the node arrays before the call.  Result: the node arrays, the rest of the stream -/
def scatterFile {σ : Type} (dup : Bool) (nnode limit floor : Int) (width : Nat)
    (rd : Nat → σ → Except Status (List Row × σ)) (ranks : List (List Nat)) (init : List (List Row)) (s : σ) :
    Except Status (World (List Row) × σ) :=
  let chunk := chunkOfR floor nnode ranks.length
  let w : World Rank := (ranks.zip init).map fun (gl, a) =>
    { globals := gl, buf := List.replicate chunk.toNat (List.replicate width minusOne), arr := a }
  match readLoop dup nnode limit chunk rd (nnode.toNat + 1) 0 s w with
  | .error e => .error e
  | .ok (w, s) => .ok (w.map (·.arr), s)

/-- the metric every node has before a reader runs (`ref_node_add` → `ref_node_metric_form(1,0,0,1,0,1)`) -/
def identityRows (ranks : List (List Nat)) : List (List Row) :=
  ranks.map fun gl => List.replicate gl.length Solb.identityMetric

/-! ## ref_part_metric -/

inductive MetricFmt | solb | csv | sol | plain
  deriving DecidableEq, Repr

/-- `end_of_string > n && strcmp(&filename[end_of_string - n], suffix) == 0` -/
def hasExt (name suffix : String) : Bool := decide (name.length > suffix.length) && name.endsWith suffix

/-- the dispatch of ref_part_metric (rank 0 decides, `ref_mpi_all_or` spreads it) -/
def metricFmt (name : String) : MetricFmt :=
  if hasExt name ".solb" then .solb else if hasExt name ".csv" then .csv
  else if hasExt name ".sol" then .sol else .plain

/-- the solution type list of a metric file: 1 → 1 term, 2 → none, 3 → 3 terms if `2 == dim` else 6 -/
def metricTypes (dim : Int) : Nat → Int → List Tok → Except Status (Int × List Tok)
  | 0, ldim, ts => .ok (ldim, ts)
  | _ + 1, _, [] => .error .failure
  | n + 1, ldim, t :: ts =>
    match scanD t with
    | none => .error .failure
    | some ty =>
      if ty < 1 ∨ 3 < ty then .error .failure else
      metricTypes dim n (ldim + (if ty = 1 then 1 else if ty = 3 then (if dim = 2 then 3 else 6) else 0)) ts

/-- the keyword loop of ref_part_metric for `.sol`: `Dimension d` may come anywhere before `SolAtVertices`;
    result: `dim` and the stream positioned at the first value -/
def metricSolHeader (nGlobal : Int) : Nat → Int → List Tok → Except Status (Int × List Tok)
  | 0, _, _ => .error .diverge
  | _ + 1, _, [] => .error .failure
  | fuel + 1, dim, t :: ts =>
    if t = Tok.word "Dimension" then
      match ts with
      | [] => .error .failure
      | d :: ts =>
        match scanD d with
        | none => .error .failure
        | some dim' => metricSolHeader nGlobal fuel dim' ts
    else if t = Tok.word "SolAtVertices" then
      match ts with
      | [] => .error .failure
      | n :: ts =>
        match scanD n with
        | none => .error .failure
        | some nnode =>
          if nnode ≠ nGlobal then .error .failure else
          match ts with
          | [] => .error .failure
          | nt :: ts =>
            match scanD nt with
            | none => .error .failure
            | some ntype =>
              match metricTypes dim ntype.toNat 0 ts with
              | .error e => .error e
              | .ok (ldim, ts) =>
                if (dim = 2 ∧ ldim ≠ 3) ∨ (dim ≠ 2 ∧ ldim ≠ 6) then .error .failure else
                if dim = -1 then .error .failure else
                .ok (dim, skipWords ts)
    else metricSolHeader nGlobal fuel dim ts

/-- the per-node `fscanf` of ref_part_metric: `.sol` with `3 == dim`, `.sol` otherwise, plain -/
def metricTextRow (sol : Bool) (dim : Int) : List Tok → Except Status (Row × List Tok) :=
  if sol then
    if dim = 3 then rdTokRow 6 (storeRow SolOrder.asciiSol3 [])
    else rdTokRow 3 (storeRow SolOrder.asciiSol2 SolOrder.asciiSol2Fill)
  else rdTokRow 6 (storeRow SolOrder.plainMetric [])

/-- ref_part_metric on a text file (`.sol` or plain); `nGlobal = ref_node_n_global` -/
def partMetricText (sol : Bool) (floor : Int) (nGlobal : Nat) (ranks : List (List Nat)) (ts : List Tok) :
    Except Status (World (List Row)) :=
  match (if sol then metricSolHeader nGlobal (ts.length + 1) (-1) ts else .ok (-1, ts)) with
  | .error e => .error e
  | .ok (dim, ts) =>
    match scatterFile false nGlobal nGlobal floor 6 (rdMany (metricTextRow sol dim)) ranks (identityRows ranks) ts with
    | .error e => .error e
    | .ok (arrs, _) => .ok arrs

/-- ref_part_metric_solb on `ranks` -/
def partMetricSolb (floor : Int) (nGlobal : Nat) (ranks : List (List Nat)) (bs : Bytes) :
    Except Status (World (List Row)) :=
  match Solb.metricPlan Cfg.faithful nGlobal bs with
  | .error e => .error e
  | .ok (dim, next, nnode, ldim, s) =>
    match scatterFile (dim == 2) nnode nnode floor 6 (rdMany (Solb.rdMetricRow ldim)) ranks (identityRows ranks) s with
    | .error e => .error e
    | .ok (arrs, s) => if next = tell bs s then .ok arrs else .error .failure

/-- a file as the op line carries it -/
inductive File
  | text (ts : List Tok)
  | bin (bs : Bytes)

/-- ref_part_metric; `none`: a branch that is not modelled (`.csv`, or a binary body for a text reader) -/
def partMetric (name : String) (floor : Int) (nGlobal : Nat) (ranks : List (List Nat)) (f : File) :
    Option (Except Status (World (List Row))) :=
  match metricFmt name, f with
  | .solb, .bin bs => some (partMetricSolb floor nGlobal ranks bs)
  | .sol, .text ts => some (partMetricText true floor nGlobal ranks ts)
  | .plain, .text ts => some (partMetricText false floor nGlobal ranks ts)
  | _, _ => none

/-- ref_part_bamg_metric: header `nnode 3`, three columns, `nnode = n_global / 2`, rows stored through
    `ref_node_metric_form` -/
def bamgRow (f : List UInt64) : Row :=
  let b := (SolOrder.bamgRead.zip f).foldl (fun row p => row.set p.1 p.2) (List.replicate 3 minusOne)
  SolOrder.bamgForm.map fun
    | (some k, _) => b.getD k 0
    | (none, isOne) => if isOne then one else 0

def partBamgMetric (floor : Int) (nGlobal : Nat) (ranks : List (List Nat)) (ts : List Tok) :
    Except Status (World (List Row)) :=
  let nnode : Int := Int.tdiv nGlobal 2
  match ts with
  | a :: b :: ts =>
    match scanD a, scanD b with
    | some fileN, some nterm =>
      if fileN ≠ nnode then .error .failure else
      if nterm ≠ 3 then .error .failure else
      match scatterFile false nnode nGlobal floor 3 (rdMany (rdTokRow 3 bamgRow)) ranks (identityRows ranks) ts with
      | .error e => .error e
      | .ok (arrs, _) => .ok arrs
    | _, _ => .error .failure
  | _ => .error .failure

/-! ## ref_part_scalar -/

inductive ScalarFmt | restartSol | rst | sol | solb | snap | plt | unknown
  deriving DecidableEq, Repr

def scalarFmt (name : String) : ScalarFmt :=
  if hasExt name ".restart_sol" then .restartSol else if hasExt name ".rst" then .rst
  else if hasExt name ".sol" then .sol else if hasExt name ".solb" then .solb
  else if hasExt name ".snap" then .snap else if hasExt name ".plt" then .plt else .unknown

/-- type list of a scalar `.sol`: 1 → 1, 2 → `dim` (whatever `dim` holds at that point), else THROW -/
def scalarTypes (dim : Int) : Nat → Int → List Tok → Except Status (Int × List Tok)
  | 0, ldim, ts => .ok (ldim, ts)
  | _ + 1, _, [] => .error .failure
  | n + 1, ldim, t :: ts =>
    match scanD t with
    | none => .error .failure
    | some ty =>
      if ty = 1 then scalarTypes dim n (ldim + 1) ts
      else if ty = 2 then scalarTypes dim n (ldim + dim) ts
      else .error .failure

/-- keyword loop of ref_part_scalar_sol: `(dim, nnode, ldim, rest)` -/
def scalarSolHeader : Nat → Int → List Tok → Except Status (Int × Int × Int × List Tok)
  | 0, _, _ => .error .diverge
  | _ + 1, _, [] => .error .failure
  | fuel + 1, dim, t :: ts =>
    if t = Tok.word "Dimension" then
      match ts with
      | [] => .error .failure
      | d :: ts =>
        match scanD d with
        | none => .error .failure
        | some dim' => scalarSolHeader fuel dim' ts
    else if t = Tok.word "SolAtVertices" then
      match ts with
      | n :: nt :: ts =>
        match scanD n with
        | none => .error .failure
        | some nnode =>
          match scanD nt with
          | none => .error .failure
          | some ntype =>
            match scalarTypes dim ntype.toNat 0 ts with
            | .error e => .error e
            | .ok (ldim, ts) => if dim = -1 then .error .failure else .ok (dim, nnode, ldim, skipWords ts)
      | _ => .error .failure
    else scalarSolHeader fuel dim ts

/-- "too few" is an error, "too many" a warning, twice the vertices is the legacy extruded layout -/
def scalarCountOk (nnode : Int) (nGlobal : Nat) : Bool :=
  !(nnode ≠ nGlobal ∧ Int.tdiv nnode 2 ≠ nGlobal ∧ ¬ (nnode > nGlobal))

/-- ref_part_scalar_sol: `(ldim, node arrays)`; a negative `ldim` is a negative allocation: RAS in ref_malloc -/
def partScalarSol (floor : Int) (nGlobal : Nat) (ranks : List (List Nat)) (ts : List Tok) :
    Except Status (Int × World (List Row)) :=
  match scalarSolHeader (ts.length + 1) (-1) ts with
  | .error e => .error e
  | .ok (dim, nnode, ldim, ts) =>
    if !scalarCountOk nnode nGlobal then .error .failure else
    if ldim < 0 then .error .failure else
    match scatterFile (dim == 2) nnode nnode floor ldim.toNat (rdMany (rdTokRow ldim.toNat id)) ranks
            (ranks.map fun gl => List.replicate gl.length []) ts with
    | .error e => .error e
    | .ok (arrs, _) => .ok (ldim, arrs)

/-- ref_part_scalar_solb on `ranks` (header and count check as in `Solb.scalarPlan`) -/
def partScalarSolb (cfg : Cfg) (floor : Int) (nGlobal : Nat) (ranks : List (List Nat)) (bs : Bytes) :
    Except Status (Int × World (List Row)) :=
  match Solb.scalarPlan cfg nGlobal bs with
  | .error e => .error e
  | .ok (dim, next, nnode, ldim, s) =>
    -- `if (0 == (*ldim)) nnode_read = nnode;` (repo 54a1e7c): a section without fields runs no pass of the loop
    if ldim = 0 then
      (if next = tell bs s then .ok (0, ranks.map fun gl => List.replicate gl.length []) else .error .failure)
    else
    match scatterFile (dim == 2) nnode nnode floor ldim (rdMany (Solb.rdF64s ldim)) ranks
            (ranks.map fun gl => List.replicate gl.length []) s with
    | .error e => .error e
    | .ok (arrs, s) => if next = tell bs s then .ok (ldim, arrs) else .error .failure

def partScalar (cfg : Cfg) (name : String) (floor : Int) (nGlobal : Nat) (ranks : List (List Nat)) (f : File) :
    Option (Except Status (Int × World (List Row))) :=
  match scalarFmt name, f with
  | .sol, .text ts => some (partScalarSol floor nGlobal ranks ts)
  | .solb, .bin bs => some (partScalarSolb cfg floor nGlobal ranks bs)
  | .unknown, _ => some (.error .failure)
  | _, _ => none

/-! ## writers -/

/-- IEEE addition on bit patterns (`MPI_SUM` on REF_DBL) -/
def fadd (a b : UInt64) : UInt64 := (Float.ofBits a + Float.ofBits b).toBits

def rowAdd (a b : Row) : Row := List.zipWith fadd a b

/-- `chunk = n_global / np + 1; chunk = MIN(chunk, ref_mpi_reduce_chunk_limit(ref_mpi, (width+1)*sizeof(REF_DBL)))` -/
def chunkOfW (N np : Nat) (reduceByteLimit : Int) (width : Nat) : Nat :=
  (min ((N / np + 1 : Nat) : Int) (Par.reduceChunkLimit reduceByteLimit (((width + 1) * 8 : Nat) : Int))).toNat

/-- the gather loop shared by ref_gather_node_metric / _bamg_met / _metric_solb / _scalar_bin / _scalar_txt:
    the rows rank 0 writes, in global order; `none` = `chunk == 0`, the loop never advances -/
def gatherRows (rbl : Int) (width N : Nat) (w : World (Par.RankView Row)) : Option (List Row) :=
  (Par.gatherNodeChunked rowAdd (List.replicate width 0) (chunkOfW N w.length rbl width) N w).map (·.1)

/-- what a writer leaves in the file -/
inductive Out
  | toks (ts : List Tok)
  | bytes (bs : Bytes)
  deriving DecidableEq, Repr

/-- result of a writer: `hang` is the C's endless loop for `chunk == 0` -/
inductive WResult
  | hang
  | done (r : Except Status Out)
  deriving DecidableEq, Repr

def numToks (xs : List UInt64) : List Tok := xs.map Tok.num

/-- `version = 2; if (1 < meshb_version) version = meshb_version` (vertex counts far below 10^7) -/
def solbVersion (meshbVersion : Nat) : Nat := if 1 < meshbVersion then meshbVersion else 2

inductive MetricOutFmt | solb | met | plain
  deriving DecidableEq, Repr

def metricOutFmt (name : String) : MetricOutFmt :=
  if hasExt name ".solb" then .solb else if hasExt name ".met" then .met else .plain

/-- ref_gather_metric; the payload of a node is its six metric terms in memory order -/
def gatherMetric (name : String) (twod : Bool) (meshbVersion : Nat) (rbl : Int) (N : Nat)
    (w : World (Par.RankView Row)) : WResult :=
  match metricOutFmt name with
  | .solb =>
    match gatherRows rbl 6 N w with
    | none => .hang
    | some rows => .done (.ok (.bytes (Solb.encodeMetricSolb (solbVersion meshbVersion) twod rows)))
  | .met =>
    if !twod then .done (.error .failure) else
    match gatherRows rbl 6 N w with
    | none => .hang
    | some rows =>
      .done (.ok (.toks ([Tok.int N, Tok.int 3] ++ rows.flatMap fun m => numToks (loadRow SolOrder.writeMet m))))
  | .plain =>
    match gatherRows rbl 6 N w with
    | none => .hang
    | some rows => .done (.ok (.toks (rows.flatMap fun m => numToks (loadRow SolOrder.writePlain m))))

inductive ScalarOutFmt | rst | sol | solb | bin | txt | unmodelled | unknown
  deriving DecidableEq, Repr

/-- the extension chain of ref_gather_scalar_by_extension (tecplot / pcd / cell formats: `unmodelled`) -/
def scalarOutFmt (name : String) : ScalarOutFmt :=
  if hasExt name "-edge.tec" || hasExt name "-brick.plt" || hasExt name ".plt" || hasExt name ".tec" ||
     hasExt name ".dat" || hasExt name ".t" || hasExt name ".pcd" then .unmodelled
  else if hasExt name ".rst" then .rst
  else if hasExt name ".restart_sol" then .unmodelled
  else if hasExt name ".sol" then .sol
  else if hasExt name "-usm3dcell.solb" then .unmodelled
  else if hasExt name ".solb" then .solb
  else if hasExt name ".bin" then .bin
  else if hasExt name ".txt" then .txt
  else if hasExt name ".csv" then .unmodelled
  else .unknown

/-- the COFFERST header of ref_gather_scalar_rst -/
def rstHeader (twod : Bool) (variables : Nat) (N : Nat) : Bytes :=
  le32 8 ++ "COFFERST".toUTF8.toList ++ le32 2 ++ le32 (if twod then 2 else 3) ++ le32 variables ++ le32 2 ++
  le32 N ++ le32 0

/-- ref_gather_scalar_by_extension; `none`: a format that is not modelled -/
def gatherScalar (name : String) (twod : Bool) (meshbVersion : Nat) (rbl : Int) (N ldim : Nat)
    (w : World (Par.RankView Row)) : Option WResult :=
  match scalarOutFmt name with
  | .unmodelled => none
  | .unknown => some (.done (.error .failure))
  | .sol =>
    some <| match gatherRows rbl ldim N w with
    | none => .hang
    | some rows =>
      .done (.ok (.toks ([Tok.word "MeshVersionFormatted", Tok.int 2, Tok.word "Dimension", Tok.int (if twod then 2 else 3),
        Tok.word "SolAtVertices", Tok.int N, Tok.int ldim] ++ List.replicate ldim (Tok.int 1) ++
        rows.flatMap numToks ++ [Tok.word "End"])))
  | .txt =>
    some <| match gatherRows rbl ldim N w with
    | none => .hang
    | some rows => .done (.ok (.toks (rows.flatMap numToks)))
  | .bin =>
    some <| match gatherRows rbl ldim N w with
    | none => .hang
    | some rows => .done (.ok (.bytes (rows.flatMap fun r => r.flatMap encF64)))
  | .solb =>
    some <| match gatherRows rbl ldim N w with
    | none => .hang
    | some rows =>
      .done (.ok (.bytes (Solb.encodeSolb (solbVersion meshbVersion) { twod := twod, ldim := ldim, rows := rows })))
  | .rst =>
    -- two time steps of `ldim/2` variables each, step-major: step k holds `scalar[im + k*variables + ldim*local]`,
    -- `im < variables` (the `step*variables` offset was missing before fix ca4212e: both blocks held the first half)
    let variables := ldim / 2
    if variables * 2 ≠ ldim then some (.done (.error .failure)) else
    let step (k : Nat) : World (Par.RankView Row) := w.map fun v =>
      { v with nodes := v.nodes.map fun nd => { nd with payload := (nd.payload.drop (k * variables)).take variables } }
    some <| match gatherRows rbl variables N (step 0), gatherRows rbl variables N (step 1) with
    | some r0, some r1 =>
      .done (.ok (.bytes (rstHeader twod variables N ++ (r0 ++ r1).flatMap fun r => r.flatMap encF64)))
    | _, _ => .hang

end Refine.Model.Sol
