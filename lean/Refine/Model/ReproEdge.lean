import Refine.Model.CellStore

/-!
  C18 mechanism (a): `ref_edge_create` / `ref_edge_builder_uniq` / `ref_edge_uniq` / `ref_edge_with`
  (`src/ref_edge.c`).

  The edge numbering of a grid is built by ONE deterministic loop nest:

      each_ref_grid_3d_ref_cell (groups 8..15), then each_ref_grid_2d_ref_cell (groups 3..7)
        each_ref_cell_valid_cell   (cell = 0 .. max-1, slot order, `ref_cell_valid` test)
          each_ref_cell_cell_edge  (cell_edge = 0 .. edge_per-1, the generated `e2n` table)
            ref_edge_uniq(node0, node1)

  `ref_edge_uniq` looks the pair up with `ref_edge_with` — a walk over the adjacency chain of `node0`
  (newest edge first) comparing both orientations — and appends `(node0,node1)` as edge `n` when it is not
  there, registering the new edge with both end points (`ref_adj_add`).

  The model copies that: `EdgeSt.e2n` is the `e2n` array (edge order), `EdgeSt.adj` the embedded `ref_adj`
  in iteration order (the `Adj` of `Model/CellStore.lean`).  The `e2n` realloc growth (100 / +5000 / ×1.5) has
  no observable effect in a list model and is not modelled (the tie crosses it).

  Everything is executable and core-only.  Theorems: `Refine/Props/C18Mech.lean`.
-/
namespace Refine.Model.ReproEdge
open Refine.Model.NodeIds (Status)
open Refine.Model.CellStore

structure EdgeSt where
  /-- `e2n[0 + 2*edge], e2n[1 + 2*edge]` for `edge < n` -/
  e2n : List (Int × Int)
  adj : Adj
  deriving Repr, DecidableEq

namespace EdgeSt

def empty : EdgeSt := ⟨[], Adj.create⟩

/-- `(n0 == node0 && n1 == node1) || (n0 == node1 && n1 == node0)` -/
def edgeMatch (p : Int × Int) (node0 node1 : Int) : Bool :=
  (p.1 == node0 && p.2 == node1) || (p.1 == node1 && p.2 == node0)

/-- `ref_edge_with`: the first edge in the adjacency chain of `node0` joining `node0` and `node1`;
    `none` is `REF_NOT_FOUND` -/
def withNodes (s : EdgeSt) (node0 node1 : Int) : Option Int :=
  (s.adj.first node0).find? fun e => edgeMatch (s.e2n.getD e.toNat (-1, -1)) node0 node1

/-- `ref_edge_uniq` -/
def uniq (s : EdgeSt) (node0 node1 : Int) : Status × EdgeSt :=
  match s.withNodes node0 node1 with
  | some _ => (.ok, s)
  | none =>
    let e : Int := (s.e2n.length : Int)
    let s1 : EdgeSt := { s with e2n := s.e2n ++ [(node0, node1)] }
    let r0 := s1.adj.add node0 e
    if r0.1 ≠ .ok then (r0.1, { s1 with adj := r0.2 }) else
    let r1 := r0.2.add node1 e
    (r1.1, { s1 with adj := r1.2 })

/-- the `RSS(ref_edge_uniq(...))` loop: stop at the first error -/
def uniqAll : EdgeSt → List (Int × Int) → Status × EdgeSt
  | s, [] => (.ok, s)
  | s, p :: ps =>
    let r := s.uniq p.1 p.2
    if r.1 = .ok then uniqAll r.2 ps else r

end EdgeSt

/-- the `(node0,node1)` pairs one cell store contributes, in loop order:
    `each_ref_cell_valid_cell` (slot order) × `each_ref_cell_cell_edge` (table order),
    `node_k = c2n[e2n[k + 2*cell_edge] + size_per*cell]` -/
def cellEdgePairs (s : CellStore) : List (Int × Int) :=
  ((List.range s.max).filter fun (c : Nat) => s.validCell (c : Int)).flatMap fun (c : Nat) =>
    s.e2n.map fun ab => (s.c2nAt ab.1 c, s.c2nAt ab.2 c)

/-- the live cells of a store in slot order, each as its node list (the only thing the edge loop reads) -/
def liveSeq (s : CellStore) : List (List Int) :=
  ((List.range s.max).filter fun (c : Nat) => s.validCell (c : Int)).map fun (c : Nat) => (s.row c).take s.nodePer

/-- `ref_edge_create`: 3-D groups (8..15) first, then 2-D groups (3..7); groups 0..2 (edg) are not visited.
    `groups` is the list of the 16 cell stores of the grid in `REF_CELL_TYPES` order. -/
def gridPairs (groups : List CellStore) : List (Int × Int) :=
  (((groups.drop 8).take 8) ++ ((groups.drop 3).take 5)).flatMap cellEdgePairs

def edgeCreate (groups : List CellStore) : Status × EdgeSt :=
  EdgeSt.uniqAll EdgeSt.empty (gridPairs groups)

/-! ### specification level: no adjacency, plain list membership -/

/-- append the pair unless it (in either orientation) is already listed -/
def specStep (acc : List (Int × Int)) (p : Int × Int) : List (Int × Int) :=
  if acc.any (fun q => EdgeSt.edgeMatch q p.1 p.2) then acc else acc ++ [p]

def specEdges (ps : List (Int × Int)) : List (Int × Int) := ps.foldl specStep []

/-- the pairs of a cell given as a node list, through an `e2n` table -/
def pairsOfCell (e2n : List (Nat × Nat)) (nodes : List Int) : List (Int × Int) :=
  e2n.map fun ab => (nodes.getD ab.1 (-1), nodes.getD ab.2 (-1))

end Refine.Model.ReproEdge
