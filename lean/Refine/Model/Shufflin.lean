import Refine.Model.Dist

/-!
  L3 Dist, second part: `ref_migrate_shufflin` (`src/ref_migrate.c`) at the level of `RankState`
  (per rank: the vertex table `(global, part, payload)` in slot order and the cell list
  `(group, vertex globals, id)` in slot order).

  The C function is entered with `ref_node_part` already holding the NEW partition on every stored vertex
  (owned and ghost: `ref_migrate_to_balance` fills `node_part` for the owned vertices, refreshes the ghosts
  with `ref_node_ghost_int(node_part, 1)` and copies the array into `part[]`), the layout (who stores what)
  still being the one of the OLD partition.  Steps, in the order of the C:

  * `ref_node_synchronize_globals` — identity on a synchronised world (the model refuses unsynchronised worlds);
  * `nodePhase`   = `ref_migrate_shufflin_node`: every stored vertex whose part is another rank is sent there
    (bucket pack, three `ref_mpi_alltoallv`: what arrives is, by C17 `alltoallv_spec`, the concatenation by
    source rank of the buckets in slot order: `nodesSentTo`); `ref_node_add_many` of the received globals, then
    the payload loop `real/aux = received, part = rank` for EVERY received copy (also of a vertex that was
    already stored: the last copy received wins);
  * `ref_migrate_shufflin_geom` — no geometry records in the harness worlds (not modelled);
  * `cellPhase g` = `ref_migrate_shufflin_cell` for each of the 16 cell groups in group order: a cell is sent
    once to every other rank occurring among the parts of its vertices (`ref_sort_unique_int`), with the vertex
    globals, their parts and the id; `ref_cell_add_many_global` on receive (`addGhosts`: `ref_node_add_many` of
    the vertices whose part is not this rank; `recvCell`: `ref_node_local` of every vertex, `part = received
    part`, `ref_cell_with` duplicate search by vertex SET, `ref_cell_add`); then the cells of that group with no
    vertex of this rank are removed;
  * `pruneRank`   = removal of the vertices of another part that no stored cell of any group references
    (`ref_node_remove_without_global_invalidates_sorted`, `ref_node_rebuild_sorted_global`);
  * `ghostReal`   = `ref_node_ghost_real`: `ref_node_ghost_dbl` on the 15 reals and on the aux block — modelled
    by ONE call of the `ghost` model of `Refine.Model.Dist` on the concatenated payload (same result whenever
    both calls complete).

  `none` = not every rank completes (a rank returns an error and the others block in the next collective).

  Core-only (linked into `refdrv`).  Theorems: `Refine/Lemmas/Shufflin*.lean`, `Refine/Props/C06Shufflin.lean`.
-/
namespace Refine.Model.Shufflin
open Refine.Model.Dist
open Refine.Model.Comm (World RefType allSome)

/-- `REF_CELL_N_TYPE` -/
def NGROUP : Nat := 16

/-- the entry of a vertex table carrying global `g` -/
def hasGlob (nodes : List DNode) (g : Int) : Bool := nodes.any fun x => x.glob == g

/-! ## `ref_migrate_shufflin_node` -/

/-- what rank `q` receives: by source rank, the source's stored vertices whose part is `q`, in slot order -/
def nodesSentTo (w : World RankState) (q : Nat) : List DNode :=
  (w.zipIdx.map fun sr =>
    if sr.2 == q then [] else sr.1.nodes.filter fun nd => nd.part == (q : Int)).flatten

/-- one received vertex: a new slot when the global is not stored (`ref_node_add_many`), then
    `real/aux = received values; part = rank` -/
def recvNode (me : Nat) (nodes : List DNode) (nd : DNode) : List DNode :=
  if hasGlob nodes nd.glob then
    nodes.map fun x => if x.glob == nd.glob then ⟨x.glob, (me : Int), nd.payload⟩ else x
  else nodes ++ [⟨nd.glob, (me : Int), nd.payload⟩]

/-- `THROW("part out of range")` on some rank: that rank leaves, the others block in `ref_mpi_alltoall` -/
def partsInRange (w : World RankState) : Bool :=
  w.all fun s => s.nodes.all fun nd => decide (0 ≤ nd.part) && decide (nd.part < (w.length : Int))

def nodePhase (w : World RankState) : Option (World RankState) :=
  if !partsInRange w then none
  else some (w.mapIdx fun q s => { s with nodes := (nodesSentTo w q).foldl (recvNode q) s.nodes })

/-! ## `ref_migrate_shufflin_cell` -/

/-- `all_parts[node] = ref_node_part(ref_node, nodes[node])` -/
def cellPartsOn (s : RankState) (c : DCell) : List Int := c.nodes.map fun g => (s.partOf g).getD (-1)

/-- one cell in the send buffer: `a_c2n` (vertex globals + id) and `a_parts` -/
structure CellMsg where
  cell : DCell
  parts : List Int
  deriving Repr, DecidableEq

/-- what rank `q` receives for group `g`: by source rank, the source's cells of the group one of whose vertices
    has part `q`, in cell-slot order (each once: the destinations of a cell are its UNIQUE parts) -/
def cellsSentTo (w : World RankState) (g : Nat) (q : Nat) : List CellMsg :=
  (w.zipIdx.map fun sr =>
    if sr.2 == q then [] else
      (sr.1.cells.filter fun c => c.group == g && (cellPartsOn sr.1 c).contains (q : Int)).map
        fun c => ⟨c, cellPartsOn sr.1 c⟩).flatten

/-- first loop of `ref_cell_add_many_global`: `ref_node_add_many` of the received vertices whose part is not
    this rank (`exclude_part_id`) and that are not stored.  (The C creates the slot with `part = rank` and
    overwrites it in the second loop; the payload is whatever `ref_node_add_core` leaves: `[]` here — it is
    rewritten by `ref_node_ghost_real` before anything reads it.) -/
def addGhosts (me : Nat) (nodes : List DNode) (m : CellMsg) : List DNode :=
  (m.cell.nodes.zip m.parts).foldl
    (fun ns gp => if gp.2 == (me : Int) || hasGlob ns gp.1 then ns else ns ++ [⟨gp.1, gp.2, []⟩]) nodes

/-- `ref_node_part(ref_node, local) = part[...]` -/
def setPart (nodes : List DNode) (g p : Int) : List DNode :=
  nodes.map fun x => if x.glob == g then { x with part := p } else x

/-- `ref_cell_with`: same vertex SET (both `ref_sort_unique_int` lists equal) -/
def sameVerts (a b : DCell) : Bool :=
  a.nodes.all (fun v => b.nodes.contains v) && b.nodes.all fun v => a.nodes.contains v

/-- a stored cell of the same group with the same vertex set -/
def hasCellWith (cells : List DCell) (c : DCell) : Bool :=
  cells.any fun x => x.group == c.group && sameVerts x c

/-- second loop of `ref_cell_add_many_global`, one received cell: `ref_node_local` of every vertex (a miss is
    an error return: `none`), `part[local] = received part`, `ref_cell_with`, `ref_cell_add` when not found -/
def recvCell (st : Option (List DNode × List DCell)) (m : CellMsg) : Option (List DNode × List DCell) :=
  match st with
  | none => none
  | some (nodes, cells) =>
    if m.cell.nodes.all (hasGlob nodes) then
      some ((m.cell.nodes.zip m.parts).foldl (fun ns gp => setPart ns gp.1 gp.2) nodes,
            if hasCellWith cells m.cell then cells else cells ++ [m.cell])
    else none

/-- `need_to_keep`: some vertex of the cell has `part == rank` -/
def keepCell (me : Nat) (nodes : List DNode) (c : DCell) : Bool :=
  c.nodes.any fun v => (nodes.find? fun x => x.glob == v).map (·.part) == some (me : Int)

/-- one rank of `ref_migrate_shufflin_cell` for group `g`, given what it receives -/
def cellPhaseRank (me g : Nat) (s : RankState) (msgs : List CellMsg) : Option RankState :=
  match msgs.foldl recvCell (some (msgs.foldl (addGhosts me) s.nodes, s.cells)) with
  | none => none
  | some (nodes, cells) =>
    some { s with nodes := nodes, cells := cells.filter fun c => c.group != g || keepCell me nodes c }

def cellPhase (g : Nat) (w : World RankState) : Option (World RankState) :=
  allSome (w.mapIdx fun q s => cellPhaseRank q g s (cellsSentTo w g q))

/-- `each_ref_grid_all_ref_cell`: the groups `0 .. REF_CELL_N_TYPE-1` in order -/
def cellPhases (w : World RankState) : Option (World RankState) :=
  (List.range NGROUP).foldl (fun ow g => ow.bind (cellPhase g)) (some w)

/-! ## removal of unreferenced ghost vertices, ghost refresh -/

def pruneRank (me : Nat) (s : RankState) : RankState :=
  { s with nodes := s.nodes.filter fun nd =>
      nd.part == (me : Int) || s.cells.any fun c => c.nodes.contains nd.glob }

def toG (s : RankState) : List (GNode Nat) := s.nodes.map fun nd => ⟨nd.glob, nd.part, nd.payload⟩

def ofG (s : RankState) (g : List (GNode Nat)) : RankState :=
  { s with nodes := g.map fun x => ⟨x.glob, x.part, x.vals⟩ }

/-- `ref_node_ghost_real` on payloads of `ldim = REF_NODE_REAL_PER + naux` values -/
def ghostReal (ldim : Nat) (w : World RankState) : Option (World RankState) :=
  (ghost RefType.dbl ldim (w.map toG)).map fun gw => (w.zip gw).map fun x => ofG x.1 x.2

/-! ## `ref_migrate_shufflin` -/

def shufflin (ldim : Nat) (w : World RankState) : Option (World RankState) :=
  if w.length ≤ 1 then some w            -- `if (!ref_mpi_para(...)) return REF_SUCCESS`
  else if !synced w then none            -- outside the model: `ref_node_synchronize_globals` would renumber
  else
    (nodePhase w).bind fun w1 =>
    (cellPhases w1).bind fun w2 =>
    ghostReal ldim (w2.mapIdx pruneRank)

/-- the caller's `for (node…) ref_node_part(ref_node, node) = node_part[node]`: every stored copy takes the
    new part of its global (`node_part` is known for owned and ghost vertices alike) -/
def setParts (f : Int → Int) (w : World RankState) : World RankState :=
  w.map fun s => { s with nodes := s.nodes.map fun nd => { nd with part := f nd.glob } }

/-! ## well-formedness the harness (and the driver) require of an op's world -/

/-- per rank: distinct non-negative globals below `n_global`, parts in range, every cell vertex stored, cell
    vertices pairwise distinct; across ranks: all copies of a global carry the same (new) part — except for globals
    that no cell of any rank references (such a vertex never becomes a ghost, so disagreeing copies cannot leave a
    rank waiting for an owner that does not store it) -/
def worldOk (w : World RankState) : Bool :=
  partsInRange w &&
  (w.all fun s =>
    nodupB (s.nodes.map (·.glob)) &&
    (s.nodes.all fun nd => decide (0 ≤ nd.glob) && decide (nd.glob < s.newN)) &&
    s.cells.all fun c => nodupB c.nodes && c.nodes.all (hasGlob s.nodes)) &&
  (w.all fun s => s.nodes.all fun nd =>
    (w.all fun t => t.nodes.all fun x => x.glob != nd.glob || x.part == nd.part) ||
    !(w.any fun u => u.cells.any fun c => c.nodes.contains nd.glob))

end Refine.Model.Shufflin
