import Refine.Model.Dist

/-!
  L3 Dist / id histories: what happens to the per-rank vertex-id bookkeeping (`ref_node`) BETWEEN two calls of
  `ref_node_synchronize_globals`, as a labelled transition system on a `World NodeIds`.

  * `LocalOp` / `stepRank` : the four things the adaptation passes do to one rank's `ref_node`
    (accepted split vertex, collapse of a local vertex, dropping a ghost copy, rejected trial vertex), written
    with the LITERAL model functions `NodeIds.nextGlobal / add / remove / removeWithoutGlobal`
    (`src/ref_node.c` lines 286-570) in the order the C calls them, stopping at the first non-`REF_SUCCESS`
    status like `RSS` does.
  * `Event` / `stepWorld` / `run` : ranks act independently between two synchronisations, so an interleaving is a
    list of `(rank, op)` events; `sync` is `Refine.Model.Dist.syncGlobals`.
  * `enabled` / `enabledAll` : the side conditions under which refine performs an op.  They are the C04
    ownership guards and are HYPOTHESES of `Refine.Props.C06Ids.IdInv_step` / `reachable_IdInv`, not theorems.

  Core-only (can be linked into `refdrv`).  Theorems: `Refine/Lemmas/DistIds.lean`, `Refine/Props/C06Ids.lean`.
-/
namespace Refine.Model.DistIds
open Refine.Model.NodeIds
open Refine.Model.Dist (syncGlobals)
open Refine.Model.Comm (World)

/-- what an adaptation pass does to the `ref_node` of one rank between two synchronisations:
    * `addFresh` : `ref_node_next_global(ref_node,&g)` followed by `ref_node_add(ref_node,g,&node)` (accepted split
      vertex);
    * `remove node` : `ref_node_remove(ref_node,node)` (collapse: the slot is freed, its id pushed on the unused
      list);
    * `removeWithoutGlobal node` : `ref_node_remove_without_global(ref_node,node)` (a ghost copy is dropped; the id
      stays alive on its owner);
    * `trial` : `next_global; add; remove` of that same vertex (rejected trial vertex). -/
inductive LocalOp
  | addFresh
  | remove (node : Int)
  | removeWithoutGlobal (node : Int)
  | trial
  deriving DecidableEq, Repr

/-- one op on one rank, the literal call sequence; a call that does not return `REF_SUCCESS` ends the sequence
    (`RSS`) and leaves the state as the model function leaves it -/
def stepRank (s : NodeIds) : LocalOp → NodeIds
  | .addFresh =>
    let r1 := s.nextGlobal
    if r1.1 ≠ .ok then r1.2.2 else (r1.2.2.add r1.2.1).2.2
  | .remove node => (s.remove node).2
  | .removeWithoutGlobal node => (s.removeWithoutGlobal node).2
  | .trial =>
    let r1 := s.nextGlobal
    if r1.1 ≠ .ok then r1.2.2 else
    let r2 := r1.2.2.add r1.2.1
    if r2.1 ≠ .ok then r2.2.2 else (r2.2.2.remove (r2.2.1 : Int)).2

/-- an event of a history: a local op on one rank, or the collective `ref_node_synchronize_globals` -/
inductive Event
  | op (rank : Nat) (o : LocalOp)
  | sync
  deriving DecidableEq, Repr

/-- `op r o` touches rank `r` only (an out-of-range rank: nothing happens); `sync` is the collective -/
def stepWorld (w : World NodeIds) : Event → World NodeIds
  | .op r o =>
    match w[r]? with
    | some s => w.set r (stepRank s o)
    | none => w
  | .sync => syncGlobals w

def run (h : List Event) (w : World NodeIds) : World NodeIds := h.foldl stepWorld w

/-- global id `g` is in `sorted_global` (is a live vertex) of some rank other than `r` -/
def liveElsewhere (w : World NodeIds) (r : Nat) (g : Int) : Bool :=
  (List.range w.length).any fun q =>
    decide (q ≠ r) && (match w[q]? with
      | some t => t.keys.contains g
      | none => false)

/-- The side conditions under which refine performs an op (C04 ownership guards; HYPOTHESES of the C06 id
    theorems, not proved of the adaptation passes here):
    * the rank index is in range;
    * `remove node` on rank `r`: the slot is valid, and if its global id `g` is a shared id (`g < old_n_global`)
      then `g` is not live on any OTHER rank — the vertex and all its cells are local, nobody else stores it.
      (An id `g ≥ old_n_global` was handed out by `ref_node_next_global` on this rank since the last
      synchronisation; no other rank knows that vertex, even if another rank uses the same number for a fresh
      vertex of its own.)
    * `removeWithoutGlobal node` on rank `r`: the slot is valid, its id is a shared id (`g < old_n_global`) and is
      live on some other rank — it is a ghost copy.  (Without `g < old_n_global` the invariant is NOT preserved:
      see `Refine.Props.C06Ids`, counterexample `removeWithoutGlobal_fresh_breaks`.)
    * `addFresh`, `trial`, `sync`: always enabled. -/
def enabled (w : World NodeIds) : Event → Bool
  | .sync => true
  | .op r o =>
    match w[r]? with
    | none => false
    | some s =>
      match o with
      | .addFresh => true
      | .trial => true
      | .remove node =>
        s.validSlot node &&
          (decide (s.oldN ≤ s.globalOf node) || !liveElsewhere w r (s.globalOf node))
      | .removeWithoutGlobal node =>
        s.validSlot node && decide (s.globalOf node < s.oldN) && liveElsewhere w r (s.globalOf node)

/-- every event of the history is enabled in the state it is executed in -/
def enabledAll : List Event → World NodeIds → Bool
  | [], _ => true
  | e :: es, w => enabled w e && enabledAll es (stepWorld w e)

end Refine.Model.DistIds
