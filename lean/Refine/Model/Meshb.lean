import Refine.Gen.CellTables
import Refine.Gen.MeshbKeywords
import Refine.Gen.PyrPerm
import Refine.Gen.CodecConsts

/-!
  L7 Codec, part 1: the binary libMeshb mesh file (`.meshb`) as written by
  `ref_export_meshb` (ref_export.c) and read by `ref_import_meshb_header`,
  `ref_import_meshb_jump`, `ref_import_meshb` (ref_import.c).

  * bytes are `List UInt8`; doubles travel as `UInt64` bit patterns;
  * the reader model mirrors the C reader's *validation logic*: which `fread`s are
    checked (`REIS(1, fread…)` → `failure`), which counts and indices are trusted
    (cell vertex indices are only checked for `< 0`, by `ref_adj_add`), the header scan
    that follows `next_position` (with explicit fuel: exhaustion = the C loop does not
    return, reported as `Status.diverge`), the `REIS(next_position, ftell)` checks;
  * `Cfg` selects the faithful reader (`decodeMeshb`) or the variant with the two
    maintainer-style checks added (`decodeMeshbFixed`), see `Props/C20.lean`.

  Core-only imports: this file is linked into `refdrv`.
-/
namespace Refine.Model.Meshb
open Refine.Gen

/-- `REF_STATUS` without `REF_SUCCESS`, plus `diverge` (not a C status: the modelled C loop
    does not terminate; the model ran out of fuel that provably suffices otherwise). -/
inductive Status
  | failure | null | invalid | div_zero | not_found | implement | increase_limit | ill_conditioned
  | diverge
  /-- not a C status either: the C has undefined behaviour at this point (signed overflow) -/
  | undefined
  deriving DecidableEq, Repr, Inhabited

def Status.name : Status → String
  | .failure => "failure" | .null => "null" | .invalid => "invalid" | .div_zero => "div_zero"
  | .not_found => "not_found" | .implement => "implement" | .increase_limit => "increase_limit"
  | .ill_conditioned => "ill_conditioned" | .diverge => "hang" | .undefined => "ub"

abbrev Bytes := List UInt8

deriving instance DecidableEq for Except

/-! ## little-endian words -/

/-- `k` little-endian bytes of `n` (low `8k` bits) -/
def encLE : Nat → Nat → Bytes
  | 0, _ => []
  | k + 1, n => UInt8.ofNat (n % 256) :: encLE k (n / 256)

def decLE : Bytes → Nat
  | [] => 0
  | b :: bs => b.toNat + 256 * decLE bs

/-- two's complement: unsigned `bits`-bit pattern → signed value -/
def toSigned (bits : Nat) (n : Nat) : Int :=
  if n < 2 ^ (bits - 1) then (n : Int) else (n : Int) - (2 ^ bits : Nat)

/-- two's complement: signed value → unsigned `bits`-bit pattern (C conversion to a narrower/wider int) -/
def ofSigned (bits : Nat) (x : Int) : Nat := (x % ((2 ^ bits : Nat) : Int)).toNat

/-- C `(REF_INT)x` for an integer `x` of any width (wrap to 32 bits) -/
def wrap32 (x : Int) : Int := toSigned 32 (ofSigned 32 x)

def le32 (n : Nat) : Bytes := encLE 4 n
def le64 (n : Nat) : Bytes := encLE 8 n

/-! ## version-dependent field widths (ref_export_meshb / ref_import_meshb) -/

/-- `int_size`: 8 for version 4, else 4 -/
def intSize (v : Nat) : Nat := if 3 < v then 8 else 4
/-- `fp_size` (file position width): 8 for versions 3 and 4, else 4 -/
def fpSize (v : Nat) : Nat := if 2 < v then 8 else 4
/-- `header_size = 4 + fp_size + int_size`: keyword, next position, count -/
def headerSize (v : Nat) : Nat := 4 + fpSize v + intSize v

/-- `ref_export_meshb_int`: `REF_INT` written as `int` (v<4) or sign-extended `long` (v4) -/
def encInt (v : Nat) (x : Int) : Bytes :=
  if v < 4 then encLE 4 (ofSigned 32 x) else encLE 8 (ofSigned 64 x)

/-- `ref_export_meshb_next_position` (the `REF_INVALID` branch for positions outside int32 in
    versions 1,2 is not modelled: `WellFormed` bounds the file size instead) -/
def encPos (v : Nat) (p : Int) : Bytes :=
  if 3 ≤ v then encLE 8 (ofSigned 64 p) else encLE 4 (ofSigned 32 p)

def encF64 (u : UInt64) : Bytes := encLE 8 u.toNat

/-! ## the mesh as the file sees it -/

structure Vertex where
  x : UInt64
  y : UInt64
  z : UInt64
  deriving DecidableEq, Repr, Inhabited

/-- one geometry association (`ref_geom` record): `type` 0 node, 1 edge, 2 face -/
structure GeomRec where
  type : Nat
  id : Int
  gref : Int
  node : Int
  p0 : UInt64
  p1 : UInt64
  deriving DecidableEq, Repr, Inhabited

/-- The content of a REF_GRID that a `.meshb` file stores.
    `cells` has one entry per cell group in `REF_CELL_TYPE` order (16 groups); a cell is its
    `size_per` integers: `node_per` 0-based vertex indices, followed by the id for the groups
    with `last_node_is_an_id` (edges, triangles, quads); volume cells carry no id.
    `geoms` is in `ref_geom` index order. -/
structure MeshFile where
  twod : Bool
  nodes : List Vertex
  cells : List (List (List Int))
  geoms : List GeomRec
  cad : Bytes
  deriving DecidableEq, Repr, Inhabited

/-- per cell group: name, meshb keyword, node_per, last_node_is_an_id, is it REF_CELL_PYR -/
structure CellInfo where
  name : String
  kw : Nat
  nodePer : Nat
  lastId : Bool
  isPyr : Bool
  deriving DecidableEq, Repr, Inhabited

def CellInfo.sizePer (c : CellInfo) : Nat := c.nodePer + (if c.lastId then 1 else 0)

/-- the 16 cell groups in `each_ref_grid_all_ref_cell` order, from the generated tables -/
def cellInfos : List CellInfo :=
  (CellTables.all.zip MeshbKeywords.keywords).map fun (c, k) =>
    { name := c.name, kw := k.2, nodePer := c.nodePer, lastId := c.lastNodeIsId, isPyr := c.name == "pyr" }

/-- `out[i] = in[p[i]]` -/
def permute (p : List Nat) (xs : List Int) : List Int := p.map fun i => xs.getD i 0

/-! ## writer: `ref_export_meshb` -/

/-- A keyword section as the writer produces it: keyword code, the section length that the C
    computes *by formula* for `next_position` (measured from the keyword), the bytes after the
    `next_position` field. -/
structure Sec where
  kw : Nat
  declLen : Nat
  body : Bytes
  deriving DecidableEq, Repr

def Sec.bytes (v : Nat) (pos : Nat) (s : Sec) : Bytes :=
  le32 s.kw ++ encPos v ((pos + s.declLen : Nat) : Int) ++ s.body

def dim (m : MeshFile) : Nat := if m.twod then 2 else 3

def secDim (v : Nat) (m : MeshFile) : Sec :=
  { kw := 3, declLen := 4 + fpSize v + 4, body := le32 (dim m) }

def encVertex (v : Nat) (twod : Bool) (p : Vertex) : Bytes :=
  encF64 p.x ++ encF64 p.y ++ (if twod then [] else encF64 p.z) ++ encInt v CodecConsts.vertexId

def secVerts (v : Nat) (m : MeshFile) : Sec :=
  { kw := 4, declLen := headerSize v + m.nodes.length * (dim m * 8 + intSize v),
    body := encInt v m.nodes.length ++ m.nodes.flatMap (encVertex v m.twod) }

/-- one cell record: `node_per + 1` integers, vertices 1-based, pyramids shuffled, volume id constant -/
def encCell (v : Nat) (ci : CellInfo) (cell : List Int) : Bytes :=
  let nodes := (cell.take ci.nodePer).map (· + 1)
  let nodes := if ci.isPyr then permute PyrPerm.exportMeshb nodes else nodes
  let id := if ci.lastId then cell.getD ci.nodePer 0 else CodecConsts.volumeId
  (nodes ++ [id]).flatMap (encInt v)

def secCells (v : Nat) (ci : CellInfo) (cells : List (List Int)) : Sec :=
  { kw := ci.kw, declLen := headerSize v + cells.length * (intSize v * (ci.nodePer + 1)),
    body := encInt v cells.length ++ cells.flatMap (encCell v ci) }

/-- C `(double)i` for a 32-bit `i`: exact, as an IEEE-754 binary64 bit pattern -/
def i2d (x : Int) : UInt64 :=
  if x = 0 then 0 else
    let s : Nat := if x < 0 then 1 else 0
    let m := x.natAbs
    let e := m.log2
    UInt64.ofNat (s * 2 ^ 63 + (e + 1023) * 2 ^ 52 + (m * 2 ^ (52 - e) - 2 ^ 52))

/-- C `(REF_INT)d` as compiled for x86-64 (`cvttsd2si`): truncation toward zero, and the
    "integer indefinite" value `INT_MIN` for NaN, infinities and magnitudes ≥ 2^31 -/
def d2i (b : UInt64) : Int :=
  let n := b.toNat
  let s := n / 2 ^ 63
  let e := (n / 2 ^ 52) % 2048
  let mant := n % 2 ^ 52
  if e < 1023 then 0
  else if 1023 + 31 ≤ e then -(2 ^ 31 : Int)
  else
    let mag : Nat := (2 ^ 52 + mant) / 2 ^ (52 - (e - 1023))
    if s = 1 then -(mag : Int) else (mag : Int)

def encGeom (v : Nat) (t : Nat) (g : GeomRec) : Bytes :=
  encInt v (g.node + 1) ++ encInt v g.id ++
  (if 0 < t then encF64 g.p0 else []) ++ (if 1 < t then encF64 g.p1 else []) ++
  (if 0 < t then encF64 (i2d g.gref) else [])

def geomsOf (t : Nat) (gs : List GeomRec) : List GeomRec := gs.filter (·.type == t)

def secGeom (v : Nat) (t : Nat) (gs : List GeomRec) : Sec :=
  { kw := 40 + t, declLen := headerSize v + gs.length * (intSize v * 2 + 8 * t + (if 0 < t then 8 else 0)),
    body := encInt v gs.length ++ gs.flatMap (encGeom v t) }

def secCad (v : Nat) (cad : Bytes) : Sec :=
  { kw := 126, declLen := headerSize v + cad.length, body := encInt v cad.length ++ cad }

/-- every section the writer knows, in writing order, with "is it written" (count positive) -/
def master (v : Nat) (m : MeshFile) : List (Bool × Sec) :=
  [(true, secDim v m), (!m.nodes.isEmpty, secVerts v m)] ++
  (cellInfos.zip m.cells).map (fun p => (!p.2.isEmpty, secCells v p.1 p.2)) ++
  [0, 1, 2].map (fun t => (!(geomsOf t m.geoms).isEmpty, secGeom v t (geomsOf t m.geoms))) ++
  [(!m.cad.isEmpty, secCad v m.cad)]

/-- the sections actually written -/
def sections (v : Nat) (m : MeshFile) : List Sec := ((master v m).filter (·.1)).map (·.2)

/-- sections laid out from file offset `pos`; then `End` (keyword 54, next position 0) -/
def layout (v : Nat) : Nat → List Sec → Bytes
  | _, [] => le32 54 ++ encPos v 0
  | pos, s :: ss => s.bytes v pos ++ layout v (pos + (s.bytes v pos).length) ss

/-- `ref_export_meshb` for `ref_grid_meshb_version = v` (2, 3 or 4) -/
def encodeMeshb (v : Nat) (m : MeshFile) : Bytes :=
  le32 1 ++ le32 v ++ layout v 8 (sections v m)

/-! ## reader -/

/-- which reader: the faithful one (all `false`) or with maintainer-style checks added -/
structure Cfg where
  /-- header scan accepts a hop only if `next_position > position` or `next_position = 0` -/
  checkProgress : Bool := false
  /-- cell records / geometry records are rejected unless `0 ≤ vertex index < nnode` -/
  checkIndex : Bool := false
  /-- solb readers: the declared vertex count must be a non-negative `int` and `count × ldim × 8`
      bytes must be left in the file *before* anything is sized by it -/
  checkCount : Bool := false
  /-- scalar solb reader: for a `SolAtVertices` section that declares no field (`ldim = 0`) the per-vertex loop
      is skipped (54a1e7c) -/
  checkFields : Bool := false
  /-- `malloc` of more than this many bytes returns NULL (the harness runs with this cap) -/
  allocCap : Nat := 2 ^ 30
  deriving DecidableEq, Repr

def Cfg.faithful : Cfg := {}
def Cfg.fixed : Cfg := { checkProgress := true, checkIndex := true, checkCount := true, checkFields := true }

abbrev P (α : Type) := Bytes → Except Status (α × Bytes)

/-- `fread` of `n` bytes that is checked by the caller: short read → `REF_FAILURE` -/
def takeN : Nat → P Bytes
  | 0, s => .ok ([], s)
  | _ + 1, [] => .error .failure
  | n + 1, b :: s =>
    match takeN n s with
    | .ok (a, r) => .ok (b :: a, r)
    | .error e => .error e

def rdU (k : Nat) : P Nat := fun s =>
  match takeN k s with
  | .ok (a, r) => .ok (decLE a, r)
  | .error e => .error e

def rdI32 : P Int := fun s =>
  match rdU 4 s with
  | .ok (n, r) => .ok (toSigned 32 n, r)
  | .error e => .error e

/-- `ref_import_meshb_int`: `int`, or `long` truncated to `REF_INT` -/
def rdInt (v : Nat) : P Int := fun s =>
  if v < 4 then rdI32 s else
  match rdU 8 s with
  | .ok (n, r) => .ok (toSigned 32 (n % 2 ^ 32), r)
  | .error e => .error e

/-- `meshb_pos`: `long` for versions ≥ 3, else `int` -/
def rdPos (v : Nat) : P Int := fun s =>
  if 3 ≤ v then
    match rdU 8 s with
    | .ok (n, r) => .ok (toSigned 64 n, r)
    | .error e => .error e
  else rdI32 s

/-- `ref_import_meshb_size`: unsigned -/
def rdSize (v : Nat) : P Nat := fun s => if v < 4 then rdU 4 s else rdU 8 s

def rdF64 : P UInt64 := fun s =>
  match rdU 8 s with
  | .ok (n, r) => .ok (UInt64.ofNat n, r)
  | .error e => .error e

/-- C `(double)f` on the bit pattern of a binary32 -/
def f32to64 (n : Nat) : UInt64 := (Float32.ofBits (UInt32.ofNat n)).toFloat.toBits

/-- `meshb_real`: `float` in version 1, else `double` -/
def rdReal (v : Nat) : P UInt64 := fun s =>
  if v = 1 then
    match rdU 4 s with
    | .ok (n, r) => .ok (f32to64 n, r)
    | .error e => .error e
  else rdF64 s

/-- keyword → file position, most recent first (`key_pos[]`, later hops overwrite) -/
abbrev KeyPos := List (Nat × Nat)

def KeyPos.get (kp : KeyPos) (k : Nat) : Option Nat :=
  match kp.find? (fun p => p.1 == k) with
  | some p => some p.2
  | none => none

/-- The `while (next_position <= end_position && 0 != next_position)` loop of
    `ref_import_meshb_header`.  `fuel` hops; `diverge` when exhausted. -/
def headerScan (cfg : Cfg) (v : Nat) (bs : Bytes) : Nat → Int → KeyPos → Except Status KeyPos
  | 0, next, kp => if next ≤ (bs.length : Int) ∧ next ≠ 0 then .error .diverge else .ok kp
  | fuel + 1, next, kp =>
    if next ≤ (bs.length : Int) ∧ next ≠ 0 then
      if next < 0 then .error .failure  -- fseeko(negative) fails
      else
        let pos := next.toNat
        match rdI32 (bs.drop pos) with
        | .error e => .error e
        | .ok (kw, r) =>
          let kp' := if 0 ≤ kw ∧ kw < (CodecConsts.lastKeyword : Int) then (kw.toNat, pos) :: kp else kp
          match rdPos v r with
          | .error e => .error e
          | .ok (next', _) =>
            if cfg.checkProgress ∧ ¬(next' = 0 ∨ next' > (pos : Int)) then .error .failure
            else headerScan cfg v bs fuel next' kp'
    else .ok kp

/-- `ref_import_meshb_header`: code, version, key positions.  Every successful hop reads ≥ 8 bytes
    inside the file, so more than `length + 1` hops means a position was visited twice. -/
def header (cfg : Cfg) (bs : Bytes) : Except Status (Nat × KeyPos) :=
  match rdI32 bs with
  | .error e => .error e
  | .ok (code, r) =>
    if code ≠ 1 then .error .failure else
    match rdI32 r with
    | .error e => .error e
    | .ok (ver, _) =>
      if ver < 1 ∨ 4 < ver then .error .failure else
      match headerScan cfg ver.toNat bs (bs.length + 1) 8 [] with
      | .error e => .error e
      | .ok kp => .ok (ver.toNat, kp)

/-- `ref_import_meshb_jump`: `none` = keyword not available; else `next_position` and the stream
    positioned after the `next_position` field -/
def jump (v : Nat) (bs : Bytes) (kp : KeyPos) (kw : Nat) : Except Status (Option (Int × Bytes)) :=
  match kp.get kw with
  | none => .ok none
  | some pos =>
    match rdI32 (bs.drop pos) with
    | .error e => .error e
    | .ok (code, r) =>
      if code ≠ (kw : Int) then .error .failure else
      match rdPos v r with
      | .error e => .error e
      | .ok (next, r) => .ok (some (next, r))

/-- `ftell` when the unread rest of the file is `r` -/
def tell (bs r : Bytes) : Int := (bs.length : Int) - (r.length : Int)

/-- vertex records: `dim` reals and one integer (the reference, discarded) -/
def rdVerts (v : Nat) (twod : Bool) : Nat → P (List Vertex)
  | 0, s => .ok ([], s)
  | n + 1, s =>
    match rdReal v s with
    | .error e => .error e
    | .ok (x, s) =>
    match rdReal v s with
    | .error e => .error e
    | .ok (y, s) =>
    match (if twod then (.ok (0, s) : Except Status (UInt64 × Bytes)) else rdReal v s) with
    | .error e => .error e
    | .ok (z, s) =>
    match rdInt v s with
    | .error e => .error e
    | .ok (_, s) =>
    match rdVerts v twod n s with
    | .error e => .error e
    | .ok (vs, s) => .ok (⟨x, y, z⟩ :: vs, s)

def rdInts (v : Nat) : Nat → P (List Int)
  | 0, s => .ok ([], s)
  | n + 1, s =>
    match rdInt v s with
    | .error e => .error e
    | .ok (x, s) =>
    match rdInts v n s with
    | .error e => .error e
    | .ok (xs, s) => .ok (x :: xs, s)

/-- `ref_adj_add(ref_adj, node, …)` as far as a reader can observe it: a negative vertex is
    `REF_INVALID`; a vertex beyond the table makes it grow to `node + 100` entries — computed as
    `100 + MAX(0, node - orig)` in `int` (overflow = undefined behaviour for vertices within 100 of
    `INT_MAX`), `realloc`ed (NULL above the allocator cap → `REF_NULL`).  Nothing compares the
    vertex with the number of vertices. -/
def adjAdd (cfg : Cfg) (node : Int) : Except Status Unit :=
  if node < 0 then .error .invalid
  else if node > 2 ^ 31 - 1 - 100 then .error .undefined
  else if cfg.allocCap < 4 * (node.toNat + 100) then .error .null
  else .ok ()

def adjAddAll (cfg : Cfg) : List Int → Except Status Unit
  | [] => .ok ()
  | x :: xs =>
    match adjAdd cfg x with
    | .error e => .error e
    | .ok _ => adjAddAll cfg xs

/-- the vertices of one cell record in memory convention: 0-based, pyramids shuffled -/
def recordNodes (ci : CellInfo) (raw : List Int) : List Int :=
  let nodes := (raw.take ci.nodePer).map fun x => x - 1
  if ci.isPyr then permute PyrPerm.importMeshb nodes else nodes

/-- one cell record → the `size_per` integers stored by `ref_cell_add`, or its error
    (`ref_adj_add` of the vertices in order). -/
def cellOfRecord (cfg : Cfg) (ci : CellInfo) (nnode : Int) (raw : List Int) : Except Status (List Int) :=
  -- `nodes[node]--` on `INT_MIN` is a signed overflow (the index check, when present, is made on the
  -- 1-based value before the decrement, so it never gets there)
  if ¬ cfg.checkIndex ∧ (raw.take ci.nodePer).any (fun x => decide (x = -(2 ^ 31 : Int))) then .error .undefined else
  if cfg.checkIndex ∧ (recordNodes ci raw).any (fun x => decide (x < 0 ∨ nnode ≤ x)) then .error .invalid
  else
    match adjAddAll cfg (recordNodes ci raw) with
    | .error e => .error e
    | .ok _ => .ok (recordNodes ci raw ++ (if ci.lastId then raw.drop ci.nodePer else []))

def rdCells (cfg : Cfg) (v : Nat) (ci : CellInfo) (nnode : Int) : Nat → P (List (List Int))
  | 0, s => .ok ([], s)
  | n + 1, s =>
    match rdInts v (ci.nodePer + 1) s with
    | .error e => .error e
    | .ok (raw, s) =>
    match cellOfRecord cfg ci nnode raw with
    | .error e => .error e
    | .ok c =>
    match rdCells cfg v ci nnode n s with
    | .error e => .error e
    | .ok (cs, s) => .ok (c :: cs, s)

/-- `ref_geom_add`: an existing (node,type,id) record only gets its parameters updated -/
def geomAdd (cfg : Cfg) (gs : List GeomRec) (node : Int) (t : Nat) (id : Int) (p0 p1 : UInt64) :
    Except Status (List GeomRec) :=
  if gs.any (fun g => g.node == node && g.type == t && g.id == id) then
    .ok (gs.map fun g => if g.node == node && g.type == t && g.id == id then
      { g with p0 := if 0 < t then p0 else g.p0, p1 := if 1 < t then p1 else g.p1 } else g)
  else
    match adjAdd cfg node with
    | .error e => .error e
    | .ok _ => .ok (gs ++ [{ type := t, id := id, gref := id, node := node,
                             p0 := (if 0 < t then p0 else 0), p1 := (if 1 < t then p1 else 0) }])

def geomSetGref (gs : List GeomRec) (node : Int) (t : Nat) (id : Int) (gref : Int) : List GeomRec :=
  gs.map fun g => if g.node == node && g.type == t && g.id == id then { g with gref := gref } else g

def rdGeoms (cfg : Cfg) (v : Nat) (t : Nat) (nnode : Int) : Nat → List GeomRec → P (List GeomRec)
  | 0, gs, s => .ok (gs, s)
  | n + 1, gs, s =>
    match rdInt v s with
    | .error e => .error e
    | .ok (node, s) =>
    match rdInt v s with
    | .error e => .error e
    | .ok (id, s) =>
    match (if 0 < t then rdF64 s else .ok (0, s)) with
    | .error e => .error e
    | .ok (p0, s) =>
    match (if 1 < t then rdF64 s else .ok (0, s)) with
    | .error e => .error e
    | .ok (p1, s) =>
    if ¬ cfg.checkIndex ∧ node = -(2 ^ 31 : Int) then .error .undefined else   -- `node--` overflows
    let node := node - 1
    if cfg.checkIndex ∧ (node < 0 ∨ nnode ≤ node) then .error .invalid else
    match geomAdd cfg gs node t id p0 p1 with
    | .error e => .error e
    | .ok gs =>
    match (if 0 < t then rdF64 s else .ok (0, s)) with
    | .error e => .error e
    | .ok (gref, s) =>
    let gs := if 0 < t then geomSetGref gs node t id (d2i gref) else gs
    rdGeoms cfg v t nnode n gs s

/-- a keyword section with a count: jump, read the count, run `body`, check `REIS(next_position, ftell)` -/
def kwSection {α : Type} (v : Nat) (bs : Bytes) (kp : KeyPos) (kw : Nat) (dflt : α)
    (body : Int → P α) : Except Status α :=
  match jump v bs kp kw with
  | .error e => .error e
  | .ok none => .ok dflt
  | .ok (some (next, s)) =>
    match rdInt v s with
    | .error e => .error e
    | .ok (n, s) =>
    match body n s with
    | .error e => .error e
    | .ok (a, s) => if next = tell bs s then .ok a else .error .failure

def rdCellGroups (cfg : Cfg) (v : Nat) (bs : Bytes) (kp : KeyPos) (nnode : Int) :
    List CellInfo → Except Status (List (List (List Int)))
  | [] => .ok []
  | ci :: cis =>
    match kwSection v bs kp ci.kw [] (fun n => rdCells cfg v ci nnode n.toNat) with
    | .error e => .error e
    | .ok g =>
    match rdCellGroups cfg v bs kp nnode cis with
    | .error e => .error e
    | .ok gs => .ok (g :: gs)

def rdGeomTypes (cfg : Cfg) (v : Nat) (bs : Bytes) (kp : KeyPos) (nnode : Int) :
    List Nat → List GeomRec → Except Status (List GeomRec)
  | [], gs => .ok gs
  | t :: ts, gs =>
    match kwSection v bs kp (40 + t) gs (fun n => rdGeoms cfg v t nnode n.toNat gs) with
    | .error e => .error e
    | .ok gs => rdGeomTypes cfg v bs kp nnode ts gs

/-- the CAD byte blob (`GmfByteFlow`, keyword 126): the size is unsigned and sizes a `malloc` -/
def rdCad (cfg : Cfg) (v : Nat) (bs : Bytes) (kp : KeyPos) : Except Status Bytes :=
  match jump v bs kp 126 with
  | .error e => .error e
  | .ok none => .ok []
  | .ok (some (next, s)) =>
    match rdSize v s with
    | .error e => .error e
    | .ok (size, s) =>
    if cfg.allocCap < size then .error .null else
    match takeN size s with
    | .error e => .error e
    | .ok (data, s) => if next = tell bs s then .ok data else .error .failure

/-- `ref_import_meshb` -/
def decodeMeshbWith (cfg : Cfg) (bs : Bytes) : Except Status MeshFile :=
  match header cfg bs with
  | .error e => .error e
  | .ok (v, kp) =>
  match jump v bs kp 3 with
  | .error e => .error e
  | .ok none => .error .failure            -- "meshb missing dimension"
  | .ok (some (_, s)) =>
  match rdI32 s with
  | .error e => .error e
  | .ok (dim, _) =>
  if dim < 2 ∨ 3 < dim then .error .failure else
  let twod := decide (dim = 2)
  match jump v bs kp 4 with
  | .error e => .error e
  | .ok none => .error .failure            -- "meshb missing vertex"
  | .ok (some (next, s)) =>
  match rdInt v s with
  | .error e => .error e
  | .ok (nnode, s) =>
  match rdVerts v twod nnode.toNat s with
  | .error e => .error e
  | .ok (nodes, s) =>
  if next ≠ tell bs s then .error .failure else
  match rdCellGroups cfg v bs kp nnode cellInfos with
  | .error e => .error e
  | .ok cells =>
  match rdGeomTypes cfg v bs kp nnode [0, 1, 2] [] with
  | .error e => .error e
  | .ok geoms =>
  match rdCad cfg v bs kp with
  | .error e => .error e
  | .ok cad => .ok { twod := twod, nodes := nodes, cells := cells, geoms := geoms, cad := cad }

/-- the reader as it is in /repo today -/
def decodeMeshb (bs : Bytes) : Except Status MeshFile := decodeMeshbWith Cfg.faithful bs

/-- the reader with `next_position > position` required per hop and `0 ≤ index < nnode` per record -/
def decodeMeshbFixed (bs : Bytes) : Except Status MeshFile := decodeMeshbWith Cfg.fixed bs

/-- **model selection**: the reader the correspondence streams compare the C against.
    Flip to `Cfg.fixed` once /repo has the two checks (see Props/C20.lean). -/
def Cfg.current : Cfg := Cfg.fixed

/-! ## predicates used by C08 / C20 -/

def int32 (x : Int) : Prop := -(2 ^ 31 : Int) ≤ x ∧ x < 2 ^ 31
instance (x : Int) : Decidable (int32 x) := by unfold int32; infer_instance

/-- all vertex indices of all cells and geometry records are in `[0, nnode)` -/
def indicesInRange (m : MeshFile) : Bool :=
  let n : Int := m.nodes.length
  ((cellInfos.zip m.cells).all fun p => p.2.all fun c => (c.take p.1.nodePer).all fun x => decide (0 ≤ x ∧ x < n)) &&
  m.geoms.all fun g => decide (0 ≤ g.node ∧ g.node < n)

/-- the positions visited by the header scan (for `header_progress`) -/
def headerHops (cfg : Cfg) (v : Nat) (bs : Bytes) : Nat → Int → List Int
  | 0, _ => []
  | fuel + 1, next =>
    if next ≤ (bs.length : Int) ∧ next ≠ 0 then
      if next < 0 then [next] else
        match rdI32 (bs.drop next.toNat) with
        | .error _ => [next]
        | .ok (_, r) =>
          match rdPos v r with
          | .error _ => [next]
          | .ok (next', _) =>
            if cfg.checkProgress ∧ ¬(next' = 0 ∨ next' > next) then [next]
            else next :: headerHops cfg v bs fuel next'
    else []

/-- bytes of a lower-case hex string (used to write the witness files of C20 readably) -/
def ofHex (s : String) : Bytes :=
  let nib (c : Char) : Nat := if c.toNat ≥ 97 then c.toNat - 87 else c.toNat - 48
  let rec go : List Char → Bytes
    | a :: b :: r => UInt8.ofNat (16 * nib a + nib b) :: go r
    | _ => []
  go s.toList

end Refine.Model.Meshb
