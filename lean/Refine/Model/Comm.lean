import Refine.Scalar

/-!
  L2 Comm (DESIGN.md section 5): the communication primitives of `ref_mpi.c` and
  `ref_search_selection` as pure SPMD functions.

  `World α := List α`, indexed by rank; a collective is a function from the world of per-rank
  arguments to the world of per-rank results.  The buffer / offset arithmetic of the C is copied:
  `size_n` and `disp` arrays of `ref_mpi_alltoallv` with the `ref_math_int_*` guards, the tag scheme
  of `ref_mpi_alltoallv_native`, the `a_size` count / `a_next` prefix sums / bucket pack of
  `ref_mpi_blindsend`, `find_destination` and the share arithmetic of `ref_mpi_balance`, the
  `displs` of `ref_mpi_allgatherv`, the 40-step bisection of `ref_search_selection`.

  What MPI itself does is *specified*, not verified (DESIGN.md section 4): `mpiAlltoallv`,
  `mpiAlltoall`, `mpiAllgatherv`, `mpiReduce`, `mpiBcast`, `mpiMinloc` and the tagged point-to-point
  matcher `p2pExchange` are the trusted semantics of the MPI calls the C makes.

  Result conventions: a world-level function returns `Option (World (Status × …))`;
  `none` means "not every rank completes" (a rank blocks in a collective the others never entered,
  an unmatched receive / send, or an MPI truncation error) -- there is no `REF_STATUS` for that.

  Core-only: this file must not import Mathlib (it is linked into `refdrv`).
-/
namespace Refine.Model.Comm

abbrev World (α : Type) := List α

/-- `REF_STATUS` -/
inductive Status
  | ok | failure | null | invalid | div_zero | not_found | implement | increase_limit | ill_conditioned
  deriving DecidableEq, Repr, Inhabited

def Status.name : Status → String
  | .ok => "ok" | .failure => "failure" | .null => "null" | .invalid => "invalid"
  | .div_zero => "div_zero" | .not_found => "not_found" | .implement => "implement"
  | .increase_limit => "increase_limit" | .ill_conditioned => "ill_conditioned"

/-- `REF_TYPE` (0 and everything above 4 behave as `unknown`) -/
inductive RefType
  | unknown | int | long | dbl | byte
  deriving DecidableEq, Repr, Inhabited

/-- `ref_type_mpi_type`: `REF_IMPLEMENT` for anything but the four known types -/
def RefType.mpiOk : RefType → Bool
  | .unknown => false | _ => true

/-- the `switch (type)` of the copy loops: `REF_INT_TYPE`, `REF_LONG_TYPE`, `REF_DBL_TYPE` -/
def RefType.ild : RefType → Bool
  | .int => true | .long => true | .dbl => true | _ => false

/-- the `switch (type)` of `ref_mpi_min/max` (serial path) and `ref_mpi_allconcat`: int and dbl only -/
def RefType.id : RefType → Bool
  | .int => true | .dbl => true | _ => false

def INT_MAX : Int := 2147483647
def INT_MIN : Int := -2147483648

/-- `ref_math_int_addable` (evaluated in `long`, here in `Int`) -/
def intAddable (a b : Int) : Bool := decide (a + b ≤ INT_MAX) && decide (INT_MIN ≤ a + b)
/-- `ref_math_int_multipliable` -/
def intMultipliable (a b : Int) : Bool := decide (a * b ≤ INT_MAX) && decide (INT_MIN ≤ a * b)

/-! ### buffers -/

/-- store `blk` into `buf` starting at element offset `off` -/
def writeAt {α : Type} (buf : List α) (off : Nat) (blk : List α) : List α :=
  buf.take off ++ blk ++ buf.drop (off + blk.length)

/-- `cnt` elements of `buf` starting at `off` -/
def slice {α : Type} (buf : List α) (off cnt : Nat) : List α := (buf.drop off).take cnt

/-- `disp[0] = acc; disp[p] = disp[p-1] + size[p-1]` (as many entries as sizes) -/
def displsFrom (acc : Int) : List Int → List Int
  | [] => []
  | x :: xs => acc :: displsFrom (acc + x) xs

def displs (xs : List Int) : List Int := displsFrom 0 xs

/-- every element `some` -> the list of values -/
def allSome {β : Type} : List (Option β) → Option (List β)
  | [] => some []
  | none :: _ => none
  | some b :: rest => (allSome rest).map (b :: ·)

def isum (xs : List Int) : Int := xs.foldl (· + ·) 0

/-! ### `MPI_Alltoall`, `MPI_Alltoallv` (trusted semantics) and `ref_mpi_alltoallv` -/

/-- `MPI_Alltoall(send, 1, …, recv, 1, …)`: `recv_r[s] = send_s[r]` -/
def mpiAlltoall {α : Type} [Inhabited α] (w : World (List α)) : World (List α) :=
  (List.range w.length).map fun r => w.map fun a => a.getD r default

/-- what one rank hands to `ref_mpi_alltoallv`: buffers and per-part *item* counts -/
structure A2A (α : Type) where
  send : List α
  sendSize : List Int
  /-- contents of the caller's receive buffer before the call -/
  recv : List α
  recvSize : List Int

/-- what one rank hands to `MPI_Alltoallv`: element counts and displacements -/
structure VArgs (α : Type) where
  send : List α
  scount : List Int
  sdispl : List Int
  recv : List α
  rcount : List Int
  rdispl : List Int

/-- `each_ref_mpi_part`: `RAS(0 <= size[part])`, `RAS(ref_math_int_multipliable(n, size[part]))`,
    `size_n[part] = n * size[part]` -/
def sizeN (n : Int) : List Int → Option (List Int)
  | [] => some []
  | s :: ss => if decide (0 ≤ s) && intMultipliable n s then (sizeN n ss).map (n * s :: ·) else none

/-- `disp[0] = 0; each_ref_mpi_worker: RAS(ref_math_int_addable(disp[part-1], size_n[part-1]));
    disp[part] = disp[part-1] + size_n[part-1]` -- the last size is never added -/
def dispGuard (acc : Int) : List Int → Option (List Int)
  | [] => some []
  | [_] => some [acc]
  | x :: y :: ys => if intAddable acc x then (dispGuard (acc + x) (y :: ys)).map (acc :: ·) else none

/-- the part of `ref_mpi_alltoallv` before `MPI_Alltoallv`; `none` is `return REF_FAILURE` -/
def a2avArgs {α : Type} (n : Int) (a : A2A α) : Option (VArgs α) :=
  match sizeN n a.sendSize, sizeN n a.recvSize with
  | some ssn, some rsn =>
    match dispGuard 0 ssn, dispGuard 0 rsn with
    | some sd, some rd => some ⟨a.send, ssn, sd, a.recv, rsn, rd⟩
    | _, _ => none
  | _, _ => none

/-- receive side of `MPI_Alltoallv` on rank `r`: for every source (rank order) the slice of the source's
    send buffer addressed to `r` is stored at `rdispl[source]`; a message longer than `rcount[source]`
    is an MPI truncation error -/
def mpiRecvLoop {α : Type} (r : Nat) : List (VArgs α) → List Int → List Int → List α → Option (List α)
  | [], _, _, buf => some buf
  | src :: srcs, rc :: rcs, rd :: rds, buf =>
    let cnt := src.scount.getD r 0
    if cnt ≤ rc then
      mpiRecvLoop r srcs rcs rds (writeAt buf rd.toNat (slice src.send (src.sdispl.getD r 0).toNat cnt.toNat))
    else none
  | _ :: _, _, _, _ => none

def mpiAlltoallv {α : Type} (w : World (VArgs α)) : Option (World (List α)) :=
  allSome (w.mapIdx fun r me => mpiRecvLoop r w me.rcount me.rdispl me.recv)

/-- `ref_mpi_alltoallv` with `native_alltoallv == REF_FALSE` on every rank -/
def alltoallvMpi {α : Type} (ty : RefType) (n : Int) (w : World (A2A α)) : Option (World (Status × List α)) :=
  if !ty.mpiOk then some (w.map fun a => (Status.implement, a.recv)) else
  let args := w.map (a2avArgs n)
  if args.all Option.isSome then
    (mpiAlltoallv (args.filterMap id)).map fun bufs => bufs.map fun b => (Status.ok, b)
  else if args.all Option.isNone then some (w.map fun a => (Status.failure, a.recv))
  else none

/-! ### tagged point-to-point and `ref_mpi_alltoallv_native` -/

/-- a posted send -/
structure Msg (α : Type) where
  dest : Int
  tag : Int
  data : List α

/-- a posted receive: up to `cnt` elements stored at `off` -/
structure Rcv where
  source : Int
  tag : Int
  off : Int
  cnt : Int

/-- what one rank did: the status it returns and the requests it posted (receive buffer included) -/
structure Posted (α : Type) where
  status : Status
  rcvs : List Rcv
  msgs : List (Msg α)
  buf : List α

/-- matching by (source, dest, tag); refine posts at most one message per triple, so the first match is the
    match (non-overtaking order is not needed) -/
def findMsg {α : Type} (w : World (Posted α)) (me : Int) (rq : Rcv) : Option (Msg α) :=
  if rq.source < 0 then none else
  match w[rq.source.toNat]? with
  | none => none
  | some p => p.msgs.find? fun m => m.dest == me && m.tag == rq.tag

def recvPosted {α : Type} (w : World (Posted α)) (me : Int) : List Rcv → List α → Option (List α)
  | [], buf => some buf
  | rq :: rqs, buf =>
    match findMsg w me rq with
    | none => none
    | some m =>
      if (m.data.length : Int) ≤ rq.cnt then recvPosted w me rqs (writeAt buf rq.off.toNat m.data) else none

def sendMatched {α : Type} (w : World (Posted α)) (me : Int) (m : Msg α) : Bool :=
  if m.dest < 0 then false else
  match w[m.dest.toNat]? with
  | none => false
  | some p => p.rcvs.any fun rq => rq.source == me && rq.tag == m.tag

/-- all ranks wait for their requests.  A rank that returned an error after posting leaves dangling
    requests: `none`.  Every receive must find its message, every send its receive. -/
def p2pExchange {α : Type} (w : World (Posted α)) : Option (World (Status × List α)) :=
  allSome (w.mapIdx fun r p =>
    if p.status ≠ Status.ok then
      (if p.rcvs.isEmpty && p.msgs.isEmpty then some (p.status, p.buf) else none)
    else if p.msgs.all (sendMatched w (r : Int)) then
      (recvPosted w (r : Int) p.rcvs p.buf).map fun b => (Status.ok, b)
    else none)

/-- the `switch (type)` inside the request loops of the native variant: no `REF_BYTE_TYPE` case -/
def RefType.nativeOk : RefType → Bool := RefType.ild

/-- receive loop of `ref_mpi_alltoallv_native`: `tag = ref_mpi_n * rank + part`;
    the requests posted before an error return stay posted -/
def nativeRecvs (ty : RefType) (np maxTag rank n : Int) : Int → Int → List Int → Status × List Rcv
  | _, _, [] => (Status.ok, [])
  | part, off, sz :: rest =>
    if 0 < sz then
      let tag := np * rank + part
      if !(decide (0 ≤ tag) && decide (tag ≤ maxTag)) then (Status.failure, [])
      else if !ty.nativeOk then (Status.implement, [])
      else
        let r := nativeRecvs ty np maxTag rank n (part + 1) (off + n * sz) rest
        (r.1, ⟨part, tag, off, n * sz⟩ :: r.2)
    else nativeRecvs ty np maxTag rank n (part + 1) (off + n * sz) rest

/-- send loop: `tag = ref_mpi_n * part + rank` -/
def nativeSends {α : Type} (ty : RefType) (np maxTag rank n : Int) (send : List α) :
    Int → Int → List Int → Status × List (Msg α)
  | _, _, [] => (Status.ok, [])
  | part, off, sz :: rest =>
    if 0 < sz then
      let tag := np * part + rank
      if !(decide (0 ≤ tag) && decide (tag ≤ maxTag)) then (Status.failure, [])
      else if !ty.nativeOk then (Status.implement, [])
      else
        let r := nativeSends ty np maxTag rank n send (part + 1) (off + n * sz) rest
        (r.1, ⟨part, tag, slice send off.toNat (n * sz).toNat⟩ :: r.2)
    else nativeSends ty np maxTag rank n send (part + 1) (off + n * sz) rest

def nativePost {α : Type} (ty : RefType) (np maxTag rank n : Int) (a : A2A α) : Posted α :=
  if !ty.mpiOk then ⟨Status.implement, [], [], a.recv⟩ else
  if np * np > maxTag then ⟨Status.implement, [], [], a.recv⟩ else
  let r := nativeRecvs ty np maxTag rank n 0 0 a.recvSize
  if r.1 ≠ Status.ok then ⟨r.1, r.2, [], a.recv⟩ else
  let s := nativeSends ty np maxTag rank n a.send 0 0 a.sendSize
  ⟨s.1, r.2, s.2, a.recv⟩

/-- `ref_mpi_alltoallv_native` on every rank (`MPI_Irecv` / `MPI_Isend` / `MPI_Waitall`) -/
def alltoallvNative {α : Type} (ty : RefType) (maxTag : Int) (n : Int) (w : World (A2A α)) :
    Option (World (Status × List α)) :=
  p2pExchange (w.mapIdx fun r a => nativePost ty (w.length : Int) maxTag (r : Int) n a)

/-- `ref_mpi_alltoallv`: dispatch on the `native_alltoallv` field -/
def alltoallv {α : Type} (native : Bool) (ty : RefType) (maxTag : Int) (n : Int) (w : World (A2A α)) :
    Option (World (Status × List α)) :=
  if native then alltoallvNative ty maxTag n w else alltoallvMpi ty n w

/-! ### `ref_mpi_blindsend` -/

/-- `a_size[p]++` -/
def incrAt (a : List Int) (p : Nat) : List Int := a.set p (a.getD p 0 + 1)

/-- `for (i = 0; i < nsend; i++) a_size[proc[i]]++` from `ref_malloc_init(a_size, n, REF_INT, 0)` -/
def countDest (np : Nat) (proc : List Int) : List Int :=
  proc.foldl (fun a p => incrAt a p.toNat) (List.replicate np 0)

/-- the bucket pack loop: item `i` (the next `ldim` elements of `send`) is stored at
    `ldim * a_next[proc[i]]`, then `a_next[proc[i]]++` -/
def pack {α : Type} (ldim : Nat) : List Int → List α → List α → List Int → List α
  | [], _, a_data, _ => a_data
  | p :: ps, send, a_data, a_next =>
    pack ldim ps (send.drop ldim)
      (writeAt a_data (ldim * (a_next.getD p.toNat 0).toNat) (send.take ldim)) (incrAt a_next p.toNat)

/-- one rank's arguments: destination of every item and the flat item buffer (`nsend = proc.length`) -/
structure Blind (α : Type) where
  proc : List Int
  send : List α

/-- per-rank preparation of the parallel path: `a_size`, and (given `b_size`) the `ref_mpi_alltoallv` call -/
def blindArgs {α : Type} [Inhabited α] (ldim : Nat) (np : Nat) (b : Blind α) (bSize : List Int) : A2A α :=
  let aSize := countDest np b.proc
  let aTotal := isum aSize
  let bTotal := isum bSize
  let aNext := displs aSize
  let aData := pack ldim b.proc b.send (List.replicate (ldim * aTotal.toNat) default) aNext
  ⟨aData, aSize, List.replicate (ldim * bTotal.toNat) default, bSize⟩

/-- `ref_mpi_blindsend`; per rank `(status, nrecv, recv)` -/
def blindsend {α : Type} [Inhabited α] (native : Bool) (ty : RefType) (maxTag : Int) (ldim : Nat)
    (w : World (Blind α)) : Option (World (Status × Int × List α)) :=
  if w.length ≤ 1 then
    some (w.map fun b =>
      if ty.ild then (Status.ok, (b.proc.length : Int), slice b.send 0 (ldim * b.proc.length))
      else (Status.implement, (b.proc.length : Int), []))
  else
    let aSizes := w.map fun b => countDest w.length b.proc
    let bSizes := mpiAlltoall aSizes
    if !ty.ild then some (w.map fun _ => (Status.implement, 0, [])) else
    let args := (w.zip bSizes).map fun (b, bs) => blindArgs ldim w.length b bs
    (alltoallv native ty maxTag (ldim : Int) args).map fun res =>
      (res.zip bSizes).map fun (sb, bs) => (sb.1, isum bs, sb.2)

/-! ### `find_destination` and `ref_mpi_balance` -/

/-- `for (part = 0; part < n; part++) { if (gid < shares[part]) return part; gid -= shares[part]; } return n - 1;` -/
def findDest (n : Int) : Int → List Int → Int → Int
  | _, [], _ => n - 1
  | part, s :: ss, gid => if gid < s then part else findDest n (part + 1) ss (gid - s)

def findDestination (n : Nat) (shares : List Int) (gid : Int) : Int :=
  findDest (n : Int) 0 (shares.take n) gid

/-- the share of one rank: `total / active` (+1 for the first `remainder` active ranks), 0 when inactive -/
def shareOf (total first last rank : Int) : Int :=
  let active := last - first + 1
  let share0 := if first ≤ rank ∧ rank ≤ last then Int.tdiv total active else 0
  let remainder := if first ≤ rank ∧ rank ≤ last then total - share0 * active else 0
  if max 0 (rank - first) < remainder then share0 + 1 else share0

/-- `destination[i] = find_destination(n, shares, offset + i)` -/
def destinations (np : Nat) (shares : List Int) (offset : Int) (nitem : Nat) : List Int :=
  (List.range nitem).map fun (i : Nat) => findDestination np shares (offset + (i : Int))

/-- `ref_mpi_balance`; `w[r]` is the flat item buffer of rank `r` (`nitem = length / ldim`);
    per rank `(status, nbalanced, balanced)` -/
def balance {α : Type} [Inhabited α] (native : Bool) (ty : RefType) (maxTag : Int) (ldim : Nat)
    (first last : Int) (w : World (Nat × List α)) : Option (World (Status × Int × List α)) :=
  let haves : List Int := w.map fun x => (x.1 : Int)
  let total := isum haves
  let shares : List Int := w.mapIdx fun r _ => shareOf total first last (r : Int)
  let blind : World (Blind α) := w.mapIdx fun r x =>
    ⟨destinations w.length shares (isum (haves.take r)) x.1, x.2⟩
  (blindsend native ty maxTag ldim blind).map fun res =>
    (res.zip shares).map fun (sb, share) =>
      if sb.1 ≠ Status.ok then sb
      else if share ≠ sb.2.1 then (Status.failure, sb.2.1, sb.2.2)
      else sb

/-! ### gathers -/

/-- `ref_mpi_allgather`: every rank gets the vector of scalars (serial path: int/long/dbl only) -/
def allgather {α : Type} (ty : RefType) (w : World α) : World (Status × List α) :=
  if w.length ≤ 1 then w.map fun x => if ty.ild then (Status.ok, [x]) else (Status.implement, [])
  else w.map fun _ => if ty.mpiOk then (Status.ok, w) else (Status.implement, [])

/-- one rank's arguments to `ref_mpi_allgatherv` -/
structure GatherV (α : Type) where
  localArr : List α
  counts : List Int
  /-- contents of `concatenated_array` before the call -/
  recv : List α

/-- receive side of `MPI_Allgatherv` on one rank: source `s` contributes its first `counts_s[s]` elements,
    stored at `displs[s]` -/
def gathervLoop {α : Type} : Nat → List (GatherV α) → List Int → List Int → List α → Option (List α)
  | _, [], _, _, buf => some buf
  | s, src :: srcs, rc :: rcs, rd :: rds, buf =>
    let cnt := src.counts.getD s 0
    if cnt ≤ rc then gathervLoop (s + 1) srcs rcs rds (writeAt buf rd.toNat (src.localArr.take cnt.toNat))
    else none
  | _, _ :: _, _, _, _ => none

/-- `ref_mpi_allgatherv`: `displs[0] = 0; displs[p] = displs[p-1] + counts[p-1]` (no guard) -/
def allgatherv {α : Type} (ty : RefType) (w : World (GatherV α)) : Option (World (Status × List α)) :=
  if !ty.mpiOk then some (w.map fun g => (Status.implement, g.recv)) else
  if w.length ≤ 1 then
    some (w.map fun g =>
      if ty.ild then (Status.ok, writeAt g.recv 0 (g.localArr.take (g.counts.getD 0 0).toNat))
      else (Status.implement, g.recv))
  else
    (allSome (w.map fun me => gathervLoop 0 w me.counts (displs me.counts) me.recv)).map
      fun bufs => bufs.map fun b => (Status.ok, b)

/-- `source[tot++] = proc` for `counts[proc]` times, rank order -/
def sourceOf : Int → List Int → List Int
  | _, [] => []
  | p, c :: cs => List.replicate c.toNat p ++ sourceOf (p + 1) cs

/-- `ref_mpi_allconcat`; per rank `(status, total_size, source, concatenated)`;
    `w[r] = (my_size, my_array)` -/
def allconcat {α : Type} [Inhabited α] (ty : RefType) (ldim : Nat) (w : World (Nat × List α)) :
    Option (World (Status × Int × List Int × List α)) :=
  let counts : List Int := w.map fun x => (x.1 : Int)
  let total := isum counts
  let source := sourceOf 0 counts
  if !ty.id then some (w.map fun _ => (Status.implement, total, source, [])) else
  let countsL := counts.map fun c => c * (ldim : Int)
  let args : World (GatherV α) := w.map fun x =>
    ⟨x.2, countsL, List.replicate (ldim * total.toNat) default⟩
  (allgatherv ty args).map fun res => res.map fun sb => (sb.1, total, source, sb.2)

/-! ### reductions -/

/-- `MPI_Reduce(…, op, root 0)` on vectors of `n` elements, combined in rank order -/
def mpiReduce {α : Type} (op : α → α → α) (n : Nat) : World (List α) → List α
  | [] => []
  | x :: xs => xs.foldl (fun acc y => List.zipWith op acc (y.take n)) (x.take n)

/-- `MPI_Bcast(data, n, …, root 0)` -/
def mpiBcast {α : Type} (n : Nat) (w : World (List α)) : World (List α) :=
  match w with
  | [] => []
  | root :: _ => w.map fun d => writeAt d 0 (root.take n)

/-- `ref_mpi_bcast` -/
def bcast {α : Type} (ty : RefType) (n : Nat) (w : World (List α)) : World (Status × List α) :=
  if w.length ≤ 1 then w.map fun d => (Status.ok, d)
  else if !ty.mpiOk then w.map fun d => (Status.implement, d)
  else (mpiBcast n w).map fun d => (Status.ok, d)

/-- `ref_mpi_sum`: `w[r] = (input, output-before)`; only rank 0's output is written -/
def sum {α : Type} (add : α → α → α) (ty : RefType) (n : Nat) (w : World (List α × List α)) :
    World (Status × List α) :=
  if w.length ≤ 1 then
    w.map fun x => if ty.ild then (Status.ok, writeAt x.2 0 (x.1.take n)) else (Status.implement, x.2)
  else if !ty.mpiOk then w.map fun x => (Status.implement, x.2)
  else
    let red := mpiReduce add n (w.map fun x => x.1)
    w.mapIdx fun r x => (Status.ok, if r = 0 then writeAt x.2 0 red else x.2)

/-- `ref_mpi_min` / `ref_mpi_max` (one element): `pick a b` is the MPI operation -/
def reduce1 {α : Type} (pick : α → α → α) (ty : RefType) (w : World (α × α)) : World (Status × α) :=
  if w.length ≤ 1 then
    w.map fun x => if ty.id then (Status.ok, x.1) else (Status.implement, x.2)
  else if !ty.mpiOk then w.map fun x => (Status.implement, x.2)
  else
    match w with
    | [] => []
    | x :: xs =>
      let red := xs.foldl (fun acc y => pick acc y.1) x.1
      w.mapIdx fun r y => (Status.ok, if r = 0 then red else y.2)

/-- `MPI_MIN` / `MPI_MAX` from a strict comparison -/
def pickMin {α : Type} (lt : α → α → Bool) (a b : α) : α := if lt b a then b else a
def pickMax {α : Type} (lt : α → α → Bool) (a b : α) : α := if lt a b then b else a

/-- `ref_mpi_allsum`: copy to `temp`, `ref_mpi_sum(temp → value)`, `ref_mpi_bcast(value)` -/
def allsum {α : Type} (add : α → α → α) (ty : RefType) (n : Nat) (w : World (List α)) :
    World (Status × List α) :=
  if !ty.ild then w.map fun v => (Status.implement, v) else
  let s := sum add ty n (w.map fun v => (v.take n, v))
  let b := bcast ty n (s.map fun x => x.2)
  b

/-- `MPI_MINLOC` on `(value, rank)` pairs -/
def minloc {α : Type} (lt : α → α → Bool) (a b : α × Int) : α × Int :=
  if lt a.1 b.1 then a else if lt b.1 a.1 then b else (a.1, min a.2 b.2)

/-- `ref_mpi_allminwho`: per rank `(val, who)` after the call -/
def allminwho {α : Type} (lt : α → α → Bool) (n : Nat) (w : World (List α)) : World (List α × List Int) :=
  if w.length ≤ 1 then w.mapIdx fun r v => (v, List.replicate n (r : Int))
  else
    let pairs : World (List (α × Int)) := w.mapIdx fun r v => (v.take n).map fun x => (x, (r : Int))
    let red := mpiReduce (minloc lt) n pairs
    w.map fun v => (writeAt v 0 (red.map fun p => p.1), red.map fun p => p.2)

/-! ### rank-0 scatter / gather loops (`ref_mpi_scatter_send/recv`, `ref_mpi_gather_send/recv`) -/

def tagOk (maxTag tag : Int) : Bool := decide (0 ≤ tag) && decide (tag ≤ maxTag)

/-- one `ref_mpi_scatter_send` / `ref_mpi_gather_recv` after the other (`RSS`-style: stop at the first error):
    `ref_type_mpi_type`, then the `RAB` tag check, then the blocking call.  What was done before an error
    stays done. -/
def postAll {β : Type} (ty : RefType) (maxTag : Int) (tagOf : β → Int) : List β → Status × List β
  | [] => (Status.ok, [])
  | x :: xs =>
    if !ty.mpiOk then (Status.implement, [])
    else if !tagOk maxTag (tagOf x) then (Status.failure, [])
    else
      let r := postAll ty maxTag tagOf xs
      (r.1, x :: r.2)

/-- rank 0: `for worker p: ref_mpi_scatter_send(chunks[p], |chunks[p]|, type, p)` (tag = dest);
    worker `p`: `ref_mpi_scatter_recv(buf, |chunks[p]|, type)` (tag = own rank, source 0).
    `chunks[0]` stays on rank 0. -/
def scatter {α : Type} [Inhabited α] (ty : RefType) (maxTag : Int) (chunks : List (List α)) :
    Option (World (Status × List α)) :=
  let posted : World (Posted α) := chunks.mapIdx fun r c =>
    if r = 0 then
      let ms : List (Msg α) := ((chunks.zipIdx).drop 1).map fun (cp : List α × Nat) => ⟨(cp.2 : Int), (cp.2 : Int), cp.1⟩
      let sent := postAll ty maxTag (fun m => m.tag) ms
      ⟨sent.1, [], sent.2, c⟩
    else
      let rq := postAll ty maxTag (fun (q : Rcv) => q.tag) [⟨0, (r : Int), 0, (c.length : Int)⟩]
      ⟨rq.1, rq.2, [], List.replicate c.length default⟩
  p2pExchange posted

/-- worker `p`: `ref_mpi_gather_send(chunk, |chunk|, type)` (tag = own rank, dest 0);
    rank 0: its own chunk first, then `for worker p: ref_mpi_gather_recv(buf + off_p, |chunk_p|, type, p)`
    (tag = source) -/
def gather {α : Type} [Inhabited α] (ty : RefType) (maxTag : Int) (w : World (List α)) :
    Option (World (Status × List α)) :=
  let sizes : List Int := w.map fun c => (c.length : Int)
  let offs := displs sizes
  let posted : World (Posted α) := w.mapIdx fun r c =>
    if r = 0 then
      let rq : List Rcv := (((sizes.zip offs).zipIdx).drop 1).map fun (x : (Int × Int) × Nat) =>
        ⟨(x.2 : Int), (x.2 : Int), x.1.2, x.1.1⟩
      let buf := writeAt (List.replicate (isum sizes).toNat default) 0 c
      let got := postAll ty maxTag (fun (q : Rcv) => q.tag) rq
      ⟨got.1, got.2, [], buf⟩
    else
      let sent := postAll ty maxTag (fun (m : Msg α) => m.tag) [⟨0, (r : Int), c⟩]
      ⟨sent.1, [], sent.2, []⟩
  p2pExchange posted

/-! ### `ref_search_selection` -/

section Selection
variable {α : Type} [Scalar α]

/-- `for (i…) low_val = MIN(low_val, elements[i])` from `REF_DBL_MAX` -/
def localMin (xs : List α) : α := xs.foldl Scalar.cmin (Scalar.ofDec 1 200)
/-- `for (i…) high_val = MAX(high_val, elements[i])` from `REF_DBL_MIN` (= -1.0e200) -/
def localMax (xs : List α) : α := xs.foldl Scalar.cmax (Scalar.neg (Scalar.ofDec 1 200))

/-- `count` of `elements[i] <= mid_val` on one rank -/
def countLe (mid : α) (xs : List α) : Int := ((xs.filter fun x => Scalar.le x mid).length : Int)

/-- global count: `ref_mpi_allsum(&count, 1, REF_LONG_TYPE)` -/
def worldCountLe (mid : α) (w : World (List α)) : Int := isum (w.map (countLe mid))

/-- one bisection step -/
def bisectStep (w : World (List α)) (position : Int) (s : α × α × α) : α × α × α :=
  let low := s.1
  let high := s.2.1
  let mid := Scalar.mul (Scalar.ofDec 5 (-1)) (Scalar.add low high)
  if worldCountLe mid w - 1 < position then (mid, high, mid) else (low, mid, mid)

def bisect (w : World (List α)) (position : Int) : Nat → α × α × α → α × α × α
  | 0, s => s
  | k + 1, s => bisect w position k (bisectStep w position s)

/-- `MPI_MIN` / `MPI_MAX` over the ranks' local values, as `ref_mpi_min` + `ref_mpi_bcast` deliver them -/
def worldMin (w : World (List α)) : α :=
  match w.map localMin with
  | [] => Scalar.ofDec 1 200
  | x :: xs => xs.foldl (pickMin Scalar.lt) x
def worldMax (w : World (List α)) : α :=
  match w.map localMax with
  | [] => Scalar.neg (Scalar.ofDec 1 200)
  | x :: xs => xs.foldl (pickMax Scalar.lt) x

/-- the state `(low_val, high_val, mid_val)` at the end of `ref_search_selection` when it bisects -/
def selectionState (w : World (List α)) (position : Int) : α × α × α :=
  let low := worldMin w
  let high := worldMax w
  bisect w position 40 (low, high, Scalar.mul (Scalar.ofDec 5 (-1)) (Scalar.add low high))

/-- `ref_search_selection`: the value every rank returns -/
def selection (w : World (List α)) (position : Int) : α :=
  let highPos : Int := isum (w.map fun xs => (xs.length : Int)) - 1
  if position ≤ 0 then worldMin w
  else if position ≥ highPos then worldMax w
  else (selectionState w position).2.2

end Selection

end Refine.Model.Comm
