import Refine.Model.NodeIds
import Refine.Model.Geom

/-!
  L5 Mesh / `MeshOps`: the local mesh operations of `src/ref_split.c:420-497` (`ref_split_edge`),
  `src/ref_collapse.c:325-372` (`ref_collapse_edge`), `src/ref_swap.c:247-316,683-714`
  (`ref_swap_node23`, `ref_swap_same_faceid`, `ref_swap_tri_edge`), the trial-vertex frame of
  `ref_split_pass` (`src/ref_split.c:180-366`) and the executable local-validity predicate of C13.

  State.  A mesh is the vertex-id state machine `NodeIds` (the concrete model of `ref_node.c`, tied to the C by
  the `nodecell` streams, theorems in `Props/C14NodeCell.lean`) plus three cell groups `tet`, `tri`, `edg`.
  A group is the *list of live rows* of the C cell store: a row is `node_per` vertex slots followed by the id
  (`tri`, `edg`).  Cell indices, the `c2n` free list and the adjacency chains of `ref_cell.c` are abstracted
  away (their own refinement is C14 part B: `cell_adjacency_exact`, `cell_with2_counts_exact`,
  `cell_replace_node_terminates_and_substitutes`); what is kept is exactly what C13 talks about.
  Consequences of the abstraction, stated once:

  * `ref_cell_list_with2` reports a cell once per (occurrence of node0) x (occurrence of node1).  For cells
    without a repeated vertex this is "once iff it contains both" (`has2`); the model uses that form, so it is
    the model of the C only on states without degenerate cells (`NoRepeat`), which the operations preserve
    (`Props/C13.lean`) and the line protocol enforces on input.
  * the order in which the C visits the listed cells (adjacency-chain order) is not modelled; no result of the
    modelled functions depends on it once `ref_swap_same_faceid` passed (the only order-dependent read is the
    id of `cell_to_swap[0]` in `ref_swap_tri_edge`).  Dumps are compared sorted.

  Everything is executable and core-only.  Theorems: `Refine/Props/C13.lean`.
-/
namespace Refine.Model.MeshOps
open Refine.Model.NodeIds (Status NodeIds)

/-- one row of a cell store: `node_per` vertex slots, then (tri, edg) the id -/
abbrev Cell := List Int

/-- `MAX_CELL_SPLIT` (ref_split.c:44) -/
def MAX_CELL_SPLIT : Nat := 100
/-- `MAX_CELL_COLLAPSE` (ref_collapse.c:41) -/
def MAX_CELL_COLLAPSE : Nat := 100

/-- the vertex entries of a row -/
def nodesOf (np : Nat) (c : Cell) : List Int := c.take np

/-- the cell contains both vertices (what `each_ref_cell_having_node2` visits, for a non-degenerate cell) -/
def has2 (np : Nat) (n0 n1 : Int) (c : Cell) : Bool :=
  (nodesOf np c).contains n0 && (nodesOf np c).contains n1

/-- `for (node < node_per) if (old == nodes[node]) nodes[node] = new;` (the id entry is not touched) -/
def subst (np : Nat) (old new : Int) (c : Cell) : Cell :=
  ((c.take np).map fun v => if v = old then new else v) ++ c.drop np

/-- `ref_cell_list_with2(ref_cell, node0, node1, max_cell, &ncell, list)` -/
def listWith2 (np : Nat) (cs : List Cell) (n0 n1 : Int) (maxCell : Nat) : Status × List Cell :=
  let l := cs.filter (has2 np n0 n1)
  if l.length > maxCell then (.increase_limit, []) else (.ok, l)

/-! ### `ref_split_edge` -/

/-- "add node0 version": `node0 ↦ new_node` -/
def splitV0 (np : Nat) (n0 new : Int) (c : Cell) : Cell := subst np n0 new c
/-- "add node1 version": the C first undoes the substitution (`new_node ↦ node0`), then `node1 ↦ new_node` -/
def splitV1 (np : Nat) (n0 n1 new : Int) (c : Cell) : Cell :=
  subst np n1 new (subst np new n0 (subst np n0 new c))

/-- the `for (cell_in_list < ncell)` loop: `ref_cell_remove(cell)`, `ref_cell_add(node0 version)`,
    `ref_cell_add(node1 version)`.  `erase` removes one row equal to the listed one. -/
def splitLoop (np : Nat) (n0 n1 new : Int) : List Cell → List Cell → List Cell
  | [], cs => cs
  | c :: rest, cs =>
    splitLoop np n0 n1 new rest (splitV1 np n0 n1 new c :: splitV0 np n0 new c :: cs.erase c)

/-- one group of `ref_split_edge` -/
def splitGroup (np : Nat) (cs : List Cell) (n0 n1 new : Int) : Status × List Cell :=
  let r := listWith2 np cs n0 n1 MAX_CELL_SPLIT
  if r.1 ≠ .ok then (r.1, cs) else (.ok, splitLoop np n0 n1 new r.2 cs)

/-- the three cell groups (`ref_grid_tet/tri/edg`) -/
structure Groups where
  tet : List Cell
  tri : List Cell
  edg : List Cell
  deriving Repr, DecidableEq

/-- `ref_split_edge(ref_grid, node0, node1, new_node)`: tet, then tri, then edg; the first error returns.
    (`REF_INCREASE_LIMIT` of the tet group is the only error `ref_split_pass` recovers from.) -/
def splitEdge (g : Groups) (n0 n1 new : Int) : Status × Groups :=
  let t := splitGroup 4 g.tet n0 n1 new
  if t.1 ≠ .ok then (t.1, g) else
  let g := { g with tet := t.2 }
  let r := splitGroup 3 g.tri n0 n1 new
  if r.1 ≠ .ok then (r.1, g) else
  let g := { g with tri := r.2 }
  let e := splitGroup 2 g.edg n0 n1 new
  if e.1 ≠ .ok then (e.1, g) else
  (.ok, { g with edg := e.2 })

/-! ### `ref_collapse_edge` -/

/-- the `ref_cell_remove` loop over the listed cells -/
def removeLoop : List Cell → List Cell → List Cell
  | [], cs => cs
  | c :: rest, cs => removeLoop rest (cs.erase c)

/-- `ref_cell_replace_node(ref_cell, old, new)` on the live rows (C14: terminates and equals substitution) -/
def replaceNode (np : Nat) (cs : List Cell) (old new : Int) : List Cell :=
  if old = new then cs else cs.map (subst np old new)

/-- one group of `ref_collapse_edge`: list (limit `MAX_CELL_COLLAPSE`), remove, `replace_node(node1, node0)` -/
def collapseGroup (np : Nat) (cs : List Cell) (n0 n1 : Int) : Status × List Cell :=
  let r := listWith2 np cs n0 n1 MAX_CELL_COLLAPSE
  if r.1 ≠ .ok then (r.1, cs) else (.ok, replaceNode np (removeLoop r.2 cs) n1 n0)

structure Mesh where
  ids : NodeIds
  g : Groups
  deriving Repr, DecidableEq

/-- `ref_collapse_edge(ref_grid, node0, node1)`: keep node0, remove node1.  (`ref_geom_remove_all` is a no-op
    without CAD association and is not modelled.) -/
def collapseEdge (m : Mesh) (n0 n1 : Int) : Status × Mesh :=
  let t := collapseGroup 4 m.g.tet n0 n1
  if t.1 ≠ .ok then (t.1, m) else
  let m := { m with g := { m.g with tet := t.2 } }
  let r := collapseGroup 3 m.g.tri n0 n1
  if r.1 ≠ .ok then (r.1, m) else
  let m := { m with g := { m.g with tri := r.2 } }
  let e := collapseGroup 2 m.g.edg n0 n1
  if e.1 ≠ .ok then (e.1, m) else
  let m := { m with g := { m.g with edg := e.2 } }
  let nr := m.ids.remove n1
  if nr.1 ≠ .ok then (nr.1, m) else
  (.ok, { m with ids := nr.2 })

/-! ### `ref_swap_node23`, `ref_swap_same_faceid`, `ref_swap_tri_edge` -/

/-- the six `if`s of `ref_swap_node23` for one triangle, updating `(node2, node3)` -/
def node23Step (n0 n1 : Int) (t : Cell) (acc : Int × Int) : Int × Int :=
  let a := t.getD 0 (-1); let b := t.getD 1 (-1); let c := t.getD 2 (-1)
  let n2 := acc.1
  let n2 := if n0 = a ∧ n1 = b then c else n2
  let n2 := if n0 = b ∧ n1 = c then a else n2
  let n2 := if n0 = c ∧ n1 = a then b else n2
  let n3 := acc.2
  let n3 := if n1 = a ∧ n0 = b then c else n3
  let n3 := if n1 = b ∧ n0 = c then a else n3
  let n3 := if n1 = c ∧ n0 = a then b else n3
  (n2, n3)

/-- `ref_swap_node23`: `(status, node2, node3)`; more than two triangles ↦ `REF_INCREASE_LIMIT`,
    fewer ↦ `REF_FAILURE`, `node2`/`node3` not found (the two triangles see the edge in the same direction)
    ↦ `REF_FAILURE` -/
def swapNode23 (tris : List Cell) (n0 n1 : Int) : Status × Int × Int :=
  let r := listWith2 3 tris n0 n1 2
  if r.1 ≠ .ok then (r.1, -1, -1) else
  match r.2 with
  | [t0, t1] =>
    let p := node23Step n0 n1 t1 (node23Step n0 n1 t0 (-1, -1))
    if p.1 = -1 then (.failure, p.1, p.2)
    else if p.2 = -1 then (.failure, p.1, p.2)
    else (.ok, p.1, p.2)
  | _ => (.failure, -1, -1)

/-- `ref_cell_has_side` on live rows with the edge table `e2n` of the cell type -/
def hasSide (e2n : List (Nat × Nat)) (cs : List Cell) (n0 n1 : Int) : Bool :=
  cs.any fun c => e2n.any fun (a, b) =>
    let x := c.getD a (-1); let y := c.getD b (-1)
    (n0 == x && n1 == y) || (n0 == y && n1 == x)

def triE2n : List (Nat × Nat) := [(0, 1), (1, 2), (2, 0)]
def edgE2n : List (Nat × Nat) := [(0, 1)]

/-- `ref_swap_same_faceid` for a grid without quads: `(status, allowed)` -/
def sameFaceid (g : Groups) (n0 n1 : Int) : Status × Bool :=
  if hasSide edgE2n g.edg n0 n1 then (.ok, false) else
  let r := listWith2 3 g.tri n0 n1 2
  if r.1 ≠ .ok then (r.1, false) else
  match r.2 with
  | [] => (.ok, true)
  | [t0, t1] => (.ok, t0.getD 3 (-1) == t1.getD 3 (-1))
  | _ => (.failure, false)

/-- `ref_cell_with` on triangles: is there a live row with the same vertex set (`ref_sort_unique_int` of both) -/
def triWith (tris : List Cell) (ns : List Int) : Bool :=
  let key := fun (l : List Int) => ((l.mergeSort fun a b => decide (a ≤ b)).eraseDups)
  tris.any fun c => (nodesOf 3 c).contains (ns.getD 0 (-1)) && key (nodesOf 3 c) == key ns

/-- `ref_swap_manifold`: neither new triangle exists already and the new edge `(node2,node3)` is not yet a
    side of a triangle -/
def swapManifold (g : Groups) (n0 n1 : Int) : Status × Bool :=
  let p := swapNode23 g.tri n0 n1
  if p.1 ≠ .ok then (p.1, false) else
  let r := listWith2 3 g.tri n0 n1 2
  if r.1 ≠ .ok then (r.1, false) else
  if r.2.length ≠ 2 then (.failure, false) else
  if triWith g.tri [n0, p.2.2, p.2.1] then (.ok, false) else
  if triWith g.tri [n1, p.2.1, p.2.2] then (.ok, false) else
  if hasSide triE2n g.tri p.2.1 p.2.2 then (.ok, false) else
  (.ok, true)

/-- `ref_swap_tri_edge` (static in ref_swap.c): the triangles `(n0,n1,n2)`, `(n1,n0,n3)` become
    `(n0,n3,n2)`, `(n1,n2,n3)`; both new rows carry the id entry of `cell_to_swap[0]` -/
def swapTriEdge (g : Groups) (n0 n1 : Int) : Status × Groups :=
  let p := swapNode23 g.tri n0 n1
  if p.1 ≠ .ok then (p.1, g) else
  let r := listWith2 3 g.tri n0 n1 2
  if r.1 ≠ .ok then (r.1, g) else
  match r.2 with
  | [t0, t1] =>
    let id := t0.getD 3 (-1)
    let cs := (g.tri.erase t0).erase t1
    (.ok, { g with tri := [n1, p.2.1, p.2.2, id] :: [n0, p.2.2, p.2.1, id] :: cs })
  | _ => (.failure, g)

/-! ### the trial-vertex frame of `ref_split_pass` -/

/-- `ref_node_next_global; ref_node_add` : `(status, new_node, state)` -/
def trialBegin (m : Mesh) : Status × Int × Mesh :=
  let r1 := m.ids.nextGlobal
  if r1.1 ≠ .ok then (r1.1, -1, m) else
  let r2 := r1.2.2.add r1.2.1
  if r2.1 ≠ .ok then (r2.1, -1, { m with ids := r2.2.2 }) else
  (.ok, (r2.2.1 : Int), { m with ids := r2.2.2 })

/-- every reject path: `ref_node_remove(ref_node, new_node)` (+ `ref_geom_remove_all`, not modelled) -/
def trialWithdraw (m : Mesh) (new : Int) : Status × Mesh :=
  let r := m.ids.remove new
  (r.1, { m with ids := r.2 })

/-- what the unmodelled checks between `ref_node_add` and the decision concluded for this edge -/
inductive Decision
  /-- quality / ratio / conformity check failed and there is no geometry support (ref_split.c:275-286) -/
  | rejectChecks
  /-- the cavity attempt did not end in a valid visible cavity (ref_split.c:288-340) -/
  | rejectCavity
  /-- `ref_cell_local_gem` said the edge is not local (ref_split.c:342-356) -/
  | rejectLocal
  /-- all checks passed: `ref_split_edge` is called -/
  | split
  deriving DecidableEq, Repr

/-- one iteration of the edge loop of `ref_split_pass` from `ref_node_next_global` on:
    `(status, accepted, new_node, state)` -/
def trialFrame (m : Mesh) (n0 n1 : Int) (d : Decision) : Status × Bool × Int × Mesh :=
  let b := trialBegin m
  if b.1 ≠ .ok then (b.1, false, -1, b.2.2) else
  let new := b.2.1
  let m1 := b.2.2
  match d with
  | .split =>
    let s := splitEdge m1.g n0 n1 new
    if s.1 = .increase_limit then
      -- `ref_split_pass` treats every `REF_INCREASE_LIMIT` of `ref_split_edge` as "nothing happened": that is
      -- true when the tet list is over the limit (the first statement), not when the tri / edg list is
      -- (`s.2` then already holds the split tets) -- see `trialFrame_reject_cells` for the exact condition
      let w := trialWithdraw { m1 with g := s.2 } new
      (w.1, false, new, w.2)
    else if s.1 ≠ .ok then (s.1, false, new, { m1 with g := s.2 })
    else (.ok, true, new, { m1 with g := s.2 })
  | _ =>
    let w := trialWithdraw m1 new
    (w.1, false, new, w.2)

/-! ### local validity (the executable statement of C13 around the touched vertices) -/

/-- no vertex twice inside the row -/
def noRepeat (np : Nat) (c : Cell) : Bool := decide (nodesOf np c).Nodup

/-- insertion sort of a short vertex list (canonical key of an unordered face) -/
def sortInts (l : List Int) : List Int := l.mergeSort fun a b => decide (a ≤ b)

def keyOf (np : Nat) (c : Cell) : List Int := sortInts (nodesOf np c)

/-- no two rows of the group with the same vertex set -/
def noDupCells (np : Nat) (cs : List Cell) : Bool := decide (cs.map (keyOf np)).Nodup

/-- rows of the group touching one of `vs` -/
def starOf (np : Nat) (cs : List Cell) (vs : List Int) : List Cell :=
  cs.filter fun c => (nodesOf np c).any fun v => vs.contains v

/-- the four faces of a tet / three sides of a tri as unordered keys -/
def facesOf (np : Nat) (c : Cell) : List (List Int) :=
  let ns := nodesOf np c
  (List.range ns.length).map fun k => sortInts (ns.eraseIdx k)

def countKey (np : Nat) (cs : List Cell) (k : List Int) : Nat := (cs.filter fun c => keyOf np c == k).length
def countFace (np : Nat) (cs : List Cell) (k : List Int) : Nat :=
  (cs.flatMap (facesOf np)).count k

/-- every face of a `hi`-cell that contains a touched vertex is shared by exactly two `hi`-cells and no
    `lo`-cell, or by one `hi`-cell and exactly one `lo`-cell; every `lo`-cell touching `vs` lies on exactly one
    `hi`-cell.  (3-D: hi = tet, lo = tri; 2-D: hi = tri, lo = edg.) -/
def facesMatched (npHi npLo : Nat) (hi lo : List Cell) (vs : List Int) : Bool :=
  let touched := fun (k : List Int) => k.any fun v => vs.contains v
  ((hi.flatMap (facesOf npHi)).filter touched).all (fun k =>
    let nh := countFace npHi hi k
    let nl := countKey npLo lo k
    (nh == 2 && nl == 0) || (nh == 1 && nl == 1)) &&
  ((lo.filter fun c => touched (nodesOf npLo c)).all fun c => countFace npHi hi (keyOf npLo c) == 1)

/-- no row references one of the removed vertices -/
def unreferenced (g : Groups) (removed : List Int) : Bool :=
  removed.all fun r =>
    g.tet.all (fun c => !(nodesOf 4 c).contains r) && g.tri.all (fun c => !(nodesOf 3 c).contains r) &&
    g.edg.all (fun c => !(nodesOf 2 c).contains r)

/-- combinatorial part of `localValid` on the star `g` of the touched vertices `vs`.
    `twod`: the triangles are the cells (2-D grid); otherwise the tets are. -/
def localValidComb (twod : Bool) (g : Groups) (vs removed : List Int) : Bool :=
  g.tet.all (noRepeat 4) && g.tri.all (noRepeat 3) && g.edg.all (noRepeat 2) &&
  noDupCells 4 g.tet && noDupCells 3 g.tri && noDupCells 2 g.edg &&
  unreferenced g removed &&
  (if twod then facesMatched 3 2 g.tri g.edg vs else facesMatched 4 3 g.tet g.tri vs)

section Geometric
open Refine Refine.Model.Geom
variable {α : Type} [Scalar α]

/-- geometric part: every tet of the star has positive volume (`ref_node_tet_vol`); in a 2-D grid every
    triangle has a normal with positive z (`ref_node_tri_twod_orientation`) -/
def localValidGeom (twod : Bool) (xyz : Int → V3 α) (g : Groups) : Bool :=
  if twod then
    g.tri.all fun c => triTwodOrientation (xyz (c.getD 0 (-1))) (xyz (c.getD 1 (-1))) (xyz (c.getD 2 (-1)))
  else
    g.tet.all fun c =>
      (Scalar.ofInt 0 : α) <. tetVol (xyz (c.getD 0 (-1))) (xyz (c.getD 1 (-1))) (xyz (c.getD 2 (-1)))
        (xyz (c.getD 3 (-1)))

/-- C13's `local_valid(star(touched vertices))` -/
def localValid (twod : Bool) (xyz : Int → V3 α) (g : Groups) (vs removed : List Int) : Bool :=
  localValidComb twod g vs removed && localValidGeom twod xyz g

end Geometric

/-- the star of `vs` in all three groups -/
def starGroups (g : Groups) (vs : List Int) : Groups :=
  ⟨starOf 4 g.tet vs, starOf 3 g.tri vs, starOf 2 g.edg vs⟩

end Refine.Model.MeshOps
