import Refine.Gen.CellTables
import Refine.Gen.PartMacros

/-!
  Combinatorics of the per-cell-type tables (C15, used by C01/C08).
  All definitions are executable and core-only; theorems live in
  `Refine/Props/C15.lean`.
-/
namespace Refine.Model.CellTopo
open Refine.Gen.CellTables

/-- nodes of a face row of `f2n`: a triangle repeats its first node in slot 3 -/
def faceNodes (f : List Nat) : List Nat :=
  match f with
  | [a, b, c, d] => if d = a then [a, b, c] else [a, b, c, d]
  | _ => f

/-- directed sides of one face, in table orientation -/
def faceSides (f : List Nat) : List (Nat × Nat) :=
  let ns := faceNodes f
  ns.zip (ns.rotateLeft 1)

def allSides (c : CellType) : List (Nat × Nat) := c.f2n.flatMap faceSides

/-- closed and coherently oriented: every directed face side occurs exactly once
    and its reverse occurs exactly once (in another face) -/
def closedOriented (c : CellType) : Bool :=
  let s := allSides c
  s.all fun (a, b) => s.count (a, b) == 1 && s.count (b, a) == 1 && a != b

def edgePairs (c : CellType) : List (Nat × Nat) :=
  c.e2n.filterMap fun e => match e with | [a, b] => some (a, b) | _ => none

/-- every table edge is a side (in one of the two directions) of exactly two faces -/
def eachEdgeTwoFaces (c : CellType) : Bool :=
  (edgePairs c).all fun (a, b) =>
    (c.f2n.filter fun f => (faceSides f).contains (a, b) || (faceSides f).contains (b, a)).length == 2

/-- every face side is a table edge (in one direction) -/
def sidesAreEdges (c : CellType) : Bool :=
  (allSides c).all fun (a, b) => (edgePairs c).contains (a, b) || (edgePairs c).contains (b, a)

def edgesDistinct (c : CellType) : Bool :=
  let es := (edgePairs c).map fun (a, b) => (min a b, max a b)
  es.all fun e => es.count e == 1

/-- corner (linear) node count: the nodes that appear in `e2n` -/
def cornerCount (c : CellType) : Nat :=
  ((edgePairs c).flatMap fun (a, b) => [a, b]).eraseDups.length

def shapesOk (c : CellType) : Bool :=
  c.e2n.length == c.edgePer && c.f2n.length == c.facePer &&
  c.e2n.all (fun e => e.length == 2 && e.all (· < c.nodePer)) &&
  c.f2n.all (fun f => f.length == 4 && f.all (· < c.nodePer))

/-- Euler characteristic of the boundary surface of a 3-D cell: V - E + F = 2 -/
def euler2 (c : CellType) : Bool := cornerCount c + c.facePer == c.edgePer + 2

def volumeTypes : List CellType := [tet, pyr, pri, hex, te2, py2, pr2, he2]
def surfaceTypes : List CellType := [tri, tr2, tr3, qua, qu2]

/-- the boundary of a 2-D face element: its edge cycle visits every corner once -/
def edgeCycle (c : CellType) : Bool :=
  let es := edgePairs c
  es.all (fun (a, b) => a != b && (es.filter fun (x, _) => x == b).length == 1 &&
                        (es.filter fun (_, y) => y == a).length == 1)

/-- concrete witnesses printed by `refdrv tables witness` when a table obligation fails -/
def witnesses (c : CellType) : List String :=
  let s := allSides c
  (if shapesOk c then [] else [s!"{c.name}: table shape inconsistent with edge_per/face_per/node_per"]) ++
  (s.filterMap fun (a, b) =>
    if s.count (a, b) == 1 && s.count (b, a) == 1 && a != b then none
    else some s!"{c.name}: directed face side ({a},{b}) occurs {s.count (a, b)}x, reversed {s.count (b, a)}x") ++
  ((edgePairs c).filterMap fun (a, b) =>
    let n := (c.f2n.filter fun f => (faceSides f).contains (a, b) || (faceSides f).contains (b, a)).length
    if n == 2 then none else some s!"{c.name}: edge ({a},{b}) lies in {n} faces") ++
  (if sidesAreEdges c then [] else [s!"{c.name}: some face side is not a table edge"]) ++
  (if euler2 c then [] else [s!"{c.name}: V-E+F != 2"])

end Refine.Model.CellTopo
