/-!
  `REF_STATUS` of `ref_defs.h` and `REF_EMPTY`, shared by the container models.
  Core-only.
-/
namespace Refine.Model

/-- `REF_STATUS` (ref_defs.h): the numeric codes 0..8 in this order -/
inductive Status where
  | ok | failure | null | invalid | div_zero | not_found | implement | increase_limit | ill_conditioned
  deriving DecidableEq, Repr, Inhabited

/-- the names printed by `h_status` in `harness/h_proto.h` -/
def Status.name : Status → String
  | .ok => "ok" | .failure => "failure" | .null => "null" | .invalid => "invalid"
  | .div_zero => "div_zero" | .not_found => "not_found" | .implement => "implement"
  | .increase_limit => "increase_limit" | .ill_conditioned => "ill_conditioned"

instance : ToString Status := ⟨Status.name⟩

/-- `REF_EMPTY` -/
def EMPTY : Int := -1

/-- `REF_INT_MAX` -/
def INT_MAX : Nat := 2147483647

end Refine.Model
