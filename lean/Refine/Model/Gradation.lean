import Refine.Model.Metric

/-!
  Gradation: the edge sweeps of `ref_metric.c` that limit how fast the vertex metric may change along an
  edge, and the relaxation loop of `ref_metric_gradation_at_complexity`, generic over `Scalar`
  (property C10).  Core-only imports.  Operation order is copied statement by statement from the C
  (as compiled by `gcc -O1 -ffp-contract=off`): the `Float` instance is bit-compared with the real
  functions by driver `gradation` / `harness/h_gradation.c`; the `ℝ` instance is what
  `Props/C10Gradation.lean` proves theorems about.

  `C name` → model:
  * `ref_edge_create` (`ref_edge_builder_uniq` + `ref_edge_uniq`) → `edgeList`: the cell edges in the
    order groups tet, pyr, pri, hex, tri, qua / cell index / local edge, an edge kept at its first
    occurrence in either orientation, with the orientation of that first occurrence
  * the body of `each_ref_edge` in `ref_metric_metric_space_gradation` → `msEdge`
    (`limitMS` = the enlarged metric of the other end, `msUpdate` = the two `ref_matrix_intersect`
    calls; a failing call takes the C's `continue`: the rest of the edge is skipped)
  * `ref_metric_metric_space_gradation` → `msSweep` over an arbitrary edge list,
    `metricSpaceGradation` with `edgeList` (`ref_node_ghost_dbl` is the identity on one rank)
  * `ref_metric_mixed_space_gradation` → `limitMixed`, `mixedUpdate`, `mixedEdge`, `mixedSweep`,
    `mixedSpaceGradation` (a failing `ref_matrix_diag_m` or second `ref_matrix_intersect` is the
    `RSB` / `RSS` return; a failing first intersect only skips that end)
  * one pass of the `relaxations` loop of `ref_metric_gradation_at_complexity` → `gacRelax`
    (rescale block = `Metric.setComplexity`, sweep, embedding block), the loop → `gacLoop 20`,
    the function → `gradationAtComplexity` (ends with the same rescale block = `setComplexity`)
  * the stages of `ref_metric_lp` after `ref_recon_hessian` → `lpChain`
-/
namespace Refine.Model.Gradation
open Refine Refine.Scalar Refine.Model.Matrix Refine.Model.Metric
open Refine.Model.Recon (Cell CellKind xyzAt)
open Refine.Model.Geom (V3)

variable {α : Type} [Scalar α]

/-! ### `ref_edge` order -/

/-- `ref_edge_with`: an edge with these two end nodes, in either orientation, is already stored -/
def edgeMem (es : List (Nat × Nat)) (a b : Nat) : Bool :=
  es.any (fun e => (e.1 == a && e.2 == b) || (e.1 == b && e.2 == a))

/-- `ref_edge_uniq` applied to a sequence of candidate edges: kept at first occurrence -/
def uniqEdges (raw : List (Nat × Nat)) : List (Nat × Nat) :=
  (raw.foldl (fun acc e => if edgeMem acc e.1 e.2 then acc else e :: acc) []).reverse

/-- candidate edges in the order `ref_edge_builder_uniq` visits them: 3-D groups (tet, pyr, pri, hex), then
    2-D groups (tri, qua); cells of a group in index order; local edges by the generated `e2n` table -/
def rawEdges (cells : List Cell) : List (Nat × Nat) :=
  let one (c : Cell) : List (Nat × Nat) :=
    (kindE2n c.kind).map (fun e => (c.nodes.getD (e.getD 0 0) 0, c.nodes.getD (e.getD 1 0) 0))
  (ofKind .tet cells ++ ofKind .pyr cells ++ ofKind .pri cells ++ ofKind .hex cells ++
   ofKind .tri cells ++ ofKind .qua cells).flatMap one

/-- `ref_edge_create`: `(ref_edge_e2n(0,edge), ref_edge_e2n(1,edge))` for `edge = 0 .. n-1` -/
def edgeList (cells : List Cell) : List (Nat × Nat) := uniqEdges (rawEdges cells)

/-- `direction[i] = xyz(i,node1) - xyz(i,node0)` -/
def direction (xyz : List (V3 α)) (node0 node1 : Nat) : Vec3 α :=
  let a := xyzAt xyz node0
  let b := xyzAt xyz node1
  ⟨b.x -. a.x, b.y -. a.y, b.z -. a.z⟩

/-! ### metric-space gradation (`ref_metric_metric_space_gradation`) -/

/-- `ratio = sqrt_vt_m_v(m, direction); enlarge = pow(1.0 + ratio * log_r, -2.0); limit_metric = m * enlarge` -/
def limitMS (logR : α) (m : M6 α) (dir : Vec3 α) : M6 α :=
  let ratio := sqrtVtMv m dir
  let enlarge := Scalar.pow (one +. ratio *. logR) (Scalar.ofInt (-2))
  scaleM m enlarge

/-- limit node `a` by the enlarged original metric of node `b`:
    `intersect(orig[a], limit, limited); intersect(metric[a], limited, metric[a])`;
    `none` = one of the two calls did not return `REF_SUCCESS` (the C prints and `continue`s) -/
def msUpdate (logR : α) (dir : Vec3 α) (orig metric : List (M6 α)) (a b : Nat) : Option (List (M6 α)) :=
  match intersect (mAt orig a) (limitMS logR (mAt orig b) dir) with
  | .error _ => none
  | .ok limited =>
    match intersect (mAt metric a) limited with
    | .error _ => none
    | .ok m => some (metric.set a m)

/-- body of the edge loop: node0 limited by node1, then node1 by node0; a failure skips the rest of the edge -/
def msEdge (xyz : List (V3 α)) (logR : α) (orig metric : List (M6 α)) (e : Nat × Nat) : List (M6 α) :=
  let dir := direction xyz e.1 e.2
  match msUpdate logR dir orig metric e.1 e.2 with
  | none => metric
  | some metric1 =>
    match msUpdate logR dir orig metric1 e.2 e.1 with
    | none => metric1
    | some metric2 => metric2

/-- one call of `ref_metric_metric_space_gradation` with the edges given: `metric_orig` is the field at
    entry, `log_r = log(r)` is taken once -/
def msSweep (xyz : List (V3 α)) (r : α) (edges : List (Nat × Nat)) (metric : List (M6 α)) : List (M6 α) :=
  edges.foldl (msEdge xyz (Scalar.log r) metric) metric

/-- `ref_metric_metric_space_gradation` on one rank (always `REF_SUCCESS`) -/
def metricSpaceGradation (xyz : List (V3 α)) (cells : List Cell) (metric : List (M6 α)) (r : α) : List (M6 α) :=
  msSweep xyz r (edgeList cells) metric

/-- `k` consecutive calls -/
def msSweeps (xyz : List (V3 α)) (r : α) (edges : List (Nat × Nat)) : Nat → List (M6 α) → List (M6 α)
  | 0, metric => metric
  | k + 1, metric => msSweeps xyz r edges k (msSweep xyz r edges metric)

/-! ### mixed-space gradation (`ref_metric_mixed_space_gradation`) -/

/-- `if (r < 1.0) r = 1.5;` -/
def mixedR (r : α) : α := if Scalar.lt r one then Scalar.ofDec 15 (-1) else r

/-- `if (t < 0.0 || 1.0 > t) t = 1.0 / 8.0;` (as coded: every `t < 1` is replaced) -/
def mixedT (t : α) : α := if Scalar.lt t zero || Scalar.lt t one then one /. Scalar.ofInt 8 else t

/-- eigenvalue factor: `metric_space = 1.0 + log_r * ratio; phys_space = 1.0 + sqrt(eig) * dist * log_r;
    enlarge = pow(pow(phys_space, t) * pow(metric_space, 1.0 - t), -2.0); eig *= enlarge` -/
def mixedEig (logR t dist ratio : α) (l : α) : α :=
  let metricSpace := one +. logR *. ratio
  let physSpace := one +. Scalar.sqrt l *. dist *. logR
  let enlarge := Scalar.pow (Scalar.pow physSpace t *. Scalar.pow metricSpace (one -. t)) (Scalar.ofInt (-2))
  l *. enlarge

/-- the limit metric of one end as seen from the other: decomposition, the three eigenvalues enlarged, `form_m` -/
def limitMixed (logR t dist : α) (m : M6 α) (dir : Vec3 α) : Except Err (M6 α) :=
  let ratio := sqrtVtMv m dir
  match diagM m with
  | .error e => .error e
  | .ok d => .ok (formM (mapEig (mixedEig logR t dist ratio) d))

/-- one end of an edge -/
def mixedUpdate (logR t dist : α) (dir : Vec3 α) (orig metric : List (M6 α)) (a b : Nat) :
    Except Err (List (M6 α)) :=
  match limitMixed logR t dist (mAt orig b) dir with
  | .error e => .error e
  | .ok lim =>
    match intersect (mAt orig a) lim with
    | .error _ => .ok metric
    | .ok limited =>
      match intersect (mAt metric a) limited with
      | .error e => .error e
      | .ok m => .ok (metric.set a m)

/-- body of the edge loop -/
def mixedEdge (xyz : List (V3 α)) (logR t : α) (orig : List (M6 α)) (metric : List (M6 α)) (e : Nat × Nat) :
    Except Err (List (M6 α)) :=
  let dir := direction xyz e.1 e.2
  let dist := Scalar.sqrt (dir.x *. dir.x +. dir.y *. dir.y +. dir.z *. dir.z)
  match mixedUpdate logR t dist dir orig metric e.1 e.2 with
  | .error err => .error err
  | .ok metric1 => mixedUpdate logR t dist dir orig metric1 e.2 e.1

/-- edge loop with the first error returned -/
def mixedFold (xyz : List (V3 α)) (logR t : α) (orig : List (M6 α)) :
    List (Nat × Nat) → List (M6 α) → Except Err (List (M6 α))
  | [], metric => .ok metric
  | e :: es, metric =>
    match mixedEdge xyz logR t orig metric e with
    | .error err => .error err
    | .ok metric1 => mixedFold xyz logR t orig es metric1

/-- one call of `ref_metric_mixed_space_gradation` with the edges given -/
def mixedSweep (xyz : List (V3 α)) (r t : α) (edges : List (Nat × Nat)) (metric : List (M6 α)) :
    Except Err (List (M6 α)) :=
  mixedFold xyz (Scalar.log (mixedR r)) (mixedT t) metric edges metric

/-- `ref_metric_mixed_space_gradation` on one rank -/
def mixedSpaceGradation (xyz : List (V3 α)) (cells : List Cell) (metric : List (M6 α)) (r t : α) :
    Except Err (List (M6 α)) :=
  mixedSweep xyz r t (edgeList cells) metric

def mixedSweeps (xyz : List (V3 α)) (r t : α) (edges : List (Nat × Nat)) :
    Nat → List (M6 α) → Except Err (List (M6 α))
  | 0, metric => .ok metric
  | k + 1, metric =>
    match mixedSweep xyz r t edges metric with
    | .error e => .error e
    | .ok metric1 => mixedSweeps xyz r t edges k metric1

/-! ### `ref_metric_gradation_at_complexity` -/

/-- `if (gradation < 1.0) mixed_space_gradation(metric, grid, -1.0, -1.0) else metric_space_gradation(metric, grid, gradation)` -/
def gacSweep (xyz : List (V3 α)) (edges : List (Nat × Nat)) (gradation : α) (metric : List (M6 α)) :
    Except Err (List (M6 α)) :=
  if Scalar.lt gradation one then mixedSweep xyz (Scalar.ofInt (-1)) (Scalar.ofInt (-1)) edges metric
  else .ok (msSweep xyz gradation edges metric)

/-- the embedding block after the sweep -/
def reEmbed (twod : Bool) (metric : List (M6 α)) : List (M6 α) :=
  if twod then metric.map embed2d else metric

/-- one pass of the relaxation loop: rescale to the target (the `setComplexity` block), sweep, embedding -/
def gacRelax (twod : Bool) (owned : Nat → Bool) (xyz : List (V3 α)) (cells : List Cell)
    (edges : List (Nat × Nat)) (gradation target : α) (metric : List (M6 α)) : Except Err (List (M6 α)) :=
  match setComplexity twod owned xyz metric cells target with
  | .error e => .error e
  | .ok scaled =>
    match gacSweep xyz edges gradation scaled with
    | .error e => .error e
    | .ok swept => .ok (reEmbed twod swept)

/-- `for (relaxations = 0; relaxations < n; relaxations++)` -/
def gacLoop (twod : Bool) (owned : Nat → Bool) (xyz : List (V3 α)) (cells : List Cell)
    (edges : List (Nat × Nat)) (gradation target : α) : Nat → List (M6 α) → Except Err (List (M6 α))
  | 0, metric => .ok metric
  | n + 1, metric =>
    match gacRelax twod owned xyz cells edges gradation target metric with
    | .error e => .error e
    | .ok metric1 => gacLoop twod owned xyz cells edges gradation target n metric1

/-- the function with the edge list and the number of relaxations as parameters: `n` relaxations, then the
    rescale block once more (the last statement group of the C) -/
def gradationAtComplexityWith (twod : Bool) (owned : Nat → Bool) (xyz : List (V3 α)) (cells : List Cell)
    (edges : List (Nat × Nat)) (n : Nat) (gradation target : α) (metric : List (M6 α)) :
    Except Err (List (M6 α)) :=
  match gacLoop twod owned xyz cells edges gradation target n metric with
  | .error e => .error e
  | .ok g => setComplexity twod owned xyz g cells target

/-- `ref_metric_gradation_at_complexity` on one rank: 20 relaxations over the `ref_edge` list -/
def gradationAtComplexity (twod : Bool) (owned : Nat → Bool) (xyz : List (V3 α)) (cells : List Cell)
    (gradation target : α) (metric : List (M6 α)) : Except Err (List (M6 α)) :=
  gradationAtComplexityWith twod owned xyz cells (edgeList cells) 20 gradation target metric

/-! ### the stages of `ref_metric_lp` after the Hessian reconstruction -/

/-- `ref_recon_roundoff_limit; ref_metric_local_scale(p_norm); ref_metric_limit_aspect_ratio; ref_metric_gradation_at_complexity` -/
def lpChain (twod : Bool) (owned : Nat → Bool) (xyz : List (V3 α)) (cells : List Cell) (p : Int)
    (gradation aspectRatio target : α) (hessian : List (M6 α)) : Except Err (List (M6 α)) :=
  match roundoffLimit xyz cells hessian with
  | .error e => .error e
  | .ok floored =>
    match limitAspectRatio twod aspectRatio (localScale twod p floored) with
    | .error e => .error e
    | .ok limited => gradationAtComplexity twod owned xyz cells gradation target limited

end Refine.Model.Gradation
