import Refine.Scalar
import Refine.Gen.CellTables
import Refine.Model.Geom

/-!
  L5 Mesh / `Cavity`: the cavity machine of `src/ref_cavity.c` and the global validity predicate of C01.

  * `Slots α`   — an array of rows with a LIFO free list: the storage discipline shared by the cavity's `f2n` / `s2n`
    (`REF_EMPTY` in entry 0 marks a blank row, entry 1 threads the blank chain, `blankface` is its head), by
    `ref_cell` (`c2n`, `blank`) and by `ref_node` (`global`, `blank`).  `rows[i] = none` is a blank row, `blank` is the
    chain starting at the head.  Growth happens only when the chain is empty: `chunk = MAX(chunkMin, (REF_INT)(1.5*orig))`.
  * `Cav`       — `REF_CAVITY_STRUCT`: state, node, surf_node, faces, segs, tet_list, tri_list, split/collapse nodes.
  * `insertFace`, `findFace`, `insertSeg`, `addTet`, `addTri`, `verifyFaceManifold`, `verifySegManifold`,
    `checkVisible`, `formEdgeSplit`, `formEdgeCollapse`, `replace` copy the C functions of the same names
    statement by statement, including the partial state left behind by an error return.
  * `Valid3` / `Valid2` — the executable statement of C01 on a mesh given as coordinates + cell lists.

  Node ids are `Int` (`REF_INT`); the harness never passes negative ids to `insert_face` / `insert_seg` (in the C a
  negative first entry would make the row look blank without being on the blank chain).
  Core-only.  Theorems: `Refine/Props/C01.lean`.
-/
namespace Refine.Model.Cavity
open Refine Refine.Model.Geom

/-! ### status / state enums -/

inductive St | ok | failure | null | invalid | div_zero | not_found | implement | increase_limit | ill_conditioned
  deriving DecidableEq, Repr, Inhabited

def St.name : St → String
  | .ok => "ok" | .failure => "failure" | .null => "null" | .invalid => "invalid" | .div_zero => "div_zero"
  | .not_found => "not_found" | .implement => "implement" | .increase_limit => "increase_limit"
  | .ill_conditioned => "ill_conditioned"

/-- `REF_CAVITY_STATE` -/
inductive CState | unknown | visible | boundary_constrained | partition_constrained | manifold_constrained
  | inconsistent | noop
  deriving DecidableEq, Repr, Inhabited

def CState.code : CState → Nat
  | .unknown => 0 | .visible => 1 | .boundary_constrained => 2 | .partition_constrained => 3
  | .manifold_constrained => 4 | .inconsistent => 5 | .noop => 6

def CState.ofCode : Nat → Option CState
  | 0 => some .unknown | 1 => some .visible | 2 => some .boundary_constrained | 3 => some .partition_constrained
  | 4 => some .manifold_constrained | 5 => some .inconsistent | 6 => some .noop | _ => none

/-! ### rows with a LIFO blank chain -/

structure Slots (α : Type) where
  rows : List (Option α)
  blank : List Nat
  deriving Repr, DecidableEq

namespace Slots
variable {α : Type}

def create (n : Nat) : Slots α := ⟨List.replicate n none, List.range n⟩

def max (s : Slots α) : Nat := s.rows.length

/-- the live rows in slot order (`each_ref_cavity_valid_face`) -/
def valid (s : Slots α) : List α := s.rows.reduceOption

/-- live rows with their slot index -/
def validIdx (s : Slots α) : List (Nat × α) :=
  s.rows.zipIdx.filterMap fun p => p.1.map fun x => (p.2, x)

def get? (s : Slots α) (i : Int) : Option α :=
  if i < 0 then none else (s.rows.getD i.toNat none)

def n (s : Slots α) : Nat := s.valid.length

/-- the `if (REF_EMPTY == blank)` growth block -/
def grow (chunkMin : Nat) (s : Slots α) : Slots α :=
  match s.blank with
  | [] =>
    let orig := s.rows.length
    let chunk := Nat.max chunkMin (orig + orig / 2)
    ⟨s.rows ++ List.replicate chunk none, (List.range chunk).map (orig + ·)⟩
  | _ :: _ => s

/-- pop the head of the blank chain and store `x` there; returns the slot -/
def add (chunkMin : Nat) (s : Slots α) (x : α) : Slots α × Nat :=
  let s := s.grow chunkMin
  match s.blank with
  | i :: rest => (⟨s.rows.set i (some x), rest⟩, i)
  | [] => (s, 0)

/-- blank row `i` and push it on the chain -/
def remove (s : Slots α) (i : Nat) : Slots α := ⟨s.rows.set i none, i :: s.blank⟩

end Slots

/-! ### faces and segments -/

structure Face where
  n0 : Int
  n1 : Int
  n2 : Int
  deriving DecidableEq, Repr, Inhabited

structure Seg where
  n0 : Int
  n1 : Int
  id : Int
  deriving DecidableEq, Repr, Inhabited

/-- first disjunction of `ref_cavity_find_face`: `nodes` is a rotation of the stored face `g` -/
def Face.sameAs (f g : Face) : Bool :=
  (f.n0 == g.n0 && f.n1 == g.n1 && f.n2 == g.n2) ||
  (f.n1 == g.n0 && f.n2 == g.n1 && f.n0 == g.n2) ||
  (f.n2 == g.n0 && f.n0 == g.n1 && f.n1 == g.n2)

/-- second disjunction of `ref_cavity_find_face`: `nodes` is a rotation of the reversed stored face `g` -/
def Face.revOf (f g : Face) : Bool :=
  (f.n2 == g.n0 && f.n1 == g.n1 && f.n0 == g.n2) ||
  (f.n1 == g.n0 && f.n0 == g.n1 && f.n2 == g.n2) ||
  (f.n0 == g.n0 && f.n2 == g.n1 && f.n1 == g.n2)

/-- `ref_cavity_find_face` over the rows starting at slot `i`: `some (slot, reversed)` or `none` (= `REF_NOT_FOUND`) -/
def findFaceAux (f : Face) : List (Option Face) → Nat → Option (Nat × Bool)
  | [], _ => none
  | none :: t, i => findFaceAux f t (i + 1)
  | some g :: t, i =>
    if f.sameAs g then some (i, false)
    else if f.revOf g then some (i, true)
    else findFaceAux f t (i + 1)

def findFace (s : Slots Face) (f : Face) : Option (Nat × Bool) := findFaceAux f s.rows 0

/-- the condition of `ref_cavity_find_face_with_side`: the stored face has the directed side `(a,b)` -/
def Face.hasSide (g : Face) (a b : Int) : Bool :=
  (a == g.n0 && b == g.n1) || (a == g.n1 && b == g.n2) || (a == g.n2 && b == g.n0)

def Face.has (g : Face) (v : Int) : Bool := v == g.n0 || v == g.n1 || v == g.n2

/-- `ref_cavity_find_seg` -/
def findSegAux (a b : Int) : List (Option Seg) → Nat → Option (Nat × Bool)
  | [], _ => none
  | none :: t, i => findSegAux a b t (i + 1)
  | some g :: t, i =>
    if a == g.n0 && b == g.n1 then some (i, false)
    else if b == g.n0 && a == g.n1 then some (i, true)
    else findSegAux a b t (i + 1)

/-! ### the cavity -/

structure Cav where
  state : CState
  node : Int
  surfNode : Int
  faces : Slots Face
  segs : Slots Seg
  tetList : List Int
  triList : List Int
  split0 : Int
  split1 : Int
  collapse0 : Int
  collapse1 : Int
  deriving Repr, DecidableEq

/-- `ref_cavity_create` -/
def Cav.create : Cav :=
  { state := .unknown, node := -1, surfNode := -1, faces := Slots.create 10, segs := Slots.create 10,
    tetList := [], triList := [], split0 := -1, split1 := -1, collapse0 := -1, collapse1 := -1 }

/-- `ref_cavity_seg_node` -/
def Cav.segNode (c : Cav) : Int := if c.surfNode ≠ -1 then c.surfNode else c.node

def Cav.validFaces (c : Cav) : List Face := c.faces.valid
def Cav.validSegs (c : Cav) : List Seg := c.segs.valid

/-- `ref_cavity_insert_face` -/
def insertFace (c : Cav) (f : Face) : St × Cav :=
  match findFace c.faces f with
  | some (i, true) => (.ok, { c with faces := c.faces.remove i })
  | some (_, false) => (.invalid, c)
  | none => (.ok, { c with faces := (c.faces.add 100 f).1 })

/-! ### manifold verification -/

/-- number of live faces with the directed side `(a,b)` -/
def sideCount (fs : List Face) (a b : Int) : Nat := (fs.filter fun g => g.hasSide a b).length

inductive Verdict | pass | inconsistent | missing
  deriving DecidableEq, Repr

/-- one `ref_cavity_find_face_with_side` + the two tests after it -/
def sideVerdict (fs : List Face) (a b : Int) : Verdict :=
  let k := sideCount fs a b
  if k ≥ 2 then .inconsistent else if k = 0 then .missing else .pass

/-- the loop of `ref_cavity_verify_face_manifold` over the faces `todo` (all live faces `fs`) -/
def verifyFacesLoop (fs : List Face) : List Face → Verdict
  | [] => .pass
  | g :: t =>
    match sideVerdict fs g.n1 g.n0 with
    | .pass =>
      match sideVerdict fs g.n2 g.n1 with
      | .pass =>
        match sideVerdict fs g.n0 g.n2 with
        | .pass => verifyFacesLoop fs t
        | v => v
      | v => v
    | v => v

/-- `ref_cavity_verify_face_manifold` -/
def verifyFaceManifold (c : Cav) : St × Cav :=
  if c.state = .inconsistent then (.ok, c) else
  match verifyFacesLoop c.validFaces c.validFaces with
  | .pass => (.ok, c)
  | .inconsistent => (.ok, { c with state := .inconsistent })
  | .missing => (.failure, c)

/-- inner loop of `ref_cavity_verify_seg_manifold`: live segs starting at the end node of `s0` -/
def segNextCount (ss : List Seg) (s0 : Seg) : Nat := (ss.filter fun s1 => s0.n1 == s1.n0).length

def verifySegsLoop (ss : List Seg) : List Seg → Verdict
  | [] => .pass
  | s0 :: t =>
    let k := segNextCount ss s0
    if k ≥ 2 then .inconsistent else if k = 0 then .missing else verifySegsLoop ss t

/-- `ref_cavity_verify_seg_manifold` -/
def verifySegManifold (c : Cav) : St × Cav :=
  if c.state = .inconsistent then (.ok, c) else
  match verifySegsLoop c.validSegs c.validSegs with
  | .pass => (.ok, c)
  | .inconsistent => (.ok, { c with state := .inconsistent })
  | .missing => (.failure, c)

/-! ### the cells `ref_cavity_replace` creates -/

structure Tet where
  n0 : Int
  n1 : Int
  n2 : Int
  n3 : Int
  deriving DecidableEq, Repr, Inhabited

structure Tri where
  n0 : Int
  n1 : Int
  n2 : Int
  id : Int
  deriving DecidableEq, Repr, Inhabited

structure Edg where
  n0 : Int
  n1 : Int
  id : Int
  deriving DecidableEq, Repr, Inhabited

def Tet.nodes (t : Tet) : List Int := [t.n0, t.n1, t.n2, t.n3]
def Tri.nodes (t : Tri) : List Int := [t.n0, t.n1, t.n2]
def Edg.nodes (t : Edg) : List Int := [t.n0, t.n1]

/-- face `k` of a tet through the regenerated `ref_cell_f2n` table -/
def tetFaceOf (row : List Nat) (t : Tet) : Face :=
  let nd := fun k => t.nodes.getD k (-1)
  ⟨nd (row.getD 0 0), nd (row.getD 1 0), nd (row.getD 2 0)⟩

/-- the four faces of a tet in `each_ref_cell_cell_face` order (table `Gen.CellTables.tet.f2n`) -/
def tetFaces (t : Tet) : List Face := Refine.Gen.CellTables.tet.f2n.map fun row => tetFaceOf row t

/-- the three sides of a tri in `each_ref_cell_cell_edge` order (table `Gen.CellTables.tri.e2n`) -/
def triSegs (t : Tri) : List Seg :=
  Refine.Gen.CellTables.tri.e2n.map fun row =>
    ⟨t.nodes.getD (row.getD 0 0) (-1), t.nodes.getD (row.getD 1 0) (-1), t.id⟩

/-- the new tet of a live face (`nodes[0..2] = face, nodes[3] = node`); attached faces are skipped -/
def newTetOf (node : Int) (f : Face) : Option Tet :=
  if f.has node then none else some ⟨f.n0, f.n1, f.n2, node⟩

def newTets (c : Cav) : List Tet := c.validFaces.filterMap (newTetOf c.node)

def newTriOf (node : Int) (s : Seg) : Option Tri :=
  if node == s.n0 || node == s.n1 then none else some ⟨s.n0, s.n1, node, s.id⟩

def newTris (c : Cav) : List Tri := c.validSegs.filterMap (newTriOf c.segNode)

/-! ### the grid the cavity works on -/

structure NodeRec (α : Type) where
  xyz : V3 α
  owned : Bool

/-- a `ref_cell`: rows + blank chain + registration order (most recent first; the order in which
    `each_ref_cell_having_node` meets the cells, since `ref_adj_add` pushes at the front of a node's chain) -/
structure Cells (β : Type) where
  slots : Slots β
  order : List Nat

namespace Cells
variable {β : Type}
def create : Cells β := ⟨Slots.create 100, []⟩
def get? (s : Cells β) (cell : Int) : Option β := s.slots.get? cell
/-- `ref_cell_add` -/
def add (s : Cells β) (x : β) : Cells β × Nat :=
  let r := s.slots.add 5000 x
  (⟨r.1, r.2 :: s.order⟩, r.2)
/-- `ref_cell_remove` of a valid cell -/
def remove (s : Cells β) (cell : Nat) : Cells β := ⟨s.slots.remove cell, s.order.erase cell⟩
/-- `each_ref_cell_having_node(ref_cell,node,item,cell)` -/
def having (s : Cells β) (nodes : β → List Int) (v : Int) : List (Nat × β) :=
  s.order.filterMap fun c => match s.slots.rows.getD c none with
    | some x => if (nodes x).contains v then some (c, x) else none
    | none => none
/-- `each_ref_cell_having_node2` -/
def having2 (s : Cells β) (nodes : β → List Int) (v w : Int) : List (Nat × β) :=
  (s.having nodes v).filter fun p => (nodes p.2).contains w
def nodeEmpty (s : Cells β) (nodes : β → List Int) (v : Int) : Bool := (s.having nodes v).isEmpty
def valid (s : Cells β) : List β := s.slots.valid
end Cells

structure Grid (α : Type) where
  nodes : Slots (NodeRec α)
  tets : Cells Tet
  tris : Cells Tri
  edgs : Cells Edg
  twod : Bool

namespace Grid
variable {α : Type}

def create : Grid α := ⟨Slots.create 20, Cells.create, Cells.create, Cells.create, false⟩

/-- `ref_node_valid` -/
def nodeValid (g : Grid α) (v : Int) : Bool := (g.nodes.get? v).isSome
/-- `ref_node_owned` (reads `part[]`; only called on valid nodes by the modelled paths) -/
def nodeOwned (g : Grid α) (v : Int) : Bool := match g.nodes.get? v with | some r => r.owned | none => false
def addNode (g : Grid α) (r : NodeRec α) : Grid α × Nat :=
  let a := g.nodes.add 5000 r
  ({ g with nodes := a.1 }, a.2)
/-- `ref_node_remove` of a valid node -/
def removeNode (g : Grid α) (v : Nat) : Grid α := { g with nodes := g.nodes.remove v }

end Grid

/-! ### segments (need the grid once tets are involved) -/

variable {α : Type}

/-- `ref_cavity_remove_seg_face` -/
def removeSegFace (c : Cav) (s : Seg) : St × Cav :=
  if c.tetList.isEmpty then (.ok, c) else
  if c.state ≠ .unknown then (.ok, c) else
  match findFace c.faces ⟨s.n0, s.n1, c.segNode⟩ with
  | none => (.not_found, c)
  | some (_, false) => (.failure, c)
  | some (i, true) => (.ok, { c with faces := c.faces.remove i })

/-- `ref_cavity_add_seg_face` -/
def addSegFace (c : Cav) (s : Seg) : St × Cav :=
  if c.tetList.isEmpty then (.ok, c) else
  if c.state ≠ .unknown then (.ok, c) else
  if s.n0 == c.segNode || s.n1 == c.segNode then (.ok, c) else
  insertFace c ⟨s.n0, s.n1, c.segNode⟩

/-- inner face loop of `ref_cavity_remove_seg_add_tets` for one tet -/
def rmSegTetFaces (g : Grid α) (skip : List Nat) : Cav → List Face → St × Cav
  | c, [] => (.ok, c)
  | c, f :: t =>
    -- `ref_cell_with(tri, face_nodes)`: first tri around `face_nodes[0]` with the same node set
    let hit := (g.tris.having Tri.nodes f.n0).find? fun p =>
      p.2.nodes.all (fun v => f.has v) && [f.n0, f.n1, f.n2].all (fun v => p.2.nodes.contains v)
    match hit with
    | some p => if skip.contains p.1 then rmSegTetFaces g skip c t else
        match insertFace c f with
        | (.ok, c) => rmSegTetFaces g skip c t
        | r => r
    | none =>
      match insertFace c f with
      | (.ok, c) => rmSegTetFaces g skip c t
      | r => r

def rmSegTets (g : Grid α) (skip : List Nat) : Cav → List (Nat × Tet) → St × Cav
  | c, [] => (.ok, c)
  | c, (cell, tet) :: rest =>
    if c.tetList.contains (cell : Int) then rmSegTets g skip c rest else
    let c := { c with tetList := c.tetList ++ [(cell : Int)] }
    if !(tet.nodes.all g.nodeOwned) then (.ok, { c with state := .partition_constrained }) else
    match rmSegTetFaces g skip c (tetFaces tet) with
    | (.ok, c) => rmSegTets g skip c rest
    | r => r

/-- `ref_cavity_remove_seg_add_tets` (`seg_rm_adds_tet` is never set by the library) -/
def removeSegAddTets (g : Grid α) (c : Cav) (s : Seg) : St × Cav :=
  if c.tetList.isEmpty then (.ok, c) else
  if c.state ≠ .unknown then (.ok, c) else
  let tl := g.tris.having2 Tri.nodes s.n0 s.n1
  if tl.length > 2 then (.increase_limit, c) else
  if tl.length ≠ 2 then (.failure, c) else
  rmSegTets g (tl.map (·.1)) c (g.tets.having2 Tet.nodes s.n0 s.n1)

/-- `ref_cavity_insert_seg` -/
def insertSeg (g : Grid α) (c : Cav) (s : Seg) : St × Cav :=
  match findSegAux s.n0 s.n1 c.segs.rows 0 with
  | some (i, true) =>
    match c.segs.rows.getD i none with
    | some old =>
      if s.id ≠ old.id then (.ok, { c with state := .boundary_constrained }) else
      let c := { c with segs := c.segs.remove i }
      match removeSegFace c s with
      | (.ok, c) => removeSegAddTets g c s
      | r => r
    | none => (.failure, c)
  | some (_, false) => (.invalid, c)
  | none =>
    let c := { c with segs := (c.segs.add 100 s).1 }
    addSegFace c s

/-! ### add_tet / add_tri -/

/-- the face loop of `ref_cavity_add_tet` -/
def addTetFaces (g : Grid α) : Cav → List Face → St × Cav
  | c, [] => (.ok, c)
  | c, f :: t =>
    if !([f.n0, f.n1, f.n2].all g.nodeOwned) then (.ok, { c with state := .partition_constrained }) else
    match insertFace c f with
    | (.ok, c) => if c.state ≠ .unknown then (.ok, c) else addTetFaces g c t
    | r => r

/-- `ref_cavity_add_tet` -/
def addTet (g : Grid α) (c : Cav) (cell : Int) : St × Cav :=
  match g.tets.get? cell with
  | none => (.failure, c)
  | some tet =>
    if c.tetList.contains cell then (.ok, c) else
    addTetFaces g { c with tetList := c.tetList ++ [cell] } (tetFaces tet)

def addTriSegs (g : Grid α) : Cav → List Seg → St × Cav
  | c, [] => (.ok, c)
  | c, s :: t =>
    match insertSeg g c s with
    | (.ok, c) => if c.state ≠ .unknown then (.ok, c) else addTriSegs g c t
    | r => r

/-- `ref_cavity_add_tri` -/
def addTri (g : Grid α) (c : Cav) (cell : Int) : St × Cav :=
  match g.tris.get? cell with
  | none => (.failure, c)
  | some tri =>
    if c.triList.contains cell then (.ok, c) else
    if !(tri.nodes.all g.nodeOwned) then (.ok, { c with state := .partition_constrained }) else
    addTriSegs g { c with triList := c.triList ++ [cell] } (triSegs tri)

/-- add a list of tets, stopping at the first status that is not `ok` -/
def addTets (g : Grid α) : Cav → List Int → St × Cav
  | c, [] => (.ok, c)
  | c, t :: rest =>
    match addTet g c t with
    | (.ok, c) => addTets g c rest
    | r => r

/-- add a list of tris the way the C's enlarge loops do: stop at the first status that is not `ok` and as soon as
    the state is no longer `unknown` -/
def addTris (g : Grid α) : Cav → List Int → St × Cav
  | c, [] => (.ok, c)
  | c, t :: rest =>
    match addTri g c t with
    | (.ok, c) => if c.state ≠ .unknown then (.ok, c) else addTris g c rest
    | r => r

/-! ### visibility -/

section vis
variable [Scalar α]

def minVolume : α := Scalar.ofDec 1 (-15)

/-- `ref_node_tet_vol` on node ids: `none` = `REF_INVALID` -/
def tetVolAt (g : Grid α) (a b c d : Int) : Option α :=
  match g.nodes.get? a, g.nodes.get? b, g.nodes.get? c, g.nodes.get? d with
  | some a, some b, some c, some d => some (tetVol a.xyz b.xyz c.xyz d.xyz)
  | _, _, _, _ => none

def checkVisibleLoop (g : Grid α) (node : Int) : List Face → Option Bool
  | [] => some true
  | f :: t =>
    if f.has node then checkVisibleLoop g node t else
    match tetVolAt g f.n0 f.n1 f.n2 node with
    | none => none
    | some v => if v <=. minVolume then some false else checkVisibleLoop g node t

/-- `ref_cavity_check_visible` -/
def checkVisible (g : Grid α) (c : Cav) : St × Cav :=
  if !(g.nodeOwned c.node) then (.failure, c) else
  if c.state ≠ .unknown then (.ok, c) else
  match checkVisibleLoop g c.node c.validFaces with
  | none => (.invalid, c)
  | some true => (.ok, { c with state := .visible })
  | some false => (.ok, { c with state := .boundary_constrained })

end vis

/-! ### form_edge_split / form_edge_collapse -/

def insertFaces : Cav → List Face → St × Cav
  | c, [] => (.ok, c)
  | c, f :: t =>
    match insertFace c f with
    | (.ok, c) => insertFaces c t
    | r => r

def insertSegs (g : Grid α) : Cav → List Seg → St × Cav
  | c, [] => (.ok, c)
  | c, s :: t =>
    match insertSeg g c s with
    | (.ok, c) => insertSegs g c t
    | r => r

/-- tet loop of `form_edge_split`; the `Bool` is "the C function returned early" -/
def formSplitTets (g : Grid α) (n0 n1 : Int) : Cav → List (Nat × Tet) → St × Cav × Bool
  | c, [] => (.ok, c, false)
  | c, (cell, tet) :: rest =>
    if c.tetList.contains (cell : Int) then (.failure, c, true) else
    let c := { c with tetList := c.tetList ++ [(cell : Int)] }
    if !(tet.nodes.all g.nodeOwned) then (.ok, { c with state := .partition_constrained }, true) else
    match insertFaces c ((tetFaces tet).filter fun f => !(f.has n0 && f.has n1)) with
    | (.ok, c) => formSplitTets g n0 n1 c rest
    | (s, c) => (s, c, true)

def sameEdge (a b x y : Int) : Bool := min a b == min x y && max a b == max x y

def formSplitTris (g : Grid α) (n0 n1 : Int) : Cav → List (Nat × Tri) → St × Cav × Bool
  | c, [] => (.ok, c, false)
  | c, (cell, tri) :: rest =>
    let c := { c with triList := c.triList ++ [(cell : Int)] }
    if !(tri.nodes.all g.nodeOwned) then (.ok, { c with state := .partition_constrained }, true) else
    match insertSegs g c ((triSegs tri).filter fun s => !(sameEdge n0 n1 s.n0 s.n1)) with
    | (.ok, c) => formSplitTris g n0 n1 c rest
    | (s, c) => (s, c, true)

/-- `RSS(verify_face_manifold); RSS(verify_seg_manifold)` -/
def verifyBoth (c : Cav) : St × Cav :=
  match verifyFaceManifold c with
  | (.ok, c) => verifySegManifold c
  | r => r

/-- `ref_cavity_form_edge_split` on a freshly created cavity (tet/tri grids: the pyramid/prism guard is not modelled) -/
def formEdgeSplit (g : Grid α) (c : Cav) (n0 n1 newNode : Int) : St × Cav :=
  let c := { c with node := newNode }
  if !(g.nodeOwned n0) || !(g.nodeOwned n1) || !(g.nodeOwned newNode) then
    (.ok, { c with state := .partition_constrained }) else
  let c := { c with split0 := n0, split1 := n1 }
  match formSplitTets g n0 n1 c (g.tets.having2 Tet.nodes n0 n1) with
  | (s, c, true) => (s, c)
  | (_, c, false) =>
    let tl := g.tris.having2 Tri.nodes n0 n1
    if tl.isEmpty then verifyBoth c else
    match formSplitTris g n0 n1 c tl with
    | (s, c, true) => (s, c)
    | (_, c, false) =>
      if !(c.triList.length == 1 || c.triList.length == 2) then (.failure, c) else
      if c.triList.length == 1 then
        let extra := tl.flatMap fun p => (triSegs p.2).flatMap fun s =>
          if sameEdge n0 n1 s.n0 s.n1 then [(⟨s.n0, newNode, p.2.id⟩ : Seg), ⟨newNode, s.n1, p.2.id⟩] else []
        match insertSegs g c extra with
        | (.ok, c) => verifyBoth c
        | r => r
      else verifyBoth c

/-- the tet loops of `ref_cavity_form_edge_collapse` (`keep` = the node whose faces are not inserted) -/
def formCollapseTets (g : Grid α) (n0 n1 keep : Int) : Cav → List (Nat × Tet) → St × Cav × Bool
  | c, [] => (.ok, c, false)
  | c, (cell, tet) :: rest =>
    if c.tetList.contains (cell : Int) then formCollapseTets g n0 n1 keep c rest else
    let c := { c with tetList := c.tetList ++ [(cell : Int)] }
    if !(tet.nodes.all g.nodeOwned) then (.ok, { c with state := .partition_constrained }, true) else
    if tet.nodes.contains n0 && tet.nodes.contains n1 then formCollapseTets g n0 n1 keep c rest else
    match insertFaces c ((tetFaces tet).filter fun f => !(f.has keep)) with
    | (.ok, c) => formCollapseTets g n0 n1 keep c rest
    | (s, c) => (s, c, true)

def formCollapseTris (g : Grid α) (n0 n1 keep : Int) : Cav → List (Nat × Tri) → St × Cav × Bool
  | c, [] => (.ok, c, false)
  | c, (cell, tri) :: rest =>
    if c.triList.contains (cell : Int) then formCollapseTris g n0 n1 keep c rest else
    let c := { c with triList := c.triList ++ [(cell : Int)] }
    if !(tri.nodes.all g.nodeOwned) then (.ok, { c with state := .partition_constrained }, true) else
    if tri.nodes.contains n0 && tri.nodes.contains n1 then formCollapseTris g n0 n1 keep c rest else
    -- sides 01, 12, 20 that do not touch `keep`
    let segs := ([(tri.n0, tri.n1), (tri.n1, tri.n2), (tri.n2, tri.n0)].filter
      fun p => keep != p.1 && keep != p.2).map fun p => (⟨p.1, p.2, tri.id⟩ : Seg)
    match insertSegs g c segs with
    | (.ok, c) => formCollapseTris g n0 n1 keep c rest
    | (s, c) => (s, c, true)

/-- `ref_cavity_form_edge_collapse` on a freshly created cavity -/
def formEdgeCollapse (g : Grid α) (c : Cav) (n0 n1 : Int) : St × Cav :=
  let c := { c with node := n0 }
  if !(g.nodeOwned n0) || !(g.nodeOwned n1) then (.ok, { c with state := .partition_constrained }) else
  let c := { c with collapse0 := n0, collapse1 := n1 }
  match formCollapseTets g n0 n1 n0 c (g.tets.having Tet.nodes n0) with
  | (s, c, true) => (s, c)
  | (_, c, false) =>
    match formCollapseTets g n0 n1 n1 c (g.tets.having Tet.nodes n1) with
    | (s, c, true) => (s, c)
    | (_, c, false) =>
      match formCollapseTris g n0 n1 n0 c (g.tris.having Tri.nodes n0) with
      | (s, c, true) => (s, c)
      | (_, c, false) =>
        match formCollapseTris g n0 n1 n1 c (g.tris.having Tri.nodes n1) with
        | (s, c, true) => (s, c)
        | (_, c, false) => verifyBoth c

/-! ### replace -/

/-- `RAS(valid) ; RAS(owned)` for every node of a new / removed cell -/
def nodesOk (g : Grid α) (vs : List Int) : Bool := vs.all fun v => g.nodeValid v && g.nodeOwned v

def addNewTets (g : Grid α) : List Tet → St × Grid α
  | [] => (.ok, g)
  | t :: rest =>
    if !(nodesOk g t.nodes) then (.failure, g) else
    addNewTets { g with tets := (g.tets.add t).1 } rest

def addNewTris (g : Grid α) : List Tri → St × Grid α
  | [] => (.ok, g)
  | t :: rest =>
    if !(nodesOk g t.nodes) then (.failure, g) else
    addNewTris { g with tris := (g.tris.add t).1 } rest

/-- remove the listed tets, pushing their nodes on the removed-node list -/
def rmTets (g : Grid α) (acc : List Int) : List Int → St × Grid α × List Int
  | [] => (.ok, g, acc)
  | cell :: rest =>
    match g.tets.get? cell with
    | none => (.invalid, g, acc)
    | some t =>
      -- nodes are pushed one by one; the first bad node stops the loop
      let good := t.nodes.takeWhile fun v => g.nodeValid v && g.nodeOwned v
      if good.length < 4 then (.failure, g, acc ++ t.nodes.take (good.length + 1)) else
      rmTets { g with tets := g.tets.remove cell.toNat } (acc ++ t.nodes) rest

def rmTris (g : Grid α) (acc : List Int) : List Int → St × Grid α × List Int
  | [] => (.ok, g, acc)
  | cell :: rest =>
    match g.tris.get? cell with
    | none => (.invalid, g, acc)
    | some t =>
      let good := t.nodes.takeWhile fun v => g.nodeValid v && g.nodeOwned v
      if good.length < 3 then (.failure, g, acc ++ t.nodes.take (good.length + 1)) else
      rmTris { g with tris := g.tris.remove cell.toNat } (acc ++ t.nodes) rest

/-- remove nodes that lost all their tris and tets -/
def rmNodes (g : Grid α) : List Int → Grid α
  | [] => g
  | v :: rest =>
    if g.nodeValid v && g.tris.nodeEmpty Tri.nodes v && g.tets.nodeEmpty Tet.nodes v
    then rmNodes (g.removeNode v.toNat) rest else rmNodes g rest

/-- `ref_cell_with(edg, {a,b})`: first edg around `a` whose node set is `{a,b}` -/
def edgWith (g : Grid α) (a b : Int) : Option (Nat × Edg) :=
  (g.edgs.having Edg.nodes a).find? fun p =>
    p.2.nodes.all (fun v => v == a || v == b) && p.2.nodes.contains a && p.2.nodes.contains b

/-- `ref_cell_replace_node(edg, old, new)` -/
def edgReplaceNode (g : Grid α) (old new : Int) : Grid α :=
  if old = new then g else
  let sub := fun v => if v = old then new else v
  { g with edgs := { g.edgs with slots := { g.edgs.slots with
      rows := g.edgs.slots.rows.map fun r => r.map fun e => (⟨sub e.n0, sub e.n1, e.id⟩ : Edg) } } }

/-- the split / collapse `edg` bookkeeping at the end of `ref_cavity_replace` -/
def replaceEdgs (g : Grid α) (c : Cav) : Grid α :=
  let g :=
    if c.split0 ≠ -1 ∧ c.split1 ≠ -1 then
      match edgWith g c.split0 c.split1 with
      | some (cell, e) =>
        let g := { g with edgs := g.edgs.remove cell }
        let g := { g with edgs := (g.edgs.add ⟨c.split0, c.segNode, e.id⟩).1 }
        { g with edgs := (g.edgs.add ⟨c.segNode, c.split1, e.id⟩).1 }
      | none => g
    else g
  if c.collapse0 ≠ -1 ∧ c.collapse1 ≠ -1 then
    match edgWith g c.collapse0 c.collapse1 with
    | some (cell, _) => edgReplaceNode { g with edgs := g.edgs.remove cell } c.collapse1 c.collapse0
    | none => g
  else g

/-- `ref_cavity_replace` -/
def replace (g : Grid α) (c : Cav) : St × Cav × Grid α :=
  if c.state ≠ .visible then (.failure, c, g) else
  match verifyFaceManifold c with
  | (.ok, c) =>
    match verifySegManifold c with
    | (.ok, c) =>
      if c.state ≠ .visible then (.failure, c, g) else
      if c.segs.n = 0 ∧ c.faces.n = 0 ∧ c.triList.isEmpty ∧ c.tetList.isEmpty then (.failure, c, g) else
      match addNewTets g (newTets c) with
      | (.ok, g) =>
        match addNewTris g (newTris c) with
        | (.ok, g) =>
          match rmTets g [] c.tetList with
          | (.ok, g, acc) =>
            match rmTris g acc c.triList with
            | (.ok, g, acc) =>
              let g := rmNodes g acc
              let g := replaceEdgs g c
              -- self check: every tet around the cavity node has valid nodes
              if !((g.tets.having Tet.nodes c.node).all fun p => p.2.nodes.all g.nodeValid) then (.failure, c, g) else
              -- every surviving node of a removed cell still has an element
              let ok := acc.all fun v => !(g.nodeValid v) ||
                (if g.twod then !(g.tris.nodeEmpty Tri.nodes v) else !(g.tets.nodeEmpty Tet.nodes v))
              if ok then (.ok, c, g) else (.failure, c, g)
            | (s, g, _) => (s, c, g)
          | (s, g, _) => (s, c, g)
        | (s, g) => (s, c, g)
      | (s, g) => (s, c, g)
    | (s, c) => (s, c, g)
  | (s, c) => (s, c, g)

/-! ### the global validity predicate (statement of C01) -/

section valid
variable [Scalar α]

structure Mesh3 (α : Type) where
  xyz : List (V3 α)
  tets : List Tet
  tris : List Tri

structure Mesh2 (α : Type) where
  xyz : List (V3 α)
  tris : List Tri
  edgs : List Edg

/-- ascending node triple of a face: the unordered face -/
def sort3 (a b c : Int) : Int × Int × Int :=
  let (a, b) := if a ≤ b then (a, b) else (b, a)
  let (b, c) := if b ≤ c then (b, c) else (c, b)
  let (a, b) := if a ≤ b then (a, b) else (b, a)
  (a, b, c)

def Face.key (f : Face) : Int × Int × Int := sort3 f.n0 f.n1 f.n2
def sort2 (a b : Int) : Int × Int := if a ≤ b then (a, b) else (b, a)

def inRange (n : Nat) (v : Int) : Bool := decide (0 ≤ v) && decide (v < (n : Int))

def xyzAt (xyz : List (V3 α)) (v : Int) : V3 α := xyz.getD v.toNat ⟨Scalar.zero, Scalar.zero, Scalar.zero⟩

/-- volume of a tet in the input orientation convention (`ref_node_tet_vol`) -/
def tetVolOf (xyz : List (V3 α)) (t : Tet) : α :=
  tetVol (xyzAt xyz t.n0) (xyzAt xyz t.n1) (xyzAt xyz t.n2) (xyzAt xyz t.n3)

/-- twice the signed area of a 2-D cell: the z component of `ref_node_tri_normal` (what
    `ref_node_tri_twod_orientation` tests; 2-D meshes live in the plane z = const, counter-clockwise) -/
def triNormZ (xyz : List (V3 α)) (t : Tri) : α :=
  (triNormal (xyzAt xyz t.n0) (xyzAt xyz t.n1) (xyzAt xyz t.n2)).z

def count {β : Type} [DecidableEq β] (l : List β) (x : β) : Nat := (l.filter (· = x)).length

namespace Mesh3
variable (m : Mesh3 α)
/-- unordered faces of all tets (4 per tet, table `f2n`) -/
def tetFaceKeys : List (Int × Int × Int) := m.tets.flatMap fun t => (tetFaces t).map Face.key
def triKeys : List (Int × Int × Int) := m.tris.map fun t => sort3 t.n0 t.n1 t.n2
def triSideKeys : List (Int × Int) := m.tris.flatMap fun t => [sort2 t.n0 t.n1, sort2 t.n1 t.n2, sort2 t.n2 t.n0]
end Mesh3

/-- every index in range (numbering contiguous from zero: the vertices are exactly `0 .. xyz.length-1`) -/
def valid3Range (m : Mesh3 α) : Bool :=
  let n := m.xyz.length
  m.tets.all (fun t => t.nodes.all (inRange n)) && m.tris.all (fun t => t.nodes.all (inRange n))
/-- every tet has strictly positive volume in the input orientation convention -/
def valid3Vol (m : Mesh3 α) : Bool := m.tets.all fun t => Scalar.zero <. tetVolOf m.xyz t
/-- every unordered tet face lies in exactly two tets and no tri, or in exactly one tet and exactly one tri;
    every tri is the face of exactly one tet and is not repeated -/
def valid3Face (m : Mesh3 α) : Bool :=
  let tf := m.tetFaceKeys
  let bf := m.triKeys
  tf.all (fun k => (count tf k == 2 && count bf k == 0) || (count tf k == 1 && count bf k == 1)) &&
  bf.all (fun k => count tf k == 1 && count bf k == 1)
/-- the boundary is closed and manifold: every unordered tri side lies in exactly two tris -/
def valid3Bnd (m : Mesh3 α) : Bool := let bs := m.triSideKeys; bs.all fun k => count bs k == 2
/-- every vertex is used by a tet -/
def valid3Used (m : Mesh3 α) : Bool :=
  (List.range m.xyz.length).all fun v => m.tets.any fun t => t.nodes.contains (v : Int)

/-- sorting network of `sort3` with the parity of the permutation it performed: `(ascending triple, ±1)` -/
def sort3s (a b c : Int) : (Int × Int × Int) × Int :=
  let r1 : Int × Int × Int := if a ≤ b then (a, b, 1) else (b, a, -1)
  let r2 : Int × Int × Int := if r1.2.1 ≤ c then (r1.2.1, c, r1.2.2) else (c, r1.2.1, -r1.2.2)
  let r3 : Int × Int × Int := if r1.1 ≤ r2.1 then (r1.1, r2.1, r2.2.2) else (r2.1, r1.1, -r2.2.2)
  ((r3.1, r3.2.1, r2.2.1), r3.2.2)

/-- oriented faces of all tets / the tris as oriented faces -/
def Mesh3.tetFaceList (m : Mesh3 α) : List Face := m.tets.flatMap tetFaces
def Mesh3.triFaceList (m : Mesh3 α) : List Face := m.tris.map fun t => ⟨t.n0, t.n1, t.n2⟩

/-- signed multiplicity of the unordered face `k`: tet faces count with the parity of their orientation, tris with
    the opposite sign -/
def signedCount (tf bf : List Face) (k : Int × Int × Int) : Int :=
  ((tf.filter fun f => (sort3s f.n0 f.n1 f.n2).1 = k).map fun f => (sort3s f.n0 f.n1 f.n2).2).sum -
  ((bf.filter fun f => (sort3s f.n0 f.n1 f.n2).1 = k).map fun f => (sort3s f.n0 f.n1 f.n2).2).sum

/-- the combinatorial orientation clause: on every unordered face the orientations cancel — the two tets of an
    interior face see it with opposite orientation, a boundary tri has the orientation of the tet face it closes.
    (Given `valid3Face` this is exactly that statement; geometrically it follows from positive volumes, which is
    out of reach, so it is a separate executable clause.) -/
def valid3Orient (m : Mesh3 α) : Bool :=
  let tf := m.tetFaceList
  let bf := m.triFaceList
  (tf ++ bf).all fun f => signedCount tf bf (sort3s f.n0 f.n1 f.n2).1 == 0

/-- C01 for a 3-D mesh -/
def Valid3 (m : Mesh3 α) : Bool :=
  valid3Range m && valid3Vol m && valid3Face m && valid3Bnd m && valid3Used m

def valid2Range (m : Mesh2 α) : Bool :=
  let n := m.xyz.length
  m.tris.all (fun t => t.nodes.all (inRange n)) && m.edgs.all (fun e => e.nodes.all (inRange n))
def valid2Vol (m : Mesh2 α) : Bool := m.tris.all fun t => Scalar.zero <. triNormZ m.xyz t
def valid2Face (m : Mesh2 α) : Bool :=
  let ts := m.tris.flatMap fun t => [sort2 t.n0 t.n1, sort2 t.n1 t.n2, sort2 t.n2 t.n0]
  let be := m.edgs.map fun e => sort2 e.n0 e.n1
  ts.all (fun k => (count ts k == 2 && count be k == 0) || (count ts k == 1 && count be k == 1)) &&
  be.all (fun k => count ts k == 1 && count be k == 1)
/-- the boundary is closed and manifold: every boundary vertex is the end of exactly two edgs -/
def valid2Bnd (m : Mesh2 α) : Bool := let bn := m.edgs.flatMap fun e => [e.n0, e.n1]; bn.all fun v => count bn v == 2
def valid2Used (m : Mesh2 α) : Bool :=
  (List.range m.xyz.length).all fun v => m.tris.any fun t => t.nodes.contains (v : Int)

/-- C01 for a 2-D mesh (tris are the cells, edgs the boundary elements) -/
def Valid2 (m : Mesh2 α) : Bool :=
  valid2Range m && valid2Vol m && valid2Face m && valid2Bnd m && valid2Used m

end valid

end Refine.Model.Cavity
