import Refine.Gen.Endian

/-!
  Byte-order helpers shared by the UGRID codecs (C08): the C swaps bytes with the
  `SWAP_INT/LONG/DBL` macros of `ref_endian.h`, regenerated as permutations in
  `Refine.Gen.Endian`.
-/
namespace Refine.Model.Endian

/-- apply a macro permutation: output byte `i` is input byte `perm[i]` -/
def applyPerm (perm : List Nat) (bytes : List UInt8) : List UInt8 :=
  perm.map fun k => bytes.getD k 0

/-- little-endian bytes of `n`, `w` bytes wide -/
def leBytes : Nat → Nat → List UInt8
  | 0, _ => []
  | w + 1, n => UInt8.ofNat (n % 256) :: leBytes w (n / 256)

/-- big-endian bytes of `n`, `w` bytes wide -/
def beBytes (w n : Nat) : List UInt8 := (leBytes w n).reverse

def ofLeBytes : List UInt8 → Nat
  | [] => 0
  | b :: bs => b.toNat + 256 * ofLeBytes bs

end Refine.Model.Endian
