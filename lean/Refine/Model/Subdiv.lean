import Refine.Scalar
import Refine.Gen.CellTables
import Refine.Model.Status
import Refine.Model.Geom
import Refine.Model.Cavity

/-!
  `ref_subdiv.c`, simplex part (edg / tri / tet): the pattern splitter `ref_split_pass` hands the edges to whose
  cells span partitions.

  * `buildEdges` / `edgeWith`     — `ref_edge_create` (`ref_edge_builder_uniq`: edges numbered in order of first
    encounter, tets first, then tris) and `ref_edge_with`.
  * `tetMap`                      — `ref_subdiv_map`: `Σ 2^e · mark(c2e e)`.
  * `promote23`, `promote2All`, `relaxTet`, `markRelax`   — the macros `promote_2_3`, `promote_2_all` and
    `ref_subdiv_mark_relax` (Gauss–Seidel sweeps in cell order until nothing changes).  `promote_2_all` tests the
    *global edge indices* `ge0 > 0 && ge5 > 0 || … || ge2 > 0 && ge1 > 3`, not the marks: copied as written.
  * `unmarkOneOfTwo`, `unmarkTetFace`, `unmarkTetOppEdge`, `unmarkTet`, `unmarkRelax` — the same-named functions
    (the loser is the edge with the larger (min global, max global) key; 200-sweep `RUS`).
  * `negCheckChildren`, `negTetGeomSupport`, `negTetRelax` — `ref_subdiv_unmark_neg_tet_geom_support` with its OWN
    copy of the child templates, and `ref_subdiv_unmark_neg_tet_relax`.
  * `splitTetChildren`, `splitTriChildren`, `splitEdgChildren` — the children `ref_subdiv_split_tet/_tri/_edg`
    create, ordered vertex tuples, `between a b` (= `ref_subdiv_node_between`, the vertex stored on the edge) kept
    as a parameter so that the templates can be instantiated with symbolic midpoints.
  * `split` — `ref_subdiv_split` (both `allow_geometry` branches; `ref_geom` is empty).

  Vertex ids are `Int`; marks are `Nat` (the C stores `REF_INT` 0/1).  Core-only.
-/
namespace Refine.Model.Subdiv
open Refine Refine.Model Refine.Model.Geom
open Refine.Model.Cavity (Tet Tri Edg)

/-! ### ref_edge -/

abbrev EdgeTab := List (Int × Int)

/-- `ref_edge_with`: index of the edge joining `a` and `b` in either orientation -/
def edgeWith (E : EdgeTab) (a b : Int) : Option Nat :=
  E.findIdx? fun e => (e.1 == a && e.2 == b) || (e.1 == b && e.2 == a)

/-- `ref_edge_uniq` -/
def edgeUniq (E : EdgeTab) (a b : Int) : EdgeTab :=
  match edgeWith E a b with
  | some _ => E
  | none => E ++ [(a, b)]

def tetNode (t : Tet) (i : Nat) : Int :=
  match i with | 0 => t.n0 | 1 => t.n1 | 2 => t.n2 | _ => t.n3

def tetSet (t : Tet) (i : Nat) (v : Int) : Tet :=
  match i with
  | 0 => { t with n0 := v } | 1 => { t with n1 := v } | 2 => { t with n2 := v } | _ => { t with n3 := v }

def triNode (t : Tri) (i : Nat) : Int :=
  match i with | 0 => t.n0 | 1 => t.n1 | _ => t.n2

/-- `ref_cell_e2n_gen(ref_cell, k, e)` of the tet, from the regenerated table -/
def tetE2n (k e : Nat) : Nat := (Refine.Gen.CellTables.tet.e2n.getD e []).getD k 0
def triE2n (k e : Nat) : Nat := (Refine.Gen.CellTables.tri.e2n.getD e []).getD k 0

/-- `ref_edge_builder_uniq`: 3-D cells first, then 2-D cells, cell edges in table order -/
def buildEdges (tets : List Tet) (tris : List Tri) : EdgeTab :=
  let E := tets.foldl (fun E t =>
    (List.range 6).foldl (fun E e => edgeUniq E (tetNode t (tetE2n 0 e)) (tetNode t (tetE2n 1 e))) E) []
  tris.foldl (fun E t =>
    (List.range 3).foldl (fun E e => edgeUniq E (triNode t (triE2n 0 e)) (triNode t (triE2n 1 e))) E) E

/-! ### marks -/

def mk (m : List Nat) (e : Nat) : Nat := m.getD e 0

/-- `ref_subdiv_c2e` (the edge exists by construction of the table; `0` stands for the `RSE` abort) -/
def c2e (E : EdgeTab) (t : Tet) (ce : Nat) : Nat :=
  (edgeWith E (tetNode t (tetE2n 0 ce)) (tetNode t (tetE2n 1 ce))).getD 0

/-- the six global edge indices of a tet -/
def cellEdges (E : EdgeTab) (t : Tet) : List Nat := (List.range 6).map (c2e E t)

/-- `ref_subdiv_map` on the six global edges of a cell -/
def mapOf (m : List Nat) (es : List Nat) : Nat :=
  (es.zipIdx.map fun p => 2 ^ p.2 * mk m p.1).sum

def tetMap (E : EdgeTab) (m : List Nat) (t : Tet) : Nat := mapOf m (cellEdges E t)

/-! ### ref_subdiv_mark_relax -/

abbrev RS := List Nat × Bool

/-- macro `promote_2_3(ce0, ce1, ce2)` -/
def promote23 (es : List Nat) (ce0 ce1 ce2 : Nat) (s : RS) : RS :=
  let g0 := es.getD ce0 0
  let g1 := es.getD ce1 0
  let g2 := es.getD ce2 0
  if mk s.1 g0 + mk s.1 g1 + mk s.1 g2 == 2 then (((s.1.set g0 1).set g1 1).set g2 1, true) else s

/-- macro `promote_2_all()`: the guard compares global edge INDICES with 0 and 3, as the C does -/
def promote2All (es : List Nat) (s : RS) : RS :=
  let g (i : Nat) := es.getD i 0
  let sum := mk s.1 (g 0) + mk s.1 (g 1) + mk s.1 (g 2) + mk s.1 (g 3) + mk s.1 (g 4) + mk s.1 (g 5)
  if sum == 2 then
    if (g 0 > 0 && g 5 > 0) || (g 1 > 0 && g 4 > 0) || (g 2 > 0 && g 1 > 3) then
      ((((((s.1.set (g 0) 1).set (g 1) 1).set (g 2) 1).set (g 3) 1).set (g 4) 1).set (g 5) 1, true)
    else s
  else s

/-- `case 4:` of the sweep -/
def relaxTet (es : List Nat) (s : RS) : RS :=
  promote2All es (promote23 es 0 1 3 (promote23 es 0 2 4 (promote23 es 1 2 5 (promote23 es 3 4 5 s))))

def relaxSweep (E : EdgeTab) (tets : List Tet) (m : List Nat) : RS :=
  tets.foldl (fun s t => relaxTet (cellEdges E t) s) (m, false)

/-- `ref_subdiv_mark_relax`; every sweep that reports `again` has set a new mark, so `fuel = #edges + 2` suffices -/
def markRelaxLoop (E : EdgeTab) (tets : List Tet) : Nat → List Nat → List Nat
  | 0, m => m
  | fuel + 1, m =>
    let s := relaxSweep E tets m
    if s.2 then markRelaxLoop E tets fuel s.1 else s.1

def markRelax (E : EdgeTab) (tets : List Tet) (m : List Nat) : List Nat :=
  markRelaxLoop E tets (m.length + 2) m

/-! ### ref_subdiv_unmark_relax -/

def cmin (a b : Int) : Int := if a < b then a else b
def cmax (a b : Int) : Int := if a > b then a else b

/-- `ref_subdiv_unmark_one_of_two`: unmark the edge with the LARGER (min global, max global) key -/
def unmarkOneOfTwo (glob : List Int) (E : EdgeTab) (m : List Nat) (e0 e1 : Nat) : List Nat :=
  let gl (v : Int) : Int := glob.getD v.toNat (-1)
  let p0 := E.getD e0 (0, 0)
  let p1 := E.getD e1 (0, 0)
  let e0min := cmin (gl p0.1) (gl p0.2)
  let e0max := cmax (gl p0.1) (gl p0.2)
  let e1min := cmin (gl p1.1) (gl p1.2)
  let e1max := cmax (gl p1.1) (gl p1.2)
  if e0min == e1min then
    (if e0max < e1max then m.set e1 0 else m.set e0 0)
  else
    (if e0min < e1min then m.set e1 0 else m.set e0 0)

def on (m : List Nat) (e : Nat) : Bool := mk m e != 0

/-- `ref_subdiv_unmark_tet_face`: three tests in sequence, each on the marks left by the previous one -/
def unmarkTetFace (glob : List Int) (E : EdgeTab) (es : List Nat) (s0 s1 s2 : Nat) (s : RS) : RS :=
  let e0 := es.getD s0 0
  let e1 := es.getD s1 0
  let e2 := es.getD s2 0
  let s := if on s.1 e0 && on s.1 e1 && !on s.1 e2 then (unmarkOneOfTwo glob E s.1 e0 e1, true) else s
  let s := if on s.1 e0 && !on s.1 e1 && on s.1 e2 then (unmarkOneOfTwo glob E s.1 e0 e2, true) else s
  let s := if !on s.1 e0 && on s.1 e1 && on s.1 e2 then (unmarkOneOfTwo glob E s.1 e1 e2, true) else s
  s

/-- `ref_subdiv_unmark_tet_opp_edge` -/
def unmarkTetOppEdge (glob : List Int) (E : EdgeTab) (es : List Nat) (s0 s1 : Nat) (s : RS) : RS :=
  let e0 := es.getD s0 0
  let e1 := es.getD s1 0
  if on s.1 e0 && on s.1 e1 then (unmarkOneOfTwo glob E s.1 e0 e1, true) else s

/-- `ref_subdiv_unmark_tet` -/
def unmarkTet (glob : List Int) (E : EdgeTab) (es : List Nat) (s : RS) : RS :=
  let s := unmarkTetFace glob E es 3 4 5 s
  let s := unmarkTetFace glob E es 1 2 5 s
  let s := unmarkTetFace glob E es 0 4 2 s
  let s := unmarkTetFace glob E es 0 1 3 s
  let g (i : Nat) := es.getD i 0
  let sum := mk s.1 (g 0) + mk s.1 (g 1) + mk s.1 (g 2) + mk s.1 (g 3) + mk s.1 (g 4) + mk s.1 (g 5)
  if sum == 2 then
    unmarkTetOppEdge glob E es 2 3 (unmarkTetOppEdge glob E es 1 4 (unmarkTetOppEdge glob E es 0 5 s))
  else s

def unmarkSweep (glob : List Int) (E : EdgeTab) (tets : List Tet) (m : List Nat) : RS :=
  tets.foldl (fun s t => unmarkTet glob E (cellEdges E t) s) (m, false)

/-- `ref_subdiv_unmark_relax`: `RUS(200, nsweeps)` fails the 200th sweep; `left = 200 - nsweeps` -/
def unmarkRelaxLoop (glob : List Int) (E : EdgeTab) (tets : List Tet) : Nat → List Nat → Status × List Nat
  | 0, m => (.failure, m)
  | left + 1, m =>
    let s := unmarkSweep glob E tets m
    if left == 0 then (.failure, s.1)
    else if s.2 then unmarkRelaxLoop glob E tets left s.1 else (.ok, s.1)

def unmarkRelax (glob : List Int) (E : EdgeTab) (tets : List Tet) (m : List Nat) : Status × List Nat :=
  unmarkRelaxLoop glob E tets 200 m

/-! ### the child templates -/

/-- the last marked cell edge of a one-edge pattern (`split_edge` of the C loop) -/
def lastMarked (map : Nat) : Nat :=
  (List.range 6).foldl (fun acc e => if map.testBit e then e else acc) 0

/-- `node_swap` re-orientation of the three-edges-of-a-face patterns: the marked face becomes (0,1,2) -/
def orientFace (map : Nat) (t : Tet) : Tet :=
  if map == 56 then ⟨t.n3, t.n2, t.n1, t.n0⟩
  else if map == 38 then ⟨t.n2, t.n3, t.n0, t.n1⟩
  else if map == 21 then ⟨t.n1, t.n0, t.n3, t.n2⟩
  else t

def isOneEdge (map : Nat) : Bool :=
  map == 1 || map == 2 || map == 4 || map == 8 || map == 16 || map == 32
def isFace (map : Nat) : Bool := map == 11 || map == 56 || map == 38 || map == 21

/-- the patterns `ref_subdiv_split_tet` implements (everything else is `REF_IMPLEMENT`) -/
def supported (map : Nat) : Bool := map == 0 || isOneEdge map || isFace map || map == 63

/-- children created by `ref_subdiv_split_tet` for one cell (`none`: `REF_IMPLEMENT`; `[]`: cell kept) -/
def splitTetChildren (btw : Int → Int → Int) (map : Nat) (t : Tet) : Option (List Tet) :=
  if map == 0 then some []
  else if isOneEdge map then
    let se := lastMarked map
    let i0 := tetE2n 0 se
    let i1 := tetE2n 1 se
    let nn := btw (tetNode t i0) (tetNode t i1)
    some [tetSet t i0 nn, tetSet t i1 nn]
  else if isFace map then
    let n := orientFace map t
    some [ ⟨n.n0, btw n.n0 n.n1, btw n.n0 n.n2, n.n3⟩,
           ⟨btw n.n1 n.n0, n.n1, btw n.n1 n.n2, n.n3⟩,
           ⟨btw n.n2 n.n0, btw n.n2 n.n1, n.n2, n.n3⟩,
           ⟨btw n.n0 n.n1, btw n.n1 n.n2, btw n.n2 n.n0, n.n3⟩ ]
  else if map == 63 then
    let e0 := btw t.n0 t.n1
    let e1 := btw t.n0 t.n2
    let e2 := btw t.n0 t.n3
    let e3 := btw t.n1 t.n2
    let e4 := btw t.n1 t.n3
    let e5 := btw t.n2 t.n3
    some [ ⟨e0, e2, e1, t.n0⟩, ⟨e0, e3, e4, t.n1⟩, ⟨e1, e5, e3, t.n2⟩, ⟨e2, e4, e5, t.n3⟩,
           ⟨e0, e5, e1, e2⟩, ⟨e0, e5, e2, e4⟩, ⟨e0, e5, e4, e3⟩, ⟨e0, e5, e3, e1⟩ ]
  else none

/-- the cells whose volume `ref_subdiv_unmark_neg_tet_geom_support` evaluates for one tet — its own copy of the
    templates (an unsupported pattern falls through the `switch`: nothing is evaluated) -/
def negCheckChildren (btw : Int → Int → Int) (map : Nat) (t : Tet) : List Tet :=
  if map == 0 then []
  else if isOneEdge map then
    let se := lastMarked map
    let nn := btw (tetNode t (tetE2n 0 se)) (tetNode t (tetE2n 1 se))
    [tetSet t (tetE2n 0 se) nn, tetSet t (tetE2n 1 se) nn]
  else if isFace map then
    let n := orientFace map t
    [ ⟨n.n0, btw n.n0 n.n1, btw n.n0 n.n2, n.n3⟩,
      ⟨btw n.n1 n.n0, n.n1, btw n.n1 n.n2, n.n3⟩,
      ⟨btw n.n2 n.n0, btw n.n2 n.n1, n.n2, n.n3⟩,
      ⟨btw n.n0 n.n1, btw n.n1 n.n2, btw n.n2 n.n0, n.n3⟩ ]
  else if map == 63 then
    let e0 := btw t.n0 t.n1
    let e1 := btw t.n0 t.n2
    let e2 := btw t.n0 t.n3
    let e3 := btw t.n1 t.n2
    let e4 := btw t.n1 t.n3
    let e5 := btw t.n2 t.n3
    [ ⟨e0, e2, e1, t.n0⟩, ⟨e0, e3, e4, t.n1⟩, ⟨e1, e5, e3, t.n2⟩, ⟨e2, e4, e5, t.n3⟩,
      ⟨e0, e5, e1, e2⟩, ⟨e0, e5, e2, e4⟩, ⟨e0, e5, e4, e3⟩, ⟨e0, e5, e3, e1⟩ ]
  else []

/-- a 4-node boundary cell (`qua`): the two-marked-edges triangle pattern produces one -/
structure Qua where
  n0 : Int
  n1 : Int
  n2 : Int
  n3 : Int
  id : Int
  deriving DecidableEq, Repr, Inhabited

/-- `ref_subdiv_split_tri` for one triangle with marks `m01 m12 m20` of its sides: new tris, new quads;
    `none` = the triangle is kept -/
def splitTriChildren (btw : Int → Int → Int) (m01 m12 m20 : Bool) (t : Tri) : Option (List Tri × List Qua) :=
  let n0 := t.n0
  let n1 := t.n1
  let n2 := t.n2
  if m01 && m12 && m20 then
    some ([ ⟨n0, btw n0 n1, btw n0 n2, t.id⟩, ⟨btw n1 n0, n1, btw n1 n2, t.id⟩,
            ⟨btw n2 n0, btw n2 n1, n2, t.id⟩, ⟨btw n0 n1, btw n1 n2, btw n2 n0, t.id⟩ ], [])
  else if m01 && m12 && !m20 then
    some ([⟨btw n1 n0, n1, btw n1 n2, t.id⟩], [⟨n0, btw n1 n0, btw n1 n2, n2, t.id⟩])
  else if m12 && m20 && !m01 then
    some ([⟨btw n2 n0, btw n2 n1, n2, t.id⟩], [⟨n0, n1, btw n2 n1, btw n2 n0, t.id⟩])
  else if m20 && m01 && !m12 then
    some ([⟨n0, btw n0 n1, btw n0 n2, t.id⟩], [⟨btw n0 n1, n1, n2, btw n0 n2, t.id⟩])
  else
    let c01 : List Tri := if m01 then [⟨btw n0 n1, n1, n2, t.id⟩, ⟨n0, btw n0 n1, n2, t.id⟩] else []
    let c12 : List Tri := if m12 then [⟨n0, btw n1 n2, n2, t.id⟩, ⟨n0, n1, btw n1 n2, t.id⟩] else []
    let c20 : List Tri := if m20 then [⟨n0, n1, btw n2 n0, t.id⟩, ⟨btw n2 n0, n1, n2, t.id⟩] else []
    if m01 || m12 || m20 then some (c01 ++ c12 ++ c20, []) else none

/-- `ref_subdiv_split_edg` for one edg cell -/
def splitEdgChildren (btw : Int → Int → Int) (m01 : Bool) (e : Edg) : Option (List Edg) :=
  if m01 then some [⟨btw e.n0 e.n1, e.n1, e.id⟩, ⟨e.n0, btw e.n0 e.n1, e.id⟩] else none

/-! ### state and the geometric pre-split check -/

structure SD (α : Type) where
  glob : List Int
  xyz : List (V3 α)
  tets : List Tet
  tris : List Tri
  edgs : List Edg
  E : EdgeTab
  marks : List Nat

variable {α : Type} [Scalar α]

/-- coordinates of a vertex code: an original vertex, or the vertex `ref_subdiv_new_node` puts on an edge with
    `ref_node_interpolate_edge(node0, node1, 0.5)` in the edge's stored orientation -/
def posOf (btw : Int → Int → Int) (xyz : List (V3 α)) (E : EdgeTab) (v : Int) : V3 α :=
  if 0 ≤ v && v.toNat < xyz.length then xyz.getD v.toNat V3.zero
  else match E.find? (fun e => btw e.1 e.2 == v) with
    | some e => interpolateEdgeXyz (xyz.getD e.1.toNat V3.zero) (xyz.getD e.2.toNat V3.zero) half
    | none => V3.zero

/-- `ref_node_min_volume` default of `ref_node_create` -/
def minVolume : α := Scalar.ofDec 1 (-15)

def volOfTet (pos : Int → V3 α) (t : Tet) : α := tetVol (pos t.n0) (pos t.n1) (pos t.n2) (pos t.n3)

/-- `unmark_cell` of one tet: some checked child has `min_volume > volume` -/
def negCell (btw : Int → Int → Int) (pos : Int → V3 α) (map : Nat) (t : Tet) : Bool :=
  (negCheckChildren btw map t).any fun c => volOfTet pos c <. (minVolume : α)

/-- one pass of `ref_subdiv_unmark_neg_tet_geom_support` (marks change while the cells are visited) -/
def negTetGeomSupport (btw : Int → Int → Int) (pos : Int → V3 α) (E : EdgeTab) (tets : List Tet) (m : List Nat) : RS :=
  tets.foldl (fun s t =>
    let es := cellEdges E t
    if negCell btw pos (mapOf s.1 es) t then (es.foldl (fun m e => m.set e 0) s.1, true) else s) (m, false)

/-- `ref_subdiv_unmark_neg_tet_relax` -/
def negTetRelaxLoop (btw : Int → Int → Int) (pos : Int → V3 α) (glob : List Int) (E : EdgeTab) (tets : List Tet) :
    Nat → List Nat → Status × List Nat
  | 0, m => (.failure, m)
  | left + 1, m =>
    match unmarkRelax glob E tets m with
    | (.ok, m1) =>
      let s := negTetGeomSupport btw pos E tets m1
      if left == 0 then (.failure, s.1)
      else if s.2 then negTetRelaxLoop btw pos glob E tets left s.1 else (.ok, s.1)
    | r => r

def negTetRelax (btw : Int → Int → Int) (pos : Int → V3 α) (glob : List Int) (E : EdgeTab) (tets : List Tet)
    (m : List Nat) : Status × List Nat :=
  negTetRelaxLoop btw pos glob E tets 200 m

/-! ### the splitters over the whole grid -/

structure Out where
  tets : List Tet
  tris : List Tri
  quas : List Qua
  edgs : List Edg

/-- what replaces a tet: its children, or the tet itself when the template is empty (`case 0`) -/
def keepOr (t : Tet) (cs : List Tet) : List Tet := if cs.isEmpty then [t] else cs

/-- `ref_subdiv_split_tet`: `REF_IMPLEMENT` at the first cell with an unsupported pattern -/
def splitTets (btw : Int → Int → Int) (E : EdgeTab) (m : List Nat) : List Tet → Option (List Tet)
  | [] => some []
  | t :: rest =>
    match splitTetChildren btw (tetMap E m t) t with
    | none => none
    | some cs =>
      match splitTets btw E m rest with
      | none => none
      | some r => some (keepOr t cs ++ r)

def sideMark (E : EdgeTab) (m : List Nat) (a b : Int) : Option Bool :=
  (edgeWith E a b).map fun e => on m e

/-- `ref_subdiv_split_tri` (`RSS(ref_edge_with …)`: `not_found` when a side is not in the edge table) -/
def splitTris (btw : Int → Int → Int) (E : EdgeTab) (m : List Nat) : List Tri → Option (List Tri × List Qua)
  | [] => some ([], [])
  | t :: rest =>
    match sideMark E m t.n0 t.n1, sideMark E m t.n1 t.n2, sideMark E m t.n2 t.n0 with
    | some a, some b, some c =>
      match splitTris btw E m rest with
      | none => none
      | some r =>
        match splitTriChildren btw a b c t with
        | none => some (t :: r.1, r.2)
        | some cs => some (cs.1 ++ r.1, cs.2 ++ r.2)
    | _, _, _ => none

/-- `ref_subdiv_split_edg` -/
def splitEdgs (btw : Int → Int → Int) (E : EdgeTab) (m : List Nat) : List Edg → Option (List Edg)
  | [] => some []
  | e :: rest =>
    match sideMark E m e.n0 e.n1 with
    | none => none
    | some a =>
      match splitEdgs btw E m rest with
      | none => none
      | some r =>
        match splitEdgChildren btw a e with
        | none => some (e :: r)
        | some cs => some (cs ++ r)

/-- the tail of `ref_subdiv_split`: split_tet, split_tri, split_edg, then the sweep that fails with
    "unused local node" when a live vertex (old, or new = on a marked edge) is in no tet -/
def splitCells (btw : Int → Int → Int) (nnode : Nat) (s : SD α) (m : List Nat) : Status × Out :=
  let empty : Out := ⟨[], [], [], []⟩
  match splitTets btw s.E m s.tets with
  | none => (.implement, empty)
  | some tets =>
    match splitTris btw s.E m s.tris with
    | none => (.not_found, empty)
    | some (tris, quas) =>
      match splitEdgs btw s.E m s.edgs with
      | none => (.not_found, empty)
      | some edgs =>
        let used (v : Int) : Bool := tets.any fun t => t.n0 == v || t.n1 == v || t.n2 == v || t.n3 == v
        let olds := (List.range nnode).all fun v => used (v : Int)
        let news := (s.E.zipIdx.all fun p => !(on m p.2) || used (btw p.1.1 p.1.2))
        if olds && news then (.ok, ⟨tets, tris, quas, edgs⟩) else (.failure, empty)

/-- `ref_subdiv_split` with an empty `ref_geom`: returns the status, the final marks and the new cell lists -/
def split (btw : Int → Int → Int) (s : SD α) (allowGeometry newMarkAllowed : Bool) : Status × List Nat × Out :=
  let empty : Out := ⟨[], [], [], []⟩
  let nnode := s.xyz.length
  let m0 := if newMarkAllowed then markRelax s.E s.tets s.marks else s.marks
  let r := if allowGeometry then negTetRelax btw (posOf btw s.xyz s.E) s.glob s.E s.tets m0
           else unmarkRelax s.glob s.E s.tets m0
  match r with
  | (.ok, m) =>
    let o := splitCells btw nnode s m
    (o.1, m, o.2)
  | (st, m) => (st, m, empty)

end Refine.Model.Subdiv
