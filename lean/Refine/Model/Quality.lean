import Refine.Scalar
import Refine.Model.Geom
import Refine.Model.Matrix

/-!
  Cell quality in the metric and its derivative with respect to node 0 (`ref_node.c`), generic over
  `Scalar`.  Every function below is an independent transcription of one C function (the C keeps the
  plain quality and the quality-with-derivative as two duplicated code paths; `Props/C15Quality.lean`
  proves that the transcriptions agree on the value).  Operation order is copied from the C as compiled by
  `gcc -O1 -ffp-contract=off`, so the `Float` instance is bit-identical (tie: `Drivers/Quality.lean`
  vs `harness/h_quality.c`).

  C name → model
  * `ref_node_metric_set`                     → `QNode.set`   (stores `m` and `log_m(m)`)
  * `ref_node_tet_epic_quality`               → `tetEpicQuality`
  * `ref_node_tet_jac_quality`                → `tetJacQuality`
  * `ref_node_tet_quality`                    → `tetQuality`  (dispatch on `ref_node->tet_quality`)
  * `ref_node_tet_epic_dquality_dnode0`       → `tetEpicDquality`
  * `ref_node_tet_jac_dquality_dnode0`        → `tetJacDquality`
  * `ref_node_tet_dquality_dnode0`            → `tetDquality`
  * `ref_node_tri_epic_quality`               → `triEpicQuality`
  * `ref_node_tri_jac_quality`                → `triJacQuality`
  * `ref_node_tri_quality`                    → `triQuality`
  * `ref_node_tri_epic_dquality_dnode0`       → `triEpicDquality`
  * `ref_node_tri_jac_dquality_dnode0`        → `triJacDquality`
  * `ref_node_tri_dquality_dnode0`            → `triDquality`
  * `ref_matrix_vect_mult`                    → `vectMult`
  Re-used (already modelled and tied): `tetVol`, `tetDvolDnode0`, `triArea`, `triDareaDnode0`, `vtMv`, `vtMvDeriv`,
  `ratioGeometric`, `dratioGeometric` (Model/Geom), `expM`, `jacobM`, `detM`, `logM` (Model/Matrix).
  `ref_node->ratio_method` is `REF_NODE_RATIO_GEOMETRIC` (the default) throughout.
-/
namespace Refine.Model.Quality
open Refine Refine.Model.Geom

abbrev Err := Refine.Model.Matrix.Err

variable {α : Type} [Scalar α]

/-- Geom's `M6` (fields `m0..m5`) ↔ Matrix's `M6` (fields `m11..m33`): the same C array `m[0..5]` -/
def toMx (m : M6 α) : Matrix.M6 α := ⟨m.m0, m.m1, m.m2, m.m3, m.m4, m.m5⟩
def ofMx (m : Matrix.M6 α) : M6 α := ⟨m.m11, m.m12, m.m13, m.m22, m.m23, m.m33⟩

/-- what `ref_node` stores for one vertex: `real[0..2]` = xyz, `real[3..8]` = metric, `real[9..14]` = its log -/
structure QNode (α : Type) where
  x : V3 α
  m : M6 α
  l : M6 α

/-- `ref_node_metric_set`: store `m`, then `ref_matrix_log_m(m)` -/
def QNode.set (x : V3 α) (m : M6 α) : Except Err (QNode α) :=
  match Matrix.logM (toMx m) with
  | .error e => .error e
  | .ok l => .ok ⟨x, m, ofMx l⟩

/-- `ref_node->tet_quality` / `ref_node->tri_quality`: `REF_NODE_EPIC_QUALITY`, `REF_NODE_JAC_QUALITY`, anything else -/
inductive QSel where
  | epic | jac | other
  deriving DecidableEq, Repr

@[inline] def lit3 : α := Scalar.ofInt 3
@[inline] def lit4 : α := Scalar.ofInt 4
/-- `-1.0` -/
@[inline] def litm1 : α := Scalar.ofInt (-1)
/-- `24.9610058766228` (36/3^(1/3)) -/
@[inline] def c36 : α := Scalar.ofDec 249610058766228 (-13)
/-- `2.0 / 3.0` -/
@[inline] def twoThirds : α := (lit2 : α) /. lit3
/-- `-1.0 / 3.0` -/
@[inline] def negThird : α := (litm1 : α) /. lit3
/-- `1.0 / 3.0` -/
@[inline] def oneThird : α := (lit1 : α) /. lit3
/-- `4.0 / sqrt(3.0) * 3` -/
@[inline] def cTriEpic : α := (lit4 : α) /. Scalar.sqrt lit3 *. lit3
/-- `4.0 * sqrt(3.0)` -/
@[inline] def cTriJac : α := (lit4 : α) *. Scalar.sqrt lit3

/-- `(mlog0[i] + mlog1[i] + mlog2[i] + mlog3[i]) / 4.0` -/
def avg4 (a b c d : M6 α) : M6 α :=
  ⟨(a.m0 +. b.m0 +. c.m0 +. d.m0) /. lit4, (a.m1 +. b.m1 +. c.m1 +. d.m1) /. lit4,
   (a.m2 +. b.m2 +. c.m2 +. d.m2) /. lit4, (a.m3 +. b.m3 +. c.m3 +. d.m3) /. lit4,
   (a.m4 +. b.m4 +. c.m4 +. d.m4) /. lit4, (a.m5 +. b.m5 +. c.m5 +. d.m5) /. lit4⟩

/-- `(mlog0[i] + mlog1[i] + mlog2[i]) / 3.0` -/
def avg3 (a b c : M6 α) : M6 α :=
  ⟨(a.m0 +. b.m0 +. c.m0) /. lit3, (a.m1 +. b.m1 +. c.m1) /. lit3,
   (a.m2 +. b.m2 +. c.m2) /. lit3, (a.m3 +. b.m3 +. c.m3) /. lit3,
   (a.m4 +. b.m4 +. c.m4) /. lit3, (a.m5 +. b.m5 +. c.m5) /. lit3⟩

/-- the 3x3 `jac[0..8]` of `ref_matrix_jacob_m` in C flat order -/
structure J9 (α : Type) where
  j0 : α
  j1 : α
  j2 : α
  j3 : α
  j4 : α
  j5 : α
  j6 : α
  j7 : α
  j8 : α

/-- `Matrix.jacobM` returns rows with C flat index `i + 3k`; `jac[n]` here -/
def J9.ofM33 (a : Matrix.M33 α) : J9 α :=
  ⟨a.r0.x, a.r1.x, a.r2.x, a.r0.y, a.r1.y, a.r2.y, a.r0.z, a.r1.z, a.r2.z⟩

/-- `ref_matrix_vect_mult(a, x, b)` -/
def vectMult (a : J9 α) (x : V3 α) : V3 α :=
  ⟨a.j0 *. x.x +. a.j1 *. x.y +. a.j2 *. x.z,
   a.j3 *. x.x +. a.j4 *. x.y +. a.j5 *. x.z,
   a.j6 *. x.x +. a.j7 *. x.y +. a.j8 *. x.z⟩

/-- `ref_matrix_det_m` of a stored metric -/
def detOf (m : M6 α) : α := Matrix.detM (toMx m)

/-! ### tetrahedra -/

/-- `ref_node_tet_epic_quality` -/
def tetEpicQuality (minVol : α) (n0 n1 n2 n3 : QNode α) : α :=
  let volume := tetVol n0.x n1.x n2.x n3.x
  if volume <=. minVol then volume -. minVol else
  let l0 := ratioGeometric n0.x n1.x n0.m n1.m
  let l1 := ratioGeometric n0.x n2.x n0.m n2.m
  let l2 := ratioGeometric n0.x n3.x n0.m n3.m
  let l3 := ratioGeometric n1.x n2.x n1.m n2.m
  let l4 := ratioGeometric n1.x n3.x n1.m n3.m
  let l5 := ratioGeometric n2.x n3.x n2.m n3.m
  let minDet := detOf n0.m
  let minDet := Scalar.cmin minDet (detOf n1.m)
  let minDet := Scalar.cmin minDet (detOf n2.m)
  let minDet := Scalar.cmin minDet (detOf n3.m)
  let volumeInMetric := Scalar.sqrt minDet *. volume
  let num := Scalar.pow volumeInMetric twoThirds
  let denom := l0 *. l0 +. l1 *. l1 +. l2 *. l2 +. l3 *. l3 +. l4 *. l4 +. l5 *. l5
  if Scalar.divisible num denom then c36 *. num /. denom else litm1

/-- `ref_node_tet_epic_dquality_dnode0` -/
def tetEpicDquality (minVol : α) (n0 n1 n2 n3 : QNode α) : α × V3 α :=
  let r0 := dratioGeometric n0.x n1.x n0.m n1.m
  let r1 := dratioGeometric n0.x n2.x n0.m n2.m
  let r2 := dratioGeometric n0.x n3.x n0.m n3.m
  let l0 := r0.1
  let l1 := r1.1
  let l2 := r2.1
  let l3 := ratioGeometric n1.x n2.x n1.m n2.m
  let l4 := ratioGeometric n1.x n3.x n1.m n3.m
  let l5 := ratioGeometric n2.x n3.x n2.m n3.m
  let vd := tetDvolDnode0 n0.x n1.x n2.x n3.x
  let volume := vd.1
  let dVolume := vd.2
  if volume <=. minVol then (volume -. minVol, dVolume) else
  let minDet := detOf n0.m
  let minDet := Scalar.cmin minDet (detOf n1.m)
  let minDet := Scalar.cmin minDet (detOf n2.m)
  let minDet := Scalar.cmin minDet (detOf n3.m)
  let volumeInMetric := Scalar.sqrt minDet *. volume
  let dVim : V3 α := ⟨Scalar.sqrt minDet *. dVolume.x, Scalar.sqrt minDet *. dVolume.y,
                      Scalar.sqrt minDet *. dVolume.z⟩
  let num := Scalar.pow volumeInMetric twoThirds
  let dNum : V3 α := ⟨twoThirds *. Scalar.pow volumeInMetric negThird *. dVim.x,
                      twoThirds *. Scalar.pow volumeInMetric negThird *. dVim.y,
                      twoThirds *. Scalar.pow volumeInMetric negThird *. dVim.z⟩
  let denom := l0 *. l0 +. l1 *. l1 +. l2 *. l2 +. l3 *. l3 +. l4 *. l4 +. l5 *. l5
  let dDenom : V3 α :=
    ⟨lit2 *. l0 *. r0.2.x +. lit2 *. l1 *. r1.2.x +. lit2 *. l2 *. r2.2.x,
     lit2 *. l0 *. r0.2.y +. lit2 *. l1 *. r1.2.y +. lit2 *. l2 *. r2.2.y,
     lit2 *. l0 *. r0.2.z +. lit2 *. l1 *. r1.2.z +. lit2 *. l2 *. r2.2.z⟩
  if Scalar.divisible num denom then
    (c36 *. num /. denom,
     ⟨c36 *. (dNum.x *. denom -. num *. dDenom.x) /. denom /. denom,
      c36 *. (dNum.y *. denom -. num *. dDenom.y) /. denom /. denom,
      c36 *. (dNum.z *. denom -. num *. dDenom.z) /. denom /. denom⟩)
  else (litm1, V3.zero)

/-- the six edge vectors of `ref_node_tet_jac_(d)quality`: `e0 = x1-x0, e1 = x2-x0, e2 = x3-x0, e3 = x2-x1,
    e4 = x3-x1, e5 = x3-x2`, and `l2 = Σ eᵀ m e` -/
def tetJacL2 (m : M6 α) (x0 x1 x2 x3 : V3 α) : α :=
  let e0 := V3.sub x1 x0
  let e1 := V3.sub x2 x0
  let e2 := V3.sub x3 x0
  let e3 := V3.sub x2 x1
  let e4 := V3.sub x3 x1
  let e5 := V3.sub x3 x2
  vtMv m e0 +. vtMv m e1 +. vtMv m e2 +. vtMv m e3 +. vtMv m e4 +. vtMv m e5

/-- `ref_node_tet_jac_quality`; `jac` is computed (its status is propagated) but not used by the C -/
def tetJacQuality (minVol : α) (n0 n1 n2 n3 : QNode α) : Except Err α :=
  let volume := tetVol n0.x n1.x n2.x n3.x
  if volume <=. minVol then .ok (volume -. minVol) else
  let mlog := avg4 n0.l n1.l n2.l n3.l
  match Matrix.expM (toMx mlog) with
  | .error e => .error e
  | .ok mx =>
    match Matrix.jacobM mx with
    | .error e => .error e
    | .ok _ =>
      let m := ofMx mx
      let l2 := tetJacL2 m n0.x n1.x n2.x n3.x
      let det := Matrix.detM mx
      let volumeInMetric := Scalar.sqrt det *. volume
      let num := Scalar.pow volumeInMetric twoThirds
      if Scalar.divisible num l2 then .ok (c36 *. num /. l2) else .ok litm1

/-- `ref_node_tet_jac_dquality_dnode0` -/
def tetJacDquality (minVol : α) (n0 n1 n2 n3 : QNode α) : Except Err (α × V3 α) :=
  let vd := tetDvolDnode0 n0.x n1.x n2.x n3.x
  let volume := vd.1
  let dVolume := vd.2
  if volume <=. minVol then .ok (volume -. minVol, dVolume) else
  let mlog := avg4 n0.l n1.l n2.l n3.l
  match Matrix.expM (toMx mlog) with
  | .error e => .error e
  | .ok mx =>
    match Matrix.jacobM mx with
    | .error e => .error e
    | .ok _ =>
      let m := ofMx mx
      let l2 := tetJacL2 m n0.x n1.x n2.x n3.x
      let de0 := (vtMvDeriv m (V3.sub n1.x n0.x)).2
      let de1 := (vtMvDeriv m (V3.sub n2.x n0.x)).2
      let de2 := (vtMvDeriv m (V3.sub n3.x n0.x)).2
      let dL2 : V3 α := ⟨(-. de0.x) -. de1.x -. de2.x, (-. de0.y) -. de1.y -. de2.y,
                         (-. de0.z) -. de1.z -. de2.z⟩
      let det := Matrix.detM mx
      let sqrtDet := Scalar.sqrt det
      let volumeInMetric := sqrtDet *. volume
      let num := Scalar.pow volumeInMetric twoThirds
      let powVim := Scalar.pow volumeInMetric negThird
      let dNum : V3 α := ⟨twoThirds *. powVim *. sqrtDet *. dVolume.x, twoThirds *. powVim *. sqrtDet *. dVolume.y,
                          twoThirds *. powVim *. sqrtDet *. dVolume.z⟩
      if Scalar.divisible num l2 then
        .ok (c36 *. num /. l2,
             ⟨c36 *. (dNum.x *. l2 -. num *. dL2.x) /. (l2 *. l2),
              c36 *. (dNum.y *. l2 -. num *. dL2.y) /. (l2 *. l2),
              c36 *. (dNum.z *. l2 -. num *. dL2.z) /. (l2 *. l2)⟩)
      else .ok (litm1, V3.zero)

/-- `ref_node_tet_quality`: `default: THROW` is `REF_FAILURE` -/
def tetQuality (sel : QSel) (minVol : α) (n0 n1 n2 n3 : QNode α) : Except Err α :=
  match sel with
  | .epic => .ok (tetEpicQuality minVol n0 n1 n2 n3)
  | .jac => tetJacQuality minVol n0 n1 n2 n3
  | .other => .error .failure

/-- `ref_node_tet_dquality_dnode0` -/
def tetDquality (sel : QSel) (minVol : α) (n0 n1 n2 n3 : QNode α) : Except Err (α × V3 α) :=
  match sel with
  | .epic => .ok (tetEpicDquality minVol n0 n1 n2 n3)
  | .jac => tetJacDquality minVol n0 n1 n2 n3
  | .other => .error .failure

/-! ### triangles -/

/-- `ref_node_tri_epic_quality` -/
def triEpicQuality (n0 n1 n2 : QNode α) : α :=
  let l0 := ratioGeometric n0.x n1.x n0.m n1.m
  let l1 := ratioGeometric n0.x n2.x n0.m n2.m
  let l2 := ratioGeometric n1.x n2.x n1.m n2.m
  let area := triArea n0.x n1.x n2.x
  let minDet := detOf n0.m
  let minDet := Scalar.cmin minDet (detOf n1.m)
  let minDet := Scalar.cmin minDet (detOf n2.m)
  let areaInMetric := Scalar.pow minDet oneThird *. area
  let num := areaInMetric
  let denom := l0 *. l0 +. l1 *. l1 +. l2 *. l2
  if Scalar.divisible num denom then cTriEpic *. num /. denom else litm1

/-- `ref_node_tri_epic_dquality_dnode0` -/
def triEpicDquality (n0 n1 n2 : QNode α) : α × V3 α :=
  let r0 := dratioGeometric n0.x n1.x n0.m n1.m
  let r1 := dratioGeometric n0.x n2.x n0.m n2.m
  let l0 := r0.1
  let l1 := r1.1
  let l2 := ratioGeometric n1.x n2.x n1.m n2.m
  let ad := triDareaDnode0 n0.x n1.x n2.x
  let area := ad.1
  let dArea := ad.2
  let minDet := detOf n0.m
  let minDet := Scalar.cmin minDet (detOf n1.m)
  let minDet := Scalar.cmin minDet (detOf n2.m)
  let areaInMetric := Scalar.pow minDet oneThird *. area
  let dAim : V3 α := ⟨Scalar.pow minDet oneThird *. dArea.x, Scalar.pow minDet oneThird *. dArea.y,
                      Scalar.pow minDet oneThird *. dArea.z⟩
  let num := areaInMetric
  let dNum := dAim
  let denom := l0 *. l0 +. l1 *. l1 +. l2 *. l2
  let dDenom : V3 α :=
    ⟨lit2 *. l0 *. r0.2.x +. lit2 *. l1 *. r1.2.x,
     lit2 *. l0 *. r0.2.y +. lit2 *. l1 *. r1.2.y,
     lit2 *. l0 *. r0.2.z +. lit2 *. l1 *. r1.2.z⟩
  if Scalar.divisible num denom then
    (cTriEpic *. num /. denom,
     ⟨cTriEpic *. (dNum.x *. denom -. num *. dDenom.x) /. denom /. denom,
      cTriEpic *. (dNum.y *. denom -. num *. dDenom.y) /. denom /. denom,
      cTriEpic *. (dNum.z *. denom -. num *. dDenom.z) /. denom /. denom⟩)
  else (litm1, V3.zero)

/-- `ref_node_tri_jac_quality`: the three vertices are mapped by `jac` (M = jacᵀ jac), then the Euclidean
    mean-ratio shape measure `4√3 · area / Σ |e|²` -/
def triJacQuality (n0 n1 n2 : QNode α) : Except Err α :=
  let mlog := avg3 n0.l n1.l n2.l
  match Matrix.expM (toMx mlog) with
  | .error e => .error e
  | .ok mx =>
    match Matrix.jacobM mx with
    | .error e => .error e
    | .ok jm =>
      let jac := J9.ofM33 jm
      let xyz0 := vectMult jac n0.x
      let xyz1 := vectMult jac n1.x
      let xyz2 := vectMult jac n2.x
      let e0 := V3.sub xyz2 xyz1
      let e1 := V3.sub xyz0 xyz2
      let e2 := V3.sub xyz1 xyz0
      let n := cross e2 e0
      let l2 := dot e0 e0 +. dot e1 e1 +. dot e2 e2
      let a := half *. Scalar.sqrt (dot n n)
      if Scalar.divisible a l2 then .ok (cTriJac *. (a /. l2)) else .ok litm1

/-- `ref_node_tri_jac_dquality_dnode0`.  In the not-divisible branch the C writes `*quality = -1.0` and
    leaves `d_quality` untouched: `dq0` is what the caller's array held before the call. -/
def triJacDquality (dq0 : V3 α) (n0 n1 n2 : QNode α) : Except Err (α × V3 α) :=
  let mlog := avg3 n0.l n1.l n2.l
  match Matrix.expM (toMx mlog) with
  | .error e => .error e
  | .ok mx =>
    match Matrix.jacobM mx with
    | .error e => .error e
    | .ok jm =>
      let jac := J9.ofM33 jm
      let xyz0 := vectMult jac n0.x
      let xyz1 := vectMult jac n1.x
      let xyz2 := vectMult jac n2.x
      let e0 := V3.sub xyz2 xyz1
      let e1 := V3.sub xyz0 xyz2
      let e2 := V3.sub xyz1 xyz0
      -- dxyz0[i][j] = jac[3 i + j]; de1 = dxyz0; de2 = -dxyz0
      let n := cross e2 e0
      -- dn[.][j] for j = 0,1,2: column j of de2 is -(jac[j], jac[3+j], jac[6+j])
      let dn (c0 c1 c2 : α) : V3 α :=
        ⟨(-. c1) *. e0.z -. (-. c2) *. e0.y, (-. c2) *. e0.x -. (-. c0) *. e0.z, (-. c0) *. e0.y -. (-. c1) *. e0.x⟩
      let dn0 := dn jac.j0 jac.j3 jac.j6
      let dn1 := dn jac.j1 jac.j4 jac.j7
      let dn2 := dn jac.j2 jac.j5 jac.j8
      let l2 := dot e0 e0 +. dot e1 e1 +. dot e2 e2
      let dl2 (c0 c1 c2 : α) : α :=
        lit2 *. e1.x *. c0 +. lit2 *. e1.y *. c1 +. lit2 *. e1.z *. c2 +.
        lit2 *. e2.x *. (-. c0) +. lit2 *. e2.y *. (-. c1) +. lit2 *. e2.z *. (-. c2)
      let dL2 : V3 α := ⟨dl2 jac.j0 jac.j3 jac.j6, dl2 jac.j1 jac.j4 jac.j7, dl2 jac.j2 jac.j5 jac.j8⟩
      let nn := dot n n
      let a := half *. Scalar.sqrt nn
      let da (d : V3 α) : α :=
        half *. half /. Scalar.sqrt nn *. (lit2 *. n.x *. d.x +. lit2 *. n.y *. d.y +. lit2 *. n.z *. d.z)
      let dA : V3 α := ⟨da dn0, da dn1, da dn2⟩
      if Scalar.divisible a l2 then
        .ok (cTriJac *. (a /. l2),
             ⟨cTriJac *. (dA.x *. l2 -. a *. dL2.x) /. l2 /. l2,
              cTriJac *. (dA.y *. l2 -. a *. dL2.y) /. l2 /. l2,
              cTriJac *. (dA.z *. l2 -. a *. dL2.z) /. l2 /. l2⟩)
      else .ok (litm1, dq0)

/-- `ref_node_tri_quality` -/
def triQuality (sel : QSel) (n0 n1 n2 : QNode α) : Except Err α :=
  match sel with
  | .epic => .ok (triEpicQuality n0 n1 n2)
  | .jac => triJacQuality n0 n1 n2
  | .other => .error .failure

/-- `ref_node_tri_dquality_dnode0` -/
def triDquality (sel : QSel) (dq0 : V3 α) (n0 n1 n2 : QNode α) : Except Err (α × V3 α) :=
  match sel with
  | .epic => .ok (triEpicDquality n0 n1 n2)
  | .jac => triJacDquality dq0 n0 n1 n2
  | .other => .error .failure

end Refine.Model.Quality
