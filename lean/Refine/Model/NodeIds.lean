/-!
  L1 Containers / `NodeIds`: the vertex-id state machine of `src/ref_node.c` (lines 32-900).

  Concrete layer.  The fields mirror the C arrays so that a dump of the C struct is reproduced
  line by line by `Drivers/NodeCell.lean`:

  * `global`  = `global[0..max)` verbatim: a value `>= 0` is the global id of a live slot, a negative
    value is a link of the free list (`index2next`, `REF_EMPTY` terminates), `blank` is its head.
  * `sorted`  = the pairs `(sorted_global[i], sorted_local[i])`, `i < n`.  The C shifts / rebuilds the two
    arrays in lock-step, so one list of pairs is the same data.  Entries at index `>= n` are never read
    by the C before being written (insert shifts up from `n-2`, delete shifts down to `n-2`, rebuild
    rewrites `0..n)`), so the model keeps exactly the first `n`.
  * `unusedStk` = `unused_global[0..n_unused)` as a stack (head = last pushed = next popped).
  * `part`    = `part[]` (only used by `compact`; serial rank is 0).

  Everything is executable and core-only.  Theorems: `Refine/Props/C14NodeCell.lean`.
-/
namespace Refine.Model.NodeIds

inductive Status
  | ok | failure | null | invalid | div_zero | not_found | implement | increase_limit | ill_conditioned
  deriving DecidableEq, Repr, Inhabited

def Status.name : Status → String
  | .ok => "ok" | .failure => "failure" | .null => "null" | .invalid => "invalid"
  | .div_zero => "div_zero" | .not_found => "not_found" | .implement => "implement"
  | .increase_limit => "increase_limit" | .ill_conditioned => "ill_conditioned"

/-- `#define index2next(index) (-2 - (index))` -/
def index2next (i : Nat) : Int := -2 - (i : Int)
/-- `#define next2index(next) (-(next)-2)` -/
def next2index (b : Int) : Nat := (-b - 2).toNat

/-- the fresh free run written by `ref_node_create` / the growth branch of `ref_node_add_core`:
    `global[e] = index2next(e+1)` for `e ∈ [orig, newMax)`, the last one `REF_EMPTY` -/
def freeRun (orig newMax : Nat) : List Int :=
  (List.range (newMax - orig)).map fun k =>
    if orig + k + 1 = newMax then (-1 : Int) else index2next (orig + k + 1)

structure NodeIds where
  n : Nat
  blank : Int
  global : List Int
  part : List Int
  sorted : List (Int × Nat)
  unusedStk : List Int
  maxUnused : Nat
  oldN : Int
  newN : Int
  deriving Repr, DecidableEq

namespace NodeIds

def max (s : NodeIds) : Nat := s.global.length
def keys (s : NodeIds) : List Int := s.sorted.map (·.1)
def nUnused (s : NodeIds) : Nat := s.unusedStk.length

/-- `ref_node_create` -/
def create : NodeIds :=
  { n := 0, blank := index2next 0, global := freeRun 0 20, part := List.replicate 20 0, sorted := [],
    unusedStk := [], maxUnused := 10, oldN := -1, newN := -1 }

/-- `ref_node_valid(ref_node,node)` -/
def validSlot (s : NodeIds) (node : Int) : Bool :=
  decide (node > -1) && decide (node < (s.max : Int)) && decide (s.global.getD node.toNat (-1) ≥ 0)

/-- `ref_node_valid` for an in-range natural slot index -/
def liveAt (s : NodeIds) (v : Nat) : Bool := decide (s.global.getD v (-1) ≥ 0)

/-- `ref_node_global(ref_node,node)` (macro: `REF_EMPTY` for an invalid slot) -/
def globalOf (s : NodeIds) (node : Int) : Int :=
  if s.validSlot node then s.global.getD node.toNat (-1) else -1

/-! ### `ref_sort_search_glob` (literal: `mid = n>>1` start, `lower<mid && mid<upper` loop) -/

def searchLoop (xs : List Int) (t : Int) : Nat → Nat → Nat → Nat → Option Nat
  | 0, _, _, _ => none
  | fuel + 1, lower, upper, mid =>
    if lower < mid ∧ mid < upper then
      if t ≥ xs.getD mid 0 then
        if t = xs.getD mid 0 then some mid
        else searchLoop xs t fuel mid upper ((mid + upper) / 2)
      else searchLoop xs t fuel lower mid ((lower + mid) / 2)
    else none

/-- `none` = `REF_NOT_FOUND` (position `REF_EMPTY`) -/
def searchGlob (xs : List Int) (t : Int) : Option Nat :=
  let n := xs.length
  if n < 1 then none
  else if t < xs.getD 0 0 ∨ t > xs.getD (n - 1) 0 then none
  else if t = xs.getD 0 0 then some 0
  else if t = xs.getD (n - 1) 0 then some (n - 1)
  else searchLoop xs t n 0 (n - 1) (n / 2)

/-- `ref_node_local` : `(REF_SUCCESS, local)` or `(REF_NOT_FOUND, REF_EMPTY)` -/
def localOf (s : NodeIds) (g : Int) : Status × Int :=
  match searchGlob s.keys g with
  | some loc => (.ok, ((s.sorted.getD loc (0, 0)).2 : Int))
  | none => (.not_found, -1)

/-! ### add -/

/-- the growth branch of `ref_node_add_core` (`REF_EMPTY == blank`): `chunk = MAX(5000,(REF_INT)(1.5*orig))` -/
def grow (s : NodeIds) : NodeIds :=
  if s.blank = -1 then
    let orig := s.max
    let chunk := Nat.max 5000 (orig + orig / 2)
    { s with global := s.global ++ freeRun orig (orig + chunk),
             part := s.part ++ List.replicate chunk 0,
             blank := index2next orig }
  else s

/-- `ref_node_add_core` -/
def addCore (s : NodeIds) (g : Int) : Status × Nat × NodeIds :=
  if g < 0 then (.invalid, 0, s) else
  let s := s.grow
  let node := next2index s.blank
  (.ok, node, { s with blank := s.global.getD node (-1),
                       global := s.global.set node g,
                       part := s.part.set node 0,
                       n := s.n + 1 })

/-- the backward scan of `ref_node_add`: the largest `location` with `sorted_global[location] < global`,
    plus one; `0` when there is none -/
def insertPointGo (ks : List Int) (g : Int) : Nat → Nat
  | 0 => 0
  | loc + 1 => if ks.getD loc 0 < g then loc + 1 else insertPointGo ks g loc

def insertPoint (ks : List Int) (g : Int) : Nat := insertPointGo ks g ks.length

/-- `ref_node_add` -/
def add (s : NodeIds) (g : Int) : Status × Nat × NodeIds :=
  if g < 0 then (.invalid, 0, s) else
  match searchGlob s.keys g with
  | some loc => (.ok, (s.sorted.getD loc (0, 0)).2, s)
  | none =>
    let r := s.addCore g
    let s1 := r.2.2
    let ip := insertPoint s.keys g
    -- "shift down to clear insert_point", then "insert in empty location"
    (.ok, r.2.1, { s1 with sorted := s1.sorted.take ip ++ (g, r.2.1) :: s1.sorted.drop ip })

/-! ### unused-global pool -/

/-- `ref_node_push_unused` -/
def pushUnused (s : NodeIds) (g : Int) : NodeIds :=
  { s with maxUnused := if s.maxUnused = s.nUnused then s.maxUnused + 1000 else s.maxUnused,
           unusedStk := g :: s.unusedStk }

/-- `ref_node_pop_unused` : `(REF_FAILURE, REF_EMPTY)` on an empty list -/
def popUnused (s : NodeIds) : Status × Int × NodeIds :=
  match s.unusedStk with
  | [] => (.failure, -1, s)
  | g :: rest => (.ok, g, { s with unusedStk := rest })

/-- `ref_node_initialize_n_global` -/
def initNGlobal (s : NodeIds) (k : Int) : NodeIds := { s with oldN := k, newN := k }

/-- `ref_node_next_global` -/
def nextGlobal (s : NodeIds) : Status × Int × NodeIds :=
  if 0 < s.nUnused then s.popUnused
  else
    let s := if s.newN = -1 then s.initNGlobal s.n else s
    (.ok, s.newN, { s with newN := s.newN + 1 })

/-! ### remove family -/

/-- the common tail: `global[node] = blank; blank = index2next(node); n--` -/
def freeSlot (s : NodeIds) (v : Nat) : NodeIds :=
  { s with global := s.global.set v s.blank, blank := index2next v, n := s.n - 1 }

/-- `ref_node_remove` -/
def remove (s : NodeIds) (node : Int) : Status × NodeIds :=
  if !s.validSlot node then (.invalid, s) else
  let v := node.toNat
  let g := s.global.getD v (-1)
  match searchGlob s.keys g with
  | none => (.not_found, s)
  | some loc => (.ok, (({ s with sorted := s.sorted.eraseIdx loc }).pushUnused g).freeSlot v)

/-- `ref_node_remove_invalidates_sorted` (the first `n-1` entries of the sorted arrays stay as they are) -/
def removeInvalidatesSorted (s : NodeIds) (node : Int) : Status × NodeIds :=
  if !s.validSlot node then (.invalid, s) else
  let v := node.toNat
  let g := s.global.getD v (-1)
  (.ok, (({ s with sorted := s.sorted.take (s.n - 1) }).pushUnused g).freeSlot v)

/-- `ref_node_remove_without_global` -/
def removeWithoutGlobal (s : NodeIds) (node : Int) : Status × NodeIds :=
  if !s.validSlot node then (.invalid, s) else
  let v := node.toNat
  let g := s.global.getD v (-1)
  match searchGlob s.keys g with
  | none => (.not_found, s)
  | some loc => (.ok, ({ s with sorted := s.sorted.eraseIdx loc }).freeSlot v)

/-- `ref_node_remove_without_global_invalidates_sorted` -/
def removeWithoutGlobalInvalidatesSorted (s : NodeIds) (node : Int) : Status × NodeIds :=
  if !s.validSlot node then (.invalid, s) else
  (.ok, ({ s with sorted := s.sorted.take (s.n - 1) }).freeSlot node.toNat)

/-! ### heap sort (`ref_sort_heap_glob` / `ref_sort_heap_int`), literal, on an index array -/

/-- the inner `while (j <= ir)` sift loop; returns the final hole `i` -/
def siftLoop (a : Array Int) (q : Int) (ir : Nat) : Nat → Array Nat → Nat → Nat → Array Nat × Nat
  | 0, idx, i, _ => (idx, i)
  | fuel + 1, idx, i, j =>
    if j ≤ ir then
      let j := if j < ir ∧ a.getD (idx.getD j 0) 0 < a.getD (idx.getD (j + 1) 0) 0 then j + 1 else j
      if q < a.getD (idx.getD j 0) 0 then
        siftLoop a q ir fuel (idx.setIfInBounds i (idx.getD j 0)) j (2 * (j + 1) - 1)
      else (idx, i)
    else (idx, i)

/-- the outer `for(;;)`; `l`, `ir` as in the C -/
def heapLoop (a : Array Int) : Nat → Array Nat → Nat → Nat → Array Nat
  | 0, idx, _, _ => idx
  | fuel + 1, idx, l, ir =>
    if l > 1 then
      let l := l - 1
      let indxt := idx.getD (l - 1) 0
      let q := a.getD indxt 0
      let r := siftLoop a q ir (a.size + 1) idx (l - 1) (l + (l - 1))
      heapLoop a fuel (r.1.setIfInBounds r.2 indxt) l ir
    else
      let indxt := idx.getD ir 0
      let q := a.getD indxt 0
      let idx := idx.setIfInBounds ir (idx.getD 0 0)
      let ir := ir - 1
      if ir = 0 then idx.setIfInBounds 0 indxt
      else
        let r := siftLoop a q ir (a.size + 1) idx (l - 1) (l + (l - 1))
        heapLoop a fuel (r.1.setIfInBounds r.2 indxt) l ir

/-- `ref_sort_heap_glob(n, original, sorted_index)` -/
def heapSortIdx (keys : List Int) : List Nat :=
  let n := keys.length
  if n < 2 then List.range n
  else (heapLoop keys.toArray (2 * n + 4) (Array.range n) (n / 2 + 1) (n - 1)).toList

/-- non-decreasing (Bool) -/
def isNondecr : List Int → Bool
  | [] => true
  | [_] => true
  | a :: b :: rest => decide (a ≤ b) && isNondecr (b :: rest)

/-- verified check of an index permutation that sorts `keys` -/
def sortsCheck (keys : List Int) (p : List Nat) : Bool :=
  (p.mergeSort (fun a b => decide (a ≤ b)) == List.range keys.length) &&
  isNondecr (p.map fun i => keys.getD i 0)

/-- fall-back sorting permutation (stable merge sort of the index list by key) -/
def mergeIdx (keys : List Int) : List Nat :=
  (List.range keys.length).mergeSort fun i j => decide (keys.getD i 0 ≤ keys.getD j 0)

/-- The sorting permutation used by `rebuild` and `add_many`: the literal heap sort of the C, passed
    through a *proved* checker (`sortsCheck`).  The fall-back branch is dead code as long as the heap sort
    is correct (C14 part A proves that for its own transcription); the driver prints `fallback` if it is
    ever taken, so the tie would show it.  The theorems only use `sortsCheck`'s specification. -/
def sortIdx (keys : List Int) : List Nat :=
  let p := heapSortIdx keys
  if sortsCheck keys p then p else mergeIdx keys

def heapOk (keys : List Int) : Bool := sortsCheck keys (heapSortIdx keys)

/-! ### rebuild / add_many -/

/-- `(global[node], node)` for the valid slots in slot order (`each_ref_node_valid_node`) -/
def livePairs (s : NodeIds) : List (Int × Nat) :=
  s.global.zipIdx.filter fun gv => decide (gv.1 ≥ 0)

/-- `ref_node_rebuild_sorted_global` -/
def rebuild (s : NodeIds) : NodeIds :=
  let pairs := s.livePairs
  let p := sortIdx (pairs.map (·.1))
  { s with sorted := p.map fun i => pairs.getD i (0, 0) }

/-- the duplicate-marking loop of `ref_node_add_many`:
    `j=0; for i in 1..nadd: if g[sorted[i]] != g[sorted[j]] then j=i else g[sorted[i]] = REF_EMPTY` -/
def markDups (p : List Nat) : List Int → Nat → List Nat → List Int
  | g, _, [] => g
  | g, pj, pi :: rest =>
    if g.getD pi 0 ≠ g.getD pj 0 then markDups p g pi rest
    else markDups p (g.set pi (-1)) pj rest

/-- `add_core` on every entry that is not `REF_EMPTY`, stopping at the first error -/
def addCoreAll : NodeIds → List Int → Status × NodeIds
  | s, [] => (.ok, s)
  | s, g :: rest =>
    if g = -1 then addCoreAll s rest
    else
      let r := s.addCore g
      if r.1 = .ok then addCoreAll r.2.2 rest else (r.1, r.2.2)

/-- `ref_node_add_many`.  On the error path (an entry `< -1`) the C returns before
    `rebuild_sorted_global`, leaving `sorted_*[old n .. n)` uninitialised; the harness and the driver both
    follow a failed `add_many` by `rebuild` so that this garbage is never observed. -/
def addMany (s : NodeIds) (orig : List Int) : Status × NodeIds :=
  let g := orig.filter fun x => (searchGlob s.keys x).isNone
  let p := sortIdx g
  let g := match p with
    | [] => g
    | p0 :: rest => markDups p g p0 rest
  let r := addCoreAll s g
  if r.1 = .ok then (.ok, r.2.rebuild) else r

/-! ### compact / pack -/

/-- the `o2n` pass of the compact functions: slots satisfying `sel` are numbered consecutively from `k`,
    every other slot keeps the value it has in `base` -/
def numberSlots (sel : Int → Int → Bool) : List (Int × Int) → List Int → Nat → List Int
  | [], _, _ => []
  | (g, p) :: rest, b :: base, k =>
    if sel g p then (k : Int) :: numberSlots sel rest base (k + 1) else b :: numberSlots sel rest base k
  | _ :: rest, [], k => numberSlots sel rest [] k

/-- the slots (ascending) with `sel global part` -/
def selectSlots (s : NodeIds) (sel : Int → Int → Bool) : List Nat :=
  ((s.global.zip s.part).zipIdx.filter fun gp => sel gp.1.1 gp.1.2).map (·.2)

/-- `ref_node_stable_compact` : `(o2n[0..max), n2o[0..n))` -/
def stableCompact (s : NodeIds) : Status × List Int × List Int :=
  let n2o := s.selectSlots fun g _ => decide (g ≥ 0)
  if n2o.length ≠ s.n then (.failure, [], []) else
  let o2n := numberSlots (fun g _ => decide (g ≥ 0)) (s.global.zip s.part) (List.replicate s.max (-1)) 0
  (.ok, o2n, n2o.map fun (v : Nat) => (v : Int))

/-- `ref_node_compact` : owned (`part == rank`) first, then ghosts -/
def compact (s : NodeIds) (rank : Int) : Status × List Int × List Int :=
  let own := s.selectSlots fun g p => decide (g ≥ 0) && p == rank
  let ghost := s.selectSlots fun g p => decide (g ≥ 0) && p != rank
  let n2o := own ++ ghost
  if n2o.length ≠ s.n then (.failure, [], []) else
  let gp := s.global.zip s.part
  let o2n := numberSlots (fun g p => decide (g ≥ 0) && p == rank) gp (List.replicate s.max (-1)) 0
  let o2n := numberSlots (fun g p => decide (g ≥ 0) && p != rank) gp o2n own.length
  (.ok, o2n, n2o.map fun (v : Nat) => (v : Int))

/-- `ref_node_pack(ref_node, o2n, n2o)` (slots renumbered; `sorted_global` untouched) -/
def pack (s : NodeIds) (o2n n2o : List Int) : NodeIds :=
  let n := s.n
  let head := (List.range n).map fun v => s.global.getD (n2o.getD v 0).toNat (-1)
  let headPart := (List.range n).map fun v => s.part.getD (n2o.getD v 0).toNat 0
  { s with global := head ++ (if n < s.max then freeRun n s.max else []),
           blank := if n < s.max then index2next n else -1,
           part := headPart ++ (s.part.drop n),
           sorted := s.sorted.map fun gl => (gl.1, (o2n.getD gl.2 0).toNat) }

end NodeIds
end Refine.Model.NodeIds
