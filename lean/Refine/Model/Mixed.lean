import Refine.Model.Guards
import Refine.Model.Collapse

/-!
  Mixed (properties C01 / C02 / C13): what refine does -- and refuses to do -- next to the cells it does not adapt.

  refine adapts simplices only.  Pyramids, prisms, hexahedra and boundary quadrilaterals are carried through an
  adaptation; the mechanism is a family of guards in front of the simplex operators:

  * `ref_split_edge_mixed` (ref_split.c), `ref_collapse_edge_mixed` (ref_collapse.c), `ref_swap_edge_mixed`
    (static, ref_swap.c), `ref_cavity_mixed` (static, ref_cavity.c): already transcribed loop by loop in
    `Model/Guards.lean` (`splitEdgeMixed`, `collapseEdgeMixed`, `swapEdgeMixed`, `cavityMixed` on the `Grid` list
    model, `hasSide` / `nodeEmpty` = `ref_cell_has_side` / `ref_adj_empty`, edge tables from the generated
    `Gen/CellTables.lean`).  They are used here, not copied.
  * the early exits of `ref_smooth_tet_improve` ("can't handle boundaries yet", "can't mixed elements") and the two
    caller loops of `ref_smooth_pass` that offer vertices to it (`smoothTetFrozen`, `passInterior`, `passLowQuality`);
  * the cavity's treatment of mixed neighbours: every `ref_cavity_form_*` ends in `REF_CAVITY_MANIFOLD_CONSTRAINED`
    before touching anything when the grid has a pyramid or a prism (`cavityFormGate` -- hexahedra are NOT part of
    that test), and `ref_cavity_enlarge_face` refuses a face with a vertex on a qua/pyr/pri/hex (`cavityFaceGate`).

  New here: a mesh with ALL cell groups, vertex validity and coordinates (`Mesh`), and the simplex operators the
  guards stand in front of, as operators on that mesh: `splitEdge` (`ref_split_edge`), `collapseEdge`
  (`ref_collapse_edge`, reusing `Collapse.collapseEdge`), `swapTriEdge` (`ref_swap_tri_edge`), `moveNode` (what an
  accepted smoothing step does), `cavityReplace` (the cell / vertex bookkeeping of `ref_cavity_replace`), each with
  its guarded form (`guardedSplit`, ...) and one `step` function over an operation history.
  The kernels only rewrite tet / tri / edg rows; what the guards protect is (i) the coordinates and the validity of
  the vertices of the frozen cells (collapse removes a vertex, smoothing moves one, the cavity drops vertices left
  without a simplex) and (ii) the conformity of the simplices with the triangular faces of pyramids and prisms
  (a split edge of such a face leaves a hanging node).  Theorems: `Props/C02Mixed.lean`.

  Cells are compared as multisets by the tie (the C re-uses freed rows, the lists here keep insertion order), no
  result of a modelled function depends on the order.  Core-only imports.
-/
namespace Refine.Model.Mixed
open Refine Refine.Model Refine.Model.Guards Refine.Gen.CellTables

/-! ## tables -/

/-- triangular faces (`f2n` rows whose fourth entry repeats the first) of a cell type, as local node indices -/
def triFacesOf (ct : CellType) : List (List Nat) :=
  (ct.f2n.map Refine.Model.CellTopo.faceNodes).filter fun f => f.length == 3

/-- quadrilateral faces of a cell type -/
def quaFacesOf (ct : CellType) : List (List Nat) :=
  (ct.f2n.map Refine.Model.CellTopo.faceNodes).filter fun f => f.length == 4

def triF2nTet : List (List Nat) := triFacesOf tet
def triF2nPyr : List (List Nat) := triFacesOf pyr
def triF2nPri : List (List Nat) := triFacesOf pri
def triF2nHex : List (List Nat) := triFacesOf hex

/-- the vertices of face `f` (local indices) of cell `c` -/
def faceOf (c : Cell) (f : List Nat) : List Nat := f.map c.nd

/-- the triangular faces of the non-simplex volume cells of a grid (vertex triples); hexahedra have none -/
def mixedTriFaces (g : Grid) : List (List Nat) :=
  (g.pyr.flatMap fun c => triF2nPyr.map (faceOf c)) ++ (g.pri.flatMap fun c => triF2nPri.map (faceOf c)) ++
  (g.hex.flatMap fun c => triF2nHex.map (faceOf c))

/-- `MAX_CELL_SPLIT` (ref_split.c) -/
def MAX_CELL_SPLIT : Nat := 100

/-! ## the guards (those of `Model/Guards.lean`) and the smoother's freeze test -/

/-! `Guards.splitEdgeMixed` (`ref_split_edge_mixed`: pyr, pri, hex, qua `ref_cell_has_side`), `Guards.collapseEdgeMixed`
    (`ref_collapse_edge_mixed`: `ref_adj_empty` of pyr, pri, hex, qua at `node1`; node0 is not looked at),
    `Guards.swapEdgeMixed` (`ref_swap_edge_mixed`, static: qua, pri, pyr, hex `ref_cell_has_side`) and
    `Guards.cavityMixed` (`ref_cavity_mixed`, static: both ends free of pyr, pri, hex, qua) are used as they are. -/

/-- "can't mixed elements" (ref_smooth.c): the node is a vertex of a pyramid, prism or hexahedron
    (`!ref_cell_node_empty(pyr) || !ref_cell_node_empty(pri) || !ref_cell_node_empty(hex)`) -/
def nodeTouchesMixed (g : Grid) (node : Nat) : Bool :=
  !nodeEmpty g.pyr node || !nodeEmpty g.pri node || !nodeEmpty g.hex node

/-- the two early exits of `ref_smooth_tet_improve(ref_grid, node)`: `true` = the function returns `REF_SUCCESS`
    before it reads a coordinate ("can't handle boundaries yet": tri or qua at the node; "can't mixed elements") -/
def smoothTetFrozen (g : Grid) (node : Nat) : Bool :=
  if !nodeEmpty g.tri node || !nodeEmpty g.qua node then true else
  if nodeTouchesMixed g node then true else false

/-- `interior` of the "smooth interior" loop of `ref_smooth_pass` -/
def interior1 (g : Grid) (node : Nat) : Bool :=
  nodeEmpty g.tri node && nodeEmpty g.qua node && !nodeEmpty g.tet node

/-- `interior` of the "smooth low quality tets" loop of `ref_smooth_pass` (no tet test, no mixed test) -/
def interior2 (g : Grid) (node : Nat) : Bool := nodeEmpty g.tri node && nodeEmpty g.qua node

/-- the vertices the first loop hands to `ref_smooth_tet_improve`, in visiting order (`each_ref_node_valid_node`:
    increasing slot); `ref_smooth_local_cell_about` always allows on one rank -/
def passInterior (g : Grid) (valid : List Nat) : List Nat := valid.filter (interior1 g)

/-- the vertices the second loop hands to `ref_smooth_tet_improve`: for every tet (cell order) whose quality is
    below 0.10 (`low`, decided by `ref_node_tet_quality`), its four nodes in cell-node order -/
def passLowQuality (g : Grid) (low : List Bool) : List Nat :=
  (g.tet.zip low).flatMap fun cl => if cl.2 then cl.1.nodes.filter (interior2 g) else []

/-! ## the cavity's gates -/

/-- "mixed element protections are not mature": `ref_cell_n(pyr) > 0 || ref_cell_n(pri) > 0` at the top of every
    `ref_cavity_form_*` ⇒ state `REF_CAVITY_MANIFOLD_CONSTRAINED`, nothing gathered.  Hexahedra do not count. -/
def cavityFormGate (g : Grid) : Bool := !g.pyr.isEmpty || !g.pri.isEmpty

/-- "make sure all face nodes are tet" (`ref_cavity_enlarge_face`): `true` = `REF_CAVITY_MANIFOLD_CONSTRAINED` -/
def cavityFaceGate (g : Grid) (face : List Nat) : Bool :=
  face.any fun n => !(nodeEmpty g.pyr n && nodeEmpty g.pri n && nodeEmpty g.hex n && nodeEmpty g.qua n)

/-! ## the mesh -/

/-- all cell groups, and the valid vertices with their coordinates (`P` is the coordinate type: three doubles in
    the driver; the frame theorems do not look inside) -/
structure Mesh (P : Type) where
  g : Grid
  pts : List (Nat × P)

variable {P : Type}

/-- `ref_node_valid(ref_node, node)` -/
def Mesh.valid (m : Mesh P) (n : Nat) : Bool := m.pts.any fun q => q.1 == n

/-- `ref_node_xyz(ref_node, *, node)` of a valid node -/
def Mesh.xyz? (m : Mesh P) (n : Nat) : Option P := (m.pts.find? fun q => q.1 == n).map (·.2)

/-- the cells refine must carry through unchanged -/
def Mesh.frozenCells (m : Mesh P) : List Cell := m.g.qua ++ m.g.pyr ++ m.g.pri ++ m.g.hex

/-- the vertices of the frozen cells -/
def Mesh.frozenNodes (m : Mesh P) : List Nat := m.frozenCells.flatMap (·.nodes)

/-- what C02 says is preserved: the four non-simplex groups (node tuples, ids) and, for each of their vertices, its
    validity and coordinates -/
def Mesh.frozen (m : Mesh P) : (List Cell × List Cell × List Cell × List Cell) × List (Nat × Option P) :=
  ((m.g.qua, m.g.pyr, m.g.pri, m.g.hex), m.frozenNodes.map fun n => (n, m.xyz? n))

/-! ## the operators -/

/-- `ref_node_add` of the trial vertex + `ref_node_interpolate_edge` (its position `p` is computed by the caller):
    the slot handed out is never a valid one -/
def addNode (m : Mesh P) (new : Nat) (p : P) : Status × Mesh P :=
  if m.valid new then (.failure, m) else (.ok, { m with pts := m.pts ++ [(new, p)] })

/-- `ref_split_edge(ref_grid, node0, node1, new_node)` on the cell groups: tet, tri, edg; a group with more than
    `MAX_CELL_SPLIT` cells on the edge returns `REF_INCREASE_LIMIT` (the groups before it are already split) -/
def splitCells (g : Grid) (n0 n1 new : Nat) : Status × Grid :=
  if (having2 g.tet n0 n1).length > MAX_CELL_SPLIT then (.increase_limit, g) else
  let g := { g with tet := splitGroup g.tet n0 n1 new }
  if (having2 g.tri n0 n1).length > MAX_CELL_SPLIT then (.increase_limit, g) else
  let g := { g with tri := splitGroup g.tri n0 n1 new }
  if (having2 g.edg n0 n1).length > MAX_CELL_SPLIT then (.increase_limit, g) else
  (.ok, { g with edg := splitGroup g.edg n0 n1 new })

/-- the accepted branch of the edge loop of `ref_split_pass`: trial vertex, then `ref_split_edge` -/
def splitEdge (m : Mesh P) (n0 n1 new : Nat) (p : P) : Status × Mesh P :=
  let a := addNode m new p
  if a.1 ≠ .ok then a else
  let r := splitCells a.2.g n0 n1 new
  (r.1, { a.2 with g := r.2 })

/-- `ref_node_remove(ref_node, node)` -/
def removeNode (m : Mesh P) (n : Nat) : Status × Mesh P :=
  if m.valid n then (.ok, { m with pts := m.pts.filter fun q => !(q.1 == n) }) else (.invalid, m)

/-- `ref_collapse_edge(ref_grid, node0, node1)`: the three simplex groups (`Collapse.collapseEdge`), then
    `ref_node_remove(node1)` -/
def collapseEdge (m : Mesh P) (n0 n1 : Nat) : Status × Mesh P :=
  let r := Collapse.collapseEdge m.g n0 n1
  if r.1 ≠ .ok then (r.1, { m with g := r.2 }) else
  removeNode { m with g := r.2 } n1

/-- `ref_swap_tri_edge` (static, ref_swap.c): the two triangles on the edge become `(n0,n3,n2)`, `(n1,n2,n3)`, both
    with the id of `cell_to_swap[0]` -/
def swapCells (g : Grid) (n0 n1 : Nat) : Status × Grid :=
  match swapNode23 g n0 n1 with
  | (.ok, n2, n3) =>
    match listWith2 g.tri n0 n1 2 with
    | (.ok, [c0, c1]) =>
      (.ok, { g with tri := ((g.tri.erase c0).erase c1) ++ [⟨[n0, n3, n2], c0.id⟩, ⟨[n1, n2, n3], c0.id⟩] })
    | (.ok, _) => (.failure, g)
    | (st, _) => (st, g)
  | (st, _, _) => (st, g)

def swapTriEdge (m : Mesh P) (n0 n1 : Nat) : Status × Mesh P :=
  let r := swapCells m.g n0 n1
  (r.1, { m with g := r.2 })

/-- an accepted smoothing step: `ref_node_xyz(node) = p` -/
def moveNode (m : Mesh P) (node : Nat) (p : P) : Mesh P :=
  { m with pts := m.pts.map fun q => if q.1 == node then (q.1, p) else q }

/-- remove one row equal to each listed one -/
def eraseAll (cs : List Cell) : List Cell → List Cell
  | [] => cs
  | c :: rest => eraseAll (cs.erase c) rest

/-- the cell / vertex bookkeeping of `ref_cavity_replace`: the new tets and tris are added, the listed ones removed,
    and every vertex of a removed cell that is left without tet and without tri is removed (`ref_node_remove`) --
    pyr/pri/hex/qua are not consulted by that test -/
def cavityReplace (m : Mesh P) (delTet delTri newTet newTri : List Cell) : Mesh P :=
  let tet := eraseAll (m.g.tet ++ newTet) delTet
  let tri := eraseAll (m.g.tri ++ newTri) delTri
  let cand := (delTet ++ delTri).flatMap (·.nodes)
  let gone := cand.filter fun n => nodeEmpty tri n && nodeEmpty tet n
  { g := { m.g with tet := tet, tri := tri }, pts := m.pts.filter fun q => !gone.contains q.1 }

/-! ## guarded operators: what the passes do -/

/-- `ref_split_pass`: `ref_split_edge_mixed` refuses ⇒ `continue`; else the trial vertex and `ref_split_edge` -/
def guardedSplit (m : Mesh P) (n0 n1 new : Nat) (p : P) : Bool × Status × Mesh P :=
  if !splitEdgeMixed m.g n0 n1 then (false, .ok, m) else
  let r := splitEdge m n0 n1 new p
  (true, r.1, r.2)

/-- `ref_collapse_to_remove_node1`: `ref_collapse_edge_mixed` refuses ⇒ next candidate; else (the other guards
    are `Model/Collapse.lean`'s business) `ref_collapse_edge` -/
def guardedCollapse (m : Mesh P) (n0 n1 : Nat) : Bool × Status × Mesh P :=
  if !collapseEdgeMixed m.g n0 n1 then (false, .ok, m) else
  let r := collapseEdge m n0 n1
  (true, r.1, r.2)

/-- `ref_swap_tri_pass`: `ref_swap_edge_mixed` refuses ⇒ `continue`; else `ref_swap_tri_edge` -/
def guardedSwap (m : Mesh P) (n0 n1 : Nat) : Bool × Status × Mesh P :=
  if !swapEdgeMixed m.g n0 n1 then (false, .ok, m) else
  let r := swapTriEdge m n0 n1
  (true, r.1, r.2)

/-- `ref_smooth_tet_improve`: frozen ⇒ return; else the vertex may end anywhere (`p`) -/
def guardedMove (m : Mesh P) (node : Nat) (p : P) : Bool × Mesh P :=
  if smoothTetFrozen m.g node then (false, m) else (true, moveNode m node p)

/-- a cavity operation: formed only when the grid has no pyramid and no prism -/
def guardedCavity (m : Mesh P) (delTet delTri newTet newTri : List Cell) : Bool × Mesh P :=
  if cavityFormGate m.g then (false, m) else (true, cavityReplace m delTet delTri newTet newTri)

/-- one operation of an adaptation history -/
inductive Op (P : Type) where
  | split (n0 n1 new : Nat) (p : P)
  | collapse (n0 n1 : Nat)
  | swap (n0 n1 : Nat)
  | move (node : Nat) (p : P)
  | cavity (delTet delTri newTet newTri : List Cell)

/-- the state after one guarded operation (whatever its status: a refused or failed operation leaves whatever the
    C leaves) -/
def step (m : Mesh P) : Op P → Mesh P
  | .split n0 n1 new p => (guardedSplit m n0 n1 new p).2.2
  | .collapse n0 n1 => (guardedCollapse m n0 n1).2.2
  | .swap n0 n1 => (guardedSwap m n0 n1).2.2
  | .move node p => (guardedMove m node p).2
  | .cavity dt dr nt nr => (guardedCavity m dt dr nt nr).2

/-- the state after a history -/
def run (m : Mesh P) (ops : List (Op P)) : Mesh P := ops.foldl step m

/-! ## conformity of the simplices with the triangular faces of the frozen cells -/

/-- all of `k` are vertices of the cell -/
def covers (c : Cell) (k : List Nat) : Bool := k.all fun n => c.nodes.contains n

/-- the triangle `k` is a face of a tet or a boundary tri (as vertex sets) -/
def matched (g : Grid) (k : List Nat) : Bool := g.tet.any (covers · k) || g.tri.any (covers · k)

/-- every triangular face of a pyramid / prism has a simplex on it: no hanging node, no hole -/
def interfaceMatched (g : Grid) : Bool := (mixedTriFaces g).all (matched g)

/-- number of tet faces + boundary tris with exactly the vertex set of `k` (a tet covering three distinct vertices
    has exactly one such face) -/
def coverCount (g : Grid) (k : List Nat) : Nat := (g.tet.filter (covers · k)).length + (g.tri.filter (covers · k)).length

/-- restricted to the faces that contain one of the touched vertices `vs` (what a hook record can show) -/
def interfaceMatchedAt (g : Grid) (vs : List Nat) : Bool :=
  ((mixedTriFaces g).filter fun k => k.any vs.contains).all (matched g)

/-- same vertex set -/
def sameSet (a b : List Nat) : Bool := a.all b.contains && b.all a.contains

/-- C01 at a triangular face `k` of a pyramid / prism: shared by exactly two cells (the non-simplex cells having it as
    a face + the tets on it) and no boundary tri, or by one cell and exactly one boundary tri -/
def faceConforming (g : Grid) (k : List Nat) : Bool :=
  let nvol := (g.tet.filter (covers · k)).length + ((mixedTriFaces g).filter (sameSet k)).length
  let ntri := (g.tri.filter (covers · k)).length
  (nvol == 2 && ntri == 0) || (nvol == 1 && ntri == 1)

/-- every triangular face of a pyramid / prism of the star that contains a touched vertex is conforming -/
def conformingAt (g : Grid) (vs : List Nat) : Bool :=
  ((mixedTriFaces g).filter fun k => k.any vs.contains).all (faceConforming g)

/-! ## 2-D grids: triangles are the cells, `edg` the boundary, quadrilaterals the frozen cells -/

/-- the sides of the quadrilaterals (vertex pairs, from the generated `e2n` table) -/
def quaSides (g : Grid) : List (List Nat) := g.qua.flatMap fun c => e2nQua.map fun p => [c.nd p.1, c.nd p.2]

/-- the side `k` of a quadrilateral is a side of a triangle or a boundary edge -/
def matched2 (g : Grid) (k : List Nat) : Bool := g.tri.any (covers · k) || g.edg.any (covers · k)

/-- no hanging node on a quadrilateral side -/
def interfaceMatched2 (g : Grid) : Bool := (quaSides g).all (matched2 g)

/-- C01 at a side `k` of a quadrilateral of a 2-D grid: two cells (quads with that side + triangles on it) and no
    boundary edge, or one cell and exactly one boundary edge -/
def sideConforming (g : Grid) (k : List Nat) : Bool :=
  let ncell := (g.tri.filter (covers · k)).length + ((quaSides g).filter (sameSet k)).length
  let nedg := (g.edg.filter (covers · k)).length
  (ncell == 2 && nedg == 0) || (ncell == 1 && nedg == 1)

def conformingAt2 (g : Grid) (vs : List Nat) : Bool :=
  ((quaSides g).filter fun k => k.any vs.contains).all (sideConforming g)

end Refine.Model.Mixed
