import Refine.Model.Interp
import Refine.Model.Comm
import Refine.Gen.InterpConsts

/-!
  The staged donor search `ref_interp_locate` of `ref_interp.c`, with the walking agents of `ref_agents.c`, as an SPMD
  function over `World` (`Model/Comm.lean`), generic over `Scalar`.

    stage 1  `geomStage`      = `ref_interp_geom_nodes`: receptor geometry nodes are seeded from the best cell AROUND THE
                                NEAREST donor geometry node (`ref_mpi_allconcat`, per-rank nearest, `ref_mpi_allminwho`,
                                `ref_interp_exhaustive_tet/tri_around_node` on the winner, four `ref_mpi_blindsend`s) and
                                accepted when all four weights pass the tolerance read from the C text
                                (`Gen.InterpConsts.geomAcceptUsesInside / geomAcceptStrict`); accepted nodes hire walking
                                agents for their neighbours (`ref_interp_push_onto_queue`).
    stage 2  `processAgents`  = `ref_interp_process_agents`: sweeps of walk (`ref_interp_walk_agent`, step limit, hop to
                                the rank owning the next cell), `ref_agents_migrate`, and the five `each_active_ref_agent`
                                loops (hop arrival, suggestion arrival, boundary/terminated, enclosing = store + push).
    stage 3  `treeStage`      = `ref_interp_tree` in parallel: every rank proposes its best candidate for every target,
                                `ref_mpi_allminwho` on the negated min weight picks the proposer, it sends cell + weights.
    `locate`                  = `ref_interp_locate`: stages 1, 2, then stage 3 with the `fuzz *= 10` retry loop.
    (`ref_interp_nearest_tet_via_tri_in_tree` is only reached from `ref_interp_locate_nearest`, a different entry point
     that `ref interpolate` / `adapt` do not call: not modelled.)

  `ref_interp->bary` is `ref_malloc`ed and never initialised: the model keeps one `Option` per slot (`Slots`), `none` =
  never written.  Every copy loop has the bound the C text has (`Gen.InterpConsts.geomCopy`, `walkCopy`, `processCopy`,
  `treeCopy`, `packBary`, `unpackBary`), and for 2-D donors the three `ref_node_bary3` weights and the explicit
  `[3] = 0.0` are written separately (`storeBary`).

  The agent container keeps the slot discipline of `ref_agents.c` as far as the outcome depends on it: slots are handed
  out from the `blank` chain (freed slots LIFO on top of the never-used ones, growth by `MAX(5000, 1.5 max)`), and every
  `each_active_ref_agent` loop visits the agents by increasing slot.  (`previous/next/last`, only used by
  `ref_agents_pop`, are not modelled.)

  `rand()` in `ref_update_agent_tet/tri_seed` (which off-rank node of the face to hop to) is a parameter: a linear
  congruential generator state per rank that the harness substitutes for `rand` in its white-box copy.

  Tie: `Drivers/InterpLocate.lean` vs `harness/h_interplocate.c`.  Theorems: `Props/C11Locate.lean`.
-/
namespace Refine.Model.InterpLocate
open Refine Refine.Model.Geom Refine.Model.Search Refine.Model.Interp Refine.Model.Comm
open Refine.Gen

variable {α : Type} [Scalar α]

/-- a decimal literal of the C text -/
@[inline] def lit (p : Int × Int) : α := Scalar.ofDec p.1 p.2

/-- `ref_interp->inside` -/
@[inline] def insideTol : α := lit InterpConsts.inside
/-- `ref_interp->bound` -/
@[inline] def boundTol : α := lit InterpConsts.bound
/-- the tolerance member the seed acceptance test of `ref_interp_geom_nodes` reads -/
@[inline] def geomTol : α := if InterpConsts.geomAcceptUsesInside then insideTol else boundTol
/-- the tolerance member `ref_interp_bary_inside` reads -/
@[inline] def walkTol : α := if InterpConsts.insideMacroUsesInside then insideTol else boundTol

/-! ## four barycentric slots, each possibly never written -/

structure Slots (α : Type) where
  s0 : Option α
  s1 : Option α
  s2 : Option α
  s3 : Option α

namespace Slots

/-- fresh `ref_malloc` memory -/
def unwritten : Slots α := ⟨none, none, none, none⟩

def toList (s : Slots α) : List (Option α) := [s.s0, s.s1, s.s2, s.s3]

def ofList (l : List (Option α)) : Slots α :=
  ⟨(l.getD 0 none), (l.getD 1 none), (l.getD 2 none), (l.getD 3 none)⟩

/-- `for (i = 0; i < n; i++) dst[i] = src[i];` -/
def copyN (n : Nat) (dst src : Slots α) : Slots α :=
  ⟨if 0 < n then src.s0 else dst.s0, if 1 < n then src.s1 else dst.s1,
   if 2 < n then src.s2 else dst.s2, if 3 < n then src.s3 else dst.s3⟩

/-- `ref_node_bary4(…, bary)`: four slots written -/
def write4 (_s : Slots α) (b : B4 α) : Slots α := ⟨some b.b0, some b.b1, some b.b2, some b.b3⟩

/-- `ref_node_bary3(…, bary)`: slots 0..2 written, slot 3 untouched -/
def write3 (s : Slots α) (b : B4 α) : Slots α := ⟨some b.b0, some b.b1, some b.b2, s.s3⟩

/-- `bary[3] = 0.0;` -/
def zero3 (s : Slots α) : Slots α := { s with s3 := some lit0 }

/-- every slot written -/
def written (s : Slots α) : Bool := s.s0.isSome && s.s1.isSome && s.s2.isSome && s.s3.isSome

/-- C comparison against a tolerance on every slot; a never-written slot is treated as failing -/
def all (p : α → Bool) (s : Slots α) : Bool :=
  (s.s0.map p).getD false && (s.s1.map p).getD false && (s.s2.map p).getD false && (s.s3.map p).getD false

end Slots

/-- what the C stores for the weights of cell `n` at `x`: tet: `ref_node_bary4` into the four slots; 2-D donor:
    `ref_node_bary3` into slots 0..2 and the explicit `[3] = 0.0` -/
def storeBary (twod : Bool) (s : Slots α) (b : B4 α) : Slots α :=
  if twod then (s.write3 b).zero3 else s.write4 b

/-! ## the distributed grids as one rank sees them -/

/-- one rank's part of the donor grid: the serial view `d` (local node coordinates, local cells by increasing id, local
    boundary triangles), global id and owner of every local node, the order `each_ref_cell_having_node` visits the cells
    around a node, and the owned geometry nodes (`ref_interp_geom_node_list`) -/
structure DonorR (α : Type) where
  d : Donor α
  glob : List Int
  part : List Int
  around : List (List Int)
  geom : List Nat

/-- one rank's part of the receptor grid; `nbrs` is `ref_grid_node_list_around` (its order, cut at `MAX_NODE_LIST`) -/
structure RecvR (α : Type) where
  xyz : List (V3 α)
  glob : List Int
  part : List Int
  nbrs : List (List Nat)
  geom : List Nat

def RecvR.pt (rc : RecvR α) (i : Nat) : V3 α := rc.xyz.getD i ⟨lit0, lit0, lit0⟩
def RecvR.owned (rc : RecvR α) (r : Nat) (i : Nat) : Bool := rc.part.getD i (-1) == (r : Int)
def DonorR.owned (dr : DonorR α) (r : Nat) (i : Nat) : Bool := dr.part.getD i (-1) == (r : Int)

/-- `ref_node_local` -/
def localOf (globs : List Int) (g : Int) : Option Nat :=
  let i := globs.findIdx (· == g)
  if i < globs.length then some i else none

/-! ## grid helpers the driver uses to build the views (insertion order = the harness' `ref_cell_add` order) -/

/-- `ref_adj_add` puts the new item first: the cells around a node are visited latest-added first -/
def aroundOfCells (nnode : Nat) (cells : List (Int × List Nat)) : List (List Int) :=
  (List.range nnode).map fun i => ((cells.filter fun c => c.2.contains i).map (·.1)).reverse

/-- `ref_grid_node_list_around` over the cell groups in `each_ref_grid_2d_3d_ref_cell` order (each group: cells in
    `each_ref_cell_having_node` order, then the cell's nodes in order), no repeats, at most `MAX_NODE_LIST` -/
def nodeListAround (groups : List (List (List Nat))) (node : Nat) : List Nat :=
  let step (acc : List Nat) (c : Nat) : List Nat :=
    if c == node || acc.contains c || acc.length ≥ InterpConsts.maxNodeList then acc else acc ++ [c]
  groups.foldl (fun acc g => ((g.filter fun c => c.contains node).reverse).foldl (fun acc c => c.foldl step acc) acc) []

/-- distinct ids in a list, `ref_cell_id_list_around` style -/
def distinctIds (ids : List Int) : Nat := ids.eraseDups.length

/-- `ref_interp_geom_node_list`: owned nodes with `>= 3` face ids or `>= 2` edge ids, in local order -/
def geomNodeList (r : Nat) (part : List Int) (faces : List (List Nat × Int)) (edges : List (List Nat × Int)) : List Nat :=
  (List.range part.length).filter fun i =>
    part.getD i (-1) == (r : Int) &&
    (decide (3 ≤ distinctIds ((faces.filter fun f => f.1.contains i).map (·.2))) ||
     decide (2 ≤ distinctIds ((edges.filter fun f => f.1.contains i).map (·.2))))

/-! ## walking agents -/

inductive AMode where
  | walking | atBoundary | hopPart | suggestion | enclosing | terminated
  deriving DecidableEq, Repr

/-- the `REF_AGENT_MODE` enumerators -/
def AMode.code : AMode → Int
  | .walking => 1 | .atBoundary => 2 | .hopPart => 3 | .suggestion => 4 | .enclosing => 5 | .terminated => 6

def AMode.ofCode (c : Int) : Option AMode :=
  if c == 1 then some .walking else if c == 2 then some .atBoundary else if c == 3 then some .hopPart
  else if c == 4 then some .suggestion else if c == 5 then some .enclosing else if c == 6 then some .terminated else none

structure AgentP (α : Type) where
  mode : AMode
  home : Int
  node : Int
  part : Int
  seed : Int
  glob : Int
  step : Int
  xyz : V3 α
  bary : Slots α

/-- `REF_AGENTS`: the active agents by increasing slot, and the `blank` chain = `freed` (LIFO) followed by the
    never-used slots `fresh .. max-1` -/
structure Agents (α : Type) where
  act : List (Nat × AgentP α)
  freed : List Nat
  fresh : Nat
  max : Nat

namespace Agents

/-- `ref_agents_create` -/
def create : Agents α := ⟨[], [], 0, InterpConsts.agentsMax0⟩

def n (a : Agents α) : Nat := a.act.length

def get? (a : Agents α) (id : Nat) : Option (AgentP α) := (a.act.find? fun p => p.1 == id).map (·.2)

def insertSorted (id : Nat) (ag : AgentP α) : List (Nat × AgentP α) → List (Nat × AgentP α)
  | [] => [(id, ag)]
  | p :: rest => if id < p.1 then (id, ag) :: p :: rest else p :: insertSorted id ag rest

/-- `ref_agents_new`: next slot of the blank chain; an empty chain grows the array by
    `MAX(chunkMin, (REF_INT)(num/den * max))` -/
def alloc (a : Agents α) : Nat × Agents α :=
  match a.freed with
  | id :: rest => (id, { a with freed := rest })
  | [] =>
    if a.fresh < a.max then (a.fresh, { a with fresh := a.fresh + 1 })
    else
      let chunk := Nat.max InterpConsts.agentsChunkMin (InterpConsts.agentsGrowNum * a.max / InterpConsts.agentsGrowDen)
      (a.max, { a with fresh := a.max + 1, max := a.max + chunk })

/-- `ref_agents_push` / the receive side of `ref_agents_migrate`: a new slot filled with `ag` -/
def push (a : Agents α) (ag : AgentP α) : Nat × Agents α :=
  let (id, a') := a.alloc
  (id, { a' with act := insertSorted id ag a'.act })

/-- `ref_agents_remove` of an active slot -/
def remove (a : Agents α) (id : Nat) : Agents α :=
  if a.act.any (fun p => p.1 == id) then { a with act := a.act.filter (fun p => p.1 != id), freed := id :: a.freed }
  else a

def set (a : Agents α) (id : Nat) (ag : AgentP α) : Agents α :=
  { a with act := a.act.map fun p => if p.1 == id then (id, ag) else p }

/-- the slots `each_active_ref_agent` visits -/
def ids (a : Agents α) : List Nat := a.act.map (·.1)

/-- `ref_agents_delete(node)`: every active agent whose `node` member equals `node` is removed, by increasing slot -/
def deleteNode (a : Agents α) (node : Int) : Agents α :=
  ((a.act.filter fun p => p.2.node == node).map (·.1)).foldl remove a

end Agents

/-! ## per-rank state of `REF_INTERP` -/

structure RankSt (α : Type) where
  cell : List Int
  part : List Int
  bary : List (Slots α)
  hired : List Bool
  /-- instrumentation (not in the C): the stage that stored the cell, 0 = none, 1 geom, 2 walk, 3 tree -/
  stage : List Nat
  ag : Agents α
  /-- state of the substituted `rand()` -/
  rnd : Nat
  nGeom : Int
  nGeomFail : Int
  nWalk : Int
  nTerminated : Int
  walkSteps : Int
  nTree : Int
  treeCells : Int

/-- `ref_interp_create` for a receptor with `n` local nodes -/
def RankSt.create (n : Nat) (rnd : Nat) : RankSt α :=
  ⟨List.replicate n refEmpty, List.replicate n refEmpty, List.replicate n Slots.unwritten, List.replicate n false,
   List.replicate n 0, Agents.create, rnd, 0, 0, 0, 0, 0, 0, 0⟩

def RankSt.cellOf (st : RankSt α) (i : Nat) : Int := st.cell.getD i refEmpty
def RankSt.baryOf (st : RankSt α) (i : Nat) : Slots α := st.bary.getD i Slots.unwritten

/-- store a located cell for local node `node`: `cell`, `part`, the copy loop with its bound, and the stage tag -/
def RankSt.store (st : RankSt α) (node : Nat) (cell proc : Int) (n : Nat) (src : Slots α) (stage : Nat) : RankSt α :=
  { st with cell := st.cell.set node cell, part := st.part.set node proc,
            bary := st.bary.set node (Slots.copyN n (st.baryOf node) src),
            stage := st.stage.set node stage }

/-- collect per-rank results, first error wins -/
def collect {β : Type} : List (Except ISt β) → Except ISt (List β)
  | [] => .ok []
  | .error e :: _ => .error e
  | .ok b :: rest => (collect rest).map (b :: ·)

/-! ## `ref_interp_push_onto_queue` -/

/-- one neighbour `other` of the located node `node` -/
def pushOne (r : Nat) (rc : RecvR α) (node : Nat) (st : RankSt α) (other : Nat) : RankSt α :=
  let seedPart := st.part.getD node refEmpty
  let seedCell := st.cellOf node
  if rc.owned r other then
    if st.cellOf other == refEmpty && !(st.hired.getD other false) then
      let ag : AgentP α := ⟨.walking, (r : Int), (other : Int), seedPart, seedCell, refEmpty, 0, rc.pt other, Slots.unwritten⟩
      { st with hired := st.hired.set other true, ag := (st.ag.push ag).2 }
    else st
  else
    let ag : AgentP α :=
      ⟨.suggestion, rc.part.getD other (-1), refEmpty, seedPart, seedCell, rc.glob.getD other (-1), 0, rc.pt other,
       Slots.unwritten⟩
    { st with ag := (st.ag.push ag).2 }

/-- `ref_interp_push_onto_queue(node)`: `RAS` valid + owned, `RUS(REF_EMPTY, cell[node])`, then every neighbour -/
def pushOntoQueue (r : Nat) (rc : RecvR α) (st : RankSt α) (node : Nat) : Except ISt (RankSt α) :=
  if !(node < rc.xyz.length) || !(rc.owned r node) || st.cellOf node == refEmpty then .error .failure
  else .ok ((rc.nbrs.getD node []).foldl (pushOne r rc node) st)

/-! ## the exchange of located records (`node`, `cell`, `proc`, four weights) by four blind sends -/

/-- cut a flat receive buffer into items of `ldim` elements -/
def chunks {β : Type} (ldim : Nat) : Nat → List β → List (List β)
  | 0, _ => []
  | k + 1, l => l.take ldim :: chunks ldim k (l.drop ldim)

/-- `ref_mpi_blindsend(ref_mpi, proc, data, ldim, nsend, &recv, &nrecv, type)` on every rank: the received items.
    Two guards stand for what the C cannot survive: a destination outside the world (the C indexes `a_size[proc]` out of
    bounds), and an exchange of more than `INT_MAX / ldim` records in total (the `ref_math_int_*` guards of
    `ref_mpi_alltoallv` fail on per-rank counts; the model gives up on the total, which is never smaller). -/
def blindItems {β : Type} [Inhabited β] (ty : RefType) (ldim : Nat) (w : World (List (Nat × List β))) :
    Except ISt (World (List (List β))) :=
  if w.any (fun ps => ps.any fun x => decide (w.length ≤ x.1)) then .error .failure
  else if decide (INT_MAX < (ldim : Int) * ((w.map List.length).foldl (· + ·) 0 : Nat)) then .error .failure
  else
  match blindsend false ty 32767 ldim (w.map fun ps => ⟨ps.map fun x => (x.1 : Int), (ps.map (·.2)).flatten⟩) with
  | none => .error .failure
  | some res =>
    if res.all (fun x => x.1 == Comm.Status.ok) then .ok (res.map fun x => chunks ldim x.2.1.toNat x.2.2)
    else .error .failure

/-- a record a rank sends to the owner of a receptor node -/
structure Located (α : Type) where
  dest : Nat
  node : Int
  cell : Int
  proc : Int
  bary : Slots α

/-- the four `ref_mpi_blindsend` calls of `ref_interp_geom_nodes` / `ref_interp_tree` (node, cell, proc: `REF_INT`,
    `ldim = 1`; bary: `REF_DBL`, `ldim = 4`), re-assembled item by item -/
def exchangeLocated (w : World (List (Located α))) : Except ISt (World (List (Int × Int × Int × Slots α))) :=
  match blindItems RefType.int 1 (w.map fun l => l.map fun x => (x.dest, [x.node])),
        blindItems RefType.int 1 (w.map fun l => l.map fun x => (x.dest, [x.cell])),
        blindItems RefType.int 1 (w.map fun l => l.map fun x => (x.dest, [x.proc])),
        blindItems RefType.dbl 4 (w.map fun l => l.map fun x => (x.dest, x.bary.toList)) with
  | .ok ns, .ok cs, .ok ps, .ok bs =>
    .ok ((ns.zip (cs.zip (ps.zip bs))).map fun q =>
      (q.1.zip (q.2.1.zip (q.2.2.1.zip q.2.2.2))).map fun it =>
        (it.1.getD 0 refEmpty, it.2.1.getD 0 refEmpty, it.2.2.1.getD 0 refEmpty, Slots.ofList it.2.2.2))
  | .error e, _, _, _ => .error e
  | _, .error e, _, _ => .error e
  | _, _, .error e, _ => .error e
  | _, _, _, .error e => .error e

/-- `ref_mpi_allconcat` of per-rank item lists; per rank `(source, items)` -/
def concatItems {β : Type} [Inhabited β] (ty : RefType) (ldim : Nat) (w : World (List (List β))) :
    Except ISt (World (List Int × List (List β))) :=
  match allconcat ty ldim (w.map fun its => (its.length, its.flatten)) with
  | none => .error .failure
  | some res =>
    if res.all (fun x => x.1 == Comm.Status.ok) then
      .ok (res.map fun x => (x.2.2.1, chunks ldim x.2.1.toNat x.2.2.2))
    else .error .failure

def v3OfList (l : List α) : V3 α := ⟨l.getD 0 lit0, l.getD 1 lit0, l.getD 2 lit0⟩

/-- `ref_mpi_allsum` of one integer counter: everybody holds the sum afterwards -/
def sumAll (xs : List Int) : Int := xs.foldl (· + ·) 0

/-! ## stage 1: `ref_interp_geom_nodes` -/

/-- the nearest owned donor geometry node of one rank: `best_dist = 1e20; best_node = REF_EMPTY;` then
    `if (dist < best_dist || 0 == from_item)` over the list; `pow(x,2)` is `x*x` in the binary -/
def nearestGeom (dr : DonorR α) (x : V3 α) : α × Int :=
  let step (acc : (α × Int) × Nat) (g : Nat) : (α × Int) × Nat :=
    let p := dr.d.pt g
    let dx := x.x -. p.x
    let dy := x.y -. p.y
    let dz := x.z -. p.z
    let dist := Scalar.sqrt (dx *. dx +. dy *. dy +. dz *. dz)
    if dist <. acc.1.1 || acc.2 == 0 then ((dist, (g : Int)), acc.2 + 1) else (acc.1, acc.2 + 1)
  (dr.geom.foldl step ((lit InterpConsts.bestDistInit, refEmpty), 0)).1

/-- `ref_interp_exhaustive_tet_around_node` / `_tri_around_node`: the selection loop over the cells around `node` is the
    loop of `ref_interp_enclosing_*_in_list` over `each_ref_cell_having_node` -/
def exhaustiveAround (dr : DonorR α) (node : Nat) (x : V3 α) : ISt × Int × B4 α :=
  enclosingInList dr.d (dr.around.getD node []) x

/-- the seed acceptance test of `ref_interp_geom_nodes` as the C text has it: operator and tolerance member -/
def geomAccept (s : Slots α) : Bool :=
  if InterpConsts.geomAcceptStrict then s.all (fun w => (geomTol : α) <. w) else s.all (fun w => (geomTol : α) <=. w)

/-- the records rank `r` sends: for every target whose `from_proc` is `r` AND for which this rank has a donor geometry
    node (`ref_mpi_rank == from_proc[to_item] && REF_EMPTY != best_node[to_item]`, both in the counting and in the fill
    loop).  A target no rank has a donor geometry node for (all ranks propose `1e20`, rank 0 wins the tie with
    `best_node = REF_EMPTY`) is not answered: the receptor corner stays unseeded and the walk / tree stages locate it.
    History: until /repo 0166523 the fill loop was `RUS(REF_EMPTY, best_node[to_item], "no geom node")` — `REF_FAILURE`
    for a donor without geometry nodes (finding interp-geom-nodes-donor-without-corners); the model had that branch. -/
def geomSends (r : Nat) (dr : DonorR α) (targets : List (Int × Int × V3 α)) (who : List Int) (best : List (α × Int)) :
    Except ISt (List (Located α)) :=
  let rec go : List (Int × Int × V3 α) → List Int → List (α × Int) → Except ISt (List (Located α))
    | t :: ts, p :: ps, b :: bs =>
      if p == (r : Int) && b.2 != refEmpty then
        match exhaustiveAround dr b.2.toNat t.2.2 with
        | (.ok, c, w) =>
          (go ts ps bs).map (⟨t.1.toNat, t.2.1, c, (r : Int), storeBary dr.d.twod Slots.unwritten w⟩ :: ·)
        | (e, _, _) => .error e
      else go ts ps bs
    | _, _, _ => .ok []
  go targets who best

/-- the receive loop of `ref_interp_geom_nodes` on rank `r` -/
def geomRecv (r : Nat) (rc : RecvR α) : RankSt α → List (Int × Int × Int × Slots α) → Except ISt (RankSt α)
  | st, [] => .ok st
  | st, (node, cell, proc, bary) :: rest =>
    if geomAccept bary then
      let i := node.toNat
      if st.cellOf i != refEmpty then .error .failure
      else
        let st := { st with nGeom := st.nGeom + 1 }
        let st := if st.hired.getD i false then { st with ag := st.ag.deleteNode node, hired := st.hired.set i false } else st
        let st := st.store i cell proc InterpConsts.geomCopy bary 1
        match pushOntoQueue r rc st i with
        | .ok st' => geomRecv r rc st' rest
        | .error e => .error e
    else geomRecv r rc { st with nGeomFail := st.nGeomFail + 1 } rest

/-- what one rank contributes to the two `ref_mpi_allconcat` calls for its listed nodes: `local_node[]` and `local_xyz[]` -/
def nodeItems (q : RecvR α × List Nat) : List (List Int) := q.2.map fun (i : Nat) => [(i : Int)]
def xyzItems (q : RecvR α × List Nat) : List (List α) := q.2.map fun (i : Nat) => let p := q.1.pt i; [p.x, p.y, p.z]

/-- the targets every rank sees after the two `ref_mpi_allconcat`: `(source, local node, xyz)` -/
def zipTargets (src : List Int) (nodes : List (List Int)) (xyzs : List (List α)) : List (Int × Int × V3 α) :=
  (src.zip (nodes.zip xyzs)).map fun t => (t.1, t.2.1.getD 0 refEmpty, v3OfList t.2.2)

/-- `ref_interp_geom_nodes` -/
def geomStage (dw : World (DonorR α)) (rw : World (RecvR α)) (w : World (RankSt α)) : Except ISt (World (RankSt α)) := do
  let lists : World (List Nat) := rw.map (·.geom)
  let xyzs ← concatItems (β := α) RefType.dbl 3 ((rw.zip lists).map xyzItems)
  let nodes ← concatItems RefType.int 1 ((rw.zip lists).map nodeItems)
  let targets : World (List (Int × Int × V3 α)) :=
    (nodes.zip xyzs).map fun q => zipTargets q.1.1 q.1.2 q.2.2
  let bests : World (List (α × Int)) := (dw.zip targets).map fun q => q.2.map fun t => nearestGeom q.1 t.2.2
  let total := (targets.headD []).length
  let whos := allminwho (fun (a b : α) => a <. b) total (bests.map fun b => b.map (·.1))
  let sends ← collect ((dw.zip (targets.zip (whos.zip bests))).mapIdx fun r q => geomSends r q.1 q.2.1 q.2.2.1.2 q.2.2.2)
  let recvs ← exchangeLocated sends
  let w' ← collect ((rw.zip (w.zip recvs)).mapIdx fun r q => geomRecv r q.1 q.2.1 q.2.2)
  let ng := sumAll (w'.map (·.nGeom))
  let nf := sumAll (w'.map (·.nGeomFail))
  return w'.map fun st => { st with nGeom := ng, nGeomFail := nf }

/-! ## the walk -/

/-- the substituted `rand()`: a 31-bit linear congruential generator; returns the value and the new state -/
def nextRand (s : Nat) : Nat × Nat :=
  let s' := (s * 1103515245 + 12345) % 2147483648
  (s' / 65536, s')

/-- `ref_interp_bary_inside` as the C text has it -/
def walkInside (b : B4 α) : Bool :=
  let p (w : α) : Bool := if InterpConsts.insideMacroStrict then (walkTol : α) <. w else (walkTol : α) <=. w
  p b.b0 && p b.b1 && p b.b2 && p b.b3

/-- cells around `face[0]` (in `each_ref_cell_having_node` order) that contain every node of the face -/
def cellsWithFace (dr : DonorR α) (face : List Nat) : List Int :=
  (dr.around.getD (face.headD 0) []).filter fun c =>
    match dr.d.cellAt c with
    | some n => face.all fun i => n.has dr.d.twod i
    | none => false

/-- `ref_update_agent_tet_seed` / `ref_update_agent_tri_seed` on rank `r` -/
def updateSeedP (r : Nat) (dr : DonorR α) (a : AgentP α) (face : List Nat) (rnd : Nat) : ISt × AgentP α × Nat :=
  let hop (k : Nat) : ISt × AgentP α × Nat :=
    let (v, rnd') := nextRand rnd
    let node := face.getD (v % k) 0
    (.ok, { a with part := dr.part.getD node (-1), seed := refEmpty, glob := dr.glob.getD node (-1), mode := .hopPart }, rnd')
  match cellsWithFace dr face with
  | [] => (.failure, a, rnd)
  | [_] =>
    if face.all (fun i => !dr.owned r i) then hop face.length
    else if dr.d.twod then (.ok, { a with mode := .atBoundary }, rnd)
    else
      let same (t : Nat × Nat × Nat) : Bool :=
        face.all (fun i => t.1 == i || t.2.1 == i || t.2.2 == i) &&
        [t.1, t.2.1, t.2.2].all (fun i => face.contains i)
      if dr.d.btris.any same then (.ok, { a with mode := .atBoundary }, rnd) else (.notFound, a, rnd)
  | [c0, c1] =>
    if a.seed == c0 then (.ok, { a with seed := c1 }, rnd)
    else if a.seed == c1 then (.ok, { a with seed := c0 }, rnd)
    else (.notFound, a, rnd)
  | _ => (if dr.d.twod then .increaseLimit else .invalid, a, rnd)

inductive IterP (α : Type) where
  | error (st : ISt)
  | done (a : AgentP α)
  | next (a : AgentP α) (rnd : Nat)

/-- loop body of `ref_interp_walk_agent` for a walking agent: the local `bary[4]` is filled as the C fills it
    (2-D: `bary[3] = 0.0; ref_node_bary3`), the copy into the agent has the bound of the C text -/
def walkIterP (r : Nat) (dr : DonorR α) (a : AgentP α) (rnd : Nat) : IterP α :=
  match dr.d.cellAt a.seed with
  | none => .error .invalid
  | some n =>
    match Interp.baryOf dr.d n a.xyz with
    | (.ok, b) | (.divZero, b) =>
      if walkInside b then
        .done { a with mode := .enclosing,
                       bary := Slots.copyN InterpConsts.walkCopy a.bary (storeBary dr.d.twod Slots.unwritten b) }
      else match walkFace dr.d.twod n b with
        | none => .error .failure
        | some face =>
          match updateSeedP r dr a face rnd with
          | (.ok, a', rnd') => .next a' rnd'
          | (st, _, _) => .error st
    | (st, _) => .error (ISt.ofGeom st)

/-- `each_ref_agent_step(ref_agents, id, limit)` with `fuel = limit - step` -/
def walkLoopP (r : Nat) (dr : DonorR α) : Nat → AgentP α → Nat → ISt × AgentP α × Nat
  | 0, a, rnd => (.ok, { a with mode := .terminated }, rnd)
  | fuel + 1, a, rnd =>
    if a.mode != .walking then (.ok, a, rnd)
    else match walkIterP r dr a rnd with
      | .error st => (st, a, rnd)
      | .done a' => (.ok, a', rnd)
      | .next a' rnd' => walkLoopP r dr fuel { a' with step := a'.step + 1 } rnd'

/-- `ref_interp_walk_agent` -/
def walkAgentP (r : Nat) (dr : DonorR α) (a : AgentP α) (rnd : Nat) : ISt × AgentP α × Nat :=
  walkLoopP r dr ((InterpConsts.walkLimit : Int) - a.step).toNat a rnd

/-! ## `ref_agents_migrate` -/

/-- where an agent has to be (`ref_agents_dest`) -/
def AgentP.dest (a : AgentP α) : Int :=
  match a.mode with
  | .walking | .hopPart => a.part
  | _ => a.home

def AgentP.intField (a : AgentP α) (f : String) : Int :=
  if f == "mode" then a.mode.code else if f == "home" then a.home else if f == "node" then a.node
  else if f == "part" then a.part else if f == "seed" then a.seed else a.step

/-- the three send records of one agent: `n_ints` integers in the order of the C text, the global, `n_dbls` doubles
    (`send_dbl` is initialised, then `xyz` and `bary` are copied with the loop bounds of the C text) -/
def packAgent (a : AgentP α) : List Int × List Int × List (Option α) :=
  let ints := InterpConsts.packInts.map a.intField
  let init : List (Option α) := List.replicate InterpConsts.nDbls (some (lit InterpConsts.sendDblInit))
  let xyz := ([some a.xyz.x, some a.xyz.y, some a.xyz.z] : List (Option α)).take InterpConsts.packXyz
  let bary := a.bary.toList.take InterpConsts.packBary
  (ints, [a.glob], writeAt (writeAt init 0 xyz) InterpConsts.packBaryOffset bary)

def fieldOf (fields : List String) (vals : List Int) (f : String) : Int :=
  vals.getD (fields.findIdx (· == f)) 0

/-- the receive side: a new agent filled from the three records (loop bounds of the C text; a slot the loop does not
    reach keeps the never-written content of the new agent) -/
def unpackAgent (ints globs : List Int) (dbls : List (Option α)) : Option (AgentP α) :=
  (AMode.ofCode (fieldOf InterpConsts.unpackInts ints "mode")).map fun m =>
    let g (i : Nat) : α := ((dbls.getD i none).getD lit0)
    let xyz : V3 α := ⟨if 0 < InterpConsts.unpackXyz then g 0 else lit0, if 1 < InterpConsts.unpackXyz then g 1 else lit0,
                       if 2 < InterpConsts.unpackXyz then g 2 else lit0⟩
    let src : Slots α := Slots.ofList ((dbls.drop InterpConsts.unpackBaryOffset).take 4)
    ⟨m, fieldOf InterpConsts.unpackInts ints "home", fieldOf InterpConsts.unpackInts ints "node",
     fieldOf InterpConsts.unpackInts ints "part", fieldOf InterpConsts.unpackInts ints "seed", globs.getD 0 refEmpty,
     fieldOf InterpConsts.unpackInts ints "step", xyz, Slots.copyN InterpConsts.unpackBary Slots.unwritten src⟩

/-- the agents rank `r` ships, by increasing slot -/
def leaving (r : Nat) (a : Agents α) : List (Nat × AgentP α) := a.act.filter fun p => p.2.dest != (r : Int)

/-- fill a new slot per received record triple, in receive order -/
def receiveAgents (a : Agents α) (recs : List (List Int × List Int × List (Option α))) : Except ISt (Agents α) :=
  recs.foldlM (fun (a : Agents α) rec =>
    match unpackAgent rec.1 rec.2.1 rec.2.2 with
    | some ag => .ok (a.push ag).2
    | none => .error .failure) a

/-- `ref_agents_migrate` on every rank: the agents whose destination is another rank are packed by increasing slot and
    removed, three blind sends (`REF_INT` x `n_ints`, `REF_GLOB` x `n_globs`, `REF_DBL` x `n_dbls`), one new agent per
    received record.  A destination outside the world is an error (the C would index `a_size` out of bounds). -/
def migrate (w : World (Agents α)) : Except ISt (World (Agents α)) :=
  let out : World (List (Nat × AgentP α)) := w.mapIdx fun r a => leaving r a
  if out.any (fun l => l.any fun p => p.2.dest < 0 || p.2.dest ≥ (w.length : Int)) then .error .failure else
  let pairs : World (List (Nat × AgentP α)) := out.map fun l => l.map fun p => (p.2.dest.toNat, p.2)
  match blindItems RefType.int InterpConsts.nInts (pairs.map fun l => l.map fun y => (y.1, (packAgent y.2).1)),
        blindItems RefType.long InterpConsts.nGlobs (pairs.map fun l => l.map fun y => (y.1, (packAgent y.2).2.1)),
        blindItems RefType.dbl InterpConsts.nDbls (pairs.map fun l => l.map fun y => (y.1, (packAgent y.2).2.2)) with
  | .ok ints, .ok globs, .ok dbls =>
    let stay : World (Agents α) := (w.zip out).map fun q => (q.2.map (·.1)).foldl Agents.remove q.1
    collect ((stay.zip (ints.zip (globs.zip dbls))).map fun q =>
      receiveAgents q.1 (q.2.1.zip (q.2.2.1.zip q.2.2.2)))
  | .error e, _, _ => .error e
  | _, .error e, _ => .error e
  | _, _, .error e => .error e

/-! ## stage 2: `ref_interp_process_agents` -/

/-- loop 1: every `WALKING` agent whose `part` is this rank walks (by increasing slot) -/
def walkAll (r : Nat) (dr : DonorR α) (st : RankSt α) : Except ISt (RankSt α) :=
  st.ag.ids.foldlM (fun (st : RankSt α) id =>
    match st.ag.get? id with
    | some a =>
      if a.mode == .walking && a.part == (r : Int) then
        match walkAgentP r dr a st.rnd with
        | (.ok, a', rnd') => .ok { st with ag := st.ag.set id a', rnd := rnd' }
        | (e, _, _) => .error e
      else .ok st
    | none => .ok st) st

/-- loop 2: `HOP_PART` agents that arrived: `ref_node_local`, `WALKING`, `seed = ref_cell_first_with` -/
def hopArrive (r : Nat) (dr : DonorR α) (st : RankSt α) : Except ISt (RankSt α) :=
  st.ag.ids.foldlM (fun (st : RankSt α) id =>
    match st.ag.get? id with
    | some a =>
      if a.mode == .hopPart && a.part == (r : Int) then
        match localOf dr.glob a.glob with
        | some node => .ok { st with ag := st.ag.set id { a with mode := .walking, seed := (dr.around.getD node []).headD refEmpty } }
        | none => .error .notFound
      else .ok st
    | none => .ok st) st

/-- loop 3: `SUGGESTION` agents at home: dropped if the node is located or hired, else they become its walker -/
def suggestionArrive (r : Nat) (rc : RecvR α) (st : RankSt α) : Except ISt (RankSt α) :=
  st.ag.ids.foldlM (fun (st : RankSt α) id =>
    match st.ag.get? id with
    | some a =>
      if a.mode == .suggestion && a.home == (r : Int) then
        match localOf rc.glob a.glob with
        | some node =>
          if st.cellOf node != refEmpty || st.hired.getD node false then .ok { st with ag := st.ag.remove id }
          else .ok { st with ag := st.ag.set id { a with mode := .walking, node := (node : Int), glob := refEmpty },
                             hired := st.hired.set node true }
        | none => .error .notFound
      else .ok st
    | none => .ok st) st

/-- the `RAS`/`REIS` assertions of loops 4 and 5 -/
def homeChecks (r : Nat) (rc : RecvR α) (st : RankSt α) (node : Int) : Bool :=
  decide (0 ≤ node) && decide (node.toNat < rc.xyz.length) && rc.owned r node.toNat &&
  st.cellOf node.toNat == refEmpty && st.hired.getD node.toNat false

/-- loop 4: `AT_BOUNDARY` / `TERMINATED` agents at home give up -/
def giveUp (r : Nat) (rc : RecvR α) (st : RankSt α) : Except ISt (RankSt α) :=
  st.ag.ids.foldlM (fun (st : RankSt α) id =>
    match st.ag.get? id with
    | some a =>
      if (a.mode == .atBoundary || a.mode == .terminated) && a.home == (r : Int) then
        if !homeChecks r rc st a.node then .error .failure
        else
          let st := if a.mode == .terminated
            then { st with walkSteps := st.walkSteps + (a.step + 1), nTerminated := st.nTerminated + 1 } else st
          .ok { st with hired := st.hired.set a.node.toNat false, ag := st.ag.remove id }
      else .ok st
    | none => .ok st) st

/-- loop 5: `ENCLOSING` agents at home: store cell, part and the four weights, un-hire, remove, queue the neighbours -/
def enclose (r : Nat) (rc : RecvR α) (st : RankSt α) : Except ISt (RankSt α) :=
  st.ag.ids.foldlM (fun (st : RankSt α) id =>
    match st.ag.get? id with
    | some a =>
      if a.mode == .enclosing && a.home == (r : Int) then
        if !homeChecks r rc st a.node then .error .failure
        else
          let node := a.node.toNat
          let st := st.store node a.seed a.part InterpConsts.processCopy a.bary 2
          let st := { st with walkSteps := st.walkSteps + (a.step + 1), nWalk := st.nWalk + 1,
                              hired := st.hired.set node false, ag := st.ag.remove id }
          pushOntoQueue r rc st node
      else .ok st
    | none => .ok st) st

/-- one sweep of the `while (n_agents > 0)` loop -/
def sweep (dw : World (DonorR α)) (rw : World (RecvR α)) (w : World (RankSt α)) : Except ISt (World (RankSt α)) := do
  let w1 ← collect ((dw.zip w).mapIdx fun r q => walkAll r q.1 q.2)
  let ags ← migrate (w1.map (·.ag))
  let w2 : World (RankSt α) := (w1.zip ags).map fun q => { q.1 with ag := q.2 }
  let w3 ← collect ((dw.zip w2).mapIdx fun r q => hopArrive r q.1 q.2)
  let w4 ← collect ((rw.zip w3).mapIdx fun r q => suggestionArrive r q.1 q.2)
  let w5 ← collect ((rw.zip w4).mapIdx fun r q => giveUp r q.1 q.2)
  collect ((rw.zip w5).mapIdx fun r q => enclose r q.1 q.2)

/-- agents in the world (`ref_mpi_allsum` of `ref_agents_n`) -/
def nAgents (w : World (RankSt α)) : Nat := (w.map fun st => st.ag.n).foldl (· + ·) 0

/-- the `while` loop; the C has no bound, the model gives up with `REF_INCREASE_LIMIT` after `fuel` sweeps -/
def sweeps (dw : World (DonorR α)) (rw : World (RecvR α)) : Nat → World (RankSt α) → Except ISt (World (RankSt α))
  | 0, w => if nAgents w == 0 then .ok w else .error .increaseLimit
  | fuel + 1, w =>
    if nAgents w == 0 then .ok w
    else match sweep dw rw w with
      | .ok w' => sweeps dw rw fuel w'
      | .error e => .error e

def sweepFuel : Nat := 100000

/-- `ref_interp_process_agents`: the sweeps, the three `ref_mpi_allsum`s, the final `REIS(REF_FALSE, agent_hired)` -/
def processAgents (dw : World (DonorR α)) (rw : World (RecvR α)) (w : World (RankSt α)) : Except ISt (World (RankSt α)) := do
  let w' ← sweeps dw rw sweepFuel w
  let ws := sumAll (w'.map (·.walkSteps))
  let nw := sumAll (w'.map (·.nWalk))
  let nt := sumAll (w'.map (·.nTerminated))
  if ((rw.zip w').mapIdx fun r q => (List.range q.1.xyz.length).any fun i => q.1.owned r i && q.2.hired.getD i false).any id
  then throw .failure
  return w'.map fun st => { st with walkSteps := ws, nWalk := nw, nTerminated := nt }

/-! ## stage 3: `ref_interp_tree` -/

/-- the targets of rank `r`: owned nodes without a cell, in local order -/
def treeTargets (r : Nat) (rc : RecvR α) (st : RankSt α) : List Nat :=
  (List.range rc.xyz.length).filter fun i => rc.owned r i && st.cellOf i == refEmpty

/-- what one rank proposes for one target: `(best_bary, best_cell)`; `best_bary = -MIN(MIN(b0,b1),MIN(b2,b3))` of its
    best candidate, or the no-candidate value; also the length of the candidate list (`tree_cells`) -/
def propose (dr : DonorR α) (s : Search α) (fuzz : α) (x : V3 α) : Except ISt ((α × Int) × Nat) :=
  let l := s.touching x fuzz
  if l.isEmpty then .ok ((lit InterpConsts.bestBaryNone, refEmpty), 0)
  else match enclosingInList dr.d l x with
    | (.ok, c, b) =>
      .ok ((if c != refEmpty then Scalar.neg (minBary4 b) else lit InterpConsts.bestBaryNone, c), l.length)
    | (e, _, _) => .error e

/-- the records rank `r` sends (targets whose `from_proc` is `r`), and whether one of them has no cell -/
def treeSends (r : Nat) (dr : DonorR α) (targets : List (Int × Int × V3 α)) (who : List Int) (best : List (α × Int)) :
    Except ISt (List (Located α) × Bool) :=
  let rec go : List (Int × Int × V3 α) → List Int → List (α × Int) → Except ISt (List (Located α) × Bool)
    | t :: ts, p :: ps, b :: bs =>
      if p == (r : Int) then
        if b.2 != refEmpty then
          match dr.d.cellAt b.2 with
          | none => .error .invalid
          | some n =>
            match Interp.baryOf dr.d n t.2.2 with
            | (.ok, wts) =>
              -- 2-D: `send_bary[3 + 4*nsend] = 0.0;` then `ref_node_bary3` into slots 0..2
              let sl : Slots α := if dr.d.twod then (Slots.unwritten.zero3).write3 wts else Slots.unwritten.write4 wts
              (go ts ps bs).map fun q => (⟨t.1.toNat, t.2.1, b.2, (r : Int), sl⟩ :: q.1, q.2)
            | (e, _) => .error (ISt.ofGeom e)
        else (go ts ps bs).map fun q => (⟨t.1.toNat, t.2.1, refEmpty, (r : Int), Slots.unwritten⟩ :: q.1, true)
      else go ts ps bs
    | _, _, _ => .ok ([], false)
  go targets who best

/-- the receive loop of `ref_interp_tree` -/
def treeRecv : RankSt α → List (Int × Int × Int × Slots α) → Except ISt (RankSt α)
  | st, [] => .ok st
  | st, (node, cell, proc, bary) :: rest =>
    let i := node.toNat
    if st.cellOf i != refEmpty then .error .failure
    else
      let st := if st.hired.getD i false then { st with ag := st.ag.deleteNode node, hired := st.hired.set i false } else st
      if cell != refEmpty then
        treeRecv { (st.store i cell proc InterpConsts.treeCopy bary 3) with nTree := st.nTree + 1 } rest
      else
        treeRecv { st with cell := st.cell.set i cell, part := st.part.set i proc } rest

/-- `ref_interp_tree`: the new world and `increase_fuzz` -/
def treeStage (dw : World (DonorR α)) (ss : World (Search α)) (rw : World (RecvR α)) (fuzz : α) (w : World (RankSt α)) :
    Except ISt (World (RankSt α) × Bool) := do
  let tg : World (List Nat) := (rw.zip w).mapIdx fun r q => treeTargets r q.1 q.2
  let xyzs ← concatItems (β := α) RefType.dbl 3 ((rw.zip tg).map xyzItems)
  let nodes ← concatItems RefType.int 1 ((rw.zip tg).map nodeItems)
  let targets : World (List (Int × Int × V3 α)) := (nodes.zip xyzs).map fun q => zipTargets q.1.1 q.1.2 q.2.2
  let props ← collect ((dw.zip (ss.zip targets)).map fun q => collect (q.2.2.map fun t => propose q.1 q.2.1 fuzz t.2.2))
  let bests : World (List (α × Int)) := props.map fun l => l.map (·.1)
  let total := (targets.headD []).length
  let whos := allminwho (fun (a b : α) => a <. b) total (bests.map fun b => b.map (·.1))
  let sends ← collect ((dw.zip (targets.zip (whos.zip bests))).mapIdx fun r q => treeSends r q.1 q.2.1 q.2.2.1.2 q.2.2.2)
  let recvs ← exchangeLocated (sends.map (·.1))
  let w1 : World (RankSt α) := (w.zip props).map fun q =>
    { q.1 with treeCells := q.1.treeCells + sumAll (q.2.map fun p => (p.2 : Int)) }
  let w2 ← collect ((w1.zip recvs).map fun q => treeRecv q.1 q.2)
  let nt := sumAll (w2.map (·.nTree))
  let inc := sends.any (·.2)
  let w3 := w2.map fun st => { st with nTree := nt }
  -- `if (!increase_fuzz) RUS(REF_EMPTY, cell[node], "node missed by tree")` for every owned node without a cell
  if !inc && ((rw.zip w3).mapIdx fun r q => !(treeTargets r q.1 q.2).isEmpty).any id then throw .failure
  return (w3, inc)

/-! ## `ref_interp_locate` -/

/-- `for (tries = 0; tries < 12; tries++) { if (increase_fuzz) fuzz *= 10; tree; if (!increase_fuzz) break; }` then
    `REIS(REF_FALSE, increase_fuzz)` -/
def treeLoop (dw : World (DonorR α)) (ss : World (Search α)) (rw : World (RecvR α)) :
    Nat → Bool → α → World (RankSt α) → Except ISt (World (RankSt α) × α)
  | 0, inc, fuzz, w => if inc then .error .failure else .ok (w, fuzz)
  | k + 1, inc, fuzz, w =>
    let fuzz' := if inc then fuzz *. lit InterpConsts.fuzzGrow else fuzz
    match treeStage dw ss rw fuzz' w with
    | .error e => .error e
    | .ok (w', inc') => if inc' then treeLoop dw ss rw k true fuzz' w' else .ok (w', fuzz')

/-- `ref_interp_locate`: the final world and the final `search_fuzz` -/
def locate (dw : World (DonorR α)) (ss : World (Search α)) (rw : World (RecvR α)) (fuzz : α) (w : World (RankSt α)) :
    Except ISt (World (RankSt α) × α) := do
  let w1 ← geomStage dw rw w
  let w2 ← processAgents dw rw w1
  treeLoop dw ss rw InterpConsts.locateTries false fuzz w2

end Refine.Model.InterpLocate
