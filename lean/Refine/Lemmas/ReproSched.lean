import Refine.Model.ReproSched
import Refine.Lemmas.Comm
import Refine.Lemmas.ContainersSortDbl
import Mathlib.Data.List.Perm.Basic

/-!
  Lemmas behind the schedule-independence theorems of `Refine/Props/C18Mech.lean`:
  * MPI matching (`matchRecvs`) depends only on the per-(source, tag) subsequences of the mailbox;
  * arbitrary permutations of a set of messages with pairwise distinct (source, dest, tag) have the same
    per-(source, dest, tag) subsequences (no ordering assumption on the network is needed at all);
  * deposits into pairwise disjoint, in-bounds regions of the receive buffer commute (`complete`);
  * the receives of `ref_mpi_alltoallv_native` are pairwise disjoint and in bounds.
-/
namespace Refine.Model.ReproSched
open Refine.Model.Comm Refine.Lemmas.Comm

variable {α : Type}

/-- the message comes from `s` with tag `t` -/
def hasKey (s t : Int) (m : Env α) : Bool := m.src == s && m.tag == t

theorem hasKey_ne {s t s' t' : Int} {m : Env α} (hm : hasKey s t m = true) (hne : (s', t') ≠ (s, t)) :
    hasKey s' t' m = false := by
  simp only [hasKey, Bool.and_eq_true, beq_iff_eq] at hm
  rw [Bool.eq_false_iff]
  intro h
  simp only [hasKey, Bool.and_eq_true, beq_iff_eq] at h
  apply hne
  rw [← hm.1, ← hm.2, h.1, h.2]

theorem takeFirst_none_iff (s t : Int) : ∀ (mb : List (Env α)),
    takeFirst s t mb = none ↔ mb.filter (hasKey s t) = []
  | [] => by simp [takeFirst]
  | m :: ms => by
    unfold takeFirst
    by_cases h : (m.src == s && m.tag == t) = true
    · have hk : hasKey s t m = true := h
      simp [h, List.filter_cons, hk]
    · have hk : hasKey s t m = false := by simpa [hasKey] using h
      simp only [h, if_false, Option.map_eq_none_iff, List.filter_cons, hk, Bool.false_eq_true]
      exact takeFirst_none_iff s t ms

theorem takeFirst_some (s t : Int) : ∀ (mb : List (Env α)) {m : Env α} {mb' : List (Env α)},
    takeFirst s t mb = some (m, mb') →
      mb.filter (hasKey s t) = m :: mb'.filter (hasKey s t) ∧
      ∀ s' t', (s', t') ≠ (s, t) → mb'.filter (hasKey s' t') = mb.filter (hasKey s' t')
  | [], _, _, h => by simp [takeFirst] at h
  | x :: xs, m, mb', h => by
    unfold takeFirst at h
    by_cases hx : (x.src == s && x.tag == t) = true
    · have hk : hasKey s t x = true := hx
      simp only [hx, if_true, Option.some.injEq, Prod.mk.injEq] at h
      obtain ⟨rfl, rfl⟩ := h
      refine ⟨by simp [List.filter_cons, hk], ?_⟩
      intro s' t' hne
      simp [List.filter_cons, hasKey_ne hk hne]
    · have hk : hasKey s t x = false := by simpa [hasKey] using hx
      simp only [hx, if_false, Bool.false_eq_true] at h
      cases hr : takeFirst s t xs with
      | none => simp [hr] at h
      | some r =>
        obtain ⟨m0, rest⟩ := r
        simp only [hr, Option.map_some, Option.some.injEq, Prod.mk.injEq] at h
        obtain ⟨rfl, rfl⟩ := h
        obtain ⟨h1, h2⟩ := takeFirst_some s t xs hr
        refine ⟨by simp [List.filter_cons, hk, h1], ?_⟩
        intro s' t' hne
        simp only [List.filter_cons]
        rw [h2 s' t' hne]

/-- MPI matching depends only on the per-(source, tag) subsequences of the mailbox -/
theorem matchRecvs_congr : ∀ (rqs : List Rcv) (mb1 mb2 : List (Env α)),
    (∀ s t, mb1.filter (hasKey s t) = mb2.filter (hasKey s t)) → matchRecvs mb1 rqs = matchRecvs mb2 rqs
  | [], _, _, _ => rfl
  | rq :: rqs, mb1, mb2, h => by
    unfold matchRecvs
    cases h1 : takeFirst rq.source rq.tag mb1 with
    | none =>
      have e1 := (takeFirst_none_iff _ _ mb1).1 h1
      rw [h] at e1
      rw [(takeFirst_none_iff _ _ mb2).2 e1]
    | some r1 =>
      obtain ⟨m1, mb1'⟩ := r1
      obtain ⟨a1, b1⟩ := takeFirst_some _ _ mb1 h1
      cases h2 : takeFirst rq.source rq.tag mb2 with
      | none =>
        have e2 := (takeFirst_none_iff _ _ mb2).1 h2
        rw [← h, a1] at e2
        exact absurd e2 (by simp)
      | some r2 =>
        obtain ⟨m2, mb2'⟩ := r2
        obtain ⟨a2, b2⟩ := takeFirst_some _ _ mb2 h2
        have hcons : m1 :: mb1'.filter (hasKey rq.source rq.tag) = m2 :: mb2'.filter (hasKey rq.source rq.tag) := by
          rw [← a1, ← a2]; exact h _ _
        have hm : m1 = m2 := (List.cons.inj hcons).1
        have ht := (List.cons.inj hcons).2
        have hall : ∀ s t, mb1'.filter (hasKey s t) = mb2'.filter (hasKey s t) := by
          intro s t
          by_cases hk : (s, t) = (rq.source, rq.tag)
          · have hs : s = rq.source := (Prod.mk.inj hk).1
            have htt : t = rq.tag := (Prod.mk.inj hk).2
            subst hs; subst htt; exact ht
          · rw [b1 s t hk, b2 s t hk]; exact h s t
        simp only []
        rw [hm, matchRecvs_congr rqs mb1' mb2' hall]

/-- two arrival orders deliver, for every (source, dest, tag), the same messages in the same order
    (MPI's non-overtaking guarantee is exactly that this holds between any two runs) -/
def FifoEq (a1 a2 : List (Env α)) : Prop :=
  ∀ d s t : Int, (mailbox a1 d).filter (hasKey s t) = (mailbox a2 d).filter (hasKey s t)

/-- the (source, dest, tag) triple of a message -/
def key3 (m : Env α) : Int × Int × Int := (m.src, m.dest, m.tag)

theorem length_le_one_of_const {β γ : Type} (f : β → γ) (c : γ) :
    ∀ (l : List β), (l.map f).Nodup → (∀ x ∈ l, f x = c) → l.length ≤ 1
  | [], _, _ => by simp
  | [_], _, _ => by simp
  | x :: y :: _, hn, hc => by
    exfalso
    have hx := hc x (by simp)
    have hy := hc y (by simp)
    simp only [List.map_cons, List.nodup_cons, List.mem_cons] at hn
    exact hn.1 (Or.inl (hx.trans hy.symm))

theorem perm_eq_of_length_le_one {β : Type} {l1 l2 : List β} (hp : l1.Perm l2) (h : l2.length ≤ 1) : l1 = l2 := by
  cases l2 with
  | nil => exact hp.eq_nil
  | cons y ys =>
    cases ys with
    | nil => exact List.perm_singleton.1 hp
    | cons _ _ => simp at h

/-- with at most one message per (source, dest, tag) in flight, ANY two orders are FIFO-equal -/
theorem fifoEq_of_perm_nodup {a1 a2 : List (Env α)} (hp : a1.Perm a2) (hn : (a2.map key3).Nodup) : FifoEq a1 a2 := by
  intro d s t
  have hperm : ((mailbox a1 d).filter (hasKey s t)).Perm ((mailbox a2 d).filter (hasKey s t)) :=
    (hp.filter _).filter _
  apply perm_eq_of_length_le_one hperm
  have hsub : ((mailbox a2 d).filter (hasKey s t)).Sublist a2 :=
    (List.filter_sublist).trans (List.filter_sublist)
  apply length_le_one_of_const key3 (s, d, t)
  · exact (hsub.map key3).nodup hn
  · intro x hx
    rw [List.mem_filter] at hx
    obtain ⟨hx1, hx2⟩ := hx
    unfold mailbox at hx1
    rw [List.mem_filter] at hx1
    simp only [hasKey, Bool.and_eq_true, beq_iff_eq] at hx2
    have hd : x.dest = d := by simpa using hx1.2
    simp only [key3, hx2.1, hx2.2, hd]

/-! ### completion order -/

theorem getElem?_writeAt (b d : List α) (o : Nat) (h : o + d.length ≤ b.length) (i : Nat) :
    (writeAt b o d)[i]? = if i < o then b[i]? else if i < o + d.length then d[i - o]? else b[i]? := by
  unfold writeAt
  have hlen : (b.take o).length = o := by simp; omega
  by_cases h1 : i < o
  · rw [if_pos h1, List.append_assoc, List.getElem?_append_left (by omega), List.getElem?_take, if_pos h1]
  · rw [if_neg h1, List.append_assoc, List.getElem?_append_right (by omega), hlen]
    by_cases h2 : i < o + d.length
    · rw [if_pos h2, List.getElem?_append_left (by omega)]
    · rw [if_neg h2, List.getElem?_append_right (by omega), List.getElem?_drop]
      congr 1
      omega

/-- deposits into disjoint in-bounds regions commute -/
theorem writeAt_comm (b d1 d2 : List α) (o1 o2 : Nat) (h1 : o1 + d1.length ≤ b.length)
    (h2 : o2 + d2.length ≤ b.length) (hd : o1 + d1.length ≤ o2 ∨ o2 + d2.length ≤ o1) :
    writeAt (writeAt b o1 d1) o2 d2 = writeAt (writeAt b o2 d2) o1 d1 := by
  have l1 := length_writeAt b d1 o1 h1
  have l2 := length_writeAt b d2 o2 h2
  apply List.ext_getElem?
  intro i
  rw [getElem?_writeAt (writeAt b o1 d1) d2 o2 (by omega) i, getElem?_writeAt (writeAt b o2 d2) d1 o1 (by omega) i,
    getElem?_writeAt b d1 o1 h1, getElem?_writeAt b d2 o2 h2]
  by_cases a1 : i < o1 <;> by_cases a2 : i < o1 + d1.length <;> by_cases a3 : i < o2 <;>
    by_cases a4 : i < o2 + d2.length <;> simp only [a1, a2, a3, a4, if_true, if_false] <;> omega

/-- the deposit of matched pair `pr` fits a buffer of `N` elements -/
def InBounds (N : Nat) (pr : Rcv × Env α) : Prop := 0 ≤ pr.1.off ∧ pr.1.off.toNat + pr.2.data.length ≤ N

/-- two deposits do not overlap -/
def Disjoint (p q : Rcv × Env α) : Prop :=
  p.1.off.toNat + p.2.data.length ≤ q.1.off.toNat ∨ q.1.off.toNat + q.2.data.length ≤ p.1.off.toNat

def depositStep (pairs : List (Rcv × Env α)) (b : List α) (i : Nat) : List α :=
  match pairs[i]? with
  | some pr => writeAt b pr.1.off.toNat pr.2.data
  | none => b

theorem complete_eq_foldl (pairs : List (Rcv × Env α)) (order : List Nat) (buf : List α) :
    complete pairs order buf = order.foldl (depositStep pairs) buf := rfl

theorem depositStep_length {N : Nat} (pairs : List (Rcv × Env α)) (hin : ∀ pr ∈ pairs, InBounds N pr)
    (b : List α) (hb : b.length = N) (i : Nat) : (depositStep pairs b i).length = N := by
  unfold depositStep
  cases h : pairs[i]? with
  | none => exact hb
  | some pr =>
    have hm : pr ∈ pairs := List.mem_of_getElem? h
    simp only []
    rw [length_writeAt _ _ _ (by have := (hin pr hm).2; omega), hb]

theorem depositStep_comm {N : Nat} (pairs : List (Rcv × Env α)) (hin : ∀ pr ∈ pairs, InBounds N pr)
    (hdis : ∀ (i j : Nat) (p q : Rcv × Env α), i ≠ j → pairs[i]? = some p → pairs[j]? = some q → Disjoint p q)
    (b : List α) (hb : b.length = N) (i j : Nat) :
    depositStep pairs (depositStep pairs b i) j = depositStep pairs (depositStep pairs b j) i := by
  by_cases hij : i = j
  · subst hij; rfl
  · unfold depositStep
    cases hi : pairs[i]? with
    | none => cases hj : pairs[j]? <;> simp
    | some p =>
      cases hj : pairs[j]? with
      | none => simp
      | some q =>
        simp only []
        have hp := (hin p (List.mem_of_getElem? hi)).2
        have hq := (hin q (List.mem_of_getElem? hj)).2
        exact writeAt_comm b p.2.data q.2.data _ _ (by omega) (by omega) (hdis i j p q hij hi hj)

/-- any two completion orders that are permutations of each other leave the same receive buffer -/
theorem complete_perm {N : Nat} (pairs : List (Rcv × Env α)) (hin : ∀ pr ∈ pairs, InBounds N pr)
    (hdis : ∀ (i j : Nat) (p q : Rcv × Env α), i ≠ j → pairs[i]? = some p → pairs[j]? = some q → Disjoint p q)
    {o1 o2 : List Nat} (hp : o1.Perm o2) :
    ∀ (buf : List α), buf.length = N → complete pairs o1 buf = complete pairs o2 buf := by
  simp only [complete_eq_foldl]
  induction hp with
  | nil => intro _ _; rfl
  | cons x _ ih =>
    intro buf hb
    simp only [List.foldl_cons]
    exact ih _ (depositStep_length pairs hin buf hb x)
  | swap x y l =>
    intro buf hb
    simp only [List.foldl_cons]
    rw [depositStep_comm pairs hin hdis buf hb y x]
  | trans _ _ ih1 ih2 =>
    intro buf hb
    rw [ih1 buf hb, ih2 buf hb]

/-- matched pairs keep the posted receives, in posted order -/
theorem matchRecvs_fst : ∀ (rqs : List Rcv) (mb : List (Env α)) {pairs : List (Rcv × Env α)},
    matchRecvs mb rqs = some pairs → pairs.map (·.1) = rqs ∧ ∀ pr ∈ pairs, (pr.2.data.length : Int) ≤ pr.1.cnt
  | [], _, pairs, h => by
    simp only [matchRecvs, Option.some.injEq] at h
    subst h; simp
  | rq :: rqs, mb, pairs, h => by
    unfold matchRecvs at h
    cases h1 : takeFirst rq.source rq.tag mb with
    | none => simp [h1] at h
    | some r =>
      obtain ⟨m, mb'⟩ := r
      simp only [h1] at h
      by_cases hc : (m.data.length : Int) ≤ rq.cnt
      · simp only [hc, if_true] at h
        cases h2 : matchRecvs mb' rqs with
        | none => simp [h2] at h
        | some l =>
          simp only [h2, Option.map_some, Option.some.injEq] at h
          subst h
          obtain ⟨ih1, ih2⟩ := matchRecvs_fst rqs mb' h2
          refine ⟨by simp [ih1], ?_⟩
          intro pr hpr
          rw [List.mem_cons] at hpr
          rcases hpr with rfl | hpr
          · exact hc
          · exact ih2 pr hpr
      · simp [hc] at h

/-- the posted receives have pairwise disjoint regions `[off, off+cnt)` that lie inside a buffer of `N` elements -/
def RecvsOk (N : Nat) (rqs : List Rcv) : Prop :=
  (∀ rq ∈ rqs, 0 ≤ rq.off ∧ 0 ≤ rq.cnt ∧ rq.off + rq.cnt ≤ (N : Int)) ∧
  rqs.Pairwise fun a b => a.off + a.cnt ≤ b.off ∨ b.off + b.cnt ≤ a.off

theorem pairs_ok_of_recvsOk {N : Nat} {rqs : List Rcv} (hok : RecvsOk N rqs) {mb : List (Env α)}
    {pairs : List (Rcv × Env α)} (hm : matchRecvs mb rqs = some pairs) :
    (∀ pr ∈ pairs, InBounds N pr) ∧
    (∀ (i j : Nat) (p q : Rcv × Env α), i ≠ j → pairs[i]? = some p → pairs[j]? = some q → Disjoint p q) := by
  obtain ⟨hfst, hlen⟩ := matchRecvs_fst rqs mb hm
  constructor
  · intro pr hpr
    have hrq : pr.1 ∈ rqs := by rw [← hfst]; exact List.mem_map_of_mem hpr
    obtain ⟨h0, _, h2⟩ := hok.1 pr.1 hrq
    have := hlen pr hpr
    refine ⟨h0, ?_⟩
    omega
  · intro i j p q hij hi hj
    have hpi : rqs[i]? = some p.1 := by rw [← hfst, List.getElem?_map, hi]; rfl
    have hqj : rqs[j]? = some q.1 := by rw [← hfst, List.getElem?_map, hj]; rfl
    have hlp := hlen p (List.mem_of_getElem? hi)
    have hlq := hlen q (List.mem_of_getElem? hj)
    have hp0 := (hok.1 p.1 (List.mem_of_getElem? hpi))
    have hq0 := (hok.1 q.1 (List.mem_of_getElem? hqj))
    have hpw := hok.2
    rw [List.pairwise_iff_getElem] at hpw
    obtain ⟨hi', ei⟩ := List.getElem?_eq_some_iff.1 hpi
    obtain ⟨hj', ej⟩ := List.getElem?_eq_some_iff.1 hqj
    unfold Disjoint
    rcases Nat.lt_or_gt_of_ne hij with hlt | hgt
    · have := hpw i j hi' hj' hlt
      rw [ei, ej] at this
      omega
    · have := hpw j i hj' hi' hgt
      rw [ei, ej] at this
      omega

/-! ### the whole exchange -/

theorem allSome_congr {β : Type} {l1 l2 : List (Option β)} (h : l1 = l2) : allSome l1 = allSome l2 := by rw [h]

/-- **schedule independence of the tagged point-to-point exchange**: two arrival orders that are FIFO-equal and
    two families of completion orders that are permutations of each other give the same result on every rank,
    provided every rank's posted receives are pairwise disjoint and inside its buffer -/
theorem p2pSched_congr (w : World (Posted α)) (a1 a2 : List (Env α)) (c1 c2 : Nat → List Nat)
    (hf : FifoEq a1 a2) (hc : ∀ r, (c1 r).Perm (c2 r))
    (hok : ∀ p ∈ w, RecvsOk p.buf.length p.rcvs) :
    p2pSched a1 c1 w = p2pSched a2 c2 w := by
  unfold p2pSched
  apply allSome_congr
  apply List.ext_getElem?
  intro r
  simp only [List.getElem?_mapIdx]
  cases hp : w[r]? with
  | none => rfl
  | some p =>
    simp only [Option.map_some]
    congr 1
    by_cases hs : p.status ≠ Comm.Status.ok
    · rw [if_pos hs, if_pos hs]
    · rw [if_neg hs, if_neg hs]
      by_cases hm : p.msgs.all (sendMatched w (r : Int)) = true
      · rw [if_pos hm, if_pos hm]
        congr 1
        unfold recvSched
        rw [matchRecvs_congr p.rcvs (mailbox a1 r) (mailbox a2 r) (hf r)]
        cases hmr : matchRecvs (mailbox a2 (r : Int)) p.rcvs with
        | none => rfl
        | some pairs =>
          simp only [Option.map_some]
          congr 1
          obtain ⟨hin, hdis⟩ := pairs_ok_of_recvsOk (hok p (List.mem_of_getElem? hp)) hmr
          exact complete_perm pairs hin hdis (hc r) p.buf rfl
      · rw [if_neg hm, if_neg hm]

/-- blocking receive loops (`MPI_Recv` one after the other): the completion order is the posted order in both
    runs; only the arrival order differs, and no condition on the buffer regions is needed -/
theorem p2pSched_congr_arrival (w : World (Posted α)) (a1 a2 : List (Env α)) (c : Nat → List Nat)
    (hf : FifoEq a1 a2) : p2pSched a1 c w = p2pSched a2 c w := by
  unfold p2pSched
  apply allSome_congr
  apply List.ext_getElem?
  intro r
  simp only [List.getElem?_mapIdx]
  cases hp : w[r]? with
  | none => rfl
  | some p =>
    simp only [Option.map_some]
    congr 1
    by_cases hs : p.status ≠ Comm.Status.ok
    · rw [if_pos hs, if_pos hs]
    · rw [if_neg hs, if_neg hs]
      by_cases hm : p.msgs.all (sendMatched w (r : Int)) = true
      · rw [if_pos hm, if_pos hm]
        congr 1
        unfold recvSched
        rw [matchRecvs_congr p.rcvs (mailbox a1 r) (mailbox a2 r) (hf r)]
      · rw [if_neg hm, if_neg hm]

theorem postAll_sublist {β : Type} (ty : RefType) (maxTag : Int) (tagOf : β → Int) :
    ∀ (xs : List β), (postAll ty maxTag tagOf xs).2.Sublist xs
  | [] => by simp [postAll]
  | x :: xs => by
    unfold postAll
    split
    · exact List.nil_sublist _
    · split
      · exact List.nil_sublist _
      · exact (postAll_sublist ty maxTag tagOf xs).cons₂ x

end Refine.Model.ReproSched
