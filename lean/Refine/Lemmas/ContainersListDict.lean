import Refine.Model.Containers
import Refine.Lemmas.ContainersSort
import Mathlib.Data.List.Basic

/-!
  Theorems about the executable models of `ref_list.c` and `ref_dict.c`
  (`Refine/Model/Containers.lean`).

  * `RList`: every public function is characterised on the abstract `List Int` (the literal copy loop
    of `ref_list_shift` and the two-index compaction loop of `ref_list_delete` get loop invariants),
    and every sequence of calls starting from `ref_list_create` refines the abstract list machine
    (`RList.run_refines`).
  * `RDict`: under the invariant `RDict.Inv` (strictly increasing keys, parallel arrays, `n <= max`)
    `store` / `remove` / `value` / `location` are the finite-map operations on
    `RDict.lookup : RDict → Int → Option Int`; every sequence of calls starting from
    `ref_dict_create` keeps the invariant and refines the abstract map (`RDict.run_refines`).
-/

namespace Refine.Model.RList
open List Refine.Model.Sort

theorem ext_getD {l₁ l₂ : List Int} (hl : l₁.length = l₂.length)
    (h : ∀ k, k < l₁.length → l₁.getD k 0 = l₂.getD k 0) : l₁ = l₂ := by
  apply List.ext_getElem hl
  intro i h1 h2
  have := h i h1
  rwa [getD_eq_getElem' _ _ h1, getD_eq_getElem' _ _ h2] at this

theorem push_spec (l : RList) (x : Int) :
    l.push x = ({ max := if l.max = l.n then l.max + 1000 else l.max, value := l.value ++ [x] }, Status.ok) := rfl

theorem pop_nil (l : RList) (h : l.value = []) : l.pop = (l, Status.failure, EMPTY) := by
  simp [pop, n, h]

theorem pop_spec (l : RList) (xs : List Int) (x : Int) (h : l.value = xs ++ [x]) :
    l.pop = ({ l with value := xs }, Status.ok, x) := by
  simp [pop, n, h]

theorem length_shiftLoop (c i : Nat) (v : List Int) : (shiftLoop c i v).length = v.length := by
  induction c generalizing i v with
  | zero => rfl
  | succ c ih => simp [shiftLoop, ih]

theorem getD_shiftLoop (c i : Nat) (v : List Int) (k : Nat) :
    (shiftLoop c i v).getD k 0 =
      if i ≤ k ∧ k < i + c ∧ k < v.length then v.getD (k + 1) 0 else v.getD k 0 := by
  induction c generalizing i v with
  | zero => simp only [shiftLoop]; rw [if_neg (by omega)]
  | succ c ih =>
    simp only [shiftLoop]
    rw [ih, getD_set', getD_set', List.length_set]
    split_ifs <;> first | rfl | (exfalso; omega) | skip
    rename_i h2 h1 h0; rw [h1.1]

theorem shift_nil (l : RList) (h : l.value = []) : l.shift = (l, Status.failure, EMPTY) := by
  simp [shift, n, h]

theorem shift_spec (l : RList) (x : Int) (xs : List Int) (h : l.value = x :: xs) :
    l.shift = ({ l with value := xs }, Status.ok, x) := by
  have hn : l.n = xs.length + 1 := by simp [n, h]
  simp only [shift, hn]
  rw [if_neg (by omega)]
  have : (shiftLoop (xs.length + 1 - 1) 0 l.value).take (xs.length + 1 - 1) = xs := by
    apply ext_getD
    · simp [length_shiftLoop, h]
    · intro k hk
      simp only [List.length_take, length_shiftLoop, h, List.length_cons] at hk
      rw [getD_take _ _ _ (by omega), getD_shiftLoop, if_pos (by simp [h]; omega), h]
      simp
  rw [this, h]
  simp

/-! ### delete -/

theorem deleteLoop_absent (item : Int) (c fr : Nat) (v : List Int)
    (hn : fr + c = v.length) (h : ∀ k, fr ≤ k → k < v.length → v.getD k 0 ≠ item) :
    deleteLoop item c fr fr v = (fr + c, v) := by
  induction c generalizing fr with
  | zero => rfl
  | succ c ih =>
    simp only [deleteLoop]
    rw [if_pos (fun e => h fr (Nat.le_refl _) (by omega) e.symm)]
    have : v.set fr (v.getD fr 0) = v := by
      apply ext_getD (by simp)
      intro k _
      rw [getD_set']
      split_ifs with hk
      · rw [hk.1]
      · rfl
    rw [this, ih (fr + 1) (by omega) (fun k hk => h k (by omega))]
    congr 1; omega

theorem deleteLoop_spec (item : Int) (c fr dst : Nat) (v : List Int)
    (hn : fr + c = v.length) (hto : dst ≤ fr) :
    (deleteLoop item c fr dst v).2.length = v.length ∧
    (deleteLoop item c fr dst v).1 = dst + ((v.drop fr).filter (· ≠ item)).length ∧
    (deleteLoop item c fr dst v).2.take (deleteLoop item c fr dst v).1 =
      v.take dst ++ (v.drop fr).filter (· ≠ item) := by
  induction c generalizing fr dst v with
  | zero =>
    simp only [deleteLoop]
    have : v.drop fr = [] := by simp; omega
    simp [this]
  | succ c ih =>
    simp only [deleteLoop]
    have hfr : fr < v.length := by omega
    have hd : v.drop fr = v.getD fr 0 :: v.drop (fr + 1) := by
      rw [getD_eq_getElem' _ _ hfr]; exact List.drop_eq_getElem_cons hfr
    by_cases hne : item ≠ v.getD fr 0
    · rw [if_pos hne]
      obtain ⟨h1, h2, h3⟩ := ih (fr + 1) (dst + 1) (v.set dst (v.getD fr 0)) (by simp; omega) (by omega)
      have e1 : (v.set dst (v.getD fr 0)).drop (fr + 1) = v.drop (fr + 1) :=
        List.drop_set_of_lt (by omega)
      have e2 : (v.set dst (v.getD fr 0)).take (dst + 1) = v.take dst ++ [v.getD fr 0] := by
        rw [List.take_set, List.take_succ_eq_append_getElem (by omega)]
        have hl : (v.take dst).length = dst := by simp; omega
        rw [List.set_append_right _ _ (by omega), hl, Nat.sub_self]
        rfl
      rw [e1] at h2 h3
      rw [e2] at h3
      have hf : (v.drop fr).filter (· ≠ item) = v.getD fr 0 :: (v.drop (fr + 1)).filter (· ≠ item) := by
        rw [hd, List.filter_cons_of_pos (by simpa using fun e => hne e.symm)]
      rw [hf]
      refine ⟨by simpa using h1, by rw [h2]; simp; omega, by rw [h3]; simp⟩
    · rw [if_neg hne]
      have heq : v.getD fr 0 = item := by
        by_contra hc; exact hne (fun e => hc e.symm)
      obtain ⟨h1, h2, h3⟩ := ih (fr + 1) dst v (by omega) (by omega)
      have hf : (v.drop fr).filter (· ≠ item) = (v.drop (fr + 1)).filter (· ≠ item) := by
        rw [hd, List.filter_cons_of_neg (by rw [heq]; simp)]
      rw [hf]
      exact ⟨h1, h2, h3⟩

theorem delete_absent (l : RList) (item : Int) (h : item ∉ l.value) :
    l.delete item = (l, Status.not_found) := by
  have : deleteLoop item l.n 0 0 l.value = (0 + l.n, l.value) := by
    apply deleteLoop_absent _ _ _ _ (by simp [n])
    intro k _ hk e
    exact h ((mem_iff_getD _ _).2 ⟨k, hk, e⟩)
  simp only [delete, this, Nat.zero_add, if_true]

theorem delete_present (l : RList) (item : Int) (h : item ∈ l.value) :
    l.delete item = ({ l with value := l.value.filter (· ≠ item) }, Status.ok) := by
  obtain ⟨h1, h2, h3⟩ := deleteLoop_spec item l.n 0 0 l.value (by simp [n]) (Nat.le_refl _)
  simp only [delete]
  generalize deleteLoop item l.n 0 0 l.value = r at h1 h2 h3
  obtain ⟨dst, v⟩ := r
  simp only [List.drop_zero, List.take_zero, List.nil_append, Nat.zero_add] at h1 h2 h3
  have hlt : (l.value.filter (· ≠ item)).length < l.value.length := by
    apply List.length_filter_lt_length_iff_exists.2
    exact ⟨item, h, by simp⟩
  simp only
  rw [if_neg (by simp only [n]; omega), h3]

theorem containsLoop_spec (item : Int) (c i : Nat) (v : List Int) (hn : i + c = v.length) :
    containsLoop item c i v = decide (item ∈ v.drop i) := by
  induction c generalizing i with
  | zero =>
    have : v.drop i = [] := by simp; omega
    simp [containsLoop, this]
  | succ c ih =>
    have hi : i < v.length := by omega
    have hd : v.drop i = v.getD i 0 :: v.drop (i + 1) := by
      rw [getD_eq_getElem' _ _ hi]; exact List.drop_eq_getElem_cons hi
    simp only [containsLoop]
    rw [hd, ih (i + 1) (by omega)]
    generalize v.getD i 0 = y
    by_cases he : y = item
    · rw [if_pos he]; simp [he]
    · rw [if_neg he]
      have : ¬ item = y := fun e => he e.symm
      simp [List.mem_cons, this]

theorem contains_spec (l : RList) (item : Int) :
    l.contains item = (Status.ok, decide (item ∈ l.value)) := by
  simp only [contains]
  rw [containsLoop_spec item l.n 0 l.value (by simp [n]), List.drop_zero]

theorem erase_spec (l : RList) : l.erase = ({ l with value := [] }, Status.ok) := rfl

theorem deepCopy_eq (l : RList) : l.deepCopy = l := rfl

/-! ### refinement of arbitrary operation sequences -/

inductive Op where
  | push (x : Int) | pop | shift | delete (x : Int) | erase | contains (x : Int) | copy
  deriving Repr, DecidableEq

/-- concrete step: new state and what the C call reports (status, output value: `*last` / `*first` /
    `*contains` as 0|1 / 0 when the call has no output) -/
def step (l : RList) : Op → RList × Status × Int
  | .push x => ((l.push x).1, (l.push x).2, 0)
  | .pop => l.pop
  | .shift => l.shift
  | .delete x => ((l.delete x).1, (l.delete x).2, 0)
  | .erase => (l.erase.1, l.erase.2, 0)
  | .contains x => (l, (l.contains x).1, if (l.contains x).2 then 1 else 0)
  | .copy => (l.deepCopy, Status.ok, 0)

/-- abstract step on `List Int` -/
def specStep (xs : List Int) : Op → List Int × Status × Int
  | .push x => (xs ++ [x], Status.ok, 0)
  | .pop => if xs = [] then (xs, Status.failure, EMPTY) else (xs.dropLast, Status.ok, xs.getLastD 0)
  | .shift => match xs with
    | [] => ([], Status.failure, EMPTY)
    | x :: t => (t, Status.ok, x)
  | .delete x => if x ∈ xs then (xs.filter (· ≠ x), Status.ok, 0) else (xs, Status.not_found, 0)
  | .erase => ([], Status.ok, 0)
  | .contains x => (xs, Status.ok, if x ∈ xs then 1 else 0)
  | .copy => (xs, Status.ok, 0)

/-- run a sequence of operations, collecting what every call reports -/
def run : List Op → RList → RList × List (Status × Int)
  | [], l => (l, [])
  | op :: ops, l => ((run ops (step l op).1).1, (step l op).2 :: (run ops (step l op).1).2)

def specRun : List Op → List Int → List Int × List (Status × Int)
  | [], xs => (xs, [])
  | op :: ops, xs => ((specRun ops (specStep xs op).1).1, (specStep xs op).2 :: (specRun ops (specStep xs op).1).2)

/-- allocation invariant: `n <= max`, and `max` is 10 plus a multiple of the 1000-chunk -/
def Inv (l : RList) : Prop := l.n ≤ l.max ∧ l.max % 1000 = 10

theorem inv_create : Inv create := by simp [Inv, create, n]

theorem step_refines (l : RList) (h : Inv l) (op : Op) :
    (step l op).1.value = (specStep l.value op).1 ∧ (step l op).2 = (specStep l.value op).2 ∧
      Inv (step l op).1 := by
  obtain ⟨hle, hmod⟩ := h
  cases op with
  | push x =>
    refine ⟨rfl, rfl, ?_⟩
    simp only [step, push, Inv]
    by_cases hm : l.max = l.n
    · rw [if_pos hm]; simp only [n, List.length_append, List.length_singleton] at *; omega
    · rw [if_neg hm]; simp only [n, List.length_append, List.length_singleton] at *; omega
  | pop =>
    simp only [step, specStep]
    rcases List.eq_nil_or_concat' l.value with hv | ⟨xs, x, hv⟩
    · rw [pop_nil l hv, if_pos hv]; exact ⟨rfl, rfl, hle, hmod⟩
    · rw [pop_spec l xs x hv, if_neg (by simp [hv]), hv]
      refine ⟨by simp, by simp, ?_⟩
      simp only [Inv, n, hv, List.length_append, List.length_singleton] at hle ⊢
      exact ⟨by omega, hmod⟩
  | shift =>
    simp only [step, specStep]
    rcases hv : l.value with _ | ⟨x, xs⟩
    · rw [shift_nil l hv]; exact ⟨hv, rfl, hle, hmod⟩
    · rw [shift_spec l x xs hv]
      refine ⟨rfl, rfl, ?_⟩
      simp only [Inv, n, hv, List.length_cons] at hle ⊢
      exact ⟨by omega, hmod⟩
  | delete x =>
    simp only [step, specStep]
    by_cases hx : x ∈ l.value
    · rw [delete_present l x hx, if_pos hx]
      refine ⟨rfl, rfl, ?_⟩
      have := List.length_filter_le (· ≠ x) l.value
      simp only [Inv, n] at hle ⊢
      exact ⟨by omega, hmod⟩
    · rw [delete_absent l x hx, if_neg hx]
      exact ⟨rfl, rfl, hle, hmod⟩
  | erase => exact ⟨rfl, rfl, Nat.zero_le _, hmod⟩
  | contains x =>
    refine ⟨rfl, ?_, hle, hmod⟩
    simp only [step, specStep, contains_spec]
    by_cases hx : x ∈ l.value <;> simp [hx]
  | copy => exact ⟨rfl, rfl, hle, hmod⟩

theorem run_refines_from (ops : List Op) (l : RList) (h : Inv l) :
    (run ops l).1.value = (specRun ops l.value).1 ∧ (run ops l).2 = (specRun ops l.value).2 ∧
      Inv (run ops l).1 := by
  induction ops generalizing l with
  | nil => exact ⟨rfl, rfl, h⟩
  | cons op ops ih =>
    obtain ⟨h1, h2, h3⟩ := step_refines l h op
    obtain ⟨i1, i2, i3⟩ := ih (step l op).1 h3
    simp only [run, specRun]
    rw [← h1, ← h2]
    exact ⟨i1, by rw [i2], i3⟩

/-- every sequence of `ref_list` calls starting from `ref_list_create` behaves like the abstract
    `List Int` machine: same final content, same reported statuses and outputs -/
theorem run_refines (ops : List Op) :
    (run ops create).1.value = (specRun ops []).1 ∧ (run ops create).2 = (specRun ops []).2 ∧
      Inv (run ops create).1 :=
  run_refines_from ops create inv_create

example : (run [.push 5, .push 7, .push 5, .contains 7, .delete 5, .shift, .pop, .push 3, .copy, .erase] create)
    = ({ max := 10, value := [] },
       [(.ok, 0), (.ok, 0), (.ok, 0), (.ok, 1), (.ok, 0), (.ok, 7), (.failure, -1), (.ok, 0), (.ok, 0), (.ok, 0)]) := by
  decide

example : (specRun [.push 5, .push 7, .push 5, .contains 7, .delete 5, .shift, .pop, .push 3] []).1 = [3] := by
  decide

example : (run [.push 1, .push 2, .push 3, .delete 9, .pop, .shift] create).1.value = [2] := by decide

end Refine.Model.RList

namespace Refine.Model.RDict
open List Refine.Model.Sort

/-- strictly increasing keys, parallel arrays of equal length, `n <= max`, `max` = 10 + chunks of 1000 -/
def Inv (d : RDict) : Prop :=
  d.key.Pairwise (· < ·) ∧ d.value.length = d.key.length ∧ d.n ≤ d.max ∧ d.max % 1000 = 10

theorem inv_create : Inv create := by simp [Inv, create, n]

/-- abstraction: the finite map represented by the two parallel arrays -/
def lookup (d : RDict) (k : Int) : Option Int := (d.key.zip d.value).lookup k

theorem lookup_zip_none (ks vs : List Int) (k : Int) (h : k ∉ ks) : (ks.zip vs).lookup k = none := by
  induction ks generalizing vs with
  | nil => simp
  | cons a ks ih =>
    cases vs with
    | nil => simp
    | cons b vs =>
      have h1 : ¬ k = a := fun e => h (by simp [e])
      have h2 : k ∉ ks := fun e => h (by simp [e])
      simp only [List.zip_cons_cons, List.lookup_cons]
      rw [show (k == a) = false from by simpa using h1]
      exact ih vs h2

theorem mem_iff_lookup_zip (ks vs : List Int) (hl : vs.length = ks.length) (k : Int) :
    k ∈ ks ↔ ((ks.zip vs).lookup k).isSome := by
  induction ks generalizing vs with
  | nil => simp
  | cons a ks ih =>
    cases vs with
    | nil => simp at hl
    | cons b vs =>
      simp only [List.zip_cons_cons, List.lookup_cons, List.mem_cons]
      by_cases h : k = a
      · simp [h]
      · rw [show (k == a) = false from by simpa using h]
        simp only [h, false_or]
        exact ih vs (by simpa using hl)

theorem mem_key_iff_lookup {d : RDict} (h : Inv d) (k : Int) : k ∈ d.key ↔ (lookup d k).isSome :=
  mem_iff_lookup_zip d.key d.value h.2.1 k

theorem lookup_zip_append (ks1 ks2 vs1 vs2 : List Int) (hl : ks1.length = vs1.length) (k : Int) :
    ((ks1 ++ ks2).zip (vs1 ++ vs2)).lookup k =
      ((ks1.zip vs1).lookup k).or ((ks2.zip vs2).lookup k) := by
  rw [List.zip_append hl, List.lookup_append]

theorem getD_drop (l : List Int) (m k : Nat) : (l.drop m).getD k 0 = l.getD (m + k) 0 := by
  simp [List.getD_eq_getElem?_getD]

theorem storeScan_loop (keys : List Int)
    (hs : ∀ a b, a < b → b < keys.length → keys.getD a 0 < keys.getD b 0) (key : Int)
    (m : Nat) (hm : m ≤ keys.length) (hgt : ∀ j, m ≤ j → j < keys.length → key < keys.getD j 0) :
    (∃ i, storeScan keys key m = .found i ∧ i < m ∧ keys.getD i 0 = key) ∨
    (∃ p, storeScan keys key m = .insertAt p ∧ p ≤ m ∧ (∀ j, j < p → keys.getD j 0 < key) ∧
        (∀ j, p ≤ j → j < keys.length → key < keys.getD j 0)) := by
  induction m with
  | zero => exact Or.inr ⟨0, rfl, Nat.le_refl _, fun j hj => by omega, hgt⟩
  | succ m ih =>
    simp only [storeScan]
    by_cases he : keys.getD m 0 = key
    · rw [if_pos he]; exact Or.inl ⟨m, rfl, by omega, he⟩
    · rw [if_neg he]
      by_cases hlt : keys.getD m 0 < key
      · rw [if_pos hlt]
        refine Or.inr ⟨m + 1, rfl, Nat.le_refl _, fun j hj => ?_, hgt⟩
        by_cases hjm : j = m
        · rw [hjm]; exact hlt
        · have := hs j m (by omega) (by omega); omega
      · rw [if_neg hlt]
        rcases ih (by omega) (fun j hj1 hj2 => by
            by_cases hjm : j = m
            · rw [hjm]; omega
            · exact hgt j (by omega) hj2) with ⟨i, h1, h2, h3⟩ | ⟨p, h1, h2, h3, h4⟩
        · exact Or.inl ⟨i, h1, by omega, h3⟩
        · exact Or.inr ⟨p, h1, by omega, h3, h4⟩

/-- the downward scan of `ref_dict_store` on strictly increasing keys: the index of `key` if present,
    otherwise the insert point `p` = number of keys `< key` -/
theorem storeScan_spec (keys : List Int) (hs : keys.Pairwise (· < ·)) (key : Int) :
    (key ∈ keys → ∃ i, storeScan keys key keys.length = .found i ∧ i < keys.length ∧
        keys.getD i 0 = key) ∧
    (key ∉ keys → ∃ p, storeScan keys key keys.length = .insertAt p ∧ p ≤ keys.length ∧
        p = (keys.filter (· < key)).length ∧
        (∀ x ∈ keys.take p, x < key) ∧ (∀ x ∈ keys.drop p, key < x)) := by
  have hs' := (pairwise_iff_getD keys).1 hs
  rcases storeScan_loop keys hs' key keys.length (Nat.le_refl _) (fun j h1 h2 => by omega) with
    ⟨i, h1, h2, h3⟩ | ⟨p, h1, h2, h3, h4⟩
  · have hmem : key ∈ keys := (mem_iff_getD _ _).2 ⟨i, h2, h3⟩
    exact ⟨fun _ => ⟨i, h1, h2, h3⟩, fun h => absurd hmem h⟩
  · have htake : ∀ x ∈ keys.take p, x < key := by
      intro x hx
      obtain ⟨j, hj, hjx⟩ := (mem_iff_getD _ _).1 hx
      simp only [List.length_take] at hj
      rw [getD_take _ _ _ (by omega)] at hjx
      rw [← hjx]; exact h3 j (by omega)
    have hdrop : ∀ x ∈ keys.drop p, key < x := by
      intro x hx
      obtain ⟨j, hj, hjx⟩ := (mem_iff_getD _ _).1 hx
      simp only [List.length_drop] at hj
      rw [getD_drop] at hjx
      rw [← hjx]; exact h4 (p + j) (by omega) (by omega)
    have hnot : key ∉ keys := by
      intro hmem
      rw [← List.take_append_drop p keys, List.mem_append] at hmem
      rcases hmem with h | h
      · have := htake _ h; omega
      · have := hdrop _ h; omega
    refine ⟨fun h => absurd h hnot, fun _ => ⟨p, h1, h2, ?_, htake, hdrop⟩⟩
    conv_rhs => rw [← List.take_append_drop p keys, List.filter_append]
    rw [List.filter_eq_self.2 (fun x hx => by simpa using htake x hx),
      List.filter_eq_nil_iff.2 (fun x hx => by have := hdrop x hx; simp; omega)]
    simp; omega

theorem lookup_zip_mid (ks1 ks2 vs1 vs2 : List Int) (a b : Int) (hl : ks1.length = vs1.length)
    (hn : a ∉ ks1) (k : Int) :
    ((ks1 ++ a :: ks2).zip (vs1 ++ b :: vs2)).lookup k =
      if k = a then some b else ((ks1.zip vs1).lookup k).or ((ks2.zip vs2).lookup k) := by
  rw [lookup_zip_append _ _ _ _ hl, List.zip_cons_cons, List.lookup_cons]
  by_cases h : k = a
  · rw [if_pos h, h, lookup_zip_none _ _ _ hn]; simp
  · rw [if_neg h, show (k == a) = false from by simpa using h]

theorem split_at (l : List Int) (i : Nat) (hi : i < l.length) :
    l = l.take i ++ l.getD i 0 :: l.drop (i + 1) := by
  rw [getD_eq_getElem' _ _ hi, ← List.drop_eq_getElem_cons hi, List.take_append_drop]

theorem set_split (l : List Int) (i : Nat) (hi : i < l.length) (x : Int) :
    l.set i x = l.take i ++ x :: l.drop (i + 1) := by
  rw [List.set_eq_take_append_cons_drop, if_pos hi]

theorem eraseIdx_split (l : List Int) (i : Nat) : l.eraseIdx i = l.take i ++ l.drop (i + 1) :=
  List.eraseIdx_eq_take_drop_succ l i

theorem not_mem_of_sorted (ks : List Int) (hs : ks.Pairwise (· < ·)) (i : Nat) (hi : i < ks.length) :
    ks.getD i 0 ∉ ks.take i ∧ ks.getD i 0 ∉ ks.drop (i + 1) := by
  have h := hs
  rw [split_at ks i hi, List.pairwise_append] at h
  obtain ⟨-, h2, h3⟩ := h
  rw [List.pairwise_cons] at h2
  constructor
  · intro hm
    have := h3 _ hm (ks.getD i 0) (by simp)
    omega
  · intro hm
    have := h2.1 _ hm
    omega

theorem max_grow (mx n : Nat) (h : n ≤ mx) (hm : mx % 1000 = 10) :
    n + 1 ≤ (if mx = n then mx + 1000 else mx) ∧ n ≤ (if mx = n then mx + 1000 else mx) ∧
      (if mx = n then mx + 1000 else mx) % 1000 = 10 := by
  by_cases e : mx = n
  · rw [if_pos e]; omega
  · rw [if_neg e]; omega

/-- `ref_dict_store` is a map update -/
theorem store_spec {d : RDict} (h : Inv d) (k v : Int) :
    (d.store k v).2 = Status.ok ∧ Inv (d.store k v).1 ∧
      (∀ k', lookup (d.store k v).1 k' = if k' = k then some v else lookup d k') ∧
      (d.store k v).1.n = if k ∈ d.key then d.n else d.n + 1 := by
  obtain ⟨hs, hl, hle, hmod⟩ := h
  obtain ⟨hfound, hins⟩ := storeScan_spec d.key hs k
  obtain ⟨g1, g2, g3⟩ := max_grow d.max d.n hle hmod
  by_cases hk : k ∈ d.key
  · obtain ⟨i, h1, h2, h3⟩ := hfound hk
    have hst : d.store k v =
        ({ max := if d.max = d.n then d.max + 1000 else d.max, key := d.key, value := d.value.set i v },
          Status.ok) := by
      simp only [store, n, h1]
    rw [hst, if_pos hk]
    refine ⟨rfl, ⟨hs, by simpa using hl, g2, g3⟩, ?_, rfl⟩
    intro k'
    obtain ⟨n1, n2⟩ := not_mem_of_sorted d.key hs i h2
    have hlen : (d.key.take i).length = (d.value.take i).length := by simp [hl]
    simp only [lookup]
    rw [set_split d.value i (by omega) v]
    conv_rhs => rw [split_at d.value i (by omega)]
    rw [split_at d.key i h2, lookup_zip_mid _ _ _ _ _ _ hlen n1,
      lookup_zip_mid _ _ _ _ _ _ hlen n1, h3]
    by_cases e : k' = k
    · simp only [if_pos e]
    · simp only [if_neg e]
  · obtain ⟨p, h1, h2, h3, h4, h5⟩ := hins hk
    have hst : d.store k v =
        ({ max := if d.max = d.n then d.max + 1000 else d.max, key := insertAt d.key p k,
           value := insertAt d.value p v }, Status.ok) := by
      simp only [store, n, h1]
    rw [hst, if_neg hk]
    have hlen : (d.key.take p).length = (d.value.take p).length := by simp [hl]
    have n1 : k ∉ d.key.take p := fun hm => by have := h4 _ hm; omega
    refine ⟨rfl, ⟨?_, ?_, ?_, g3⟩, ?_, ?_⟩
    · simp only [insertAt]
      rw [List.pairwise_append, List.pairwise_cons]
      refine ⟨hs.sublist (List.take_sublist _ _), ⟨h5, hs.sublist (List.drop_sublist _ _)⟩, ?_⟩
      intro a ha b hb
      rw [List.mem_cons] at hb
      rcases hb with hb | hb
      · rw [hb]; exact h4 a ha
      · have := h4 a ha; have := h5 b hb; omega
    · simp [insertAt, hl]
    · simp only [n, insertAt, List.length_append, List.length_cons, List.length_take, List.length_drop] at g1 ⊢
      omega
    · intro k'
      simp only [lookup, insertAt]
      rw [lookup_zip_mid _ _ _ _ _ _ hlen n1]
      conv_rhs => rw [← List.take_append_drop p d.key, ← List.take_append_drop p d.value,
        lookup_zip_append _ _ _ _ hlen]
    · simp only [n, insertAt, List.length_append, List.length_cons, List.length_take, List.length_drop]
      omega

theorem linLoc_spec (key : Int) (c i : Nat) (ks : List Int) (hn : i + c = ks.length) :
    (∃ p : Nat, linLoc key c i ks = (Status.ok, (p : Int)) ∧ i ≤ p ∧ p < ks.length ∧ ks.getD p 0 = key) ∨
    (linLoc key c i ks = (Status.not_found, EMPTY) ∧ ∀ j, i ≤ j → j < ks.length → ks.getD j 0 ≠ key) := by
  induction c generalizing i with
  | zero => exact Or.inr ⟨rfl, fun j h1 h2 => by omega⟩
  | succ c ih =>
    simp only [linLoc]
    by_cases he : key = ks.getD i 0
    · rw [if_pos he]; exact Or.inl ⟨i, rfl, Nat.le_refl _, by omega, he.symm⟩
    · rw [if_neg he]
      rcases ih (i + 1) (by omega) with ⟨p, h1, h2, h3, h4⟩ | ⟨h1, h2⟩
      · exact Or.inl ⟨p, h1, by omega, h3, h4⟩
      · refine Or.inr ⟨h1, fun j hj1 hj2 => ?_⟩
        by_cases hji : j = i
        · rw [hji]; exact fun e => he e.symm
        · exact h2 j (by omega) hj2

/-- both branches of `ref_dict_location` (linear for `n <= 10`, binary search above) find the key
    exactly when it is present -/
theorem location_searchOK {d : RDict} (h : Inv d) (k : Int) : SearchOK d.key k (d.location k) := by
  simp only [location]
  by_cases hn : 10 < d.n
  · rw [if_pos hn]
    exact searchInt_spec d.key (h.1.imp (fun hab => by omega)) k
  · rw [if_neg hn]
    rcases linLoc_spec k d.n 0 d.key (by simp [n]) with ⟨p, h1, -, h3, h4⟩ | ⟨h1, h2⟩
    · exact Or.inl ⟨p, h1, h3, h4⟩
    · refine Or.inr ⟨h1, fun hm => ?_⟩
      obtain ⟨j, hj, hjk⟩ := (mem_iff_getD _ _).1 hm
      exact h2 j (Nat.zero_le _) hj hjk

theorem location_spec {d : RDict} (h : Inv d) (k : Int) :
    (k ∈ d.key → ∃ p : Nat, d.location k = (Status.ok, (p : Int)) ∧ p < d.n ∧ d.key.getD p 0 = k) ∧
    (k ∉ d.key → d.location k = (Status.not_found, EMPTY)) := by
  rcases location_searchOK h k with ⟨p, h1, h2, h3⟩ | ⟨h1, h2⟩
  · have : k ∈ d.key := (mem_iff_getD _ _).2 ⟨p, h2, h3⟩
    exact ⟨fun _ => ⟨p, h1, h2, h3⟩, fun hn => absurd this hn⟩
  · exact ⟨fun hm => absurd hm h2, fun _ => h1⟩

theorem remove_absent {d : RDict} (h : Inv d) (k : Int) (hk : k ∉ d.key) :
    d.remove k = (d, Status.not_found) := by
  simp only [remove, (location_spec h k).2 hk]

theorem remove_present {d : RDict} (h : Inv d) (k : Int) (hk : k ∈ d.key) :
    (d.remove k).2 = Status.ok ∧ Inv (d.remove k).1 ∧
      (∀ k', lookup (d.remove k).1 k' = if k' = k then none else lookup d k') ∧
      (d.remove k).1.n + 1 = d.n := by
  obtain ⟨p, h1, h2, h3⟩ := (location_spec h k).1 hk
  obtain ⟨hs, hl, hle, hmod⟩ := h
  have hr : d.remove k = ({ d with key := d.key.eraseIdx p, value := d.value.eraseIdx p }, Status.ok) := by
    simp only [remove, h1, Int.toNat_natCast]
  simp only [n] at h2
  rw [hr]
  refine ⟨rfl, ⟨hs.sublist (List.eraseIdx_sublist _ _), ?_, ?_, hmod⟩, ?_, ?_⟩
  · simp only [List.length_eraseIdx]; rw [if_pos (by omega), if_pos h2, hl]
  · simp only [n, List.length_eraseIdx] at hle ⊢; rw [if_pos h2]; omega
  · intro k'
    obtain ⟨n1, n2⟩ := not_mem_of_sorted d.key hs p h2
    have hlen : (d.key.take p).length = (d.value.take p).length := by simp [hl]
    simp only [lookup]
    rw [eraseIdx_split, eraseIdx_split, lookup_zip_append _ _ _ _ hlen]
    conv_rhs => rw [split_at d.value p (by omega), split_at d.key p h2,
      lookup_zip_mid _ _ _ _ _ _ hlen n1, h3]
    by_cases e : k' = k
    · simp only [if_pos e]
      rw [h3] at n1 n2
      rw [e, lookup_zip_none _ _ _ n1, lookup_zip_none _ _ _ n2]; rfl
    · simp only [if_neg e]
  · simp only [n, List.length_eraseIdx]; rw [if_pos h2]; omega

theorem valueOf_spec {d : RDict} (h : Inv d) (k : Int) :
    d.valueOf k = match lookup d k with
      | some v => (Status.ok, some v)
      | none => (Status.not_found, none) := by
  by_cases hk : k ∈ d.key
  · obtain ⟨p, h1, h2, h3⟩ := (location_spec h k).1 hk
    obtain ⟨hs, hl, hle, hmod⟩ := h
    simp only [n] at h2
    obtain ⟨n1, n2⟩ := not_mem_of_sorted d.key hs p h2
    have hlen : (d.key.take p).length = (d.value.take p).length := by simp [hl]
    have hlk : lookup d k = some (d.value.getD p 0) := by
      simp only [lookup]
      conv_lhs => rw [split_at d.value p (by omega), split_at d.key p h2,
        lookup_zip_mid _ _ _ _ _ _ hlen n1, if_pos h3.symm]
    rw [hlk]
    simp only [valueOf, h1, Int.toNat_natCast]
  · have hlk : lookup d k = none := lookup_zip_none _ _ _ hk
    rw [hlk]
    simp only [valueOf, (location_spec h k).2 hk]

theorem hasKey_spec (d : RDict) (k : Int) : d.hasKey k = decide (k ∈ d.key) := by
  simp only [hasKey]
  induction d.key with
  | nil => simp
  | cons a t ih => rw [List.any_cons, ih]; simp only [List.mem_cons, _root_.beq_eq_decide, Bool.decide_or]

theorem hasValue_spec (d : RDict) (v : Int) : d.hasValue v = decide (v ∈ d.value) := by
  simp only [hasValue]
  induction d.value with
  | nil => simp
  | cons a t ih => rw [List.any_cons, ih]; simp only [List.mem_cons, _root_.beq_eq_decide, Bool.decide_or]

theorem safeKey_in_range (d : RDict) (i : Nat) (hi : i < d.n) : d.safeKey (i : Int) = d.key.getD i 0 := by
  simp only [safeKey, Int.toNat_natCast]
  rw [if_pos ⟨by omega, by omega⟩]

theorem safeKey_out_of_range (d : RDict) (i : Int) (hi : i < 0 ∨ (d.n : Int) ≤ i) : d.safeKey i = EMPTY := by
  simp only [safeKey]
  rw [if_neg (by omega)]

theorem safeKeyValue_in_range (d : RDict) (i : Nat) (hi : i < d.n) :
    d.safeKeyValue (i : Int) = d.value.getD i 0 := by
  simp only [safeKeyValue, Int.toNat_natCast]
  rw [if_pos ⟨by omega, by omega⟩]

theorem safeKeyValue_out_of_range (d : RDict) (i : Int) (hi : i < 0 ∨ (d.n : Int) ≤ i) :
    d.safeKeyValue i = EMPTY := by
  simp only [safeKeyValue]
  rw [if_neg (by omega)]

theorem deepCopy_eq (d : RDict) : d.deepCopy = d := rfl

/-! ### refinement of arbitrary operation sequences -/

inductive Op where
  | store (k v : Int) | remove (k : Int) | copy
  deriving Repr, DecidableEq

/-- concrete step: new state and the status the C call returns -/
def step (d : RDict) : Op → RDict × Status
  | .store k v => d.store k v
  | .remove k => d.remove k
  | .copy => (d.deepCopy, Status.ok)

/-- abstract step on finite maps `Int → Option Int` -/
def specStep (m : Int → Option Int) : Op → (Int → Option Int) × Status
  | .store k v => (fun k' => if k' = k then some v else m k', Status.ok)
  | .remove k => (fun k' => if k' = k then none else m k',
      if (m k).isSome then Status.ok else Status.not_found)
  | .copy => (m, Status.ok)

def run : List Op → RDict → RDict
  | [], d => d
  | op :: ops, d => run ops (step d op).1

def runStatus : List Op → RDict → List Status
  | [], _ => []
  | op :: ops, d => (step d op).2 :: runStatus ops (step d op).1

def specRun : List Op → (Int → Option Int) → (Int → Option Int)
  | [], m => m
  | op :: ops, m => specRun ops (specStep m op).1

def specRunStatus : List Op → (Int → Option Int) → List Status
  | [], _ => []
  | op :: ops, m => (specStep m op).2 :: specRunStatus ops (specStep m op).1

theorem step_refines {d : RDict} (h : Inv d) (m : Int → Option Int) (hm : ∀ k, lookup d k = m k)
    (op : Op) :
    Inv (step d op).1 ∧ (∀ k, lookup (step d op).1 k = (specStep m op).1 k) ∧
      (step d op).2 = (specStep m op).2 := by
  cases op with
  | store k v =>
    obtain ⟨h1, h2, h3, -⟩ := store_spec h k v
    refine ⟨h2, fun k' => ?_, h1⟩
    simp only [step, specStep]
    rw [h3 k', hm k']
  | remove k =>
    simp only [step, specStep]
    by_cases hk : k ∈ d.key
    · obtain ⟨h1, h2, h3, -⟩ := remove_present h k hk
      have : (m k).isSome := by rw [← hm k]; exact (mem_key_iff_lookup h k).1 hk
      refine ⟨h2, fun k' => ?_, ?_⟩
      · rw [h3 k', hm k']
      · rw [h1, if_pos this]
    · rw [remove_absent h k hk]
      have hnone : m k = none := by
        rw [← hm k]; exact lookup_zip_none _ _ _ hk
      refine ⟨h, fun k' => ?_, ?_⟩
      · by_cases e : k' = k
        · simp only [if_pos e]; rw [e, hm k, hnone]
        · simp only [if_neg e]; exact hm k'
      · rw [hnone]; rfl
  | copy => exact ⟨h, hm, rfl⟩

theorem run_refines_from (ops : List Op) (d : RDict) (h : Inv d) (m : Int → Option Int)
    (hm : ∀ k, lookup d k = m k) :
    Inv (run ops d) ∧ (∀ k, lookup (run ops d) k = specRun ops m k) ∧
      runStatus ops d = specRunStatus ops m := by
  induction ops generalizing d m with
  | nil => exact ⟨h, hm, rfl⟩
  | cons op ops ih =>
    obtain ⟨h1, h2, h3⟩ := step_refines h m hm op
    obtain ⟨i1, i2, i3⟩ := ih (step d op).1 h1 (specStep m op).1 h2
    simp only [run, specRun, runStatus, specRunStatus]
    exact ⟨i1, i2, by rw [h3, i3]⟩

/-- every sequence of `ref_dict_store` / `_remove` / `_deep_copy` calls starting from
    `ref_dict_create` keeps the invariant and behaves like the abstract finite map, including the
    returned statuses (`remove` reports `not_found` exactly when the abstract map has no entry) -/
theorem run_refines (ops : List Op) :
    Inv (run ops create) ∧ (∀ k, lookup (run ops create) k = specRun ops (fun _ => none) k) ∧
      runStatus ops create = specRunStatus ops (fun _ => none) :=
  run_refines_from ops create inv_create _ (fun _ => rfl)

theorem specStep_remove_status (m : Int → Option Int) (k : Int) :
    (specStep m (.remove k)).2 = Status.not_found ↔ m k = none := by
  simp only [specStep]
  cases m k <;> simp

example : run [.store 5 50, .store 2 20, .store 9 90, .store 5 55, .remove 2, .remove 7, .copy] create
    = { max := 10, key := [5, 9], value := [55, 90] } := by decide

example : runStatus [.store 5 50, .store 2 20, .store 9 90, .store 5 55, .remove 2, .remove 7, .copy] create
    = [.ok, .ok, .ok, .ok, .ok, .not_found, .ok] := by decide

example : lookup (run [.store 5 50, .store 2 20, .store 5 55, .remove 2] create) 5 = some 55 := by decide

example : (create.store 3 30).1.valueOf 3 = (Status.ok, some 30) := by decide

example : (create.store 3 30).1.location 4 = (Status.not_found, EMPTY) := by decide

/-- the binary-search branch (`n > 10`) -/
example : (run ((List.range 12).map fun i => Op.store (2 * i) i) create).location 14 = (Status.ok, 7) := by
  decide

end Refine.Model.RDict
