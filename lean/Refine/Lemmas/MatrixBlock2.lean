import Refine.Lemmas.MatrixQL

/-!
  `diagM_similarity` for a 2x2 active block: one implicit-shift sweep (l = 0, mm = 1) is an exact
  orthogonal similarity `Q (T + f·I) Qᵀ = A` that annihilates e[0]; consequently `ref_matrix_diag_m` is
  exact on every input whose tridiagonal form has e[1] = 0 (all 2-D embedded matrices), unless e[0]
  already passes the convergence test at the start.
-/
namespace Refine.Model.Matrix
open Refine Refine.ScalarReal

/-- `gridSign r p` with `r = sqrt(p² + 1)`: a square root of p² + 1 with the sign of p -/
theorem gridSign_sq (p : ℝ) : gridSign (Real.sqrt (p * p + 1)) p * gridSign (Real.sqrt (p * p + 1)) p = p * p + 1 := by
  have h0 : (0 : ℝ) ≤ p * p + 1 := by nlinarith [mul_self_nonneg p]
  have hs : Real.sqrt (p * p + 1) * Real.sqrt (p * p + 1) = p * p + 1 := Real.mul_self_sqrt h0
  unfold gridSign
  rw [cabs_eq]
  split_ifs
  · rw [abs_mul_abs_self]; exact hs
  · rw [neg_eq, neg_mul_neg, abs_mul_abs_self]; exact hs

/-- explicit form of one sweep over the leading 2x2 block (l = 0, mm = 1) -/
theorem sweep01_form (st : QL ℝ) (he0 : st.e0 ≠ 0) :
    ∃ c s L1 h : ℝ, c * c + s * s = 1 ∧ h + L1 * (s * s) = st.d.l0 ∧ h + L1 * (c * c) = st.d.l1 ∧
      L1 * (c * s) = st.e0 ∧
      sweep 0 1 st =
        { d := { l0 := 0, l1 := L1, l2 := st.d.l2 - h
                 x0 := c * st.d.x0 - s * st.d.x1, y0 := c * st.d.y0 - s * st.d.y1, z0 := c * st.d.z0 - s * st.d.z1
                 x1 := s * st.d.x0 + c * st.d.x1, y1 := s * st.d.y0 + c * st.d.y1, z1 := s * st.d.z0 + c * st.d.z1
                 x2 := st.d.x2, y2 := st.d.y2, z2 := st.d.z2 }
          e0 := 0, e1 := 0, e2 := st.e2, f := st.f + h, tst1 := st.tst1 } := by
  refine ⟨?c, ?s, ?L1, ?h, ?h1, ?h2, ?h3, ?h4, ?heq⟩
  case heq =>
    have hloop : ∀ w : Sweep ℝ, innerLoop (1 - 0) 1 w = innerStep 0 w := fun w => rfl
    unfold sweep
    dsimp only
    rw [hloop]
    simp only [innerStep, shift, QL.setD, QL.getD, QL.getE, QL.setE, rotVec, mul_eq, add_eq, sub_eq, div_eq, neg_eq,
      sqrt_eq, one_eq, zero_eq, two_eq, Nat.reduceAdd, if_true, le_refl,
      mul_zero, zero_mul, mul_one, one_mul, zero_div, zero_add]
    rfl
  all_goals
    set p := (st.d.l1 - st.d.l0) / (2 * st.e0) with hp
    have hgs := gridSign_sq p
    set gs := gridSign (Real.sqrt (p * p + 1)) p with hgsdef
    have htt : (p + gs) * (p + gs) - 1 = 2 * p * (p + gs) := by linear_combination hgs
    have ht0 : p + gs ≠ 0 := by
      intro h0; rw [h0] at htt; norm_num at htt
    set t := p + gs with htdef
    have hpe : 2 * p * st.e0 = st.d.l1 - st.d.l0 := by rw [hp]; field_simp
    have hpos : 0 < st.e0 * t * (st.e0 * t) + st.e0 * st.e0 := by
      have := mul_self_pos.mpr he0
      nlinarith [mul_self_nonneg (st.e0 * t)]
    have hRR := Real.mul_self_sqrt hpos.le
    have hR0 : Real.sqrt (st.e0 * t * (st.e0 * t) + st.e0 * st.e0) ≠ 0 := (Real.sqrt_pos.mpr hpos).ne'
    set R := Real.sqrt (st.e0 * t * (st.e0 * t) + st.e0 * st.e0) with hRdef
  case h1 =>
    field_simp
    linear_combination -hRR
  case h2 =>
    field_simp
    linear_combination (-R ^ 2 * st.e0 - st.e0 ^ 3) * hRR
  case h3 =>
    field_simp
    linear_combination (-R ^ 2 * st.e0 + R ^ 2 * st.d.l0 * t - R ^ 2 * st.d.l1 * t + st.e0 ^ 3 * t ^ 4
      - st.e0 ^ 3 * t ^ 2 - st.e0 ^ 3 + st.e0 ^ 2 * st.d.l0 * t ^ 3 + st.e0 ^ 2 * st.d.l0 * t
      - st.e0 ^ 2 * st.d.l1 * t ^ 3 - st.e0 ^ 2 * st.d.l1 * t) * hRR
      + (st.e0 ^ 5 * t ^ 4 + 2 * st.e0 ^ 5 * t ^ 2 + st.e0 ^ 5) * htt
      + (st.e0 ^ 4 * t ^ 5 + 2 * st.e0 ^ 4 * t ^ 3 + st.e0 ^ 4 * t) * hpe
  case h4 =>
    field_simp
    linear_combination (-R ^ 2 - st.e0 ^ 2) * hRR

/-- the symmetric matrix a QL state stands for while row 0 is active: `Q (T + f·I) Qᵀ` -/
def QL.repr0 (st : QL ℝ) : M6 ℝ :=
  tridiagForm { st.d with l0 := st.d.l0 + st.f, l1 := st.d.l1 + st.f, l2 := st.d.l2 + st.f } st.e0 st.e1

/-- one implicit-shift sweep over the leading 2x2 block is an exact similarity and annihilates e[0] -/
theorem sweep01_repr0 (st : QL ℝ) (he0 : st.e0 ≠ 0) (he1 : st.e1 = 0) :
    (sweep 0 1 st).repr0 = st.repr0 ∧ (sweep 0 1 st).e0 = 0 ∧ (sweep 0 1 st).e1 = 0 ∧
    (sweep 0 1 st).e2 = st.e2 ∧ (sweep 0 1 st).tst1 = st.tst1 := by
  obtain ⟨c, s, L1, h, h1, h2, h3, h4, heq⟩ := sweep01_form st he0
  rw [heq]
  refine ⟨?_, rfl, rfl, rfl, rfl⟩
  apply M6.ext' <;> simp only [QL.repr0, tridiagForm, he1]
  · linear_combination (st.d.x0 * st.d.x0 + st.d.x1 * st.d.x1) * (st.f + h) * h1 + (st.d.x0 * st.d.x0) * h2 + (st.d.x1 * st.d.x1) * h3 + (st.d.x0 * st.d.x1 + st.d.x1 * st.d.x0) * h4
  · linear_combination (st.d.x0 * st.d.y0 + st.d.x1 * st.d.y1) * (st.f + h) * h1 + (st.d.x0 * st.d.y0) * h2 + (st.d.x1 * st.d.y1) * h3 + (st.d.x0 * st.d.y1 + st.d.x1 * st.d.y0) * h4
  · linear_combination (st.d.x0 * st.d.z0 + st.d.x1 * st.d.z1) * (st.f + h) * h1 + (st.d.x0 * st.d.z0) * h2 + (st.d.x1 * st.d.z1) * h3 + (st.d.x0 * st.d.z1 + st.d.x1 * st.d.z0) * h4
  · linear_combination (st.d.y0 * st.d.y0 + st.d.y1 * st.d.y1) * (st.f + h) * h1 + (st.d.y0 * st.d.y0) * h2 + (st.d.y1 * st.d.y1) * h3 + (st.d.y0 * st.d.y1 + st.d.y1 * st.d.y0) * h4
  · linear_combination (st.d.y0 * st.d.z0 + st.d.y1 * st.d.z1) * (st.f + h) * h1 + (st.d.y0 * st.d.z0) * h2 + (st.d.y1 * st.d.z1) * h3 + (st.d.y0 * st.d.z1 + st.d.y1 * st.d.z0) * h4
  · linear_combination (st.d.z0 * st.d.z0 + st.d.z1 * st.d.z1) * (st.f + h) * h1 + (st.d.z0 * st.d.z0) * h2 + (st.d.z1 * st.d.z1) * h3 + (st.d.z0 * st.d.z1 + st.d.z1 * st.d.z0) * h4


/-- the `if (tst1 < h) tst1 = h;` update at the top of a row -/
noncomputable def tstUpd (l : Nat) (st : QL ℝ) : QL ℝ :=
  if Scalar.lt st.tst1 (Scalar.add (Scalar.cabs (st.getD l)) (Scalar.cabs (st.getE l))) then
    { st with tst1 := Scalar.add (Scalar.cabs (st.getD l)) (Scalar.cabs (st.getE l)) } else st

theorem tstUpd_spec (l : Nat) (st : QL ℝ) (ht : 0 ≤ st.tst1) :
    (tstUpd l st).d = st.d ∧ (tstUpd l st).e0 = st.e0 ∧ (tstUpd l st).e1 = st.e1 ∧ (tstUpd l st).e2 = st.e2 ∧
    (tstUpd l st).f = st.f ∧ 0 ≤ (tstUpd l st).tst1 := by
  unfold tstUpd
  split_ifs
  · refine ⟨rfl, rfl, rfl, rfl, rfl, ?_⟩
    show (0 : ℝ) ≤ Scalar.add (Scalar.cabs (st.getD l)) (Scalar.cabs (st.getE l))
    rw [add_eq, cabs_eq, cabs_eq]; positivity
  · exact ⟨rfl, rfl, rfl, rfl, rfl, ht⟩

theorem tstUpd_def (l : Nat) (st : QL ℝ) :
    (if Scalar.lt st.tst1 (Scalar.add (Scalar.cabs (st.getD l)) (Scalar.cabs (st.getE l))) = true then
      ({ st with tst1 := Scalar.add (Scalar.cabs (st.getD l)) (Scalar.cabs (st.getE l)) } : QL ℝ) else st)
    = tstUpd l st := rfl

/-- a row whose sub-diagonal entry passes the convergence test is accepted without a sweep -/
theorem rowStep_of_small (l : Nat) (hl : l ≤ 2) (st : QL ℝ) (hs : (tstUpd l st).isSmall l = true) :
    rowStep l st = .ok ((tstUpd l st).setD l ((tstUpd l st).getD l + (tstUpd l st).f)) := by
  unfold rowStep
  dsimp only
  rw [tstUpd_def]
  have hf : (tstUpd l st).findSmall l (3 - l) = l := by
    have : 3 - l = (2 - l) + 1 := by omega
    rw [this]; unfold QL.findSmall; rw [if_pos hs]
  rw [hf]
  have h3 : (l == 3) = false := by simp; omega
  simp only [h3, Bool.false_eq_true, if_false, bne_self_eq_false, add_eq]

/-- row 0 with a large e[0] and e[1] = 0: exactly one sweep over the 2x2 block -/
theorem rowStep0_block2 (st : QL ℝ) (ht : 0 ≤ st.tst1) (he1 : st.e1 = 0)
    (hs : (tstUpd 0 st).isSmall 0 = false) :
    rowStep 0 st = .ok ((sweep 0 1 (tstUpd 0 st)).setD 0
      ((sweep 0 1 (tstUpd 0 st)).getD 0 + (sweep 0 1 (tstUpd 0 st)).f)) := by
  obtain ⟨ud, u0, u1, u2, uf, ut⟩ := tstUpd_spec 0 st ht
  unfold rowStep
  dsimp only
  rw [tstUpd_def]
  have hs1 : (tstUpd 0 st).isSmall 1 = true := isSmall_of_zero _ 1 ut (by show (tstUpd 0 st).e1 = 0; rw [u1, he1])
  have hf : (tstUpd 0 st).findSmall 0 (3 - 0) = 1 := by
    show (tstUpd 0 st).findSmall 0 (2 + 1) = 1
    unfold QL.findSmall
    rw [if_neg (by rw [hs]; decide)]
    unfold QL.findSmall
    rw [if_pos hs1]
  rw [hf]
  have e0ne : (tstUpd 0 st).e0 ≠ 0 := ne_zero_of_not_isSmall _ 0 ut hs
  obtain ⟨_, z0, _, _, zt⟩ := sweep01_repr0 (tstUpd 0 st) e0ne (by rw [u1, he1])
  have hsm : (sweep 0 1 (tstUpd 0 st)).isSmall 0 = true :=
    isSmall_of_zero _ 0 (by rw [zt]; exact ut) z0
  have hq : qlLoop 30 0 1 (tstUpd 0 st) = .ok (sweep 0 1 (tstUpd 0 st)) := by
    show qlLoop (29 + 1) 0 1 (tstUpd 0 st) = _
    unfold qlLoop
    dsimp only
    rw [if_pos hsm]
  simp only [hq, add_eq]
  rfl

/-- rows 1 and 2 with e[1] = e[2] = 0: both accepted without a sweep, `d[1] += f`, `d[2] += f` -/
theorem rows12_accept (s1 : QL ℝ) (ht : 0 ≤ s1.tst1) (h1 : s1.e1 = 0) (h2 : s1.e2 = 0) :
    ∃ t1 t2 : ℝ, rowStep 1 s1 = .ok (acceptRow 1 s1 t1) ∧
      rowStep 2 (acceptRow 1 s1 t1) = .ok (acceptRow 2 (acceptRow 1 s1 t1) t2) ∧
      (acceptRow 2 (acceptRow 1 s1 t1) t2).d = { s1.d with l1 := s1.d.l1 + s1.f, l2 := s1.d.l2 + s1.f } := by
  obtain ⟨t1, ht1, r1⟩ := rowStep_of_zero 1 (by omega) s1 ht h1
  obtain ⟨t2, _, r2⟩ := rowStep_of_zero 2 (by omega) (acceptRow 1 s1 t1)
    (by rw [acceptRow_tst1]; exact ht1) (by rw [acceptRow_getE]; exact h2)
  exact ⟨t1, t2, r1, r2, rfl⟩

/-- `diagM_similarity`, proved for inputs whose tridiagonal form has e[1] = 0 (in particular every 2-D
    embedded matrix m13 = m23 = 0): the decomposition is exact, unless e[0] already passes the
    convergence test at the start, in which case it is dropped and `d` is the tridiagonal diagonal -/
theorem diagM_block2' (m : M6 ℝ) (d : Eig12 ℝ) (h : diagM m = .ok d) (he1 : (rot0 m).e1 = 0) :
    formM d = m ∨
    (tridiagForm d (rot0 m).e0 0 = m ∧ (tstUpd 0 (rot0 m)).isSmall 0 = true) := by
  obtain ⟨ho, hT⟩ := rot0_spec m
  have hf := rot0_f m
  have he2 := rot0_e2 m
  have ht : (0 : ℝ) ≤ (rot0 m).tst1 := by rw [rot0_tst1]
  unfold diagM at h
  simp only [M6.allFinite, isFinite_eq, Bool.and_self, Bool.not_true, Bool.false_eq_true, if_false] at h
  generalize rot0 m = st0 at *
  obtain ⟨ud, u0, u1, u2, uf, ut⟩ := tstUpd_spec 0 st0 ht
  by_cases hs : (tstUpd 0 st0).isSmall 0 = true
  · right
    rw [rowStep_of_small 0 (by omega) st0 hs] at h
    dsimp only at h
    obtain ⟨t1, t2, r1, r2, hd'⟩ := rows12_accept ((tstUpd 0 st0).setD 0 ((tstUpd 0 st0).getD 0 + (tstUpd 0 st0).f))
      (by rw [setD_tst1]; exact ut) (by rw [setD_e1, u1, he1]) (by rw [setD_e2, u2, he2])
    rw [r1] at h; dsimp only at h
    rw [r2] at h; dsimp only at h
    injection h with h
    have hd : d = _ := h.symm.trans hd'
    refine ⟨?_, hs⟩
    rw [hd, ← hT, he1]
    simp only [QL.setD, QL.getD, ud, uf, hf]
    apply M6.ext' <;> simp only [tridiagForm] <;> ring
  · left
    have hs' : (tstUpd 0 st0).isSmall 0 = false := Bool.eq_false_iff.mpr hs
    rw [rowStep0_block2 st0 ht he1 hs'] at h
    dsimp only at h
    have e0ne : (tstUpd 0 st0).e0 ≠ 0 := ne_zero_of_not_isSmall _ 0 ut hs'
    obtain ⟨zr, z0, z1, z2, zt⟩ := sweep01_repr0 (tstUpd 0 st0) e0ne (by rw [u1, he1])
    obtain ⟨t1, t2, r1, r2, hd'⟩ := rows12_accept
      ((sweep 0 1 (tstUpd 0 st0)).setD 0 ((sweep 0 1 (tstUpd 0 st0)).getD 0 + (sweep 0 1 (tstUpd 0 st0)).f))
      (by rw [setD_tst1, zt]; exact ut) (by rw [setD_e1, z1]) (by rw [setD_e2, z2, u2, he2])
    rw [r1] at h; dsimp only at h
    rw [r2] at h; dsimp only at h
    injection h with h
    have hd : d = _ := h.symm.trans hd'
    rw [hd, ← tridiagForm_zero]
    have hrepr : (tstUpd 0 st0).repr0 = m := by
      rw [← hT]
      simp only [QL.repr0, ud, u0, u1, uf, hf]
      apply M6.ext' <;> simp only [tridiagForm] <;> ring
    rw [← hrepr, ← zr]
    generalize sweep 0 1 (tstUpd 0 st0) = sw at z0 z1 ⊢
    simp only [QL.repr0, QL.setD, QL.getD, z0, z1]


theorem rot0_e1_twod (m : M6 ℝ) (h13 : m.m13 = 0) (h23 : m.m23 = 0) : (rot0 m).e1 = 0 := by
  unfold rot0
  dsimp only
  split_ifs <;> simp [h13, h23]


/-- on inputs whose tridiagonal form has e[1] = 0 the QL loop needs at most one sweep: `diagM` succeeds -/
theorem diagM_block2_ok (m : M6 ℝ) (he1 : (rot0 m).e1 = 0) : ∃ d, diagM m = .ok d := by
  have he2 := rot0_e2 m
  have ht : (0 : ℝ) ≤ (rot0 m).tst1 := by rw [rot0_tst1]
  unfold diagM
  simp only [M6.allFinite, isFinite_eq, Bool.and_self, Bool.not_true, Bool.false_eq_true, if_false]
  generalize rot0 m = st0 at *
  obtain ⟨ud, u0, u1, u2, uf, ut⟩ := tstUpd_spec 0 st0 ht
  by_cases hs : (tstUpd 0 st0).isSmall 0 = true
  · rw [rowStep_of_small 0 (by omega) st0 hs]
    dsimp only
    obtain ⟨t1, t2, r1, r2, _⟩ := rows12_accept ((tstUpd 0 st0).setD 0 ((tstUpd 0 st0).getD 0 + (tstUpd 0 st0).f))
      (by rw [setD_tst1]; exact ut) (by rw [setD_e1, u1, he1]) (by rw [setD_e2, u2, he2])
    rw [r1]; dsimp only
    rw [r2]
    exact ⟨_, rfl⟩
  · have hs' : (tstUpd 0 st0).isSmall 0 = false := Bool.eq_false_iff.mpr hs
    rw [rowStep0_block2 st0 ht he1 hs']
    dsimp only
    have e0ne : (tstUpd 0 st0).e0 ≠ 0 := ne_zero_of_not_isSmall _ 0 ut hs'
    obtain ⟨zr, z0, z1, z2, zt⟩ := sweep01_repr0 (tstUpd 0 st0) e0ne (by rw [u1, he1])
    obtain ⟨t1, t2, r1, r2, _⟩ := rows12_accept
      ((sweep 0 1 (tstUpd 0 st0)).setD 0 ((sweep 0 1 (tstUpd 0 st0)).getD 0 + (sweep 0 1 (tstUpd 0 st0)).f))
      (by rw [setD_tst1, zt]; exact ut) (by rw [setD_e1, z1]) (by rw [setD_e2, z2, u2, he2])
    rw [r1]; dsimp only
    rw [r2]
    exact ⟨_, rfl⟩

/-- the example matrix [[2,1,0],[1,2,0],[0,0,1]]: e[0] = 1 does not pass the convergence test (either variant) -/
theorem example_not_small : (tstUpd 0 (rot0 (⟨2, 1, 0, 2, 0, 1⟩ : M6 ℝ))).isSmall 0 = false := by
  have h1 : Real.sqrt (1 * 1 + 0 * 0) = 1 := by norm_num
  have hr : rot0 (⟨2, 1, 0, 2, 0, 1⟩ : M6 ℝ) =
      { d := ⟨2, 2, 1, 1, 0, 0, 0, 1, 0, 0, 0, -1⟩, e0 := 1, e1 := 0, e2 := 0, f := 0, tst1 := 0 } := by
    unfold rot0
    simp only [mul_eq, add_eq, sqrt_eq, h1]
    have g1 : Scalar.divisible (1 : ℝ) 1 = true := by rw [divisible_iff]; norm_num
    have g0 : Scalar.divisible (0 : ℝ) 1 = true := by rw [divisible_iff]; norm_num
    simp only [g1, g0, Bool.and_self, if_true, div_eq, sub_eq, neg_eq, one_eq, zero_eq, two_eq]
    norm_num
  rw [hr]
  have ht : tstUpd 0 ({ d := ⟨2, 2, 1, 1, 0, 0, 0, 1, 0, 0, 0, -1⟩, e0 := 1, e1 := 0, e2 := 0, f := 0, tst1 := 0 } : QL ℝ) =
      { d := ⟨2, 2, 1, 1, 0, 0, 0, 1, 0, 0, 0, -1⟩, e0 := 1, e1 := 0, e2 := 0, f := 0, tst1 := 3 } := by
    unfold tstUpd
    simp only [QL.getD, QL.getE, cabs_eq, add_eq]
    have : Scalar.lt (0 : ℝ) (|2| + |1|) = true := by rw [lt_iff]; norm_num
    rw [if_pos this]
    norm_num
  rw [ht]
  unfold QL.isSmall
  simp only [QL.getE, cabs_eq, add_eq, sub_eq, mul_eq, ofDec_eq]
  cases relativeConvergence
  · simp only [Bool.false_eq_true, if_false]; rw [lt_false_iff]; norm_num
  · simp only [if_true]; rw [le_false_iff]; norm_num

end Refine.Model.Matrix
