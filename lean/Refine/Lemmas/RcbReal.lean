import Refine.Lemmas.Rcb
import Refine.Lemmas.ScalarReal
import Refine.Lemmas.CommSelect
import Mathlib.Tactic.Linarith
import Mathlib.Data.List.Perm.Basic

/-!
  Helper lemmas for `Refine/Props/C04Rcb.lean`, part 2: exact arithmetic (`α := ℝ`).
  `ref_migrate_split_ratio`, the sizes of the two halves of one cut, and the facts that make the partition a
  function of the multiset of owned coordinates: `ref_search_selection`, `ref_migrate_split_dir` and the record
  count only see the multiset of the transformed coordinates of the communicator.
  The interpretation of `sin / cos / acos / (REF_LONG)` (`RcbScalar ℝ`) is arbitrary throughout.
-/
namespace Refine.Lemmas.Rcb
open Refine Refine.Model.Comm Refine.Model.Rcb Refine.Model.Geom Refine.Lemmas.Comm Refine.ScalarReal

/-! ### `ref_migrate_split_ratio` -/

theorem tdiv_two (n : Nat) : Int.tdiv (n : Int) 2 = ((n / 2 : Nat) : Int) :=
  (Int.ofNat_tdiv n 2).symm

theorem splitRatio_real (n : Nat) (hn : n ≠ 0) :
    splitRatio (α := ℝ) (n : Int) = (Status.ok, ((n / 2 : Nat) : ℝ) / (n : ℝ)) := by
  unfold splitRatio
  simp only [tdiv_two]
  have hdiv : Scalar.divisible ((Scalar.ofInt ((n / 2 : Nat) : Int) : ℝ)) (Scalar.ofInt (n : Int)) = true := by
    rw [divisible_iff, ofInt_eq, ofInt_eq]
    have h1 : ((n / 2 : Nat) : ℝ) ≤ (n : ℝ) := by exact_mod_cast Nat.div_le_self n 2
    have h2 : (0 : ℝ) < (n : ℝ) := by exact_mod_cast Nat.pos_of_ne_zero hn
    have h0 : (0 : ℝ) ≤ ((n / 2 : Nat) : ℝ) := by positivity
    rw [Int.cast_natCast, Int.cast_natCast, abs_of_nonneg h0, abs_of_pos (by positivity)]
    have h4 : (1 : ℝ) < (10 : ℝ) ^ (20 : ℤ) := by norm_num
    nlinarith
  rw [if_pos hdiv, div_eq, ofInt_eq, ofInt_eq, Int.cast_natCast, Int.cast_natCast]

theorem splitRatio_zero : (splitRatio (α := ℝ) 0).1 = Status.div_zero := by
  unfold splitRatio
  have : Scalar.divisible ((Scalar.ofInt (Int.tdiv 0 2) : ℝ)) (Scalar.ofInt 0) = false := by
    rw [Bool.eq_false_iff, ne_eq, divisible_iff]
    simp
  simp only [this]
  rfl

/-- the hypothesis `hst` of `rcbDirection_spec` holds in exact arithmetic -/
theorem hst_real : ∀ n : Nat, 2 ≤ n → (splitRatio (α := ℝ) (n : Int)).1 = Status.ok := by
  intro n hn
  rw [splitRatio_real n (by omega)]

/-! ### sizes of the two halves of one cut -/

/-- number of entries equal to `v` -/
noncomputable def ties (v : ℝ) (xs : List ℝ) : Int := ((xs.filter fun x => decide (x = v)).length : Int)

/-- the copy-loop test on a coordinate -/
noncomputable def outerB (v0 v1 : ℝ) (x : ℝ) : Bool := decide (x < v0) || decide (v1 < x)

theorem countLe_eq_lt_add_ties (v : ℝ) (xs : List ℝ) : countLeR v xs = countLt v xs + ties v xs := by
  unfold countLeR countLt ties
  induction xs with
  | nil => simp
  | cons x xs ih =>
    simp only [List.filter_cons]
    rcases lt_trichotomy x v with h | h | h
    · have h1 : x ≤ v := h.le
      have h2 : x ≠ v := h.ne
      simp only [h, h1, h2, decide_true, decide_false, if_true, List.length_cons]
      simp only [Bool.false_eq_true, if_false]
      push_cast
      omega
    · subst h
      simp only [le_refl, lt_irrefl, decide_true, decide_false, if_true, List.length_cons]
      simp only [Bool.false_eq_true, if_false]
      push_cast
      omega
    · have h1 : ¬ x ≤ v := not_le.mpr h
      have h2 : ¬ x < v := not_lt.mpr h.le
      have h3 : x ≠ v := h.ne'
      simp only [h1, h2, h3, decide_false, Bool.false_eq_true, if_false]
      exact ih

theorem outer_length (v0 v1 : ℝ) (hv : v0 ≤ v1) (xs : List ℝ) :
    ((xs.filter (outerB v0 v1)).length : Int) = countLt v0 xs + ((xs.length : Int) - countLeR v1 xs) := by
  unfold countLeR countLt outerB
  induction xs with
  | nil => simp
  | cons x xs ih =>
    simp only [List.filter_cons, List.length_cons]
    by_cases h0 : x < v0
    · have h1 : x ≤ v1 := le_trans h0.le hv
      simp only [h0, h1, decide_true, Bool.true_or, if_true, List.length_cons]
      push_cast
      omega
    · by_cases h1 : v1 < x
      · have h2 : ¬ x ≤ v1 := not_le.mpr h1
        simp only [h0, h1, h2, decide_true, decide_false, Bool.or_true, if_true, List.length_cons,
          Bool.false_eq_true, if_false]
        push_cast
        omega
      · have h2 : x ≤ v1 := not_lt.mp h1
        simp only [h0, h1, h2, decide_true, decide_false, Bool.or_false, Bool.false_eq_true, if_false, if_true,
          List.length_cons]
        push_cast
        omega

theorem isKth_mono (xs : List ℝ) (p0 p1 : Int) (v0 v1 : ℝ) (h0 : IsKth xs p0 v0) (h1 : IsKth xs p1 v1)
    (hp : p0 ≤ p1) : v0 ≤ v1 := by
  by_contra hlt
  have hlt : v1 < v0 := not_le.mp hlt
  have : countLeR v1 xs ≤ countLt v0 xs := by
    unfold countLeR countLt
    have := filter_length_mono (fun x => decide (x ≤ v1)) (fun x => decide (x < v0)) xs
      (by intro x hx; simp only [decide_eq_true_eq] at hx ⊢; exact lt_of_le_of_lt hx hlt)
    exact_mod_cast this
  have a := h0.1
  have b := h1.2
  omega

/-- with exact `k`-th values at the two positions the outer half has between
    `p0 + (N-1-p1) - (ties(v0)-1) - (ties(v1)-1)` and `p0 + (N-1-p1)` entries -/
theorem outer_count (xs : List ℝ) (p0 p1 : Int) (v0 v1 : ℝ) (h0 : IsKth xs p0 v0) (h1 : IsKth xs p1 v1)
    (hp : p0 ≤ p1) :
    p0 + ((xs.length : Int) - 1 - p1) - (ties v0 xs - 1) - (ties v1 xs - 1) ≤ ((xs.filter (outerB v0 v1)).length : Int)
      ∧ ((xs.filter (outerB v0 v1)).length : Int) ≤ p0 + ((xs.length : Int) - 1 - p1) := by
  have hv := isKth_mono xs p0 p1 v0 v1 h0 h1 hp
  rw [outer_length v0 v1 hv xs]
  have e0 := countLe_eq_lt_add_ties v0 xs
  have e1 := countLe_eq_lt_add_ties v1 xs
  have a0 := h0.1
  have b0 := h0.2
  have a1 := h1.1
  have b1 := h1.2
  constructor <;> omega

/-- the coordinates the copy loop tests: `x[i] = transformed[dir]` of every record of the communicator -/
noncomputable def xsOf (t : M9 ℝ) (d : Nat) (w : World (List (Rec ℝ))) : List ℝ :=
  w.flatten.map fun r => coordOf d (ax t r.p)

theorem inOuter_real (t : M9 ℝ) (c : Cut ℝ) (r : Rec ℝ) :
    inOuter t c r = outerB c.v0 c.v1 (coordOf c.dir (ax t r.p)) := rfl

/-- size of the outer half of a level = number of coordinates passing the copy-loop test -/
theorem half0_length (t : M9 ℝ) (c : Cut ℝ) (w : World (List (Rec ℝ))) :
    ((w.map (splitLocal t c)).map (·.1)).flatten.length = ((xsOf t c.dir w).filter (outerB c.v0 c.v1)).length := by
  rw [halves_fst_flatten]
  unfold xsOf
  rw [List.filter_map, List.length_map]
  rfl

theorem halves_total (t : M9 ℝ) (c : Cut ℝ) (w : World (List (Rec ℝ))) :
    ((w.map (splitLocal t c)).map (·.1)).flatten.length + ((w.map (splitLocal t c)).map (·.2)).flatten.length
      = w.flatten.length := by
  have := (halves_perm t c w).length_eq
  rw [List.length_append] at this
  exact this

/-! ### what the collectives of one level see -/

/-- `REF_DBL_MAX` -/
noncomputable def BIG : ℝ := Scalar.ofDec 1 200

theorem foldl_min_le_init (xs : List ℝ) (a : ℝ) : xs.foldl min a ≤ a := by
  induction xs generalizing a with
  | nil => exact le_refl _
  | cons x xs ih => exact le_trans (ih (min a x)) (min_le_left _ _)

theorem foldl_min_split (xs : List ℝ) (a b : ℝ) (hab : a ≤ b) : xs.foldl min a = min a (xs.foldl min b) := by
  induction xs generalizing a b with
  | nil => exact (min_eq_left hab).symm
  | cons x xs ih =>
    simp only [List.foldl_cons]
    rw [ih (min a x) (min b x) (min_le_min_right x hab)]
    have h1 : xs.foldl min (min b x) ≤ x := le_trans (foldl_min_le_init xs _) (min_le_right _ _)
    rw [min_assoc, min_eq_right h1]

theorem foldl_max_ge_init (xs : List ℝ) (a : ℝ) : a ≤ xs.foldl max a := by
  induction xs generalizing a with
  | nil => exact le_refl _
  | cons x xs ih => exact le_trans (le_max_left _ _) (ih (max a x))

theorem foldl_max_split (xs : List ℝ) (a b : ℝ) (hab : b ≤ a) : xs.foldl max a = max a (xs.foldl max b) := by
  induction xs generalizing a b with
  | nil => exact (max_eq_left hab).symm
  | cons x xs ih =>
    simp only [List.foldl_cons]
    rw [ih (max a x) (max b x) (max_le_max_right x hab)]
    have h1 : x ≤ xs.foldl max (max b x) := le_trans (le_max_right _ _) (foldl_max_ge_init xs _)
    rw [max_assoc, max_eq_right h1]

theorem localMin_real (xs : List ℝ) : localMin xs = xs.foldl min BIG := by
  unfold localMin BIG
  congr 1
  funext a b
  exact cmin_eq a b

theorem localMax_real (xs : List ℝ) : localMax xs = xs.foldl max (-BIG) := by
  unfold localMax BIG
  congr 1
  funext a b
  exact cmax_eq a b

theorem pickMin_fun : (pickMin (Scalar.lt (α := ℝ))) = min := by
  funext a b; exact pickMin_real a b

theorem pickMax_fun : (pickMax (Scalar.lt (α := ℝ))) = max := by
  funext a b; exact pickMax_real a b

theorem foldl_localMin (rest : List (List ℝ)) (a : ℝ) (ha : a ≤ BIG) :
    (rest.map localMin).foldl min a = rest.flatten.foldl min a := by
  induction rest generalizing a with
  | nil => rfl
  | cons y ys ih =>
    simp only [List.map_cons, List.foldl_cons, List.flatten_cons, List.foldl_append]
    rw [localMin_real, ← foldl_min_split y a BIG ha]
    exact ih _ (le_trans (foldl_min_le_init y a) ha)

theorem foldl_localMax (rest : List (List ℝ)) (a : ℝ) (ha : -BIG ≤ a) :
    (rest.map localMax).foldl max a = rest.flatten.foldl max a := by
  induction rest generalizing a with
  | nil => rfl
  | cons y ys ih =>
    simp only [List.map_cons, List.foldl_cons, List.flatten_cons, List.foldl_append]
    rw [localMax_real, ← foldl_max_split y a (-BIG) ha]
    exact ih _ (le_trans ha (foldl_max_ge_init y a))

/-- `ref_mpi_min + bcast` of the local minima = the fold over all entries of the communicator -/
theorem worldMin_flatten (w : World (List ℝ)) (hw : w ≠ []) : worldMin w = w.flatten.foldl min BIG := by
  match w, hw with
  | x :: rest, _ =>
    unfold worldMin
    simp only [List.map_cons]
    rw [pickMin_fun, foldl_localMin rest _ (by rw [localMin_real]; exact foldl_min_le_init x BIG), localMin_real,
      List.flatten_cons, List.foldl_append]

theorem worldMax_flatten (w : World (List ℝ)) (hw : w ≠ []) : worldMax w = w.flatten.foldl max (-BIG) := by
  match w, hw with
  | x :: rest, _ =>
    unfold worldMax
    simp only [List.map_cons]
    rw [pickMax_fun, foldl_localMax rest _ (by rw [localMax_real]; exact foldl_max_ge_init x (-BIG)), localMax_real,
      List.flatten_cons, List.foldl_append]

instance : RightCommutative (min : ℝ → ℝ → ℝ) := ⟨fun a b c => by rw [min_assoc, min_comm b c, ← min_assoc]⟩
instance : RightCommutative (max : ℝ → ℝ → ℝ) := ⟨fun a b c => by rw [max_assoc, max_comm b c, ← max_assoc]⟩

theorem worldMin_perm (u u' : World (List ℝ)) (hu : u ≠ []) (hu' : u' ≠ []) (h : u.flatten.Perm u'.flatten) :
    worldMin u = worldMin u' := by
  rw [worldMin_flatten u hu, worldMin_flatten u' hu']
  exact h.foldl_eq BIG

theorem worldMax_perm (u u' : World (List ℝ)) (hu : u ≠ []) (hu' : u' ≠ []) (h : u.flatten.Perm u'.flatten) :
    worldMax u = worldMax u' := by
  rw [worldMax_flatten u hu, worldMax_flatten u' hu']
  exact h.foldl_eq (-BIG)

theorem worldCountLe_perm (u u' : World (List ℝ)) (h : u.flatten.Perm u'.flatten) (mid : ℝ) :
    worldCountLe mid u = worldCountLe mid u' := by
  rw [worldCountLe_eq, worldCountLe_eq]
  unfold countLeR
  rw [(h.filter _).length_eq]

theorem bisect_congr (u u' : World (List ℝ)) (h : ∀ mid, worldCountLe mid u = worldCountLe mid u') (pos : Int)
    (k : Nat) (s : ℝ × ℝ × ℝ) : bisect u pos k s = bisect u' pos k s := by
  induction k generalizing s with
  | zero => rfl
  | succ k ih =>
    simp only [bisect]
    have : bisectStep u pos s = bisectStep u' pos s := by
      unfold bisectStep
      simp only [h]
    rw [this, ih]

theorem isum_lengths {β : Type} (u : List (List β)) : isum (u.map fun l => (l.length : Int)) = (u.flatten.length : Int) := by
  rw [isum_eq_sum]
  exact lensI_sum u

/-- `ref_search_selection` returns the same value on two communicators (of at least one rank each) that hold
    the same multiset of numbers, however distributed and ordered -/
theorem selection_perm (u u' : World (List ℝ)) (hu : u ≠ []) (hu' : u' ≠ []) (h : u.flatten.Perm u'.flatten)
    (pos : Int) : selection u pos = selection u' pos := by
  unfold selection selectionState
  rw [isum_lengths, isum_lengths, h.length_eq, worldMin_perm u u' hu hu' h, worldMax_perm u u' hu hu' h,
    bisect_congr u u' (worldCountLe_perm u u' h)]

theorem splitDirT_perm (u u' : World (List (V3 ℝ))) (hu : u ≠ []) (hu' : u' ≠ []) (h : u.flatten.Perm u'.flatten) :
    splitDirT u = splitDirT u' := by
  have hj : ∀ j : Nat, (u.map fun l => l.map (coordOf j)).flatten.Perm (u'.map fun l => l.map (coordOf j)).flatten := by
    intro j
    rw [← List.map_flatten, ← List.map_flatten]
    exact h.map _
  have hne : ∀ j : Nat, (u.map fun l => l.map (coordOf (α := ℝ) j)) ≠ [] := by
    intro j hh; exact hu (List.map_eq_nil_iff.mp hh)
  have hne' : ∀ j : Nat, (u'.map fun l => l.map (coordOf (α := ℝ) j)) ≠ [] := by
    intro j hh; exact hu' (List.map_eq_nil_iff.mp hh)
  unfold splitDirT
  simp only [worldMin_perm _ _ (hne _) (hne' _) (hj _), worldMax_perm _ _ (hne _) (hne' _) (hj _)]

section Cut
variable [RcbScalar ℝ]

/-- the cut of one level (direction, `value0`, `value1`) is a function of the multiset of the coordinates held by
    the communicator (and of `t`, `seed`, `npart`, `dir`) -/
theorem cutOf_perm (t : M9 ℝ) (seed : Int) (npart : Nat) (dir : Int) (w w' : World (List (Rec ℝ)))
    (hw : w ≠ []) (hw' : w' ≠ []) (h : (w.flatten.map (·.p)).Perm (w'.flatten.map (·.p))) :
    cutOf t seed npart dir w = cutOf t seed npart dir w' := by
  have hax : (w.map fun l => l.map fun r => ax t r.p).flatten.Perm (w'.map fun l => l.map fun r => ax t r.p).flatten := by
    rw [← List.map_flatten, ← List.map_flatten]
    have := h.map (ax t)
    rw [List.map_map, List.map_map] at this
    exact this
  have hdir : cutDir t dir w = cutDir t dir w' := by
    unfold cutDir
    rw [splitDirT_perm _ _ (fun hh => hw (List.map_eq_nil_iff.mp hh)) (fun hh => hw' (List.map_eq_nil_iff.mp hh)) hax]
  have hco : ∀ d, (cutCoords t d w).flatten.Perm (cutCoords t d w').flatten := by
    intro d
    unfold cutCoords
    rw [← List.map_flatten, ← List.map_flatten]
    have := h.map fun p => coordOf d (ax t p)
    rw [List.map_map, List.map_map] at this
    exact this
  have htot : isum (w.map fun l => (l.length : Int)) = isum (w'.map fun l => (l.length : Int)) := by
    rw [isum_lengths, isum_lengths]
    have := h.length_eq
    simp only [List.length_map] at this
    rw [this]
  unfold cutOf
  simp only [hdir, htot]
  have hne : ∀ d, cutCoords t d w ≠ [] := fun d hh => hw (List.map_eq_nil_iff.mp hh)
  have hne' : ∀ d, cutCoords t d w' ≠ [] := fun d hh => hw' (List.map_eq_nil_iff.mp hh)
  rw [selection_perm _ _ (hne _) (hne' _) (hco _), selection_perm _ _ (hne _) (hne' _) (hco _)]

omit [RcbScalar ℝ] in
/-- the copy-loop test only reads the coordinates -/
theorem inOuter_p (t : M9 ℝ) (c : Cut ℝ) (r r' : Rec ℝ) (h : r.p = r'.p) : inOuter t c r = inOuter t c r' := by
  unfold inOuter
  rw [h]

omit [RcbScalar ℝ] in
theorem filter_p_perm (q : Rec ℝ → Bool) (hq : ∀ r r' : Rec ℝ, r.p = r'.p → q r = q r') (l l' : List (Rec ℝ))
    (h : (l.map (·.p)).Perm (l'.map (·.p))) : ((l.filter q).map (·.p)).Perm ((l'.filter q).map (·.p)) := by
  -- a predicate on the coordinates: filter the coordinate lists instead
  classical
  let q' : V3 ℝ → Bool := fun p => if hp : ∃ r : Rec ℝ, r.p = p then q (Classical.choose hp) else false
  have hq' : ∀ r : Rec ℝ, q' r.p = q r := by
    intro r
    have hp : ∃ r0 : Rec ℝ, r0.p = r.p := ⟨r, rfl⟩
    simp only [q', dif_pos hp]
    exact hq _ _ (Classical.choose_spec hp)
  have e : ∀ l : List (Rec ℝ), (l.filter q).map (·.p) = (l.map (·.p)).filter q' := by
    intro l
    induction l with
    | nil => rfl
    | cons x xs ih =>
      simp only [List.filter_cons, List.map_cons, hq' x]
      by_cases hx : q x = true
      · simp only [hx, if_true, List.map_cons, ih]
      · simp only [hx, Bool.false_eq_true, if_false, ih]
  rw [e, e]
  exact h.filter q'

/-- Two runs of the recursion whose communicators hold the same multiset of coordinates (any distribution over
    the ranks, any order inside a rank, any owner / slot labels) give records with equal coordinates the same
    part id. -/
theorem rcbDirection_deterministic (t : M9 ℝ) (seed : Int) (twod : Bool) :
    ∀ (npart : Nat) (offset dir : Int) (w w' : World (List (Rec ℝ))),
      1 ≤ npart → npart ≤ w.length → w'.length = w.length →
      (w.flatten.length : Int) ≤ INT_MAX →
      (w.flatten.map (·.p)).Perm (w'.flatten.map (·.p)) →
      ∀ leaves leaves', rcbDirection t seed twod npart offset dir w = some leaves →
        rcbDirection t seed twod npart offset dir w' = some leaves' →
        ∀ a ∈ assignments leaves, ∀ a' ∈ assignments leaves', a.1.p = a'.1.p → a.2 = a'.2 := by
  intro npart
  induction npart using Nat.strongRecOn with
  | ind npart ih =>
    intro offset dir w w' h1 hlen hlen' htot hperm leaves leaves' hl hl' a ha a' ha' hp
    have htot' : (w'.flatten.length : Int) ≤ INT_MAX := by
      have := hperm.length_eq
      simp only [List.length_map] at this
      omega
    by_cases hone : npart = 1
    · subst hone
      rw [rcbDirection, dif_neg (by omega), dif_pos rfl] at hl hl'
      cases hl; cases hl'
      simp only [assignments, List.mem_flatMap, List.mem_map] at ha ha'
      obtain ⟨_, ⟨_, _, rfl⟩, _, _, rfl⟩ := ha
      obtain ⟨_, ⟨_, _, rfl⟩, _, _, rfl⟩ := ha'
      rfl
    · have h2 : 2 ≤ npart := by omega
      have hw : w ≠ [] := by intro hh; rw [hh] at hlen; simp at hlen; omega
      have hw' : w' ≠ [] := by intro hh; rw [hh] at hlen'; simp at hlen'; omega
      obtain ⟨s0, s1, hs0len, hs1len, hs0flat, hs1flat, hrec⟩ :=
        rcbDirection_unfold hst_real t seed twod npart offset dir w h2 hlen htot
      obtain ⟨s0', s1', hs0len', hs1len', hs0flat', hs1flat', hrec'⟩ :=
        rcbDirection_unfold hst_real t seed twod npart offset dir w' h2 (by omega) htot'
      rw [← cutOf_perm t seed npart dir w w' hw hw' hperm] at hs0flat' hs1flat' hrec'
      generalize cutOf t seed npart dir w = c at hs0flat hs1flat hrec hs0flat' hs1flat' hrec'
      have hpm : (s0.flatten ++ s1.flatten).Perm w.flatten := by
        rw [hs0flat, hs1flat]; exact List.filter_append_perm _ _
      have hl01 := hpm.length_eq
      rw [List.length_append] at hl01
      have hpm' : (s0'.flatten ++ s1'.flatten).Perm w'.flatten := by
        rw [hs0flat', hs1flat']; exact List.filter_append_perm _ _
      have hl01' := hpm'.length_eq
      rw [List.length_append] at hl01'
      -- the sub-results exist
      obtain ⟨r0, hr0, _, hr0perm, _, _⟩ :=
        rcbDirection_spec hst_real t seed twod (npart / 2) offset (nextDir c.dir twod) s0 (by omega) (by omega)
          (by omega)
      obtain ⟨r1, hr1, _, hr1perm, _, _⟩ :=
        rcbDirection_spec hst_real t seed twod (npart - npart / 2) (offset + ((npart / 2 : Nat) : Int))
          (nextDir c.dir twod) s1 (by omega) (by omega) (by omega)
      obtain ⟨r0', hr0', _, hr0perm', _, _⟩ :=
        rcbDirection_spec hst_real t seed twod (npart / 2) offset (nextDir c.dir twod) s0' (by omega) (by omega)
          (by omega)
      obtain ⟨r1', hr1', _, hr1perm', _, _⟩ :=
        rcbDirection_spec hst_real t seed twod (npart - npart / 2) (offset + ((npart / 2 : Nat) : Int))
          (nextDir c.dir twod) s1' (by omega) (by omega) (by omega)
      have e := hrec r0 r1 hr0 hr1
      have e' := hrec' r0' r1' hr0' hr1'
      rw [e] at hl
      rw [e'] at hl'
      cases hl; cases hl'
      rw [assignments_append] at ha ha'
      -- which side a record ends on is decided by the copy-loop test
      have side0 : ∀ (rr : World (Int × List (Rec ℝ))) (ss : World (List (Rec ℝ))) (q : Rec ℝ → Bool),
          (rr.flatMap (·.2)).Perm ss.flatten → ∀ ww : World (List (Rec ℝ)), ss.flatten = ww.flatten.filter q →
          ∀ x ∈ assignments rr, q x.1 = true := by
        intro rr ss q hpr ww hss x hx
        have : x.1 ∈ rr.flatMap (·.2) := by
          rw [← assignments_fst]; exact List.mem_map_of_mem hx
        have := (hpr.mem_iff).mp this
        rw [hss] at this
        exact (List.mem_filter.mp this).2
      have hsub0 : (s0.flatten.map (·.p)).Perm (s0'.flatten.map (·.p)) := by
        rw [hs0flat, hs0flat']
        exact filter_p_perm _ (inOuter_p t c) _ _ hperm
      have hsub1 : (s1.flatten.map (·.p)).Perm (s1'.flatten.map (·.p)) := by
        rw [hs1flat, hs1flat']
        exact filter_p_perm _ (fun r r' h => by rw [inOuter_p t c r r' h]) _ _ hperm
      have hio := inOuter_p t c a.1 a'.1 hp
      rcases List.mem_append.mp ha with ha | ha <;> rcases List.mem_append.mp ha' with ha' | ha'
      · exact ih (npart / 2) (by omega) offset (nextDir c.dir twod) s0 s0' (by omega) (by omega) (by omega) (by omega)
          hsub0 r0 r0' hr0 hr0' a ha a' ha' hp
      · have x1 := side0 r0 s0 _ hr0perm w hs0flat a ha
        have x2 := side0 r1' s1' _ hr1perm' w' hs1flat' a' ha'
        rw [hio] at x1
        simp [x1] at x2
      · have x1 := side0 r1 s1 _ hr1perm w hs1flat a ha
        have x2 := side0 r0' s0' _ hr0perm' w' hs0flat' a' ha'
        rw [hio] at x1
        simp [x2] at x1
      · exact ih (npart - npart / 2) (by omega) (offset + ((npart / 2 : Nat) : Int)) (nextDir c.dir twod) s1 s1'
          (by omega) (by omega) (by omega) (by omega) hsub1 r1 r1' hr1 hr1' a ha a' ha' hp

end Cut

/-! ### the two positions against the target ratio -/

/-- libm and the `(REF_LONG)` cast (truncation toward zero) over ℝ -/
@[reducible] noncomputable def floorRcb : RcbScalar ℝ where
  sin := Real.sin
  cos := Real.cos
  acos := Real.arccos
  truncInt := fun x => if 0 ≤ x then ⌊x⌋ else ⌈x⌉

/-- the positions `(REF_LONG)(total*ratio0)`, `(REF_LONG)(total*ratio1)` for a non-negative seed, `npart ≥ 2` and `N ≥ 0`
    records: `0 ≤ p0 ≤ p1 ≤ N`, and the target size `p0 + (N-1-p1)` of half 0 lies strictly between `N*ratio - 2` and
    `N*ratio`, `ratio = (npart/2)/npart` -/
theorem cutPos_target (seed : Int) (hs : 0 ≤ seed) (npart : Nat) (h2 : 2 ≤ npart) (N : Int) (hN : 0 ≤ N) :
    let p := @cutPos ℝ _ floorRcb seed npart N
    let r : ℝ := ((npart / 2 : Nat) : ℝ) / (npart : ℝ)
    0 ≤ p.1 ∧ p.1 ≤ p.2 ∧ p.2 ≤ N
      ∧ (N : ℝ) * r - 2 < ((p.1 + (N - 1 - p.2) : Int) : ℝ)
      ∧ ((p.1 + (N - 1 - p.2) : Int) : ℝ) < (N : ℝ) * r := by
  intro p r
  have hnp : (0 : ℝ) < (npart : ℝ) := by exact_mod_cast (by omega : 0 < npart)
  have hr0 : 0 ≤ r := by positivity
  have hr1 : r ≤ 1 / 2 := by
    show ((npart / 2 : Nat) : ℝ) / (npart : ℝ) ≤ 1 / 2
    rw [div_le_iff₀ hnp]
    have : ((npart / 2 : Nat) : ℝ) * 2 ≤ (npart : ℝ) := by exact_mod_cast Nat.div_mul_le_self npart 2
    linarith
  have hm0 : 0 ≤ Int.tmod seed 3 := Int.tmod_nonneg 3 hs
  have hm2 : Int.tmod seed 3 < 3 := Int.tmod_lt_of_pos seed (by decide)
  set s : ℝ := ((Int.tmod seed 3 : Int) : ℝ) / 3 with hsdef
  have hs0 : 0 ≤ s := by
    have : (0 : ℝ) ≤ ((Int.tmod seed 3 : Int) : ℝ) := by exact_mod_cast hm0
    positivity
  have hs1 : s ≤ 1 := by
    have : ((Int.tmod seed 3 : Int) : ℝ) ≤ 3 := by exact_mod_cast hm2.le
    rw [hsdef, div_le_one (by norm_num)]
    exact this
  have hNr : (0 : ℝ) ≤ (N : ℝ) := by exact_mod_cast hN
  have hrs : r * s ≤ r := mul_le_of_le_one_right hr0 hs1
  have hrs0 : 0 ≤ r * s := mul_nonneg hr0 hs0
  have hp : p = (⌊(N : ℝ) * (r * s)⌋, ⌊(N : ℝ) * (1 - (r - r * s))⌋) := by
    show @cutPos ℝ _ floorRcb seed npart N = _
    unfold cutPos ratioShift
    simp only [splitRatio_real npart (by omega), mul_eq, sub_eq, div_eq, ofInt_eq]
    have e1 : (0 : ℝ) ≤ (N : ℝ) * (r * s) := by positivity
    have e2 : (0 : ℝ) ≤ (N : ℝ) * (1 - (r - r * s)) := by
      have : 0 ≤ 1 - (r - r * s) := by linarith
      positivity
    have c3 : ((3 : Int) : ℝ) = 3 := by norm_num
    have c1 : ((1 : Int) : ℝ) = 1 := by norm_num
    simp only [c3, c1]
    show (if 0 ≤ (N : ℝ) * (r * s) then ⌊(N : ℝ) * (r * s)⌋ else ⌈(N : ℝ) * (r * s)⌉,
      if 0 ≤ (N : ℝ) * (1 - (r - r * s)) then ⌊(N : ℝ) * (1 - (r - r * s))⌋ else ⌈(N : ℝ) * (1 - (r - r * s))⌉) = _
    rw [if_pos e1, if_pos e2]
  rw [hp]
  simp only []
  have a1 := Int.floor_le ((N : ℝ) * (r * s))
  have a2 := Int.lt_floor_add_one ((N : ℝ) * (r * s))
  have b1 := Int.floor_le ((N : ℝ) * (1 - (r - r * s)))
  have b2 := Int.lt_floor_add_one ((N : ℝ) * (1 - (r - r * s)))
  refine ⟨?_, ?_, ?_, ?_, ?_⟩
  · exact Int.floor_nonneg.mpr (by positivity)
  · apply Int.floor_le_floor
    apply mul_le_mul_of_nonneg_left _ hNr
    linarith
  · have h1 : 1 - (r - r * s) ≤ 1 := by linarith
    have hle : (N : ℝ) * (1 - (r - r * s)) ≤ (N : ℝ) := mul_le_of_le_one_right hNr h1
    have := Int.floor_le_floor hle
    rwa [Int.floor_intCast] at this
  · push_cast
    nlinarith
  · push_cast
    nlinarith

end Refine.Lemmas.Rcb
