import Refine.Lemmas.GeomReal
import Refine.Model.Recon

/-!
  Real-number lemmas about the L2-projection accumulation of `Model/Recon.lean`:
  the per-node invariant "accumulated gradient = accumulated weight × g" and weight monotonicity.
-/
namespace Refine.ReconReal
open Refine Refine.Model.Geom Refine.Model.Recon Refine.ScalarReal Refine.GeomReal

/-- accumulated gradient = accumulated weight × `g` -/
def AccLin (g : V3 ℝ) (x : NodeAcc ℝ) : Prop :=
  x.gx = x.w * g.x ∧ x.gy = x.w * g.y ∧ x.gz = x.w * g.z

theorem AccLin.zero (g : V3 ℝ) : AccLin g (NodeAcc.zero : NodeAcc ℝ) := by
  simp [AccLin, NodeAcc.zero]

theorem AccLin.add {g : V3 ℝ} {x : NodeAcc ℝ} (h : AccLin g x) (w : ℝ) : AccLin g (x.add w g) := by
  obtain ⟨hx, hy, hz⟩ := h
  simp only [AccLin, NodeAcc.add, add_eq, mul_eq, hx, hy, hz]
  refine ⟨?_, ?_, ?_⟩ <;> ring

/-- a property of every stored accumulator -/
def AllAcc (P : NodeAcc ℝ → Prop) (acc : List (NodeAcc ℝ)) : Prop :=
  ∀ (j : Nat) (x : NodeAcc ℝ), acc[j]? = some x → P x

theorem scatter_cons (acc : List (NodeAcc ℝ)) (i : Nat) (rest : List Nat) (w : ℝ) (g : V3 ℝ) :
    scatter acc (i :: rest) w g = scatter (acc.modify i (fun x => x.add w g)) rest w g := rfl

theorem accumulate_cons (acc : List (NodeAcc ℝ)) (c : Contrib ℝ) (rest : List (Contrib ℝ)) :
    accumulate acc (c :: rest) =
      accumulate (if c.st = St.ok then scatter acc c.nodes c.w c.g else acc) rest := rfl

theorem AllAcc.modify {P : NodeAcc ℝ → Prop} {acc : List (NodeAcc ℝ)} (h : AllAcc P acc) (i : Nat)
    (f : NodeAcc ℝ → NodeAcc ℝ) (hf : ∀ x, P x → P (f x)) : AllAcc P (acc.modify i f) := by
  intro j x hj
  rw [List.getElem?_modify] at hj
  cases hl : acc[j]? with
  | none => rw [hl] at hj; simp at hj
  | some y =>
    rw [hl] at hj
    simp only [Option.map_eq_map, Option.map_some, Option.some.injEq] at hj
    have hy := h j y hl
    split at hj
    · rw [← hj]; exact hf y hy
    · rw [← hj]; exact hy

theorem AllAcc.scatter {P : NodeAcc ℝ → Prop} (ns : List Nat) (w : ℝ) (g : V3 ℝ)
    (hf : ∀ x, P x → P (x.add w g)) : ∀ acc : List (NodeAcc ℝ), AllAcc P acc → AllAcc P (scatter acc ns w g) := by
  induction ns with
  | nil => intro acc h; exact h
  | cons i rest ih =>
    intro acc h
    rw [scatter_cons]
    exact ih _ (h.modify i _ hf)

theorem AllAcc.accumulate {P : NodeAcc ℝ → Prop} (cs : List (Contrib ℝ))
    (hf : ∀ c ∈ cs, c.st = St.ok → ∀ x, P x → P (x.add c.w c.g)) :
    ∀ acc : List (NodeAcc ℝ), AllAcc P acc → AllAcc P (accumulate acc cs) := by
  induction cs with
  | nil => intro acc h; exact h
  | cons c rest ih =>
    intro acc h
    rw [accumulate_cons]
    have ih' := ih (fun c' hc' => hf c' (List.mem_cons_of_mem _ hc'))
    by_cases hc : c.st = St.ok
    · simp only [hc, if_true]
      exact ih' _ (AllAcc.scatter c.nodes c.w c.g (hf c List.mem_cons_self hc) acc h)
    · simp only [hc, if_false]
      exact ih' _ h

theorem AllAcc.replicate {P : NodeAcc ℝ → Prop} (n : Nat) (h0 : P NodeAcc.zero) :
    AllAcc P (List.replicate n (NodeAcc.zero : NodeAcc ℝ)) := by
  intro j x hj
  rw [List.getElem?_replicate] at hj
  split at hj
  · simp only [Option.some.injEq] at hj; rw [← hj]; exact h0
  · simp at hj

theorem length_scatter (ns : List Nat) (w : ℝ) (g : V3 ℝ) :
    ∀ acc : List (NodeAcc ℝ), (scatter acc ns w g).length = acc.length := by
  induction ns with
  | nil => intro acc; rfl
  | cons i rest ih => intro acc; rw [scatter_cons, ih, List.length_modify]

theorem length_accumulate (cs : List (Contrib ℝ)) :
    ∀ acc : List (NodeAcc ℝ), (accumulate acc cs).length = acc.length := by
  induction cs with
  | nil => intro acc; rfl
  | cons c rest ih =>
    intro acc
    rw [accumulate_cons]
    rw [ih]
    split
    · rw [length_scatter]
    · rfl

/-- the final division: an accumulator on the line `grad = w·g` yields `g` or (guard fails) zero -/
theorem finishNode_lin {g : V3 ℝ} {x : NodeAcc ℝ} (h : AccLin g x) :
    finishNode x = (false, g) ∨ finishNode x = (true, ⟨0, 0, 0⟩) := by
  obtain ⟨hx, hy, hz⟩ := h
  unfold finishNode
  split
  · rename_i hg
    left
    simp only [Bool.and_eq_true] at hg
    have hw := divisible_ne_zero hg.2
    simp only [div_eq, hx, hy, hz, Prod.mk.injEq, true_and]
    rw [mul_div_cancel_left₀ _ hw, mul_div_cancel_left₀ _ hw, mul_div_cancel_left₀ _ hw]
  · right
    simp [V3.zero]

/-- … and it IS `g` when the total weight is non-zero and `|g| < 1e20` -/
theorem finishNode_lin_ok {g : V3 ℝ} {x : NodeAcc ℝ} (h : AccLin g x) (hw : x.w ≠ 0)
    (hx : |g.x| < (10 : ℝ) ^ (20 : ℤ)) (hy : |g.y| < (10 : ℝ) ^ (20 : ℤ)) (hz : |g.z| < (10 : ℝ) ^ (20 : ℤ)) :
    finishNode x = (false, g) := by
  obtain ⟨ex, ey, ez⟩ := h
  have d : ∀ c : ℝ, |c| < (10 : ℝ) ^ (20 : ℤ) → Scalar.divisible (x.w * c) x.w = true := by
    intro c hc
    rw [divisible_iff', abs_mul, mul_comm]
    exact mul_lt_mul_of_pos_right hc (abs_pos.mpr hw)
  unfold finishNode
  rw [ex, ey, ez, d _ hx, d _ hy, d _ hz]
  simp only [Bool.and_self, if_true, div_eq, Prod.mk.injEq, true_and]
  rw [mul_div_cancel_left₀ _ hw, mul_div_cancel_left₀ _ hw, mul_div_cancel_left₀ _ hw]

/-! weights -/

/-- accumulated weight stored at node `i` (0 when out of range) -/
def wAt (acc : List (NodeAcc ℝ)) (i : Nat) : ℝ := ((acc[i]?).map (·.w)).getD 0

theorem wAt_modify (acc : List (NodeAcc ℝ)) (k i : Nat) (w : ℝ) (g : V3 ℝ) :
    wAt (acc.modify k (fun x => x.add w g)) i = if k = i ∧ i < acc.length then wAt acc i + w else wAt acc i := by
  unfold wAt
  rw [List.getElem?_modify]
  by_cases hi : i < acc.length
  · rw [List.getElem?_eq_getElem hi]
    by_cases hk : k = i
    · simp [hk, hi, NodeAcc.add]
    · simp [hk]
  · rw [List.getElem?_eq_none (by omega)]
    simp [hi]

theorem wAt_scatter_ge (ns : List Nat) (w : ℝ) (hw : 0 ≤ w) (g : V3 ℝ) (i : Nat) :
    ∀ acc : List (NodeAcc ℝ), wAt acc i ≤ wAt (scatter acc ns w g) i := by
  induction ns with
  | nil => intro acc; exact le_refl _
  | cons k rest ih =>
    intro acc
    rw [scatter_cons]
    refine le_trans ?_ (ih _)
    rw [wAt_modify]
    split <;> linarith

theorem wAt_scatter_gt (ns : List Nat) (w : ℝ) (hw : 0 < w) (g : V3 ℝ) (i : Nat) (hi : i ∈ ns) :
    ∀ acc : List (NodeAcc ℝ), i < acc.length → wAt acc i < wAt (scatter acc ns w g) i := by
  induction ns with
  | nil => simp at hi
  | cons k rest ih =>
    intro acc hlen
    rw [scatter_cons]
    by_cases hk : k = i
    · refine lt_of_lt_of_le ?_ (wAt_scatter_ge rest w hw.le g i _)
      rw [wAt_modify, if_pos ⟨hk, hlen⟩]; linarith
    · have hi' : i ∈ rest := by
        rcases List.mem_cons.mp hi with h | h
        · exact absurd h.symm hk
        · exact h
      refine lt_of_le_of_lt ?_ (ih hi' _ (by rw [List.length_modify]; exact hlen))
      rw [wAt_modify]; split <;> linarith

theorem wAt_accumulate_ge (cs : List (Contrib ℝ)) (hw : ∀ c ∈ cs, c.st = St.ok → 0 ≤ c.w) (i : Nat) :
    ∀ acc : List (NodeAcc ℝ), wAt acc i ≤ wAt (accumulate acc cs) i := by
  induction cs with
  | nil => intro acc; exact le_refl _
  | cons c rest ih =>
    intro acc
    rw [accumulate_cons]
    have ih' := ih (fun c' hc' => hw c' (List.mem_cons_of_mem _ hc'))
    by_cases hc : c.st = St.ok
    · simp only [hc, if_true]
      exact le_trans (wAt_scatter_ge c.nodes c.w (hw c List.mem_cons_self hc) c.g i acc) (ih' _)
    · simp only [hc, if_false]; exact ih' _

/-- positive weights: a node touched by at least one contributing simplex has positive total weight -/
theorem wAt_accumulate_pos (cs : List (Contrib ℝ)) (hw : ∀ c ∈ cs, c.st = St.ok → 0 < c.w) (i : Nat)
    (ht : ∃ c ∈ cs, c.st = St.ok ∧ i ∈ c.nodes) :
    ∀ acc : List (NodeAcc ℝ), i < acc.length → wAt acc i < wAt (accumulate acc cs) i := by
  induction cs with
  | nil => obtain ⟨c, hc, _⟩ := ht; simp at hc
  | cons c rest ih =>
    intro acc hlen
    rw [accumulate_cons]
    have hw' : ∀ c' ∈ rest, c'.st = St.ok → 0 < c'.w := fun c' hc' => hw c' (List.mem_cons_of_mem _ hc')
    have hge := wAt_accumulate_ge rest (fun c' hc' h => (hw' c' hc' h).le) i
    by_cases hc : c.st = St.ok
    · simp only [hc, if_true]
      by_cases hin : i ∈ c.nodes
      · exact lt_of_lt_of_le (wAt_scatter_gt c.nodes c.w (hw c List.mem_cons_self hc) c.g i hin acc hlen) (hge _)
      · obtain ⟨c', hc', hok, hi'⟩ := ht
        rcases List.mem_cons.mp hc' with h | h
        · subst h; exact absurd hi' hin
        · refine lt_of_le_of_lt (wAt_scatter_ge c.nodes c.w (hw c List.mem_cons_self hc).le c.g i acc) ?_
          exact ih hw' ⟨c', h, hok, hi'⟩ _ (by rw [length_scatter]; exact hlen)
    · simp only [hc, if_false]
      obtain ⟨c', hc', hok, hi'⟩ := ht
      rcases List.mem_cons.mp hc' with h | h
      · subst h; exact absurd hok hc
      · exact ih hw' ⟨c', h, hok, hi'⟩ acc hlen

theorem length_project (n : Nat) (cs : List (Contrib ℝ)) : (project n cs).2.length = n := by
  unfold project
  simp only [List.length_map, length_accumulate, List.length_replicate]

theorem eq_replicate_of_getElem? {β : Type} (l : List β) (n : Nat) (b : β) (hl : l.length = n)
    (h : ∀ i, i < n → l[i]? = some b) : l = List.replicate n b := by
  apply List.ext_getElem?
  intro i
  by_cases hi : i < n
  · rw [h i hi, List.getElem?_replicate, if_pos hi]
  · rw [List.getElem?_eq_none (by omega), List.getElem?_replicate, if_neg hi]

/-- all vertex ids of the tets are node indices -/
def TetsWF (n : Nat) (ts : List Tet) : Prop := ∀ t ∈ ts, t.n0 < n ∧ t.n1 < n ∧ t.n2 < n ∧ t.n3 < n


/-- the field is `α + g·x` at the four vertices of `t` -/
def LinearOnTet (xyz : List (V3 ℝ)) (s : List ℝ) (α : ℝ) (g : V3 ℝ) (t : Tet) : Prop :=
  sAt s t.n0 = α + vdot g (xyzAt xyz t.n0) ∧ sAt s t.n1 = α + vdot g (xyzAt xyz t.n1) ∧
  sAt s t.n2 = α + vdot g (xyzAt xyz t.n2) ∧ sAt s t.n3 = α + vdot g (xyzAt xyz t.n3)

/-- the field is `α + g·x` at the three vertices of `t` -/
def LinearOnTri (xyz : List (V3 ℝ)) (s : List ℝ) (α : ℝ) (g : V3 ℝ) (t : Tri) : Prop :=
  sAt s t.n0 = α + vdot g (xyzAt xyz t.n0) ∧ sAt s t.n1 = α + vdot g (xyzAt xyz t.n1) ∧
  sAt s t.n2 = α + vdot g (xyzAt xyz t.n2)

/-- all vertex ids of the triangles are node indices -/
def TrisWF (n : Nat) (ts : List Tri) : Prop := ∀ t ∈ ts, t.n0 < n ∧ t.n1 < n ∧ t.n2 < n

theorem hessianOf_zero (G : List ℝ → St × List (V3 ℝ)) (s : List ℝ) (g : V3 ℝ) (n : Nat)
    (h1 : (G s).2 = List.replicate n g)
    (h2 : ∀ c : ℝ, (G (List.replicate n c)).2 = List.replicate n ⟨0, 0, 0⟩) :
    hessianOf G s = List.replicate n ⟨0, 0, 0, 0, 0, 0⟩ := by
  unfold hessianOf
  simp only [h1, List.map_replicate, h2, List.length_replicate]
  apply eq_replicate_of_getElem? _ _ _ (by simp)
  intro i hi
  simp only [List.getElem?_map, List.getElem?_range hi, Option.map_some, List.getD_eq_getElem?_getD,
    List.getElem?_replicate, if_pos hi, Option.getD_some, add_eq, mul_eq, add_zero, mul_zero]


end Refine.ReconReal
