import Refine.Lemmas.RcbPart
import Refine.Lemmas.RcbReal

/-!
  Helper for `Refine/Props/C04Rcb.lean`, part 4: the part array of `ref_migrate_native_rcb_part` as a function of
  the owned coordinates (exact arithmetic).
-/
namespace Refine.Lemmas.Rcb
open Refine Refine.Model.Comm Refine.Model.Rcb Refine.Lemmas.Comm

section Det
open Refine.Model.Geom
variable [RcbScalar ℝ]

theorem rcb_part_deterministic (npart : Nat) (seed : Int) (twod : Bool) (rands : List Nat)
    (w w' : World (List (PNode ℝ)))
    (h1 : 1 ≤ npart) (hn : npart ≤ w.length) (hlen : w'.length = w.length)
    (htot : (w.flatten.length : Int) ≤ INT_MAX) (htot' : (w'.flatten.length : Int) ≤ INT_MAX)
    (hperm : ((w.mapIdx fun r nodes => ownedRecs r nodes).flatten.map (·.p)).Perm
      ((w'.mapIdx fun r nodes => ownedRecs r nodes).flatten.map (·.p)))
    (parts parts' : World (List Int))
    (hp : rcbPart npart seed twod rands w = some parts) (hp' : rcbPart npart seed twod rands w' = some parts') :
    ∀ (r : Nat) (nodes : List (PNode ℝ)) (pr : List Int) (i : Nat) (nd : PNode ℝ),
      w[r]? = some nodes → parts[r]? = some pr → nodes[i]? = some nd → nd.part = (r : Int) →
    ∀ (r' : Nat) (nodes' : List (PNode ℝ)) (pr' : List Int) (j : Nat) (nd' : PNode ℝ),
      w'[r']? = some nodes' → parts'[r']? = some pr' → nodes'[j]? = some nd' → nd'.part = (r' : Int) →
      nd.p = nd'.p → pr[i]? = pr'[j]? := by
  obtain ⟨leaves, parts0, hl, hp0, _, hall⟩ := rcbPart_spec hst_real npart seed twod rands w h1 hn htot
  obtain ⟨leaves', parts0', hl', hp0', _, hall'⟩ :=
    rcbPart_spec hst_real npart seed twod rands w' h1 (by omega) htot'
  rw [hp] at hp0
  rw [hp'] at hp0'
  cases hp0
  cases hp0'
  intro r nodes pr i nd hw hpr hnd hown r' nodes' pr' j nd' hw' hpr' hnd' hown' hpp
  obtain ⟨pr0, hpr0, _, hi⟩ := hall r nodes hw
  obtain ⟨pr0', hpr0', _, hi'⟩ := hall' r' nodes' hw'
  rw [hpr] at hpr0
  rw [hpr'] at hpr0'
  cases hpr0
  cases hpr0'
  obtain ⟨k, hk, _, _, _, a, ha, _, hap, hak⟩ := (hi i nd hnd).1 hown
  obtain ⟨k', hk', _, _, _, a', ha', _, hap', hak'⟩ := (hi' j nd' hnd').1 hown'
  have hrl : (w.mapIdx fun r nodes => ownedRecs r nodes).length = w.length := by simp
  have hrl' : (w'.mapIdx fun r nodes => ownedRecs r nodes).length = w'.length := by simp
  have hrt : (((w.mapIdx fun r nodes => ownedRecs r nodes).flatten.length : Nat) : Int) ≤ INT_MAX := by
    rw [mapIdx_ownedRecs]
    have := recsFrom_length_le 0 w
    omega
  have := rcbDirection_deterministic (transformOf twod rands) seed twod npart 0 (-1)
    (w.mapIdx fun r nodes => ownedRecs r nodes) (w'.mapIdx fun r nodes => ownedRecs r nodes) h1 (by omega) (by omega)
    hrt hperm leaves leaves' hl hl' a ha a' ha' (by rw [hap, hap', hpp])
  rw [hk, hk', ← hak, ← hak', this]

end Det

end Refine.Lemmas.Rcb
