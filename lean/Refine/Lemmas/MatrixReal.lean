import Refine.Model.Matrix
import Refine.Lemmas.ScalarReal
import Mathlib.LinearAlgebra.Matrix.NonsingularInverse
import Mathlib.LinearAlgebra.Matrix.Notation
import Mathlib.Tactic.Ring
import Mathlib.Tactic.Linarith
import Mathlib.Tactic.LinearCombination

/-!
  Real-number side of the matrix kernel: orthonormality, `IsEigSys`, the bridge from the fixed-shape
  structures to Mathlib's `Matrix (Fin 3) (Fin 3) ℝ`, and the spectral lemma `formM_fun_congr`
  (a function of a symmetric matrix does not depend on which eigen system is used).
-/
namespace Refine.Model.Matrix
open Refine Refine.ScalarReal
open _root_.Matrix

/-! ### predicates -/

/-- the three vectors of an eigen system are orthonormal -/
structure Orthonormal (d : Eig12 ℝ) : Prop where
  n0 : d.x0 * d.x0 + d.y0 * d.y0 + d.z0 * d.z0 = 1
  n1 : d.x1 * d.x1 + d.y1 * d.y1 + d.z1 * d.z1 = 1
  n2 : d.x2 * d.x2 + d.y2 * d.y2 + d.z2 * d.z2 = 1
  p01 : d.x0 * d.x1 + d.y0 * d.y1 + d.z0 * d.z1 = 0
  p02 : d.x0 * d.x2 + d.y0 * d.y2 + d.z0 * d.z2 = 0
  p12 : d.x1 * d.x2 + d.y1 * d.y2 + d.z1 * d.z2 = 0

/-- `d` is an exact eigen decomposition of `m` -/
def IsEigSys (d : Eig12 ℝ) (m : M6 ℝ) : Prop := Orthonormal d ∧ formM d = m

structure Orthonormal2 (d : Eig6 ℝ) : Prop where
  n0 : d.x0 * d.x0 + d.y0 * d.y0 = 1
  n1 : d.x1 * d.x1 + d.y1 * d.y1 = 1
  p01 : d.x0 * d.x1 + d.y0 * d.y1 = 0

/-! ### bridge to Mathlib matrices -/

/-- the symmetric matrix as a Mathlib matrix -/
def M6.toMat (m : M6 ℝ) : Matrix (Fin 3) (Fin 3) ℝ :=
  !![m.m11, m.m12, m.m13; m.m12, m.m22, m.m23; m.m13, m.m23, m.m33]

/-- eigenvectors as columns -/
def Eig12.V (d : Eig12 ℝ) : Matrix (Fin 3) (Fin 3) ℝ :=
  !![d.x0, d.x1, d.x2; d.y0, d.y1, d.y2; d.z0, d.z1, d.z2]

def Eig12.lam (d : Eig12 ℝ) : Fin 3 → ℝ := ![d.l0, d.l1, d.l2]

def M33.toMat (a : M33 ℝ) : Matrix (Fin 3) (Fin 3) ℝ :=
  !![a.r0.x, a.r0.y, a.r0.z; a.r1.x, a.r1.y, a.r1.z; a.r2.x, a.r2.y, a.r2.z]

def Vec3.toFun (v : Vec3 ℝ) : Fin 3 → ℝ := ![v.x, v.y, v.z]

@[ext] theorem M6.ext' {a b : M6 ℝ} (h1 : a.m11 = b.m11) (h2 : a.m12 = b.m12) (h3 : a.m13 = b.m13)
    (h4 : a.m22 = b.m22) (h5 : a.m23 = b.m23) (h6 : a.m33 = b.m33) : a = b := by
  cases a; cases b; simp_all

theorem M6.toMat_injective {a b : M6 ℝ} (h : a.toMat = b.toMat) : a = b := by
  have e := fun i j => congrFun (congrFun h i) j
  have h00 := e 0 0; have h01 := e 0 1; have h02 := e 0 2
  have h11 := e 1 1; have h12 := e 1 2; have h22 := e 2 2
  simp [M6.toMat] at h00 h01 h02 h11 h12 h22
  exact M6.ext' h00 h01 h02 h11 h12 h22

theorem M6.toMat_transpose (m : M6 ℝ) : m.toMatᵀ = m.toMat := by
  ext i j; fin_cases i <;> fin_cases j <;> simp [M6.toMat]

theorem diagonal_lam (d : Eig12 ℝ) :
    diagonal d.lam = !![d.l0, 0, 0; 0, d.l1, 0; 0, 0, d.l2] := by
  ext i j; fin_cases i <;> fin_cases j <;> simp [Eig12.lam]

theorem Eig12.V_transpose (d : Eig12 ℝ) :
    d.Vᵀ = !![d.x0, d.y0, d.z0; d.x1, d.y1, d.z1; d.x2, d.y2, d.z2] := by
  ext i j; fin_cases i <;> fin_cases j <;> simp [Eig12.V]

/-- `formM d = V diag(l) Vᵀ` -/
theorem toMat_formM (d : Eig12 ℝ) : (formM d).toMat = d.V * diagonal d.lam * d.Vᵀ := by
  rw [diagonal_lam, Eig12.V_transpose]
  simp only [Eig12.V, mul_fin_three, M6.toMat, formM, mul_eq, add_eq]
  ext i j; fin_cases i <;> fin_cases j <;> simp <;> ring

theorem orthonormal_iff (d : Eig12 ℝ) : Orthonormal d ↔ d.Vᵀ * d.V = 1 := by
  rw [Eig12.V_transpose, one_fin_three]
  simp only [Eig12.V, mul_fin_three]
  constructor
  · intro h
    ext i j; fin_cases i <;> fin_cases j <;> simp <;>
      first
        | linear_combination h.n0 | linear_combination h.n1 | linear_combination h.n2
        | linear_combination h.p01 | linear_combination h.p02 | linear_combination h.p12
  · intro h
    have e := fun i j => congrFun (congrFun h i) j
    have h00 := e 0 0; have h01 := e 0 1; have h02 := e 0 2
    have h11 := e 1 1; have h12 := e 1 2; have h22 := e 2 2
    simp at h00 h01 h02 h11 h12 h22
    exact ⟨h00, h11, h22, h01, h02, h12⟩

theorem Orthonormal.rows {d : Eig12 ℝ} (h : Orthonormal d) : d.V * d.Vᵀ = 1 :=
  mul_eq_one_comm.mp ((orthonormal_iff d).mp h)

/-- eigenvalue fields do not matter for orthonormality -/
theorem orthonormal_mapEig {d : Eig12 ℝ} (f : ℝ → ℝ) (h : Orthonormal d) : Orthonormal (mapEig f d) :=
  ⟨h.n0, h.n1, h.n2, h.p01, h.p02, h.p12⟩

@[simp] theorem mapEig_V (f : ℝ → ℝ) (d : Eig12 ℝ) : (mapEig f d).V = d.V := rfl

theorem mapEig_lam (f : ℝ → ℝ) (d : Eig12 ℝ) : (mapEig f d).lam = fun i => f (d.lam i) := by
  funext i; fin_cases i <;> simp [mapEig, Eig12.lam]

/-! ### functions of a symmetric matrix are independent of the eigen system -/

/-- if `V Λ Vᵀ = W M Wᵀ` with `V`, `W` orthogonal then `V f(Λ) Vᵀ = W f(M) Wᵀ` -/
theorem spectral_fun_congr {n : Type} [Fintype n] [DecidableEq n] (V W : Matrix n n ℝ) (a b : n → ℝ)
    (f : ℝ → ℝ) (hV : Vᵀ * V = 1) (hW : Wᵀ * W = 1)
    (h : V * diagonal a * Vᵀ = W * diagonal b * Wᵀ) :
    V * diagonal (fun i => f (a i)) * Vᵀ = W * diagonal (fun i => f (b i)) * Wᵀ := by
  have hV' : V * Vᵀ = 1 := mul_eq_one_comm.mp hV
  have hW' : W * Wᵀ = 1 := mul_eq_one_comm.mp hW
  -- U = Vᵀ W intertwines the two diagonal matrices
  have hU : diagonal a * (Vᵀ * W) = (Vᵀ * W) * diagonal b := by
    calc diagonal a * (Vᵀ * W) = (Vᵀ * V) * diagonal a * (Vᵀ * W) := by rw [hV, one_mul]
      _ = Vᵀ * (V * diagonal a * Vᵀ) * W := by simp only [Matrix.mul_assoc]
      _ = Vᵀ * (W * diagonal b * Wᵀ) * W := by rw [h]
      _ = (Vᵀ * W) * diagonal b * (Wᵀ * W) := by simp only [Matrix.mul_assoc]
      _ = (Vᵀ * W) * diagonal b := by rw [hW, mul_one]
  have hUf : diagonal (fun i => f (a i)) * (Vᵀ * W) = (Vᵀ * W) * diagonal (fun i => f (b i)) := by
    ext i j
    have e := congrFun (congrFun hU i) j
    rw [diagonal_mul, mul_diagonal] at e
    rw [diagonal_mul, mul_diagonal]
    by_cases hz : (Vᵀ * W) i j = 0
    · rw [hz]; ring
    · have : a i = b j := by
        have : (Vᵀ * W) i j * (a i - b j) = 0 := by linear_combination e
        rcases mul_eq_zero.mp this with h0 | h0
        · exact absurd h0 hz
        · linarith
      rw [this]; ring
  calc V * diagonal (fun i => f (a i)) * Vᵀ
      = V * diagonal (fun i => f (a i)) * (Vᵀ * (W * Wᵀ)) := by rw [hW', mul_one]
    _ = V * (diagonal (fun i => f (a i)) * (Vᵀ * W)) * Wᵀ := by simp only [Matrix.mul_assoc]
    _ = V * ((Vᵀ * W) * diagonal (fun i => f (b i))) * Wᵀ := by rw [hUf]
    _ = (V * Vᵀ) * W * diagonal (fun i => f (b i)) * Wᵀ := by simp only [Matrix.mul_assoc]
    _ = W * diagonal (fun i => f (b i)) * Wᵀ := by rw [hV', one_mul]

/-- matrix functions are well defined: two eigen systems of the same matrix give the same `f(m)` -/
theorem formM_fun_congr {d d' : Eig12 ℝ} {m : M6 ℝ} (f : ℝ → ℝ) (h : IsEigSys d m) (h' : IsEigSys d' m) :
    formM (mapEig f d) = formM (mapEig f d') := by
  apply M6.toMat_injective
  rw [toMat_formM, toMat_formM, mapEig_V, mapEig_V, mapEig_lam, mapEig_lam]
  apply spectral_fun_congr _ _ _ _ f ((orthonormal_iff d).mp h.1) ((orthonormal_iff d').mp h'.1)
  rw [← toMat_formM, ← toMat_formM, h.2, h'.2]

end Refine.Model.Matrix
