import Refine.Lemmas.PartMeshbBlocks
import Refine.Props.C06

/-! the world the parallel meshb reader leaves satisfies the distributed-mesh invariant `distInv` (C06) -/
namespace Refine.Lemmas.PartMeshb
open Refine.Model.Meshb Refine.Model.PartMeshb
open Refine.Model.Comm (World)
open Refine.Model.Dist
open Refine.Gen.PartMacros

/-! ### which cells a rank ends with -/

theorem touches_of_dest {ci : CellInfo} {N : Int} {np : Nat} {c : Cell} (hci : 2 ≤ ci.nodePer) (hnp : 1 ≤ np)
    (h : CellOK ci N c) (r : Nat) (hd : destOf N np c = (r : Int)) : touches N np ci r c = true := by
  obtain ⟨hm, _, _⟩ := dest_range (np := np) hci hnp h
  unfold touches
  rw [List.any_eq_true]
  exact ⟨c.getD 0 0, hm, by simpa [imp, destOf] using hd⟩

theorem mem_finalRaw {ci : CellInfo} {N : Int} {np : Nat} {cs : List Cell} (hci : 2 ≤ ci.nodePer) (hnp : 1 ≤ np)
    (hok : ∀ c ∈ cs, CellOK ci N c) (r : Nat) (hr : r < np) (c : Cell) :
    c ∈ finalRaw N np ci r cs ↔ c ∈ cs ∧ touches N np ci r c = true := by
  unfold finalRaw
  rw [List.mem_append, mem_directRaw, mem_recvRaw]
  constructor
  · rintro (⟨h1, h2⟩ | ⟨s, _, _, h1, _, h3⟩)
    · exact ⟨h1, touches_of_dest hci hnp (hok c h1) r h2⟩
    · exact ⟨h1, h3⟩
  · rintro ⟨h1, h2⟩
    obtain ⟨_, d0, d1⟩ := dest_range (np := np) hci hnp (hok c h1)
    by_cases hs : destOf N np c = (r : Int)
    · exact Or.inl ⟨h1, hs⟩
    · refine Or.inr ⟨(destOf N np c).toNat, by omega, ?_, h1, by omega, h2⟩
      intro e; apply hs; omega

/-- the cells of group `j` of the file, all chunks in order -/
def fileGroup (p : Parsed) (j : Nat) : List Cell := (p.groups.getD j []).flatten

theorem mem_finalGroup {np : Nat} {p : Parsed} (hnp : 1 ≤ np) (hp : ParsedOK np p) (j r : Nat) (hr : r < np)
    (c : Cell) :
    c ∈ finalGroup p.nnode np p j r ↔ ∃ ci, cellInfos[j]? = some ci ∧
      ∃ c0 ∈ fileGroup p j, c = norm ci c0 ∧ touches p.nnode np ci r c0 = true := by
  unfold finalGroup fileGroup
  cases h1 : cellInfos[j]? with
  | none => simp
  | some ci =>
    cases h2 : p.groups[j]? with
    | none => simp [List.getD_eq_getElem?_getD, h2]
    | some chs =>
      have hz : (ci, chs) ∈ cellInfos.zip p.groups :=
        List.mem_iff_getElem?.2 ⟨j, List.getElem?_zip_eq_some.2 ⟨h1, h2⟩⟩
      have hci2 : 2 ≤ ci.nodePer := cellInfos_nodePer_pos ci (List.mem_of_getElem? h1)
      have hok : ∀ c ∈ chs.flatten, CellOK ci p.nnode c := by
        intro c hc
        obtain ⟨ch, hch, hcc⟩ := List.mem_flatten.1 hc
        exact hp.cells _ hz ch hch c hcc
      simp only [List.getD_eq_getElem?_getD, h2, Option.getD_some, List.mem_map]
      constructor
      · rintro ⟨c0, hc0, rfl⟩
        obtain ⟨a, b⟩ := (mem_finalRaw hci2 hnp hok r hr c0).1 hc0
        exact ⟨ci, rfl, c0, a, rfl, b⟩
      · rintro ⟨ci', hci', c0, a, rfl, b⟩
        injection hci' with hci'
        subst hci'
        exact ⟨c0, (mem_finalRaw hci2 hnp hok r hr c0).2 ⟨a, b⟩, rfl⟩

/-! ### a rank as the invariant sees it -/

/-- a stored cell as a `DCell` -/
def toD (j : Nat) (ci : CellInfo) (c : Cell) : DCell :=
  { group := j, nodes := c.take ci.nodePer, id := (c.drop ci.nodePer).headD 0 }

theorem mem_cells_toRankState (st : PRank) (d : DCell) :
    d ∈ (toRankState st).cells ↔ ∃ j ci, cellInfos[j]? = some ci ∧ ∃ c ∈ st.group j, st.cells[j]? ≠ none ∧ d = toD j ci c := by
  unfold toRankState
  simp only [List.mem_flatMap, List.mem_map]
  constructor
  · rintro ⟨⟨⟨ci, j⟩, cs⟩, hx, c, hc, rfl⟩
    obtain ⟨i, hi⟩ := List.mem_iff_getElem?.1 hx
    rw [List.getElem?_zip_eq_some, List.getElem?_zipIdx, Option.map_eq_some_iff] at hi
    obtain ⟨⟨a, ha, hak⟩, hg⟩ := hi
    simp only [Prod.mk.injEq] at hak
    obtain ⟨rfl, hk⟩ := hak
    have hji : j = i := by omega
    subst hji
    refine ⟨j, a, ha, c, ?_, by simp [hg], rfl⟩
    simp only [PRank.group, List.getD_eq_getElem?_getD]
    simp only at hg
    rw [hg]; exact hc
  · rintro ⟨j, ci, hci, c, hc, hne, rfl⟩
    cases hg : st.cells[j]? with
    | none => exact absurd hg hne
    | some cs =>
      refine ⟨((ci, j), cs), ?_, c, ?_, rfl⟩
      · exact List.mem_iff_getElem?.2 ⟨j, by
          rw [List.getElem?_zip_eq_some, List.getElem?_zipIdx, Option.map_eq_some_iff]
          exact ⟨⟨ci, hci, by simp⟩, hg⟩⟩
      · simp only [PRank.group, List.getD_eq_getElem?_getD, hg, Option.getD_some] at hc
        exact hc

theorem toRank_has (st : PRank) (g : Int) : (toRankState st).has g = st.has g := by
  simp only [RankState.has, PRank.has, toRankState, List.any_map]
  rfl

theorem toRank_partOf {N : Int} {np : Nat} {V : Int → Vertex} {r : Nat} {st : PRank} (h : RankInv N np V r st)
    (g : Int) (hg : st.has g = true) : (toRankState st).partOf g = some (imp N np g) := by
  unfold RankState.partOf toRankState
  simp only
  rw [List.find?_map]
  cases hf : st.nodes.find? ((fun nd : DNode => nd.glob == g) ∘ fun n : PNode =>
      ({ glob := n.glob, part := n.part, payload := payloadOf n } : DNode)) with
  | none =>
    rw [List.find?_eq_none] at hf
    obtain ⟨n, hn, hng⟩ := (has_iff st g).1 hg
    exact absurd (by simp [hng]) (hf n hn)
  | some n =>
    have hp := List.find?_some hf
    have hm := List.mem_of_find?_eq_some hf
    simp only [Function.comp, beq_iff_eq] at hp
    simp only [Option.map_some]
    rw [(h.parts n hm).2.2, hp]

theorem toRank_partOf_none (st : PRank) (g : Int) (hg : st.has g = false) : (toRankState st).partOf g = none := by
  unfold RankState.partOf toRankState
  simp only
  rw [List.find?_map]
  have : st.nodes.find? ((fun nd : DNode => nd.glob == g) ∘ fun n : PNode =>
      ({ glob := n.glob, part := n.part, payload := payloadOf n } : DNode)) = none := by
    rw [List.find?_eq_none]
    intro n hn hb
    simp only [Function.comp, beq_iff_eq] at hb
    have : st.has g = true := (has_iff st g).2 ⟨n, hn, hb⟩
    rw [hg] at this; exact absurd this (by simp)
  rw [this]; rfl

/-- the payload of vertex `g` wherever it is stored: the three coordinate patterns of the file -/
def payloadV (V : Int → Vertex) (g : Int) : List Nat := [(V g).x.toNat, (V g).y.toNat, (V g).z.toNat]

theorem toRank_payload {st : PRank} {V : Int → Vertex} (hx : ∀ n ∈ st.nodes, n.xyz = some (V n.glob))
    (g : Int) (hg : st.has g = true) :
    ((toRankState st).nodes.find? fun od => od.glob == g).map (·.payload) = some (payloadV V g) := by
  unfold toRankState
  simp only
  rw [List.find?_map]
  cases hf : st.nodes.find? ((fun nd : DNode => nd.glob == g) ∘ fun n : PNode =>
      ({ glob := n.glob, part := n.part, payload := payloadOf n } : DNode)) with
  | none =>
    rw [List.find?_eq_none] at hf
    obtain ⟨n, hn, hng⟩ := (has_iff st g).1 hg
    exact absurd (by simp [hng]) (hf n hn)
  | some n =>
    have hp := List.find?_some hf
    have hm := List.mem_of_find?_eq_some hf
    simp only [Function.comp, beq_iff_eq] at hp
    simp only [Option.map_some, payloadOf, hx n hm, hp, payloadV]

/-- the owner `ref_cell_part` computes from the vertices of a cell -/
def ownerFn (N : Int) (np : Nat) (nodes : List Int) : Int := cellOwner (nodes.map fun g => (g, imp N np g))

theorem cellVerts_toD {N : Int} {np : Nat} {V : Int → Vertex} {r : Nat} {st : PRank} (h : RankInv N np V r st)
    (j : Nat) (ci : CellInfo) (hci : cellInfos[j]? = some ci) (c : Cell) (hc : c ∈ st.group j) :
    (toRankState st).cellVerts (toD j ci c) = (c.take ci.nodePer).map fun g => (g, imp N np g) := by
  unfold RankState.cellVerts toD
  simp only
  apply List.map_congr_left
  intro g hg
  rw [toRank_partOf h g (h.verts j ci hci c hc g hg)]
  rfl

theorem ownerOf_toD {N : Int} {np : Nat} {V : Int → Vertex} {r : Nat} {st : PRank} (h : RankInv N np V r st)
    (j : Nat) (ci : CellInfo) (hci : cellInfos[j]? = some ci) (c : Cell) (hc : c ∈ st.group j) :
    (toRankState st).ownerOf (toD j ci c) = ownerFn N np (c.take ci.nodePer) := by
  unfold RankState.ownerOf ownerFn
  rw [cellVerts_toD h j ci hci c hc]

/-- the owner is the block owner of one of the cell's vertices -/
theorem ownerFn_mem (N : Int) (np : Nat) (nodes : List Int) (hne : nodes ≠ []) :
    ∃ g ∈ nodes, ownerFn N np nodes = imp N np g := by
  obtain ⟨v, hv, he, _⟩ := Refine.Props.C06.cellOwner_unique (nodes.map fun g => (g, imp N np g)) (by simpa using hne)
  obtain ⟨g, hg, rfl⟩ := List.mem_map.1 hv
  exact ⟨g, hg, he⟩

/-! ### small list facts -/

theorem nodupB_of_nodup {α : Type} [BEq α] [LawfulBEq α] : ∀ (l : List α), l.Nodup → nodupB l = true := by
  intro l
  induction l with
  | nil => intro _; rfl
  | cons x xs ih =>
    intro h
    rw [List.nodup_cons] at h
    simp only [nodupB, Bool.and_eq_true, Bool.not_eq_true', ih h.2, and_true]
    rw [← Bool.not_eq_true, List.contains_iff_mem]
    exact h.1

theorem nodup_eraseDups {α : Type} [BEq α] [LawfulBEq α] : ∀ (n : Nat) (l : List α), l.length ≤ n → l.eraseDups.Nodup := by
  intro n
  induction n with
  | zero => intro l hl; have : l = [] := List.eq_nil_of_length_eq_zero (by omega); subst this; simp
  | succ n ih =>
    intro l hl
    cases l with
    | nil => simp
    | cons a as =>
      rw [List.eraseDups_cons, List.nodup_cons]
      refine ⟨?_, ih _ ?_⟩
      · rw [List.mem_eraseDups, List.mem_filter]
        simp
      · have := List.length_filter_le (fun b => !b == a) as
        simp at hl
        omega

/-! ### the ranks of the final world -/

section Final
variable {np : Nat} {p : Parsed} {w : World PRank} {cad : Bytes}

/-- abbreviations for this section: the world of `distribute_ok` -/
abbrev FinalP (np : Nat) (p : Parsed) (cad : Bytes) (w : World PRank) : Prop :=
  FinalIs p.nnode np (vertexOf p.nnode np p.blocks) (fun r => ownedNodes p.nnode np r (p.blocks.getD r []))
    (finalGroup p.nnode np p) cad w

theorem toDist_get (hF : FinalP np p cad w) (q : Nat) (hq : q < np) :
    (toDist w)[q]? = some (toRankState (w.getD q default)) := by
  have hq' : q < w.length := by rw [hF.len]; exact hq
  unfold toDist
  rw [List.getElem?_map, List.getD_eq_getElem?_getD, List.getElem?_eq_getElem hq']
  rfl

theorem toDist_length (hF : FinalP np p cad w) : (toDist w).length = np := by
  unfold toDist; rw [List.length_map, hF.len]

theorem toDist_mem (hF : FinalP np p cad w) (s : RankState) (hs : s ∈ toDist w) :
    ∃ q, q < np ∧ s = toRankState (w.getD q default) := by
  obtain ⟨q, hq⟩ := List.mem_iff_getElem?.1 hs
  have hlt : q < np := by
    rw [← toDist_length hF]
    exact (List.getElem?_eq_some_iff.1 hq).1
  rw [toDist_get hF q hlt] at hq
  injection hq with hq
  exact ⟨q, hlt, hq.symm⟩

theorem toDist_zipIdx_mem (hF : FinalP np p cad w) (sr : RankState × Nat) (hs : sr ∈ (toDist w).zipIdx) :
    sr.2 < np ∧ sr.1 = toRankState (w.getD sr.2 default) := by
  have h := List.mem_zipIdx_iff_getElem?.1 hs
  have hlt : sr.2 < np := by
    rw [← toDist_length hF]
    exact (List.getElem?_eq_some_iff.1 h).1
  rw [toDist_get hF sr.2 hlt] at h
  injection h with h
  exact ⟨hlt, h.symm⟩

/-- the cells of rank `r`, as `DCell`s: the file cells that touch one of its vertices -/
theorem mem_rank_cells (hnp : 1 ≤ np) (hp : ParsedOK np p) (hF : FinalP np p cad w) (r : Nat) (hr : r < np)
    (d : DCell) :
    d ∈ (toRankState (w.getD r default)).cells ↔ ∃ j ci, cellInfos[j]? = some ci ∧
      ∃ c0 ∈ fileGroup p j, d = toD j ci (norm ci c0) ∧ touches p.nnode np ci r c0 = true ∧
        norm ci c0 ∈ (w.getD r default).group j := by
  rw [mem_cells_toRankState]
  constructor
  · rintro ⟨j, ci, hci, c, hc, _, rfl⟩
    have hc' := hc
    rw [hF.grp r hr j, mem_finalGroup hnp hp j r hr] at hc'
    obtain ⟨ci', hci', c0, hc0, rfl, ht⟩ := hc'
    rw [hci] at hci'
    injection hci' with hci'
    subst hci'
    exact ⟨j, ci, hci, c0, hc0, rfl, ht, hc⟩
  · rintro ⟨j, ci, hci, c0, hc0, rfl, ht, hmem⟩
    refine ⟨j, ci, hci, norm ci c0, hmem, ?_, rfl⟩
    have hj : j < 16 := by
      have := (List.getElem?_eq_some_iff.1 hci).1
      rw [cellInfos_length] at this; exact this
    intro hnone
    rw [List.getElem?_eq_none_iff, (hF.inv r hr).ncells] at hnone
    omega

theorem rank_stores (hnp : 1 ≤ np) (hp : ParsedOK np p) (hF : FinalP np p cad w) (r : Nat) (hr : r < np)
    (j : Nat) (ci : CellInfo) (hci : cellInfos[j]? = some ci) (c0 : Cell) (hc0 : c0 ∈ fileGroup p j)
    (ht : touches p.nnode np ci r c0 = true) : norm ci c0 ∈ (w.getD r default).group j := by
  rw [hF.grp r hr j, mem_finalGroup hnp hp j r hr]
  exact ⟨ci, hci, c0, hc0, rfl, ht⟩

theorem fileGroup_ok (hp : ParsedOK np p) (j : Nat) (ci : CellInfo) (hci : cellInfos[j]? = some ci) (c0 : Cell)
    (hc0 : c0 ∈ fileGroup p j) : CellOK ci p.nnode c0 ∧ Distinct ci (fileGroup p j) := by
  unfold fileGroup at hc0 ⊢
  cases h2 : p.groups[j]? with
  | none => simp [List.getD_eq_getElem?_getD, h2] at hc0
  | some chs =>
    have hz : (ci, chs) ∈ cellInfos.zip p.groups :=
      List.mem_iff_getElem?.2 ⟨j, List.getElem?_zip_eq_some.2 ⟨hci, h2⟩⟩
    simp only [List.getD_eq_getElem?_getD, h2, Option.getD_some] at hc0 ⊢
    obtain ⟨ch, hch, hcc⟩ := List.mem_flatten.1 hc0
    exact ⟨hp.cells _ hz ch hch c0 hcc, hp.dist _ hz⟩

theorem toD_nodes (ci : CellInfo) (j : Nat) (c0 : Cell) (h : ci.nodePer ≤ c0.length) :
    (toD j ci (norm ci c0)).nodes = c0.take ci.nodePer := by
  unfold toD; simp only; exact norm_take ci c0 h

theorem touches_iff (N : Int) (np : Nat) (ci : CellInfo) (r : Nat) (c : Cell) :
    touches N np ci r c = true ↔ ∃ g ∈ c.take ci.nodePer, imp N np g = (r : Int) := by
  unfold touches
  rw [List.any_eq_true]
  constructor
  · rintro ⟨g, hg, h⟩; exact ⟨g, hg, by simpa using h⟩
  · rintro ⟨g, hg, h⟩; exact ⟨g, hg, by simpa using h⟩

end Final

end Refine.Lemmas.PartMeshb
