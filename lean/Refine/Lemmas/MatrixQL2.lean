import Refine.Lemmas.MatrixBlock2

/-!
  `diagM_similarity`, part 1: every implicit-shift QL sweep of `ref_matrix_diag_m` is an exact orthogonal
  similarity over ℝ.  A QL state `(d, e, f, Q)` in row `l` stands for `Q (T + f·P_{≥l}) Qᵀ` (`QL.reprMat`); each
  inner step is a Givens rotation `Q' = Q G`, `M' = Gᵀ M G` on the full symmetric 3x3 with the bulge stored
  explicitly (`Sweep.mat0`, `Sweep.mat1`); the closing recurrence `p = -s*s2*c3*el1*e[l]/dl1` of tql2 equals the
  `p` left by the loop because the shift makes the leading 2x2 block singular (`close_one`, `close_two`).
  Results: `sweep01_repr`, `sweep12_repr` (one rotation), `sweep02_repr` (two rotations).
-/
namespace Refine.Model.Matrix
open Refine Refine.ScalarReal
open _root_.Matrix

def triMat (d0 d1 d2 e0 e1 : ℝ) : Matrix (Fin 3) (Fin 3) ℝ := !![d0, e0, 0; e0, d1, e1; 0, e1, d2]
def G01 (c s : ℝ) : Matrix (Fin 3) (Fin 3) ℝ := !![c, s, 0; -s, c, 0; 0, 0, 1]
def G12 (c s : ℝ) : Matrix (Fin 3) (Fin 3) ℝ := !![1, 0, 0; 0, c, s; 0, -s, c]

theorem G01_orth (c s : ℝ) (h : c * c + s * s = 1) : G01 c s * (G01 c s)ᵀ = 1 := by
  ext i j; fin_cases i <;> fin_cases j <;> simp [G01, Matrix.mul_apply, Fin.sum_univ_three] <;> grind

theorem G12_orth (c s : ℝ) (h : c * c + s * s = 1) : G12 c s * (G12 c s)ᵀ = 1 := by
  ext i j; fin_cases i <;> fin_cases j <;> simp [G12, Matrix.mul_apply, Fin.sum_univ_three] <;> grind

theorem rotVec0_V (c s : ℝ) (d : Eig12 ℝ) : (rotVec 0 c s d).V = d.V * G01 c s := by
  ext i j; fin_cases i <;> fin_cases j <;>
    simp [rotVec, Eig12.V, G01, Matrix.mul_apply, Fin.sum_univ_three] <;> ring

theorem rotVec1_V (c s : ℝ) (d : Eig12 ℝ) : (rotVec 1 c s d).V = d.V * G12 c s := by
  ext i j; fin_cases i <;> fin_cases j <;>
    simp [rotVec, Eig12.V, G12, Matrix.mul_apply, Fin.sum_univ_three] <;> ring

theorem conj_rot (V G M : Matrix (Fin 3) (Fin 3) ℝ) (hG : G * Gᵀ = 1) :
    (V * G) * (Gᵀ * M * G) * (V * G)ᵀ = V * M * Vᵀ := by
  rw [transpose_mul]
  calc V * G * (Gᵀ * M * G) * (Gᵀ * Vᵀ) = V * (G * Gᵀ) * M * (G * Gᵀ) * Vᵀ := by
        simp only [Matrix.mul_assoc]
    _ = V * M * Vᵀ := by rw [hG, Matrix.mul_one, Matrix.mul_one]

/-- rotation in the plane (1,2) applied to the matrix at position 2 (general form, with an optional coupling e0) -/
theorem rot12_step (d0 d1 e0 e1 c p f0 f c' s' : ℝ) (h1 : c' * c' + s' * s' = 1) (h2 : c' * e1 = s' * p) :
    (G12 c' s')ᵀ * !![d0 + f0, e0, 0; e0, d1 + f, c * e1; 0, c * e1, c * p + f] * G12 c' s' =
      !![d0 + f0, c' * e0, s' * e0;
         c' * e0, c' * (c' * d1 - s' * (c * e1)) + f, s' * (c' * d1 - s' * (c * e1));
         s' * e0, s' * (c' * d1 - s' * (c * e1)), c * p + s' * (c' * (c * e1) + s' * d1) + f] := by
  ext i j; fin_cases i <;> fin_cases j <;>
    simp [G12, Matrix.mul_apply, Fin.sum_univ_three] <;> grind

theorem rot01_step (d0 d2 e0 c s p f c' s' r : ℝ) (h1 : c' * c' + s' * s' = 1) (h2 : c' * e0 = s' * p)
    (h3 : r = s' * e0 + c' * p) :
    (G01 c' s')ᵀ * !![d0 + f, c * e0, s * e0; c * e0, c * p + f, s * p; s * e0, s * p, d2 + f] * G01 c' s' =
      !![c' * (c' * d0 - s' * (c * e0)) + f, s' * (c' * d0 - s' * (c * e0)), 0;
         s' * (c' * d0 - s' * (c * e0)), c * p + s' * (c' * (c * e0) + s' * d0) + f, s * r;
         0, s * r, d2 + f] := by
  ext i j; fin_cases i <;> fin_cases j <;>
    simp [G01, Matrix.mul_apply, Fin.sum_univ_three] <;> grind


/-! ### rotation data of an inner step -/
noncomputable def Sweep.r (i : Nat) (w : Sweep ℝ) : ℝ := Real.sqrt (w.p * w.p + w.st.getE i * w.st.getE i)

theorem Sweep.r_ne (i : Nat) (w : Sweep ℝ) (he : w.st.getE i ≠ 0) : w.r i ≠ 0 := (sqrt_sumsq_pos _ _ he).ne'
theorem Sweep.r_sq (i : Nat) (w : Sweep ℝ) : w.r i * w.r i = w.p * w.p + w.st.getE i * w.st.getE i :=
  Real.mul_self_sqrt (add_nonneg (mul_self_nonneg _) (mul_self_nonneg _))

theorem innerStep_c (i : Nat) (w : Sweep ℝ) : (innerStep i w).c = w.p / w.r i := rfl
theorem innerStep_s (i : Nat) (w : Sweep ℝ) : (innerStep i w).s = w.st.getE i / w.r i := rfl
theorem innerStep_p (i : Nat) (w : Sweep ℝ) :
    (innerStep i w).p = (innerStep i w).c * w.st.getD i - (innerStep i w).s * (w.c * w.st.getE i) := rfl
theorem innerStep_c2 (i : Nat) (w : Sweep ℝ) : (innerStep i w).c2 = w.c := rfl
theorem innerStep_c3 (i : Nat) (w : Sweep ℝ) : (innerStep i w).c3 = w.c2 := rfl
theorem innerStep_s2 (i : Nat) (w : Sweep ℝ) : (innerStep i w).s2 = w.s := rfl

theorem innerStep_rot (i : Nat) (w : Sweep ℝ) (he : w.st.getE i ≠ 0) :
    (innerStep i w).c * (innerStep i w).c + (innerStep i w).s * (innerStep i w).s = 1 ∧
    (innerStep i w).c * w.st.getE i = (innerStep i w).s * w.p ∧
    w.r i = (innerStep i w).s * w.st.getE i + (innerStep i w).c * w.p := by
  rw [innerStep_c, innerStep_s]
  have h1 := w.r_ne i he
  have h2 := w.r_sq i
  generalize w.r i = r at *
  refine ⟨?_, ?_, ?_⟩ <;> field_simp <;> grind

theorem innerStep1_st (w : Sweep ℝ) : (innerStep 1 w).st =
    { w.st with
      d := rotVec 1 (innerStep 1 w).c (innerStep 1 w).s
        { w.st.d with l2 := w.c * w.p + (innerStep 1 w).s * ((innerStep 1 w).c * (w.c * w.st.e1) + (innerStep 1 w).s * w.st.d.l1) }
      e2 := w.s * w.r 1 } := rfl

theorem innerStep0_st (w : Sweep ℝ) : (innerStep 0 w).st =
    { w.st with
      d := rotVec 0 (innerStep 0 w).c (innerStep 0 w).s
        { w.st.d with l1 := w.c * w.p + (innerStep 0 w).s * ((innerStep 0 w).c * (w.c * w.st.e0) + (innerStep 0 w).s * w.st.d.l0) }
      e1 := w.s * w.r 0 } := rfl


/-! ### the shift -/

/-- `p + gridSign r p` of the `form shift` lines -/
noncomputable def shiftT (dl dl1 el : ℝ) : ℝ :=
  (dl1 - dl) / (2 * el) + gridSign (Real.sqrt ((dl1 - dl) / (2 * el) * ((dl1 - dl) / (2 * el)) + 1)) ((dl1 - dl) / (2 * el))

theorem shiftT_spec (dl dl1 el : ℝ) (hel : el ≠ 0) :
    shiftT dl dl1 el ≠ 0 ∧ el * shiftT dl dl1 el = dl1 - (dl - el / shiftT dl dl1 el) := by
  unfold shiftT
  set p := (dl1 - dl) / (2 * el) with hp
  have hgs := gridSign_sq p
  set gs := gridSign (Real.sqrt (p * p + 1)) p
  have htt : (p + gs) * (p + gs) - 1 = 2 * p * (p + gs) := by linear_combination hgs
  have ht0 : p + gs ≠ 0 := by
    intro h0; rw [h0] at htt; norm_num at htt
  have hpe : 2 * p * el = dl1 - dl := by rw [hp]; field_simp
  refine ⟨ht0, ?_⟩
  generalize p + gs = t at *
  field_simp
  grind

theorem shift0_eq (st : QL ℝ) :
    shift 0 st = { st with
      d := { st.d with l0 := st.e0 / shiftT st.d.l0 st.d.l1 st.e0, l1 := st.e0 * shiftT st.d.l0 st.d.l1 st.e0
                       l2 := st.d.l2 - (st.d.l0 - st.e0 / shiftT st.d.l0 st.d.l1 st.e0) }
      f := st.f + (st.d.l0 - st.e0 / shiftT st.d.l0 st.d.l1 st.e0) } := by
  simp only [shift, shiftT, QL.setD, QL.getD, QL.getE, mul_eq, add_eq, sub_eq, div_eq, sqrt_eq, one_eq, two_eq,
    Nat.reduceAdd, le_refl, if_true]

theorem shift1_eq (st : QL ℝ) :
    shift 1 st = { st with
      d := { st.d with l1 := st.e1 / shiftT st.d.l1 st.d.l2 st.e1, l2 := st.e1 * shiftT st.d.l1 st.d.l2 st.e1 }
      f := st.f + (st.d.l1 - st.e1 / shiftT st.d.l1 st.d.l2 st.e1) } := by
  simp only [shift, shiftT, QL.setD, QL.getD, QL.getE, mul_eq, add_eq, sub_eq, div_eq, sqrt_eq, one_eq, two_eq,
    Nat.reduceAdd, Nat.reduceLeDiff, if_false]


/-! ### the matrix a QL state stands for -/

/-- the symmetric tridiagonal matrix (in the coordinates of the current vectors) a QL state stands for while
    row `l` is active: rows `< l` are finished (their `d` is final, their sub-diagonal entry was dropped),
    rows `≥ l` carry the accumulated shift `f` -/
noncomputable def QL.Tmat (l : Nat) (st : QL ℝ) : Matrix (Fin 3) (Fin 3) ℝ :=
  triMat (st.d.l0 + (if l = 0 then st.f else 0)) (st.d.l1 + (if l ≤ 1 then st.f else 0))
    (st.d.l2 + (if l ≤ 2 then st.f else 0)) (if l = 0 then st.e0 else 0) (if l ≤ 1 then st.e1 else 0)

/-- `Q T Qᵀ` -/
noncomputable def QL.reprMat (l : Nat) (st : QL ℝ) : Matrix (Fin 3) (Fin 3) ℝ := st.d.V * st.Tmat l * st.d.Vᵀ

/-- the full symmetric matrix (bulge included) during the `ql transformation` loop of row 0, when the next
    rotation is in the plane (i-1, i) -/
noncomputable def Sweep.mat0 (w : Sweep ℝ) : Nat → Matrix (Fin 3) (Fin 3) ℝ
  | 0 => !![w.c * w.p + w.st.f, w.s * w.p, 0; w.s * w.p, w.st.d.l1 + w.st.f, w.st.e1; 0, w.st.e1, w.st.d.l2 + w.st.f]
  | 1 => !![w.st.d.l0 + w.st.f, w.c * w.st.e0, w.s * w.st.e0;
            w.c * w.st.e0, w.c * w.p + w.st.f, w.s * w.p;
            w.s * w.st.e0, w.s * w.p, w.st.d.l2 + w.st.f]
  | _ => !![w.st.d.l0 + w.st.f, w.st.e0, 0; w.st.e0, w.st.d.l1 + w.st.f, w.c * w.st.e1; 0, w.c * w.st.e1, w.c * w.p + w.st.f]

/-- the same during row 1 (row 0 is finished: no shift on `d[0]`, `e[0]` dropped) -/
noncomputable def Sweep.mat1 (w : Sweep ℝ) : Nat → Matrix (Fin 3) (Fin 3) ℝ
  | 2 => !![w.st.d.l0, 0, 0; 0, w.st.d.l1 + w.st.f, w.c * w.st.e1; 0, w.c * w.st.e1, w.c * w.p + w.st.f]
  | _ => !![w.st.d.l0, 0, 0; 0, w.c * w.p + w.st.f, w.s * w.p; 0, w.s * w.p, w.st.d.l2 + w.st.f]

noncomputable def Sweep.W0 (w : Sweep ℝ) (i : Nat) : Matrix (Fin 3) (Fin 3) ℝ := w.st.d.V * w.mat0 i * w.st.d.Vᵀ
noncomputable def Sweep.W1 (w : Sweep ℝ) (i : Nat) : Matrix (Fin 3) (Fin 3) ℝ := w.st.d.V * w.mat1 i * w.st.d.Vᵀ

theorem rot12_step1 (d0 d1 e1 c p f c' s' : ℝ) (h1 : c' * c' + s' * s' = 1) (h2 : c' * e1 = s' * p) :
    (G12 c' s')ᵀ * !![d0, 0, 0; 0, d1 + f, c * e1; 0, c * e1, c * p + f] * G12 c' s' =
      !![d0, 0, 0;
         0, c' * (c' * d1 - s' * (c * e1)) + f, s' * (c' * d1 - s' * (c * e1));
         0, s' * (c' * d1 - s' * (c * e1)), c * p + s' * (c' * (c * e1) + s' * d1) + f] := by
  ext i j; fin_cases i <;> fin_cases j <;>
    simp [G12, Matrix.mul_apply, Fin.sum_univ_three] <;> grind

theorem innerStep1_V (w : Sweep ℝ) :
    (innerStep 1 w).st.d.V = w.st.d.V * G12 (innerStep 1 w).c (innerStep 1 w).s := by
  rw [innerStep1_st]; exact rotVec1_V _ _ _

theorem innerStep0_V (w : Sweep ℝ) :
    (innerStep 0 w).st.d.V = w.st.d.V * G01 (innerStep 0 w).c (innerStep 0 w).s := by
  rw [innerStep0_st]; exact rotVec0_V _ _ _

/-- rotation (1,2) during row 0 -/
theorem innerStep1_W0 (w : Sweep ℝ) (he : w.st.e1 ≠ 0) : (innerStep 1 w).W0 1 = w.W0 2 := by
  obtain ⟨h1, h2, _⟩ := innerStep_rot 1 w he
  have hm : (innerStep 1 w).mat0 1 =
      (G12 (innerStep 1 w).c (innerStep 1 w).s)ᵀ * w.mat0 2 * G12 (innerStep 1 w).c (innerStep 1 w).s :=
    (rot12_step w.st.d.l0 w.st.d.l1 w.st.e0 w.st.e1 w.c w.p w.st.f w.st.f _ _ h1 h2).symm
  unfold Sweep.W0
  rw [hm, innerStep1_V]
  exact conj_rot _ _ _ (G12_orth _ _ h1)

/-- rotation (1,2) during row 1 -/
theorem innerStep1_W1 (w : Sweep ℝ) (he : w.st.e1 ≠ 0) : (innerStep 1 w).W1 1 = w.W1 2 := by
  obtain ⟨h1, h2, _⟩ := innerStep_rot 1 w he
  have hm : (innerStep 1 w).mat1 1 =
      (G12 (innerStep 1 w).c (innerStep 1 w).s)ᵀ * w.mat1 2 * G12 (innerStep 1 w).c (innerStep 1 w).s :=
    (rot12_step1 w.st.d.l0 w.st.d.l1 w.st.e1 w.c w.p w.st.f _ _ h1 h2).symm
  unfold Sweep.W1
  rw [hm, innerStep1_V]
  exact conj_rot _ _ _ (G12_orth _ _ h1)

/-- rotation (0,1) during row 0 -/
theorem innerStep0_W0 (w : Sweep ℝ) (he : w.st.e0 ≠ 0) : (innerStep 0 w).W0 0 = w.W0 1 := by
  obtain ⟨h1, h2, h3⟩ := innerStep_rot 0 w he
  have hm : (innerStep 0 w).mat0 0 =
      (G01 (innerStep 0 w).c (innerStep 0 w).s)ᵀ * w.mat0 1 * G01 (innerStep 0 w).c (innerStep 0 w).s :=
    (rot01_step w.st.d.l0 w.st.d.l2 w.st.e0 w.c w.s w.p w.st.f _ _ (w.r 0) h1 h2 h3).symm
  unfold Sweep.W0
  rw [hm, innerStep0_V]
  exact conj_rot _ _ _ (G01_orth _ _ h1)


/-! ### a sweep = shift, initial locals, inner steps, closing assignment -/

/-- locals at the start of the `ql transformation` loop -/
noncomputable def initSweep (mm : Nat) (st : QL ℝ) : Sweep ℝ :=
  { st := st, p := st.getD mm, c := Scalar.one, c2 := Scalar.one, c3 := Scalar.zero, s := Scalar.zero, s2 := Scalar.zero }

/-- the three assignments after the loop: `p = -s*s2*c3*el1*e[l]/dl1; e[l] = s*p; d[l] = c*p` -/
noncomputable def closeSweep (l : Nat) (el1 dl1 : ℝ) (w : Sweep ℝ) : QL ℝ :=
  (w.st.setE l (Scalar.mul w.s (Scalar.div (Scalar.mul (Scalar.mul (Scalar.mul (Scalar.mul (Scalar.neg w.s) w.s2) w.c3) el1) (w.st.getE l)) dl1))).setD l
    (Scalar.mul w.c (Scalar.div (Scalar.mul (Scalar.mul (Scalar.mul (Scalar.mul (Scalar.neg w.s) w.s2) w.c3) el1) (w.st.getE l)) dl1))

theorem sweep02_eq (st : QL ℝ) : sweep 0 2 st =
    closeSweep 0 st.e1 (shift 0 st).d.l1 (innerStep 0 (innerStep 1 (initSweep 2 (shift 0 st)))) := rfl
theorem sweep01_eq (st : QL ℝ) : sweep 0 1 st =
    closeSweep 0 st.e1 (shift 0 st).d.l1 (innerStep 0 (initSweep 1 (shift 0 st))) := rfl
theorem sweep12_eq (st : QL ℝ) : sweep 1 2 st =
    closeSweep 1 st.e2 (shift 1 st).d.l2 (innerStep 1 (initSweep 2 (shift 1 st))) := rfl

theorem shift0_repr (st : QL ℝ) (he : st.e0 ≠ 0) : (shift 0 st).reprMat 0 = st.reprMat 0 := by
  obtain ⟨_, h2⟩ := shiftT_spec st.d.l0 st.d.l1 st.e0 he
  rw [shift0_eq]
  unfold QL.reprMat QL.Tmat
  simp only [Eig12.V, if_true, Nat.zero_le]
  congr 2
  unfold triMat
  rw [h2]
  congr 1
  ext i j; fin_cases i <;> fin_cases j <;> simp <;> ring


theorem shift1_repr (st : QL ℝ) (he : st.e1 ≠ 0) : (shift 1 st).reprMat 1 = st.reprMat 1 := by
  obtain ⟨_, h2⟩ := shiftT_spec st.d.l1 st.d.l2 st.e1 he
  rw [shift1_eq]
  unfold QL.reprMat QL.Tmat
  simp only [Eig12.V, if_true, if_false, Nat.le_refl, Nat.one_le_ofNat, one_ne_zero]
  congr 2
  unfold triMat
  rw [h2]
  congr 1
  ext i j; fin_cases i <;> fin_cases j <;> simp <;> ring

theorem init2_W0 (st : QL ℝ) : (initSweep 2 st).W0 2 = st.reprMat 0 := by
  unfold Sweep.W0 QL.reprMat
  congr 2
  simp [Sweep.mat0, initSweep, QL.Tmat, triMat, QL.getD]

theorem init1_W0 (st : QL ℝ) : (initSweep 1 st).W0 1 = ({ st with e1 := 0 } : QL ℝ).reprMat 0 := by
  unfold Sweep.W0 QL.reprMat
  congr 2
  simp [Sweep.mat0, initSweep, QL.Tmat, triMat, QL.getD]

theorem init2_W1 (st : QL ℝ) : (initSweep 2 st).W1 2 = st.reprMat 1 := by
  unfold Sweep.W1 QL.reprMat
  congr 2
  simp [Sweep.mat1, initSweep, QL.Tmat, triMat, QL.getD]

theorem close0_repr (el1 dl1 : ℝ) (w : Sweep ℝ) (hp : -w.s * w.s2 * w.c3 * el1 * w.st.e0 / dl1 = w.p) :
    (closeSweep 0 el1 dl1 w).reprMat 0 = w.W0 0 := by
  unfold Sweep.W0 QL.reprMat closeSweep
  simp only [QL.getE, QL.setE, QL.setD, mul_eq, div_eq, neg_eq, hp]
  congr 2

theorem close1_repr (el1 dl1 : ℝ) (w : Sweep ℝ) (hp : -w.s * w.s2 * w.c3 * el1 * w.st.e1 / dl1 = w.p) :
    (closeSweep 1 el1 dl1 w).reprMat 1 = w.W1 1 := by
  unfold Sweep.W1 QL.reprMat closeSweep
  simp only [QL.getE, QL.setE, QL.setD, mul_eq, div_eq, neg_eq, hp]
  congr 2
  simp [QL.Tmat, triMat, Sweep.mat1]


/-! ### the three sweeps of a 3x3 problem -/

/-- closing recurrence, one rotation: with the singular shift `a * b = e²` the last `p` of the loop is 0, and so is
    the coded `-s*s2*c3*el1*e[l]/dl1` because `s2 = 0` -/
theorem close_one (a b e r : ℝ) (hab : a * b = e * e) (hr : r ≠ 0) :
    b / r * a - e / r * (1 * e) = 0 := by
  field_simp; grind

/-- closing recurrence, two rotations (tql2): `p = -s*s2*c3*el1*e[l]/dl1` equals the `p` left by the loop -/
theorem close_two (a b e0 e1 d2 r1 r2 : ℝ) (hab : a * b = e0 * e0) (hb : b ≠ 0) (hr1 : r1 ≠ 0) (hr2 : r2 ≠ 0) :
    -(e0 / r2) * (e1 / r1) * 1 * e1 * e0 / b =
      (d2 / r1 * b - e1 / r1 * (1 * e1)) / r2 * a - e0 / r2 * (d2 / r1 * e0) := by
  field_simp; grind

/-- one implicit-shift sweep over the leading 2x2 block (l = 0, mm = 1): exact similarity once `e[1]` (which passed the
    convergence test) is dropped; `e[0]` is annihilated, `e[1]` is overwritten by 0 -/
theorem sweep01_repr (st : QL ℝ) (he0 : st.e0 ≠ 0) :
    (sweep 0 1 st).reprMat 0 = ({ st with e1 := 0 } : QL ℝ).reprMat 0 ∧
    (sweep 0 1 st).e0 = 0 ∧ (sweep 0 1 st).e1 = 0 := by
  obtain ⟨ht, h2⟩ := shiftT_spec st.d.l0 st.d.l1 st.e0 he0
  have hs0 : (shift 0 st).e0 = st.e0 := by rw [shift0_eq]
  have hs1 : (shift 0 st).e1 = st.e1 := by rw [shift0_eq]
  set w0 := initSweep 1 (shift 0 st) with hw0
  have hw0e : w0.st.e0 ≠ 0 := by show (shift 0 st).e0 ≠ 0; rw [hs0]; exact he0
  have hs2 : (innerStep 0 w0).s2 = 0 := by rw [innerStep_s2]; show (Scalar.zero : ℝ) = 0; exact zero_eq
  have hws : w0.s = 0 := zero_eq
  have hp : (innerStep 0 w0).p = 0 := by
    rw [innerStep_p, innerStep_c, innerStep_s]
    have hc : w0.c = 1 := one_eq
    rw [hc]
    show (shift 0 st).d.l1 / w0.r 0 * (shift 0 st).d.l0 - (shift 0 st).e0 / w0.r 0 * (1 * (shift 0 st).e0) = 0
    apply close_one _ _ _ _ _ (w0.r_ne 0 hw0e)
    rw [shift0_eq]
    show st.e0 / _ * (st.e0 * _) = st.e0 * st.e0
    field_simp
  refine ⟨?_, ?_, ?_⟩
  · rw [sweep01_eq, close0_repr _ _ _ (by rw [hs2, hp]; simp), innerStep0_W0 _ hw0e, init1_W0]
    have : ({ shift 0 st with e1 := 0 } : QL ℝ) = shift 0 { st with e1 := 0 } := by
      rw [shift0_eq, shift0_eq]
    rw [this]; exact shift0_repr _ he0
  · rw [sweep01_eq]
    show (innerStep 0 w0).s * (-(innerStep 0 w0).s * (innerStep 0 w0).s2 * _ * _ * _ / _) = 0
    rw [hs2]; simp
  · rw [sweep01_eq]
    show (innerStep 0 w0).st.e1 = 0
    rw [innerStep0_st]
    show w0.s * w0.r 0 = 0
    rw [hws]; simp


/-- one implicit-shift sweep over the trailing 2x2 block (l = 1, mm = 2): exact similarity; `e[1]` is annihilated;
    row 0 (its `d`, its dropped `e[0]`, its vector) is not touched -/
theorem sweep12_repr (st : QL ℝ) (he1 : st.e1 ≠ 0) :
    (sweep 1 2 st).reprMat 1 = st.reprMat 1 ∧ (sweep 1 2 st).e1 = 0 ∧ (sweep 1 2 st).e0 = st.e0 := by
  obtain ⟨ht, h2⟩ := shiftT_spec st.d.l1 st.d.l2 st.e1 he1
  have hs1 : (shift 1 st).e1 = st.e1 := by rw [shift1_eq]
  set w0 := initSweep 2 (shift 1 st) with hw0
  have hw0e : w0.st.e1 ≠ 0 := by show (shift 1 st).e1 ≠ 0; rw [hs1]; exact he1
  have hs2 : (innerStep 1 w0).s2 = 0 := by rw [innerStep_s2]; show (Scalar.zero : ℝ) = 0; exact zero_eq
  have hp : (innerStep 1 w0).p = 0 := by
    rw [innerStep_p, innerStep_c, innerStep_s]
    have hc : w0.c = 1 := one_eq
    rw [hc]
    show (shift 1 st).d.l2 / w0.r 1 * (shift 1 st).d.l1 - (shift 1 st).e1 / w0.r 1 * (1 * (shift 1 st).e1) = 0
    apply close_one _ _ _ _ _ (w0.r_ne 1 hw0e)
    rw [shift1_eq]
    show st.e1 / _ * (st.e1 * _) = st.e1 * st.e1
    field_simp
  refine ⟨?_, ?_, ?_⟩
  · rw [sweep12_eq, close1_repr _ _ _ (by rw [hs2, hp]; simp), innerStep1_W1 _ hw0e, init2_W1]
    exact shift1_repr _ he1
  · rw [sweep12_eq]
    show (innerStep 1 w0).s * (-(innerStep 1 w0).s * (innerStep 1 w0).s2 * _ * _ * _ / _) = 0
    rw [hs2]; simp
  · rw [sweep12_eq]
    show (innerStep 1 w0).st.e0 = st.e0
    rw [innerStep1_st]
    show (shift 1 st).e0 = st.e0
    rw [shift1_eq]

/-- one implicit-shift sweep over the full 3x3 block (l = 0, mm = 2; two rotations, tql2's closing recurrence):
    exact similarity -/
theorem sweep02_repr (st : QL ℝ) (he0 : st.e0 ≠ 0) (he1 : st.e1 ≠ 0) :
    (sweep 0 2 st).reprMat 0 = st.reprMat 0 := by
  obtain ⟨ht, h2⟩ := shiftT_spec st.d.l0 st.d.l1 st.e0 he0
  have hs0 : (shift 0 st).e0 = st.e0 := by rw [shift0_eq]
  have hs1 : (shift 0 st).e1 = st.e1 := by rw [shift0_eq]
  set w0 := initSweep 2 (shift 0 st) with hw0
  have hw0e : w0.st.e1 ≠ 0 := by show (shift 0 st).e1 ≠ 0; rw [hs1]; exact he1
  set w1 := innerStep 1 w0 with hw1
  have hw1e0 : w1.st.e0 = st.e0 := by
    rw [hw1, innerStep1_st]; exact hs0
  have hw1e : w1.st.e0 ≠ 0 := by rw [hw1e0]; exact he0
  have hclose : -(innerStep 0 w1).s * (innerStep 0 w1).s2 * (innerStep 0 w1).c3 * st.e1 * (innerStep 0 w1).st.e0 /
      (shift 0 st).d.l1 = (innerStep 0 w1).p := by
    have e0' : (innerStep 0 w1).st.e0 = st.e0 := by rw [innerStep0_st]; exact hw1e0
    have hc3 : (innerStep 0 w1).c3 = 1 := by
      rw [innerStep_c3, hw1, innerStep_c2]; exact one_eq
    have hc0 : w0.c = 1 := one_eq
    have hl0 : w1.st.d.l0 = (shift 0 st).d.l0 := by rw [hw1, innerStep1_st]; rfl
    have hw1p : w1.p = w0.p / w0.r 1 * (shift 0 st).d.l1 - (shift 0 st).e1 / w0.r 1 * (1 * (shift 0 st).e1) := by
      rw [hw1, innerStep_p, innerStep_c, innerStep_s, hc0]; rfl
    rw [innerStep_p, innerStep_c, innerStep_s, innerStep_s2, e0', hc3]
    show -(st.e0 / w1.r 0) * w1.s * 1 * st.e1 * st.e0 / (shift 0 st).d.l1 =
      w1.p / w1.r 0 * w1.st.d.l0 - w1.st.e0 / w1.r 0 * (w1.c * w1.st.e0)
    rw [hl0, hw1e0, hw1p]
    have hw1s : w1.s = st.e1 / w0.r 1 := by rw [hw1, innerStep_s]; show (shift 0 st).e1 / _ = _; rw [hs1]
    have hw1c : w1.c = (shift 0 st).d.l2 / w0.r 1 := by rw [hw1, innerStep_c]; rfl
    rw [hw1s, hw1c, hs1]
    have hab : (shift 0 st).d.l0 * (shift 0 st).d.l1 = st.e0 * st.e0 := by
      rw [shift0_eq]
      show st.e0 / _ * (st.e0 * _) = st.e0 * st.e0
      field_simp
    have hb : (shift 0 st).d.l1 ≠ 0 := by
      rw [shift0_eq]
      show st.e0 * _ ≠ 0
      exact mul_ne_zero he0 ht
    exact close_two _ _ _ _ _ _ _ hab hb (w0.r_ne 1 hw0e) (w1.r_ne 0 hw1e)
  rw [sweep02_eq, close0_repr _ _ _ hclose, innerStep0_W0 _ hw1e, innerStep1_W0 _ hw0e, init2_W0]
  exact shift0_repr _ he0

end Refine.Model.Matrix
