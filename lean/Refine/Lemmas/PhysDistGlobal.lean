import Refine.Lemmas.PhysDistBc

/-!
  The distributed wall list against the GLOBAL mesh: if the ranks' stored cells are cells of a global mesh (same
  vertex globals, same id, coordinates by global id) and every global cell is stored by at least one rank — in refine
  by every rank that owns one of its vertices, in particular by its owner `ref_cell_part`, see `Props/C06.lean`
  `cellOwner_unique` — then the union of the ranks' `ref_phys_local_wall` lists is, as a SET, the list of selected
  wall elements of the global mesh.  (A cell stored by several ranks is listed several times; `min` does not care.)
-/
namespace Refine.Lemmas.PhysDist
open Refine Refine.Model Refine.Model.Geom Refine.Model.PhysDist
open Refine.Model.Comm (World)

variable {α : Type} [Inhabited α]

/-- the global mesh: coordinates by global id, boundary cells as (vertex globals, id) -/
structure GMesh (α : Type) where
  xyz : Int → V3 α
  tri : List (List Int × Int)
  qua : List (List Int × Int)
  edg : List (List Int × Int)

/-- the vertex globals of a stored cell -/
def cellGlobs (r : PRank α) (c : PCell) : List Int :=
  c.nodes.map fun n => match r.nodes[n]? with
    | some nd => nd.glob
    | none => -1

/-- vertex `k` of a global cell -/
def gPoint (G : GMesh α) (gs : List Int) (k : Nat) : V3 α := G.xyz (gs.getD k (-1))

/-- the selected wall elements of the global mesh (quads split as the code splits them) -/
def globalWalls (twod : Bool) (dict : RDict) (G : GMesh α) : List (Elem α) :=
  if twod then
    (G.edg.filter fun c => isWallId dict c.2).map fun c => [gPoint G c.1 0, gPoint G c.1 1]
  else
    ((G.tri.filter fun c => isWallId dict c.2).map fun c => [gPoint G c.1 0, gPoint G c.1 1, gPoint G c.1 2]) ++
    ((G.qua.filter fun c => isWallId dict c.2).flatMap fun c =>
      [[gPoint G c.1 0, gPoint G c.1 1, gPoint G c.1 2], [gPoint G c.1 0, gPoint G c.1 2, gPoint G c.1 3]])

def CellsValid (r : PRank α) (per : Nat) (cs : List PCell) : Prop :=
  ∀ c ∈ cs, c.nodes.length = per ∧ ∀ n ∈ c.nodes, n < r.nodes.length

/-- the world is a distribution of the global mesh -/
structure Represents (w : World (PRank α)) (G : GMesh α) : Prop where
  coords : ∀ r ∈ w, ∀ nd ∈ r.nodes, nd.xyz = G.xyz nd.glob
  valid : ∀ r ∈ w, CellsValid r 3 r.tri ∧ CellsValid r 4 r.qua ∧ CellsValid r 2 r.edg
  sound : ∀ r ∈ w, (∀ c ∈ r.tri, (cellGlobs r c, c.id) ∈ G.tri) ∧ (∀ c ∈ r.qua, (cellGlobs r c, c.id) ∈ G.qua) ∧
    (∀ c ∈ r.edg, (cellGlobs r c, c.id) ∈ G.edg)
  /-- every global cell is stored somewhere (refine: on the rank `ref_cell_part` names, and on every other rank that
      owns one of its vertices) -/
  complete : (∀ gc ∈ G.tri, ∃ r ∈ w, ∃ c ∈ r.tri, (cellGlobs r c, c.id) = gc) ∧
    (∀ gc ∈ G.qua, ∃ r ∈ w, ∃ c ∈ r.qua, (cellGlobs r c, c.id) = gc) ∧
    (∀ gc ∈ G.edg, ∃ r ∈ w, ∃ c ∈ r.edg, (cellGlobs r c, c.id) = gc)

theorem cellXyz_eq (G : GMesh α) (r : PRank α) (hc : ∀ nd ∈ r.nodes, nd.xyz = G.xyz nd.glob) (c : PCell)
    (hn : ∀ n ∈ c.nodes, n < r.nodes.length) (k : Nat) (hk : k < c.nodes.length) :
    cellXyz r.nodes c k = gPoint G (cellGlobs r c) k := by
  have hlt := hn c.nodes[k] (List.getElem_mem hk)
  unfold cellXyz nodeXyz gPoint cellGlobs
  rw [List.getD_eq_getElem?_getD, List.getElem?_eq_getElem hk, Option.getD_some,
    List.getD_eq_getElem?_getD, List.getElem?_map, List.getElem?_eq_getElem hk, Option.map_some, Option.getD_some,
    List.getElem?_eq_getElem hlt]
  exact hc _ (List.getElem_mem hlt)

/-- **every selected wall element of the global mesh is listed by some rank, and nothing else is listed** -/
theorem worldWalls_iff_globalWalls (twod : Bool) (dict : RDict) (w : World (PRank α)) (G : GMesh α)
    (h : Represents w G) (e : Elem α) :
    e ∈ (w.map (localWall twod dict)).flatten ↔ e ∈ globalWalls twod dict G := by
  simp only [List.mem_flatten, List.mem_map]
  constructor
  · rintro ⟨l, ⟨r, hr, rfl⟩, he⟩
    have hco := h.coords r hr
    obtain ⟨vt, vq, ve⟩ := h.valid r hr
    obtain ⟨st, sq, se⟩ := h.sound r hr
    rw [localWall_mem] at he
    unfold globalWalls
    cases twod with
    | true =>
      simp only [if_true] at he ⊢
      obtain ⟨c, hc, hw, rfl⟩ := he
      obtain ⟨hl, hn⟩ := ve c hc
      refine List.mem_map.mpr ⟨(cellGlobs r c, c.id), List.mem_filter.mpr ⟨se c hc, hw⟩, ?_⟩
      rw [cellXyz_eq G r hco c hn 0 (by omega), cellXyz_eq G r hco c hn 1 (by omega)]
    | false =>
      simp only [Bool.false_eq_true, if_false] at he ⊢
      rcases he with ⟨c, hc, hw, rfl⟩ | ⟨c, hc, hw, he⟩
      · obtain ⟨hl, hn⟩ := vt c hc
        refine List.mem_append_left _ (List.mem_map.mpr ⟨(cellGlobs r c, c.id), List.mem_filter.mpr ⟨st c hc, hw⟩, ?_⟩)
        rw [cellXyz_eq G r hco c hn 0 (by omega), cellXyz_eq G r hco c hn 1 (by omega),
          cellXyz_eq G r hco c hn 2 (by omega)]
      · obtain ⟨hl, hn⟩ := vq c hc
        refine List.mem_append_right _ (List.mem_flatMap.mpr ⟨(cellGlobs r c, c.id),
          List.mem_filter.mpr ⟨sq c hc, hw⟩, ?_⟩)
        rw [cellXyz_eq G r hco c hn 0 (by omega), cellXyz_eq G r hco c hn 1 (by omega),
          cellXyz_eq G r hco c hn 2 (by omega), cellXyz_eq G r hco c hn 3 (by omega)] at he
        simpa using he
  · intro he
    unfold globalWalls at he
    obtain ⟨ct, cq, ce⟩ := h.complete
    cases twod with
    | true =>
      simp only [if_true, List.mem_map, List.mem_filter] at he
      obtain ⟨gc, ⟨hg, hw⟩, rfl⟩ := he
      obtain ⟨r, hr, c, hc, rfl⟩ := ce gc hg
      obtain ⟨hl, hn⟩ := (h.valid r hr).2.2 c hc
      refine ⟨_, ⟨r, hr, rfl⟩, ?_⟩
      rw [localWall_mem]
      simp only [if_true]
      refine ⟨c, hc, hw, ?_⟩
      rw [cellXyz_eq G r (h.coords r hr) c hn 0 (by omega), cellXyz_eq G r (h.coords r hr) c hn 1 (by omega)]
    | false =>
      simp only [Bool.false_eq_true, if_false, List.mem_append, List.mem_map, List.mem_filter,
        List.mem_flatMap] at he
      rcases he with ⟨gc, ⟨hg, hw⟩, rfl⟩ | ⟨gc, ⟨hg, hw⟩, he⟩
      · obtain ⟨r, hr, c, hc, rfl⟩ := ct gc hg
        obtain ⟨hl, hn⟩ := (h.valid r hr).1 c hc
        refine ⟨_, ⟨r, hr, rfl⟩, ?_⟩
        rw [localWall_mem]
        simp only [Bool.false_eq_true, if_false]
        refine Or.inl ⟨c, hc, hw, ?_⟩
        rw [cellXyz_eq G r (h.coords r hr) c hn 0 (by omega), cellXyz_eq G r (h.coords r hr) c hn 1 (by omega),
          cellXyz_eq G r (h.coords r hr) c hn 2 (by omega)]
      · obtain ⟨r, hr, c, hc, rfl⟩ := cq gc hg
        obtain ⟨hl, hn⟩ := (h.valid r hr).2.1 c hc
        refine ⟨_, ⟨r, hr, rfl⟩, ?_⟩
        rw [localWall_mem]
        simp only [Bool.false_eq_true, if_false]
        refine Or.inr ⟨c, hc, hw, ?_⟩
        rw [cellXyz_eq G r (h.coords r hr) c hn 0 (by omega), cellXyz_eq G r (h.coords r hr) c hn 1 (by omega),
          cellXyz_eq G r (h.coords r hr) c hn 2 (by omega), cellXyz_eq G r (h.coords r hr) c hn 3 (by omega)]
        simpa using he

end Refine.Lemmas.PhysDist
