import Refine.Model.Subdiv
import Refine.Lemmas.CavityChain
import Mathlib.Algebra.BigOperators.Group.List.Basic
import Mathlib.Tactic.Abel
import Mathlib.Tactic.IntervalCases

/-!
  Chain-level reflection for the `ref_subdiv` templates.

  A signed sum of `φ`-values of oriented faces whose vertices are *atoms* (indices into an environment `ρ`) is
  zero for every alternating `φ` as soon as the faces, brought to sorted vertex order with the sign of the sorting
  permutation, cancel in pairs — a decidable check (`chainEq`) on index triples.  `chainEq_sound` turns the check
  into the equation in every abelian group.
-/
namespace Refine.Lemmas.Subdiv
open Refine.Lemmas.Cavity
open Refine.Model.Cavity (Face Tet tetFaces)

variable {G : Type} [AddCommGroup G]

abbrev F3 := Nat × Nat × Nat

def ev (φ : Int → Int → Int → G) (ρ : Nat → Int) (f : F3) : G := φ (ρ f.1) (ρ f.2.1) (ρ f.2.2)

def evL (φ : Int → Int → Int → G) (ρ : Nat → Int) (l : List F3) : G := (l.map (ev φ ρ)).sum

def sval (φ : Int → Int → Int → G) (ρ : Nat → Int) (x : Bool × F3) : G :=
  if x.1 then - ev φ ρ x.2 else ev φ ρ x.2

/-- compare-exchange of positions 0,1 / 1,2; the flag is flipped by every exchange -/
def step01 (x : Bool × F3) : Bool × F3 :=
  if x.2.2.1 < x.2.1 then (!x.1, (x.2.2.1, x.2.1, x.2.2.2)) else x
def step12 (x : Bool × F3) : Bool × F3 :=
  if x.2.2.2 < x.2.2.1 then (!x.1, (x.2.1, x.2.2.2, x.2.2.1)) else x

/-- sorted vertex order with the parity of the exchanges performed -/
def sort3 (f : F3) : Bool × F3 := step01 (step12 (step01 (false, f)))

theorem alt_swap12 {φ : Int → Int → Int → G} (hφ : Alt φ) (a b c : Int) : φ a c b = - φ a b c := by
  have h1 : φ a c b = φ b a c := hφ.rot b a c
  rw [h1, hφ.swap]

theorem sval_step01 {φ : Int → Int → Int → G} (hφ : Alt φ) (ρ : Nat → Int) (x : Bool × F3) :
    sval φ ρ (step01 x) = sval φ ρ x := by
  rcases x with ⟨s, a, b, c⟩
  unfold step01
  split
  · cases s <;> simp [sval, ev, hφ.swap (ρ a) (ρ b) (ρ c)]
  · rfl

theorem sval_step12 {φ : Int → Int → Int → G} (hφ : Alt φ) (ρ : Nat → Int) (x : Bool × F3) :
    sval φ ρ (step12 x) = sval φ ρ x := by
  rcases x with ⟨s, a, b, c⟩
  unfold step12
  split
  · cases s <;> simp [sval, ev, alt_swap12 hφ (ρ a) (ρ b) (ρ c)]
  · rfl

theorem sval_sort3 {φ : Int → Int → Int → G} (hφ : Alt φ) (ρ : Nat → Int) (f : F3) :
    sval φ ρ (sort3 f) = ev φ ρ f := by
  unfold sort3
  rw [sval_step01 hφ, sval_step12 hφ, sval_step01 hφ]
  simp [sval]

/-- remove the first occurrence -/
def erase1 (y : Bool × F3) : List (Bool × F3) → List (Bool × F3)
  | [] => []
  | x :: t => if x = y then t else x :: erase1 y t

theorem sum_erase1 (f : Bool × F3 → G) (y : Bool × F3) (l : List (Bool × F3)) (h : y ∈ l) :
    f y + ((erase1 y l).map f).sum = (l.map f).sum := by
  induction l with
  | nil => cases h
  | cons x t ih =>
    unfold erase1
    split
    · next hx => subst hx; simp
    · next hx =>
      have : y ∈ t := by
        rcases List.mem_cons.mp h with h | h
        · exact absurd h.symm hx
        · exact h
      simp only [List.map_cons, List.sum_cons]
      rw [← ih this]; abel

/-- pairwise cancellation of a signed list -/
def cancelAll : Nat → List (Bool × F3) → Bool
  | _, [] => true
  | 0, _ :: _ => false
  | n + 1, x :: t => if (!x.1, x.2) ∈ t then cancelAll n (erase1 (!x.1, x.2) t) else false

theorem sval_neg (φ : Int → Int → Int → G) (ρ : Nat → Int) (s : Bool) (k : F3) :
    sval φ ρ (s, k) + sval φ ρ (!s, k) = 0 := by
  cases s <;> simp [sval]

theorem cancelAll_sound (φ : Int → Int → Int → G) (ρ : Nat → Int) (n : Nat) (l : List (Bool × F3))
    (h : cancelAll n l = true) : (l.map (sval φ ρ)).sum = 0 := by
  induction n generalizing l with
  | zero =>
    cases l with
    | nil => simp
    | cons x t => simp [cancelAll] at h
  | succ n ih =>
    cases l with
    | nil => simp
    | cons x t =>
      simp only [cancelAll] at h
      split at h
      · next hmem =>
        have h1 := ih _ h
        have h2 := sum_erase1 (sval φ ρ) _ t hmem
        simp only [List.map_cons, List.sum_cons]
        rw [← h2, h1, add_zero]
        exact sval_neg φ ρ x.1 x.2
      · cases h

def canon (neg : Bool) (l : List F3) : List (Bool × F3) :=
  l.map fun f => ((sort3 f).1 != neg, (sort3 f).2)

theorem sval_flip (φ : Int → Int → Int → G) (ρ : Nat → Int) (s neg : Bool) (k : F3) :
    sval φ ρ (s != neg, k) = if neg then - sval φ ρ (s, k) else sval φ ρ (s, k) := by
  cases s <;> cases neg <;> simp [sval]

theorem canon_sum {φ : Int → Int → Int → G} (hφ : Alt φ) (ρ : Nat → Int) (neg : Bool) (l : List F3) :
    ((canon neg l).map (sval φ ρ)).sum = if neg then - evL φ ρ l else evL φ ρ l := by
  induction l with
  | nil => cases neg <;> simp [canon, evL]
  | cons f t ih =>
    have hf : sval φ ρ ((sort3 f).1, (sort3 f).2) = ev φ ρ f := sval_sort3 hφ ρ f
    simp only [canon, List.map_cons, List.sum_cons, evL] at ih ⊢
    rw [ih, sval_flip, hf]
    cases neg
    · simp
    · simp only [if_true]; abel

/-- the decidable check: the faces of `l1` and the reversed faces of `l2` cancel in pairs -/
def chainEq (l1 l2 : List F3) : Bool :=
  cancelAll (l1.length + l2.length) (canon false l1 ++ canon true l2)

theorem chainEq_sound {φ : Int → Int → Int → G} (hφ : Alt φ) (ρ : Nat → Int) (l1 l2 : List F3)
    (h : chainEq l1 l2 = true) : evL φ ρ l1 = evL φ ρ l2 := by
  have := cancelAll_sound φ ρ _ _ h
  rw [List.map_append, List.sum_append, canon_sum hφ, canon_sum hφ] at this
  simp only [if_true, if_false, Bool.false_eq_true] at this
  exact sub_eq_zero.mp (by rw [sub_eq_add_neg]; exact this)

/-- faces of a list of tets as index triples (vertices are atoms `< 10`) -/
def facesIdx (cs : List Tet) : List F3 :=
  (cs.flatMap tetFaces).map fun f => (f.n0.toNat, f.n1.toNat, f.n2.toNat)

def fIdx (fs : List Face) : List F3 := fs.map fun f => (f.n0.toNat, f.n1.toNat, f.n2.toNat)

/-! ### the refined boundary of a split tet, and the reflection environment -/

open Refine.Model.Subdiv

/-- cell-edge index of the tet edge joining local vertices `i`, `j` (regenerated `e2n` table) -/
def localEdge (i j : Nat) : Nat :=
  (Refine.Gen.CellTables.tet.e2n.findIdx? fun r => r == [min i j, max i j]).getD 0

/-- the triangles the TRI template (`ref_subdiv_split_tri`) makes of an oriented face with side marks
    `mab mbc mca` (the face itself when no side is marked) -/
def faceKids (btw : Int → Int → Int) (mab mbc mca : Bool) (f : Face) : List Face :=
  match splitTriChildren btw mab mbc mca ⟨f.n0, f.n1, f.n2, 0⟩ with
  | some (ts, _) => ts.map fun t => ⟨t.n0, t.n1, t.n2⟩
  | none => [f]

/-- the boundary of tet `t` with every face replaced by the tri-template children for that face's side marks -/
def refinedBoundary (btw : Int → Int → Int) (map : Nat) (t : Tet) : List Face :=
  Refine.Gen.CellTables.tet.f2n.flatMap fun row =>
    let i := row.getD 0 0
    let j := row.getD 1 0
    let k := row.getD 2 0
    faceKids btw (map.testBit (localEdge i j)) (map.testBit (localEdge j k)) (map.testBit (localEdge k i))
      ⟨tetNode t i, tetNode t j, tetNode t k⟩

/-- number of marked sides of face `row` under pattern `map` -/
def faceMarkCount (map : Nat) (row : List Nat) : Nat :=
  let i := row.getD 0 0
  let j := row.getD 1 0
  let k := row.getD 2 0
  (if map.testBit (localEdge i j) then 1 else 0) + (if map.testBit (localEdge j k) then 1 else 0) +
    (if map.testBit (localEdge k i) then 1 else 0)

/-- atoms 0..3: the corners; 4..9: `btw` of the six edges in table order; 10..15: the same with swapped arguments -/
def atoms (btw : Int → Int → Int) (a b c d : Int) (i : Nat) : Int :=
  [a, b, c, d, btw a b, btw a c, btw a d, btw b c, btw b d, btw c d,
   btw b a, btw c a, btw d a, btw c b, btw d b, btw d c].getD i 0

/-- `btw` on atom indices (argument order kept: swapped arguments give the atoms 10..15) -/
def btwI (x y : Int) : Int :=
  let e : Int := if x < y then (if x == 0 then y - 1 else if x == 1 then y + 1 else 5)
                 else (if y == 0 then x - 1 else if y == 1 then x + 1 else 5)
  if x < y then 4 + e else 10 + e

def norm (i : Nat) : Nat := if 10 ≤ i ∧ i < 16 then i - 6 else i
def norm3 (f : F3) : F3 := (norm f.1, norm f.2.1, norm f.2.2)

theorem atoms_norm (btw : Int → Int → Int) (hb : ∀ x y, btw x y = btw y x) (a b c d : Int) (i : Nat) :
    atoms btw a b c d (norm i) = atoms btw a b c d i := by
  by_cases h : i < 16
  · interval_cases i <;> simp [norm, atoms, hb b a, hb c a, hb d a, hb c b, hb d b, hb d c]
  · have h1 : norm i = i := by unfold norm; rw [if_neg (by omega)]
    rw [h1]

theorem evL_norm (φ : Int → Int → Int → G) (ρ : Nat → Int) (hρ : ∀ i, ρ (norm i) = ρ i) (l : List F3) :
    evL φ ρ (l.map norm3) = evL φ ρ l := by
  simp only [evL, List.map_map]
  congr 1
  apply List.map_congr_left
  intro f _
  simp [ev, norm3, hρ]

theorem chainEq_sound' {φ : Int → Int → Int → G} (hφ : Alt φ) (ρ : Nat → Int) (hρ : ∀ i, ρ (norm i) = ρ i)
    (l1 l2 : List F3) (h : chainEq (l1.map norm3) (l2.map norm3) = true) : evL φ ρ l1 = evL φ ρ l2 := by
  rw [← evL_norm φ ρ hρ l1, ← evL_norm φ ρ hρ l2]
  exact chainEq_sound hφ ρ _ _ h

/-- index-level instance of a pattern: children faces / refined boundary of the reference tet (0,1,2,3) -/
def kidsIdx (map : Nat) : List F3 :=
  facesIdx (keepOr ⟨0, 1, 2, 3⟩ ((splitTetChildren btwI map ⟨0, 1, 2, 3⟩).getD []))
def bdIdx (map : Nat) : List F3 := fIdx (refinedBoundary btwI map ⟨0, 1, 2, 3⟩)

end Refine.Lemmas.Subdiv
