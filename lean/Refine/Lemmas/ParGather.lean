import Refine.Lemmas.CommReduce
import Refine.Model.Par
import Mathlib.Data.List.Perm.Basic

/-!
  The chunked node gather of `Refine.Model.Par` (ref_gather_node): per chunk the reduction to rank 0 is the
  column-wise `MPI_SUM` of the ranks' records (`chunkBlock_eq`); the loop writes the columns `0..N-1` in order for
  every chunk ≥ 1 (`gatherLoop_eq`); a column with exactly one owner sums to that owner's record (`colSum_once`).
-/
namespace Refine.Lemmas.Par
open Refine.Model.Comm Refine.Model.Par Refine.Lemmas.Comm

variable {α : Type}

/-- `MPI_SUM` over the ranks (rank order) of the records for global `g` -/
def colSum (add : α → α → α) (zero : α) (w : World (RankView α)) (g : Nat) : α × Nat :=
  match contribsFrom zero g 0 w with
  | [] => (zero, 0)
  | c :: cs => cs.foldl (slotAdd add) c

/-- does rank `r, r+1, …` own `g` -/
def ownerFlagsFrom (g : Nat) : Nat → World (RankView α) → List Bool
  | _, [] => []
  | r, v :: vs => (ownerPayload r v g).isSome :: ownerFlagsFrom g (r + 1) vs

/-- the number of ranks on which global `g` is stored with `part = that rank` -/
def ownerCount (w : World (RankView α)) (g : Nat) : Nat := (ownerFlagsFrom g 0 w).count true

/-- payload of the lowest rank that owns `g` -/
def firstOwnerFrom (g : Nat) : Nat → World (RankView α) → Option α
  | _, [] => none
  | r, v :: vs =>
    match ownerPayload r v g with
    | some p => some p
    | none => firstOwnerFrom g (r + 1) vs

/-- the payload the (unique) owner of `g` holds -/
def payloadAt (zero : α) (w : World (RankView α)) (g : Nat) : α := (firstOwnerFrom g 0 w).getD zero

/-! ### one reduction -/

theorem sum_head {β : Type} (op : β → β → β) (n : Nat) (x : List β × List β) (xs : List (List β × List β)) :
    (sum op RefType.dbl n (x :: xs)).head?
      = some (Status.ok, writeAt x.2 0 (mpiReduce op n ((x :: xs).map (·.1)))) := by
  unfold sum
  by_cases h : (x :: xs).length ≤ 1
  · have hxs : xs = [] := by
      cases xs with
      | nil => rfl
      | cons y ys => simp at h
    subst hxs
    simp [RefType.ild, mpiReduce]
  · have hxs : xs ≠ [] := by
      intro e; subst e; simp at h
    simp [hxs, RefType.mpiOk, List.mapIdx_cons]

theorem length_localBuf (zero : α) (first n r : Nat) (v : RankView α) :
    (localBuf zero first n r v).length = n := by simp [localBuf]

theorem mem_localBufsFrom (zero : α) (first n : Nat) (r : Nat) (w : World (RankView α)) (y : List (α × Nat))
    (hy : y ∈ localBufsFrom zero first n r w) : y.length = n := by
  induction w generalizing r with
  | nil => simp [localBufsFrom] at hy
  | cons v vs ih =>
    simp only [localBufsFrom, List.mem_cons] at hy
    rcases hy with rfl | hy
    · exact length_localBuf zero first n r v
    · exact ih (r + 1) hy

theorem getD_localBuf (zero : α) (first n r : Nat) (v : RankView α) (i : Nat) (hi : i < n) (d : α × Nat) :
    (localBuf zero first n r v).getD i d = slotOf zero (ownerPayload r v (first + i)) := by
  unfold localBuf
  exact getD_range_map n _ d i hi

theorem foldl_localBufs (add : α → α → α) (zero : α) (first n : Nat) (i : Nat) (hi : i < n) (d : α × Nat)
    (r : Nat) (vs : World (RankView α)) (a : α × Nat) :
    (localBufsFrom zero first n r vs).foldl (fun a y => slotAdd add a (y.getD i d)) a
      = (contribsFrom zero (first + i) r vs).foldl (slotAdd add) a := by
  induction vs generalizing r a with
  | nil => rfl
  | cons v vs ih =>
    simp only [localBufsFrom, contribsFrom, List.foldl_cons]
    rw [getD_localBuf zero first n r v i hi d]
    exact ih (r + 1) _

/-- rank 0's `xyzm[0..n)` after `ref_mpi_sum`: slot `i` is the column sum of global `first + i` -/
theorem chunkBlock_eq (add : α → α → α) (zero : α) (w : World (RankView α)) (hw : w ≠ []) (first n : Nat) :
    chunkBlock add zero w first n = (List.range n).map fun i => colSum add zero w (first + i) := by
  match w, hw with
  | v :: vs, _ =>
    unfold chunkBlock
    simp only [localBufsFrom, List.map_cons]
    rw [sum_head]
    simp only
    have hmap : ((localBuf zero first n 0 v, List.replicate n (zero, 0)) ::
          (localBufsFrom zero first n (0 + 1) vs).map fun b => (b, List.replicate n (zero, 0))).map (·.1)
        = localBuf zero first n 0 v :: localBufsFrom zero first n (0 + 1) vs := by
      simp [List.map_map, Function.comp_def]
    rw [hmap]
    have hlen : ∀ y ∈ localBuf zero first n 0 v :: localBufsFrom zero first n (0 + 1) vs, y.length = n := by
      intro y hy
      rcases List.mem_cons.mp hy with rfl | hy
      · exact length_localBuf zero first n 0 v
      · exact mem_localBufsFrom zero first n _ vs y hy
    rw [mpiReduce_col (slotAdd add) n (zero, 0) _ _ hlen]
    rw [writeAt_full _ _ (by simp)]
    apply List.map_congr_left
    intro i hi
    have hi' := List.mem_range.mp hi
    rw [foldl_localBufs add zero first n i hi' (zero, 0), getD_localBuf zero first n 0 v i hi' (zero, 0)]
    simp [colSum, contribsFrom]

/-! ### the loop -/

theorem gatherLoop_eq (add : α → α → α) (zero : α) (w : World (RankView α)) (hw : w ≠ []) (N chunk : Nat)
    (hchunk : 1 ≤ chunk) :
    ∀ (fuel written : Nat) (acc : List α) (bad : Bool), N - written < fuel →
      gatherLoop add zero w N chunk fuel written acc bad
        = some (acc ++ (List.range' written (N - written)).map (fun g => (colSum add zero w g).1),
                bad || (List.range' written (N - written)).any (fun g => (colSum add zero w g).2 != 1)) := by
  intro fuel
  induction fuel with
  | zero => intro written acc bad h; omega
  | succ fuel ih =>
    intro written acc bad h
    unfold gatherLoop
    by_cases hlt : written < N
    · simp only [hlt, if_true]
      have hn1 : 1 ≤ min chunk (N - written) := by omega
      have hn2 : min chunk (N - written) ≤ N - written := Nat.min_le_right _ _
      generalize hn : min chunk (N - written) = n at hn1 hn2
      rw [ih (written + n) _ _ (by omega), chunkBlock_eq add zero w hw]
      have hsplit : N - written = n + (N - (written + n)) := by omega
      have hr : (List.range n).map (fun i => colSum add zero w (written + i))
          = (List.range' written n).map (colSum add zero w) := by
        rw [List.range'_eq_map_range, List.map_map]; rfl
      rw [hr]
      conv => rhs; rw [hsplit, ← List.range'_append_1]
      simp only [List.map_append, List.map_map, List.append_assoc, List.any_append, List.any_map, Function.comp_def,
        Bool.or_assoc]
    · have h0 : N - written = 0 := by omega
      simp [hlt, h0]

/-- ref_gather_node for every chunk ≥ 1 on a non-empty world: the columns `0..N-1` in order -/
theorem gatherNodeChunked_eq (add : α → α → α) (zero : α) (w : World (RankView α)) (hw : w ≠ []) (N chunk : Nat)
    (hchunk : 1 ≤ chunk) :
    gatherNodeChunked add zero chunk N w
      = some ((List.range N).map (fun g => (colSum add zero w g).1),
              (List.range N).any (fun g => (colSum add zero w g).2 != 1)) := by
  unfold gatherNodeChunked
  rw [gatherLoop_eq add zero w hw N chunk hchunk (N + 1) 0 [] false (by omega)]
  simp [List.range_eq_range']

/-! ### one column -/

theorem foldl_slotAdd_snd (add : α → α → α) (l : List (α × Nat)) (a : α × Nat) :
    (l.foldl (slotAdd add) a).2 = a.2 + (l.map (·.2)).sum := by
  induction l generalizing a with
  | nil => simp
  | cons c cs ih => rw [List.foldl_cons, ih]; simp [slotAdd]; omega

theorem contribs_hits (zero : α) (g r : Nat) (w : World (RankView α)) :
    ((contribsFrom zero g r w).map (·.2)).sum = (ownerFlagsFrom g r w).count true := by
  induction w generalizing r with
  | nil => rfl
  | cons v vs ih =>
    simp only [contribsFrom, ownerFlagsFrom, List.map_cons, List.sum_cons, ih (r + 1)]
    cases ownerPayload r v g <;> simp [slotOf] ; omega

/-- the hit count of slot `g` is the number of owners of `g` -/
theorem colSum_snd (add : α → α → α) (zero : α) (w : World (RankView α)) (g : Nat) :
    (colSum add zero w g).2 = ownerCount w g := by
  unfold colSum ownerCount
  match w with
  | [] => rfl
  | v :: vs =>
    simp only [contribsFrom]
    rw [foldl_slotAdd_snd, contribs_hits]
    simp only [ownerFlagsFrom]
    cases ownerPayload 0 v g <;> simp [slotOf] ; omega

theorem foldl_no_owner (add : α → α → α) (zero : α) (hz2 : ∀ x, add x zero = x) (g r : Nat)
    (w : World (RankView α)) (h : (ownerFlagsFrom g r w).count true = 0) (a : α × Nat) :
    (contribsFrom zero g r w).foldl (slotAdd add) a = a := by
  induction w generalizing r a with
  | nil => rfl
  | cons v vs ih =>
    simp only [ownerFlagsFrom, List.count_cons] at h
    cases hp : ownerPayload r v g with
    | some p => simp [hp] at h
    | none =>
      simp only [hp, Option.isSome_none] at h
      simp only [contribsFrom, hp, slotOf, List.foldl_cons]
      have : slotAdd add a (zero, 0) = a := by simp [slotAdd, hz2]
      rw [this]
      exact ih (r + 1) (by simpa using h) a

theorem foldl_one_owner (add : α → α → α) (zero : α) (hz1 : ∀ x, add zero x = x) (hz2 : ∀ x, add x zero = x)
    (g r : Nat) (w : World (RankView α)) (h : (ownerFlagsFrom g r w).count true = 1) :
    (contribsFrom zero g r w).foldl (slotAdd add) (zero, 0) = ((firstOwnerFrom g r w).getD zero, 1) := by
  induction w generalizing r with
  | nil => simp [ownerFlagsFrom] at h
  | cons v vs ih =>
    simp only [ownerFlagsFrom, List.count_cons] at h
    cases hp : ownerPayload r v g with
    | some p =>
      simp only [hp, Option.isSome_some, beq_self_eq_true, if_true] at h
      simp only [contribsFrom, hp, slotOf, List.foldl_cons, firstOwnerFrom]
      have : slotAdd add (zero, 0) (p, 1) = (p, 1) := by simp [slotAdd, hz1]
      rw [this, foldl_no_owner add zero hz2 g (r + 1) vs (by omega)]
      rfl
    | none =>
      simp only [hp, Option.isSome_none] at h
      simp only [contribsFrom, hp, slotOf, List.foldl_cons, firstOwnerFrom]
      have : slotAdd add (zero, 0) (zero, 0) = (zero, 0) := by simp [slotAdd, hz1]
      rw [this]
      exact ih (r + 1) (by simpa using h)

/-- a column is the fold from the neutral record (needs `0 + x = x`) -/
theorem colSum_fold (add : α → α → α) (zero : α) (hz1 : ∀ x, add zero x = x) (w : World (RankView α)) (g : Nat) :
    colSum add zero w g = (contribsFrom zero g 0 w).foldl (slotAdd add) (zero, 0) := by
  unfold colSum
  cases hc : contribsFrom zero g 0 w with
  | nil => rfl
  | cons c cs =>
    simp only [List.foldl_cons]
    have : slotAdd add (zero, 0) c = c := by simp [slotAdd, hz1]
    rw [this]

/-- a global with exactly one owner: the slot holds that owner's payload, hit count 1 -/
theorem colSum_once (add : α → α → α) (zero : α) (hz1 : ∀ x, add zero x = x) (hz2 : ∀ x, add x zero = x)
    (w : World (RankView α)) (g : Nat) (h : ownerCount w g = 1) :
    colSum add zero w g = (payloadAt zero w g, 1) := by
  rw [colSum_fold add zero hz1, foldl_one_owner add zero hz1 hz2 g 0 w h]
  rfl

end Refine.Lemmas.Par
