import Refine.Lemmas.CavityChain

/-!
  `replace` keeps the signed boundary: the side faces `φ(a,n,b)` of the new tets cancel pairwise because
  `ref_cavity_verify_face_manifold` passed (every directed side of every live face has exactly one live face
  carrying the reversed side).
-/
namespace Refine.Lemmas.Cavity
open Refine.Model.Cavity

variable {G : Type} [AddCommGroup G]

/-- the three directed sides of a face -/
def sides (f : Face) : List (Int × Int) := [(f.n0, f.n1), (f.n1, f.n2), (f.n2, f.n0)]

def rev (d : Int × Int) : Int × Int := (d.2, d.1)

/-- three distinct nodes -/
def Nondeg (f : Face) : Prop := f.n0 ≠ f.n1 ∧ f.n1 ≠ f.n2 ∧ f.n2 ≠ f.n0

/-- all directed sides of a face list -/
def allSides (fs : List Face) : List (Int × Int) := fs.flatMap sides

theorem hasSide_count (f : Face) (hf : Nondeg f) (a b : Int) :
    (if f.hasSide a b then 1 else 0) = (sides f).count (a, b) := by
  obtain ⟨h01, h12, h20⟩ := hf
  simp only [Face.hasSide, sides, List.count_cons, List.count_nil, beq_iff_eq, Prod.mk.injEq,
    Bool.or_eq_true, Bool.and_eq_true]
  split_ifs <;> omega

theorem sideCount_eq_count (fs : List Face) (hnd : ∀ f ∈ fs, Nondeg f) (a b : Int) :
    sideCount fs a b = (allSides fs).count (a, b) := by
  induction fs with
  | nil => simp [sideCount, allSides]
  | cons f t ih =>
    have ih := ih (fun f hf => hnd f (List.mem_cons_of_mem _ hf))
    have hc := hasSide_count f (hnd f List.mem_cons_self) a b
    simp only [sideCount, allSides, List.flatMap_cons, List.count_append, List.filter_cons] at *
    by_cases h : f.hasSide a b = true
    · simp only [h, if_true, List.length_cons] at *; omega
    · simp only [h] at *; simp only [Bool.false_eq_true, if_false] at *; omega

theorem sideVerdict_pass {fs : List Face} {a b : Int} (h : sideVerdict fs a b = .pass) : sideCount fs a b = 1 := by
  unfold sideVerdict at h
  simp only at h
  split at h
  · cases h
  · split at h
    · cases h
    · omega

theorem verifyFacesLoop_pass (fs todo : List Face) (h : verifyFacesLoop fs todo = .pass) :
    ∀ g ∈ todo, sideCount fs g.n1 g.n0 = 1 ∧ sideCount fs g.n2 g.n1 = 1 ∧ sideCount fs g.n0 g.n2 = 1 := by
  induction todo with
  | nil => simp
  | cons g t ih =>
    unfold verifyFacesLoop at h
    cases h1 : sideVerdict fs g.n1 g.n0 <;> rw [h1] at h <;> simp only [] at h <;> try (cases h)
    cases h2 : sideVerdict fs g.n2 g.n1 <;> rw [h2] at h <;> simp only [] at h <;> try (cases h)
    cases h3 : sideVerdict fs g.n0 g.n2 <;> rw [h3] at h <;> simp only [] at h <;> try (cases h)
    intro x hx
    rcases List.mem_cons.mp hx with rfl | hx
    · exact ⟨sideVerdict_pass h1, sideVerdict_pass h2, sideVerdict_pass h3⟩
    · exact ih h x hx

/-- what a passed verification says about the list of directed sides -/
theorem verify_sides (fs : List Face) (hnd : ∀ f ∈ fs, Nondeg f) (h : verifyFacesLoop fs fs = .pass) :
    ∀ d ∈ allSides fs, (allSides fs).count (rev d) = 1 := by
  intro d hd
  simp only [allSides, List.mem_flatMap] at hd
  obtain ⟨g, hg, hdg⟩ := hd
  obtain ⟨h1, h2, h3⟩ := verifyFacesLoop_pass fs fs h g hg
  simp only [sides, List.mem_cons, List.not_mem_nil, or_false] at hdg
  rcases hdg with rfl | rfl | rfl
  · rw [← sideCount_eq_count fs hnd]; exact h1
  · rw [← sideCount_eq_count fs hnd]; exact h2
  · rw [← sideCount_eq_count fs hnd]; exact h3

/-- pairwise cancellation: an antisymmetric `ψ` sums to zero over a list of directed sides in which every
    side has exactly one reversed partner and no side is a loop -/
theorem sum_antisym_zero (D : List (Int × Int)) (ψ : Int × Int → G) (hψ : ∀ d, ψ (rev d) = - ψ d)
    (hloop : ∀ d ∈ D, d.1 ≠ d.2) (hrev : ∀ d ∈ D, D.count (rev d) = 1) : (D.map ψ).sum = 0 := by
  have hmem : ∀ d ∈ D, rev d ∈ D := fun d hd => List.count_pos_iff.mp (by rw [hrev d hd]; exact Nat.one_pos)
  have hone : ∀ d ∈ D, D.count d = 1 := by
    intro d hd
    have := hrev (rev d) (hmem d hd)
    simpa [rev] using this
  have hnd : D.Nodup := List.nodup_iff_count_le_one.mpr (fun d => by
    by_cases hd : d ∈ D
    · rw [hone d hd]
    · rw [List.count_eq_zero_of_not_mem hd]; exact Nat.zero_le _)
  rw [← List.sum_toFinset ψ hnd]
  refine Finset.sum_involution (fun d _ => rev d) ?_ ?_ ?_ ?_
  · intro d _; rw [hψ]; abel
  · intro d hd _ he
    have hd' : d ∈ D := List.mem_toFinset.mp hd
    apply hloop d hd'
    have := congrArg Prod.fst he
    simpa [rev] using this.symm
  · intro d hd; exact List.mem_toFinset.mpr (hmem d (List.mem_toFinset.mp hd))
  · intro d _; simp [rev]

/-- the side-face term of a directed side seen from the cavity node `n` -/
def sideTerm (φ : Int → Int → Int → G) (n : Int) (d : Int × Int) : G := φ d.1 n d.2

theorem Alt.rot' {φ : Int → Int → Int → G} (hφ : Alt φ) (a b c : Int) : φ c a b = φ a b c :=
  (hφ.rot c a b).symm
theorem Alt.swap12 {φ : Int → Int → Int → G} (hφ : Alt φ) (a b c : Int) : φ a c b = - φ a b c :=
  (hφ.rot b a c).trans (hφ.swap a b c)
theorem Alt.swap02 {φ : Int → Int → Int → G} (hφ : Alt φ) (a b c : Int) : φ c b a = - φ a b c :=
  (hφ.rot a c b).trans (hφ.swap12 a b c)

theorem sideTerm_rev {φ : Int → Int → Int → G} (hφ : Alt φ) (n : Int) (d : Int × Int) :
    sideTerm φ n (rev d) = - sideTerm φ n d := by
  simp only [sideTerm, rev]
  exact hφ.swap02 d.1 n d.2

theorem tetFaces_eq (a b c d : Int) :
    tetFaces ⟨a, b, c, d⟩ = [⟨b, d, c⟩, ⟨a, c, d⟩, ⟨a, d, b⟩, ⟨a, b, c⟩] := by rfl

/-- boundary of the new tet of a face (0 for an attached face) -/
def newBd (φ : Int → Int → Int → G) (n : Int) (f : Face) : G :=
  match newTetOf n f with
  | some t => faceSum φ (tetFaces t)
  | none => 0

theorem newBd_eq {φ : Int → Int → Int → G} (hφ : Alt φ) (hd : Diag φ) (n : Int) (f : Face) :
    newBd φ n f = φF φ f + ((sides f).map (sideTerm φ n)).sum := by
  have z1 : ∀ a m, φ a m m = 0 := fun a m => by rw [hφ.rot' m m a]; exact hd m a
  unfold newBd newTetOf
  split
  · next t ht =>
    split at ht
    · cases ht
    · simp only [Option.some.injEq] at ht; subst ht
      simp only [tetFaces_eq, faceSum, List.map_cons, List.map_nil, List.sum_cons, List.sum_nil, φF, sides,
        sideTerm, add_zero]
      rw [hφ.rot f.n0 f.n2 n]
      abel
  · next ht =>
    split at ht
    · next hh =>
      simp only [Face.has, Bool.or_eq_true, beq_iff_eq] at hh
      simp only [φF, sides, sideTerm, List.map_cons, List.map_nil, List.sum_cons, List.sum_nil, add_zero]
      rcases hh with (rfl | rfl) | rfl
      · -- f = (n,b,c)
        rw [hd, z1, hφ.swap f.n0 f.n1 f.n2]; abel
      · -- f = (a,n,c)
        rw [z1, hd, hφ.swap02 f.n0 f.n1 f.n2]; abel
      · -- f = (a,b,n)
        rw [z1, hd, hφ.swap12 f.n0 f.n1 f.n2]; abel
    · cases ht

theorem newTets_sum (φ : Int → Int → Int → G) (n : Int) (fs : List Face) :
    (((fs.filterMap (newTetOf n)).map fun t => faceSum φ (tetFaces t))).sum = (fs.map (newBd φ n)).sum := by
  induction fs with
  | nil => simp
  | cons f t ih =>
    simp only [List.filterMap_cons, List.map_cons, List.sum_cons]
    cases h : newTetOf n f with
    | none => simp only [newBd, h, zero_add]; exact ih
    | some x => simp only [newBd, h, List.map_cons, List.sum_cons, ih]

theorem sum_allSides (ψ : Int × Int → G) (fs : List Face) :
    ((allSides fs).map ψ).sum = (fs.map fun f => ((sides f).map ψ).sum).sum := by
  induction fs with
  | nil => simp [allSides]
  | cons f t ih =>
    simp only [allSides, List.flatMap_cons, List.map_append, List.sum_append, List.map_cons, List.sum_cons] at *
    rw [ih]

/-- core of theorem (b) on a bare face list -/
theorem replace_chain_core {φ : Int → Int → Int → G} (hφ : Alt φ) (hd : Diag φ) (n : Int) (fs : List Face)
    (hnd : ∀ f ∈ fs, Nondeg f) (hv : verifyFacesLoop fs fs = .pass) :
    (((fs.filterMap (newTetOf n)).map fun t => faceSum φ (tetFaces t))).sum = faceSum φ fs := by
  rw [newTets_sum]
  have h1 : (fs.map (newBd φ n)).sum = faceSum φ fs + ((allSides fs).map (sideTerm φ n)).sum := by
    rw [sum_allSides]
    simp only [faceSum]
    rw [← List.sum_map_add]
    congr 1
    apply List.map_congr_left
    intro f _
    exact newBd_eq hφ hd n f
  rw [h1]
  have hz : ((allSides fs).map (sideTerm φ n)).sum = 0 := by
    apply sum_antisym_zero _ _ (sideTerm_rev hφ n)
    · intro d hdm
      simp only [allSides, List.mem_flatMap] at hdm
      obtain ⟨g, hg, hdg⟩ := hdm
      obtain ⟨h01, h12, h20⟩ := hnd g hg
      simp only [sides, List.mem_cons, List.not_mem_nil, or_false] at hdg
      rcases hdg with rfl | rfl | rfl <;> assumption
    · exact verify_sides fs hnd hv
  rw [hz, add_zero]

/-- unsigned conformity of the new star: every directed side of a live face occurs exactly once and its reverse
    exactly once, i.e. the triangle `{a,b,n}` is shared by exactly two cone cells -/
theorem verify_two_sided (fs : List Face) (hnd : ∀ f ∈ fs, Nondeg f) (hv : verifyFacesLoop fs fs = .pass) :
    ∀ d ∈ allSides fs, (allSides fs).count d = 1 ∧ (allSides fs).count (rev d) = 1 := by
  intro d hd
  have h1 := verify_sides fs hnd hv d hd
  have hm : rev d ∈ allSides fs := List.count_pos_iff.mp (by rw [h1]; exact Nat.one_pos)
  have h2 := verify_sides fs hnd hv (rev d) hm
  exact ⟨by simpa [rev] using h2, h1⟩

end Refine.Lemmas.Cavity
