import Refine.Lemmas.ReconParHess
import Refine.Props.C19
import Mathlib.Tactic.NormNum

/-!
  The counter-example behind `C19Par.l2hessian_single_exchange_differs`: two tets sharing a face,
  `A = (v0,v1,v2,v3)` the unit tet and `B = (v1,v2,v3,v4)` with `v4 = (1,1,1)`, the quadratic field
  `f = 1 + 2x + 3y + 4z + (xy + yz + zx)/3` (nodal values 1, 3, 4, 5, 11).  Serial L2 Hessian at `v0`: every entry
  `1/3`.  On the 2-rank world where rank 0 owns `v0` only (and stores tet `A`), the variant WITHOUT the intermediate
  refresh gives the zero Hessian at the owned vertex `v0`.
-/
namespace Refine.ReconParCounter
open Refine Refine.Model.Geom Refine.Model.Recon Refine.Model.ReconPar Refine.ScalarReal Refine.GeomReal
open Refine.ReconReal Refine.ReconParAcc Refine.ReconParGhost Refine.ReconParMesh Refine.ReconParHess
open Refine.Model.Comm (World RefType)

def cxyz : List (V3 ℝ) := [⟨0, 0, 0⟩, ⟨1, 0, 0⟩, ⟨0, 1, 0⟩, ⟨0, 0, 1⟩, ⟨1, 1, 1⟩]
def cfld : List ℝ := [1, 3, 4, 5, 11]
def tA : Tet := ⟨0, 1, 2, 3⟩
def tB : Tet := ⟨1, 2, 3, 4⟩

theorem volA : tetVol (⟨0, 0, 0⟩ : V3 ℝ) ⟨1, 0, 0⟩ ⟨0, 1, 0⟩ ⟨0, 0, 1⟩ = 1 / 6 := by
  simp only [tetVol, add_eq, sub_eq, mul_eq, div_eq, neg_eq, ofInt_eq]; norm_num

theorem volB : tetVol (⟨1, 0, 0⟩ : V3 ℝ) ⟨0, 1, 0⟩ ⟨0, 0, 1⟩ ⟨1, 1, 1⟩ = 1 / 3 := by
  simp only [tetVol, add_eq, sub_eq, mul_eq, div_eq, neg_eq, ofInt_eq]; norm_num

theorem big : (1 : ℝ) < (10 : ℝ) ^ (20 : ℤ) := by norm_num

/-- tet `A` on ANY nodal field: weight 1/6, gradient = the three differences to the value at `v0` -/
theorem contribA (s : List ℝ)
    (h1 : |sAt s 1 - sAt s 0| < (10 : ℝ) ^ (20 : ℤ)) (h2 : |sAt s 2 - sAt s 0| < (10 : ℝ) ^ (20 : ℤ))
    (h3 : |sAt s 3 - sAt s 0| < (10 : ℝ) ^ (20 : ℤ)) :
    tetContrib cxyz s tA =
      ⟨[0, 1, 2, 3], St.ok, 1 / 6, ⟨sAt s 1 - sAt s 0, sAt s 2 - sAt s 0, sAt s 3 - sAt s 0⟩⟩ := by
  have hg := Refine.Props.C19.tetGrad_linear (⟨0, 0, 0⟩ : V3 ℝ) ⟨1, 0, 0⟩ ⟨0, 1, 0⟩ ⟨0, 0, 1⟩
    ⟨sAt s 1 - sAt s 0, sAt s 2 - sAt s 0, sAt s 3 - sAt s 0⟩ (sAt s 0) (by rw [volA]; norm_num) h1 h2 h3
  have e0 : sAt s 0 + vdot (⟨sAt s 1 - sAt s 0, sAt s 2 - sAt s 0, sAt s 3 - sAt s 0⟩ : V3 ℝ) ⟨0, 0, 0⟩ = sAt s 0 := by
    simp [vdot]
  have e1 : sAt s 0 + vdot (⟨sAt s 1 - sAt s 0, sAt s 2 - sAt s 0, sAt s 3 - sAt s 0⟩ : V3 ℝ) ⟨1, 0, 0⟩ = sAt s 1 := by
    simp [vdot]
  have e2 : sAt s 0 + vdot (⟨sAt s 1 - sAt s 0, sAt s 2 - sAt s 0, sAt s 3 - sAt s 0⟩ : V3 ℝ) ⟨0, 1, 0⟩ = sAt s 2 := by
    simp [vdot]
  have e3 : sAt s 0 + vdot (⟨sAt s 1 - sAt s 0, sAt s 2 - sAt s 0, sAt s 3 - sAt s 0⟩ : V3 ℝ) ⟨0, 0, 1⟩ = sAt s 3 := by
    simp [vdot]
  rw [e0, e1, e2, e3] at hg
  have x0 : xyzAt cxyz 0 = ⟨0, 0, 0⟩ := rfl
  have x1 : xyzAt cxyz 1 = ⟨1, 0, 0⟩ := rfl
  have x2 : xyzAt cxyz 2 = ⟨0, 1, 0⟩ := rfl
  have x3 : xyzAt cxyz 3 = ⟨0, 0, 1⟩ := rfl
  simp only [tetContrib, tA, x0, x1, x2, x3, hg, volA]

/-- tet `B` on the quadratic field: weight 1/3, gradient (5/2, 7/2, 9/2) -/
theorem contribB : tetContrib cxyz cfld tB = ⟨[1, 2, 3, 4], St.ok, 1 / 3, ⟨5 / 2, 7 / 2, 9 / 2⟩⟩ := by
  have hg := Refine.Props.C19.tetGrad_linear (⟨1, 0, 0⟩ : V3 ℝ) ⟨0, 1, 0⟩ ⟨0, 0, 1⟩ ⟨1, 1, 1⟩
    ⟨5 / 2, 7 / 2, 9 / 2⟩ (1 / 2) (by rw [volB]; norm_num) (by norm_num) (by norm_num) (by norm_num)
  have e1 : (1 / 2 : ℝ) + vdot (⟨5 / 2, 7 / 2, 9 / 2⟩ : V3 ℝ) ⟨1, 0, 0⟩ = 3 := by simp [vdot]; norm_num
  have e2 : (1 / 2 : ℝ) + vdot (⟨5 / 2, 7 / 2, 9 / 2⟩ : V3 ℝ) ⟨0, 1, 0⟩ = 4 := by simp [vdot]; norm_num
  have e3 : (1 / 2 : ℝ) + vdot (⟨5 / 2, 7 / 2, 9 / 2⟩ : V3 ℝ) ⟨0, 0, 1⟩ = 5 := by simp [vdot]; norm_num
  have e4 : (1 / 2 : ℝ) + vdot (⟨5 / 2, 7 / 2, 9 / 2⟩ : V3 ℝ) ⟨1, 1, 1⟩ = 11 := by simp [vdot]; norm_num
  rw [e1, e2, e3, e4] at hg
  have x1 : xyzAt cxyz 1 = ⟨1, 0, 0⟩ := rfl
  have x2 : xyzAt cxyz 2 = ⟨0, 1, 0⟩ := rfl
  have x3 : xyzAt cxyz 3 = ⟨0, 0, 1⟩ := rfl
  have x4 : xyzAt cxyz 4 = ⟨1, 1, 1⟩ := rfl
  have s1 : sAt cfld 1 = 3 := by simp [sAt, cfld]
  have s2 : sAt cfld 2 = 4 := by simp [sAt, cfld]
  have s3 : sAt cfld 3 = 5 := by simp [sAt, cfld]
  have s4 : sAt cfld 4 = 11 := by simp [sAt, cfld]
  simp only [tetContrib, tB, x1, x2, x3, x4, s1, s2, s3, s4, hg, volB]

/-- the projection at `v0` sees tet `A` only: for ANY field it returns the three differences -/
theorem grad_at_v0 (s : List ℝ)
    (h1 : |sAt s 1 - sAt s 0| < (10 : ℝ) ^ (20 : ℤ)) (h2 : |sAt s 2 - sAt s 0| < (10 : ℝ) ^ (20 : ℤ))
    (h3 : |sAt s 3 - sAt s 0| < (10 : ℝ) ^ (20 : ℤ)) :
    (l2gradTets cxyz s [tA, tB]).2[0]? = some ⟨sAt s 1 - sAt s 0, sAt s 2 - sAt s 0, sAt s 3 - sAt s 0⟩ := by
  unfold l2gradTets
  rw [project_getElem? _ _ 0 (by simp [cxyz])]
  have hB : mult (tetContrib cxyz s tB) 0 = 0 := by
    apply mult_of_not_touches
    simp [touches, tetContrib, tB]
  have hA : mult (tetContrib cxyz s tA) 0 = 1 := by
    rw [contribA s h1 h2 h3]; simp [mult]
  have hs : sums [tetContrib cxyz s tA, tetContrib cxyz s tB] 0 =
      ⟨1 / 6 * (sAt s 1 - sAt s 0), 1 / 6 * (sAt s 2 - sAt s 0), 1 / 6 * (sAt s 3 - sAt s 0), 1 / 6⟩ := by
    simp only [sums, S, List.map_cons, List.map_nil, List.sum_cons, List.sum_nil, hA, hB, zero_mul, add_zero, one_mul]
    rw [contribA s h1 h2 h3]
  simp only [List.map_cons, List.map_nil, hs]
  congr 1
  have := finishNode_lin_ok (g := ⟨sAt s 1 - sAt s 0, sAt s 2 - sAt s 0, sAt s 3 - sAt s 0⟩)
    (x := ⟨1 / 6 * (sAt s 1 - sAt s 0), 1 / 6 * (sAt s 2 - sAt s 0), 1 / 6 * (sAt s 3 - sAt s 0), 1 / 6⟩)
    ⟨rfl, rfl, rfl⟩ (by norm_num) h1 h2 h3
  rw [this]

/-- first projection of the quadratic field at `v1, v2, v3` (shared by `A` and `B`): (7/3, 10/3, 13/3) -/
theorem grad_at_shared (k : Nat) (hk : k = 1 ∨ k = 2 ∨ k = 3) :
    (l2gradTets cxyz cfld [tA, tB]).2[k]? = some ⟨7 / 3, 10 / 3, 13 / 3⟩ := by
  have s0 : sAt cfld 0 = 1 := by simp [sAt, cfld]
  have s1 : sAt cfld 1 = 3 := by simp [sAt, cfld]
  have s2 : sAt cfld 2 = 4 := by simp [sAt, cfld]
  have s3 : sAt cfld 3 = 5 := by simp [sAt, cfld]
  have cA := contribA cfld (by rw [s1, s0]; norm_num) (by rw [s2, s0]; norm_num) (by rw [s3, s0]; norm_num)
  rw [s0, s1, s2, s3] at cA
  unfold l2gradTets
  have hklt : k < cxyz.length := by rcases hk with rfl | rfl | rfl <;> simp [cxyz]
  rw [project_getElem? _ _ k hklt]
  have hA : mult (tetContrib cxyz cfld tA) k = 1 := by
    rw [cA]; rcases hk with rfl | rfl | rfl <;> simp [mult]
  have hB : mult (tetContrib cxyz cfld tB) k = 1 := by
    rw [contribB]; rcases hk with rfl | rfl | rfl <;> simp [mult]
  have hs : sums [tetContrib cxyz cfld tA, tetContrib cxyz cfld tB] k = ⟨7 / 6, 5 / 3, 13 / 6, 1 / 2⟩ := by
    simp only [sums, S, List.map_cons, List.map_nil, List.sum_cons, List.sum_nil, hA, hB, one_mul, add_zero]
    rw [cA, contribB]
    apply NodeAcc.ext' <;> norm_num
  simp only [List.map_cons, List.map_nil, hs]
  congr 1
  unfold finishNode
  have d1 : Scalar.divisible (7 / 6 : ℝ) (1 / 2) = true := by rw [divisible_iff']; norm_num [abs_of_pos]
  have d2 : Scalar.divisible (5 / 3 : ℝ) (1 / 2) = true := by rw [divisible_iff']; norm_num [abs_of_pos]
  have d3 : Scalar.divisible (13 / 6 : ℝ) (1 / 2) = true := by rw [divisible_iff']; norm_num [abs_of_pos]
  simp only [d1, d2, d3, Bool.and_self, if_true, div_eq]
  norm_num

theorem grad_at_0 : (l2gradTets cxyz cfld [tA, tB]).2[0]? = some ⟨2, 3, 4⟩ := by
  have s0 : sAt cfld 0 = 1 := by simp [sAt, cfld]
  have s1 : sAt cfld 1 = 3 := by simp [sAt, cfld]
  have s2 : sAt cfld 2 = 4 := by simp [sAt, cfld]
  have s3 : sAt cfld 3 = 5 := by simp [sAt, cfld]
  have := grad_at_v0 cfld (by rw [s1, s0]; norm_num) (by rw [s2, s0]; norm_num) (by rw [s3, s0]; norm_num)
  rw [s0, s1, s2, s3] at this
  rw [this]
  norm_num

/-- second projection at `v0` of a component field that is `a` at `v0` and `a + 1/3` at `v1, v2, v3` -/
theorem second_at_v0 (F : List ℝ) (a : ℝ) (h0 : sAt F 0 = a) (h1 : sAt F 1 = a + 1 / 3) (h2 : sAt F 2 = a + 1 / 3)
    (h3 : sAt F 3 = a + 1 / 3) : (l2gradTets cxyz F [tA, tB]).2[0]? = some ⟨1 / 3, 1 / 3, 1 / 3⟩ := by
  have e : ∀ b : ℝ, b = a + 1 / 3 → b - a = 1 / 3 := by intro b hb; rw [hb]; ring
  have := grad_at_v0 F (by rw [h1, h0, e _ rfl]; norm_num) (by rw [h2, h0, e _ rfl]; norm_num)
    (by rw [h3, h0, e _ rfl]; norm_num)
  rw [h0, h1, h2, h3, e _ rfl] at this
  exact this

def cCells : List Cell := [⟨CellKind.tet, [0, 1, 2, 3]⟩, ⟨CellKind.tet, [1, 2, 3, 4]⟩]

theorem allTets_cCells : allTets cCells = [tA, tB] := by decide

/-- **serial L2 Hessian of the quadratic field at `v0`: every entry 1/3** -/
theorem serial_hessian_v0 : (l2hessian false cxyz cfld cCells)[0]? = some ⟨1 / 3, 1 / 3, 1 / 3, 1 / 3, 1 / 3, 1 / 3⟩ := by
  have hG : ∀ f, l2grad false cxyz f cCells = l2gradTets cxyz f [tA, tB] := by
    intro f; simp only [l2grad, Bool.false_eq_true, if_false, allTets_cCells]
  unfold l2hessian
  rw [hessianOf_assemble]
  simp only [hG]
  set G := (l2gradTets cxyz cfld [tA, tB]).2 with hGdef
  have hlen : G.length = 5 := by rw [hGdef]; unfold l2gradTets; rw [length_project]; rfl
  have g0 := grad_at_0
  have g1 := grad_at_shared 1 (Or.inl rfl)
  have g2 := grad_at_shared 2 (Or.inr (Or.inl rfl))
  have g3 := grad_at_shared 3 (Or.inr (Or.inr rfl))
  rw [← hGdef] at g0 g1 g2 g3
  have comp : ∀ (π : V3 ℝ → ℝ) (k : Nat) (v : V3 ℝ), G[k]? = some v → sAt (G.map π) k = π v := by
    intro π k v hv
    simp [sAt, List.getD_eq_getElem?_getD, List.getElem?_map, hv]
  have hx := second_at_v0 (G.map (·.x)) 2 (comp _ 0 _ g0) (by rw [comp _ 1 _ g1]; norm_num)
    (by rw [comp _ 2 _ g2]; norm_num) (by rw [comp _ 3 _ g3]; norm_num)
  have hy := second_at_v0 (G.map (·.y)) 3 (comp _ 0 _ g0) (by rw [comp _ 1 _ g1]; norm_num)
    (by rw [comp _ 2 _ g2]; norm_num) (by rw [comp _ 3 _ g3]; norm_num)
  have hz := second_at_v0 (G.map (·.z)) 4 (comp _ 0 _ g0) (by rw [comp _ 1 _ g1]; norm_num)
    (by rw [comp _ 2 _ g2]; norm_num) (by rw [comp _ 3 _ g3]; norm_num)
  unfold assemble
  rw [List.getElem?_map, hlen, List.getElem?_range (by norm_num), Option.map_some]
  simp only [List.getD_eq_getElem?_getD, hx, hy, hz, Option.getD_some, half_eq, add_eq, mul_eq]
  norm_num

/-! ### the 2-rank world -/

/-- rank 0 owns `v0` only and stores tet `A` (three ghosts) -/
def exRank0 : Rank := ⟨[0, 1, 2, 3], [0, 1, 1, 1], [⟨CellKind.tet, [0, 1, 2, 3]⟩], []⟩
/-- rank 1 owns `v1..v4` and stores both tets in a shuffled local numbering, `v0` as a ghost -/
def exRank1 : Rank :=
  ⟨[1, 2, 3, 4, 0], [1, 1, 1, 1, 0], [⟨CellKind.tet, [0, 1, 2, 3]⟩, ⟨CellKind.tet, [4, 0, 1, 2]⟩], []⟩
def exRankEmpty : Rank := ⟨[], [], [], []⟩

def exWorld2 : World Rank := [exRank0, exRank1]
def exWorld3 : World Rank := [exRank0, exRank1, exRankEmpty]

/-- clause (ii) at a vertex, checked by evaluation -/
theorem exComplete (r : Rank) (i : Nat)
    (h : (((allTets r.cells).map (globTet r.l2g)).filter (tetTouches (gOf r.l2g i))).Perm
      ((allTets cCells).filter (tetTouches (gOf r.l2g i)))) : CompleteAt false cCells r i := by
  unfold CompleteAt
  simp only [Bool.false_eq_true, if_false]
  exact h

theorem exWorld3_ok : DistOK false 5 cCells exWorld3 := by
  refine ⟨⟨?_, ?_, ?_, ?_⟩, ?_, ?_, ?_⟩
  · intro r hr
    simp only [exWorld3, List.mem_cons, List.not_mem_nil, or_false] at hr
    rcases hr with rfl | rfl | rfl <;> decide
  · intro r hr
    simp only [exWorld3, List.mem_cons, List.not_mem_nil, or_false] at hr
    rcases hr with rfl | rfl | rfl <;> rfl
  · intro me r hr i p hp hne
    match me, hr with
    | 0, hr =>
      obtain rfl : exRank0 = r := by simpa [exWorld3] using hr
      match i, hp with
      | 0, hp => simp [exRank0] at hp; omega
      | 1, hp => obtain rfl : 1 = p := by simpa [exRank0] using hp
                 exact ⟨exRank1, 0, rfl, rfl, rfl⟩
      | 2, hp => obtain rfl : 1 = p := by simpa [exRank0] using hp
                 exact ⟨exRank1, 1, rfl, rfl, rfl⟩
      | 3, hp => obtain rfl : 1 = p := by simpa [exRank0] using hp
                 exact ⟨exRank1, 2, rfl, rfl, rfl⟩
      | k + 4, hp => simp [exRank0] at hp
    | 1, hr =>
      obtain rfl : exRank1 = r := by simpa [exWorld3] using hr
      match i, hp with
      | 0, hp => simp [exRank1] at hp; omega
      | 1, hp => simp [exRank1] at hp; omega
      | 2, hp => simp [exRank1] at hp; omega
      | 3, hp => simp [exRank1] at hp; omega
      | 4, hp => obtain rfl : 0 = p := by simpa [exRank1] using hp
                 exact ⟨exRank0, 0, rfl, rfl, rfl⟩
      | k + 5, hp => simp [exRank1] at hp
    | 2, hr =>
      obtain rfl : exRankEmpty = r := by simpa [exWorld3] using hr
      simp [exRankEmpty] at hp
    | k + 3, hr => simp [exWorld3] at hr
  · decide
  · intro r hr g hg
    simp only [exWorld3, List.mem_cons, List.not_mem_nil, or_false] at hr
    rcases hr with rfl | rfl | rfl <;> simp [exRank0, exRank1, exRankEmpty] at hg <;> omega
  · intro r hr
    simp only [exWorld3, List.mem_cons, List.not_mem_nil, or_false] at hr
    rcases hr with rfl | rfl | rfl <;> (simp only [Bool.false_eq_true, if_false]; unfold TetsWF; decide)
  · intro me r hr i hp
    match me, hr with
    | 0, hr =>
      obtain rfl : exRank0 = r := by simpa [exWorld3] using hr
      match i, hp with
      | 0, _ => exact exComplete _ _ (by decide)
      | 1, hp => simp [exRank0] at hp
      | 2, hp => simp [exRank0] at hp
      | 3, hp => simp [exRank0] at hp
      | k + 4, hp => simp [exRank0] at hp
    | 1, hr =>
      obtain rfl : exRank1 = r := by simpa [exWorld3] using hr
      match i, hp with
      | 0, _ => exact exComplete _ _ (by decide)
      | 1, _ => exact exComplete _ _ (by decide)
      | 2, _ => exact exComplete _ _ (by decide)
      | 3, _ => exact exComplete _ _ (by decide)
      | 4, hp => simp [exRank1] at hp
      | k + 5, hp => simp [exRank1] at hp
    | 2, hr =>
      obtain rfl : exRankEmpty = r := by simpa [exWorld3] using hr
      simp [exRankEmpty] at hp
    | k + 3, hr => simp [exWorld3] at hr

/-- dropping the empty rank keeps the invariant -/
theorem exWorld2_ok : DistOK false 5 cCells exWorld2 := by
  have h3 := exWorld3_ok
  have hsub : ∀ (me : Nat) (r : Rank), exWorld2[me]? = some r → exWorld3[me]? = some r := by
    intro me r h
    match me, h with
    | 0, h => exact h
    | 1, h => exact h
    | k + 2, h => simp [exWorld2] at h
  have hmem : ∀ r ∈ exWorld2, r ∈ exWorld3 := by
    intro r hr
    simp only [exWorld2, List.mem_cons, List.not_mem_nil, or_false] at hr
    rcases hr with rfl | rfl <;> simp [exWorld3]
  refine ⟨⟨fun r hr => h3.nodup r (hmem r hr), fun r hr => h3.partLen r (hmem r hr), ?_, by decide⟩,
    fun r hr => h3.inRange r (hmem r hr), fun r hr => h3.wf r (hmem r hr),
    fun me r hr => h3.complete me r (hsub me r hr)⟩
  intro me r hr i p hp hne
  obtain ⟨ro, j, hro, hj, hpj⟩ := h3.owner me r (hsub me r hr) i p hp hne
  refine ⟨ro, j, ?_, hj, hpj⟩
  -- the owner is rank 0 or 1 (the empty rank owns nothing)
  match p, hro with
  | 0, hro => exact hro
  | 1, hro => exact hro
  | 2, hro =>
    obtain rfl : exRankEmpty = ro := by simpa [exWorld3] using hro
    simp [exRankEmpty] at hpj
  | k + 3, hro => simp [exWorld3] at hro

/-- rank 0's local mesh is the single unit tet with the values 1, 3, 4, 5: a linear field there, so the projected
    gradient is the constant (2,3,4) at all four stored vertices and the twice-projected Hessian is ZERO -/
theorem local_hessian_rank0 :
    hessianOf (fun f => l2gradTets (exRank0.xyz cxyz) f [⟨0, 1, 2, 3⟩]) (exRank0.restrict 0 cfld) =
      List.replicate 4 ⟨0, 0, 0, 0, 0, 0⟩ := by
  have hx : exRank0.xyz cxyz = [⟨0, 0, 0⟩, ⟨1, 0, 0⟩, ⟨0, 1, 0⟩, ⟨0, 0, 1⟩] := rfl
  have hs : exRank0.restrict (0 : ℝ) cfld = [1, 3, 4, 5] := by
    simp [Rank.restrict, exRank0, cfld]
  rw [hx, hs]
  set xyz : List (V3 ℝ) := [⟨0, 0, 0⟩, ⟨1, 0, 0⟩, ⟨0, 1, 0⟩, ⟨0, 0, 1⟩] with hxyz
  set s : List ℝ := [1, 3, 4, 5] with hsdef
  have hlin : ∀ t ∈ [(⟨0, 1, 2, 3⟩ : Tet)], LinearOnTet xyz s 1 ⟨2, 3, 4⟩ t := by
    intro t ht
    simp only [List.mem_singleton] at ht
    subst ht
    simp only [LinearOnTet, sAt, xyzAt, xyz, s, vdot, List.getD_eq_getElem?_getD]
    norm_num
  have hok : (tetContrib xyz s ⟨0, 1, 2, 3⟩).st = St.ok ∧ 0 < (tetContrib xyz s ⟨0, 1, 2, 3⟩).w := by
    have := Refine.Props.C19.tetGrad_linear (⟨0, 0, 0⟩ : V3 ℝ) ⟨1, 0, 0⟩ ⟨0, 1, 0⟩ ⟨0, 0, 1⟩ ⟨2, 3, 4⟩ 1
      (by rw [volA]; norm_num) (by norm_num) (by norm_num) (by norm_num)
    constructor
    · simp only [tetContrib, sAt, xyzAt, xyz, s, List.getD_eq_getElem?_getD]
      norm_num [vdot] at this ⊢
      rw [this]
    · simp only [tetContrib, xyzAt, xyz, List.getD_eq_getElem?_getD]
      norm_num
      rw [volA]; norm_num
  have hfirst : ∀ i, i < xyz.length → (l2gradTets xyz s [⟨0, 1, 2, 3⟩]).2[i]? = some ⟨2, 3, 4⟩ := by
    intro i hi
    apply Refine.Props.C19.l2gradTets_linear_pos xyz s _ 1 ⟨2, 3, 4⟩ hlin
    · intro t ht _
      simp only [List.mem_singleton] at ht
      subst ht
      exact hok.2
    · norm_num
    · norm_num
    · norm_num
    · exact hi
    · refine ⟨⟨0, 1, 2, 3⟩, List.mem_singleton.mpr rfl, hok.1, ?_⟩
      simp only [xyz, List.length] at hi
      simp only [List.mem_cons, List.not_mem_nil, or_false]
      omega
  have := Refine.Props.C19.l2hessian_linear xyz s [⟨0, 1, 2, 3⟩] ⟨2, 3, 4⟩
    (by intro t ht; simp only [List.mem_singleton] at ht; subst ht; simp [xyz]) hfirst
  simpa [xyz] using this

theorem l2gradLocal_rank0 (f : List ℝ) :
    l2gradLocal false cxyz exRank0 f = l2gradTets (exRank0.xyz cxyz) f [⟨0, 1, 2, 3⟩] := by
  have : allTets exRank0.cells = [⟨0, 1, 2, 3⟩] := by decide
  simp only [l2gradLocal, l2grad, Bool.false_eq_true, if_false, this]

/-- **the slip, evaluated**: with the four projections local and a single refresh of the assembled Hessian, the owned
    vertex `v0` of rank 0 (all its neighbours are owned by rank 1) ends with the ZERO Hessian -/
theorem single_exchange_v0 :
    ∃ H', l2hessianSingleExchange false cxyz exWorld2 (exWorld2.map fun r => r.restrict 0 cfld) = some H' ∧
      (H'.getD 0 []).getD 0 z6 = z6 := by
  unfold l2hessianSingleExchange
  simp only
  set s : World (List ℝ) := exWorld2.map fun r => r.restrict 0 cfld with hs
  set G : World (List ℝ) → World (List (V3 ℝ)) :=
    fun f => (List.zipWith (l2gradLocal false cxyz) exWorld2 f).map (·.2) with hGdef
  set A := assembleW (G s) (G ((G s).map (·.map (·.x)))) (G ((G s).map (·.map (·.y)))) (G ((G s).map (·.map (·.z))))
    with hA
  -- shape of the local results
  have hG2 : ∀ f0 f1 : List ℝ, G [f0, f1] =
      [(l2gradLocal false cxyz exRank0 f0).2, (l2gradLocal false cxyz exRank1 f1).2] := by
    intro f0 f1; rfl
  have hs2 : s = [exRank0.restrict 0 cfld, exRank1.restrict 0 cfld] := rfl
  have hA0 : ∃ a0 a1, A = [a0, a1] ∧ a0 = List.replicate 4 ⟨0, 0, 0, 0, 0, 0⟩ ∧ a1.length = 5 := by
    rw [hA, hs2, hG2]
    simp only [List.map_cons, List.map_nil, hG2]
    unfold assembleW
    simp only [List.zip_cons_cons, List.zip_nil_right, List.zipWith_cons_cons, List.zipWith_nil_right]
    refine ⟨_, _, rfl, ?_, ?_⟩
    · have := local_hessian_rank0
      rw [hessianOf_assemble] at this
      simp only [l2gradLocal_rank0]
      exact this
    · rw [assemble_length, l2gradLocal_length]; rfl
  obtain ⟨a0, a1, hAeq, ha0, ha1⟩ := hA0
  subst ha0
  have hw := exWorld2_ok.toWorldOK
  set rows : World (List (List ℝ)) := A.map (·.map m6row) with hrowsdef
  have hrows : RowsOK 6 exWorld2 rows := by
    refine ⟨by rw [hrowsdef, hAeq]; rfl, ?_⟩
    intro me r rw hr hrw
    rw [hrowsdef, hAeq] at hrw
    match me, hr, hrw with
    | 0, hr, hrw =>
      obtain rfl : exRank0 = r := by simpa [exWorld2] using hr
      obtain rfl := Option.some.inj hrw
      refine ⟨by simp [exRank0], ?_⟩
      intro x hx
      obtain ⟨v, _, rfl⟩ := List.mem_map.mp hx
      rfl
    | 1, hr, hrw =>
      obtain rfl : exRank1 = r := by simpa [exWorld2] using hr
      obtain rfl := Option.some.inj hrw
      refine ⟨by rw [List.length_map, ha1]; rfl, ?_⟩
      intro x hx
      obtain ⟨v, _, rfl⟩ := List.mem_map.mp hx
      rfl
    | k + 2, hr, _ => simp [exWorld2] at hr
  obtain ⟨out, hout, houtlen, hspec⟩ :=
    @ghostRows_spec ℝ Scalar.instInhabited RefType.dbl rfl 6 (le_refl 6) exWorld2 rows hw hrows
  refine ⟨out.map (·.map rowM6), ?_, ?_⟩
  · unfold ghostM6
    rw [← hrowsdef, hout]; rfl
  · have hr0 : exWorld2[0]? = some exRank0 := rfl
    have hrw0 : rows[0]? = some ((List.replicate 4 (⟨0, 0, 0, 0, 0, 0⟩ : M6 ℝ)).map m6row) := by
      rw [hrowsdef, hAeq]; rfl
    obtain ⟨o, ho, holen, hval⟩ := hspec 0 exRank0 _ hr0 hrw0
    have h00 := (hval 0 0 rfl).1 rfl
    have hol : 0 < o.length := by rw [holen]; simp [exRank0]
    rw [getElem?_of_lt _ hol] at h00
    simp only [List.map_replicate, List.getElem?_replicate] at h00
    have ho0 : o[0] = m6row ⟨0, 0, 0, 0, 0, 0⟩ := by
      have := Option.some.inj h00
      simpa using this
    simp only [List.getD_eq_getElem?_getD, List.getElem?_map, ho, Option.map_some, Option.getD_some,
      getElem?_of_lt _ hol, ho0]
    simp [rowM6, m6row, z6]

end Refine.ReconParCounter
