import Refine.Lemmas.ReconParHess
import Refine.Lemmas.ReconParExtrap

/-!
  `ref_recon_signed_hessian` (L2 branch) on a distributed mesh: the boundary replacement never changes a vertex its
  owner does not flag, so away from the boundary-extrapolation layer every stored copy holds the serial L2 Hessian.
-/
namespace Refine.ReconParSigned
open Refine Refine.Model.Geom Refine.Model.Recon Refine.Model.ReconPar Refine.ScalarReal Refine.GeomReal
open Refine.ReconParGhost Refine.ReconParMesh Refine.ReconParHess Refine.ReconParExtrap
open Refine.Model.Comm (World RefType)

theorem replaceMask_shape (twod : Bool) (ldim : Nat) (r : Rank) :
    (replaceMask twod ldim r).length = r.l2g.length ∧ ∀ x ∈ replaceMask twod ldim r, x.length = ldim := by
  unfold replaceMask skipOrphan maskRank
  refine ⟨by simp [Rank.n], ?_⟩
  intro x hx
  obtain ⟨k, hk, rfl⟩ := List.getElem_of_mem hx
  simp

theorem m6row_length (m : M6 ℝ) : (m6row m).length = 6 := rfl

/-- **the interior of `ref_recon_signed_hessian(.., REF_RECON_L2PROJECTION)` is partition independent**: the call
    completes and every stored copy (owned or ghost) of every vertex that its owner does not flag for replacement
    holds the serial L2 Hessian of the global mesh -/
theorem signedHessianL2Par_interior (twod : Bool) (gxyz : List (V3 ℝ)) (gs : List ℝ) (gcells : List Cell)
    (w : World Rank) (hw : DistOK twod gxyz.length gcells w) (s : World (List ℝ)) (hs : Consistent 0 w s gs) :
    ∃ out, signedHessianL2Par twod gxyz w s = some out ∧
      ∀ (me : Nat) (r : Rank) (i p : Nat), w[me]? = some r → r.part[i]? = some p →
        Keep w (w.map (replaceMask twod 6)) 6 me i →
        (out.getD me []).getD i z6 = (l2hessian twod gxyz gs gcells).getD (gOf r.l2g i) z6 := by
  have hH := l2hessianPar_eq_serial twod gxyz gs gcells w hw s hs
  set SH := l2hessian twod gxyz gs gcells with hSH
  set H : World (List (M6 ℝ)) := w.map fun r => r.restrict z6 SH with hHdef
  set recon0 : World (List (List ℝ)) := H.map (·.map m6row) with hrecon0
  set replace0 : World (List (List Bool)) := w.map (replaceMask twod 6) with hreplace0
  have hR0 : RowsOK 6 w recon0 := by
    refine ⟨by simp [hrecon0, hHdef], ?_⟩
    intro me r rw hr hrw
    simp only [hrecon0, hHdef, List.getElem?_map, hr, Option.map_some, Option.some.injEq] at hrw
    subst hrw
    refine ⟨by rw [List.length_map, restrict_length], ?_⟩
    intro x hx
    obtain ⟨m, _, rfl⟩ := List.mem_map.mp hx
    rfl
  have hP0 : RowsOK 6 w replace0 := by
    refine ⟨by simp [hreplace0], ?_⟩
    intro me r rw hr hrw
    simp only [hreplace0, List.getElem?_map, hr, Option.map_some, Option.some.injEq] at hrw
    subst hrw
    exact replaceMask_shape twod 6 r
  obtain ⟨R', P', hex, hgood⟩ :=
    extrapolateZeroth_keeps (α := ℝ) w hw.toWorldOK 6 (le_refl 6) recon0 replace0 hR0 hP0
  refine ⟨R'.map (·.map rowM6), ?_, ?_⟩
  · unfold signedHessianL2Par
    rw [hH]
    simp only [← hHdef, ← hrecon0, ← hreplace0, hex, Option.map_some]
  · intro me r i p hr hp hk
    have hrm := List.mem_of_getElem? hr
    have hi : i < r.l2g.length := by
      by_contra hcon
      rw [List.getElem?_eq_none (by rw [hw.partLen r hrm]; omega)] at hp
      exact absurd hp (by simp)
    -- the owner's row at entry is the serial Hessian at the vertex
    have rowAt : ∀ (k : Nat) (rk : Rank) (j : Nat), w[k]? = some rk → j < rk.l2g.length →
        rowOf recon0 k j = m6row (SH.getD (gOf rk.l2g j) z6) := by
      intro k rk j hrk hj
      simp only [rowOf, hrecon0, hHdef, List.getD_eq_getElem?_getD, List.getElem?_map, hrk, Option.map_some,
        Option.getD_some, restrict_getElem? rk z6 SH j hj]
    have hown : OwnerRowIs w recon0 me i (m6row (SH.getD (gOf r.l2g i) z6)) := by
      intro r' p' hr' hp'
      rw [hr] at hr'
      obtain rfl := Option.some.inj hr'
      refine ⟨fun _ => rowAt me r i hr hi, ?_⟩
      intro _ ro j hro hj _
      have hjl : j < ro.l2g.length := by
        by_contra hcon
        rw [List.getElem?_eq_none (by omega), getElem?_of_lt _ hi] at hj
        exact absurd hj (by simp)
      rw [rowAt p' ro j hro hjl]
      have : gOf ro.l2g j = gOf r.l2g i := by
        unfold gOf
        rw [List.getD_eq_getElem?_getD, List.getD_eq_getElem?_getD, hj]
      rw [this]
    obtain ⟨_, g2⟩ := hgood.2.2 me r i p _ hr hp hk hown
    -- read the result
    have hme : me < R'.length := by
      rw [hgood.1.len]
      by_contra hcon
      rw [List.getElem?_eq_none (by omega)] at hr
      exact absurd hr (by simp)
    have hrow := getElem?_of_lt R' hme
    obtain ⟨hlen, _⟩ := hgood.1.each me r _ hr hrow
    have hil : i < R'[me].length := by rw [hlen]; exact hi
    have : rowOf R' me i = R'[me][i] := rowOf_eq hrow (getElem?_of_lt _ hil)
    rw [this] at g2
    simp only [List.getD_eq_getElem?_getD, List.getElem?_map, hrow, Option.map_some, Option.getD_some,
      getElem?_of_lt _ hil, g2]
    rw [← List.getD_eq_getElem?_getD, Refine.ReconParMesh.rowM6_m6row]

end Refine.ReconParSigned
