import Refine.Lemmas.CodecBodies

/-! `decodeMeshbWith cfg (encodeMeshb v m) = .ok m` for well-formed `m` (C08) -/
namespace Refine.Lemmas.Codec
open Refine.Model.Meshb Refine.Gen

/-- What `roundtrip_meshb` assumes of a mesh: non-empty, counts and ids are 32-bit, every cell has its
    `size_per` entries with vertex indices that `ref_adj_add` accepts, a 2-D mesh has z = 0 (the file
    does not store z), geometry records are grouped by type with distinct (node,type,id), type-0 records
    carry no parameters (the file stores none), and the file size fits the position field of version `v`. -/
structure WellFormed (cfg : Cfg) (v : Nat) (m : MeshFile) : Prop where
  version : v = 2 ∨ v = 3 ∨ v = 4
  nodes_pos : m.nodes ≠ []
  nodes_lt : m.nodes.length < 2 ^ 31
  twod_z : m.twod = true → ∀ p ∈ m.nodes, p.z = 0
  cells_len : m.cells.length = 16
  cells_lt : ∀ g ∈ m.cells, g.length < 2 ^ 31
  cell_ok : ∀ p ∈ cellInfos.zip m.cells, ∀ c ∈ p.2, CellOK cfg p.1 m.nodes.length c
  geoms_sorted : m.geoms = geomsOf 0 m.geoms ++ (geomsOf 1 m.geoms ++ geomsOf 2 m.geoms)
  geom_ok : ∀ g ∈ m.geoms, GeomOK cfg m.nodes.length g
  geoms_nodup : (m.geoms.map geomKey).Nodup
  geoms_lt : m.geoms.length < 2 ^ 31
  cad_lt : m.cad.length < 2 ^ 31
  cad_cap : m.cad.length ≤ cfg.allocCap
  size_fits : posFits v ((encodeMeshb v m).length : Int)

theorem length_flatMap_const {α : Type} (l : List α) (f : α → Bytes) (k : Nat)
    (h : ∀ x ∈ l, (f x).length = k) : (l.flatMap f).length = l.length * k := by
  induction l with
  | nil => simp
  | cons a l ih =>
    simp only [List.flatMap_cons, List.length_append, List.length_cons]
    rw [h a (List.mem_cons_self ..), ih (fun x hx => h x (List.mem_cons_of_mem _ hx))]
    ring

theorem mem_cellInfos_of_zip {p : CellInfo × List (List Int)} {gs : List (List (List Int))}
    (h : p ∈ cellInfos.zip gs) : p.1 ∈ cellInfos := (List.of_mem_zip h).1

theorem encCell_length {cfg : Cfg} {v : Nat} {ci : CellInfo} {nnode : Int} {c : List Int}
    (hf : ci.isPyr = true → ci.nodePer = 5 ∧ ci.lastId = false) (hc : CellOK cfg ci nnode c) :
    (encCell v ci c).length = intSize v * (ci.nodePer + 1) := by
  rw [encCell_eq, length_flatMap_const _ _ (intSize v) (fun x _ => encInt_length v x),
    (recordNodes_cellRecord hf hc).2.1]
  ring

theorem encGeom_length {v t : Nat} (ht : t ≤ 2) (g : GeomRec) :
    (encGeom v t g).length = intSize v * 2 + 8 * t + (if 0 < t then 8 else 0) := by
  rcases (by omega : t = 0 ∨ t = 1 ∨ t = 2) with rfl | rfl | rfl <;>
    simp [encGeom, encInt_length] <;> ring

theorem master_mem {v : Nat} {m : MeshFile} {e : Bool × Sec} (h : e ∈ master v m) :
    e = (true, secDim v m) ∨ e = (!m.nodes.isEmpty, secVerts v m) ∨
    (∃ p ∈ cellInfos.zip m.cells, e = (!p.2.isEmpty, secCells v p.1 p.2)) ∨
    (∃ t, t ≤ 2 ∧ e = (!(geomsOf t m.geoms).isEmpty, secGeom v t (geomsOf t m.geoms))) ∨
    e = (!m.cad.isEmpty, secCad v m.cad) := by
  unfold master at h
  rcases List.mem_append.1 h with h | h
  · rcases List.mem_append.1 h with h | h
    · rcases List.mem_append.1 h with h | h
      · simp only [List.mem_cons, List.not_mem_nil, or_false] at h
        rcases h with rfl | rfl
        · exact .inl rfl
        · exact .inr (.inl rfl)
      · obtain ⟨p, hp, rfl⟩ := List.mem_map.1 h
        exact .inr (.inr (.inl ⟨p, hp, rfl⟩))
    · obtain ⟨t, ht, rfl⟩ := List.mem_map.1 h
      refine .inr (.inr (.inr (.inl ⟨t, ?_, rfl⟩)))
      simp only [List.mem_cons, List.not_mem_nil, or_false] at ht
      rcases ht with rfl | rfl | rfl <;> omega
  · simp only [List.mem_cons, List.not_mem_nil, or_false] at h
    exact .inr (.inr (.inr (.inr h)))

theorem cellInfos_kw_lt : ∀ ci ∈ cellInfos, ci.kw < 156 := by decide

theorem master_exact {cfg : Cfg} {v : Nat} {m : MeshFile} (wf : WellFormed cfg v m) :
    ∀ e ∈ master v m, Sec.exact v e.2 ∧ e.2.kw < 156 := by
  intro e he
  rcases master_mem he with rfl | rfl | ⟨p, hp, rfl⟩ | ⟨t, ht, rfl⟩ | rfl
  · simp [Sec.exact, secDim, le32_length]
  · refine ⟨?_, by simp [secVerts]⟩
    simp only [Sec.exact, secVerts, List.length_append, encInt_length]
    rw [length_flatMap_const _ _ (dim m * 8 + intSize v)]
    · unfold headerSize; ring
    · intro p _
      unfold encVertex dim
      cases m.twod <;> simp [encInt_length] <;> ring
  · refine ⟨?_, cellInfos_kw_lt _ (mem_cellInfos_of_zip hp)⟩
    simp only [Sec.exact, secCells, List.length_append, encInt_length]
    rw [length_flatMap_const _ _ (intSize v * (p.1.nodePer + 1))
      (fun c hc => encCell_length (cellInfos_facts _ (mem_cellInfos_of_zip hp)) (wf.cell_ok p hp c hc))]
    unfold headerSize; ring
  · refine ⟨?_, by simp [secGeom]; omega⟩
    simp only [Sec.exact, secGeom, List.length_append, encInt_length]
    rw [length_flatMap_const _ _ _ (fun g _ => encGeom_length ht g)]
    unfold headerSize; ring
  · refine ⟨?_, by simp [secCad]⟩
    simp only [Sec.exact, secCad, List.length_append, encInt_length]
    unfold headerSize; ring

theorem sections_mem {v : Nat} {m : MeshFile} {s : Sec} :
    s ∈ sections v m ↔ (true, s) ∈ master v m := by
  unfold sections
  simp only [List.mem_map, List.mem_filter]
  constructor
  · rintro ⟨e, ⟨he, hb⟩, rfl⟩
    obtain ⟨b, s'⟩ := e
    simp only at hb; subst hb; exact he
  · intro h; exact ⟨(true, s), ⟨h, rfl⟩, rfl⟩

theorem master_kws {cfg : Cfg} {v : Nat} {m : MeshFile} (wf : WellFormed cfg v m) :
    (master v m).map (fun e => e.2.kw) = [3, 4] ++ cellInfos.map CellInfo.kw ++ [40, 41, 42] ++ [126] := by
  unfold master
  simp only [List.map_append, List.map_cons, List.map_nil, List.map_map]
  congr 2
  · congr 1
    have : ((fun e : Bool × Sec => e.2.kw) ∘ fun p : CellInfo × List (List Int) => (!p.2.isEmpty, secCells v p.1 p.2)) =
        (fun ci : CellInfo => ci.kw) ∘ Prod.fst := by
      funext p; simp [secCells]
    rw [this, ← List.map_map, List.map_fst_zip]
    rw [wf.cells_len]; decide

theorem master_kws_nodup : ([3, 4] ++ cellInfos.map CellInfo.kw ++ [40, 41, 42] ++ [126] ++ [54]).Nodup := by decide

theorem sections_kws_nodup {cfg : Cfg} {v : Nat} {m : MeshFile} (wf : WellFormed cfg v m) :
    ((sections v m).map Sec.kw ++ [54]).Nodup := by
  have hsub : List.Sublist ((sections v m).map Sec.kw) ((master v m).map (fun e => e.2.kw)) := by
    unfold sections
    rw [List.map_map]
    exact (List.filter_sublist).map _
  have := master_kws_nodup
  rw [← master_kws wf] at this
  exact List.Nodup.sublist (List.Sublist.append hsub (List.Sublist.refl _)) this

theorem absent_kw {cfg : Cfg} {v : Nat} {m : MeshFile} (wf : WellFormed cfg v m) {e : Bool × Sec}
    (he : e ∈ master v m) (hb : e.1 = false) : e.2.kw ∉ (sections v m).map Sec.kw ++ [54] := by
  have hnd := master_kws_nodup
  rw [← master_kws wf] at hnd
  intro hmem
  rcases List.mem_append.1 hmem with hm | hm
  · obtain ⟨s, hs, hk⟩ := List.mem_map.1 hm
    have hs' := sections_mem.1 hs
    have hnd' := (List.nodup_append.1 hnd).1
    have := List.inj_on_of_nodup_map hnd' hs' he (by simpa using hk)
    rw [← this] at hb; simp at hb
  · simp only [List.mem_singleton] at hm
    have := (List.nodup_append.1 hnd).2.2 (e.2.kw) (List.mem_map.2 ⟨e, he, rfl⟩) 54 (by simp)
    exact this hm

theorem length_lt_layout (v pos : Nat) (ss : List Sec) : ss.length < (layout v pos ss).length := by
  rw [layout_length]
  induction ss with
  | nil => simp
  | cons s ss ih => simp only [List.map_cons, List.sum_cons, List.length_cons]; omega


/-! ### the file as a whole -/

theorem encodeMeshb_eq (v : Nat) (m : MeshFile) :
    encodeMeshb v m = (le32 1 ++ le32 v) ++ layout v (le32 1 ++ le32 v).length (sections v m) := by
  simp [encodeMeshb, le32_length]

/-- header and jumps on any file `code, version, layout` (shared by .meshb and .solb) -/
theorem layout_facts {cfg : Cfg} {v : Nat} {ss : List Sec} (hver : v = 2 ∨ v = 3 ∨ v = 4)
    (hss : ∀ s ∈ ss, Sec.exact v s ∧ s.kw < 156) (hnd : (ss.map Sec.kw ++ [54]).Nodup)
    (hfit : posFits v ((le32 1 ++ le32 v ++ layout v 8 ss).length : Int)) :
    ∃ kp, header cfg (le32 1 ++ le32 v ++ layout v 8 ss) = .ok (v, kp) ∧
      (∀ s ∈ ss, ∃ rest,
        jump v (le32 1 ++ le32 v ++ layout v 8 ss) kp s.kw =
          .ok (some ((((le32 1 ++ le32 v ++ layout v 8 ss).length - rest.length : Nat) : Int), s.body ++ rest)) ∧
        rest.length + s.body.length ≤ (le32 1 ++ le32 v ++ layout v 8 ss).length) ∧
      (∀ k, k ∉ ss.map Sec.kw ++ [54] → jump v (le32 1 ++ le32 v ++ layout v 8 ss) kp k = .ok none) := by
  have hv : v < 2 ^ 31 := by rcases hver with rfl | rfl | rfl <;> norm_num
  have h8 : (le32 1 ++ le32 v).length = 8 := by simp [le32_length]
  have hfit' : posFits v (((le32 1 ++ le32 v).length +
      (layout v (le32 1 ++ le32 v).length ss).length : Nat) : Int) := by
    rw [h8]; rw [List.length_append, h8] at hfit; exact hfit
  have hA : 0 < (le32 1 ++ le32 v).length := by omega
  have hfuel : ss.length < (le32 1 ++ le32 v ++ layout v 8 ss).length + 1 := by
    rw [List.length_append]
    have := length_lt_layout v 8 ss
    omega
  obtain ⟨kp, hscan, hnone, hall⟩ := jump_present (cfg := cfg) hA hfuel hss hfit' hnd
  rw [h8] at hscan hall
  refine ⟨kp, ?_, hall, ?_⟩
  · unfold header
    rw [List.append_assoc, rdI32_le32 (by norm_num)]
    dsimp only
    rw [if_neg (by simp), rdI32_le32 hv]
    dsimp only
    rw [if_neg (by rcases hver with rfl | rfl | rfl <;> simp)]
    rw [← List.append_assoc]
    simp only [Int.toNat_natCast]
    have : ((8 : Nat) : Int) = 8 := rfl
    rw [this] at hscan
    rw [hscan]
  · intro k hk
    unfold jump
    rw [hnone k hk]

/-- header and all jumps on an encoder output -/
theorem file_facts {cfg : Cfg} {v : Nat} {m : MeshFile} (wf : WellFormed cfg v m) :
    ∃ kp, header cfg (encodeMeshb v m) = .ok (v, kp) ∧
      (∀ e ∈ master v m, e.1 = true → ∃ rest,
        jump v (encodeMeshb v m) kp e.2.kw =
          .ok (some ((((encodeMeshb v m).length - rest.length : Nat) : Int), e.2.body ++ rest)) ∧
        rest.length + e.2.body.length ≤ (encodeMeshb v m).length) ∧
      (∀ e ∈ master v m, e.1 = false → jump v (encodeMeshb v m) kp e.2.kw = .ok none) := by
  have hss : ∀ s ∈ sections v m, Sec.exact v s ∧ s.kw < 156 :=
    fun s hs => master_exact wf _ (sections_mem.1 hs)
  obtain ⟨kp, hh, hall, hnone⟩ := layout_facts (cfg := cfg) wf.version hss (sections_kws_nodup wf) wf.size_fits
  refine ⟨kp, hh, ?_, ?_⟩
  · intro e he hb
    obtain ⟨b, s⟩ := e
    simp only at hb; subst hb
    exact hall s (sections_mem.2 he)
  · intro e he hb
    exact hnone _ (absent_kw wf he hb)

theorem kwSection_absent {α : Type} {v : Nat} {bs : Bytes} {kp : KeyPos} {kw : Nat} {dflt : α}
    {body : Int → P α} (h : jump v bs kp kw = .ok none) : kwSection v bs kp kw dflt body = .ok dflt := by
  unfold kwSection; rw [h]

theorem tell_sub {bs rest : Bytes} (h : rest.length ≤ bs.length) :
    tell bs rest = ((bs.length - rest.length : Nat) : Int) := by
  unfold tell; omega

theorem kwSection_present {α : Type} {v : Nat} {bs : Bytes} {kp : KeyPos} {kw : Nat} {dflt a : α}
    {body : Int → P α} {n : Int} {payload rest : Bytes} (hn : int32 n) (hr : rest.length ≤ bs.length)
    (hj : jump v bs kp kw = .ok (some (((bs.length - rest.length : Nat) : Int), encInt v n ++ payload ++ rest)))
    (hb : body n (payload ++ rest) = .ok (a, rest)) : kwSection v bs kp kw dflt body = .ok a := by
  unfold kwSection
  rw [hj]
  dsimp only
  rw [List.append_assoc, rdInt_encInt v hn]
  dsimp only
  rw [hb]
  dsimp only
  rw [if_pos (tell_sub hr).symm]

theorem rdCellGroups_of_zip {cfg : Cfg} {v : Nat} {bs : Bytes} {kp : KeyPos} {nnode : Int} :
    ∀ (cis : List CellInfo) (gs : List (List (List Int))), cis.length = gs.length →
      (∀ p ∈ cis.zip gs, kwSection v bs kp p.1.kw [] (fun n => rdCells cfg v p.1 nnode n.toNat) = .ok p.2) →
      rdCellGroups cfg v bs kp nnode cis = .ok gs := by
  intro cis
  induction cis with
  | nil => intro gs hl _; cases gs <;> simp_all [rdCellGroups]
  | cons ci cis ih =>
    intro gs hl h
    cases gs with
    | nil => simp at hl
    | cons g gs =>
      unfold rdCellGroups
      rw [h (ci, g) (by simp)]
      dsimp only
      rw [ih gs (by simpa using hl) (fun p hp => h p (by simp [hp]))]

theorem int32_of_lt {n : Nat} (h : n < 2 ^ 31) : int32 (n : Int) := by
  unfold int32; constructor <;> omega

theorem rdSize_encInt (v : Nat) {n : Nat} (h : n < 2 ^ 31) (r : Bytes) :
    rdSize v (encInt v (n : Int) ++ r) = .ok (n, r) := by
  unfold rdSize encInt
  have h32 : ofSigned 32 (n : Int) = n := by
    unfold ofSigned
    rw [Int.emod_eq_of_lt (by omega) (by norm_num; omega)]; simp
  have h64 : ofSigned 64 (n : Int) = n := by
    unfold ofSigned
    rw [Int.emod_eq_of_lt (by omega) (by norm_num; omega)]; simp
  by_cases hv : v < 4
  · simp only [hv, if_true]
    rw [rdU_append 4 _ r (by simp), h32, decLE_encLE_of_lt (by norm_num; omega)]
  · simp only [hv, if_false]
    rw [rdU_append 8 _ r (by simp), h64, decLE_encLE_of_lt (by norm_num; omega)]


/-! ### the sections one by one -/

section parts
variable {cfg : Cfg} {v : Nat} {m : MeshFile} {kp : KeyPos}

theorem cells_section (wf : WellFormed cfg v m)
    (hpres : ∀ e ∈ master v m, e.1 = true → ∃ rest,
        jump v (encodeMeshb v m) kp e.2.kw =
          .ok (some ((((encodeMeshb v m).length - rest.length : Nat) : Int), e.2.body ++ rest)) ∧
        rest.length + e.2.body.length ≤ (encodeMeshb v m).length)
    (habs : ∀ e ∈ master v m, e.1 = false → jump v (encodeMeshb v m) kp e.2.kw = .ok none)
    (p : CellInfo × List (List Int)) (hp : p ∈ cellInfos.zip m.cells) :
    kwSection v (encodeMeshb v m) kp p.1.kw []
      (fun n => rdCells cfg v p.1 (m.nodes.length : Int) n.toNat) = .ok p.2 := by
  have hmem : (!p.2.isEmpty, secCells v p.1 p.2) ∈ master v m := by
    unfold master
    simp only [List.mem_append, List.mem_map]
    exact .inl (.inl (.inr ⟨p, hp, rfl⟩))
  by_cases hemp : p.2.isEmpty = true
  · have := habs _ hmem (by simp [hemp])
    simp only [secCells] at this
    rw [kwSection_absent this]
    rw [List.isEmpty_iff] at hemp
    rw [hemp]
  · obtain ⟨rest, hj, hl⟩ := hpres _ hmem (by simp [hemp])
    simp only [secCells] at hj hl
    have hlt : p.2.length < 2 ^ 31 := wf.cells_lt _ (List.of_mem_zip hp).2
    refine kwSection_present (int32_of_lt hlt) (by omega) hj ?_
    simp only [Int.toNat_natCast]
    exact rdCells_flatMap v p.2 rest (cellInfos_facts _ (mem_cellInfos_of_zip hp)) (wf.cell_ok p hp)

theorem geomsOf_mem {t : Nat} {gs : List GeomRec} {g : GeomRec} (h : g ∈ geomsOf t gs) :
    g ∈ gs ∧ g.type = t := by
  unfold geomsOf at h
  rw [List.mem_filter] at h
  exact ⟨h.1, by simpa using h.2⟩

theorem geom_section (wf : WellFormed cfg v m)
    (hpres : ∀ e ∈ master v m, e.1 = true → ∃ rest,
        jump v (encodeMeshb v m) kp e.2.kw =
          .ok (some ((((encodeMeshb v m).length - rest.length : Nat) : Int), e.2.body ++ rest)) ∧
        rest.length + e.2.body.length ≤ (encodeMeshb v m).length)
    (habs : ∀ e ∈ master v m, e.1 = false → jump v (encodeMeshb v m) kp e.2.kw = .ok none)
    (t : Nat) (ht : t ≤ 2) (acc : List GeomRec)
    (hnd : ((acc ++ geomsOf t m.geoms).map geomKey).Nodup) :
    kwSection v (encodeMeshb v m) kp (40 + t) acc
      (fun n => rdGeoms cfg v t (m.nodes.length : Int) n.toNat acc) = .ok (acc ++ geomsOf t m.geoms) := by
  have hmem : (!(geomsOf t m.geoms).isEmpty, secGeom v t (geomsOf t m.geoms)) ∈ master v m := by
    unfold master
    simp only [List.mem_append, List.mem_map]
    refine .inl (.inr ⟨t, ?_, rfl⟩)
    rcases (by omega : t = 0 ∨ t = 1 ∨ t = 2) with rfl | rfl | rfl <;> simp
  by_cases hemp : (geomsOf t m.geoms).isEmpty = true
  · have := habs _ hmem (by simp [hemp])
    simp only [secGeom] at this
    rw [kwSection_absent this]
    rw [List.isEmpty_iff] at hemp
    rw [hemp, List.append_nil]
  · obtain ⟨rest, hj, hl⟩ := hpres _ hmem (by simp [hemp])
    simp only [secGeom] at hj hl
    have hlt : (geomsOf t m.geoms).length < 2 ^ 31 := by
      have : (geomsOf t m.geoms).length ≤ m.geoms.length := List.length_filter_le _ _
      have := wf.geoms_lt; omega
    refine kwSection_present (int32_of_lt hlt) (by omega) hj ?_
    simp only [Int.toNat_natCast]
    exact rdGeoms_flatMap v ht _ acc rest
      (fun g hg => ⟨(geomsOf_mem hg).2, wf.geom_ok g (geomsOf_mem hg).1⟩) hnd

theorem geoms_result (wf : WellFormed cfg v m)
    (hpres : ∀ e ∈ master v m, e.1 = true → ∃ rest,
        jump v (encodeMeshb v m) kp e.2.kw =
          .ok (some ((((encodeMeshb v m).length - rest.length : Nat) : Int), e.2.body ++ rest)) ∧
        rest.length + e.2.body.length ≤ (encodeMeshb v m).length)
    (habs : ∀ e ∈ master v m, e.1 = false → jump v (encodeMeshb v m) kp e.2.kw = .ok none) :
    rdGeomTypes cfg v (encodeMeshb v m) kp (m.nodes.length : Int) [0, 1, 2] [] = .ok m.geoms := by
  have hnd := wf.geoms_nodup
  rw [wf.geoms_sorted] at hnd
  have hnd01 : ((geomsOf 0 m.geoms ++ geomsOf 1 m.geoms).map geomKey).Nodup := by
    rw [← List.append_assoc, List.map_append] at hnd
    exact (List.nodup_append.1 hnd).1
  have hnd0 : (([] ++ geomsOf 0 m.geoms).map geomKey).Nodup := by
    rw [List.map_append] at hnd01
    simpa using (List.nodup_append.1 hnd01).1
  unfold rdGeomTypes
  rw [geom_section wf hpres habs 0 (by omega) [] hnd0]
  dsimp only
  unfold rdGeomTypes
  rw [List.nil_append, geom_section wf hpres habs 1 (by omega) _ hnd01]
  dsimp only
  unfold rdGeomTypes
  rw [geom_section wf hpres habs 2 (by omega) _ (by rw [List.append_assoc]; exact hnd)]
  dsimp only
  unfold rdGeomTypes
  rw [List.append_assoc, ← wf.geoms_sorted]

theorem cad_result (wf : WellFormed cfg v m)
    (hpres : ∀ e ∈ master v m, e.1 = true → ∃ rest,
        jump v (encodeMeshb v m) kp e.2.kw =
          .ok (some ((((encodeMeshb v m).length - rest.length : Nat) : Int), e.2.body ++ rest)) ∧
        rest.length + e.2.body.length ≤ (encodeMeshb v m).length)
    (habs : ∀ e ∈ master v m, e.1 = false → jump v (encodeMeshb v m) kp e.2.kw = .ok none) :
    rdCad cfg v (encodeMeshb v m) kp = .ok m.cad := by
  have hmem : (!m.cad.isEmpty, secCad v m.cad) ∈ master v m := by
    unfold master; simp
  unfold rdCad
  by_cases hemp : m.cad.isEmpty = true
  · have := habs _ hmem (by simp [hemp])
    simp only [secCad] at this
    rw [this]
    rw [List.isEmpty_iff] at hemp
    rw [hemp]
  · obtain ⟨rest, hj, hl⟩ := hpres _ hmem (by simp [hemp])
    simp only [secCad] at hj hl
    rw [hj]
    dsimp only
    rw [List.append_assoc, rdSize_encInt v wf.cad_lt]
    dsimp only
    rw [if_neg (by have := wf.cad_cap; omega), takeN_append]
    dsimp only
    rw [if_pos (tell_sub (by omega)).symm]

end parts

/-- **C08 round trip**, for any reader configuration -/
theorem roundtrip_meshb_with {cfg : Cfg} {v : Nat} {m : MeshFile} (wf : WellFormed cfg v m) :
    decodeMeshbWith cfg (encodeMeshb v m) = .ok m := by
  obtain ⟨kp, hhead, hpres, habs⟩ := file_facts wf
  have hv1 : v ≠ 1 := by rcases wf.version with rfl | rfl | rfl <;> omega
  unfold decodeMeshbWith
  rw [hhead]
  dsimp only
  -- Dimension
  obtain ⟨r3, hj3, hl3⟩ := hpres (true, secDim v m) (by simp [master]) rfl
  simp only [secDim] at hj3 hl3
  rw [hj3]
  dsimp only
  have hdim : dim m < 2 ^ 31 := by unfold dim; split <;> norm_num
  rw [rdI32_le32 hdim]
  dsimp only
  have hdim2 : ¬ (((dim m : Nat) : Int) < 2 ∨ 3 < ((dim m : Nat) : Int)) := by
    unfold dim; split <;> norm_num
  rw [if_neg hdim2]
  have htw : decide (((dim m : Nat) : Int) = 2) = m.twod := by
    unfold dim; cases m.twod <;> simp
  rw [htw]
  -- Vertices
  have hne : (!m.nodes.isEmpty) = true := by
    have := wf.nodes_pos
    cases hn : m.nodes with
    | nil => exact absurd hn this
    | cons a l => simp
  obtain ⟨r4, hj4, hl4⟩ := hpres (!m.nodes.isEmpty, secVerts v m) (by simp [master]) hne
  simp only [secVerts] at hj4 hl4
  rw [hj4]
  dsimp only
  rw [List.append_assoc, rdInt_encInt v (int32_of_lt wf.nodes_lt)]
  dsimp only
  simp only [Int.toNat_natCast]
  rw [rdVerts_flatMap hv1 m.twod m.nodes r4 wf.twod_z]
  dsimp only
  rw [if_neg (by rw [tell_sub (by omega)]; simp)]
  -- cells, geometry, CAD
  rw [rdCellGroups_of_zip cellInfos m.cells (by rw [wf.cells_len]; decide)
    (cells_section wf hpres habs)]
  dsimp only
  rw [geoms_result wf hpres habs]
  dsimp only
  rw [cad_result wf hpres habs]

end Refine.Lemmas.Codec
