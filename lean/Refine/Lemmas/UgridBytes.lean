import Refine.Model.Ugrid
import Refine.Lemmas.CodecBytes

/-! word-level lemmas for the binary UGRID codec: the generated swap macros are involutions, what the writer emits
    is what the reader returns, sizes of the encoded pieces -/
namespace Refine.Lemmas.Ugrid
open Refine.Gen Refine.Model.Endian Refine.Model.Ugrid
open Refine.Model.Meshb (Bytes Status Vertex P Cfg takeN encLE decLE toSigned ofSigned int32 wrap32 adjAdd adjAddAll)
open Refine.Lemmas.Codec (takeN_append takeN_ok takeN_error decLE_encLE decLE_encLE_of_lt ofSigned_lt
  toSigned32_ofSigned32 ofSigned64_mod encLE_length decLE_lt int32_iff)

theorem list4 (l : Bytes) (h : l.length = 4) : ∃ b0 b1 b2 b3, l = [b0, b1, b2, b3] := by
  match l, h with
  | [b0, b1, b2, b3], _ => exact ⟨b0, b1, b2, b3, rfl⟩

theorem list8 (l : Bytes) (h : l.length = 8) : ∃ b0 b1 b2 b3 b4 b5 b6 b7, l = [b0, b1, b2, b3, b4, b5, b6, b7] := by
  match l, h with
  | [b0, b1, b2, b3, b4, b5, b6, b7], _ => exact ⟨b0, b1, b2, b3, b4, b5, b6, b7, rfl⟩

/-- `SWAP_INT` (as regenerated from ref_endian.h) undoes itself -/
theorem swap_int_invol (a : Bytes) (h : a.length = 4) : applyPerm Endian.swap_int (applyPerm Endian.swap_int a) = a := by
  obtain ⟨b0, b1, b2, b3, rfl⟩ := list4 a h
  simp [applyPerm, Endian.swap_int]

/-- `SWAP_LONG` undoes itself -/
theorem swap_long_invol (a : Bytes) (h : a.length = 8) :
    applyPerm Endian.swap_long (applyPerm Endian.swap_long a) = a := by
  obtain ⟨b0, b1, b2, b3, b4, b5, b6, b7, rfl⟩ := list8 a h
  simp [applyPerm, Endian.swap_long]

/-- `SWAP_DBL` undoes itself -/
theorem swap_dbl_invol (a : Bytes) (h : a.length = 8) : applyPerm Endian.swap_dbl (applyPerm Endian.swap_dbl a) = a := by
  obtain ⟨b0, b1, b2, b3, b4, b5, b6, b7, rfl⟩ := list8 a h
  simp [applyPerm, Endian.swap_dbl]

@[simp] theorem applyPerm_length (p : List Nat) (a : Bytes) : (applyPerm p a).length = p.length := by
  simp [applyPerm]

theorem swap_int_length : Endian.swap_int.length = 4 := by decide
theorem swap_long_length : Endian.swap_long.length = 8 := by decide
theorem swap_dbl_length : Endian.swap_dbl.length = 8 := by decide

/-- the word permutation the C uses for a `w`-byte integer -/
def wperm (w : Nat) : List Nat := if w = 8 then Endian.swap_long else Endian.swap_int

theorem wperm_length {w : Nat} (hw : w = 4 ∨ w = 8) : (wperm w).length = w := by
  rcases hw with rfl | rfl <;> simp [wperm, swap_int_length, swap_long_length]

theorem wperm_invol {w : Nat} (hw : w = 4 ∨ w = 8) (a : Bytes) (h : a.length = w) :
    applyPerm (wperm w) (applyPerm (wperm w) a) = a := by
  rcases hw with rfl | rfl
  · simpa [wperm] using swap_int_invol a h
  · simpa [wperm] using swap_long_invol a h

theorem encWord_length (fl : Flavor) {w : Nat} (hw : w = 4 ∨ w = 8) (n : Nat) : (encWord fl w n).length = w := by
  unfold encWord
  by_cases hs : fl.swap
  · simp only [hs, if_true]
    have := wperm_length hw
    simpa [wperm] using this
  · simp [hs]

theorem decWord_encWord (fl : Flavor) {w : Nat} (hw : w = 4 ∨ w = 8) (n : Nat) :
    decWord fl w (encWord fl w n) = n % 256 ^ w := by
  unfold decWord encWord
  by_cases hs : fl.swap
  · simp only [hs, if_true]
    have := wperm_invol hw (encLE w n) (by simp)
    simp only [wperm] at this
    rw [this, decLE_encLE]
  · simp only [hs]
    simp [decLE_encLE]

theorem rdWord_encWord (fl : Flavor) {w : Nat} (hw : w = 4 ∨ w = 8) (n : Nat) (r : Bytes) :
    rdWord fl w (encWord fl w n ++ r) = .ok (n % 256 ^ w, r) := by
  have hl := encWord_length fl hw n
  unfold rdWord
  have ht : takeN w (encWord fl w n ++ r) = .ok (encWord fl w n, r) := by
    have := takeN_append (encWord fl w n) r
    rwa [hl] at this
  rw [ht]
  simp only [decWord_encWord fl hw]

theorem encInt_length (fl : Flavor) (x : Int) : (encInt fl x).length = fl.ibytes := by
  unfold encInt Flavor.ibytes
  by_cases hf : fl.fat
  · simp [hf, encWord_length fl (Or.inr rfl)]
  · simp [hf, encWord_length fl (Or.inl rfl)]

theorem rdInt_encInt (fl : Flavor) {x : Int} (h : int32 x) (r : Bytes) :
    rdInt fl (encInt fl x ++ r) = .ok (x, r) := by
  unfold rdInt encInt
  by_cases hf : fl.fat
  · simp only [hf, if_true]
    rw [rdWord_encWord fl (Or.inr rfl)]
    have h1 : ofSigned 64 x % 256 ^ 8 = ofSigned 64 x := by
      have := ofSigned_lt 64 x
      apply Nat.mod_eq_of_lt
      norm_num at this ⊢; omega
    have e := ofSigned64_mod h
    norm_num at e
    simp only [h1]
    norm_num
    rw [e]
    exact toSigned32_ofSigned32 h
  · simp only [hf, Bool.false_eq_true, if_false]
    rw [rdWord_encWord fl (Or.inl rfl)]
    have h1 : ofSigned 32 x % 256 ^ 4 = ofSigned 32 x := by
      have := ofSigned_lt 32 x
      apply Nat.mod_eq_of_lt
      norm_num at this ⊢; omega
    simp only [h1]
    rw [toSigned32_ofSigned32 h]

theorem encDbl_length (fl : Flavor) (u : UInt64) : (encDbl fl u).length = 8 := by
  unfold encDbl
  by_cases hs : fl.swap <;> simp [hs, swap_dbl_length]

theorem rdDbl_encDbl (fl : Flavor) (u : UInt64) (r : Bytes) : rdDbl fl (encDbl fl u ++ r) = .ok (u, r) := by
  have hl := encDbl_length fl u
  unfold rdDbl
  have ht : takeN 8 (encDbl fl u ++ r) = .ok (encDbl fl u, r) := by
    have := takeN_append (encDbl fl u) r
    rwa [hl] at this
  rw [ht]
  simp only
  have hu : decLE (encLE 8 u.toNat) = u.toNat :=
    decLE_encLE_of_lt (by have := u.toNat_lt; norm_num at this ⊢; omega)
  unfold encDbl
  by_cases hs : fl.swap
  · simp only [hs, if_true]
    rw [swap_dbl_invol _ (by simp), hu]
    simp
  · simp only [hs]
    simp [hu]

theorem encVertex_length (fl : Flavor) (p : Vertex) : (encVertex fl p).length = 24 := by
  simp [encVertex, encDbl_length]

/-! ### lists of integers / vertices -/

theorem rdInts_flatMap (fl : Flavor) (xs : List Int) (h : ∀ x ∈ xs, int32 x) (r : Bytes) :
    rdInts fl xs.length (xs.flatMap (encInt fl) ++ r) = .ok (xs, r) := by
  induction xs with
  | nil => simp [rdInts]
  | cons x xs ih =>
    simp only [List.length_cons, List.flatMap_cons, List.append_assoc, rdInts]
    rw [rdInt_encInt fl (h x (by simp))]
    simp only
    rw [ih (fun y hy => h y (by simp [hy]))]

theorem rdVerts_flatMap (fl : Flavor) (vs : List Vertex) (r : Bytes) :
    rdVerts fl vs.length (vs.flatMap (encVertex fl) ++ r) = .ok (vs, r) := by
  induction vs with
  | nil => simp [rdVerts]
  | cons v vs ih =>
    simp only [List.length_cons, List.flatMap_cons, List.append_assoc, rdVerts, encVertex]
    rw [rdDbl_encDbl]; simp only
    rw [rdDbl_encDbl]; simp only
    rw [rdDbl_encDbl]; simp only
    rw [ih]

theorem flatMap_encInt_length (fl : Flavor) (xs : List Int) :
    (xs.flatMap (encInt fl)).length = xs.length * fl.ibytes := by
  induction xs with
  | nil => simp
  | cons x xs ih => simp [List.flatMap_cons, encInt_length, ih, Nat.add_mul, Nat.add_comm]

theorem flatMap_encVertex_length (fl : Flavor) (vs : List Vertex) :
    (vs.flatMap (encVertex fl)).length = vs.length * 24 := by
  induction vs with
  | nil => simp
  | cons v vs ih => simp [List.flatMap_cons, encVertex_length, ih, Nat.add_mul, Nat.add_comm]

/-! ### successful reads consume exactly what they return -/

theorem rdWord_len {fl : Flavor} {w : Nat} {s r : Bytes} {n : Nat} (h : rdWord fl w s = .ok (n, r)) :
    s.length = w + r.length := by
  unfold rdWord at h
  cases ht : takeN w s with
  | error e => simp [ht] at h
  | ok p =>
    obtain ⟨a, r'⟩ := p
    simp [ht] at h
    obtain ⟨rfl, hl⟩ := takeN_ok ht
    simp [hl, h.2]

theorem rdInt_len {fl : Flavor} {s r : Bytes} {x : Int} (h : rdInt fl s = .ok (x, r)) :
    s.length = fl.ibytes + r.length := by
  unfold rdInt at h
  unfold Flavor.ibytes
  by_cases hf : fl.fat
  · simp only [hf, if_true] at h ⊢
    cases hw : rdWord fl 8 s with
    | error e => simp [hw] at h
    | ok p =>
      obtain ⟨n, r'⟩ := p
      simp [hw] at h
      rw [rdWord_len hw, h.2]
  · simp only [hf] at h ⊢
    cases hw : rdWord fl 4 s with
    | error e => simp [hw] at h
    | ok p =>
      obtain ⟨n, r'⟩ := p
      simp [hw] at h
      rw [rdWord_len hw, h.2]; simp

theorem rdInts_len {fl : Flavor} {n : Nat} {s r : Bytes} {xs : List Int} (h : rdInts fl n s = .ok (xs, r)) :
    xs.length = n ∧ s.length = n * fl.ibytes + r.length := by
  induction n generalizing s xs with
  | zero => simp [rdInts] at h; obtain ⟨rfl, rfl⟩ := h; simp
  | succ n ih =>
    simp only [rdInts] at h
    cases h1 : rdInt fl s with
    | error e => simp [h1] at h
    | ok p =>
      obtain ⟨x, s1⟩ := p
      simp only [h1] at h
      cases h2 : rdInts fl n s1 with
      | error e => simp [h2] at h
      | ok q =>
        obtain ⟨ys, s2⟩ := q
        simp [h2] at h
        obtain ⟨rfl, rfl⟩ := h
        obtain ⟨hl, hs⟩ := ih h2
        refine ⟨by simp [hl], ?_⟩
        rw [rdInt_len h1, hs, Nat.add_mul]; omega

theorem rdDbl_len {fl : Flavor} {s r : Bytes} {x : UInt64} (h : rdDbl fl s = .ok (x, r)) : s.length = 8 + r.length := by
  unfold rdDbl at h
  cases ht : takeN 8 s with
  | error e => simp [ht] at h
  | ok p =>
    obtain ⟨a, r'⟩ := p
    simp [ht] at h
    obtain ⟨rfl, hl⟩ := takeN_ok ht
    simp [hl, h.2]

theorem rdVerts_len {fl : Flavor} {n : Nat} {s r : Bytes} {vs : List Vertex} (h : rdVerts fl n s = .ok (vs, r)) :
    vs.length = n ∧ s.length = n * 24 + r.length := by
  induction n generalizing s vs with
  | zero => simp [rdVerts] at h; obtain ⟨rfl, rfl⟩ := h; simp
  | succ n ih =>
    simp only [rdVerts] at h
    cases h1 : rdDbl fl s with
    | error e => simp [h1] at h
    | ok p1 =>
      obtain ⟨x, s1⟩ := p1
      simp only [h1] at h
      cases h2 : rdDbl fl s1 with
      | error e => simp [h2] at h
      | ok p2 =>
        obtain ⟨y, s2⟩ := p2
        simp only [h2] at h
        cases h3 : rdDbl fl s2 with
        | error e => simp [h3] at h
        | ok p3 =>
          obtain ⟨z, s3⟩ := p3
          simp only [h3] at h
          cases h4 : rdVerts fl n s3 with
          | error e => simp [h4] at h
          | ok q =>
            obtain ⟨ws, s4⟩ := q
            simp [h4] at h
            obtain ⟨rfl, rfl⟩ := h
            obtain ⟨hl, hs⟩ := ih h4
            refine ⟨by simp [hl], ?_⟩
            rw [rdDbl_len h1, rdDbl_len h2, rdDbl_len h3, hs]; omega

end Refine.Lemmas.Ugrid
